//go:build pC07 || pall

package main

import (
	"context"
	"encoding/binary"
	"fmt"
	"io"
	"net"
	"sort"
	"strings"
	"sync"
	"sync/atomic"
	"syscall"
	"time"

	"github.com/IrineSistiana/mosdns/v5/pkg/upstream"
)

// C07, part 5: the upstreams as pkg/upstream.NewUpstream builds them out of the transports (plain UDP with its
// TCP retry after a truncated reply, tcp, tcp+pipeline) on real loopback sockets, with the real timeouts.
//
// A server listening on UDP and TCP on one port decides per query (by its unique question) what happens: the
// UDP side answers, answers with TC set (at once or late), or stays silent; the TCP side answers, reads the
// query and stays silent, closes after the query, sends half a frame and closes, or (second server: the port
// is bound but nobody listens) refuses the connection. The server publishes the moment it has read a query on
// either side, so a trigger (cancel, Close of the upstream) can be placed in a chosen phase of a call:
// before it starts, while the UDP query is unanswered, while the TCP retry is unanswered, or a random moment.
//
// Oracles (from the statement only):
//   - a call returns promptly after its context is cancelled or has timed out, in whatever phase it is;
//   - a call whose connection fails (peer close, half frame, refused dial) returns, with an error;
//   - after Close: Close returns, pending calls return, with an error if the server never answered them; a later
//     call fails at once; every connection the upstream opened has been closed (counted by the upstream's own
//     EventObserver) and no goroutine is left in transport code;
//   - (thorough) with an unbounded context and a silent server every call returns with an error within the
//     transports' own liveness timeouts.
// "promptly" is 1 s here (the code reacts within microseconds; the bound is widened by what the stall meter saw).
//
// Calls on the wrapper whose phase at the end of the context is known are replayed on Model.C07U (the wrapper
// as a sequence of inner exchanges, each with the regenerated relation of its context to the caller's).

type beh07 struct {
	udp   string        // plain | tc | silent            (udp upstreams only)
	delay time.Duration // the UDP reply is sent late
	tcp   string        // ans | silent | close | half | refuse | -
}

func (b beh07) String() string {
	s := ""
	if b.udp != "" {
		s = "udp=" + b.udp
		if b.delay > 0 {
			s += "+late"
		}
		s += " "
	}
	return s + "tcp=" + b.tcp
}

type ev07 struct {
	udpSeen, tcpSeen chan struct{}
	uOnce, tOnce     sync.Once
}

type srv07 struct {
	mu     sync.Mutex
	uc     *net.UDPConn
	tl     net.Listener
	holdFd int
	script map[int]beh07
	evs    map[int]*ev07
	final  map[int]bool // a reply that ends the exchange (not TC) was sent for this question
	conns  []net.Conn
	stop   chan struct{}
}

func newSrv07(withTCP bool) (*srv07, string) {
	for try := 0; try < 50; try++ {
		s := &srv07{holdFd: -1, script: map[int]beh07{}, evs: map[int]*ev07{}, final: map[int]bool{}, stop: make(chan struct{})}
		port := 0
		if withTCP {
			l, err := net.Listen("tcp", "127.0.0.1:0")
			if err != nil {
				fatal(err)
			}
			s.tl = l
			port = l.Addr().(*net.TCPAddr).Port
		}
		uc, err := net.ListenUDP("udp", &net.UDPAddr{IP: net.IPv4(127, 0, 0, 1), Port: port})
		if err != nil {
			if s.tl != nil {
				s.tl.Close()
			}
			continue
		}
		if !withTCP {
			// a bound TCP socket that does not listen: connections are refused and nobody else can take the port
			port = uc.LocalAddr().(*net.UDPAddr).Port
			fd, err := syscall.Socket(syscall.AF_INET, syscall.SOCK_STREAM, 0)
			if err != nil {
				fatal(err)
			}
			if err := syscall.Bind(fd, &syscall.SockaddrInet4{Port: port, Addr: [4]byte{127, 0, 0, 1}}); err != nil {
				syscall.Close(fd)
				uc.Close()
				continue
			}
			s.holdFd = fd
		}
		s.uc = uc
		go s.serveUDP()
		if withTCP {
			go s.serveTCP()
		}
		return s, fmt.Sprintf("127.0.0.1:%d", port)
	}
	fatal(fmt.Errorf("cannot bind a UDP+TCP port pair"))
	return nil, ""
}

func (s *srv07) register(tag int, b beh07) *ev07 {
	e := &ev07{udpSeen: make(chan struct{}), tcpSeen: make(chan struct{})}
	s.mu.Lock()
	s.script[tag] = b
	s.evs[tag] = e
	s.mu.Unlock()
	return e
}

func (s *srv07) lookup(tag int) (beh07, *ev07, bool) {
	s.mu.Lock()
	defer s.mu.Unlock()
	b, ok := s.script[tag]
	return b, s.evs[tag], ok
}

func (s *srv07) answered(tag int) bool {
	s.mu.Lock()
	defer s.mu.Unlock()
	return s.final[tag]
}

func (s *srv07) serveUDP() {
	buf := make([]byte, 65535)
	for {
		n, addr, err := s.uc.ReadFromUDP(buf)
		if err != nil {
			return
		}
		if n < 12 {
			continue
		}
		q := append([]byte(nil), buf[:n]...)
		tag := tagOf(q)
		b, e, ok := s.lookup(tag)
		if !ok {
			b = beh07{udp: "plain"}
		}
		if e != nil {
			e.uOnce.Do(func() { close(e.udpSeen) })
		}
		if b.udp == "silent" {
			continue
		}
		rep := mkReply(q, binary.BigEndian.Uint16(q))
		if b.udp == "tc" {
			rep[2] |= 2
		}
		send := func() {
			if b.udp != "tc" {
				s.mu.Lock()
				s.final[tag] = true
				s.mu.Unlock()
			}
			s.uc.WriteToUDP(rep, addr)
		}
		if b.delay > 0 {
			go func() {
				select {
				case <-time.After(b.delay):
					send()
				case <-s.stop:
				}
			}()
		} else {
			send()
		}
	}
}

func (s *srv07) serveTCP() {
	for {
		c, err := s.tl.Accept()
		if err != nil {
			return
		}
		s.mu.Lock()
		s.conns = append(s.conns, c)
		s.mu.Unlock()
		go func() {
			defer c.Close()
			for {
				var h [2]byte
				if _, err := io.ReadFull(c, h[:]); err != nil {
					return
				}
				q := make([]byte, binary.BigEndian.Uint16(h[:]))
				if _, err := io.ReadFull(c, q); err != nil || len(q) < 12 {
					return
				}
				tag := tagOf(q)
				b, e, ok := s.lookup(tag)
				if !ok {
					b = beh07{tcp: "ans"}
				}
				if e != nil {
					e.tOnce.Do(func() { close(e.tcpSeen) })
				}
				switch b.tcp {
				case "silent":
					// keep reading: the connection stays open and nothing is ever sent for this query
				case "close":
					return
				case "half":
					rep := mkReply(q, binary.BigEndian.Uint16(q))
					f := append([]byte{0, byte(len(rep))}, rep...)
					c.Write(f[:len(f)/2])
					return
				default:
					rep := mkReply(q, binary.BigEndian.Uint16(q))
					f := append([]byte{byte(len(rep) >> 8), byte(len(rep))}, rep...)
					s.mu.Lock()
					s.final[tag] = true
					s.mu.Unlock()
					if _, err := c.Write(f); err != nil {
						return
					}
				}
			}
		}()
	}
}

func (s *srv07) close() {
	close(s.stop)
	s.uc.Close()
	if s.tl != nil {
		s.tl.Close()
	}
	if s.holdFd >= 0 {
		syscall.Close(s.holdFd)
	}
	s.mu.Lock()
	for _, c := range s.conns {
		c.Close()
	}
	s.mu.Unlock()
}

// obs07 is the upstream's own EventObserver: every connection it opens and closes.
type obs07 struct{ opened, closed atomic.Int64 }

func (o *obs07) OnEvent(typ upstream.Event) {
	switch typ {
	case upstream.EventConnOpen:
		o.opened.Add(1)
	case upstream.EventConnClose:
		o.closed.Add(1)
	}
}

type scen07 struct {
	kind  string // udp | tcp | tcp+pipeline
	beh   beh07
	trig  string // none | cancel | deadline
	point string // start | udp-seen | tcp-seen | random     (where a cancel is placed)
}

func (sc scen07) String() string {
	s := sc.kind + " " + sc.beh.String() + " " + sc.trig
	if sc.trig == "cancel" {
		s += "@" + sc.point
	}
	return s
}

type ucall07 struct {
	scen07
	tag     int
	upName  string
	ev      *ev07
	srv     *srv07
	cancel  context.CancelFunc
	done    chan struct{}
	err     error
	ok      bool
	started time.Time
	retAt   time.Time    // valid once done is closed
	doneAt  atomic.Int64 // unix nanos of the moment the context was done (0: not yet)
	// what was seen at the moment the context ended / Close was called
	phaseTCP bool // the TCP side had read the (retried) query
}

func (c *ucall07) returned() bool {
	select {
	case <-c.done:
		return true
	default:
		return false
	}
}

// silent: the server never sends anything that ends this exchange and its connection stays up
func (sc scen07) silent() bool {
	if sc.kind == "udp" {
		return sc.beh.udp == "silent" || sc.beh.udp == "tc" && sc.beh.tcp == "silent"
	}
	return sc.beh.tcp == "silent"
}

// failing: the connection of the last phase fails by itself
func (sc scen07) failing() bool {
	if sc.kind == "udp" && sc.beh.udp != "tc" {
		return false
	}
	return sc.beh.tcp == "close" || sc.beh.tcp == "half" || sc.beh.tcp == "refuse"
}

var tag07 = 840000

type fail07 struct {
	Upstream   string `json:"upstream"`
	Behaviour  string `json:"server_behaviour_for_this_query"`
	Trigger    string `json:"trigger"`
	Phase      string `json:"phase_of_the_call_at_the_trigger"`
	Pending    string `json:"pending_after_trigger,omitempty"`
	Took       string `json:"call_took,omitempty"`
	Err        string `json:"returned_error,omitempty"`
	Query      int    `json:"query"`
	Round      int    `json:"round"`
	Concurrent string `json:"calls_of_the_round"`
}

func runC07Upstreams(r *Run) {
	const prompt = time.Second
	sT, addrT := newSrv07(true)
	defer sT.close()
	sU, addrU := newSrv07(false)
	defer sU.close()

	// ---- the scenario list: every upstream kind x server behaviour x trigger
	var scens []scen07
	add := func(kind string, b beh07) {
		sc := scen07{kind: kind, beh: b}
		if sc.silent() {
			points := []string{"start", "random"}
			if kind == "udp" && b.udp == "silent" {
				points = append(points, "udp-seen")
			} else {
				points = append(points, "tcp-seen", "tcp-seen")
			}
			for _, p := range points {
				scens = append(scens, scen07{kind, b, "cancel", p})
			}
			scens = append(scens, scen07{kind, b, "deadline", ""}, scen07{kind, b, "deadline", ""})
		} else {
			scens = append(scens, scen07{kind, b, "none", ""}, scen07{kind, b, "cancel", "random"}, scen07{kind, b, "deadline", ""})
		}
	}
	late := func() time.Duration { return time.Duration(5+r.Rng.Intn(40)) * time.Millisecond }
	for _, tcp := range []string{"ans", "silent", "close", "half", "refuse"} {
		add("udp", beh07{udp: "tc", tcp: tcp})
		add("tcp", beh07{tcp: tcp})
		add("tcp+pipeline", beh07{tcp: tcp})
	}
	add("udp", beh07{udp: "tc", delay: late(), tcp: "silent"})
	add("udp", beh07{udp: "tc", delay: late(), tcp: "ans"})
	add("udp", beh07{udp: "silent", tcp: "-"})
	add("udp", beh07{udp: "plain", tcp: "-"})
	add("udp", beh07{udp: "plain", delay: late(), tcp: "-"})
	reps := r.N(2, 8)
	base := append([]scen07(nil), scens...)
	for i := 1; i < reps; i++ {
		scens = append(scens, base...)
	}
	r.Rng.Shuffle(len(scens), func(i, j int) { scens[i], scens[j] = scens[j], scens[i] })

	gBase := goroutines07()
	for i := 0; i < 200 && gBase > 0; i++ { // let what the earlier parts left behind go away
		time.Sleep(time.Millisecond)
		gBase = goroutines07()
	}

	type up07 struct {
		name string
		u    upstream.Upstream
		srv  *srv07
		ob   *obs07
	}
	round := 0
	for len(scens) > 0 {
		n := 1 + r.Rng.Intn(5)
		if n > len(scens) {
			n = len(scens)
		}
		batch := scens[:n]
		scens = scens[n:]
		closeRound := r.Rng.Intn(3) == 0 // the upstreams are closed while the calls of this round are pending
		ups := map[string]*up07{}
		getUp := func(sc scen07) *up07 {
			name, addr, srv := sc.kind, addrT, sT
			if sc.beh.tcp == "refuse" {
				name, addr, srv = sc.kind+"(no tcp listener)", addrU, sU
			}
			if u, ok := ups[name]; ok {
				return u
			}
			ob := &obs07{}
			u, err := upstream.NewUpstream(sc.kind+"://"+addr, upstream.Opt{EventObserver: ob})
			if err != nil {
				fatal(err)
			}
			ups[name] = &up07{name, u, srv, ob}
			return ups[name]
		}
		var script []string
		for _, sc := range batch {
			script = append(script, sc.String())
		}
		sort.Strings(script)
		concurrent := strings.Join(script, "; ")
		if closeRound {
			concurrent += "; Close while pending"
		}

		meter := startStallMeter()
		var calls []*ucall07
		var trig sync.WaitGroup
		for _, sc := range batch {
			up := getUp(sc)
			tag07++
			c := &ucall07{scen07: sc, tag: tag07, upName: up.name, srv: up.srv, done: make(chan struct{})}
			c.ev = up.srv.register(c.tag, sc.beh)
			if closeRound && sc.silent() && sc.trig == "cancel" && sc.point != "start" {
				c.trig = "close" // no trigger of its own: Close comes when it is in the phase `point` names
			}
			var ctx context.Context
			if sc.trig == "deadline" {
				ctx, c.cancel = context.WithTimeout(context.Background(), time.Duration(30+r.Rng.Intn(120))*time.Millisecond)
			} else {
				ctx, c.cancel = context.WithCancel(context.Background()) // unbounded
			}
			end := func() { // the context ends now (or has ended)
				select {
				case <-c.ev.tcpSeen:
					c.phaseTCP = true
				default:
				}
				c.cancel()
				c.doneAt.CompareAndSwap(0, time.Now().UnixNano())
			}
			if sc.trig == "cancel" && sc.point == "start" {
				end()
			}
			q := mkQuery(uint16(r.Rng.Intn(65536)), c.tag)
			c.started = time.Now()
			go func() {
				resp, err := up.u.ExchangeContext(ctx, q)
				c.retAt = time.Now()
				c.err, c.ok = err, err == nil && resp != nil
				close(c.done)
			}()
			calls = append(calls, c)
			jitter := time.Duration(r.Rng.Intn(3000)) * time.Microsecond
			anywhere := time.Duration(r.Rng.Intn(60000)) * time.Microsecond
			switch {
			case sc.trig == "deadline":
				trig.Add(1)
				go func() {
					defer trig.Done()
					<-ctx.Done()
					now := time.Now().UnixNano()
					select {
					case <-c.ev.tcpSeen:
						c.phaseTCP = true
					default:
					}
					c.doneAt.CompareAndSwap(0, now)
				}()
			case c.trig == "cancel" && sc.point != "start":
				trig.Add(1)
				go func() {
					defer trig.Done()
					var ev chan struct{}
					switch sc.point {
					case "udp-seen":
						ev = c.ev.udpSeen
					case "tcp-seen":
						ev = c.ev.tcpSeen
					}
					if ev != nil {
						select {
						case <-ev:
						case <-c.done:
						case <-time.After(2 * time.Second):
						}
						time.Sleep(jitter)
					} else {
						time.Sleep(anywhere)
					}
					end()
				}()
			}
		}
		// a closing round: Close comes when the calls it is aimed at are in the phase their scenario names
		if closeRound {
			for _, c := range calls {
				if c.trig != "close" {
					continue
				}
				var ev chan struct{}
				switch c.point {
				case "udp-seen":
					ev = c.ev.udpSeen
				case "tcp-seen":
					ev = c.ev.tcpSeen
				}
				if ev != nil {
					select {
					case <-ev:
					case <-c.done:
					case <-time.After(2 * time.Second):
					}
				}
			}
			time.Sleep(time.Duration(r.Rng.Intn(20000)) * time.Microsecond)
		}
		var closeReturned time.Time
		closeAll := func() bool {
			ch := make(chan struct{})
			go func() {
				for _, u := range ups {
					u.u.Close()
				}
				close(ch)
			}()
			select {
			case <-ch:
				closeReturned = time.Now()
				return true
			case <-time.After(3 * time.Second):
				return false
			}
		}
		pendingAtClose := map[*ucall07]bool{}
		tcpAtClose := map[*ucall07]bool{}
		closeOK := true
		if closeRound {
			for _, c := range calls {
				if !c.returned() {
					pendingAtClose[c] = true
					select {
					case <-c.ev.tcpSeen:
						tcpAtClose[c] = true
					default:
					}
				}
			}
			closeOK = closeAll()
		}
		trig.Wait()
		// wait for the calls: those with a trigger for `prompt` (and some slack) after it, the others the same time from now
		waitAll := func(d time.Duration) bool {
			limit := time.After(d)
			for _, c := range calls {
				select {
				case <-c.done:
				case <-limit:
					return false
				}
			}
			return true
		}
		all := waitAll(prompt + 500*time.Millisecond)
		stall := meter.Stop()
		allow := prompt
		if stall > 50*time.Millisecond {
			allow += 4 * stall
			r.Count("timing-bound-widened:machine-stalled")
			if !all {
				all = waitAll(4 * stall)
			}
		}
		judged := time.Now()
		phase := func(c *ucall07) string {
			switch {
			case c.kind == "udp" && c.phaseTCP:
				return "the udp reply was truncated and the tcp retry was waiting for its reply"
			case c.kind == "udp":
				return "udp exchange (the tcp side had not seen the query)"
			case c.phaseTCP:
				return "waiting for the reply on the tcp connection"
			}
			return "before the server had read the query"
		}
		for _, c := range calls {
			f := fail07{Upstream: c.upName, Behaviour: c.beh.String(), Trigger: c.trig, Phase: phase(c), Query: c.tag, Round: round, Concurrent: concurrent}
			if c.trig == "cancel" {
				f.Trigger = "cancel, placed: " + c.point
			}
			if c.returned() {
				f.Took = c.retAt.Sub(c.started).String()
				f.Err = fmt.Sprint(c.err)
			}
			ended := c.doneAt.Load()
			// ---- after Close, pending calls return with an error
			if pendingAtClose[c] && closeOK {
				fc := f
				fc.Trigger = "Close of the upstream while the call was pending (its context: " + c.trig + ")"
				if c.trig == "close" {
					fc.Trigger = "Close of the upstream while the call was pending (its context: unbounded), placed: " + c.point
				}
				if tcpAtClose[c] {
					c.phaseTCP = true
					fc.Phase = phase(c)
				}
				if !c.returned() {
					fc.Pending = judged.Sub(closeReturned).String() + " after Close had returned (and still pending)"
					r.Fail("a pending exchange did not return after Close", fc)
				} else if late := c.retAt.Sub(closeReturned); late > allow {
					fc.Pending = late.String() + " after Close had returned"
					r.Fail("a pending exchange did not return after Close", fc)
				} else if c.ok && !c.srv.answered(c.tag) {
					r.Fail("an exchange reported success although the server never answered it and Close came while it was pending", fc)
				}
				r.Count("upstream:close-while-pending:" + c.kind)
			}
			switch {
			case ended != 0:
				// ---- promptly after its context is cancelled or times out
				at := time.Unix(0, ended)
				if !c.returned() {
					f.Pending = judged.Sub(at).String() + " after the context was done (and still pending)"
					r.Fail("an exchange did not return promptly after its context was cancelled / had timed out", f)
				} else if late := c.retAt.Sub(at); late > allow {
					f.Pending = late.String() + " after the context was done"
					r.Fail("an exchange did not return promptly after its context was cancelled / had timed out", f)
				}
				r.Count("upstream:context-ends:" + c.kind)
				// replay on the model when the phase is unambiguous: nothing but the end of the context can have ended the
				// call (silent server, no Close before), it was pending at that moment, and (wrapper) either the tcp side
				// had the query or the udp side never answers
				if c.silent() && !pendingAtClose[c] && (!c.returned() || !c.retAt.Before(at)) {
					out := "running"
					if c.returned() && c.retAt.Sub(at) <= allow {
						out = "returned"
					}
					switch {
					case c.kind != "udp":
						r.Line("wrap direct ctx", out)
					case c.phaseTCP:
						r.Line("wrap udpWithFallback next,ctx", "running;"+out)
					case c.beh.udp == "silent":
						r.Line("wrap udpWithFallback ctx", out)
					}
				}
			case pendingAtClose[c]:
			case c.failing():
				// ---- with an error when the connection fails (context unbounded)
				if !c.returned() {
					f.Pending = judged.Sub(c.started).String() + " after the call was made (and still pending)"
					r.Fail("an exchange whose connection failed (peer close / half a frame / refused dial) did not return", f)
				}
				r.Count("upstream:connection-fails:" + c.kind)
			default:
				// answered (or answered late) with an unbounded context: it returns; nothing else is C07's matter
				if c.returned() {
					r.Count("upstream:answered:" + c.kind)
				} else {
					r.Count("upstream:answered-call-still-pending-at-the-end-of-the-round")
				}
			}
			if c.failing() && c.returned() && c.ok {
				r.Fail("an exchange reported success although its connection failed before any reply", f)
			}
			r.Eval(fmt.Sprintf("up/%s/%s/%s/%s/%v", c.kind, c.beh.String(), c.trig, c.point, pendingAtClose[c]), true)
		}
		if closeRound && !closeOK {
			r.Fail("Close of an upstream did not return", fail07{Upstream: "all of the round", Trigger: "Close while calls were pending", Round: round, Concurrent: concurrent})
		}
		// ---- end of the round: everybody gives up, Close, a later call, connections, goroutines
		for _, c := range calls {
			c.cancel()
		}
		if !closeRound {
			closeOK = closeAll()
			if !closeOK {
				r.Fail("Close of an upstream did not return", fail07{Upstream: "all of the round", Trigger: "Close after every call had returned or been cancelled", Round: round, Concurrent: concurrent})
			}
		}
		stuck := false
		for _, c := range calls {
			select {
			case <-c.done:
			case <-time.After(3 * time.Second):
				stuck = true
				r.Fail("an exchange is still pending after its context was cancelled and its upstream closed", fail07{Upstream: c.upName, Behaviour: c.beh.String(), Trigger: c.trig, Phase: phase(c), Query: c.tag, Round: round, Concurrent: concurrent})
			}
		}
		if closeOK && !stuck {
			names := make([]string, 0, len(ups))
			for name := range ups {
				names = append(names, name)
			}
			sort.Strings(names)
			for _, name := range names {
				u := ups[name]
				m2 := startStallMeter()
				t2 := time.Now()
				ctx, cancel := context.WithTimeout(context.Background(), 2*time.Second)
				tag07++
				_, err := u.u.ExchangeContext(ctx, mkQuery(1, tag07))
				cancel()
				took := time.Since(t2)
				if st := m2.Stop(); err == nil || took > 200*time.Millisecond+4*st {
					r.Fail("a call on a closed upstream did not fail immediately", fail07{Upstream: name, Trigger: "call after Close", Took: took.String(), Err: fmt.Sprint(err), Round: round, Concurrent: concurrent})
				}
				opened, closed := u.ob.opened.Load(), u.ob.closed.Load()
				for i := 0; i < 2000 && opened != closed; i++ {
					time.Sleep(time.Millisecond)
					opened, closed = u.ob.opened.Load(), u.ob.closed.Load()
				}
				if opened != closed {
					r.Fail("a connection the upstream opened was not closed by Close", fail07{Upstream: name, Trigger: "Close", Phase: fmt.Sprintf("connections opened: %d, closed: %d", opened, closed), Round: round, Concurrent: concurrent})
				}
			}
			g := goroutines07()
			for i := 0; i < 2000 && g > gBase; i++ {
				time.Sleep(time.Millisecond)
				g = goroutines07()
			}
			if g > gBase {
				r.Fail("goroutines of the transports are still running after Close of the upstreams", fail07{Upstream: strings.Join(names, ", "), Trigger: "Close", Phase: fmt.Sprintf("goroutines in transport code: %d", g-gBase), Round: round, Concurrent: concurrent})
				gBase = g
			}
		} else {
			gBase = goroutines07()
		}
		r.Count("upstream:rounds")
		r.Trace()
		round++
	}

	// ---- (thorough) unbounded context, silent server: the transports' own liveness timeouts end the call
	if r.Thorough() {
		var calls []*ucall07
		var ups []upstream.Upstream
		for _, sc := range []scen07{
			{kind: "udp", beh: beh07{udp: "silent", tcp: "-"}}, {kind: "udp", beh: beh07{udp: "tc", tcp: "silent"}},
			{kind: "tcp", beh: beh07{tcp: "silent"}}, {kind: "tcp+pipeline", beh: beh07{tcp: "silent"}},
		} {
			u, err := upstream.NewUpstream(sc.kind+"://"+addrT, upstream.Opt{})
			if err != nil {
				fatal(err)
			}
			ups = append(ups, u)
			tag07++
			c := &ucall07{scen07: sc, tag: tag07, upName: sc.kind, srv: sT, done: make(chan struct{})}
			c.ev = sT.register(c.tag, sc.beh)
			q := mkQuery(uint16(r.Rng.Intn(65536)), c.tag)
			c.started = time.Now()
			go func() {
				resp, err := u.ExchangeContext(context.Background(), q)
				c.retAt = time.Now()
				c.err, c.ok = err, err == nil && resp != nil
				close(c.done)
			}()
			calls = append(calls, c)
		}
		meter := startStallMeter()
		limit := time.After(40 * time.Second) // 10 s (pipelined / UDP) and 6 s (reused) in the code; the statement says tens of seconds at most
		for _, c := range calls {
			f := fail07{Upstream: c.upName, Behaviour: c.beh.String(), Trigger: "none (unbounded context)", Query: c.tag, Round: -1}
			select {
			case <-c.done:
				f.Took = c.retAt.Sub(c.started).String()
				f.Err = fmt.Sprint(c.err)
				if c.ok {
					r.Fail("an exchange reported success although the server stayed silent", f)
				}
			case <-limit:
				r.Fail("an exchange with an unbounded context on a silent server did not return within the transports' liveness timeouts (40 s allowed)", f)
			}
			r.Eval("up-silence/"+c.kind+"/"+c.beh.String(), true)
			r.Count("upstream:silence-unbounded-context")
		}
		meter.Stop()
		for _, u := range ups {
			u.Close()
		}
	}
}
