//go:build pC04 || pall

package main

import (
	"context"
	"fmt"
	"runtime"
	"strings"
	"sync"
	"time"

	"github.com/IrineSistiana/mosdns/v5/coremain"
	"github.com/IrineSistiana/mosdns/v5/pkg/query_context"
	"github.com/IrineSistiana/mosdns/v5/plugin/executable/cache"
	"github.com/IrineSistiana/mosdns/v5/plugin/executable/redirect"
	"github.com/IrineSistiana/mosdns/v5/plugin/executable/sequence"
	"github.com/miekg/dns"
)

// C04, pass-through chains: cache plugins that are NOT followed by
// `[has_resp] accept`. A hit of an earlier cache stays in the context, travels
// through the question-rewriting plugin (the real redirect, or the harness
// rewriter: in place or on a Copy(), which copies the response too) and
// arrives, under a different question, at the next cache plugin; only the
// upstream at the end is behind `!has_resp`. The cache instances are also
// reachable through short sequences of their own (`cache -> upstream`: one
// tagged cache used by several sequences), so that an earlier cache can hold an
// answer the later one never saw.
//
// Observation without guessing: a recorder directly in front of and one
// directly behind every cache plugin. The one behind sees a response object
// that is not the one the recorder in front saw exactly when this cache served
// from its store (a hit hands out a fresh copy): event `hit(cache, question it
// was handed, answer number)`. When the rest of the chain returns with a
// response object that is not the one that was there when the rest started,
// the rest has produced (or replaced) the answer of the question this cache was
// handed: event `store`. Oracle (the property's, as in c04chain.go): a cache
// instance serves an answer only to a question for which this instance stored
// that very answer. The events are replayed on the model's trace acceptor.

type thruKey04 struct {
	qCtx *query_context.Context
	pos  int
}

type thru04 struct {
	o      *obs04
	mu     sync.Mutex
	before map[thruKey04]*dns.Msg
	seen   map[int]q04 // position -> question the cache there was handed last
	keys   map[int]map[string]bool // cache instance -> keys of the questions it was handed
	bg     int                     // walks that started directly behind a cache plugin (background refreshes of a lazy cache)
}

type thruFront04 struct {
	t   *thru04
	pos int
}

func (p *thruFront04) Exec(_ context.Context, qCtx *query_context.Context) error {
	p.t.mu.Lock()
	p.t.before[thruKey04{qCtx, p.pos}] = qCtx.R()
	p.t.mu.Unlock()
	return nil
}

type thruBehind04 struct {
	t         *thru04
	inst, pos int
}

func (p *thruBehind04) Exec(ctx context.Context, qCtx *query_context.Context, next sequence.ChainWalker) error {
	q := q04FromMsg(qCtx.Q())
	p.t.mu.Lock()
	rb, walked := p.t.before[thruKey04{qCtx, p.pos}]
	delete(p.t.before, thruKey04{qCtx, p.pos})
	if walked {
		p.t.seen[p.pos] = q
		if k := cache.VerifGetMsgKey(qCtx.Q()); k != "" {
			if p.t.keys[p.inst] == nil {
				p.t.keys[p.inst] = map[string]bool{}
			}
			p.t.keys[p.inst][strings.Clone(k)] = true
		}
	} else {
		// This context did not pass the recorder in front of the cache plugin: it is the copy on which a lazy
		// cache refreshes a stale entry in the background. Nothing was served here; whatever response the copy
		// carries was in the context the cache plugin was handed. What the rest of the chain produces for it is
		// (as everywhere) what this cache may store for the question of the copy.
		p.t.bg++
	}
	p.t.mu.Unlock()
	ra := qCtx.R()
	if walked && ra != nil && ra != rb {
		p.t.o.hit(p.inst, p.pos, q, serial04(ra))
	}
	err := next.ExecNext(ctx, qCtx)
	if rf := qCtx.R(); rf != nil && rf != ra {
		p.t.o.store(p.inst, q, serial04(rf))
	}
	return err
}

type thruChain04 struct {
	full    *sequence.Sequence
	tails   []*sequence.Sequence // tails[k]: from the k-th cache plugin to the end
	shorts  []*sequence.Sequence // shorts[k]: k-th cache plugin -> upstream
	desc    string
	closers []func()
	lazy    map[int]*cache.Cache // cache instance -> the plugin, for instances with lazy_cache_ttl
	neg     int
}

// age04 lets time pass for the lazy caches: every entry of a question they were handed becomes stale (its message
// lifetime is over, the entry is still kept), as after a wait of the answer's TTL. Returns the number of entries aged.
func (ch *thruChain04) age04(t *thru04) int {
	n := 0
	t.mu.Lock()
	defer t.mu.Unlock()
	for inst, c := range ch.lazy {
		for k := range t.keys[inst] {
			if m, stored, msgExp, cacheExp, ok := c.VerifPeek(k); ok && msgExp.After(time.Now()) {
				c.VerifInject(k, m, stored, time.Now().Add(-time.Millisecond), cacheExp)
				n++
			}
		}
	}
	return n
}

func buildThru04(r *Run, o *obs04, t *thru04) (*thruChain04, error) {
	plugins := map[string]any{}
	m := coremain.NewTestMosdnsWithPlugins(plugins)
	bq := sequence.NewBQ(m, m.Logger())
	ch := &thruChain04{lazy: map[int]*cache.Cache{}}
	ch.neg = pickNeg04(r)
	plugins["up"] = &up04{o: o, neg: ch.neg} // answers only a context that has no response yet (`[!has_resp] upstream`)
	names := []string{"h0.chain.test.", "h1.chain.test.", "t.chain.test."}
	types := []uint16{dns.TypeA, dns.TypeAAAA, dns.TypeTXT, 257, r.U16()}

	nCache := 2
	if r.Rng.Intn(4) == 0 {
		nCache = 3
	}
	inst := make([]int, nCache)
	nInst := 0
	for k := 0; k < nCache; k++ {
		if k > 0 && r.Rng.Intn(5) == 0 { // one tagged cache referenced twice
			inst[k] = inst[r.Rng.Intn(k)]
			continue
		}
		args := &cache.Args{Size: 1024}
		if r.Rng.Intn(4) == 0 {
			args.LazyCacheTTL = 3600
		}
		c := cache.NewCache(args, cache.Opts{})
		ch.closers = append(ch.closers, func() { c.Close() })
		inst[k] = nInst
		if args.LazyCacheTTL > 0 {
			ch.lazy[nInst] = c
		}
		plugins[fmt.Sprintf("cache%d", nInst)] = c
		nInst++
	}
	seg := func(k int) ([]sequence.RuleArgs, []string) {
		return []sequence.RuleArgs{{Exec: fmt.Sprintf("$front%d", k)}, {Exec: fmt.Sprintf("$cache%d", inst[k])}, {Exec: fmt.Sprintf("$behind%d", k)}},
			[]string{fmt.Sprintf("cache#%d%s", inst[k], map[bool]string{true: "(lazy_cache_ttl=3600)"}[ch.lazy[inst[k]] != nil])}
	}
	var rules []sequence.RuleArgs
	var desc []string
	starts := make([]int, nCache)
	for k := 0; k < nCache; k++ {
		plugins[fmt.Sprintf("front%d", k)] = &thruFront04{t: t, pos: k}
		plugins[fmt.Sprintf("behind%d", k)] = &thruBehind04{t: t, inst: inst[k], pos: k}
		starts[k] = len(rules)
		rs, d := seg(k)
		rules, desc = append(rules, rs...), append(desc, d...)
		if k == nCache-1 {
			break
		}
		for j, n := 0, 1+r.Rng.Intn(2); j < n; j++ {
			tag := fmt.Sprintf("rw%d_%d", k, j)
			if r.Rng.Intn(3) == 0 {
				rule := []string{"full:h0.chain.test t.chain.test", "full:h0.chain.test h1.chain.test", "domain:chain.test t.chain.test"}[r.Rng.Intn(3)]
				if p, err := redirect.NewRedirect(&redirect.Args{Rules: []string{rule}}); err == nil {
					plugins[tag] = p
					desc = append(desc, "redirect("+rule+")")
					rules = append(rules, sequence.RuleArgs{Exec: "$" + tag})
					continue
				}
			}
			w := &rewr04{attr: []string{"type", "type", "name", "name", "class", "ad", "cd", "do"}[r.Rng.Intn(8)], mode: []int{2, 2, 0, 1}[r.Rng.Intn(4)]}
			w.typ = types[r.Rng.Intn(len(types))]
			w.class = []uint16{dns.ClassCHAOS, dns.ClassANY, r.U16()}[r.Rng.Intn(3)]
			w.name = names[1+r.Rng.Intn(2)]
			plugins[tag] = w
			desc = append(desc, w.String())
			rules = append(rules, sequence.RuleArgs{Exec: "$" + tag})
		}
	}
	rules = append(rules, sequence.RuleArgs{Exec: "$up"})
	desc = append(desc, "[!has_resp]upstream")
	ch.desc = strings.Join(desc, " -> ") + "  (the upstream answers with " + negDesc04(ch.neg) + "; no `[has_resp] accept` anywhere; every cache instance also sits in a sequence `cache -> [!has_resp]upstream` of its own)"
	for k := 0; k < nCache; k++ {
		sq, err := sequence.NewSequence(bq, rules[starts[k]:])
		if err != nil {
			return ch, err
		}
		ch.tails = append(ch.tails, sq)
		rs, _ := seg(k)
		sh, err := sequence.NewSequence(bq, append(rs, sequence.RuleArgs{Exec: "$up"}))
		if err != nil {
			return ch, err
		}
		ch.shorts = append(ch.shorts, sh)
	}
	ch.full = ch.tails[0]
	return ch, nil
}

func runThrough04(r *Run) {
	n := r.N(250, 3000)
	for i := 0; i < n; i++ {
		runThroughOne04(r, i)
	}
}

func runThroughOne04(r *Run, i int) {
	o := &obs04{produced: map[int]map[int][]q04{}, upSaw: map[int]string{}}
	t := &thru04{o: o, before: map[thruKey04]*dns.Msg{}, seen: map[int]q04{}, keys: map[int]map[string]bool{}}
	ch, err := buildThru04(r, o, t)
	defer func() {
		for _, f := range ch.closers {
			f()
		}
	}()
	if err != nil {
		r.Note("C04 pass-through chain build failed: " + err.Error())
		r.Count("through-chain-build-failed")
		return
	}
	r.Count(fmt.Sprintf("through-chain:caches=%d", len(ch.tails)))
	var history []string
	ask := func(sq *sequence.Sequence, where string, q q04) {
		history = append(history, where+" "+q.String())
		qCtx := query_context.NewContext(q.msg())
		if q.do {
			qCtx.QOpt().SetDo()
		}
		g0 := runtime.NumGoroutine()
		if err := sq.Exec(context.Background(), qCtx); err != nil {
			r.Count("through-query:error")
		}
		r.Count("through-query")
		if len(ch.lazy) > 0 {
			// a lazy cache refreshes a stale entry in the background: let the refresh finish (store included)
			for dl := time.Now().Add(5 * time.Second); runtime.NumGoroutine() > g0; time.Sleep(50 * time.Microsecond) {
				if time.Now().After(dl) {
					r.Count("through-query:refresh-still-running-after-5s")
					break
				}
			}
		}
	}
	// time passes: the entries of the lazy caches go stale (no real waiting)
	age := func() {
		if n := ch.age04(t); n > 0 {
			history = append(history, fmt.Sprintf("(the answers' TTL passes: %d entries of the lazy cache plugins are stale now)", n))
			r.Count("through-chain:aged-lazy-entries")
		}
	}
	base := q04{nq: 1, qclass: dns.ClassINET, hasOpt: true, name: "h0.chain.test.", qtype: []uint16{dns.TypeA, dns.TypeAAAA, dns.TypeTXT, 257}[r.Rng.Intn(4)],
		ad: r.Rng.Intn(4) == 0, cd: r.Rng.Intn(4) == 0, do: r.Rng.Intn(3) == 0}
	if r.Rng.Intn(4) == 0 {
		base.name = "h1.chain.test."
	}
	pick := func() (*sequence.Sequence, string) {
		switch k := r.Rng.Intn(len(ch.tails)); r.Rng.Intn(3) {
		case 0:
			return ch.shorts[k], fmt.Sprintf("via `cache@%d -> upstream`:", k)
		case 1:
			return ch.tails[k], fmt.Sprintf("entering at cache@%d:", k)
		}
		return ch.full, "at the head:"
	}
	if r.Rng.Intn(3) != 0 {
		// an earlier cache learns a question the later ones never saw; then the question walks the whole chain,
		// and what each later cache was handed is asked again
		k := r.Rng.Intn(len(ch.tails) - 1)
		ask(ch.shorts[k], fmt.Sprintf("via `cache@%d -> upstream`:", k), base)
		for j, n := 0, 1+r.Rng.Intn(2); j < n; j++ {
			ask(ch.full, "at the head:", base)
		}
		t.mu.Lock()
		var later []q04
		for p := k + 1; p < len(ch.tails); p++ {
			if q, ok := t.seen[p]; ok {
				later = append(later, q)
			}
		}
		t.mu.Unlock()
		for _, q := range later {
			q.hasOpt = true
			sq, where := pick()
			ask(sq, where, q)
		}
		if len(ch.lazy) > 0 && r.Rng.Intn(4) != 0 {
			// the later caches' entries go stale while the earlier cache's is alive; the question walks the chain
			// again (the earlier hit travels on, a later lazy cache refreshes in the background on a copy of the
			// context), then what the later caches were handed is asked again
			age()
			ask(ch.full, "at the head:", base)
			for _, q := range later {
				q.hasOpt = true
				sq, where := pick()
				ask(sq, where, q)
			}
		}
	}
	for j, n := 0, 2+r.Rng.Intn(6); j < n; j++ {
		q := base
		switch r.Rng.Intn(6) {
		case 0:
			q.name = []string{"h0.chain.test.", "h1.chain.test.", "t.chain.test."}[r.Rng.Intn(3)]
		case 1:
			q.qtype = []uint16{dns.TypeA, dns.TypeAAAA}[r.Rng.Intn(2)]
		case 2:
			q.do = !q.do
		case 3:
			t.mu.Lock()
			if s, ok := t.seen[1+r.Rng.Intn(len(ch.tails)-1)]; ok && s.cacheable() {
				q = s
				q.hasOpt = true
			}
			t.mu.Unlock()
		case 4:
			if len(ch.lazy) > 0 {
				age()
			}
		}
		sq, where := pick()
		ask(sq, where, q)
	}
	t.mu.Lock()
	if t.bg > 0 {
		r.Count("through-chain:lazy-refresh-walked")
	}
	t.mu.Unlock()
	r.Count(fmt.Sprintf("through-chain:upstream-kind=%d", ch.neg))
	o.mu.Lock()
	fails, evs, hits := o.fails, append([]string{}, o.events...), o.hits
	o.closed = true
	o.mu.Unlock()
	r.Eval(fmt.Sprintf("through:%d:%s|%s", i, ch.desc, strings.Join(history, ";")), true)
	if hits > 0 {
		r.Count("through-chain:some-cache-hit")
	}
	if len(fails) > 0 {
		r.Count("through-chain:foreign-answer")
	}
	if len(fails) > 0 && r.meta.Dist["through-chain:foreign-answer"] <= 3 {
		f := fails[0]
		f["chain"] = ch.desc
		f["queries_in_order"] = history
		r.Fail("in a chain of cache plugins without `[has_resp] accept` between them, a cache plugin served an answer to a question for which the rest of its chain had never produced that answer (e.g. a response that was already in the query context - the hit of an earlier cache - was stored by a later cache, or by its background refresh of a stale entry, under the key of the rewritten question; or an answer stored for one question is found under another question's key)", f)
	}
	if len(evs) > 0 {
		r.Line("chain "+strings.Join(evs, " "), "accept")
		r.Trace()
	}
}
