//go:build pC03 || pC15 || pall

package main

import (
	"context"
	"encoding/binary"
	"fmt"
	"io"
	"net"
	"strings"
	"time"

	"github.com/IrineSistiana/mosdns/v5/coremain"
	"github.com/IrineSistiana/mosdns/v5/pkg/query_context"
	"github.com/IrineSistiana/mosdns/v5/pkg/server"
	"github.com/IrineSistiana/mosdns/v5/pkg/server_handler"
	"github.com/IrineSistiana/mosdns/v5/plugin/executable/arbitrary"
	"github.com/IrineSistiana/mosdns/v5/plugin/executable/black_hole"
	"github.com/IrineSistiana/mosdns/v5/plugin/executable/cache"
	"github.com/IrineSistiana/mosdns/v5/plugin/executable/dual_selector"
	"github.com/IrineSistiana/mosdns/v5/plugin/executable/hosts"
	"github.com/IrineSistiana/mosdns/v5/plugin/executable/redirect"
	"github.com/IrineSistiana/mosdns/v5/plugin/executable/sequence"
)

// Scenario (10): replies produced LOCALLY by plugins for query names at the length boundary.
//
// The statement quantifies over "names incl. ... 255-octet names" and over every composition of the built-in plugins;
// the reply owed to such a query is a DNS message ("receives exactly one reply that carries the query's ID and question
// ... with QR and RA set"). Plugins that answer locally build records (and, for an empty answer, a SOA in the authority
// section) from the query name; whatever they derive from it must still be a message a parser accepts. The oracle is
// oracle03 (which fully unpacks the payload with dns.Msg.Unpack), nothing more.

var longZones03 = []string{"v4only.test.", "v6only.test.", "dual.test.", "hole.test.", "rej.test.", "arb.test.", "x."}

// longName03 returns a name of exactly `wire` wire octets (incl. the root label) that ends in zone.
func longName03(r *Run, wire int, zone string) string {
	const alpha = "abcdefghijklmnopqrstuvwxyzABCDEFGHIJKLMNOPQRSTUVWXYZ0123456789-_"
	zw := len(zone) + 1 // presentation "a.b." -> wire 1+1+1+1+1 = len+1
	rest := wire - zw   // octets left for the labels in front (each label costs len+1)
	var sb strings.Builder
	for rest >= 2 {
		ll := 63
		if r.Rng.Intn(3) == 0 {
			ll = 1 + r.Rng.Intn(63)
		}
		if ll+1 > rest {
			ll = rest - 1
		}
		if rest-(ll+1) == 1 { // one octet cannot hold a label
			if ll > 1 {
				ll--
			} else {
				ll++
			}
		}
		lower := r.Rng.Intn(3) != 0
		for j := 0; j < ll; j++ {
			c := alpha[r.Rng.Intn(len(alpha))]
			if lower && c >= 'A' && c <= 'Z' {
				c += 'a' - 'A'
			}
			sb.WriteByte(c)
		}
		sb.WriteByte('.')
		rest -= ll + 1
	}
	z := zone
	if r.Rng.Intn(4) == 0 {
		z = strings.ToUpper(zone)
	}
	return sb.String() + z
}

type longSrv03 struct {
	udp  *net.UDPConn
	tcp  net.Listener
	desc string
}

func (s *longSrv03) close() {
	if s.udp != nil {
		s.udp.Close()
	}
	if s.tcp != nil {
		s.tcp.Close()
	}
}

// exchangeLong03 sends wire to the real loopback server and returns the one reply (event driven; the deadline is only
// the bound after which "no reply" is declared, and is not applied when the machine stalled).
func (s *longSrv03) exchange(via string, wire []byte) ([]byte, bool, bool) {
	meter := startStallMeter()
	deadline := 5 * time.Second
	switch via {
	case "udp-server":
		c, err := net.DialUDP("udp4", nil, s.udp.LocalAddr().(*net.UDPAddr))
		if err != nil {
			return nil, false, false
		}
		defer c.Close()
		if _, err := c.Write(wire); err != nil {
			return nil, false, false
		}
		buf := make([]byte, 65536)
		c.SetReadDeadline(time.Now().Add(deadline))
		n, err := c.Read(buf)
		if err != nil {
			return nil, false, meter.Stop() < 500*time.Millisecond
		}
		meter.Stop()
		return buf[:n], true, true
	default: // tcp-server
		c, err := net.Dial("tcp", s.tcp.Addr().String())
		if err != nil {
			return nil, false, false
		}
		defer c.Close()
		fr := make([]byte, 2+len(wire))
		binary.BigEndian.PutUint16(fr, uint16(len(wire)))
		copy(fr[2:], wire)
		if _, err := c.Write(fr); err != nil {
			return nil, false, false
		}
		c.SetReadDeadline(time.Now().Add(deadline))
		var hdr [2]byte
		if _, err := io.ReadFull(c, hdr[:]); err != nil {
			return nil, false, meter.Stop() < 500*time.Millisecond
		}
		b := make([]byte, binary.BigEndian.Uint16(hdr[:]))
		if _, err := io.ReadFull(c, b); err != nil {
			return nil, false, meter.Stop() < 500*time.Millisecond
		}
		meter.Stop()
		return b, true, true
	}
}

func longLocal03(r *Run, i int) {
	plugins := map[string]any{}
	m := coremain.NewTestMosdnsWithPlugins(plugins)
	up := &upstream03{}
	plugins["up"] = up
	var rules []sequence.RuleArgs
	var desc []string
	var closers []func()
	defer func() {
		for _, f := range closers {
			f()
		}
	}()

	// the names this chain will be asked: 2..4 long names under the zones
	nNames := 2 + r.Rng.Intn(3)
	var names []string
	for k := 0; k < nNames; k++ {
		wire := 240 + r.Rng.Intn(16)
		if r.Rng.Intn(3) == 0 {
			wire = 246 + r.Rng.Intn(10)
		}
		if r.Rng.Intn(8) == 0 {
			wire = 255
		}
		names = append(names, longName03(r, wire, longZones03[r.Rng.Intn(len(longZones03))]))
	}
	suffix := func(z string) sequence.MatchFunc {
		return func(_ context.Context, q *query_context.Context) (bool, error) {
			return strings.HasSuffix(strings.ToLower(q.QQuestion().Name), z), nil
		}
	}

	kinds := []string{"hosts", "hosts", "hosts", "arbitrary", "black_hole", "reject", "cache", "prefer", "redirect"}
	n := 1 + r.Rng.Intn(4)
	hasLocal := false
	for k := 0; k < n || !hasLocal; k++ {
		kind := kinds[r.Rng.Intn(len(kinds))]
		if k >= n {
			kind = "hosts"
		}
		tag := fmt.Sprintf("%s%d", kind, k)
		ra := sequence.RuleArgs{Exec: "$" + tag}
		switch kind {
		case "hosts":
			// single-family and dual entries; domain: rules cover every name under the zone, full: rules one long name
			entries := []string{"domain:v4only.test 10.3.3.3", "domain:v6only.test fd00::3", "domain:dual.test 10.4.4.4 fd00::4"}
			if r.Rng.Intn(2) == 0 {
				entries = append(entries, "domain:x "+[]string{"10.5.5.5", "fd00::5", "10.5.5.5 10.5.5.6", "fd00::5 10.5.5.5"}[r.Rng.Intn(4)])
			}
			if r.Rng.Intn(2) == 0 {
				entries = append(entries, "full:"+strings.ToLower(names[r.Rng.Intn(len(names))])+" "+[]string{"10.6.6.6", "fd00::6"}[r.Rng.Intn(2)])
			}
			p, err := hosts.NewHosts(&hosts.Args{Entries: entries})
			if err != nil {
				r.Note("long names: hosts build failed: " + err.Error())
				return
			}
			plugins[tag] = p
			kind += "(" + strings.Join(entries[3:], "; ") + ")"
			hasLocal = true
		case "arbitrary":
			nm := names[r.Rng.Intn(len(names))]
			rr := []string{nm + " 60 IN A 192.0.2.77", nm + " 60 IN TXT \"hello\"", nm + " 60 IN CNAME " + names[0], nm + " 60 IN MX 10 " + names[len(names)-1]}[r.Rng.Intn(4)]
			p, err := arbitrary.NewArbitrary(&arbitrary.Args{Rules: []string{rr}})
			if err != nil {
				r.Note("long names: arbitrary build failed: " + err.Error())
				return
			}
			plugins[tag] = p
			kind += "(" + strings.Fields(rr)[3] + " for a queried name)"
			hasLocal = true
		case "black_hole":
			ips := [][]string{{"127.0.0.1"}, {"::1"}, {"127.0.0.1", "::1"}}[r.Rng.Intn(3)]
			p, err := black_hole.NewBlackHole(ips)
			if err != nil {
				return
			}
			plugins[tag] = p
			plugins["isHole"] = suffix("hole.test.")
			ra.Matches = []string{"$isHole"}
			kind += "(" + strings.Join(ips, ",") + ")"
			hasLocal = true
		case "reject":
			ra.Exec = fmt.Sprintf("reject %d", []int{0, 2, 3, 5}[r.Rng.Intn(4)])
			plugins["isRej"] = suffix("rej.test.")
			ra.Matches = []string{"$isRej"}
			kind = ra.Exec
			hasLocal = true
		case "cache":
			c := cache.NewCache(&cache.Args{Size: 1024}, cache.Opts{})
			closers = append(closers, func() { c.Close() })
			plugins[tag] = c
		case "prefer":
			var p interface {
				sequence.RecursiveExecutable
				Close() error
			}
			if r.Rng.Intn(2) == 0 {
				p = dual_selector.NewPreferIpv4(sequence.NewBQ(m, m.Logger()))
				kind = "prefer_ipv4"
			} else {
				p = dual_selector.NewPreferIpv6(sequence.NewBQ(m, m.Logger()))
				kind = "prefer_ipv6"
			}
			closers = append(closers, func() { p.Close() })
			plugins[tag] = p
		case "redirect":
			// a long alias to a long target, or a short alias to a long target
			from, to := strings.ToLower(names[0]), strings.ToLower(names[len(names)-1])
			if r.Rng.Intn(2) == 0 {
				from = "alias.test."
			}
			p, err := redirect.NewRedirect(&redirect.Args{Rules: []string{"full:" + from + " " + to}})
			if err != nil {
				r.Note("long names: redirect build failed: " + err.Error())
				return
			}
			plugins[tag] = p
			kind += fmt.Sprintf("(name of %d octets -> name of %d octets)", len(wireName03(from)), len(wireName03(to)))
		}
		rules = append(rules, ra)
		desc = append(desc, kind)
		if r.Rng.Intn(4) == 0 {
			rules = append(rules, sequence.RuleArgs{Matches: []string{"$hasResp"}, Exec: "accept"})
			plugins["hasResp"] = sequence.MatchFunc(func(_ context.Context, q *query_context.Context) (bool, error) { return q.R() != nil, nil })
			desc = append(desc, "[has_resp]accept")
		}
	}
	rules = append(rules, sequence.RuleArgs{Exec: "$up"})
	desc = append(desc, "upstream")
	sq, err := sequence.NewSequence(sequence.NewBQ(m, m.Logger()), rules)
	if err != nil {
		r.Note("long names: chain build failed: " + err.Error())
		return
	}
	h := server_handler.NewEntryHandler(server_handler.EntryHandlerOpts{Entry: sq})

	// one chain in four also sits behind the real UDP and TCP servers on loopback
	var srv *longSrv03
	if r.Rng.Intn(4) == 0 {
		s := &longSrv03{}
		if uc, err := net.ListenUDP("udp4", &net.UDPAddr{IP: net.IPv4(127, 0, 0, 1)}); err == nil {
			if tl, err := net.Listen("tcp", "127.0.0.1:0"); err == nil {
				s.udp, s.tcp = uc, tl
				go server.ServeUDP(uc, h, server.UDPServerOpts{})
				go server.ServeTCP(tl, h, server.TCPServerOpts{IdleTimeout: 30 * time.Second})
				srv = s
				defer s.close()
			} else {
				uc.Close()
			}
		}
		if srv == nil {
			r.Count("long-names-server-skipped")
		}
	}

	vias := []string{"udp", "tcp", "doh-get", "doh-post"}
	if srv != nil {
		vias = []string{"udp-server", "tcp-server", "udp-server", "tcp-server", "udp", "doh-post"}
	}
	nq := 3 + r.Rng.Intn(4)
	for k := 0; k < nq; k++ {
		q := r.genQ03()
		q.qr, q.nq, q.nAns, q.nNs, q.opcode = false, 1, 0, 0, 0 // the malformed stream is scenario (1)'s business
		if len(q.extras) > 1 {
			q.extras = q.extras[:1]
		}
		q.name = names[r.Rng.Intn(len(names))]
		if r.Rng.Intn(6) == 0 {
			q.name = "alias.test."
		}
		q.qtype = []uint16{1, 28, 1, 28, 1, 28, 16, 15, 255, 65}[r.Rng.Intn(10)]
		q.qclass = 1
		if r.Rng.Intn(12) == 0 {
			q.qclass = 3
		}
		out := outcome03{kind: []string{"ans", "ans", "ans", "none", "err"}[r.Rng.Intn(5)], rcode: []int{0, 0, 3, 2}[r.Rng.Intn(4)], nAns: 1 + r.Rng.Intn(3)}
		up.mu.Lock()
		up.out = out
		up.seen = nil
		up.mu.Unlock()
		via := vias[r.Rng.Intn(len(vias))]
		d := map[string]any{"scenario": "local answers for names at the 255-octet boundary", "chain": strings.Join(desc, " -> "), "query": q.op(),
			"query_name_wire_octets": len(wireName03(q.name)), "query_no": k + 1, "arrived_via": via, "upstream_outcome": out.op()}
		var payload []byte
		var got bool
		oracleVia := via
		switch via {
		case "udp-server", "tcp-server":
			wire, err := q.msg().Pack()
			if err != nil {
				continue
			}
			var judge bool
			payload, got, judge = srv.exchange(via, wire)
			if !got && !judge {
				r.Count("long-names-exchange-skipped")
				continue
			}
			d["server"] = map[string]string{"udp-server": "server.ServeUDP on 127.0.0.1", "tcp-server": "server.ServeTCP on 127.0.0.1"}[via]
			oracleVia = via[:3]
		default:
			payload, got = deliver03(h, via, q.msg())
		}
		oracle03(r, q, oracleVia, payload, got, d, -1, -1)
		r.Eval("long|"+strings.Join(desc, ">")+"|"+q.op()+"|"+out.op()+"|"+via, true)
		r.Count("long-name-query")
		r.Count("long-name-via:" + via)
		if got {
			if p, err := parse03(payload); err == nil && p.parsed != nil && len(p.parsed.Answer) == 0 && len(p.parsed.Ns) > 0 {
				r.Count("long-name-empty-answer-with-authority")
			}
		}
	}
}
