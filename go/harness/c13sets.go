//go:build pC13 || pall

package main

import (
	"fmt"
	"math/big"
	"os"
	"path/filepath"
	"strconv"
	"strings"

	"github.com/IrineSistiana/mosdns/v5/coremain"
	"github.com/IrineSistiana/mosdns/v5/plugin/data_provider/ip_set"
)

// C13, hierarchies of ip_set plugins: a set is loaded from its own rules
// (inline `ips` and list `files`) and from the sets it names under `sets:`.
// The plugins are built one after the other in configuration order, every
// reference points to a set built earlier; only when all of them exist are
// the sets asked. "The prefixes loaded into" a set are its own rules and,
// transitively, those of the sets it references.

type setDef13 struct {
	tag  string
	own  []pfx13
	refs []int // indices of earlier sets, in the order of the `sets:` list
}

func (d setDef13) String() string {
	var refs []string
	for _, j := range d.refs {
		refs = append(refs, "s"+strconv.Itoa(j))
	}
	return fmt.Sprintf("%s: {ips/files: [%s], sets: [%s]}", d.tag, strings.Join(texts13(d.own), " "), strings.Join(refs, " "))
}

// all13 lists, per set, every rule loaded into it (own rules + those of the referenced sets).
func all13(defs []setDef13) [][]pfx13 {
	all := make([][]pfx13, len(defs))
	for i, d := range defs {
		all[i] = append(all[i], d.own...)
		for _, j := range d.refs {
			all[i] = append(all[i], all[j]...)
		}
	}
	return all
}

// build13 creates the plugins in configuration order, as coremain does when it loads a config file.
func (r *Run) build13(defs []setDef13) ([]*ip_set.IPSet, error) {
	plugins := make(map[string]any)
	m := coremain.NewTestMosdnsWithPlugins(plugins)
	sets := make([]*ip_set.IPSet, len(defs))
	for i, d := range defs {
		args := &ip_set.Args{}
		var fl strings.Builder
		for _, s := range texts13(d.own) {
			if r.Rng.Intn(3) > 0 {
				args.IPs = append(args.IPs, s)
			} else {
				fl.WriteString(s + "\n")
			}
		}
		fn := ""
		if fl.Len() > 0 {
			fn = filepath.Join(r.Dir, "c13-set-"+strconv.Itoa(i)+".txt")
			if err := os.WriteFile(fn, []byte(fl.String()), 0o644); err != nil {
				fatal(err)
			}
			args.Files = []string{fn}
		}
		for _, j := range d.refs {
			args.Sets = append(args.Sets, defs[j].tag)
		}
		s, err := ip_set.NewIPSet(coremain.NewBP(d.tag, m), args)
		if fn != "" {
			os.Remove(fn)
		}
		if err != nil {
			return nil, fmt.Errorf("set %s: %w", d.tag, err)
		}
		plugins[d.tag] = s
		sets[i] = s
	}
	return sets, nil
}

// firstBad13 builds the hierarchy and returns the first (set, address) whose answer differs from the oracle.
func (r *Run) firstBad13(defs []setDef13, as []addr13) (set int, a addr13, got bool, found bool) {
	sets, err := r.build13(defs)
	if err != nil {
		return 0, addr13{}, false, false
	}
	all := all13(defs)
	for i := range defs {
		m := sets[i].GetIPMatcher()
		for _, a := range as {
			if g := m.Match(a.netip()); g != covered13(all[i], a) {
				return i, a, g, true
			}
		}
	}
	return 0, addr13{}, false, false
}

// without13 removes set k and every reference to it.
func without13(defs []setDef13, k int) []setDef13 {
	var out []setDef13
	for i, d := range defs {
		if i == k {
			continue
		}
		nd := setDef13{tag: d.tag, own: d.own}
		for _, j := range d.refs {
			switch {
			case j < k:
				nd.refs = append(nd.refs, j)
			case j > k:
				nd.refs = append(nd.refs, j-1)
			}
		}
		out = append(out, nd)
	}
	for i := range out { // tags follow the positions so that the report reads like a config file
		out[i].tag = "s" + strconv.Itoa(i)
	}
	return out
}

// shrinkSets13 drops whole sets, then single references, then single rules, as long as some answer is still wrong.
func (r *Run) shrinkSets13(defs []setDef13, as []addr13) []setDef13 {
	bad := func(ds []setDef13) bool {
		for try := 0; try < 3; try++ { // own rules are split at random between ips and files
			if _, _, _, f := r.firstBad13(ds, as); f {
				return true
			}
		}
		return false
	}
	cur := defs
	for k := len(cur) - 1; k >= 0; k-- {
		if cand := without13(cur, k); bad(cand) {
			cur = cand
		}
	}
	clone := func(ds []setDef13) []setDef13 {
		out := make([]setDef13, len(ds))
		for i, d := range ds {
			out[i] = setDef13{tag: d.tag, own: append([]pfx13(nil), d.own...), refs: append([]int(nil), d.refs...)}
		}
		return out
	}
	for i := range cur {
		for k := 0; k < len(cur[i].refs); {
			cand := clone(cur)
			cand[i].refs = append(cand[i].refs[:k], cand[i].refs[k+1:]...)
			if bad(cand) {
				cur = cand
			} else {
				k++
			}
		}
		for k := 0; k < len(cur[i].own); {
			cand := clone(cur)
			cand[i].own = append(cand[i].own[:k], cand[i].own[k+1:]...)
			if bad(cand) {
				cur = cand
			} else {
				k++
			}
		}
	}
	return cur
}

// genSets13 generates a configuration of 2..26 ip_set plugins: leaf sets (own rules only), combination sets
// (references only, or references plus own rules) and "families": several sets that reference the same
// earlier set together with different further sets - the usual shape of a config (local = lan + cn + ...,
// direct = local + x, nolog = local + y).
func (r *Run) genSets13() []setDef13 {
	var defs []setDef13
	var pool []pfx13
	rules := func(n int) []pfx13 {
		var ps []pfx13
		for i := 0; i < n; i++ {
			p := r.genPfx13(pool)
			pool = append(pool, p)
			ps = append(ps, p)
		}
		return ps
	}
	add := func(own []pfx13, refs []int) int {
		defs = append(defs, setDef13{tag: "s" + strconv.Itoa(len(defs)), own: own, refs: refs})
		return len(defs) - 1
	}
	leaf := func() int { return add(rules(1+r.Rng.Intn(3)), nil) }
	pick := func(n int) []int { // up to n distinct earlier sets, random order
		perm := r.Rng.Perm(len(defs))
		if n > len(perm) {
			n = len(perm)
		}
		return perm[:n]
	}
	nleaf := 2 + r.Rng.Intn(4)
	for i := 0; i < nleaf; i++ {
		leaf()
	}
	steps := 1 + r.Rng.Intn(4)
	for s := 0; s < steps && len(defs) < 14; s++ {
		switch r.Rng.Intn(4) {
		case 0: // one more leaf
			leaf()
		case 1: // a combination of 1..7 earlier sets, with or without own rules
			var own []pfx13
			if r.Rng.Intn(3) == 0 {
				own = rules(1 + r.Rng.Intn(2))
			}
			add(own, pick(1+r.Rng.Intn(7)))
		default: // a family: 2..3 sets that share one earlier set
			base := r.Rng.Intn(len(defs))
			if r.Rng.Intn(2) == 0 { // a fresh combination as the shared set
				var own []pfx13
				if r.Rng.Intn(4) == 0 {
					own = rules(1)
				}
				base = add(own, pick(1+r.Rng.Intn(7)))
			}
			members := 2 + r.Rng.Intn(2)
			for k := 0; k < members; k++ {
				var extra []int
				for e := r.Rng.Intn(3); e >= 0; e-- {
					if r.Rng.Intn(2) == 0 {
						extra = append(extra, leaf())
					} else {
						extra = append(extra, r.Rng.Intn(len(defs)))
					}
				}
				refs := append([]int{base}, extra...)
				if r.Rng.Intn(3) == 0 {
					r.Rng.Shuffle(len(refs), func(i, j int) { refs[i], refs[j] = refs[j], refs[i] })
				}
				var own []pfx13
				if r.Rng.Intn(3) == 0 {
					own = rules(1)
				}
				add(own, refs)
			}
		}
	}
	return defs
}

// probes13: first / last / the neighbours just outside of every rule, in 16-byte and (when mapped) 4-byte notation.
func (r *Run) probes13(defs []setDef13, max int) []addr13 {
	var as []addr13
	add := func(x *big.Int) {
		if a, ok := from128(x); ok {
			as = append(as, addr13{false, a})
			if a[10] == 0xff && a[11] == 0xff && [10]byte(a[:10]) == [10]byte{} && r.Rng.Intn(2) == 0 {
				as[len(as)-1] = addr13{true, a}
			}
		}
	}
	for _, d := range defs {
		for _, p := range d.own {
			bits := p.bits
			if p.v4 {
				bits += 96
			}
			sz := new(big.Int).Lsh(big.NewInt(1), uint(128-bits))
			first := new(big.Int).Mul(new(big.Int).Div(to128(p.v4, p.addr), sz), sz)
			last := new(big.Int).Sub(new(big.Int).Add(first, sz), big.NewInt(1))
			add(first)
			add(last)
			add(new(big.Int).Sub(first, big.NewInt(1)))
			add(new(big.Int).Add(last, big.NewInt(1)))
		}
	}
	if len(as) > max {
		r.Rng.Shuffle(len(as), func(i, j int) { as[i], as[j] = as[j], as[i] })
		as = as[:max]
	}
	return as
}

func (r *Run) runC13Sets() {
	n := r.N(300, 6000)
	for it := 0; it < n; it++ {
		defs := r.genSets13()
		as := r.probes13(defs, 48)
		all := all13(defs)
		sets, err := r.build13(defs)
		if err != nil {
			var cfg []string
			for _, d := range defs {
				cfg = append(cfg, d.String())
			}
			r.Fail("a valid ip_set configuration was rejected", map[string]any{"err": err.Error(), "sets_in_config_order": cfg})
			continue
		}
		// every set is asked only now, when all plugins of the configuration exist
		var outs []string
		reported := false
		nontrivial := false
		for i := range defs {
			m := sets[i].GetIPMatcher()
			var out strings.Builder
			for _, a := range as {
				got := m.Match(a.netip())
				want := covered13(all[i], a)
				out.WriteString(b01(got))
				nontrivial = nontrivial || (want && len(defs[i].refs) > 0)
				if got != want && !reported {
					reported = true // one report per configuration, on the smallest one that still shows it
					small := r.shrinkSets13(defs, as)
					si, sa, sg, ok := r.firstBad13(small, as)
					for try := 0; !ok && try < 8; try++ {
						si, sa, sg, ok = r.firstBad13(small, as)
					}
					if !ok {
						small, si, sa, sg = defs, i, a, got
					}
					var cfg, loaded []string
					for _, d := range small {
						cfg = append(cfg, d.String())
					}
					for _, p := range all13(small)[si] {
						loaded = append(loaded, p.netip().String())
					}
					r.Fail(fmt.Sprintf("ip_set %s: Match(%s) = %v but the prefixes loaded into it (own rules and referenced sets) say %v", small[si].tag, sa.netip(), sg, !sg),
						map[string]any{"sets_in_config_order": cfg, "asked_set": small[si].tag, "address": sa.netip().String(), "prefixes_loaded_into_it": loaded, "shrunk_from_sets": len(defs)})
				}
			}
			outs = append(outs, out.String())
		}
		// the same configuration on the model
		var dops, aops []string
		for _, d := range defs {
			var own, refs []string
			for _, p := range d.own {
				own = append(own, p.lineOp())
			}
			for _, j := range d.refs {
				refs = append(refs, strconv.Itoa(j))
			}
			o, f := strings.Join(own, ","), strings.Join(refs, ",")
			if o == "" {
				o = "-"
			}
			if f == "" {
				f = "-"
			}
			dops = append(dops, o+"|"+f)
		}
		for _, a := range as {
			aops = append(aops, a.op())
		}
		as1 := strings.Join(aops, ",")
		if as1 == "" {
			as1 = "-"
		}
		op := "sets " + strings.Join(dops, ";") + " " + as1
		r.Line(op, strings.Join(outs, "/"))
		r.Eval(op, nontrivial)
		r.Count("hierarchy")
		shared := map[int]int{}
		depth := make([]int, len(defs))
		for i, d := range defs {
			for _, j := range d.refs {
				shared[j]++
				if depth[j]+1 > depth[i] {
					depth[i] = depth[j] + 1
				}
			}
			if len(d.own) == 0 && len(d.refs) > 0 {
				r.Count("hierarchy:set-of-sets-only")
			}
			if depth[i] >= 2 {
				r.Count("hierarchy:depth>=2")
			}
		}
		for _, c := range shared {
			if c >= 2 {
				r.Count("hierarchy:set-referenced-by-several")
			}
		}
	}
}
