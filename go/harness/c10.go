//go:build pC10 || pall

package main

import (
	"context"
	"fmt"
	"hash/fnv"
	"net"
	"os"
	"strings"
	"sync"
	"time"

	"github.com/IrineSistiana/mosdns/v5/pkg/query_context"
	cacheplugin "github.com/IrineSistiana/mosdns/v5/plugin/executable/cache"
	"github.com/IrineSistiana/mosdns/v5/plugin/executable/sequence"
	"github.com/miekg/dns"
)

// C10: cached answers are isolated from every caller's mutations.
//
// Histories of produce / store / hit (fresh or stale, through Cache.Exec) /
// in-place mutation of any element of any message a caller holds (question
// element, any record of any section: owner name, class, TTL, record data in
// place, or the slice element itself). A message is abstracted to the list of
// hashes of its elements; the history is replayed on the heap model.

func init() { props["C10"] = runC10 }

func h10(s string) uint32 {
	h := fnv.New32a()
	h.Write([]byte(s))
	return h.Sum32() % 1000000
}

func rrNoTTL(rr dns.RR) string {
	c := dns.Copy(rr)
	c.Header().Ttl = 0
	return c.String()
}

// elems lists the elements of m the model tracks: the question element, then every non-OPT record.
func elems10(m *dns.Msg) []uint32 {
	var out []uint32
	if len(m.Question) > 0 {
		q := m.Question[0]
		out = append(out, h10(fmt.Sprintf("%s/%d/%d", q.Name, q.Qtype, q.Qclass)))
	}
	for _, sec := range [][]dns.RR{m.Answer, m.Ns, m.Extra} {
		for _, rr := range sec {
			if rr.Header().Rrtype == dns.TypeOPT {
				continue
			}
			out = append(out, h10(rrNoTTL(rr)))
		}
	}
	return out
}

func join10(v []uint32) string {
	s := make([]string, len(v))
	for i, x := range v {
		s[i] = fmt.Sprint(x)
	}
	return strings.Join(s, ".")
}

// rrAt returns the section slice and index of the i-th non-OPT record of m.
func rrAt10(m *dns.Msg, i int) (*[]dns.RR, int) {
	for _, sec := range []*[]dns.RR{&m.Answer, &m.Ns, &m.Extra} {
		for j, rr := range *sec {
			if rr.Header().Rrtype == dns.TypeOPT {
				continue
			}
			if i == 0 {
				return sec, j
			}
			i--
		}
	}
	return nil, 0
}

func runC10(r *Run) {
	raceOnly := os.Getenv("VERIF_RACE") == "1"
	mkResp := func(qname string, variant int) *dns.Msg {
		q := new(dns.Msg)
		q.SetQuestion(qname, dns.TypeA)
		m := new(dns.Msg)
		m.SetReply(q)
		ttl := uint32(300 + r.Rng.Intn(300))
		n := 1 + r.Rng.Intn(3)
		for i := 0; i < n; i++ {
			switch r.Rng.Intn(5) {
			case 0:
				m.Answer = append(m.Answer, &dns.CNAME{Hdr: dns.RR_Header{Name: qname, Rrtype: dns.TypeCNAME, Class: 1, Ttl: ttl}, Target: fmt.Sprintf("c%d-%d.example.", variant, i)})
			case 1:
				m.Answer = append(m.Answer, &dns.TXT{Hdr: dns.RR_Header{Name: qname, Rrtype: dns.TypeTXT, Class: 1, Ttl: ttl}, Txt: []string{fmt.Sprintf("v%d", variant), "second"}})
			case 2:
				m.Answer = append(m.Answer, &dns.AAAA{Hdr: dns.RR_Header{Name: qname, Rrtype: dns.TypeAAAA, Class: 1, Ttl: ttl}, AAAA: net.ParseIP(fmt.Sprintf("2001:db8::%x", variant%65000+1))})
			default:
				m.Answer = append(m.Answer, &dns.A{Hdr: dns.RR_Header{Name: qname, Rrtype: dns.TypeA, Class: 1, Ttl: ttl}, A: net.IPv4(10, byte(variant>>8), byte(variant), byte(i)).To4()})
			}
		}
		if r.Rng.Intn(2) == 0 {
			m.Ns = append(m.Ns, &dns.NS{Hdr: dns.RR_Header{Name: "example.", Rrtype: dns.TypeNS, Class: 1, Ttl: ttl}, Ns: "ns1.example."})
		}
		if r.Rng.Intn(2) == 0 {
			m.Extra = append(m.Extra, &dns.A{Hdr: dns.RR_Header{Name: "ns1.example.", Rrtype: dns.TypeA, Class: 1, Ttl: ttl}, A: net.IPv4(192, 0, 2, 1).To4()})
		}
		if r.Rng.Intn(2) == 0 {
			m.SetEdns0(1232, false)
		}
		return m
	}
	// mutate overwrites element i of m in place and returns its new hash (ok=false if there is no such element)
	mutate := func(m *dns.Msg, i int, salt int) (uint32, bool) {
		if i == 0 {
			if len(m.Question) == 0 {
				return 0, false
			}
			switch salt % 2 {
			case 0:
				m.Question[0].Name = fmt.Sprintf("rewritten-%d.example.", salt)
			default:
				m.Question[0].Qtype = uint16(200 + salt%50)
			}
			return elems10(m)[0], true
		}
		sec, j := rrAt10(m, i-1)
		if sec == nil {
			return 0, false
		}
		rr := (*sec)[j]
		switch salt % 5 {
		case 0:
			rr.Header().Name = fmt.Sprintf("owner-%d.example.", salt)
		case 1:
			rr.Header().Class = uint16(3 + salt%200)
		case 2: // record data, in place
			switch t := rr.(type) {
			case *dns.A:
				t.A[3] ^= byte(1 + salt%200)
			case *dns.AAAA:
				t.AAAA[15] ^= byte(1 + salt%200)
			case *dns.TXT:
				t.Txt[0] = fmt.Sprintf("mut-%d", salt)
			case *dns.CNAME:
				t.Target = fmt.Sprintf("mut-%d.example.", salt)
			case *dns.NS:
				t.Ns = fmt.Sprintf("mut-%d.example.", salt)
			}
		case 3: // the slice element itself
			(*sec)[j] = &dns.TXT{Hdr: dns.RR_Header{Name: "replaced.example.", Rrtype: dns.TypeTXT, Class: 1, Ttl: 7}, Txt: []string{fmt.Sprint(salt)}}
		case 4: // TTL (not part of the abstraction, checked separately) plus the owner name
			rr.Header().Ttl = 7777777
			rr.Header().Name = fmt.Sprintf("ttl-%d.example.", salt)
		}
		return elems10(m)[i], true
	}

	// hdr10 is the element the model tracks for the header of m (everything but the id, which a hit rewrites)
	hdr10 := func(m *dns.Msg) uint32 {
		return h10(fmt.Sprintf("hdr/%d/%d/%v/%v/%v/%v/%v/%v/%v/%v", m.Rcode, m.Opcode, m.Response, m.Authoritative, m.Truncated, m.RecursionDesired, m.RecursionAvailable, m.Zero, m.AuthenticatedData, m.CheckingDisabled))
	}
	// elemsH: the tracked elements of m in the histories: question element, non-OPT records, header element (last)
	elemsH := func(m *dns.Msg) []uint32 { return append(elems10(m), hdr10(m)) }
	// mutateH overwrites element i of elemsH(m) in place
	mutateH := func(m *dns.Msg, i int, salt int) (uint32, bool) {
		if i != len(elems10(m)) {
			return mutate(m, i, salt)
		}
		switch salt % 5 {
		case 0:
			m.Rcode = (m.Rcode + 1 + salt%7) % 16
		case 1:
			m.Authoritative = !m.Authoritative
		case 2: // what the server does
			m.RecursionAvailable = !m.RecursionAvailable
		case 3:
			m.Truncated = !m.Truncated
		default:
			m.AuthenticatedData = !m.AuthenticatedData
			m.Rcode = (m.Rcode + 2 + salt%5) % 16
		}
		return hdr10(m), true
	}
	// mkBare: an upstream answer without any record: header-only SERVFAIL / NXDOMAIN (no SOA) / NOERROR / REFUSED, optionally with OPT
	mkBare := func(qname string) *dns.Msg {
		q := new(dns.Msg)
		q.SetQuestion(qname, dns.TypeA)
		q.Id = uint16(r.Rng.Intn(65536))
		m := new(dns.Msg)
		m.SetReply(q)
		m.Rcode = []int{dns.RcodeServerFailure, dns.RcodeServerFailure, dns.RcodeNameError, dns.RcodeNameError, dns.RcodeSuccess, dns.RcodeRefused}[r.Rng.Intn(6)]
		m.RecursionAvailable = r.Rng.Intn(2) == 0
		if r.Rng.Intn(3) == 0 {
			m.SetEdns0(1232, false)
		}
		return m
	}
	nOpt10 := func(m *dns.Msg) int {
		n := 0
		for _, rr := range m.Extra {
			if rr.Header().Rrtype == dns.TypeOPT {
				n++
			}
		}
		return n
	}
	bare10 := func(m *dns.Msg) bool { return len(elems10(m)) == 1 && len(m.Question) == 1 }
	nop := sequence.NewChainWalker(nil, nil)
	histories := r.N(60, 600)
	if raceOnly {
		histories = 0
	}
	for hi := 0; hi < histories; hi++ {
		lazyMode := hi%2 == 1
		args := &cacheplugin.Args{Size: 1024}
		if lazyMode {
			args.LazyCacheTTL = 3600
		}
		c := cacheplugin.NewCache(args, cacheplugin.Opts{})
		var handles []*dns.Msg
		var ops, outs []string
		var snaps []string          // what the holder of each handle last saw / wrote (full text form, id and OPT included)
		storedOpts := map[int]int{} // key -> number of OPT records in the first hit after the latest store (-1: no hit yet)
		var optAppended []int
		bareP := 2 // out of 10: how often a produced answer has no record at all
		if hi%3 == 2 {
			bareP = 7
		}
		mkAny := func(qname string, variant int) *dns.Msg {
			if r.Rng.Intn(10) < bareP {
				return mkBare(qname)
			}
			return mkResp(qname, variant)
		}
		sharedReported := false
		// settle: handle ci (or none: -1) was legitimately written / created by the last operation; no other held message may have changed
		settle := func(ci int, op string) {
			for len(snaps) < len(handles) {
				snaps = append(snaps, handles[len(snaps)].String())
			}
			for i, m := range handles {
				now := m.String()
				if i == ci {
					snaps[i] = now
					continue
				}
				if now != snaps[i] {
					if !sharedReported {
						sharedReported = true
						r.Fail("an operation on one message changed a message held by another caller (shared mutable state; for a served hit: it no longer carries the id / contents it was served with)",
							map[string]any{"history": strings.Join(ops, ","), "last_operation": op, "changed_handle": i, "before": snaps[i], "after": now, "opt_appended_to_handles": fmt.Sprint(optAppended)})
					}
					snaps[i] = now
				}
			}
		}
		stored := map[int][]uint32{} // key -> snapshot of the latest store
		storedMaxTTL := map[int]uint32{}
		keyName := func(k int) string { return fmt.Sprintf("k%d.c10.example.", k) }
		msgKey := func(k int) string {
			q := new(dns.Msg)
			q.SetQuestion(keyName(k), dns.TypeA)
			return cacheplugin.VerifGetMsgKey(q)
		}
		steps := 8 + r.Rng.Intn(30)
		execKeys := 0
		var execStoreKeys []int
		for st := 0; st < steps; st++ {
			switch x := r.Rng.Intn(10); {
			case x < 2 || len(handles) == 0:
				k := r.Rng.Intn(3)
				m := mkAny(keyName(k), hi*100+st)
				handles = append(handles, m)
				ops = append(ops, "p:"+join10(elemsH(m)))
				outs = append(outs, "-")
				settle(len(handles)-1, "produce")
			case x < 4:
				ci := r.Rng.Intn(len(handles))
				k := r.Rng.Intn(3)
				m := handles[ci]
				if !(m.Rcode == dns.RcodeSuccess && len(m.Answer) > 0) && !bare10(m) {
					continue
				}
				if !c.VerifSave(msgKey(k), m) {
					settle(-1, "store refused")
					continue
				}
				if bare10(m) {
					r.Count("stores-of-record-less-answers")
				}
				stored[k] = elemsH(m)
				storedOpts[k] = -1
				storedMaxTTL[k] = 0
				for _, sec := range [][]dns.RR{m.Answer, m.Ns, m.Extra} {
					for _, rr := range sec {
						if rr.Header().Ttl > storedMaxTTL[k] {
							storedMaxTTL[k] = rr.Header().Ttl
						}
					}
				}
				ops = append(ops, fmt.Sprintf("s:%d:%d", k, ci))
				outs = append(outs, "-")
				settle(-1, "store")
			case x == 4 && st%3 == 0: // a miss goes through Cache.Exec: the plugins behind the cache answer, the cache stores, and whoever
				// runs after Exec returned (plugins in front of the cache, the server) rewrites the response it now owns
				execKeys++
				k := 2 + execKeys // never stored before: certainly a miss
				m := mkAny(keyName(k), hi*100+st)
				handles = append(handles, m)
				ci := len(handles) - 1
				settle(ci, "produce")
				ops = append(ops, "p:"+join10(elemsH(m)))
				outs = append(outs, "-")
				want := elemsH(m)
				node := &sequence.ChainNode{E: sequence.ExecutableFunc(func(ctx context.Context, qCtx *query_context.Context) error {
					qCtx.SetResponse(m)
					return nil
				})}
				q := new(dns.Msg)
				q.SetQuestion(keyName(k), dns.TypeA)
				qCtx := query_context.NewContext(q)
				if err := c.Exec(context.Background(), qCtx, sequence.NewChainWalker([]*sequence.ChainNode{node}, nil)); err != nil {
					fatal(err)
				}
				settle(ci, "Exec on a miss") // qCtx.SetResponse (called by the stub behind the cache) takes the OPT record out of the message it is given
				if _, _, _, _, ok := c.VerifPeek(msgKey(k)); !ok {
					continue // an answer the cache does not keep (record-less NOERROR, REFUSED)
				}
				if bare10(m) {
					r.Count("stores-of-record-less-answers")
				}
				ops = append(ops, fmt.Sprintf("s:%d:%d", k, ci))
				outs = append(outs, "-")
				stored[k] = want
				storedOpts[k] = -1
				storedMaxTTL[k] = 0
				for _, sec := range [][]dns.RR{m.Answer, m.Ns, m.Extra} {
					for _, rr := range sec {
						if rr.Header().Ttl > storedMaxTTL[k] {
							storedMaxTTL[k] = rr.Header().Ttl
						}
					}
				}
				// Exec has returned: the response belongs to the caller again
				for i := range want {
					if v, ok := mutateH(m, i, hi*1000+st*7+i); ok {
						ops = append(ops, fmt.Sprintf("m:%d:%d:%d", ci, i, v))
						outs = append(outs, "-")
					}
				}
				settle(ci, "mutate")
				time.Sleep(300 * time.Microsecond)
				execStoreKeys = append(execStoreKeys, k)
				r.Count("stores-through-Exec-on-a-miss")
			case x < 7: // a query is answered from the cache
				k := r.Rng.Intn(3)
				if len(execStoreKeys) > 0 && r.Rng.Intn(2) == 0 {
					k = execStoreKeys[r.Rng.Intn(len(execStoreKeys))]
				}
				if stored[k] == nil {
					continue
				}
				lazy := lazyMode && r.Rng.Intn(2) == 0
				if lazy {
					// make the entry stale: same item, message expired, cache entry alive
					if resp, _, _, _, ok := c.VerifPeek(msgKey(k)); ok {
						now := time.Now()
						c.VerifInject(msgKey(k), resp, now.Add(-100*time.Second), now.Add(-time.Second), now.Add(time.Hour))
					}
				}
				q := new(dns.Msg)
				q.SetQuestion(keyName(k), dns.TypeA)
				q.Id = uint16(r.Rng.Intn(65536))
				qCtx := query_context.NewContext(q)
				if err := c.Exec(context.Background(), qCtx, nop); err != nil {
					fatal(err)
				}
				resp := qCtx.R()
				if resp == nil {
					stored[k] = nil // expired / evicted: nothing to compare
					continue
				}
				handles = append(handles, resp)
				got := elemsH(resp)
				desc := map[string]any{"history": strings.Join(ops, ","), "key": k, "stale_hit": lazy, "served": join10(got), "stored": join10(stored[k]), "served_message": resp.String(), "opt_appended_to_handles": fmt.Sprint(optAppended)}
				if len(stored[k]) == 2 {
					r.Count("hits-of-record-less-answers")
				}
				if storedOpts[k] < 0 {
					storedOpts[k] = nOpt10(resp)
				} else if nOpt10(resp) != storedOpts[k] {
					r.Fail("a hit carries a different number of OPT records than an earlier hit of the same stored answer (an EDNS record appended to a served message leaked into the cache)", desc)
				}
				if join10(got) != join10(stored[k]) {
					r.Fail("a hit served contents that differ from what was stored under that key (a caller's mutation leaked into the cache)", desc)
				}
				if resp.Id != q.Id {
					r.Fail("a hit does not carry the id of the query it answers", desc)
				}
				for _, sec := range [][]dns.RR{resp.Answer, resp.Ns, resp.Extra} {
					for _, rr := range sec {
						if rr.Header().Ttl > 700 && storedMaxTTL[k] <= 700 {
							r.Fail("a hit carries a TTL that a caller wrote into another message", desc)
						}
					}
				}
				ops = append(ops, fmt.Sprintf("h:%d:%s:%d", k, b01(lazy), q.Id))
				outs = append(outs, fmt.Sprintf("id=%d,vals=%s", resp.Id, join10(got)))
				settle(len(handles)-1, fmt.Sprintf("hit of key %d with id %d", k, q.Id))
			default: // somebody mutates a message it holds
				ci := r.Rng.Intn(len(handles))
				if r.Rng.Intn(5) == 0 { // what the server does for an EDNS0 client (OPT records are not tracked by the model)
					handles[ci].Extra = append(handles[ci].Extra, &dns.OPT{Hdr: dns.RR_Header{Name: ".", Rrtype: dns.TypeOPT, Class: uint16(1200 + st)}})
					optAppended = append(optAppended, ci)
					settle(ci, "append OPT")
					continue
				}
				n := len(elemsH(handles[ci]))
				i := r.Rng.Intn(n)
				if r.Rng.Intn(4) == 0 {
					i = n - 1 // the header
				}
				v, ok := mutateH(handles[ci], i, hi*1000+st)
				if !ok {
					continue
				}
				ops = append(ops, fmt.Sprintf("m:%d:%d:%d", ci, i, v))
				outs = append(outs, "-")
				settle(ci, "mutate")
			}
		}
		c.Close()
		if len(ops) == 0 {
			continue
		}
		r.Line("iso "+strings.Join(ops, ","), strings.Join(outs, ";"))
		r.Eval(fmt.Sprintf("iso/%d", hi), strings.Contains(strings.Join(ops, ","), "h:"))
		r.Count(map[bool]string{true: "histories:lazy-cache", false: "histories:plain"}[lazyMode])
		r.Trace()
	}

	// ---------------------------------------------------------- concurrent queries (also run under the race detector)
	rounds := r.N(4, 30)
	for rd := 0; rd < rounds; rd++ {
		lazyMode := rd%2 == 1
		args := &cacheplugin.Args{Size: 1024}
		if lazyMode {
			args.LazyCacheTTL = 3600
		}
		c := cacheplugin.NewCache(args, cacheplugin.Opts{})
		name := "conc.c10.example."
		q0 := new(dns.Msg)
		q0.SetQuestion(name, dns.TypeA)
		mk := cacheplugin.VerifGetMsgKey(q0)
		orig := mkResp(name, 424242+rd)
		if rd%4 >= 2 { // an answer without any record: header-only SERVFAIL / NXDOMAIN without SOA
			orig = mkBare(name)
			orig.Rcode = []int{dns.RcodeServerFailure, dns.RcodeNameError}[r.Rng.Intn(2)]
			r.Count("concurrent-rounds:record-less-answer")
		}
		wantRcode := orig.Rcode
		c.VerifSave(mk, orig)
		want := join10(elems10(orig))
		if lazyMode {
			if resp, _, _, _, ok := c.VerifPeek(mk); ok {
				now := time.Now()
				c.VerifInject(mk, resp, now.Add(-100*time.Second), now.Add(-time.Second), now.Add(time.Hour))
			}
		}
		var wg sync.WaitGroup
		var mu sync.Mutex
		bad := 0
		first := ""
		for w := 0; w < 8; w++ {
			wg.Add(1)
			go func(w int) {
				defer wg.Done()
				for i := 0; i < 60; i++ {
					q := new(dns.Msg)
					q.SetQuestion(name, dns.TypeA)
					q.Id = uint16(w*1000 + i)
					qCtx := query_context.NewContext(q)
					if err := c.Exec(context.Background(), qCtx, nop); err != nil {
						continue
					}
					resp := qCtx.R()
					if resp == nil {
						continue
					}
					got := join10(elems10(resp))
					if got != want || resp.Id != q.Id || resp.Rcode != wantRcode {
						mu.Lock()
						bad++
						if first == "" {
							first = got
						}
						mu.Unlock()
					}
					// what a later plugin or the server may do to the response it was handed
					for _, rr := range resp.Answer {
						rr.Header().Ttl = 1
						rr.Header().Name = "served-and-rewritten.example."
					}
					if len(resp.Question) > 0 {
						resp.Question[0].Name = "rewritten.example."
					}
					resp.Extra = append(resp.Extra, &dns.OPT{Hdr: dns.RR_Header{Name: ".", Rrtype: dns.TypeOPT}})
					resp.Answer = resp.Answer[:0]
					resp.Rcode = dns.RcodeRefused
					resp.RecursionAvailable = true
				}
			}(w)
		}
		// meanwhile the producer of the stored response keeps using it
		wg.Add(1)
		go func() {
			defer wg.Done()
			for i := 0; i < 100; i++ {
				for _, rr := range orig.Answer {
					rr.Header().Ttl = uint32(i)
				}
				orig.Question[0].Name = fmt.Sprintf("producer-%d.example.", i)
			}
		}()
		wg.Wait()
		if bad > 0 {
			r.Fail("concurrent hits for one question did not all serve the stored contents with their own id", map[string]any{"lazy_cache": lazyMode, "bad_hits": bad, "stored": want, "first_bad": first})
		}
		c.Close()
		r.Eval(fmt.Sprintf("conc/%d", rd), true)
		r.Count("concurrent-rounds")
		r.Trace()
	}
	r.burst10(mkResp, mutate, raceOnly)
	r.Finish("histories (8..37 operations) over the real cache plugin, plain and with lazy cache: produce a response (A / AAAA / TXT / CNAME answers, optional NS, glue, OPT), store it, serve fresh or stale hits through Cache.Exec, overwrite in place any tracked element of any message held by a caller (question element, owner name, class, record data, the slice element, TTL, header fields other than the id) or append an OPT record to it; answers without any record (header-only SERVFAIL / NXDOMAIN / NOERROR / REFUSED, stored through VerifSave and through Exec on a miss) are part of the histories, the header is a tracked element of its own, and after every operation the text form (id and OPT included) of every other held message must be unchanged; 8 goroutines x 60 concurrent hits that rewrite what they were served while the producer rewrites what it stored (second pass under the race detector); 2..5 queries for one question in flight on a cold or expired entry (the upstream stub keeps the first exchange open until the others returned or queued up, and gives every exchange its own message), then each client in turn rewrites every element of its answer, appends its OPT and truncates: no other client's answer may change, a later hit serves the upstream's contents (replayed on the model as miss / look-at-handle operations; in the race pass the clients rewrite right after Exec returns)")
}
