//go:build pC04 || pall

package main

import (
	"bytes"
	"context"
	"fmt"
	"net"
	"sort"
	"strings"

	"github.com/IrineSistiana/mosdns/v5/pkg/query_context"
	"github.com/IrineSistiana/mosdns/v5/plugin/executable/cache"
	"github.com/IrineSistiana/mosdns/v5/plugin/executable/sequence"
	"github.com/miekg/dns"
)

// C04: a cached answer is only served to the same question.
//
// (1) correspondence: getMsgKey (through the verif shim) vs Gen/Model key.
// (2) oracle on the implementation: for a query and its one-attribute
//     variants, keys must differ, and through the real cache.Exec the variant
//     must not be served the base query's answer (both orders).

type q04 struct {
	resp       bool
	opcode     int
	nq         int
	ad, cd, do bool
	hasOpt     bool
	extraShape int // where the OPT sits among other additional records: 0 alone, 1 first (a record follows), 2 last (a record precedes), 3 in the middle
	qtype      uint16
	qclass     uint16
	name       string
}

func (q q04) msg() *dns.Msg {
	m := new(dns.Msg)
	m.Id = 4242
	m.Response = q.resp
	m.Opcode = q.opcode
	m.AuthenticatedData = q.ad
	m.CheckingDisabled = q.cd
	for i := 0; i < q.nq; i++ {
		n := q.name
		if i > 0 {
			n = "second." + n
		}
		m.Question = append(m.Question, dns.Question{Name: n, Qtype: q.qtype, Qclass: q.qclass})
	}
	if q.hasOpt || q.do {
		o := &dns.OPT{Hdr: dns.RR_Header{Name: ".", Rrtype: dns.TypeOPT}}
		o.SetUDPSize(1232)
		if q.do {
			o.SetDo()
		}
		other := func(n string) dns.RR {
			return &dns.TXT{Hdr: dns.RR_Header{Name: n, Rrtype: dns.TypeTXT, Class: dns.ClassINET, Ttl: 0}, Txt: []string{"additional"}}
		}
		if q.extraShape == 2 || q.extraShape == 3 {
			m.Extra = append(m.Extra, other("before.example."))
		}
		m.Extra = append(m.Extra, o)
		if q.extraShape == 1 || q.extraShape == 3 {
			m.Extra = append(m.Extra, other("after.example.")) // e.g. a SIG(0)/TSIG record, which must follow the OPT
		}
	}
	return m
}

func (q q04) opLine() string {
	return fmt.Sprintf("key %s %d %d %s %s %s %d %d %s", b01(q.resp), q.opcode, q.nq, b01(q.ad), b01(q.cd), b01(q.do), q.qtype, q.qclass, hx([]byte(q.name)))
}

func (q q04) cacheable() bool { return !q.resp && q.opcode == 0 && q.nq == 1 }

func (q q04) String() string {
	return fmt.Sprintf("{name=%q type=%d class=%d ad=%v cd=%v do=%v qr=%v opcode=%d nq=%d additional-section-shape=%d}", q.name, q.qtype, q.qclass, q.ad, q.cd, q.do, q.resp, q.opcode, q.nq, q.extraShape)
}

func sameQuestion(a, b q04) bool {
	return a.name == b.name && a.qtype == b.qtype && a.qclass == b.qclass && a.ad == b.ad && a.cd == b.cd && a.do == b.do
}

func (r *Run) genQ04() q04 {
	q := q04{nq: 1, qtype: r.U16(), qclass: r.U16(), name: r.Name()}
	if r.Rng.Intn(2) == 0 {
		q.qclass = []uint16{1, 1, 1, 3, 4, 254, 255}[r.Rng.Intn(7)]
	}
	if r.Rng.Intn(2) == 0 {
		q.qtype = []uint16{1, 28, 5, 15, 16, 257, 65, 64, 2, 6, 12, 33, 255}[r.Rng.Intn(13)]
	}
	q.ad = r.Rng.Intn(2) == 0
	q.cd = r.Rng.Intn(2) == 0
	q.do = r.Rng.Intn(2) == 0
	q.hasOpt = q.do || r.Rng.Intn(2) == 0
	if r.Rng.Intn(3) == 0 {
		q.extraShape = 1 + r.Rng.Intn(3)
	}
	switch r.Rng.Intn(20) { // malformed / bypass stream
	case 0:
		q.resp = true
	case 1:
		q.opcode = 1 + r.Rng.Intn(15)
	case 2:
		q.nq = 0
	case 3:
		q.nq = 2
	}
	return q
}

// variants04 returns queries that differ from q in exactly one attribute.
func (r *Run) variants04(q q04) map[string]q04 {
	vs := map[string]q04{}
	set := func(k string, f func(*q04)) {
		v := q
		f(&v)
		if !sameQuestion(v, q) {
			// only names that exist on the wire: a query whose name does not pack (empty label, label > 63 bytes)
			// cannot reach the plugin, and a response built for it could not be dumped
			if _, ok := dns.IsDomainName(v.name); !ok && v.name != q.name {
				return
			}
			if v.name != q.name {
				if _, err := v.msg().Pack(); err != nil {
					return
				}
			}
			vs[k] = v
		}
	}
	set("type^0x100", func(v *q04) { v.qtype ^= 0x100 })
	set("type^0x8000", func(v *q04) { v.qtype ^= 0x8000 })
	set("type+1", func(v *q04) { v.qtype++ })
	set("type-swap", func(v *q04) { v.qtype = v.qtype<<8 | v.qtype>>8 })
	set("type-rand", func(v *q04) { v.qtype = r.U16() })
	set("class^0x100", func(v *q04) { v.qclass ^= 0x100 })
	set("class+1", func(v *q04) { v.qclass++ })
	set("class-rand", func(v *q04) { v.qclass = r.U16() })
	set("class=type", func(v *q04) { v.qclass, v.qtype = v.qtype, v.qclass })
	set("ad", func(v *q04) { v.ad = !v.ad })
	set("cd", func(v *q04) { v.cd = !v.cd })
	set("do", func(v *q04) { v.do = !v.do; v.hasOpt = v.hasOpt || v.do })
	set("ad<->cd", func(v *q04) { v.ad, v.cd = v.cd, v.ad })
	set("cd<->do", func(v *q04) { v.cd, v.do = v.do, v.cd; v.hasOpt = v.hasOpt || v.do })
	n := q.name
	if len(n) >= 2 {
		set("name-last-char", func(v *q04) {
			b := []byte(n)
			i := len(b) - 2
			if b[i] == 'x' {
				b[i] = 'y'
			} else {
				b[i] = 'x'
			}
			v.name = string(b)
		})
		set("name-first-char", func(v *q04) {
			b := []byte(n)
			if b[0] == 'x' {
				b[0] = 'y'
			} else {
				b[0] = 'x'
			}
			v.name = string(b)
		})
		set("name-case", func(v *q04) { v.name = strings.ToUpper(n) }) // distinct presentation => may or may not share; not required to differ
		delete(vs, "name-case")
	}
	if len(n) < 250 {
		set("name-prefix-label", func(v *q04) { v.name = "a." + n })
		set("name-extra-char", func(v *q04) { v.name = "a" + n })
	}
	if len(n) > 4 {
		set("name-parent", func(v *q04) {
			if i := strings.IndexByte(n, '.'); i >= 0 && i+1 < len(n) {
				v.name = n[i+1:]
			}
		})
	}
	return vs
}

type exec04 struct {
	c     *cache.Cache
	next  sequence.ChainWalker
	ctr   int
	cur   string         // op line of the query being asked
	owner map[int]string // serial -> op line of the query the answer was produced for
}

func newExec04(owner map[int]string, start int) *exec04 {
	return newExec04On(cache.NewCache(&cache.Args{Size: 1 << 16}, cache.Opts{}), owner, start)
}

// newExec04On drives an existing cache instance (c04reload.go: instances with a dump_file, instances that loaded a dump).
func newExec04On(c *cache.Cache, owner map[int]string, start int) *exec04 {
	e := &exec04{c: c, owner: owner, ctr: start}
	node := &sequence.ChainNode{E: sequence.ExecutableFunc(func(ctx context.Context, qCtx *query_context.Context) error {
		if qCtx.R() != nil {
			return nil
		}
		e.ctr++
		e.owner[e.ctr] = e.cur
		m := new(dns.Msg)
		m.SetReply(qCtx.Q())
		ip := net.IPv4(10, byte(e.ctr>>16), byte(e.ctr>>8), byte(e.ctr))
		m.Answer = append(m.Answer, &dns.A{Hdr: dns.RR_Header{Name: qCtx.Q().Question[0].Name, Rrtype: dns.TypeA, Class: dns.ClassINET, Ttl: 3600}, A: ip})
		qCtx.SetResponse(m)
		return nil
	})}
	e.next = sequence.NewChainWalker([]*sequence.ChainNode{node}, nil)
	return e
}

// ask runs q through cache.Exec; returns the serial number found in the answer.
func (e *exec04) ask(q q04) (serial int, err error) {
	m := q.msg()
	do := q.do
	e.cur = q.opLine()
	qCtx := query_context.NewContext(m)
	if do { // NewContext terminates the client's EDNS0; a plugin in front of cache may set DO again.
		qCtx.QOpt().SetDo()
	}
	if err := e.c.Exec(context.Background(), qCtx, e.next); err != nil {
		return 0, err
	}
	r := qCtx.R()
	if r == nil || len(r.Answer) != 1 {
		return 0, fmt.Errorf("no answer")
	}
	a, ok := r.Answer[0].(*dns.A)
	if !ok {
		return 0, fmt.Errorf("answer is not A")
	}
	ip := a.A.To4()
	return int(ip[1])<<16 | int(ip[2])<<8 | int(ip[3]), nil
}

func init() { props["C04"] = runC04 }

func runC04(r *Run) {
	n := r.N(3000, 60000)
	// boundary grid first (enumerated, not sampled)
	var bases []q04
	for _, t := range []uint16{0, 1, 255, 256, 257, 511, 512, 65535} {
		for _, c := range []uint16{0, 1, 3, 255, 256, 257, 65535} {
			for f := 0; f < 8; f++ {
				bases = append(bases, q04{nq: 1, qtype: t, qclass: c, ad: f&1 != 0, cd: f&2 != 0, do: f&4 != 0, hasOpt: true, name: "grid.example."})
			}
		}
	}
	long := strings.Repeat("a", 63) + "." + strings.Repeat("b", 63) + "." + strings.Repeat("c", 63) + "." + strings.Repeat("d", 61) + "."
	bases = append(bases, q04{nq: 1, qtype: 1, qclass: 1, name: long}, q04{nq: 1, qtype: 1, qclass: 1, name: "."}, q04{nq: 1, qtype: 1, qclass: 1, name: "a."})
	for len(bases) < n {
		bases = append(bases, r.genQ04())
	}

	owner := map[int]string{}
	ex := newExec04(owner, 0)
	var asked []q04
	// foreign reports an answer that was produced for a different query.
	foreign := func(e *exec04, q q04, serial int, where string) {
		if o, ok := owner[serial]; ok && o != q.opLine() {
			r.Fail("a query was served an answer that was produced and cached for a different question ("+where+")", map[string]any{"served_to": q.String(), "served_to_op": q.opLine(), "produced_for_op": o})
		}
	}
	bbEvery := 1
	if len(bases) > 4000 {
		bbEvery = len(bases) / 4000
	}
	for i, q := range bases {
		key := cache.VerifGetMsgKey(q.msg())
		r.Line(q.opLine(), hx([]byte(key)))
		r.Eval("key:"+q.opLine(), q.cacheable())
		switch {
		case q.resp:
			r.Count("bypass:qr")
		case q.opcode != 0:
			r.Count("bypass:opcode")
		case q.nq != 1:
			r.Count(fmt.Sprintf("bypass:nq=%d", q.nq))
		default:
			r.Count("cacheable")
			if len(q.name) > 250 {
				r.Count("cacheable:name>250")
			}
		}
		if q.cacheable() != (key != "") {
			r.Fail("bypass rule: cacheable query has empty key or non-cacheable query has a key", map[string]any{"query": q.String(), "key": hx([]byte(key))})
		}
		if !q.cacheable() {
			continue
		}
		vmap := r.variants04(q)
		kinds := make([]string, 0, len(vmap))
		for kind := range vmap {
			kinds = append(kinds, kind)
		}
		sort.Strings(kinds)
		for _, kind := range kinds {
			v := vmap[kind]
			vk := cache.VerifGetMsgKey(v.msg())
			r.Eval("pair:"+q.opLine()+"|"+v.opLine(), true)
			r.Count("variant:" + kind)
			if vk == key {
				r.Fail("two queries that differ in "+kind+" share one cache key", map[string]any{"a": q.String(), "b": v.String(), "key": hx([]byte(key)), "a_op": q.opLine(), "b_op": v.opLine()})
			}
			// black box through cache.Exec, both orders, on a subset
			if i%bbEvery == 0 && (kind == "type^0x100" || kind == "class^0x100" || kind == "class+1" || kind == "do" || kind == "ad" || kind == "cd" || kind == "name-last-char" || r.Rng.Intn(6) == 0) {
				first, second := q, v
				if r.Rng.Intn(2) == 0 {
					first, second = v, q
				}
				s1, err1 := ex.ask(first)
				s2, err2 := ex.ask(second)
				s1b, err3 := ex.ask(first)
				r.Eval("bb:"+first.opLine()+"|"+second.opLine(), true)
				r.Count("blackbox-pair")
				if err1 != nil || err2 != nil || err3 != nil {
					r.Count("blackbox-error")
					continue
				}
				foreign(ex, first, s1, "live cache")
				foreign(ex, second, s2, "live cache")
				foreign(ex, first, s1b, "live cache")
				if len(asked) < 6000 {
					asked = append(asked, first, second)
				}
				if s1 == s2 {
					r.Fail("cache.Exec served the answer stored for one query to a query that differs in "+kind, map[string]any{"stored_by": first.String(), "served_to": second.String()})
				}
				if s1b != s1 {
					r.Count("blackbox-repeat-miss") // not a C04 matter; shows the harness really hits
				} else {
					r.Count("blackbox-repeat-hit")
				}
			}
		}
	}
	// dump the cache, load the dump into a fresh instance, ask again: nobody
	// may be served an answer that belongs to a different question.
	var dump bytes.Buffer
	if _, err := ex.c.VerifWriteDump(&dump); err != nil {
		r.Note("dump failed: " + err.Error())
		r.Fail("the dump of a cache filled through Cache.Exec failed, so the reload step could not run", map[string]any{"error": err.Error()})
		for _, q := range asked {
			if resp, _, _, _, ok := ex.c.VerifPeek(cache.VerifGetMsgKey(q.msg())); ok {
				if _, perr := resp.Pack(); perr != nil {
					r.Note("stored response that does not pack: " + q.String() + " :: " + strings.ReplaceAll(resp.String(), "\n", " | ") + " :: " + perr.Error())
					break
				}
			}
		}
	} else {
		ex2 := newExec04(owner, 1<<23)
		if _, err := ex2.c.VerifReadDump(bytes.NewReader(dump.Bytes())); err != nil {
			r.Note("load_dump failed: " + err.Error())
		} else {
			hits := 0
			for _, q := range asked {
				s, err := ex2.ask(q)
				if err != nil {
					continue
				}
				r.Eval("reload:"+q.opLine(), true)
				if s < 1<<23 {
					hits++
				}
				foreign(ex2, q, s, "after dump and load_dump")
			}
			r.meta.Dist["reload-asked"] = len(asked)
			r.meta.Dist["reload-hit"] = hits
		}
	}
	// cache lives: questions whose key bytes are adversarial for layout-guessing code on the dump / load path (c04reload.go)
	runReload04(r)
	// chains with several cache plugins and question-rewriting plugins between them (c04chain.go)
	runChains04(r)
	// the same without `[has_resp] accept` behind the cache plugins: a hit travels on to the next cache plugin (c04through.go)
	runThrough04(r)
	// several clients at one cache plugin around the expiry of entries (c04burst.go)
	runBursts04(r)
	r.Finish("boundary grid of types x classes x 8 flag sets, then seeded queries (mostly valid, 20% bypass stream); each cacheable query with ~20 one-attribute variants; non-trivial = cacheable query / variant pair; distinct by full query text; then seeded sequences with 2-3 cache plugins (distinct or one instance twice; inline, jump or goto) and prefer_ipv4/prefer_ipv6, redirect or a question-rewriting plugin (type, name, class, AD, CD, DO; on a Copy() or in place) between them, 4-10 queries each entering at the head or at a later cache plugin, a probe behind every cache plugin; the observed store/hit events are replayed on the model's trace acceptor (one `chain` line per sequence), and seeded sequences of 2-3 cache plugins with no `[has_resp] accept` between them (a hit travels on through redirect or the rewriting plugin to the next cache plugin; only the upstream is behind !has_resp; every instance also reachable through a `cache -> upstream` sequence of its own), hits and stores observed by recorders in front of and behind every cache plugin (response object identity) and replayed on the same acceptor; a quarter of these cache plugins have lazy_cache_ttl, their entries are aged through VerifInject while an earlier cache's entry is alive, the background refresh (on a copy of the context that carries the earlier hit) is awaited and the questions are asked again; in a third of all these sequences the upstream answers NXDOMAIN / NODATA (to every name or depending on the name) with its answer number in the SOA serial, other types of the name asked afterwards; before that, dump / reload batches (verif shims, dump_file + Close + NewCache, GET /dump + POST /load_dump) over pairs of wire-stable questions whose keys are 1-3 inserted header bytes apart (every offset x filling x which of the two was stored), both asked after the reload: an answer served from the cache must have been produced for the same question; events replayed on the same acceptor; finally rounds of 2-32 concurrent clients at one cache plugin (GOMAXPROCS 2 .. 2 x CPUs, with and without lazy_cache_ttl) asking 1-12 questions at the moment their entries run out (lifetimes of 100-600 us set through VerifInject, and one round of 150+ real 1 s TTLs stored through Exec), upstream answering or down, then 2-4 times as many other questions stored and everything asked again: every answer handed to a client carries the question it was produced for and must be for the question asked; store / hit events of 30 rounds replayed on the acceptor")
}
