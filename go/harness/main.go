// Command harness runs the real mosdns code (from /repo, built with -tags
// verif) on generated inputs and writes, per property, the model-driver
// operations, the implementation's canonical results and a meta file.
//
//	harness <Cxx> -seed N -tier quick|thorough -out DIR
package main

import (
	"flag"
	"fmt"
	"os"
)

// props is filled by the init functions of the per-property files; each of
// them is compiled only with its own build tag (pCxx) so that a shim that no
// longer builds affects only the properties that use it.
var props = map[string]func(*Run){}

func main() {
	if len(os.Args) < 2 {
		fmt.Fprintln(os.Stderr, "usage: harness <Cxx> -seed N -tier quick|thorough -out DIR")
		os.Exit(2)
	}
	prop := os.Args[1]
	fs := flag.NewFlagSet("harness", flag.ExitOnError)
	seed := fs.Int64("seed", 1, "PRNG seed")
	tier := fs.String("tier", "quick", "quick|thorough")
	out := fs.String("out", "", "output directory")
	fs.Parse(os.Args[2:])
	f, ok := props[prop]
	if !ok {
		fmt.Fprintln(os.Stderr, "unknown property", prop)
		os.Exit(2)
	}
	if *out == "" {
		fmt.Fprintln(os.Stderr, "missing -out")
		os.Exit(2)
	}
	f(NewRun(prop, *seed, *tier, *out))
}
