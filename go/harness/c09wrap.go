//go:build pC09 || pall

package main

import (
	"context"
	"encoding/binary"
	"fmt"
	"strings"
	"sync"
	"time"

	"github.com/IrineSistiana/mosdns/v5/pkg/upstream/transport"
)

// part 11: histories that are longer than the 16-bit wire id space. Some
// queries stay unanswered for a long time while tens of thousands of further
// queries are answered one after the other on the remaining room (op `fill:N`),
// so that the connection's id counter comes back to the ids of the waiting
// ones; then the connection is filled up. The harness is the server: it counts
// the queries written and not answered by it (by tag: a datagram resend is not
// a new query). Oracles as in part 1 (capacity probe after every operation,
// unanswered <= limit), every history replayed on the model.
func idWrap09(r *Run) {
	for hi, n := 0, r.N(1, 3); hi < n; hi++ {
		max := 2 + r.Rng.Intn(3)
		stream := r.Rng.Intn(2) == 0
		fc := newFakeConn(20000+hi, stream)
		var mu sync.Mutex
		pending := map[int][]byte{} // server side: tag -> wire query, written and not answered
		auto := map[int]bool{}      // queries the server answers at once
		maxPending := 0
		var lastWid uint16 // the wire id of the newest query the server has seen
		fc.onWrite = func(c *fakeConn, p []byte) error {
			pl := c.payloadOf(p)
			tag := tagOf(pl)
			if len(pl) < 12 || tag < 0 {
				return nil
			}
			mu.Lock()
			isAuto := auto[tag]
			if _, dup := pending[tag]; !dup {
				now := len(pending) + 1
				if now > maxPending {
					maxPending = now
				}
				if !isAuto {
					pending[tag] = append([]byte(nil), pl...)
				}
				lastWid = binary.BigEndian.Uint16(pl)
			}
			mu.Unlock()
			if isAuto {
				c.feed(c.frame(mkReply(pl, binary.BigEndian.Uint16(pl))))
			}
			return nil
		}
		dc := transport.NewDnsConn(transport.TraditionalDnsConnOpts{WithLengthHeader: stream, IdleTimeout: 60 * time.Second, MaxConcurrentQuery: max}, fc)
		var holders []transport.ReservedExchanger
		var long, short []*call09 // unanswered queries: the long-lived ones, the others
		var ops, outs []string
		bad, badLimit := false, false
		desc := func(m map[string]any) map[string]any {
			m["limit"], m["history"], m["stream"] = max, strings.Join(ops, ","), stream
			return m
		}
		emit := func(op, out string) {
			free := probe09(dc.ReserveNewQuery)
			ops = append(ops, op)
			outs = append(outs, fmt.Sprintf("%s:%d", out, free))
			mu.Lock()
			srv, srvMax := len(pending), maxPending
			mu.Unlock()
			un := len(long) + len(short)
			if dc.IsClosed() {
				return
			}
			if free != max-len(holders)-un && !bad {
				bad = true
				r.Fail("a live connection does not admit exactly limit - (reservations + unanswered queries) further queries", desc(map[string]any{
					"reservations_held": len(holders), "unanswered": un, "unanswered_at_server": srv, "admits": free}))
			}
			if (srvMax > max || un > max) && !badLimit {
				bad, badLimit = true, true
				r.Fail("a connection carries more unanswered queries than its limit", desc(map[string]any{"unanswered": un, "most_unanswered_at_server": srvMax}))
			}
			r.Count("tdc-op:" + strings.SplitN(strings.SplitN(op, "+", 2)[0], ":", 2)[0])
		}
		newCall := func(answerAtOnce bool) (*call09, context.Context, []byte) {
			tag09++
			c := &call09{tag: tag09, id: uint16(tag09*13 + 5), done: make(chan struct{})}
			ctx, cancel := context.WithTimeout(context.Background(), 10*time.Minute) // outlives the history
			c.cancel = cancel
			if answerAtOnce {
				mu.Lock()
				auto[c.tag] = true
				mu.Unlock()
			}
			return c, ctx, mkQuery(c.id, c.tag)
		}
		entered := 0
		seenWid := func() uint16 {
			mu.Lock()
			defer mu.Unlock()
			return lastWid
		}
		// enter: the last holder sends a query that the server leaves unanswered
		enter := func() *call09 {
			rx := holders[len(holders)-1]
			holders = holders[:len(holders)-1]
			c, ctx, q := newCall(false)
			go func() {
				c.resp, c.err = rx.ExchangeReserved(ctx, q)
				close(c.done)
			}()
			for dl := time.Now().Add(5 * time.Second); time.Now().Before(dl); time.Sleep(50 * time.Microsecond) {
				mu.Lock()
				w := pending[c.tag]
				mu.Unlock()
				if w != nil {
					c.wireQ = w
					entered++
					return c
				}
				select {
				case <-c.done:
					return nil
				default:
				}
			}
			return nil
		}
		reserve := func() bool {
			rx, cl := dc.ReserveNewQuery()
			out := "r"
			if rx != nil {
				out = "a"
				holders = append(holders, rx)
			} else if cl {
				out = "c"
			}
			emit("reserve", out)
			return rx != nil
		}
		reply := func(c *call09) {
			mu.Lock()
			delete(pending, c.tag)
			mu.Unlock()
			fc.feed(fc.frame(mkReply(c.wireQ, binary.BigEndian.Uint16(c.wireQ))))
			if !c.wait(5*time.Second) || c.err != nil || tagOf(*c.resp) != c.tag || binary.BigEndian.Uint16(*c.resp) != c.id {
				if !dc.IsClosed() {
					bad = true
					r.Fail("an answered query did not return its own reply", desc(map[string]any{"err": fmt.Sprint(c.err)}))
				}
			}
			emit("reply+exit0", "-")
		}
		// fill: n queries one after the other, each answered at once
		fill := func(n int) bool {
			if n <= 0 {
				return true
			}
			for i := 0; i < n; i++ {
				rx, _ := dc.ReserveNewQuery()
				if rx == nil {
					if !dc.IsClosed() {
						bad = true
						r.Fail("a healthy connection holding fewer unanswered queries than its limit refused another query", desc(map[string]any{
							"unanswered": len(long) + len(short), "reservations_held": len(holders), "answered_one_by_one_before": i}))
					}
					return false
				}
				c, ctx, q := newCall(true)
				resp, err := rx.ExchangeReserved(ctx, q)
				c.cancel()
				if err != nil || tagOf(*resp) != c.tag || binary.BigEndian.Uint16(*resp) != c.id {
					if !dc.IsClosed() {
						bad = true
						r.Fail("an answered query did not return its own reply", desc(map[string]any{"err": fmt.Sprint(err), "answered_one_by_one_before": i}))
					}
					return false
				}
				mu.Lock()
				delete(auto, c.tag)
				mu.Unlock()
			}
			fc.mu.Lock()
			fc.writes = fc.writes[:0]
			fc.rdlHist, fc.rdlSetAt = fc.rdlHist[:0], fc.rdlSetAt[:0]
			fc.mu.Unlock()
			emit(fmt.Sprintf("fill:%d", n), "a")
			return true
		}
		ok := fill(r.Rng.Intn(300)) // the waiting queries do not sit at id 0
		var firstWid uint16
		nLong := 1 + r.Rng.Intn(max-1)
		for i := 0; ok && i < nLong; i++ {
			if !reserve() {
				ok = false
				break
			}
			c := enter()
			if c == nil {
				ok = false
				break
			}
			long = append(long, c)
			emit("enter1", "a")
			if i == 0 {
				firstWid = seenWid()
			}
			if r.Rng.Intn(2) == 0 {
				ok = fill(r.Rng.Intn(4))
			}
		}
		span := int(seenWid()-firstWid) + 1 // the ids from the first to the last waiting query
		if ok {
			// the counter comes back to d ids before the first waiting query, in two or three runs
			d := r.Rng.Intn(3)
			total := (int(firstWid-(seenWid()+1)) - d + 65536) % 65536
			for total > 0 && ok {
				n := total
				if n > 20000 {
					n = 15000 + r.Rng.Intn(20000)
				}
				if n > total {
					n = total
				}
				ok = fill(n)
				total -= n
				if ok && r.Rng.Intn(2) == 0 && reserve() {
					holders[len(holders)-1].WithdrawReserved()
					holders = holders[:len(holders)-1]
					emit("withdraw", "-")
				}
			}
			// fill the connection up, over and over, until the counter has passed the waiting queries
			entered = 0
			for it := 0; ok && !badLimit && !dc.IsClosed() && it < 200 && entered < d+span+2+max; it++ {
				if reserve() {
					c := enter()
					if c == nil {
						break
					}
					short = append(short, c)
					emit("enter1", "a")
				} else if len(short) > 0 {
					i := r.Rng.Intn(len(short))
					c := short[i]
					short = append(short[:i], short[i+1:]...)
					reply(c)
				} else {
					break
				}
			}
		}
		closedEarly := dc.IsClosed() // e.g. 10 s without a reply on a stalled machine: nothing to compare
		if closedEarly {
			r.Count("id-wrap:connection-closed-early")
		}
		for _, c := range append(long, short...) {
			c.cancel()
		}
		for _, rx := range holders {
			rx.WithdrawReserved()
		}
		dc.Close()
		for _, c := range append(long, short...) {
			c.wait(2 * time.Second)
		}
		if len(ops) == 0 || (closedEarly && !bad) {
			continue
		}
		r.Line(fmt.Sprintf("tdc %d %s", max, strings.Join(ops, ",")), strings.Join(outs, ";"))
		r.Eval(fmt.Sprintf("tdc-id-wrap/%d", hi), true)
		r.Count(fmt.Sprintf("tdc-id-wrap-limit:%d", max))
		r.Trace()
	}
}
