//go:build pC11 || pall

package main

import (
	"fmt"
	"math/rand"
	"os"
	"runtime"
	"sync"
	"sync/atomic"
	"time"

	"github.com/IrineSistiana/mosdns/v5/pkg/cache"
	"github.com/IrineSistiana/mosdns/v5/pkg/concurrent_map"
)

// C11 part 8: the capacity while a stored key is refreshed, removed and replaced at the same time.
//
// A store of a key that is stored already ("refresh"), a removal of that key (Del; for the cache: a lookup that
// finds the entry expired) and a store of a new key of the same shard meet in a shard that is at its maximum,
// in every shard of a completely full map, so that Len() equals the capacity before the round and any surplus
// entry shows in Len().
//
// The three are not left to the scheduler: a RangeDo / Range pass is inside the shard (its callback runs under the
// shard's lock), and from the callback the harness starts the refresh first, lets it reach the shard lock, then
// starts the removal and the store of the new key, lets them queue up behind it, and only then lets the pass go on.
// So all of them are waiting on the same lock when it is released, in a known order of arrival. Whatever happens
// inside each of them, every order of complete operations leaves at most the maximum in the shard. If a goroutine is
// scheduled late the operations simply happen one after the other: a miss, never a false alarm.
// A second family of rounds releases the three by a spin gate with no pass involved (free-running).
//
// Oracle (property statement, "the number of entries never exceeds the configured capacity"): Len() <= capacity
// when all operations of a round have returned, and for every Len() sampled while they run.

type refreshCfg struct {
	size     int
	shards   []uint64 // shards the scenario runs in during one pass
	oneGo    bool     // removal and store of the new key by one goroutine (else two)
	refresh  int      // refreshers per shard
	sampler  bool
	freeRun  bool
	lingerUs int
}

// c11RefreshMapRounds runs `passes` rounds on one full map; it returns a description of the first violation.
func c11RefreshMapRounds(cf refreshCfg, passes int, rng *rand.Rand) (map[string]any, int) {
	size := cf.size
	perShard := size / 64
	m := concurrent_map.NewMapCache[hkey, int](size)
	for sh := uint64(0); sh < 64; sh++ {
		for j := 0; j < perShard; j++ {
			m.Set(hkey(sh*1000+uint64(j)), j)
		}
	}
	linger := func() {
		for t0 := time.Now(); time.Since(t0) < time.Duration(cf.lingerUs)*time.Microsecond; {
			runtime.Gosched()
		}
	}
	next := uint64(perShard)
	shardRounds := 0
	for p := 0; p < passes; p++ {
		in := map[uint64]bool{}
		for _, s := range cf.shards {
			in[s] = true
		}
		var wg sync.WaitGroup
		var maxSampled int64
		stop := make(chan struct{})
		var swg sync.WaitGroup
		if cf.sampler {
			swg.Add(1)
			go func() {
				defer swg.Done()
				for {
					select {
					case <-stop:
						return
					default:
					}
					if n := int64(m.Len()); n > atomic.LoadInt64(&maxSampled) {
						atomic.StoreInt64(&maxSampled, n)
					}
					runtime.Gosched()
				}
			}()
		}
		type trio struct{ x, y hkey }
		var used []trio
		start := func(x hkey, gate *atomic.Bool, wait func()) {
			y := hkey(x.Sum()*1000 + 100 + next%800)
			next++
			used = append(used, trio{x, y})
			hold := func() {
				for gate != nil && !gate.Load() {
				}
			}
			for i := 0; i < cf.refresh; i++ {
				wg.Add(1)
				go func(i int) { defer wg.Done(); hold(); m.Set(x, -1-i) }(i)
			}
			wait()
			if cf.oneGo {
				wg.Add(1)
				go func() { defer wg.Done(); hold(); m.Del(x); m.Set(y, 7) }()
			} else {
				wg.Add(1)
				go func() { defer wg.Done(); hold(); m.Del(x) }()
				wait()
				wg.Add(1)
				go func() { defer wg.Done(); hold(); m.Set(y, 7) }()
			}
			wait()
		}
		if cf.freeRun {
			// the key refreshed must be stored: read one key of each shard first
			xs := map[uint64]hkey{}
			m.RangeDo(func(k hkey, v int) (int, bool, bool, error) {
				if in[k.Sum()%64] {
					xs[k.Sum()%64] = k
				}
				return 0, false, false, nil
			})
			var gate atomic.Bool
			for _, s := range cf.shards {
				if x, ok := xs[s]; ok {
					start(x, &gate, func() {})
				}
			}
			gate.Store(true)
		} else {
			seen := map[uint64]bool{}
			m.RangeDo(func(k hkey, v int) (int, bool, bool, error) {
				sh := k.Sum() % 64
				if !in[sh] || seen[sh] {
					return 0, false, false, nil
				}
				seen[sh] = true
				start(k, nil, linger) // k is stored: the pass is looking at it
				return 0, false, false, nil
			})
		}
		wg.Wait()
		close(stop)
		swg.Wait()
		shardRounds += len(used)
		n := m.Len()
		if s := int(atomic.LoadInt64(&maxSampled)); s > n {
			n = s
		}
		if n > size {
			over := map[string]int{}
			m.RangeDo(func(k hkey, v int) (int, bool, bool, error) {
				over[fmt.Sprint(k.Sum()%64)]++
				return 0, false, false, nil
			})
			for s, c := range over {
				if c <= perShard {
					delete(over, s)
				}
			}
			var tr []string
			for _, t := range used {
				tr = append(tr, fmt.Sprintf("Set(%d) || Del(%d) ; Set(%d)", t.x, t.x, t.y))
			}
			if len(tr) > 8 {
				tr = tr[:8]
			}
			return map[string]any{"configured_size": size, "capacity": size, "len": n, "per_shard_maximum": perShard, "entries_in_overfull_shards": over,
				"pass": p, "concurrent_operations_per_shard (first 8 shards)": tr, "refreshers_per_shard": cf.refresh, "released_by": map[bool]string{true: "spin gate", false: "end of a RangeDo pass over the shard"}[cf.freeRun],
				"setup": "every shard filled to its maximum with distinct keys, Len() == capacity before the pass"}, shardRounds
		}
	}
	return nil, shardRounds
}

// c11RefreshCacheRounds: the same through pkg/cache.Cache's exported API: Store of a stored key whose entry has just
// expired, a lookup of that key (it finds the entry expired and removes it) and a Store of a new key, queued up on
// the shard during a Range pass.
func c11RefreshCacheRounds(size int, passes int, lingerUs int, rng *rand.Rand) (map[string]any, int) {
	capacity := size
	if capacity < 1024 {
		capacity = 1024
	}
	perShard := capacity / 64
	c := cache.New[hkey, int](cache.Opts{Size: size, CleanerInterval: time.Hour})
	defer c.Close()
	far := time.Now().Add(time.Hour)
	for sh := uint64(0); sh < 64; sh++ {
		for j := 0; j < perShard; j++ {
			c.Store(hkey(sh*1000+uint64(j)), j, far)
		}
	}
	linger := func() {
		for t0 := time.Now(); time.Since(t0) < time.Duration(lingerUs)*time.Microsecond; {
			runtime.Gosched()
		}
	}
	next := uint64(perShard)
	shardRounds := 0
	for p := 0; p < passes; p++ {
		// one key per shard gets an expiry a moment ahead (a refresh of a stored key: no growth)
		soon := time.Now().Add(2 * time.Millisecond)
		xs := map[uint64]hkey{}
		c.Range(func(k hkey, v int, e time.Time) error {
			if _, ok := xs[k.Sum()%64]; !ok {
				xs[k.Sum()%64] = k
			}
			return nil
		})
		for _, x := range xs {
			c.Store(x, 1, soon)
		}
		for time.Now().Before(soon.Add(100 * time.Microsecond)) {
			time.Sleep(200 * time.Microsecond)
		}
		var wg sync.WaitGroup
		seen := map[uint64]bool{}
		var tr []string
		c.Range(func(k hkey, v int, e time.Time) error {
			sh := k.Sum() % 64
			x, ok := xs[sh]
			if seen[sh] || !ok {
				return nil
			}
			seen[sh] = true
			y := hkey(sh*1000 + 100 + next%800)
			next++
			shardRounds++
			if len(tr) < 8 {
				tr = append(tr, fmt.Sprintf("Store(%d, live) || Get(%d) of the expired entry ; Store(%d, live)", x, x, y))
			}
			wg.Add(3)
			go func() { defer wg.Done(); c.Store(x, 2, far) }()
			linger()
			go func() { defer wg.Done(); c.Get(x) }()
			go func() { defer wg.Done(); c.Store(y, 3, far) }()
			linger()
			return nil
		})
		wg.Wait()
		if n := c.Len(); n > capacity {
			return map[string]any{"configured_size": size, "capacity": capacity, "len": n, "pass": p, "concurrent_operations_per_shard (first 8 shards)": tr,
				"released_by": "end of a Range pass over the shard", "setup": "every shard filled to its maximum with distinct live keys; one key per shard re-stored with an expiry 2 ms ahead and waited out"}, shardRounds
		}
	}
	return nil, shardRounds
}

func c11RefreshParts(r *Run) {
	raceOnly := os.Getenv("VERIF_RACE") == "1"
	all := make([]uint64, 64)
	for i := range all {
		all[i] = uint64(i)
	}
	total := 0
	passes := r.N(6, 40)
	if raceOnly {
		passes = 2
	}
	sizes := []int{1024, 64, 128, 1100, 2048, 320}
	for i := 0; i < r.N(6, 24); i++ {
		cf := refreshCfg{size: sizes[i%len(sizes)], shards: all, oneGo: i%2 == 0, refresh: 1 + (i/2)%2*r.Rng.Intn(3), sampler: i%3 == 2, lingerUs: 60 + 60*(i%3)}
		if i%6 == 5 {
			cf.freeRun = true
			cf.shards = all[:4]
		}
		p := passes
		if cf.freeRun {
			p = passes * 50
		}
		d, n := c11RefreshMapRounds(cf, p, r.Rng)
		total += n
		if d != nil {
			r.Fail("the map held more entries than its configured capacity after a stored key was refreshed (Set) while it was removed and a new key of the same shard was stored", d)
		}
		r.Eval(fmt.Sprintf("refresh-map/%d", i), n > 0)
		r.Trace()
	}
	for i, size := range []int{1024, 0, 1100} {
		if i > 0 && !r.Thorough() {
			break
		}
		d, n := c11RefreshCacheRounds(size, passes, 100, r.Rng)
		total += n
		if d != nil {
			r.Fail("the cache held more entries than its capacity after a stored key was refreshed (Store) while a lookup removed its expired entry and a new key of the same shard was stored", d)
		}
		r.Eval(fmt.Sprintf("refresh-cache/%d", size), n > 0)
		r.Trace()
	}
	r.meta.Dist["refresh-vs-removal-shard-rounds"] += total
}
