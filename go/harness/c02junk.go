//go:build pC02 || pall

package main

import (
	"bytes"
	"context"
	"encoding/binary"
	"fmt"
	"net"
	"strings"
	"sync"
	"time"

	"github.com/IrineSistiana/mosdns/v5/pkg/upstream"
)

// C02 on datagram connections that also carry datagrams which are no reply to anything (c02junk.go):
//
// a udp socket hands the reader whatever arrives: datagrams shorter than a dns header (1..11 bytes), empty datagrams,
// a cut-off copy of the reply, headers / whole messages with an id nobody waits for. The reader skips them. The
// reply that arrives behind them - in time - must still be returned: the skipped datagrams must leave nothing behind
// in the reader (receive buffer, deadline, waiter table) that costs the next datagram. The fake connection has
// datagram semantics: a Read takes one datagram off the queue and cuts it to the buffer it was given, as a udp
// socket does. A second part runs upstream.NewUpstream("udp://...") against a loopback udp server.

type junk02 struct {
	kind string
	b    []byte
}

// mkJunk02 builds 1..4 datagrams that are no reply to any outstanding query; reply is the datagram that follows them.
func mkJunk02(r *Run, reply []byte, force string) []junk02 {
	n := 1 + r.Rng.Intn(4)
	var out []junk02
	kinds := []string{"runt", "empty", "reply-prefix", "header-unknown-id", "message-unknown-id", "one-byte"}
	for i := 0; i < n; i++ {
		k := kinds[r.Rng.Intn(len(kinds))]
		if i == 0 && force != "" {
			k = force
		}
		var b []byte
		switch k {
		case "runt":
			b = make([]byte, 1+r.Rng.Intn(11))
			r.Rng.Read(b)
		case "one-byte":
			b = []byte{byte(r.Rng.Intn(256))}
		case "empty":
			b = []byte{}
		case "reply-prefix": // carries the right id, but is no dns message
			b = append([]byte(nil), reply[:1+r.Rng.Intn(11)]...)
		case "header-unknown-id":
			b = append([]byte(nil), reply[:12]...)
			binary.BigEndian.PutUint16(b, binary.BigEndian.Uint16(reply)+0x8000) // ids are handed out one after the other: never outstanding here
			b[4], b[5] = 0, 0
		case "message-unknown-id":
			b = append([]byte(nil), reply...)
			binary.BigEndian.PutUint16(b, binary.BigEndian.Uint16(reply)+0x8000)
		}
		out = append(out, junk02{k, b})
	}
	return out
}

func junkText02(js []junk02) string {
	var p []string
	for _, j := range js {
		p = append(p, fmt.Sprintf("%s(%d bytes)", j.kind, len(j.b)))
	}
	return strings.Join(p, ", ")
}

// lens02 is the model-driver form: the lengths of the datagrams the reader is handed, in order.
func lens02(js []junk02, reply []byte) string {
	var p []string
	for _, j := range js {
		p = append(p, fmt.Sprint(len(j.b)))
	}
	p = append(p, fmt.Sprint(len(reply)))
	return strings.Join(p, ",")
}

func junkScenarios02(r *Run, connID *int) {
	forces := []string{"runt", "empty", "one-byte", "reply-prefix", "header-unknown-id", "message-unknown-id", ""}
	places := []string{"before-reply-inside-write", "between-query-and-reply", "idle-before-query", "burst-inside-write"}
	reps := r.N(2, 12)
	nfail := 0 // a failing case costs the caller's whole deadline: a few are enough
	for _, kind := range []string{"tdc-udp", "pipeline-udp"} {
		for _, place := range places {
			for fi, force := range forces {
				for rep := 0; rep < reps && nfail < 4; rep++ {
					var mu sync.Mutex
					var conns []*fakeConn
					var fed []string // what was put on the connection(s), for the report
					var modelLines []string
					junkOn := place != "idle-before-query" // idle: the junk is fed by the scenario between two queries
					dial := func() *fakeConn {
						*connID++
						c := newFakeConn(*connID, false)
						c.onWrite = func(c *fakeConn, w []byte) error {
							if len(w) < 12 {
								return nil
							}
							reply := mkReply(w, binary.BigEndian.Uint16(w))
							mu.Lock()
							var js []junk02
							if junkOn {
								js = mkJunk02(r, reply, force)
								fed = append(fed, junkText02(js)+" | reply")
								modelLines = append(modelLines, lens02(js, reply))
							}
							pause := time.Duration(1+r.Rng.Intn(4)) * time.Millisecond
							mu.Unlock()
							put := func() {
								for _, j := range js {
									c.feed(j.b)
								}
								c.feed(reply)
							}
							if place == "between-query-and-reply" {
								go func() {
									time.Sleep(pause) // the caller parks meanwhile
									for _, j := range js {
										c.feed(j.b)
									}
									c.waitDrained(time.Second) // the reader is back in Read with whatever the junk left behind
									c.feed(reply)
								}()
								return nil
							}
							put()
							c.waitDrained(2 * time.Second)
							return nil
						}
						mu.Lock()
						conns = append(conns, c)
						mu.Unlock()
						return c
					}
					ex, closeT := mk02(kind, dial)
					ncall := 1
					if place == "burst-inside-write" {
						ncall = 2 + r.Rng.Intn(4)
					}
					meter := startStallMeter()
					if place == "idle-before-query" {
						// one answered query opens / warms the connection; then junk arrives while nothing is outstanding
						ctx, cancel := context.WithTimeout(context.Background(), 2500*time.Millisecond)
						_, werr := ex(ctx, mkQuery(uint16(r.Seed)+99, 880000+rep))
						cancel()
						mu.Lock()
						var c *fakeConn
						if len(conns) > 0 {
							c = conns[len(conns)-1]
						}
						mu.Unlock()
						if werr != nil || c == nil {
							meter.Stop()
							closeT()
							nfail++
							r.Fail("the reply was received on the connection before the caller's deadline, but the exchange failed", map[string]any{"transport": kind, "scenario": "junk-datagrams/" + place + " (warm-up query, no junk yet)", "err": fmt.Sprint(werr)})
							r.Eval(fmt.Sprintf("junk/%s/%s/%d/%d/warmup", kind, place, fi, rep), true)
							continue
						}
						js := mkJunk02(r, mkReply(mkQuery(uint16(r.Seed), 1), uint16(r.Rng.Intn(65536))), force)
						for _, j := range js {
							c.feed(j.b)
						}
						c.waitDrained(time.Second)
						mu.Lock()
						fed = append(fed, junkText02(js)+" (socket idle) | query | reply")
						modelLines = append(modelLines, lens02(js, mkQuery(0, 1000*rep)))
						mu.Unlock()
					}
					type res struct {
						ok, own bool
						err     error
						took    time.Duration
					}
					results := make([]res, ncall)
					var wg sync.WaitGroup
					for i := 0; i < ncall; i++ {
						wg.Add(1)
						go func(i int) {
							defer wg.Done()
							id := uint16(r.Seed) + uint16(i*7919)
							q := mkQuery(id, 1000*rep+i)
							ctx, cancel := context.WithTimeout(context.Background(), 2500*time.Millisecond)
							t0 := time.Now()
							resp, err := ex(ctx, q)
							cancel()
							results[i] = res{ok: err == nil && resp != nil, err: err, took: time.Since(t0)}
							if results[i].ok {
								results[i].own = bytes.Equal(*resp, mkReply(q, id))
							}
						}(i)
					}
					wg.Wait()
					stall := meter.Stop()
					closeT()
					for i, rs := range results {
						desc := map[string]any{"transport": kind, "scenario": "junk-datagrams/" + place, "datagrams_on_the_connection": fed, "repetition": rep, "caller": i,
							"concurrent_callers": ncall, "took": rs.took.String(), "err": fmt.Sprint(rs.err), "caller_deadline": "2.5s"}
						if !rs.ok || !rs.own {
							nfail++
						}
						switch {
						case !rs.ok:
							r.Fail("the reply arrived on the datagram connection right behind datagrams that are no dns reply (too short / unknown id), before the caller's deadline, but the exchange failed", desc)
						case !rs.own:
							r.Fail("the exchange returned something other than the reply to its own query", desc)
						case rs.took > 700*time.Millisecond && stall < 150*time.Millisecond:
							r.Fail("the exchange returned the reply only after a retransmission / long wait although it had arrived at once (behind datagrams that are no dns reply)", desc)
						}
						r.Eval(fmt.Sprintf("junk/%s/%s/%d/%d/%d", kind, place, fi, rep, i), true)
						r.Count("junk:" + kind + ":" + place)
						r.Trace()
					}
					for _, ml := range modelLines {
						// the reader model: full-size buffer on every Read -> the datagram returned is the first one of >= 12 bytes, whole
						want := "none"
						for _, f := range strings.Split(ml, ",") {
							var n int
							fmt.Sscan(f, &n)
							if n >= 12 {
								want = fmt.Sprintf("msg %d", n)
								break
							}
						}
						r.Line("udprd 1 4095 "+ml, want)
					}
				}
			}
		}
	}
	junkUpstream02(r)
}

// junkUpstream02: upstream.NewUpstream("udp://127.0.0.1:port") against a loopback udp server that sends junk datagrams
// from its own address before (and behind) every reply.
func junkUpstream02(r *Run) {
	pc, err := net.ListenPacket("udp", "127.0.0.1:0")
	if err != nil {
		r.Note("udp upstream junk scenario skipped: " + err.Error())
		return
	}
	defer pc.Close()
	var mu sync.Mutex
	answered := map[int]time.Time{}
	sent := map[int]string{}
	force := ""
	go func() {
		buf := make([]byte, 4096)
		for {
			n, from, err := pc.ReadFrom(buf)
			if err != nil {
				return
			}
			if n < 12 {
				continue
			}
			q := append([]byte(nil), buf[:n]...)
			reply := mkReply(q, binary.BigEndian.Uint16(q))
			mu.Lock()
			js := mkJunk02(r, reply, force)
			mu.Unlock()
			for _, j := range js {
				pc.WriteTo(j.b, from)
			}
			pc.WriteTo(reply, from)
			mu.Lock()
			if _, dup := answered[tagOf(q)]; !dup {
				answered[tagOf(q)] = time.Now()
				sent[tagOf(q)] = junkText02(js) + " | reply"
			}
			mu.Unlock()
		}
	}()
	const deadline = 3 * time.Second
	nfail := 0
	for rep := 0; rep < r.N(2, 8) && nfail < 2; rep++ {
		u, err := upstream.NewUpstream("udp://"+pc.LocalAddr().String(), upstream.Opt{})
		if err != nil {
			r.Note("udp upstream junk scenario skipped: NewUpstream: " + err.Error())
			return
		}
		for qi, f := range []string{"", "runt", "empty", "one-byte", "reply-prefix", "header-unknown-id"} {
			mu.Lock()
			force = f
			mu.Unlock()
			tag := 990000 + rep*100 + qi
			id := uint16(tag*31) + uint16(r.Seed)
			q := mkQuery(id, tag)
			ctx, cancel := context.WithTimeout(context.Background(), deadline)
			t0 := time.Now()
			resp, xerr := u.ExchangeContext(ctx, q)
			took := time.Since(t0)
			cancel()
			mu.Lock()
			at, ok := answered[tag]
			what := sent[tag]
			mu.Unlock()
			// the oracle applies only if the server had sent the reply (loopback: it is then in the client's socket) well
			// before the caller's deadline
			inTime := ok && at.Sub(t0) < deadline-2*time.Second
			desc := map[string]any{"level": "upstream.NewUpstream", "scheme": "udp", "server_sent": what, "query_no_on_this_upstream": qi, "took": took.String(), "err": fmt.Sprint(xerr), "caller_deadline": deadline.String()}
			switch {
			case !inTime:
				r.Count("junk:up:not-answered-in-time")
			case xerr != nil || resp == nil:
				nfail++
				r.Fail("the server's reply was in the udp socket seconds before the caller's deadline (behind datagrams that are no dns reply), but the exchange failed", desc)
			case !bytes.Equal(*resp, mkReply(q, id)):
				r.Fail("the exchange returned something other than the reply to its own query", desc)
			}
			r.Eval(fmt.Sprintf("junk/up/udp/%d/%d", rep, qi), inTime)
			r.Count("junk:up:udp")
			r.Trace()
		}
		u.Close()
	}
}
