//go:build pC10 || pall

package main

import (
	"context"
	"fmt"
	"strings"
	"sync"
	"sync/atomic"
	"time"

	"github.com/IrineSistiana/mosdns/v5/pkg/query_context"
	cacheplugin "github.com/IrineSistiana/mosdns/v5/plugin/executable/cache"
	"github.com/IrineSistiana/mosdns/v5/plugin/executable/sequence"
	"github.com/miekg/dns"
)

// C10, concurrent misses: several queries for one question are in flight
// while the cache has no (usable) answer for it: the upstream stub keeps the
// first exchange open until the other queries have been started and either
// returned or been given time to queue up behind the first one. The stub
// hands every exchange a message of its own. Every query then gets "an answer
// handed out by the cache"; afterwards each client, one after the other,
// rewrites every element of the answer it owns in place (names, classes,
// record data, slice elements, TTLs), appends its OPT record and truncates,
// as ttl / redirect / the server do. No other client's answer may change by
// that, and a later hit serves the upstream's contents with its own id.
//
// Model side: ops x (a miss through Exec, optionally while another query's
// response for that key is in flight) and o (look at a held handle).
func (r *Run) burst10(mkResp func(string, int) *dns.Msg, mutate func(*dns.Msg, int, int) (uint32, bool), raceOnly bool) {
	rounds := r.N(8, 60)
	if raceOnly {
		rounds = r.N(4, 12)
	}
	for rd := 0; rd < rounds; rd++ {
		n := 2 + r.Rng.Intn(4)
		expiredEntry := r.Rng.Intn(3) == 0 // the name was cached before and has expired (no lazy cache)
		withEdns := r.Rng.Intn(2) == 0
		c := cacheplugin.NewCache(&cacheplugin.Args{Size: 1024}, cacheplugin.Opts{})
		name := fmt.Sprintf("burst-%d.c10.example.", rd)
		const k = 7
		q0 := new(dns.Msg)
		q0.SetQuestion(name, dns.TypeA)
		mk := cacheplugin.VerifGetMsgKey(q0)
		if withEdns {
			q0e := q0.Copy()
			q0e.SetEdns0(1232, false)
			if cacheplugin.VerifGetMsgKey(q0e) != mk {
				withEdns = false // the key depends on the OPT record: keep one key per round
			}
		}
		var ops, outs []string
		nHandles := 0
		if expiredEntry {
			old := mkResp(name, 900000+rd)
			now := time.Now()
			c.VerifInject(mk, cacheplugin.VerifCopyNoOpt(old), now.Add(-1000*time.Second), now.Add(-time.Second), now.Add(time.Hour))
			ops = append(ops, "p:"+join10(elems10(old)), fmt.Sprintf("s:%d:0", k))
			outs = append(outs, "-", "-")
			nHandles++
		}
		tmpl := mkResp(name, 800000+rd)
		want := elems10(tmpl)
		wantTTL := uint32(0)
		for _, sec := range [][]dns.RR{tmpl.Answer, tmpl.Ns, tmpl.Extra} {
			for _, rr := range sec {
				if rr.Header().Ttl > wantTTL {
					wantTTL = rr.Header().Ttl
				}
			}
		}

		var calls atomic.Int32
		firstEntered := make(chan struct{})
		release := make(chan struct{})
		upstream := sequence.ExecutableFunc(func(ctx context.Context, qCtx *query_context.Context) error {
			if calls.Add(1) == 1 {
				close(firstEntered)
				<-release
			}
			m := tmpl.Copy() // every exchange gets a message of its own
			m.Id = qCtx.Q().Id
			qCtx.SetResponse(m)
			return nil
		})
		next := func() sequence.ChainWalker {
			return sequence.NewChainWalker([]*sequence.ChainNode{{E: upstream}}, nil)
		}
		ids := make([]uint16, n)
		for i := range ids {
			ids[i] = uint16(1000*(i+1) + r.Rng.Intn(1000))
		}
		qCtxs := make([]*query_context.Context, n)
		errs := make([]error, n)
		var wg sync.WaitGroup
		othersDone := make(chan struct{})
		var othersLeft atomic.Int32
		othersLeft.Store(int32(n - 1))
		start := func(i int) {
			q := new(dns.Msg)
			q.SetQuestion(name, dns.TypeA)
			q.Id = ids[i]
			if withEdns {
				q.SetEdns0(1232, false)
			}
			qCtxs[i] = query_context.NewContext(q)
			wg.Add(1)
			go func() {
				defer wg.Done()
				errs[i] = c.Exec(context.Background(), qCtxs[i], next())
				if raceOnly {
					// the client goes on with the answer it was given, right away
					if resp := qCtxs[i].R(); resp != nil {
						for j := range want {
							mutate(resp, j, rd*1000+i*50+j)
						}
						resp.Extra = append(resp.Extra, &dns.OPT{Hdr: dns.RR_Header{Name: ".", Rrtype: dns.TypeOPT, Class: 1232}})
					}
				}
				if i > 0 && othersLeft.Add(-1) == 0 {
					close(othersDone)
				}
			}()
		}
		start(0)
		select {
		case <-firstEntered:
		case <-time.After(20 * time.Second):
			fatal(fmt.Errorf("c10 burst: the first query did not reach the upstream stub"))
		}
		for i := 1; i < n; i++ {
			start(i)
		}
		// the others either finish on their own (each has its own exchange) or queue up behind the first query
		queued := false
		select {
		case <-othersDone:
		case <-time.After(150 * time.Millisecond):
			queued = true
		}
		close(release)
		wg.Wait()
		if queued {
			r.Count("concurrent-miss-rounds:later-queries-waited-for-the-first")
		}
		r.Count("concurrent-miss-rounds")
		if raceOnly {
			c.Close()
			r.Eval(fmt.Sprintf("burst/%d", rd), true)
			continue
		}

		resps := make([]*dns.Msg, n)
		ok := true
		for i := 0; i < n; i++ {
			if errs[i] != nil || qCtxs[i].R() == nil {
				ok = false // nothing was handed out: nothing to compare (not demanded by C10)
				break
			}
			resps[i] = qCtxs[i].R()
		}
		if !ok {
			c.Close()
			continue
		}
		base := nHandles
		for i := 0; i < n; i++ {
			inflight := "-"
			if i > 0 {
				inflight = fmt.Sprint(base)
			}
			ops = append(ops, fmt.Sprintf("x:%d:%d:%s:%s", k, ids[i], join10(want), inflight))
			outs = append(outs, fmt.Sprintf("id=%d,vals=%s", resps[i].Id, join10(elems10(resps[i]))))
			nHandles++
		}
		desc := func(extra map[string]any) map[string]any {
			d := map[string]any{"queries_in_flight": n, "question": name + " A", "edns0": withEdns, "expired_entry_before": expiredEntry,
				"later_queries_waited_for_the_first": queued, "upstream_answer": tmpl.String(), "history": strings.Join(ops, ",")}
			for a, b := range extra {
				d[a] = b
			}
			return d
		}
		for i := 0; i < n; i++ {
			if got := join10(elems10(resps[i])); got != join10(want) {
				r.Fail("a query that missed the cache was handed contents that differ from its upstream's answer", desc(map[string]any{"query": i, "got": got, "want": join10(want)}))
			}
		}
		snaps := make([]string, n)
		for i := range resps {
			snaps[i] = resps[i].String()
		}
		order := r.Rng.Perm(n)
		failed := false
		for _, i := range order {
			m := resps[i]
			for j := range want {
				if v, ok := mutate(m, j, rd*1000+i*50+j); ok {
					ops = append(ops, fmt.Sprintf("m:%d:%d:%d", base+i, j, v))
					outs = append(outs, "-")
				}
			}
			// what the server does for an EDNS0 client, and for a small UDP buffer
			m.Extra = append(m.Extra, &dns.OPT{Hdr: dns.RR_Header{Name: ".", Rrtype: dns.TypeOPT, Class: uint16(1200 + i)}})
			if r.Rng.Intn(2) == 0 {
				m.Truncate(dns.MinMsgSize)
			}
			snaps[i] = m.String()
			for j := 0; j < n; j++ {
				if j == i {
					continue
				}
				ops = append(ops, fmt.Sprintf("o:%d", base+j))
				outs = append(outs, "vals="+join10(elems10(resps[j])))
				if now := resps[j].String(); now != snaps[j] && !failed {
					failed = true
					r.Fail("concurrent queries that missed the cache for one question were handed answers that share mutable state: rewriting one client's answer in place changed another client's answer",
						desc(map[string]any{"rewritten_answer_of_query": i, "changed_answer_of_query": j, "before": snaps[j], "after": now}))
				}
			}
		}
		// a later client: a plain hit
		q := new(dns.Msg)
		q.SetQuestion(name, dns.TypeA)
		q.Id = uint16(r.Rng.Intn(65536))
		if withEdns {
			q.SetEdns0(1232, false)
		}
		qCtx := query_context.NewContext(q)
		if err := c.Exec(context.Background(), qCtx, sequence.NewChainWalker(nil, nil)); err != nil {
			fatal(err)
		}
		if resp := qCtx.R(); resp != nil {
			got := elems10(resp)
			d := desc(map[string]any{"served": join10(got), "stored": join10(want)})
			if join10(got) != join10(want) {
				r.Fail("a hit after concurrent misses served contents that differ from what the upstream answered (a client's rewriting leaked into the cache)", d)
			}
			if resp.Id != q.Id {
				r.Fail("a hit does not carry the id of the query it answers", d)
			}
			for _, sec := range [][]dns.RR{resp.Answer, resp.Ns, resp.Extra} {
				for _, rr := range sec {
					if rr.Header().Rrtype != dns.TypeOPT && rr.Header().Ttl > wantTTL {
						r.Fail("a hit carries a TTL that a client wrote into its own answer", d)
					}
				}
			}
			ops = append(ops, fmt.Sprintf("h:%d:0:%d", k, q.Id))
			outs = append(outs, fmt.Sprintf("id=%d,vals=%s", resp.Id, join10(got)))
		}
		c.Close()
		r.Line("iso "+strings.Join(ops, ","), strings.Join(outs, ";"))
		r.Eval(fmt.Sprintf("burst/%d", rd), true)
		r.Trace()
	}
}
