//go:build pC02 || pall

package main

import (
	"bytes"
	"context"
	"encoding/binary"
	"fmt"
	"io"
	"sync"
	"time"

	"github.com/IrineSistiana/mosdns/v5/pkg/upstream/transport"
)

// C02: a reply that arrives in time is never lost.
//
// The reply (and optionally EOF right behind it) is made readable from inside
// the connection's Write, and Write returns only after the reader has consumed
// it: the window "reply arrives before the caller reaches its wait" is forced
// deterministically. Other scenarios deliver reply+EOF back to back while the
// caller is parked (the select between reply and close notification).

func init() { props["C02"] = runC02 }

type xchg02 func(ctx context.Context, q []byte) (*[]byte, error)

// mk02 builds one of the transports around a dial function returning fake conns.
func mk02(kind string, dial func() *fakeConn) (xchg02, func()) {
	switch kind {
	case "tdc-udp", "tdc-tcp":
		c := dial()
		dc := transport.NewDnsConn(transport.TraditionalDnsConnOpts{WithLengthHeader: kind == "tdc-tcp", IdleTimeout: 10 * time.Second, MaxConcurrentQuery: 64}, c)
		return func(ctx context.Context, q []byte) (*[]byte, error) {
			rec, closed := dc.ReserveNewQuery()
			if rec == nil {
				return nil, fmt.Errorf("cannot reserve (closed=%v)", closed)
			}
			return rec.ExchangeReserved(ctx, q)
		}, func() { dc.Close() }
	case "pipeline-tcp", "pipeline-udp":
		t := transport.NewPipelineTransport(transport.PipelineOpts{DialContext: func(ctx context.Context) (transport.DnsConn, error) {
			return transport.NewDnsConn(transport.TraditionalDnsConnOpts{WithLengthHeader: kind == "pipeline-tcp", IdleTimeout: 10 * time.Second, MaxConcurrentQuery: 64}, dial()), nil
		}})
		return t.ExchangeContext, func() { t.Close() }
	default: // reuse
		t := transport.NewReuseConnTransport(transport.ReuseConnOpts{DialContext: func(ctx context.Context) (transport.NetConn, error) { return dial(), nil }})
		return t.ExchangeContext, func() { t.Close() }
	}
}

func runC02(r *Run) {
	kinds := []string{"tdc-udp", "tdc-tcp", "pipeline-tcp", "pipeline-udp", "reuse"}
	scens := []string{"during-send", "during-send+eof", "parked+eof", "parked", "burst-during-send", "parked-after-resend", "during-send+eof-same-read", "parked+eof-same-read"}
	reps := r.N(12, 150)
	connID := 0
	for _, kind := range kinds {
		stream := kind != "tdc-udp" && kind != "pipeline-udp"
		for _, sc := range scens {
			if sc == "burst-during-send" && kind == "reuse" {
				continue // one query per connection at a time
			}
			nrep := reps
			if (sc == "during-send+eof-same-read" || sc == "parked+eof-same-read") && !stream {
				continue // a datagram read returns one whole message or an error
			}
			if sc == "parked-after-resend" {
				if stream {
					continue // only datagram connections retransmit
				}
				nrep = r.N(1, 4) // each case takes 1.2 s of wall-clock time
			}
			for rep := 0; rep < nrep; rep++ {
				var mu sync.Mutex
				var conns []*fakeConn
				// "-same-read": the Read call that returns the last bytes of the reply also returns io.EOF (n > 0 and an
				// error in one call, which io.Reader allows and crypto/tls does when close_notify follows the data)
				sameRead := sc == "during-send+eof-same-read" || sc == "parked+eof-same-read"
				withEOF := sc == "during-send+eof" || sc == "parked+eof" || sameRead
				parked := sc == "parked+eof" || sc == "parked" || sc == "parked+eof-same-read"
				afterResend := sc == "parked-after-resend"
				var firstWrite sync.Once
				dial := func() *fakeConn {
					connID++
					c := newFakeConn(connID, stream)
					c.errWithData = sameRead
					c.onWrite = func(c *fakeConn, w []byte) error {
						q := c.payloadOf(w)
						if len(q) < 12 {
							return nil
						}
						reply := c.frame(mkReply(q, binary.BigEndian.Uint16(q)))
						if afterResend {
							// the reply comes only after the caller has retransmitted once (1 s ticker): the retransmission
							// must neither fail the exchange nor lose the reply
							firstWrite.Do(func() {
								go func() {
									time.Sleep(1150 * time.Millisecond)
									c.feed(reply)
								}()
							})
							return nil
						}
						if parked {
							go func() {
								time.Sleep(time.Duration(2+r.Rng.Intn(6)) * time.Millisecond) // the caller parks meanwhile
								c.mu.Lock()
								c.rq = append(c.rq, reply)
								if withEOF {
									c.rerr = io.EOF
								}
								c.cond.Broadcast()
								c.mu.Unlock()
							}()
							return nil
						}
						c.feed(reply)
						if withEOF {
							c.feedErr(io.EOF)
						}
						c.waitDrained(2 * time.Second) // Write returns only after the reader is done with it
						return nil
					}
					mu.Lock()
					conns = append(conns, c)
					mu.Unlock()
					return c
				}
				ex, closeT := mk02(kind, dial)
				ncall := 1
				if sc == "burst-during-send" {
					ncall = 2 + r.Rng.Intn(6)
				}
				type res struct {
					ok   bool
					err  error
					took time.Duration
					own  bool
				}
				results := make([]res, ncall)
				var wg sync.WaitGroup
				for i := 0; i < ncall; i++ {
					wg.Add(1)
					go func(i int) {
						defer wg.Done()
						id := uint16(r.Seed) + uint16(i*7919)
						q := mkQuery(id, 1000*rep+i)
						ctx, cancel := context.WithTimeout(context.Background(), 2500*time.Millisecond)
						t0 := time.Now()
						resp, err := ex(ctx, q)
						cancel()
						results[i] = res{ok: err == nil && resp != nil, err: err, took: time.Since(t0)}
						if results[i].ok {
							want := mkReply(q, id)
							results[i].own = bytes.Equal(*resp, want)
						}
					}(i)
				}
				wg.Wait()
				closeT()
				for i, rs := range results {
					desc := map[string]any{"transport": kind, "scenario": sc, "repetition": rep, "caller": i, "concurrent_callers": ncall, "took": rs.took.String(), "err": fmt.Sprint(rs.err)}
					out := "reply"
					switch {
					case !rs.ok:
						out = "error:" + fmt.Sprint(rs.err)
						r.Fail("the reply was received on the connection before the caller's deadline, but the exchange failed", desc)
					case !rs.own:
						out = "foreign-reply"
						r.Fail("the exchange returned something other than the reply to its own query", desc)
					case afterResend && (rs.took < 1100*time.Millisecond || rs.took > 1900*time.Millisecond):
						out = "late"
						r.Fail("the reply sent 1.15 s after the query (after one retransmission) was not returned when it arrived", desc)
					case !afterResend && rs.took > 700*time.Millisecond:
						out = "late"
						r.Fail("the exchange returned the reply only after a retransmission / long wait although it had arrived at once", desc)
					}
					labels := map[string]string{
						"during-send":               "readerDeliver,writeReturns,pickReply",
						"burst-during-send":         "readerDeliver,writeReturns,pickReply",
						"during-send+eof":           "readerDeliver,readerClose,writeReturns,pickClose",
						"parked":                    "writeReturns,readerDeliver,pickReply",
						"parked+eof":                "writeReturns,readerDeliver,readerClose,pickClose",
						"parked-after-resend":       "writeReturns,readerDeliver,pickReply",
						"during-send+eof-same-read": "readerDeliver,readerClose,writeReturns,pickClose",
						"parked+eof-same-read":      "writeReturns,readerDeliver,readerClose,pickClose",
					}[sc]
					r.Line("sched 1 1 "+labels, out)
					r.Eval(fmt.Sprintf("%s/%s/%d/%d", kind, sc, rep, i), true)
					r.Count(kind + ":" + sc)
					r.Trace()
				}
			}
		}
	}
	// ---- a slow (but in time) reply after the reader went round its loop for a reply nobody waits for: the reader's
	// SetReadDeadline call is held at its entry while a caller enqueues, writes and arms the waiting-for-reply
	// deadline (possible only if the reader decides under its lock but applies the deadline outside it); the reply
	// comes 0.7 s later, after the (short) idle timeout but far inside the 10 s reply timeout and the caller's deadline.
	for _, stream := range []bool{false, true} {
		for rep := 0; rep < r.N(1, 4); rep++ {
			connID++
			c := newFakeConn(connID, stream)
			dc := transport.NewDnsConn(transport.TraditionalDnsConnOpts{WithLengthHeader: stream, IdleTimeout: 300 * time.Millisecond, MaxConcurrentQuery: 64}, c)
			c.waitDrained(2 * time.Second)
			entered := c.armGate(100 * time.Millisecond)
			c.feed(c.frame(mkReply(mkQuery(0, 424242), 54321)))
			select {
			case <-entered:
			case <-time.After(2 * time.Second):
			}
			c.onWrite = func(c *fakeConn, w []byte) error {
				q := c.payloadOf(w)
				if len(q) < 12 {
					return nil
				}
				reply := c.frame(mkReply(q, binary.BigEndian.Uint16(q)))
				go func() {
					time.Sleep(700 * time.Millisecond)
					c.feed(reply)
				}()
				return nil
			}
			id := uint16(r.Seed) + uint16(rep*31)
			q := mkQuery(id, 77000+rep)
			ctx, cancel := context.WithTimeout(context.Background(), 2500*time.Millisecond)
			t0 := time.Now()
			var resp *[]byte
			var err error
			if rec, closed := dc.ReserveNewQuery(); rec == nil {
				err = fmt.Errorf("cannot reserve (closed=%v)", closed)
			} else {
				resp, err = rec.ExchangeReserved(ctx, q)
			}
			cancel()
			took := time.Since(t0)
			dc.Close()
			kind := map[bool]string{false: "tdc-udp", true: "tdc-tcp"}[stream]
			desc := map[string]any{"transport": kind, "scenario": "slow-reply-after-reader-loop (idle timeout 0.3 s, reply after 0.7 s, caller deadline 2.5 s)", "repetition": rep, "took": took.String(), "err": fmt.Sprint(err)}
			out := "reply"
			switch {
			case err != nil || resp == nil:
				out = "error:" + fmt.Sprint(err)
				r.Fail("the server answered an outstanding query well before the caller's deadline and the reply timeout, but the exchange failed (the connection was dropped under the idle timeout while a query was unanswered)", desc)
			case !bytes.Equal(*resp, mkReply(q, id)):
				out = "foreign-reply"
				r.Fail("the exchange returned something other than the reply to its own query", desc)
			}
			r.Line("sched 1 1 writeReturns,readerDeliver,pickReply", out)
			r.Eval(fmt.Sprintf("%s/slow-reply-after-reader-loop/%d", kind, rep), true)
			r.Count(kind + ":slow-reply-after-reader-loop")
			r.Trace()
		}
	}
	// ---- DoQ: one stream per query; the reply may be complete before (or although) the FIN could be sent
	doqScenarios(r, "C02", r.N(60, 600))
	// ---- queries queued on a connection that is still dialing; the reply comes later than one dial timeout (c02lazy.go)
	lazyScenarios02(r, r.N(10, 80), &connID)
	// ---- DoH: the reply is an HTTP body that arrives in pieces (c02doh.go)
	dohScenarios02(r)
	// ---- DoQ: the peer closes the connection (its context ends) right behind the reply (c02doqclose.go)
	doqCloseScenarios02(r, r.N(48, 800))
	// ---- pkg/upstream level: NewUpstream (tcp / tls, pipelined or not, with / without an EventObserver) against loopback
	// servers that answer and close in the same tcp write (c02up.go)
	upstreamScenarios02(r)
	// ---- connections with a history: more than 65536 queries over one connection; a slow in-time reply on a reused connection (c02long.go)
	longScenarios02(r, &connID)
	// ---- datagram connections that also carry datagrams which are no reply (runts, empty, unknown ids) in front of the reply (c02junk.go)
	junkScenarios02(r, &connID)
	r.Finish("transports {TraditionalDnsConn datagram / stream, PipelineTransport datagram / stream, ReuseConnTransport} x arrival {inside Write (Write returns after the reader consumed it), inside Write followed by EOF, after the caller parked, after parked followed at once by EOF, the same two with EOF returned by the very Read call that returns the last bytes of the reply (stream connections), 2..7 concurrent callers each inside Write, a reply 0.7 s after the query while the reader's deadline update was held back (idle timeout 0.3 s)} x repetitions; DoQ streams; {PipelineTransport, lazy connection over datagram / stream / DoQ} x 1..4 callers queued while the connection is dialing (+ one on the fast path), DialTimeout option 150..250 ms, reply later than dial time + DialTimeout and seconds before the caller's deadline; DoH upstream over a scripted body (one piece, single bytes, header | rest, all-but-last | last, random; with / without Content-Length; EOF with the last piece or alone; 29..65535 bytes) and over net/http against a loopback server (HTTP/1.1, h2) that flushes between pieces, 1..3 concurrent callers; DoQ with the connection's context ended by the peer {inside the Read call that hands out the last byte of the last outstanding reply, concurrently with the readers, up to 0.4 ms later, never} x {QuicDnsConn with 1..3 callers, PipelineTransport}; upstream.NewUpstream {tcp, tcp+pipeline, tls, tls+pipeline} x {TLS 1.2, 1.3} x {EventObserver set, not set} x server {reply and close / close_notify in one tcp write, reply then close, stays open} x {reply in one write, length | message}, 1..3 queries one after the other; long-lived connections {TraditionalDnsConn, PipelineTransport} x {datagram, stream}: 65536 + 8..31 (thorough: also 131072 + ..) queries one after the other over ONE connection, each answered from inside Write, the last 8..31 (around and past the turn of the 16-bit id counter) inside Write / inside Write with Write returning after the reader consumed it / 2 ms after Write: every one must return its own reply (replayed on the id-table model: op ids); {PipelineTransport datagram / stream, ReuseConnTransport} on a connection that already served 1..3 queries: reply after 55..70 % of the caller's deadline (1.5..1.8 s), checked when the reader took it off the connection at least 250 ms before the deadline: the exchange must return it, without waiting for a retransmission; datagram connections {TraditionalDnsConn, PipelineTransport} with 1..4 datagrams that are no reply {1..11 bytes, empty, first 1..11 bytes of the reply, header / message with an id nobody waits for} in front of the reply x {inside Write, between query and reply while the caller is parked, on the idle socket before the next query, 2..5 concurrent callers} (a Read cuts the datagram to the buffer it is given) and upstream.NewUpstream(udp://) against a loopback udp server sending the same in front of every reply: the reply must be returned (the reader's Reads replayed on the model: op udprd); every case is non-trivial; each is replayed on the model as the schedule it enforces (DoH: the pieces the Read calls returned)")
}
