//go:build pC07 || pall

package main

import (
	"context"
	"fmt"
	"sync"
	"time"

	"github.com/IrineSistiana/mosdns/v5/pkg/upstream/transport"
)

// C07, part 4c: a PipelineTransport whose dialing connections queue up more queries than the dialed connection
// admits (MaxConcurrentQueryWhileDialing > MaxConcurrentQuery; the documented "part of queued up queries will fail"
// case, the same shape as a DoQ peer offering fewer streams than the upstream queues). A burst of limit+2.. callers
// with unbounded contexts arrives while the dial is gated; the dial is released, the surplus callers are refused by the
// dialed connection and go wherever the transport sends them; the server is silent (or answers some queries) and the
// connections keep the real 10 s waiting-reply timeout and a 1000 s idle timeout, so only Close can end what is
// pending. Then Close: every call returns (those still pending with an error), a later call fails at once, every
// connection that was dialed is closed, no goroutine is left.

func junk07(r *Run) []byte {
	b := make([]byte, 1+r.Rng.Intn(11)) // 1..11 bytes: shorter than a DNS header
	for i := range b {
		b[i] = byte(r.Rng.Intn(256))
	}
	return b
}

func runC07QueueOverflowClose(r *Run) {
	base := goroutines07()
	rounds := r.N(6, 80)
	for rd := 0; rd < rounds; rd++ {
		stream := r.Rng.Intn(3) != 0
		limit := 1 + r.Rng.Intn(3)         // what one dialed connection admits
		queue := limit + 1 + r.Rng.Intn(3) // what may queue up on it while it is dialing
		callers := limit + 2 + r.Rng.Intn(3)
		answerEvery := 0 // 0: silent server; k: every k-th query is answered
		if r.Rng.Intn(3) == 0 {
			answerEvery = 2 + r.Rng.Intn(2)
		}
		var mu sync.Mutex
		var conns []*fakeConn
		nQueries, lastWrite := 0, time.Now()
		dialGate := make(chan struct{})
		onWrite := func(c *fakeConn, w []byte) error {
			q := c.payloadOf(w)
			if len(q) < 12 {
				return nil
			}
			mu.Lock()
			nQueries++
			k := nQueries
			lastWrite = time.Now()
			mu.Unlock()
			if answerEvery > 0 && k%answerEvery == 0 {
				c.feed(c.frame(mkReply(q, uint16(q[0])<<8|uint16(q[1]))))
			}
			return nil
		}
		t := transport.NewPipelineTransport(transport.PipelineOpts{MaxConcurrentQueryWhileDialing: queue, DialContext: func(ctx context.Context) (transport.DnsConn, error) {
			select {
			case <-dialGate:
			case <-ctx.Done():
				return nil, ctx.Err()
			}
			mu.Lock()
			c := newFakeConn(len(conns), stream)
			c.onWrite = onWrite
			conns = append(conns, c)
			mu.Unlock()
			return transport.NewDnsConn(transport.TraditionalDnsConnOpts{WithLengthHeader: stream, IdleTimeout: 1000 * time.Second, MaxConcurrentQuery: limit}, c), nil
		}})
		desc := map[string]any{"transport": map[bool]string{true: "pipeline-tcp", false: "pipeline-udp"}[stream], "scenario": "burst during a gated dial, queue limit while dialing > connection limit, then Close",
			"MaxConcurrentQuery": limit, "MaxConcurrentQueryWhileDialing": queue, "callers": callers, "server_answers_every": answerEvery}
		type res struct {
			err  error
			ok   bool
			done bool
			at   time.Time
		}
		results := make([]res, callers)
		var rmu sync.Mutex
		var wg sync.WaitGroup
		cancels := make([]context.CancelFunc, callers)
		for i := 0; i < callers; i++ {
			ctx, cancel := context.WithCancel(context.Background())
			cancels[i] = cancel
			wg.Add(1)
			go func(i int) {
				defer wg.Done()
				resp, err := t.ExchangeContext(ctx, mkQuery(uint16(i), 770000+rd*10+i))
				rmu.Lock()
				results[i] = res{err: err, ok: err == nil && resp != nil, done: true, at: time.Now()}
				rmu.Unlock()
			}(i)
			if r.Rng.Intn(2) == 0 {
				time.Sleep(time.Duration(r.Rng.Intn(300)) * time.Microsecond)
			}
		}
		time.Sleep(time.Duration(10+r.Rng.Intn(15)) * time.Millisecond) // the burst is queued on the dialing connection(s)
		close(dialGate)
		// settle: no new query on the wire for 30 ms (retries after the refusal dial at once: the gate is open)
		for i := 0; i < 500; i++ {
			mu.Lock()
			quiet := nQueries > 0 && time.Since(lastWrite) > 30*time.Millisecond
			mu.Unlock()
			if quiet {
				break
			}
			time.Sleep(2 * time.Millisecond)
		}
		rmu.Lock()
		pendingAtClose := 0
		for _, rs := range results {
			if !rs.done {
				pendingAtClose++
			}
		}
		rmu.Unlock()
		mu.Lock()
		desc["connections_dialed"] = len(conns)
		desc["queries_on_the_wire"] = nQueries
		mu.Unlock()
		desc["calls_pending_at_Close"] = pendingAtClose
		closedCh := make(chan struct{})
		go func() { t.Close(); close(closedCh) }()
		select {
		case <-closedCh:
		case <-time.After(2 * time.Second):
			r.Fail("Close did not return", desc)
			for _, c := range cancels {
				c()
			}
			base = goroutines07()
			continue
		}
		doneCh := make(chan struct{})
		go func() { wg.Wait(); close(doneCh) }()
		select {
		case <-doneCh:
		case <-time.After(2 * time.Second):
			rmu.Lock()
			still := 0
			for _, rs := range results {
				if !rs.done {
					still++
				}
			}
			rmu.Unlock()
			desc["calls_still_pending_2s_after_Close"] = still
			r.Fail("a call that was pending when the transport was closed did not return", desc)
			delete(desc, "calls_still_pending_2s_after_Close")
		}
		for _, c := range cancels {
			c()
		}
		<-doneCh
		if answerEvery == 0 {
			for i, rs := range results {
				if rs.ok {
					desc["caller"] = i
					r.Fail("an exchange succeeded although the server never answered", desc)
					delete(desc, "caller")
				}
			}
		}
		t2 := time.Now()
		ctx, cancel := context.WithTimeout(context.Background(), 2*time.Second)
		_, err := t.ExchangeContext(ctx, mkQuery(1, 779999))
		cancel()
		if err == nil || time.Since(t2) > 100*time.Millisecond {
			desc["took"] = time.Since(t2).String()
			r.Fail("a call on a closed transport did not fail immediately", desc)
			delete(desc, "took")
		}
		leaked := -1
		deadline := time.Now().Add(time.Second)
		for {
			leaked = -1
			mu.Lock()
			for _, c := range conns {
				if !c.isClosed() {
					leaked = c.id
				}
			}
			mu.Unlock()
			if leaked < 0 || time.Now().After(deadline) {
				break
			}
			time.Sleep(time.Millisecond)
		}
		if leaked >= 0 {
			desc["connection"] = leaked
			r.Fail("a connection the transport created was not closed by Close", desc)
			delete(desc, "connection")
			mu.Lock()
			for _, c := range conns {
				c.Close() // let its reader go, so that the next round starts clean
			}
			mu.Unlock()
		}
		g := goroutines07()
		for i := 0; i < 1000 && g > base; i++ {
			time.Sleep(time.Millisecond)
			g = goroutines07()
		}
		if g > base {
			desc["goroutines_in_transport_code"] = g - base
			if leaked < 0 {
				r.Fail("goroutines of the transport are still running after Close", desc)
			}
			base = g
		}
		r.Eval(fmt.Sprintf("queue-overflow-close/%d", rd), true)
		r.Count("queue-overflow-close")
		r.Trace()
	}
}
