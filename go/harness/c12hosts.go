//go:build pC12 || pall

package main

import (
	"fmt"
	"net/netip"
	"os"
	"path/filepath"
	"strconv"
	"strings"

	"github.com/IrineSistiana/mosdns/v5/pkg/matcher/domain"
	hostsplugin "github.com/IrineSistiana/mosdns/v5/plugin/executable/hosts"
	"github.com/miekg/dns"
)

// C12, rules that carry values: (1) tables of the real `hosts` plugin (entries and files, all four rule
// types, regular expressions written with upper-case syntax), (2) rule lists far larger than one read
// buffer of the text loader. The expected answer is the one of case12x: every rule applied as written to
// the normalised name (full/domain/keyword rules normalised too), precedence full > longest domain > a
// matching regexp > a matching keyword.

// regular expressions for hosts tables: lower-case-only syntax next to upper-case escapes / classes /
// literals / flags (all valid Go syntax, none contains a blank or '#'). A regular expression sees the
// normalised name and is used as written.
var hostsRegexps12 = []string{
	`^ad[0-9]*\.`, `\.example\.org$`, `^www\d?\.`, `^[[:alpha:]]+\.lan$`, `tracker`,
	`^\D+\.lan$`, `\S+\.printer\.home$`, `^[A-Z]+\.corp$`, `(?i)^ADS\.`, `^\W`, `\Aads\.`, `cdn\B`, `^(?P<Host>www|mail)\d*\.`,
	`\pL+\d\.net$`, `^\Qa.b\E\.`, `^Example\.`, `^[^A-Z0-9]+$`, `\D\.test$`, `(?i:MAIL)\d`, `^\w+\.\W`, `\.[A-Za-z]{2}$`,
}

var hostsNames12 = []string{"nas.lan", "123.lan", "7.lan", "hp.printer.home", "printer.home", "abc.corp", "ABC.corp", "ads.example.org", "Ads.Example.ORG.",
	"-x.lan", "x.-y", "cdnx.test", "cdn.test", "9.test", "www.example.org", "www2.example.org", "mail7.net", "ab1.net", "a.b.c", "axb.c", "example.org", "example.lan", "my-tracker.co.uk", "ad1.example.com"}

func val2addr12(v int) netip.Addr {
	return netip.AddrFrom4([4]byte{10, byte(v >> 16), byte(v >> 8), byte(v)})
}

func addr2val12(a netip.Addr) int {
	b := a.As4()
	return int(b[1])<<16 | int(b[2])<<8 | int(b[3])
}

// hostsLine12: `<rule> <ipv4> [<ipv6>]`, blanks of either kind between the fields. A rule without address
// is the rule alone, followed by blanks or (in a file, where the text loader removes comments) by its
// addresses commented out.
func (r *Run) hostsLine12(rl rule12, inFile bool) string {
	sep := []string{" ", "\t", "  "}[r.Rng.Intn(3)]
	if rl.noAddr {
		switch k := r.Rng.Intn(3); {
		case k == 0 && inFile:
			return rl.text() + sep + "# " + val2addr12(rl.val).String()
		case k == 1:
			return rl.text() + sep
		}
		return rl.text()
	}
	s := rl.text() + sep + val2addr12(rl.val).String()
	if r.Rng.Intn(4) == 0 {
		s += sep + "fd00::" + strconv.FormatInt(int64(rl.val), 16)
	}
	return s
}

// hostsMatch12 asks the plugin the way the sequence does (an A question) and maps the address back to the
// rule's value.
func hostsMatch12(h *hostsplugin.Hosts) func(string) (int, bool) {
	return func(name string) (int, bool) {
		q := new(dns.Msg)
		q.Id = 1
		q.Question = []dns.Question{{Name: name, Qtype: dns.TypeA, Qclass: dns.ClassINET}}
		resp := h.Response(q)
		if resp == nil {
			return 0, false
		}
		for _, rr := range resp.Answer {
			if a, ok := rr.(*dns.A); ok {
				if ad, ok := netip.AddrFromSlice(a.A.To4()); ok {
					return addr2val12(ad), true
				}
			}
		}
		return -1, true // a match without an address: no rule has such a value
	}
}

// loadHosts12: the first nEntries rules as `entries`, the others spread over files written to dir (with
// comments and blank lines), through the plugin's own constructor.
func (r *Run) loadHosts12(dir string, rules []rule12, nEntries, nFiles int) (func(string) (int, bool), func() int, error) {
	args := &hostsplugin.Args{}
	for _, rl := range rules[:nEntries] {
		args.Entries = append(args.Entries, r.hostsLine12(rl, false))
	}
	rest := rules[nEntries:]
	for f := 0; f < nFiles; f++ {
		part := rest[len(rest)*f/nFiles : len(rest)*(f+1)/nFiles]
		var sb strings.Builder
		sb.WriteString("# hosts table\n")
		for i, rl := range part {
			switch {
			case len(rules) > 60 || i%3 == 0:
				sb.WriteString(r.hostsLine12(rl, true) + "\n")
			case i%3 == 1:
				sb.WriteString("  " + r.hostsLine12(rl, true) + "  # comment\n\n")
			default:
				sb.WriteString(r.hostsLine12(rl, true) + "\r\n")
			}
		}
		p := filepath.Join(dir, fmt.Sprintf("hosts-%d.txt", f))
		if err := os.WriteFile(p, []byte(sb.String()), 0o644); err != nil {
			fatal(err)
		}
		args.Files = append(args.Files, p)
		r.Count(fmt.Sprintf("hosts file bytes>4096:%s", b01(sb.Len() > 4096)))
	}
	h, err := hostsplugin.NewHosts(args)
	if err != nil {
		return nil, nil, err
	}
	return hostsMatch12(h), nil, nil
}

// hostsRules12: a small table over all four types; patterns of full/domain/keyword rules in any spelling.
func (r *Run) hostsRules12() ([]rule12, []string) {
	nr := 2 + r.Rng.Intn(8)
	var rules []rule12
	var bases []string
	pool := []string{"lan", "printer.home", "example.org", "corp", "test", "net", "c"}
	for i := 0; i < nr; i++ {
		rl := rule12{val: 100 + i}
		rl.kind = []string{"full", "full", "domain", "domain", "keyword", "regexp", "regexp", "regexp"}[r.Rng.Intn(8)]
		switch rl.kind {
		case "regexp":
			rl.pattern = hostsRegexps12[r.Rng.Intn(len(hostsRegexps12))]
		case "keyword":
			kw := []string{"ad", "example", "cdn.", ".lan", "a.b", "tracker", "mail", "_", "-x", "print", "23"}
			if r.Rng.Intn(5) == 0 {
				kw = []string{r.label12()}
			}
			rl.pattern = r.spell12(kw[r.Rng.Intn(len(kw))])
		default:
			var base string
			switch r.Rng.Intn(5) {
			case 0:
				base = r.name12(1 + r.Rng.Intn(3))
			case 1:
				base = pool[r.Rng.Intn(len(pool))]
			case 2:
				base = r.label12() + "." + pool[r.Rng.Intn(len(pool))]
			case 3:
				if len(bases) > 0 {
					base = r.label12() + "." + bases[r.Rng.Intn(len(bases))]
				} else {
					base = hostsNames12[r.Rng.Intn(len(hostsNames12))]
				}
			default:
				base = hostsNames12[r.Rng.Intn(len(hostsNames12))]
			}
			base = strings.Trim(norm12(base), ".")
			for strings.Contains(base, "..") {
				base = strings.ReplaceAll(base, "..", ".")
			}
			if base == "" {
				base = "lan"
			}
			bases = append(bases, base)
			rl.pattern = r.spell12(base)
		}
		// the table's default type is full; a pattern holding ':' needs its prefix
		rl.prefix = rl.kind != "full" || r.Rng.Intn(2) == 0 || strings.Contains(rl.pattern, ":")
		rules = append(rules, rl)
	}
	// every other table holds rules without address (a name listed to keep it out of a broader rule, a line
	// whose addresses were commented out): some of the rules drawn above, and now and then a full / domain
	// rule written for a name that an earlier rule with addresses describes as well
	if r.Rng.Intn(2) == 0 {
		for i := range rules {
			if r.Rng.Intn(3) == 0 {
				rules[i].noAddr = true
			}
		}
		if len(bases) > 0 && r.Rng.Intn(2) == 0 {
			b := bases[r.Rng.Intn(len(bases))]
			if r.Rng.Intn(2) == 0 {
				b = r.label12() + "." + b
			}
			b = strings.Trim(norm12(b), ".")
			for strings.Contains(b, "..") {
				b = strings.ReplaceAll(b, "..", ".")
			}
			if b != "" {
				rl := rule12{val: 100 + len(rules), kind: []string{"full", "domain"}[r.Rng.Intn(2)], pattern: r.spell12(b), prefix: true, noAddr: true}
				bases = append(bases, b)
				rules = append(rules, rl)
				r.Rng.Shuffle(len(rules), func(i, j int) { rules[i], rules[j] = rules[j], rules[i] })
			}
		}
	}
	return rules, bases
}

// bigRules12: n rules, all written in lower case already, patterns distinct up to a few deliberate
// duplicates (the later value counts), domain rules nested below earlier ones, keywords that occur in the
// names asked. Returns the rules and for every rule the names it is asked with.
func (r *Run) bigRules12(n int, withRegexps bool) ([]rule12, []string) {
	var rules []rule12
	var names []string
	var doms []string
	tlds := []string{"test", "invalid", "example", "lan", "corp.test", "co.uk"}
	for i := 0; i < n; i++ {
		rl := rule12{val: i + 1, prefix: true}
		lbl := func() string {
			w := []string{"dept", "host", "srv", "www", "cdn", "mail", "img-", "x_", "n"}[r.Rng.Intn(9)]
			return w + strconv.Itoa(r.Rng.Intn(4*n+10))
		}
		switch k := r.Rng.Intn(20); {
		case k < 7:
			rl.kind = "full"
			rl.pattern = lbl() + "." + lbl() + "." + tlds[r.Rng.Intn(len(tlds))]
			names = append(names, rl.pattern, "sub."+rl.pattern)
		case k < 15:
			rl.kind = "domain"
			if len(doms) > 0 && r.Rng.Intn(3) == 0 {
				rl.pattern = lbl() + "." + doms[r.Rng.Intn(len(doms))] // below an earlier rule
			} else {
				rl.pattern = lbl() + "." + tlds[r.Rng.Intn(len(tlds))]
			}
			doms = append(doms, rl.pattern)
			names = append(names, rl.pattern, "a.b."+rl.pattern, "not"+rl.pattern)
		case k < 19 || !withRegexps:
			rl.kind = "keyword"
			rl.pattern = "kw" + strconv.Itoa(i) + "x"
			names = append(names, "www-"+rl.pattern+"-cdn.invalid", rl.pattern)
		default:
			rl.kind = "regexp"
			rl.pattern = `^re` + strconv.Itoa(i) + `\d*\.lan$`
			names = append(names, "re"+strconv.Itoa(i)+".lan", "re"+strconv.Itoa(i)+"7.lan", "xre"+strconv.Itoa(i)+".lan")
		}
		if len(rules) > 0 && r.Rng.Intn(40) == 0 { // the same rule again with another value
			o := rules[r.Rng.Intn(len(rules))]
			rl.kind, rl.pattern = o.kind, o.pattern
		}
		rl.prefix = rl.kind != "full" || r.Rng.Intn(2) == 0
		rules = append(rules, rl)
	}
	for i := 0; i < 10+n/20; i++ {
		names = append(names, r.name12(1+r.Rng.Intn(3)))
	}
	for i := range names { // names come in any spelling; the rules stay as written
		if r.Rng.Intn(4) == 0 {
			names[i] = r.spell12(names[i])
		}
	}
	return rules, names
}

func (r *Run) hosts12() {
	dir, err := os.MkdirTemp("", "verif-c12-hosts")
	if err != nil {
		fatal(err)
	}
	defer os.RemoveAll(dir)

	// ---- (1) hosts tables
	for it := 0; it < r.N(120, 4000); it++ {
		rules, bases := r.hostsRules12()
		var names []string
		for _, b := range bases {
			names = append(names, b, "x."+b, "not"+b)
			if i := strings.IndexByte(b, '.'); i >= 0 {
				names = append(names, b[i+1:])
			}
		}
		names = append(names, hostsNames12...)
		names = append(names, r.name12(1+r.Rng.Intn(3)), r.label12()+".lan", strconv.Itoa(r.Rng.Intn(1000))+".lan", r.label12()+".corp", r.label12()+strconv.Itoa(r.Rng.Intn(10))+".net")
		for i := range names {
			if r.Rng.Intn(3) == 0 {
				names[i] = r.spell12(strings.Trim(names[i], "."))
			}
		}
		if len(names) > 45 {
			r.Rng.Shuffle(len(names), func(i, j int) { names[i], names[j] = names[j], names[i] })
			names = names[:45]
		}
		nEntries := r.Rng.Intn(len(rules) + 1)
		nFiles := 0
		if nEntries < len(rules) {
			nFiles = 1 + r.Rng.Intn(2)
		}
		upper := false
		for _, rl := range rules {
			if rl.kind == "regexp" && rl.pattern != norm12(rl.pattern) {
				upper = true
			}
		}
		r.Count("hosts table with a regexp written with upper-case syntax:" + b01(upper))
		r.case12x("full", rules, names, nFiles > 0, fmt.Sprintf("hosts-plugin entries=%d files=%d", nEntries, nFiles), func() (func(string) (int, bool), func() int, error) {
			return r.loadHosts12(dir, rules, nEntries, nFiles)
		})
	}

	// ---- (2) lists larger than the text loader's read buffer (bufio.Scanner starts with 4096 bytes): every
	// rule is asked with its own names after the whole list was loaded
	type big struct {
		n   int
		how string
	}
	plan := []big{{150 + r.Rng.Intn(250), "text-loader"}, {150 + r.Rng.Intn(200), "hosts-file"}, {120 + r.Rng.Intn(120), []string{"add", "add-then-text-loader", "text-loader"}[r.Rng.Intn(3)]}}
	if r.Thorough() {
		for i := 0; i < 14; i++ {
			plan = append(plan, big{100 + r.Rng.Intn(1200), []string{"text-loader", "hosts-file", "add", "add-then-text-loader"}[r.Rng.Intn(4)]})
		}
		plan = append(plan, big{3000, "text-loader"})
	}
	for _, b := range plan {
		rules, names := r.bigRules12(b.n, b.how != "hosts-file" || r.Rng.Intn(2) == 0)
		dflt := "full"
		how := b.how
		r.case12x(dflt, rules, names, how != "add", fmt.Sprintf("large-list %s rules=%d", how, len(rules)), func() (func(string) (int, bool), func() int, error) {
			if how == "hosts-file" {
				return r.loadHosts12(dir, rules, 0, 1)
			}
			mm := domain.NewMixMatcher[int]()
			mm.SetDefaultMatcher(dflt)
			k := 0
			switch how {
			case "add":
				k = len(rules)
			case "add-then-text-loader":
				k = len(rules) / 4
			}
			for _, rl := range rules[:k] {
				if err := mm.Add(rl.text(), rl.val); err != nil {
					return nil, nil, err
				}
			}
			if k < len(rules) {
				var sb strings.Builder
				for _, rl := range rules[k:] {
					sb.WriteString(rl.text() + " " + strconv.Itoa(rl.val) + "\n")
				}
				r.Count(fmt.Sprintf("rule list bytes>4096:%s", b01(sb.Len() > 4096)))
				err := domain.LoadFromTextReader[int](mm, strings.NewReader(sb.String()), func(s string) (string, int, error) {
					f := strings.Fields(s)
					if len(f) != 2 {
						return "", 0, fmt.Errorf("bad line %q", s)
					}
					v, err := strconv.Atoi(f[1])
					return f[0], v, err
				})
				if err != nil {
					return nil, nil, err
				}
			}
			return mm.Match, mm.Len, nil
		})
	}
}
