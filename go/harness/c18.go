//go:build pC18 || pall

package main

import (
	"context"
	"crypto/tls"
	"encoding/binary"
	"errors"
	"fmt"
	"io"
	"net"
	"net/netip"
	"strconv"
	"strings"
	"sync"
	"sync/atomic"
	"time"

	"github.com/IrineSistiana/mosdns/v5/pkg/upstream"
	"github.com/miekg/dns"
)

// C18: upstreams connect to exactly the address the user configured.
//
// (1) the helper functions vs the model, through the verif shims, on the
//     address grammar and on garbage;
// (2) net.SplitHostPort / strconv.ParseUint vs the model's executable copies
//     and vs the SplitContract clauses the theorems assume;
// (3) black box: NewUpstream(addr, Opt{Socks5: harness}) - the SOCKS5 CONNECT
//     request shows the host and port really dialled, a TLS ClientHello shows
//     the server name; plain UDP goes to loopback listeners.
// (4) c18boot.go: several upstreams in one process on host names resolved
//     through Opt.Bootstrap, each must reach its own name's address and port.
// (5) c18doh.go: https / h3 against real DoH servers on loopback: server name,
//     request authority and dial target of the endpoint URL.
// (6) c18fwd.go: forward plugins built from configuration, several entries with
//     the same addr and different dial_addr; a query routed to one entry.

func init() { props["C18"] = runC18 }

type socks18 struct {
	l      net.Listener
	mu     sync.Mutex
	target []string // host|port of each CONNECT
	sni    []string
	// forward, when set (before the first connection), makes the observer splice every accepted CONNECT to this
	// address instead of playing the aborting TLS server itself (c18doh.go: a real DoH server behind the observer)
	forward string
	fwd     map[string]string // forward mode: local address of the spliced connection -> host|port of its CONNECT
}

func newSocks18() *socks18 {
	l, err := net.Listen("tcp", "127.0.0.1:0")
	if err != nil {
		fatal(err)
	}
	s := &socks18{l: l}
	go func() {
		for {
			c, err := l.Accept()
			if err != nil {
				return
			}
			go s.serve(c)
		}
	}()
	return s
}

// socks5Accept18 plays the server side of a no-auth SOCKS5 CONNECT up to (not including) the reply and returns the
// requested destination as host|port (host: canonical IP text, or "name:" + the domain name as sent).
func socks5Accept18(c net.Conn) (string, bool) {
	var h [2]byte
	if _, err := io.ReadFull(c, h[:]); err != nil || h[0] != 5 {
		return "", false
	}
	methods := make([]byte, h[1])
	if _, err := io.ReadFull(c, methods); err != nil {
		return "", false
	}
	c.Write([]byte{5, 0})
	var req [4]byte
	if _, err := io.ReadFull(c, req[:]); err != nil || req[1] != 1 {
		return "", false
	}
	var host string
	switch req[3] {
	case 1:
		var a [4]byte
		io.ReadFull(c, a[:])
		host = netip.AddrFrom4(a).String()
	case 4:
		var a [16]byte
		io.ReadFull(c, a[:])
		host = netip.AddrFrom16(a).String()
	case 3:
		var n [1]byte
		io.ReadFull(c, n[:])
		d := make([]byte, n[0])
		io.ReadFull(c, d)
		host = "name:" + string(d)
	default:
		return "", false
	}
	var p [2]byte
	if _, err := io.ReadFull(c, p[:]); err != nil {
		return "", false
	}
	return fmt.Sprintf("%s|%d", host, binary.BigEndian.Uint16(p[:])), true
}

func (s *socks18) serve(c net.Conn) {
	defer c.Close()
	c.SetDeadline(time.Now().Add(3 * time.Second))
	tgt, ok := socks5Accept18(c)
	if !ok {
		return
	}
	s.mu.Lock()
	s.target = append(s.target, tgt)
	s.mu.Unlock()
	c.Write([]byte{5, 0, 0, 1, 0, 0, 0, 0, 0, 0})
	if s.forward != "" {
		b, err := net.DialTimeout("tcp", s.forward, 3*time.Second)
		if err != nil {
			return
		}
		defer b.Close()
		s.mu.Lock()
		if s.fwd == nil {
			s.fwd = map[string]string{}
		}
		s.fwd[b.LocalAddr().String()] = tgt
		s.mu.Unlock()
		c.SetDeadline(time.Now().Add(20 * time.Second))
		b.SetDeadline(time.Now().Add(20 * time.Second))
		go func() { io.Copy(b, c); b.Close() }()
		io.Copy(c, b)
		return
	}
	// If a TLS ClientHello follows, record its server name and abort the handshake.
	ts := tls.Server(c, &tls.Config{GetConfigForClient: func(chi *tls.ClientHelloInfo) (*tls.Config, error) {
		s.mu.Lock()
		s.sni = append(s.sni, chi.ServerName)
		s.mu.Unlock()
		return nil, errors.New("harness: handshake not completed on purpose")
	}})
	ts.Handshake()
}

func (s *socks18) take() (targets, snis []string) {
	s.mu.Lock()
	defer s.mu.Unlock()
	targets, snis = s.target, s.sni
	s.target, s.sni = nil, nil
	return
}

type addr18 struct {
	scheme   string // "" = none
	host     string // as written (IPv6 bare or bracketed, IPv4, name)
	hostBare string // host without brackets
	isIP     bool
	port     int // -1 none
	dial     string
	dialHost string
	dialPort int // -1 none
	path     string
}

func (a addr18) url() string {
	s := ""
	if a.scheme != "" {
		s = a.scheme + "://"
	}
	s += a.host
	if a.port >= 0 {
		s += ":" + strconv.Itoa(a.port)
	}
	return s + a.path
}

func defaultPort18(scheme string) int {
	switch scheme {
	case "", "udp", "tcp", "tcp+pipeline":
		return 53
	case "tls", "tls+pipeline", "quic", "doq":
		return 853
	}
	return 443
}

// expected host and port per the property (dial_addr, when given, replaces host and port).
func (a addr18) expected() (string, int) {
	if a.dial != "" {
		p := a.dialPort
		if p < 0 {
			p = defaultPort18(a.scheme)
		}
		return a.dialHost, p
	}
	p := a.port
	if p < 0 {
		p = defaultPort18(a.scheme)
	}
	return a.hostBare, p
}

func (r *Run) v6() string {
	forms := []string{"2001:db8::1", "2001:db8::", "::1", "fe80::abcd", "2001:db8:0:0:0:0:0:53", "2001:0db8:85a3:0000:0000:8a2e:0370:7334", "::ffff:1.2.3.4", "2606:4700:4700::1111", "2001:db8::ff", "::"}
	if r.Rng.Intn(3) == 0 {
		return fmt.Sprintf("2001:db8:%x::%x", r.Rng.Intn(65536), r.Rng.Intn(65536))
	}
	return forms[r.Rng.Intn(len(forms))]
}

// name18: a lower-case host name of the grammar
func (r *Run) name18() string {
	h := strings.ToLower(strings.TrimSuffix(r.Name(), "."))
	if len(h) > 60 {
		h = h[:60]
	}
	h = strings.Trim(strings.ReplaceAll(h, "_", "x"), "-.")
	if h == "" {
		h = "dns.example"
	}
	return h
}

// bootAny18: a bootstrap server that answers every A question with 127.0.0.9 and every AAAA question with ::9.
type bootAny18 struct {
	srv  *dns.Server
	addr string
	hits atomic.Int64
}

func newBootAny18() *bootAny18 {
	pc, err := net.ListenPacket("udp", "127.0.0.1:0")
	if err != nil {
		return nil
	}
	b := &bootAny18{addr: pc.LocalAddr().String()}
	b.srv = &dns.Server{PacketConn: pc, Handler: dns.HandlerFunc(func(w dns.ResponseWriter, q *dns.Msg) {
		m := new(dns.Msg)
		m.SetReply(q)
		if len(q.Question) == 1 {
			b.hits.Add(1)
			hdr := dns.RR_Header{Name: q.Question[0].Name, Rrtype: q.Question[0].Qtype, Class: dns.ClassINET, Ttl: 600}
			switch q.Question[0].Qtype {
			case dns.TypeA:
				m.Answer = append(m.Answer, &dns.A{Hdr: hdr, A: net.IPv4(127, 0, 0, 9).To4()})
			case dns.TypeAAAA:
				m.Answer = append(m.Answer, &dns.AAAA{Hdr: hdr, AAAA: net.ParseIP("::9")})
			}
		}
		w.WriteMsg(m)
	})}
	go b.srv.ActivateAndServe()
	return b
}

func (r *Run) port18() int {
	switch r.Rng.Intn(8) {
	case 0:
		return []int{1, 53, 443, 853, 65535, 8053, 5353}[r.Rng.Intn(7)]
	case 1:
		return []int{65536, 65589, 70000, 99999, 131125}[r.Rng.Intn(5)] // must be rejected
	}
	return 1 + r.Rng.Intn(65535)
}

func (r *Run) genAddr18() addr18 {
	a := addr18{port: -1, dialPort: -1}
	a.scheme = []string{"", "udp", "tcp", "tcp", "tls", "tls", "https", "https", "tcp+pipeline", "tls+pipeline", "h3", "quic"}[r.Rng.Intn(12)]
	switch r.Rng.Intn(4) {
	case 0:
		a.hostBare = fmt.Sprintf("%d.%d.%d.%d", 1+r.Rng.Intn(223), r.Rng.Intn(256), r.Rng.Intn(256), 1+r.Rng.Intn(254))
		a.host, a.isIP = a.hostBare, true
	case 1:
		a.hostBare = r.v6()
		a.host, a.isIP = "["+a.hostBare+"]", true
	case 2:
		a.hostBare = r.v6()
		a.host, a.isIP = a.hostBare, true // bare IPv6: only meaningful without port
	default:
		a.hostBare = strings.ToLower(strings.TrimSuffix(r.Name(), "."))
		if len(a.hostBare) > 60 {
			a.hostBare = a.hostBare[:60]
		}
		a.hostBare = strings.Trim(strings.ReplaceAll(a.hostBare, "_", "x"), "-.")
		if a.hostBare == "" {
			a.hostBare = "dns.example"
		}
		a.host = a.hostBare
	}
	if r.Rng.Intn(2) == 0 && !(a.isIP && a.host == a.hostBare && strings.Contains(a.host, ":")) {
		a.port = r.port18()
	}
	switch r.Rng.Intn(8) {
	case 0:
		a.dialHost = fmt.Sprintf("%d.%d.%d.%d", 1+r.Rng.Intn(223), r.Rng.Intn(256), r.Rng.Intn(256), 1+r.Rng.Intn(254))
		a.dial = a.dialHost
	case 1:
		a.dialHost = fmt.Sprintf("%d.%d.%d.%d", 1+r.Rng.Intn(223), r.Rng.Intn(256), r.Rng.Intn(256), 1+r.Rng.Intn(254))
		a.dialPort = r.port18()
		a.dial = a.dialHost + ":" + strconv.Itoa(a.dialPort)
	case 2:
		a.dialHost = r.v6()
		a.dialPort = r.port18()
		a.dial = "[" + a.dialHost + "]:" + strconv.Itoa(a.dialPort)
	case 3:
		a.dialHost = r.v6()
		a.dial = a.dialHost
	}
	if a.scheme == "https" || a.scheme == "h3" {
		a.path = "/dns-query"
	}
	return a
}

func runC18(r *Run) {
	// ---------- (1)+(2) functions vs model
	var strs []string
	for i := r.N(400, 8000); i > 0; i-- {
		a := r.genAddr18()
		hp := a.host
		if a.port >= 0 {
			hp += ":" + strconv.Itoa(a.port)
		}
		strs = append(strs, hp, a.host, a.hostBare)
		if a.dial != "" {
			strs = append(strs, a.dial)
		}
	}
	strs = append(strs, "", "[", "]", "[]", "[]:", "[]:53", ":", ":53", "a:", "[a", "a]", "[[::1]]", "[::1]]", "[::1]:", "[::1]x:53", "[::1]:53:54", "a:b:c", "host:port", "host:053", "host:+53", "host:5_3", "host: 53", "host:65535", "host:65536", "host:0", "host:-1", "1.2.3.4:99999999999999999999", "[x", "x]", "[x]y", "a[b]:53", "a:[b]", "[a]:[b]", "[", "[:", "]:", "[]x")
	for i := r.N(200, 3000); i > 0; i-- { // garbage over a small alphabet
		const al = "[]:.a1%/ "
		n := r.Rng.Intn(12)
		b := make([]byte, n)
		for j := range b {
			b[j] = al[r.Rng.Intn(len(al))]
		}
		strs = append(strs, string(b))
	}
	colonCount := func(s string) int { return strings.Count(s, ":") }
	noBr := func(s string) bool { return !strings.ContainsAny(s, "[]") }
	noSp := func(s string) bool { return !strings.ContainsAny(s, "[]:") }
	for _, s := range strs {
		h := hx([]byte(s))
		// net.SplitHostPort vs model copy
		host, port, err := net.SplitHostPort(s)
		out := "none"
		if err == nil {
			out = hx([]byte(host)) + " " + hx([]byte(port))
		}
		r.Line("split "+h, out)
		// SplitContract clauses on the real library
		desc := map[string]any{"input": s, "host": host, "port": port, "err": fmt.Sprint(err)}
		if !strings.Contains(s, ":") && err == nil {
			r.Fail("contract noColon: net.SplitHostPort accepted a string without colon", desc)
		}
		if noBr(s) && colonCount(s) >= 2 && err == nil {
			r.Fail("contract bareV6: net.SplitHostPort accepted a bracket-less string with two colons", desc)
		}
		if i := strings.LastIndex(s, ":"); i >= 0 {
			if noSp(s[:i]) && noSp(s[i+1:]) && (err != nil || host != s[:i] || port != s[i+1:]) {
				r.Fail("contract plain: net.SplitHostPort(h:p) != (h,p)", desc)
			}
			if strings.HasPrefix(s, "[") && i >= 2 && s[i-1] == ']' && noBr(s[1:i-1]) && noSp(s[i+1:]) && (err != nil || host != s[1:i-1] || port != s[i+1:]) {
				r.Fail("contract bracketed: net.SplitHostPort([v]:p) != (v,p)", desc)
			}
		}
		if strings.HasPrefix(s, "[") && strings.HasSuffix(s, "]") && len(s) >= 2 && noBr(s[1:len(s)-1]) && err == nil {
			r.Fail("contract bracketNoPort: net.SplitHostPort([v]) succeeded", desc)
		}
		// V6Contract clauses on the real library: netip.ParseAddr succeeding with an IPv6 address
		if ad, perr := netip.ParseAddr(s); perr == nil && ad.Is6() {
			r.Count("fn-input:ipv6-literal")
			if colonCount(s) < 2 {
				r.Fail("contract twoColons: netip.ParseAddr took a string with fewer than two colons for IPv6", map[string]any{"input": s})
			}
			if strings.HasPrefix(s, "[") {
				r.Fail("contract startsBracket: netip.ParseAddr took a string that starts with a bracket for IPv6", map[string]any{"input": s})
			}
		}
		// ParseUint
		if err == nil {
			n, perr := strconv.ParseUint(port, 10, 16)
			o := "none"
			if perr == nil {
				o = strconv.Itoa(int(n))
			}
			r.Line("puint "+hx([]byte(port)), o)
		}
		// mosdns helpers through the shims
		r.Line("trim "+h, hx([]byte(upstream.VerifTryTrimIpv6Brackets(s))))
		r.Line("rmport "+h, hx([]byte(upstream.VerifTryRemovePort(s))))
		th, tp, terr := upstream.VerifTrySplitHostPort(s)
		o := "err"
		if terr == nil {
			o = fmt.Sprintf("%s %d", hx([]byte(th)), tp)
		}
		r.Line("tsplit "+h, o)
		dial := ""
		if r.Rng.Intn(3) == 0 {
			dial = strs[r.Rng.Intn(len(strs))]
		}
		dp := uint16([]int{53, 853, 443}[r.Rng.Intn(3)])
		ph, pp, perr := upstream.VerifParseDialAddr(s, dial, dp)
		o = "err"
		if perr == nil {
			o = fmt.Sprintf("%s %d", hx([]byte(ph)), pp)
		}
		r.Line(fmt.Sprintf("pda %s %s %d", h, hx([]byte(dial)), dp), o)
		r.Eval("fn:"+s+"|"+dial, strings.ContainsAny(s, "[]:"))
		r.Count("fn-input")
		// trim oracle (independent): [x] -> x, otherwise unchanged
		got := upstream.VerifTryTrimIpv6Brackets(s)
		want := s
		if len(s) >= 2 && s[0] == '[' && s[len(s)-1] == ']' {
			want = s[1 : len(s)-1]
		}
		if got != want {
			r.Fail("tryTrimIpv6Brackets altered the host", map[string]any{"input": s, "got": got, "want": want})
		}
	}

	// ---------- (3) black box through NewUpstream
	sk := newSocks18()
	defer sk.l.Close()
	socksAddr := sk.l.Addr().String()
	nbb := r.N(250, 4000)
	bs18 := newBootAny18()
	if bs18 == nil {
		r.Note("SOCKS5 + bootstrap cases skipped: no UDP listener for the fake bootstrap server")
	} else {
		defer func() {
			bs18.srv.Shutdown()
			r.Note(fmt.Sprintf("bootstrap server of the SOCKS5 matrix received %d questions", bs18.hits.Load()))
		}()
	}
	// one TLS configuration for all upstreams, as a caller with several upstreams may well do: what one upstream
	// derives from its own address (the default server name) must not reach another
	sharedTLS := &tls.Config{InsecureSkipVerify: true}
	for i := 0; i < nbb; i++ {
		a := r.genAddr18()
		if a.scheme == "" || a.scheme == "udp" || a.scheme == "quic" || a.scheme == "h3" {
			// no TCP dial to observe; covered by `target` lines below and by the UDP loopback cases
			a.scheme = []string{"tcp", "tls", "https", "tcp+pipeline", "tls+pipeline"}[r.Rng.Intn(5)]
			if a.scheme == "https" {
				a.path = "/dns-query"
			} else {
				a.path = ""
			}
		}
		// dial_addr as a host name (with or without port): through a proxy every stream scheme takes one
		if r.Rng.Intn(6) == 0 {
			a.dialHost, a.dialPort = r.name18(), -1
			a.dial = a.dialHost
			if r.Rng.Intn(2) == 0 {
				a.dialPort = 1 + r.Rng.Intn(65535)
				a.dial += ":" + strconv.Itoa(a.dialPort)
			}
		}
		// a bootstrap server is configured in about half of the cases (the forward plugin hands its plugin-wide one
		// to every upstream): what the proxy is asked for stays the host the user wrote
		bootstrap, bootVer := "", 0
		if bs18 != nil && r.Rng.Intn(2) == 0 {
			bootstrap, bootVer = bs18.addr, []int{0, 4, 6}[r.Rng.Intn(3)]
		}
		u, err := upstream.NewUpstream(a.url(), upstream.Opt{Socks5: socksAddr, DialAddr: a.dial, TLSConfig: sharedTLS, Bootstrap: bootstrap, BootstrapVer: bootVer})
		if sharedTLS.ServerName != "" {
			r.Fail("creating an upstream changed the TLS configuration the caller passed in (the next upstream built from it would use this one's server name)", map[string]any{"addr": a.url(), "dial_addr": a.dial, "server_name_written": sharedTLS.ServerName})
			sharedTLS = &tls.Config{InsecureSkipVerify: true}
		}
		wantHost, wantPort := a.expected()
		desc := map[string]any{"addr": a.url(), "dial_addr": a.dial, "want_host": wantHost, "want_port": wantPort}
		if bootstrap != "" {
			desc["socks5"], desc["bootstrap"], desc["bootstrap_version"] = socksAddr, bootstrap+" (answers every A / AAAA question with 127.0.0.9 / ::9)", bootVer
		}
		// model line: what does the model say NewUpstream dials for this URL host?
		rawHost := a.host
		if a.port >= 0 {
			rawHost += ":" + strconv.Itoa(a.port)
		}
		key := fmt.Sprintf("bb:%s|%s", a.url(), a.dial)
		if err != nil {
			// rejection at creation is always allowed by the property; no model line
			r.Eval(key, true)
			r.Count("bb:rejected:" + a.scheme)
			continue
		}
		q := make([]byte, 29)
		copy(q, []byte{0x12, 0x34, 1, 0, 0, 1, 0, 0, 0, 0, 0, 0, 7, 'e', 'x', 'a', 'm', 'p', 'l', 'e', 3, 'c', 'o', 'm', 0, 0, 1, 0, 1})
		ctx, cancel := context.WithTimeout(context.Background(), 1500*time.Millisecond)
		u.ExchangeContext(ctx, q)
		cancel()
		u.Close()
		targets, snis := sk.take()
		r.Eval(key, true)
		r.Count("bb:dialled:" + a.scheme)
		if bootstrap != "" {
			if _, perr := netip.ParseAddr(wantHost); perr != nil {
				r.Count("bb:socks5+bootstrap:host-name:" + a.scheme)
			} else {
				r.Count("bb:socks5+bootstrap:ip")
			}
		}
		if len(targets) == 0 {
			r.Count("bb:no-connect-observed")
			continue
		}
		// canonical observed target
		obs := targets[0]
		obsHost, obsPortS, _ := strings.Cut(obs, "|")
		obsPort, _ := strconv.Atoi(obsPortS)
		desc["dialled"] = obs
		hostOK := false
		if ip, err := netip.ParseAddr(wantHost); err == nil {
			if oip, err2 := netip.ParseAddr(obsHost); err2 == nil && oip.Unmap() == ip.Unmap() {
				hostOK = true
			}
		} else {
			hostOK = obsHost == "name:"+wantHost
		}
		if wantPort > 65535 {
			r.Fail("an address with a port above 65535 was accepted and silently altered", desc)
		} else if !hostOK || obsPort != wantPort {
			r.Fail("the upstream connected to a host/port other than the one the user configured", desc)
		}
		for _, t := range targets[1:] {
			if t != obs {
				r.Fail("the upstream dialled different targets for one address", desc)
			}
		}
		// model line
		mh := obsHost
		if strings.HasPrefix(mh, "name:") {
			mh = mh[5:]
		} else if ip, err := netip.ParseAddr(wantHost); err == nil {
			_ = ip
			mh = wantHost // compare textual form as written (the model keeps the user's text)
			if !hostOK {
				mh = obsHost
			}
		}
		op := "target"
		if bootstrap != "" {
			op = "s5target" // the model's CONNECT target (fact c18Socks5ConnectsToTarget)
		}
		r.Line(fmt.Sprintf("%s %s %s %d", op, hx([]byte(rawHost)), hx([]byte(a.dial)), defaultPort18(a.scheme)), fmt.Sprintf("%s %d", hx([]byte(mh)), obsPort))
		// SNI: Go does not send a server name for IP literals
		if (a.scheme == "tls" || a.scheme == "tls+pipeline" || a.scheme == "https") && len(snis) > 0 && !a.isIP {
			desc["sni"] = snis[0]
			if snis[0] != a.hostBare {
				r.Fail("the TLS server name is not the URL host", desc)
			}
			if a.scheme != "https" {
				r.Line("sni "+hx([]byte(rawHost)), hx([]byte(snis[0])))
			}
			r.Count("bb:sni-observed")
		}
	}

	// ---------- plain UDP to loopback listeners
	for _, lo := range []string{"127.0.0.1", "::1"} {
		pc, err := net.ListenPacket("udp", net.JoinHostPort(lo, "0"))
		if err != nil {
			r.Note("no UDP listener on " + lo + ": " + err.Error())
			continue
		}
		port := pc.LocalAddr().(*net.UDPAddr).Port
		got := make(chan struct{}, 64)
		go func() {
			buf := make([]byte, 1500)
			for {
				if _, _, err := pc.ReadFrom(buf); err != nil {
					return
				}
				got <- struct{}{}
			}
		}()
		host := lo
		if strings.Contains(lo, ":") {
			host = "[" + lo + "]"
		}
		forms := []struct{ addr, dial string }{
			{fmt.Sprintf("%s:%d", host, port), ""},
			{fmt.Sprintf("udp://%s:%d", host, port), ""},
			{"udp://9.9.9.9", fmt.Sprintf("%s:%d", host, port)},
			{"8.8.4.4:5353", fmt.Sprintf("%s:%d", host, port)},
		}
		for _, f := range forms {
			u, err := upstream.NewUpstream(f.addr, upstream.Opt{DialAddr: f.dial})
			r.Eval("udp:"+f.addr+"|"+f.dial, true)
			r.Count("bb:udp")
			if err != nil {
				r.Fail("a plain UDP address that can be honoured was rejected", map[string]any{"addr": f.addr, "dial_addr": f.dial, "err": err.Error()})
				continue
			}
			q := make([]byte, 29)
			copy(q, []byte{0x12, 0x34, 1, 0, 0, 1, 0, 0, 0, 0, 0, 0, 7, 'e', 'x', 'a', 'm', 'p', 'l', 'e', 3, 'c', 'o', 'm', 0, 0, 1, 0, 1})
			ctx, cancel := context.WithTimeout(context.Background(), 300*time.Millisecond)
			go u.ExchangeContext(ctx, q)
			select {
			case <-got:
			case <-time.After(2 * time.Second):
				r.Fail("no datagram arrived at the configured UDP address", map[string]any{"addr": f.addr, "dial_addr": f.dial})
			}
			cancel()
			u.Close()
		}
		pc.Close()
	}
	// ---------- (4) several upstreams in one process whose host name is resolved through a bootstrap server
	runC18Boot(r)
	// ---------- (5) the DoH path: https / h3 against real DoH servers on loopback
	runC18Doh(r)
	// ---------- (6) upstreams created from the forward plugin's configuration
	runC18Fwd(r)
	r.Finish("address grammar {scheme} x {IPv4, [IPv6], bare IPv6, hostname} x {no port, 1..65535, >65535} x {no dial_addr, IP, IP:port, [IPv6]:port, bare IPv6} x {path}; helper functions on every component string plus hand-picked malformed strings plus random strings over `[]:.a1%/ `; black box via a SOCKS5 observer (CONNECT target, TLS ClientHello SNI; dial_addr also as name / name:port; Opt.Bootstrap set to a server that answers every name in half of the cases - the CONNECT target stays the name written) and loopback UDP; forward plugins built from configuration (NewForward / Init) with 2..4 entries that share their addr and differ in dial_addr (all six forms), share both, or neither, stream entries through a plugin-wide or per-entry SOCKS5 observer with or without a plugin-wide bootstrap server, UDP entries to loopback listeners, one query routed to one entry by tag and attributed by its question name (plain TCP, UDP) or, for TLS, by the window of a call that ended by itself; groups of 2..4 upstreams created in one process on host names resolved through Opt.Bootstrap (fake bootstrap server, one loopback address per name, TCP and UDP listeners on a shared set of ports; same name with equal and different ports, tls / tls+pipeline / https / quic / h3, port in the URL or in dial_addr name:port, bootstrap version 0/4/6), each connection attributed by ALPN tag or UDP source port and required to reach its own upstream's name and port; the https / h3 matrix {IPv4, [IPv6], bare IPv6, host name} x {port, none} x {dial_addr 127.0.0.1:p / [::1]:p, none = SOCKS5 observer splicing to the server} x {path} against real DoH servers on loopback (HTTP/2 over TLS attributed by ALPN tag, one HTTP/3 server per case), per-case certificate valid for exactly the URL host, verified or unverified, a third of the cases with the port written out as the scheme default 443 / another scheme's default / a neighbour for every host form, half of the IPv6 hosts ending in a decimal group: server name (host-name mismatch error, SNI), Host / :authority, CONNECT target / dial_addr listener; non-trivial = input contains a bracket or colon / every black-box case")
}
