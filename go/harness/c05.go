//go:build pC05 || pall

package main

import (
	"context"
	"fmt"
	"net"
	"strings"
	"sync"
	"sync/atomic"
	"time"

	"github.com/IrineSistiana/mosdns/v5/pkg/query_context"
	"github.com/IrineSistiana/mosdns/v5/plugin/executable/cache"
	"github.com/IrineSistiana/mosdns/v5/plugin/executable/sequence"
	"github.com/miekg/dns"
)

// C05: cached answers age correctly and expire on time.

func init() { props["C05"] = runC05 }

type rr05 struct {
	sec   byte // a n e
	isOpt bool
	ttl   uint32
}

func (r *Run) ttl05() uint32 {
	switch r.Rng.Intn(5) {
	case 0:
		return []uint32{0, 1, 2, 4, 5, 6, 29, 30, 31, 59, 60, 299, 300, 301, 3600, 86400, 1<<31 - 1, 1 << 31, 1<<32 - 1}[r.Rng.Intn(19)]
	case 1:
		return uint32(r.Rng.Intn(10))
	}
	return uint32(r.Rng.Intn(4000))
}

func (r *Run) rrs05(allowEmptyAnswer bool) []rr05 {
	var out []rr05
	na := r.Rng.Intn(4)
	if !allowEmptyAnswer && na == 0 {
		na = 1
	}
	for i := 0; i < na; i++ {
		out = append(out, rr05{'a', false, r.ttl05()})
	}
	for i := r.Rng.Intn(3); i > 0; i-- {
		out = append(out, rr05{'n', false, r.ttl05()})
	}
	for i := r.Rng.Intn(3); i > 0; i-- {
		out = append(out, rr05{'e', false, r.ttl05()})
	}
	if r.Rng.Intn(2) == 0 {
		out = append(out, rr05{'e', true, []uint32{0, 0x8000, 0x01008000, 7}[r.Rng.Intn(4)]}) // OPT: its "ttl" is flags
	}
	return out
}

func rrsOp05(rrs []rr05) string {
	if len(rrs) == 0 {
		return "-"
	}
	var p []string
	for _, x := range rrs {
		p = append(p, fmt.Sprintf("%c:%s:%d", x.sec, b01(x.isOpt), x.ttl))
	}
	return strings.Join(p, ",")
}

func msg05(rcode int, tc bool, rrs []rr05) *dns.Msg {
	m := new(dns.Msg)
	m.SetQuestion("c05.example.", dns.TypeA)
	m.Response = true
	m.Rcode = rcode
	m.Truncated = tc
	for i, x := range rrs {
		var rr dns.RR
		switch {
		case x.isOpt:
			o := &dns.OPT{Hdr: dns.RR_Header{Name: ".", Rrtype: dns.TypeOPT, Class: 1232, Ttl: x.ttl}}
			rr = o
		case x.sec == 'n':
			rr = &dns.NS{Hdr: dns.RR_Header{Name: "example.", Rrtype: dns.TypeNS, Class: dns.ClassINET, Ttl: x.ttl}, Ns: fmt.Sprintf("ns%d.example.", i)}
		default:
			rr = &dns.A{Hdr: dns.RR_Header{Name: "c05.example.", Rrtype: dns.TypeA, Class: dns.ClassINET, Ttl: x.ttl}, A: net.IPv4(192, 0, 2, byte(i))}
		}
		switch x.sec {
		case 'a':
			m.Answer = append(m.Answer, rr)
		case 'n':
			m.Ns = append(m.Ns, rr)
		default:
			m.Extra = append(m.Extra, rr)
		}
	}
	return m
}

func ttlsOf05(m *dns.Msg) string {
	var p []string
	for _, sec := range [][]dns.RR{m.Answer, m.Ns, m.Extra} {
		for _, rr := range sec {
			p = append(p, fmt.Sprint(rr.Header().Ttl))
		}
	}
	if len(p) == 0 {
		return "-"
	}
	return strings.Join(p, ",")
}

func runC05(r *Run) {
	// ---------- a refresh that outlives the 5 s update timeout (an executable that does not watch its context) still
	// holds the question: runs in the background while the rest of the harness works, collected at the end
	type stuckRes struct {
		started, maxInflight int32
		answered             int
	}
	stuckCh := make(chan stuckRes, 1)
	go func() {
		c := cache.NewCache(&cache.Args{Size: 1024, LazyCacheTTL: 86400}, cache.Opts{})
		var inflight, maxInflight, started int32
		gate := make(chan struct{})
		node := &sequence.ChainNode{E: sequence.ExecutableFunc(func(ctx context.Context, qCtx *query_context.Context) error {
			if qCtx.R() != nil {
				return nil
			}
			n := atomic.AddInt32(&inflight, 1)
			atomic.AddInt32(&started, 1)
			for {
				mx := atomic.LoadInt32(&maxInflight)
				if n <= mx || atomic.CompareAndSwapInt32(&maxInflight, mx, n) {
					break
				}
			}
			<-gate // deliberately not watching ctx
			atomic.AddInt32(&inflight, -1)
			return nil
		})}
		next := sequence.NewChainWalker([]*sequence.ChainNode{node}, nil)
		q := new(dns.Msg)
		q.SetQuestion("stuck.example.", dns.TypeA)
		key := cache.VerifGetMsgKey(q)
		now := time.Now()
		c.VerifInject(key, msg05(0, false, []rr05{{'a', false, 60}}), now.Add(-100*time.Second), now.Add(-40*time.Second), now.Add(time.Hour))
		answered := 0
		ask := func(id uint16) {
			qq := q.Copy()
			qq.Id = id
			qCtx := query_context.NewContext(qq)
			if err := c.Exec(context.Background(), qCtx, next); err == nil && qCtx.R() != nil {
				answered++
			}
		}
		ask(1)
		for j := 0; j < 500 && atomic.LoadInt32(&started) == 0; j++ {
			time.Sleep(time.Millisecond)
		}
		time.Sleep(5300 * time.Millisecond) // the update timeout (5 s) has passed; the first refresh is still running
		ask(2)
		ask(3)
		time.Sleep(50 * time.Millisecond)
		res := stuckRes{atomic.LoadInt32(&started), atomic.LoadInt32(&maxInflight), answered}
		close(gate)
		time.Sleep(5 * time.Millisecond)
		c.Close()
		stuckCh <- res
	}()
	// ---------- admission and lifetimes
	nAdm := r.N(1500, 40000)
	for i := 0; i < nAdm; i++ {
		lazy := 0
		if r.Rng.Intn(2) == 0 {
			lazy = []int{1, 5, 3600, 86400}[r.Rng.Intn(4)]
		}
		c := cache.NewCache(&cache.Args{Size: 1024, LazyCacheTTL: lazy}, cache.Opts{})
		rcode := []int{0, 0, 0, 0, 2, 3, 3, 1, 4, 5, 9, 15}[r.Rng.Intn(12)]
		tc := r.Rng.Intn(12) == 0
		rrs := r.rrs05(true)
		m := msg05(rcode, tc, rrs)
		stored := c.VerifSave("k", m)
		out := "none"
		desc := map[string]any{"rcode": rcode, "tc": tc, "lazy_cache_ttl": lazy, "records(section:isOpt:ttl)": rrsOp05(rrs)}
		if stored {
			sm, st, me, ce, ok := c.VerifPeek("k")
			if !ok {
				// lifetime so short that it is already gone? lifetimes are >= 1 s
				r.Fail("saveRespToCache reported success but the entry is not in the store", desc)
			} else {
				out = fmt.Sprintf("%d %d", int64(me.Sub(st)/time.Second), int64(ce.Sub(st)/time.Second))
				if me.Sub(st)%time.Second != 0 || ce.Sub(st)%time.Second != 0 {
					r.Fail("lifetime is not a whole number of seconds", desc)
				}
				for _, rr := range sm.Extra {
					if rr.Header().Rrtype == dns.TypeOPT {
						r.Fail("the stored copy contains an OPT record", desc)
					}
				}
				// property's own bounds
				msgTtl := int64(me.Sub(st) / time.Second)
				cacheTtl := int64(ce.Sub(st) / time.Second)
				desc["msg_ttl"], desc["cache_ttl"] = msgTtl, cacheTtl
				minT := int64(-1)
				for _, x := range rrs {
					if !x.isOpt && (minT < 0 || int64(x.ttl) < minT) {
						minT = int64(x.ttl)
					}
				}
				nAns := 0
				for _, x := range rrs {
					if x.sec == 'a' {
						nAns++
					}
				}
				switch {
				case tc:
					r.Fail("a truncated reply was stored", desc)
				case rcode == 3 && (msgTtl > 30 || cacheTtl > 30):
					r.Fail("NXDOMAIN lives longer than 30 s", desc)
				case rcode == 2 && (msgTtl > 5 || cacheTtl > 5):
					r.Fail("SERVFAIL lives longer than 5 s", desc)
				case rcode == 0 && nAns == 0 && (msgTtl > 300 || msgTtl > minT || cacheTtl > msgTtl):
					r.Fail("empty NOERROR answer lives longer than min(300 s, smallest TTL)", desc)
				case rcode == 0 && nAns > 0 && msgTtl != minT:
					r.Fail("NOERROR answer's lifetime is not its smallest TTL", desc)
				case rcode == 0 && minT <= 0:
					r.Fail("a zero-TTL (or record-less) reply was stored", desc)
				case rcode != 0 && rcode != 2 && rcode != 3:
					r.Fail("a reply with an rcode other than NOERROR/NXDOMAIN/SERVFAIL was stored", desc)
				}
			}
		}
		c.Close()
		r.Line(fmt.Sprintf("adm %d %d %s %s", lazy, rcode, b01(tc), rrsOp05(rrs)), out)
		r.Eval(fmt.Sprintf("admit:%d:%d:%v:%s", lazy, rcode, tc, rrsOp05(rrs)), stored)
		r.Count(fmt.Sprintf("admit:rcode=%d,stored=%v", rcode, stored))
	}

	// ---------- serving: entries of a chosen age injected with explicit times
	nServe := r.N(1500, 40000)
	half := 500 * time.Millisecond
	for i := 0; i < nServe; i++ {
		lazyOn := r.Rng.Intn(2) == 0
		lazy := 0
		if lazyOn {
			lazy = 86400
		}
		c := cache.NewCache(&cache.Args{Size: 1024, LazyCacheTTL: lazy}, cache.Opts{})
		rrs := r.rrs05(true)
		if r.Rng.Intn(3) != 0 { // stored copies never contain OPT; keep some with OPT to exercise the helpers
			var f []rr05
			for _, x := range rrs {
				if !x.isOpt {
					f = append(f, x)
				}
			}
			rrs = f
		}
		m := msg05(0, false, rrs)
		// elapsed = k s + 0.5 s; expiries at +/- (j s + 0.5 s): every boundary is half a second away
		elapsed := time.Duration([]int{0, 1, 2, 4, 5, 6, 29, 30, 31, 59, 60, 61, 299, 300, 3599, 3600, 100000}[r.Rng.Intn(17)])*time.Second + half
		if r.Rng.Intn(3) == 0 {
			elapsed = time.Duration(r.Rng.Intn(5000))*time.Second + half
		}
		msgIn := time.Duration(r.Rng.Intn(100))*time.Second + half
		if r.Rng.Intn(2) == 0 {
			msgIn = -msgIn
		}
		cacheIn := msgIn + time.Duration(r.Rng.Intn(3))*time.Hour
		if r.Rng.Intn(6) == 0 {
			cacheIn = -(time.Duration(r.Rng.Intn(100))*time.Second + half) // already out of the store
		}
		now := time.Now()
		c.VerifInject("k", m, now.Add(-elapsed), now.Add(msgIn), now.Add(cacheIn))
		got, lazyHit := c.VerifGet("k")
		out := "miss"
		if got != nil {
			if lazyHit {
				out = "stale " + ttlsOf05(got)
			} else {
				out = "fresh " + ttlsOf05(got)
			}
		}
		c.Close()
		r.Line(fmt.Sprintf("serve %s 5 %d %d %d %s", b01(lazyOn), int64(elapsed), int64(msgIn), int64(cacheIn), rrsOp05(rrs)), out)
		r.Eval(fmt.Sprintf("serve:%v:%d:%d:%d:%s", lazyOn, elapsed, msgIn, cacheIn, rrsOp05(rrs)), got != nil)
		r.Count("serve:" + strings.Fields(out)[0])
		// ---- property's own predicate on the implementation's answer
		desc := map[string]any{"lazy": lazyOn, "stored_ago": elapsed.String(), "msg_expires_in": msgIn.String(), "cache_expires_in": cacheIn.String(), "records": rrsOp05(rrs), "served": out}
		inStore := cacheIn > 0
		switch {
		case !inStore && got != nil:
			r.Fail("an entry past its cache expiry was served", desc)
		case inStore && msgIn > 0:
			if got == nil || lazyHit {
				r.Fail("an unexpired entry was not served fresh", desc)
				break
			}
			delta := uint32(elapsed / time.Second)
			j := 0
			for _, sec := range [][]dns.RR{got.Answer, got.Ns, got.Extra} {
				for _, rr := range sec {
					x := rrs[j]
					j++
					want := x.ttl
					if !x.isOpt {
						if x.ttl > delta {
							want = x.ttl - delta
						} else {
							want = 1
						}
					}
					if rr.Header().Ttl != want {
						desc["record"], desc["want_ttl"], desc["got_ttl"] = j-1, want, rr.Header().Ttl
						r.Fail("a record of a fresh hit does not carry its TTL lowered by the whole seconds elapsed (floor 1; OPT untouched)", desc)
					}
				}
			}
		case inStore && msgIn < 0 && !lazyOn:
			if got != nil {
				r.Fail("an answer whose TTL has run out was served although lazy caching is off", desc)
			}
		case inStore && msgIn < 0 && lazyOn:
			if got == nil || !lazyHit {
				r.Fail("lazy caching is on but the stale entry was not served as a lazy hit", desc)
				break
			}
			j := 0
			for _, sec := range [][]dns.RR{got.Answer, got.Ns, got.Extra} {
				for _, rr := range sec {
					x := rrs[j]
					j++
					if (!x.isOpt && rr.Header().Ttl != 5) || (x.isOpt && rr.Header().Ttl != x.ttl) {
						r.Fail("a stale (lazy) hit must carry TTL 5 on every record (OPT untouched)", desc)
					}
				}
			}
		}
	}

	// ---------- bursts on a stale entry: at most one background refresh per question in flight
	bursts := r.N(8, 100)
	for b := 0; b < bursts; b++ {
		c := cache.NewCache(&cache.Args{Size: 1024, LazyCacheTTL: 86400}, cache.Opts{})
		var inflight, maxInflight, started int32
		gate := make(chan struct{})
		node := &sequence.ChainNode{E: sequence.ExecutableFunc(func(ctx context.Context, qCtx *query_context.Context) error {
			if qCtx.R() != nil { // foreground: already answered from cache
				return nil
			}
			n := atomic.AddInt32(&inflight, 1)
			atomic.AddInt32(&started, 1)
			for {
				mx := atomic.LoadInt32(&maxInflight)
				if n <= mx || atomic.CompareAndSwapInt32(&maxInflight, mx, n) {
					break
				}
			}
			<-gate
			atomic.AddInt32(&inflight, -1)
			resp := new(dns.Msg)
			resp.SetReply(qCtx.Q())
			resp.Answer = append(resp.Answer, &dns.A{Hdr: dns.RR_Header{Name: qCtx.Q().Question[0].Name, Rrtype: dns.TypeA, Class: dns.ClassINET, Ttl: 300}, A: net.IPv4(192, 0, 2, 9)})
			qCtx.SetResponse(resp)
			return nil
		})}
		next := sequence.NewChainWalker([]*sequence.ChainNode{node}, nil)
		q := new(dns.Msg)
		q.SetQuestion("burst.example.", dns.TypeA)
		key := cache.VerifGetMsgKey(q)
		now := time.Now()
		c.VerifInject(key, msg05(0, false, []rr05{{'a', false, 60}}), now.Add(-100*time.Second), now.Add(-40*time.Second), now.Add(time.Hour))
		nq := 4 + r.Rng.Intn(12)
		concurrent := r.Rng.Intn(2) == 0
		var wg sync.WaitGroup
		answered := int32(0)
		for i := 0; i < nq; i++ {
			ask := func() {
				qq := q.Copy()
				qq.Id = uint16(i + 1)
				qCtx := query_context.NewContext(qq)
				if err := c.Exec(context.Background(), qCtx, next); err == nil && qCtx.R() != nil {
					atomic.AddInt32(&answered, 1)
				}
			}
			if concurrent {
				wg.Add(1)
				go func() { defer wg.Done(); ask() }()
			} else {
				ask()
				if i == 0 { // make sure the first refresh is parked before the next query arrives
					for j := 0; j < 200 && atomic.LoadInt32(&started) == 0; j++ {
						time.Sleep(time.Millisecond)
					}
				}
			}
		}
		wg.Wait()
		time.Sleep(20 * time.Millisecond)
		mx, st := atomic.LoadInt32(&maxInflight), atomic.LoadInt32(&started)
		close(gate)
		time.Sleep(5 * time.Millisecond)
		c.Close()
		r.Eval(fmt.Sprintf("burst:%d:%v:%d", nq, concurrent, b), true)
		r.Count("burst")
		r.Trace()
		if mx > 1 || st > 1 {
			r.Fail("more than one background refresh for one question was in flight", map[string]any{"queries": nq, "concurrent": concurrent, "refreshes_started": st, "max_in_flight": mx})
		}
		if int(answered) != nq {
			r.Fail("a query hitting a stale entry was not answered from the cache", map[string]any{"queries": nq, "answered": answered})
		}
	}

	// ---------- real clock: one entry followed through its life (TTL 2 s)
	if true {
		c := cache.NewCache(&cache.Args{Size: 1024}, cache.Opts{})
		upstreamCalls := 0
		node := &sequence.ChainNode{E: sequence.ExecutableFunc(func(ctx context.Context, qCtx *query_context.Context) error {
			if qCtx.R() != nil {
				return nil
			}
			upstreamCalls++
			resp := new(dns.Msg)
			resp.SetReply(qCtx.Q())
			resp.Answer = append(resp.Answer, &dns.A{Hdr: dns.RR_Header{Name: qCtx.Q().Question[0].Name, Rrtype: dns.TypeA, Class: dns.ClassINET, Ttl: 2}, A: net.IPv4(192, 0, 2, 1)},
				&dns.A{Hdr: dns.RR_Header{Name: qCtx.Q().Question[0].Name, Rrtype: dns.TypeA, Class: dns.ClassINET, Ttl: 100}, A: net.IPv4(192, 0, 2, 2)})
			qCtx.SetResponse(resp)
			return nil
		})}
		next := sequence.NewChainWalker([]*sequence.ChainNode{node}, nil)
		ask := func() (string, int) {
			q := new(dns.Msg)
			q.SetQuestion("clock.example.", dns.TypeA)
			qCtx := query_context.NewContext(q)
			c.Exec(context.Background(), qCtx, next)
			return ttlsOf05(qCtx.R()), upstreamCalls
		}
		t0, _ := ask()
		t1, u1 := ask()
		time.Sleep(1200 * time.Millisecond)
		t2, u2 := ask()
		time.Sleep(1000 * time.Millisecond)
		t3, u3 := ask()
		c.Close()
		r.Eval("clock", true)
		r.Count("real-clock-life")
		got := fmt.Sprintf("%s/%s(%d)/%s(%d)/%s(%d)", t0, t1, u1, t2, u2, t3, u3)
		if got != "2,100/2,100(1)/1,99(1)/2,100(2)" {
			r.Fail("an entry with TTL 2 followed through real time was not served 2,100 at once, 1,99 after 1.2 s and refetched after 2.2 s", map[string]any{"observed ttls(upstream calls)": got})
		}
	}
	if sr := <-stuckCh; true {
		r.Eval("stuck-refresh", true)
		r.Count("burst:refresh-outlives-update-timeout")
		if sr.started > 1 || sr.maxInflight > 1 {
			r.Fail("more than one background refresh for one question was in flight", map[string]any{"scenario": "the first refresh does not return within the 5 s update timeout; two more stale hits arrive 5.3 s after it started", "refreshes_started": sr.started, "max_in_flight": sr.maxInflight})
		}
		if sr.answered != 3 {
			r.Fail("a query hitting a stale entry was not answered from the cache", map[string]any{"queries": 3, "answered": sr.answered, "scenario": "refresh outlives the update timeout"})
		}
	}
	r.Finish("admission: rcodes {0,2,3 and others}, TC, lazy on/off, 0..3 records per section with TTLs from {0,1,2,...,2^32-1} incl. an OPT pseudo-record; serving: entries injected with stored/expiry times placed half a second from every boundary (elapsed k+0.5 s, expiries +-(j+0.5 s), in or out of the store), lazy on/off; bursts of 4..15 sequential or concurrent queries on a stale entry with the refresh held; one refresh held beyond the 5 s update timeout with further stale hits after it; one entry followed through real time; non-trivial = stored / served")
}
