//go:build pC05 || pall

package main

import (
	"context"
	"errors"
	"fmt"
	"net"
	"strings"
	"sync"
	"sync/atomic"
	"time"

	"github.com/IrineSistiana/mosdns/v5/pkg/query_context"
	"github.com/IrineSistiana/mosdns/v5/plugin/executable/cache"
	"github.com/IrineSistiana/mosdns/v5/plugin/executable/sequence"
	"github.com/miekg/dns"
)

// C05: cached answers age correctly and expire on time.

func init() { props["C05"] = runC05 }

type rr05 struct {
	sec   byte // a n e
	isOpt bool
	ttl   uint32
}

func (r *Run) ttl05() uint32 {
	switch r.Rng.Intn(5) {
	case 0:
		return []uint32{0, 1, 2, 4, 5, 6, 29, 30, 31, 59, 60, 299, 300, 301, 3600, 86400, 1<<31 - 1, 1 << 31, 1<<32 - 1}[r.Rng.Intn(19)]
	case 1:
		return uint32(r.Rng.Intn(10))
	}
	return uint32(r.Rng.Intn(4000))
}

func (r *Run) rrs05(allowEmptyAnswer bool) []rr05 {
	var out []rr05
	na := r.Rng.Intn(4)
	if !allowEmptyAnswer && na == 0 {
		na = 1
	}
	for i := 0; i < na; i++ {
		out = append(out, rr05{'a', false, r.ttl05()})
	}
	for i := r.Rng.Intn(3); i > 0; i-- {
		out = append(out, rr05{'n', false, r.ttl05()})
	}
	for i := r.Rng.Intn(3); i > 0; i-- {
		out = append(out, rr05{'e', false, r.ttl05()})
	}
	if r.Rng.Intn(2) == 0 {
		out = append(out, rr05{'e', true, []uint32{0, 0x8000, 0x01008000, 7}[r.Rng.Intn(4)]}) // OPT: its "ttl" is flags
	}
	return out
}

func rrsOp05(rrs []rr05) string {
	if len(rrs) == 0 {
		return "-"
	}
	var p []string
	for _, x := range rrs {
		p = append(p, fmt.Sprintf("%c:%s:%d", x.sec, b01(x.isOpt), x.ttl))
	}
	return strings.Join(p, ",")
}

func msg05(rcode int, tc bool, rrs []rr05) *dns.Msg {
	m := new(dns.Msg)
	m.SetQuestion("c05.example.", dns.TypeA)
	m.Response = true
	m.Rcode = rcode
	m.Truncated = tc
	for i, x := range rrs {
		var rr dns.RR
		switch {
		case x.isOpt:
			o := &dns.OPT{Hdr: dns.RR_Header{Name: ".", Rrtype: dns.TypeOPT, Class: 1232, Ttl: x.ttl}}
			rr = o
		case x.sec == 'n':
			rr = &dns.NS{Hdr: dns.RR_Header{Name: "example.", Rrtype: dns.TypeNS, Class: dns.ClassINET, Ttl: x.ttl}, Ns: fmt.Sprintf("ns%d.example.", i)}
		default:
			rr = &dns.A{Hdr: dns.RR_Header{Name: "c05.example.", Rrtype: dns.TypeA, Class: dns.ClassINET, Ttl: x.ttl}, A: net.IPv4(192, 0, 2, byte(i))}
		}
		switch x.sec {
		case 'a':
			m.Answer = append(m.Answer, rr)
		case 'n':
			m.Ns = append(m.Ns, rr)
		default:
			m.Extra = append(m.Extra, rr)
		}
	}
	return m
}

func ttlsOf05(m *dns.Msg) string {
	var p []string
	for _, sec := range [][]dns.RR{m.Answer, m.Ns, m.Extra} {
		for _, rr := range sec {
			p = append(p, fmt.Sprint(rr.Header().Ttl))
		}
	}
	if len(p) == 0 {
		return "-"
	}
	return strings.Join(p, ",")
}

// ---------- lazy refresh outcomes: a stale entry stays stale until a refresh brings a new answer

// lazy05 is one scenario; every random choice is made up front (r.Rng is not shared with the goroutines).
type lazy05 struct {
	kind       string // what the chain behind the cache does with the refresh query: err | none | guard-matcher | guard-exec | answer
	lazyTtl    int
	rrs        []rr05 // the stale answer (no OPT), stored storedAgo before T, its TTL ran out expiredAgo before T
	storedAgo  time.Duration
	expiredAgo time.Duration
	cacheIn    time.Duration // the entry leaves the store at T + cacheIn
	newRcode   int
	newTc      bool
	newRrs     []rr05
	held       bool // the first refresh is held for 150 ms while `extra` more queries arrive
	extra      int
}

type hit05 struct {
	off         time.Duration // nominal offset from T
	s, e        time.Duration // measured bracket of the Exec call, from T
	miss        bool          // not answered from the cache (the client's own query went to the upstream, or no answer)
	isNew       bool
	ttls        string
	all5        bool
	bgStarted   int // background runs of the chain that started between this hit and the next
	storedAtOff time.Duration
	peekOk      bool
}

type lazyRes05 struct {
	idx              int
	p                lazy05
	hits             []hit05
	extraBad         string
	bgUpstream       int32
	bgMaxInflight    int32
	bgSawResp        int32
	firstBgUpstream  time.Duration // from T; -1 = never
	stall            time.Duration
	restamped        string
	newServedTtlsBad string
}

var lazyOffsets05 = []time.Duration{0, 500 * time.Millisecond, 1500 * time.Millisecond, 2500 * time.Millisecond}

func (p lazy05) chainKind() string {
	switch p.kind {
	case "err", "none":
		return "keep"
	case "answer":
		return "answer"
	}
	return "guard"
}

func (p lazy05) desc() map[string]any {
	return map[string]any{"lazy_cache_ttl": p.lazyTtl, "stale_answer(section:isOpt:ttl)": rrsOp05(p.rrs), "stored_ago": p.storedAgo.String(), "ttl_ran_out_ago": p.expiredAgo.String(),
		"leaves_store_in": p.cacheIn.String(), "rest_of_chain_on_refresh": p.kind, "upstream_answer": fmt.Sprintf("rcode=%d tc=%v %s", p.newRcode, p.newTc, rrsOp05(p.newRrs)),
		"first_refresh_held": p.held, "queries_at": "T, T+0.5s, T+1.5s, T+2.5s"}
}

func (r *Run) genLazy05(i int) lazy05 {
	kinds := []string{"err", "none", "guard-matcher", "guard-exec", "answer"}
	p := lazy05{kind: kinds[i%len(kinds)]}
	if i >= len(kinds) {
		p.kind = kinds[r.Rng.Intn(len(kinds))]
	}
	p.lazyTtl = []int{2, 30, 3600, 86400}[r.Rng.Intn(4)]
	for _, x := range r.rrs05(false) {
		if !x.isOpt {
			p.rrs = append(p.rrs, x)
		}
	}
	p.expiredAgo = time.Duration(1+r.Rng.Intn(100))*time.Second + 500*time.Millisecond
	p.storedAgo = p.expiredAgo + time.Duration(1+r.Rng.Intn(4000))*time.Second
	p.cacheIn = []time.Duration{2 * time.Second, time.Hour}[r.Rng.Intn(2)]
	nOld := 0
	for _, x := range p.rrs {
		if x.sec == 'a' {
			nOld++
		}
	}
	// the upstream's new answer: a different number of answer records than the stale one (that is how old and new
	// data are told apart), TTLs 30.. so that none of its own boundaries falls into the 3 s of the scenario, or 0
	p.newRcode = []int{0, 0, 0, 0, 3, 2, 5}[r.Rng.Intn(7)]
	p.newTc = r.Rng.Intn(8) == 0
	na := r.Rng.Intn(4)
	for na == nOld {
		na = r.Rng.Intn(4)
	}
	ttl := func() uint32 {
		if r.Rng.Intn(10) == 0 {
			return 0
		}
		return uint32(30 + r.Rng.Intn(4000))
	}
	for j := 0; j < na; j++ {
		p.newRrs = append(p.newRrs, rr05{'a', false, ttl()})
	}
	for j := r.Rng.Intn(3); j > 0; j-- {
		p.newRrs = append(p.newRrs, rr05{'n', false, ttl()})
	}
	if r.Rng.Intn(2) == 0 {
		p.newRrs = append(p.newRrs, rr05{'e', true, 0x8000})
	}
	p.held = r.Rng.Intn(2) == 0
	p.extra = 1 + r.Rng.Intn(3)
	return p
}

func runLazy05(p lazy05) lazyRes05 {
	res := lazyRes05{p: p, firstBgUpstream: -1}
	meter := startStallMeter()
	c := cache.NewCache(&cache.Args{Size: 1024, LazyCacheTTL: p.lazyTtl}, cache.Opts{})
	defer c.Close()
	var fg sync.Map // client contexts -> *bool (went to the upstream without a response)
	var bgStarted, inflight int32
	var firstBg int64 = -1
	var T time.Time
	gate := make(chan struct{})
	if !p.held {
		close(gate)
	}
	newMsg := func(q *dns.Msg) *dns.Msg {
		m := msg05(p.newRcode, p.newTc, p.newRrs)
		m.Id = q.Id
		return m
	}
	probe := &sequence.ChainNode{E: sequence.ExecutableFunc(func(ctx context.Context, qCtx *query_context.Context) error {
		if _, isFg := fg.Load(qCtx); !isFg {
			atomic.AddInt32(&bgStarted, 1)
			if qCtx.R() != nil {
				atomic.AddInt32(&res.bgSawResp, 1)
			}
		}
		return nil
	})}
	upstream := &sequence.ChainNode{E: sequence.ExecutableFunc(func(ctx context.Context, qCtx *query_context.Context) error {
		if v, isFg := fg.Load(qCtx); isFg {
			if qCtx.R() != nil { // answered from the cache
				return nil
			}
			*(v.(*bool)) = true
		} else {
			atomic.AddInt32(&res.bgUpstream, 1)
			atomic.CompareAndSwapInt64(&firstBg, -1, int64(time.Since(T)))
			n := atomic.AddInt32(&inflight, 1)
			for {
				mx := atomic.LoadInt32(&res.bgMaxInflight)
				if n <= mx || atomic.CompareAndSwapInt32(&res.bgMaxInflight, mx, n) {
					break
				}
			}
			<-gate
			atomic.AddInt32(&inflight, -1)
		}
		switch p.kind {
		case "err":
			return errors.New("upstream is down") // leaves the context as it is
		case "none":
			return nil
		case "guard-exec":
			if qCtx.R() != nil {
				return nil
			}
		}
		qCtx.SetResponse(newMsg(qCtx.Q()))
		return nil
	})}
	if p.kind == "guard-matcher" {
		upstream.Matches = []sequence.Matcher{sequence.MatchFunc(func(ctx context.Context, qCtx *query_context.Context) (bool, error) {
			return qCtx.R() == nil, nil
		})}
	}
	next := sequence.NewChainWalker([]*sequence.ChainNode{probe, upstream}, nil)
	q := new(dns.Msg)
	q.SetQuestion("c05.example.", dns.TypeA)
	key := cache.VerifGetMsgKey(q)
	nOld := len(msg05(0, false, p.rrs).Answer)
	ask := func(id uint16) (h hit05) {
		qq := q.Copy()
		qq.Id = id
		qCtx := query_context.NewContext(qq)
		went := new(bool)
		fg.Store(qCtx, went)
		h.s = time.Since(T)
		err := c.Exec(context.Background(), qCtx, next)
		h.e = time.Since(T)
		resp := qCtx.R()
		if err != nil || resp == nil || *went {
			h.miss = true
			return
		}
		h.isNew = len(resp.Answer) != nOld
		h.ttls = ttlsOf05(resp)
		h.all5 = true
		for _, sec := range [][]dns.RR{resp.Answer, resp.Ns, resp.Extra} {
			for _, rr := range sec {
				if rr.Header().Rrtype != dns.TypeOPT && rr.Header().Ttl != 5 {
					h.all5 = false
				}
			}
		}
		return
	}
	T = time.Now()
	st0, me0, ce0 := T.Add(-p.storedAgo), T.Add(-p.expiredAgo), T.Add(p.cacheIn)
	c.VerifInject(key, msg05(0, false, p.rrs), st0, me0, ce0)
	for i, off := range lazyOffsets05 {
		if d := off - time.Since(T); d > 0 {
			time.Sleep(d)
		}
		before := atomic.LoadInt32(&bgStarted)
		// what the store holds right before the query
		sm, st, me, ce, ok := c.VerifPeek(key)
		h := ask(uint16(i + 1))
		h.off = off
		h.peekOk = ok
		if ok {
			h.storedAtOff = st.Sub(T)
			if res.restamped == "" && !st.Equal(st0) && len(sm.Answer) == nOld {
				res.restamped = fmt.Sprintf("before the query at T+%v the store holds an entry stored at T+%v, message expiry T+%v, cache expiry T+%v", off, st.Sub(T).Round(time.Millisecond), me.Sub(T).Round(time.Millisecond), ce.Sub(T).Round(time.Millisecond))
			}
		}
		if i == 0 && p.held && !h.miss {
			for j := 0; j < 500 && atomic.LoadInt32(&bgStarted) == 0; j++ {
				time.Sleep(time.Millisecond)
			}
			for j := 0; j < p.extra; j++ {
				x := ask(uint16(100 + j))
				if x.miss || x.isNew || !x.all5 {
					res.extraBad = fmt.Sprintf("query %d while the first refresh was held: miss=%v new=%v ttls=%s", j+1, x.miss, x.isNew, x.ttls)
				}
			}
			time.Sleep(150*time.Millisecond - (time.Since(T) - off))
			close(gate)
		}
		res.hits = append(res.hits, h)
		// background runs started by this query: counted up to just before the next one
		wait := 300 * time.Millisecond
		if i+1 < len(lazyOffsets05) {
			wait = lazyOffsets05[i+1] - time.Since(T) - 20*time.Millisecond
		}
		if h.miss {
			wait = 50 * time.Millisecond
		}
		if wait > 0 {
			time.Sleep(wait)
		}
		res.hits[i].bgStarted = int(atomic.LoadInt32(&bgStarted) - before)
		if h.miss {
			break
		}
	}
	res.firstBgUpstream = time.Duration(atomic.LoadInt64(&firstBg))
	res.stall = meter.Stop()
	return res
}

func admissible05(rcode int, tc bool, rrs []rr05) bool {
	if tc {
		return false
	}
	switch rcode {
	case 2, 3:
		return true
	case 0:
		n := 0
		for _, x := range rrs {
			if !x.isOpt {
				n++
				if x.ttl == 0 {
					return false
				}
			}
		}
		return n > 0
	}
	return false
}

// evalLazy05 applies the property's own predicate to what the queries got, and (when the measured times leave no
// doubt about whole seconds and boundaries) hands the scenario to the model.
func (r *Run) evalLazy05(res lazyRes05) {
	p := res.p
	desc := func(extra map[string]any) map[string]any {
		d := p.desc()
		var obs []string
		for _, h := range res.hits {
			switch {
			case h.miss:
				obs = append(obs, fmt.Sprintf("T+%v: not from cache", h.off))
			default:
				w := "stale data"
				if h.isNew {
					w = "upstream's new answer"
				}
				obs = append(obs, fmt.Sprintf("T+%v: %s ttls=%s, background runs started=%d", h.off, w, h.ttls, h.bgStarted))
			}
		}
		d["observed"] = strings.Join(obs, "; ")
		if res.restamped != "" {
			d["store"] = res.restamped
		}
		for k, v := range extra {
			d[k] = v
		}
		return d
	}
	r.Eval(fmt.Sprintf("lazyseq:%s:%d:%s:%v:%s", p.kind, p.lazyTtl, rrsOp05(p.rrs), p.cacheIn, rrsOp05(p.newRrs)), true)
	r.Count("lazy-refresh:" + p.kind)
	r.Trace()
	quiet := res.stall < 100*time.Millisecond
	if !quiet {
		r.Count("lazy-refresh:timing-dependent checks skipped (process stalled)")
	}
	newOk := p.chainKind() != "keep" && admissible05(p.newRcode, p.newTc, p.newRrs)
	if res.extraBad != "" {
		r.Fail("a query hitting a stale entry while its refresh is in flight was not answered with the stale answer and TTL 5", desc(map[string]any{"detail": res.extraBad}))
	}
	if res.bgMaxInflight > 1 {
		r.Fail("more than one background refresh for one question was in flight", desc(map[string]any{"max_in_flight": res.bgMaxInflight}))
	}
	// first what holds whatever the timing: the stale data was stored long before T and its smallest TTL ran out before T
	for _, h := range res.hits {
		if h.miss || h.isNew {
			continue
		}
		if !h.all5 {
			r.Fail("an answer whose smallest TTL ran out long ago was served with a TTL other than the stale TTL 5 (a refresh that brought no new answer must not make it fresh)", desc(map[string]any{"query_at": "T+" + h.off.String()}))
		}
		if h.s > p.cacheIn {
			r.Fail("a stale entry was served past its cache lifetime", desc(map[string]any{"query_at": "T+" + h.off.String()}))
		}
	}
	var impl []string
	lineOk := quiet
	for i, h := range res.hits {
		if h.s < h.off || h.e >= h.off+400*time.Millisecond {
			lineOk = false
		}
		if h.miss {
			impl = append(impl, "miss")
			// the stale entry is certainly still in the store and nothing replaced it
			if h.e < p.cacheIn && !newOk {
				r.Fail("lazy caching is on but the stale entry (still within its cache lifetime) was not served", desc(nil))
			}
			continue
		}
		kind := "fresh"
		if h.bgStarted > 0 {
			kind = "stale"
		}
		if h.isNew {
			impl = append(impl, "new "+kind+" "+h.ttls)
			if !newOk {
				r.Fail("an answer that must never be stored (or that no upstream ever gave for the refresh) was served from the cache", desc(nil))
			}
			continue
		}
		impl = append(impl, "old "+kind+" "+h.ttls)
		if quiet && h.bgStarted == 0 {
			r.Fail("a stale answer was served but no background refresh was started for it (the previous refresh had returned long before)", desc(map[string]any{"query_at": "T+" + h.off.String()}))
		}
		if quiet && i > 0 && newOk {
			switch {
			case res.firstBgUpstream < 0:
				r.Fail("no background refresh ever reached the upstream (behind a skip-when-answered guard) although stale answers were served: the entry cannot be updated", desc(map[string]any{"query_at": "T+" + h.off.String()}))
			case res.firstBgUpstream < 250*time.Millisecond:
				r.Fail("the background refresh had long finished with a healthy upstream, yet the entry was not updated: the stale answer is still served", desc(map[string]any{"query_at": "T+" + h.off.String()}))
			}
		}
	}
	// store time of whatever was stored by the first refresh: within 0.4 s of T
	for _, h := range res.hits {
		if h.peekOk && h.storedAtOff >= 400*time.Millisecond {
			lineOk = false
		}
	}
	if !lineOk {
		r.Count("lazy-refresh:not replayed on the model (measured times too far from the nominal ones)")
		return
	}
	var hs []string
	for _, h := range res.hits {
		hs = append(hs, fmt.Sprint(int64(h.off)))
	}
	r.Line(fmt.Sprintf("lazyseq 1 %d 5 %d %d %d %s %s %d %s %s %s", p.lazyTtl, int64(p.storedAgo), -int64(p.expiredAgo), int64(p.cacheIn), rrsOp05(p.rrs), p.chainKind(),
		p.newRcode, b01(p.newTc), rrsOp05(p.newRrs), strings.Join(hs, ",")), strings.Join(impl, "/"))
}

func runC05(r *Run) {
	// ---------- a refresh that outlives the 5 s update timeout (an executable that does not watch its context) still
	// holds the question: runs in the background while the rest of the harness works, collected at the end
	type stuckRes struct {
		started, maxInflight int32
		answered             int
	}
	stuckCh := make(chan stuckRes, 1)
	go func() {
		c := cache.NewCache(&cache.Args{Size: 1024, LazyCacheTTL: 86400}, cache.Opts{})
		var inflight, maxInflight, started int32
		gate := make(chan struct{})
		node := &sequence.ChainNode{E: sequence.ExecutableFunc(func(ctx context.Context, qCtx *query_context.Context) error {
			if qCtx.R() != nil {
				return nil
			}
			n := atomic.AddInt32(&inflight, 1)
			atomic.AddInt32(&started, 1)
			for {
				mx := atomic.LoadInt32(&maxInflight)
				if n <= mx || atomic.CompareAndSwapInt32(&maxInflight, mx, n) {
					break
				}
			}
			<-gate // deliberately not watching ctx
			atomic.AddInt32(&inflight, -1)
			return nil
		})}
		next := sequence.NewChainWalker([]*sequence.ChainNode{node}, nil)
		q := new(dns.Msg)
		q.SetQuestion("stuck.example.", dns.TypeA)
		key := cache.VerifGetMsgKey(q)
		now := time.Now()
		c.VerifInject(key, msg05(0, false, []rr05{{'a', false, 60}}), now.Add(-100*time.Second), now.Add(-40*time.Second), now.Add(time.Hour))
		answered := 0
		ask := func(id uint16) {
			qq := q.Copy()
			qq.Id = id
			qCtx := query_context.NewContext(qq)
			if err := c.Exec(context.Background(), qCtx, next); err == nil && qCtx.R() != nil {
				answered++
			}
		}
		ask(1)
		for j := 0; j < 500 && atomic.LoadInt32(&started) == 0; j++ {
			time.Sleep(time.Millisecond)
		}
		time.Sleep(5300 * time.Millisecond) // the update timeout (5 s) has passed; the first refresh is still running
		ask(2)
		ask(3)
		time.Sleep(50 * time.Millisecond)
		res := stuckRes{atomic.LoadInt32(&started), atomic.LoadInt32(&maxInflight), answered}
		close(gate)
		time.Sleep(5 * time.Millisecond)
		c.Close()
		stuckCh <- res
	}()
	// ---------- lazy refresh outcomes (run in the background as well; evaluated at the end)
	nLazy := r.N(10, 40)
	lazyCh := make(chan lazyRes05, nLazy)
	for i := 0; i < nLazy; i++ {
		p := r.genLazy05(i)
		go func(i int) { x := runLazy05(p); x.idx = i; lazyCh <- x }(i)
	}
	// ---------- admission and lifetimes
	nAdm := r.N(1500, 40000)
	for i := 0; i < nAdm; i++ {
		lazy := 0
		if r.Rng.Intn(2) == 0 {
			lazy = []int{1, 5, 3600, 86400}[r.Rng.Intn(4)]
		}
		c := cache.NewCache(&cache.Args{Size: 1024, LazyCacheTTL: lazy}, cache.Opts{})
		rcode := []int{0, 0, 0, 0, 2, 3, 3, 1, 4, 5, 9, 15}[r.Rng.Intn(12)]
		tc := r.Rng.Intn(12) == 0
		rrs := r.rrs05(true)
		m := msg05(rcode, tc, rrs)
		stored := c.VerifSave("k", m)
		out := "none"
		desc := map[string]any{"rcode": rcode, "tc": tc, "lazy_cache_ttl": lazy, "records(section:isOpt:ttl)": rrsOp05(rrs)}
		if stored {
			sm, st, me, ce, ok := c.VerifPeek("k")
			if !ok {
				// lifetime so short that it is already gone? lifetimes are >= 1 s
				r.Fail("saveRespToCache reported success but the entry is not in the store", desc)
			} else {
				out = fmt.Sprintf("%d %d", int64(me.Sub(st)/time.Second), int64(ce.Sub(st)/time.Second))
				if me.Sub(st)%time.Second != 0 || ce.Sub(st)%time.Second != 0 {
					r.Fail("lifetime is not a whole number of seconds", desc)
				}
				for _, rr := range sm.Extra {
					if rr.Header().Rrtype == dns.TypeOPT {
						r.Fail("the stored copy contains an OPT record", desc)
					}
				}
				// property's own bounds
				msgTtl := int64(me.Sub(st) / time.Second)
				cacheTtl := int64(ce.Sub(st) / time.Second)
				desc["msg_ttl"], desc["cache_ttl"] = msgTtl, cacheTtl
				minT := int64(-1)
				for _, x := range rrs {
					if !x.isOpt && (minT < 0 || int64(x.ttl) < minT) {
						minT = int64(x.ttl)
					}
				}
				nAns := 0
				for _, x := range rrs {
					if x.sec == 'a' {
						nAns++
					}
				}
				switch {
				case tc:
					r.Fail("a truncated reply was stored", desc)
				case rcode == 3 && (msgTtl > 30 || cacheTtl > 30):
					r.Fail("NXDOMAIN lives longer than 30 s", desc)
				case rcode == 2 && (msgTtl > 5 || cacheTtl > 5):
					r.Fail("SERVFAIL lives longer than 5 s", desc)
				case rcode == 0 && nAns == 0 && (msgTtl > 300 || msgTtl > minT || cacheTtl > msgTtl):
					r.Fail("empty NOERROR answer lives longer than min(300 s, smallest TTL)", desc)
				case rcode == 0 && nAns > 0 && msgTtl != minT:
					r.Fail("NOERROR answer's lifetime is not its smallest TTL", desc)
				case rcode == 0 && minT <= 0:
					r.Fail("a zero-TTL (or record-less) reply was stored", desc)
				case rcode != 0 && rcode != 2 && rcode != 3:
					r.Fail("a reply with an rcode other than NOERROR/NXDOMAIN/SERVFAIL was stored", desc)
				}
			}
		}
		c.Close()
		r.Line(fmt.Sprintf("adm %d %d %s %s", lazy, rcode, b01(tc), rrsOp05(rrs)), out)
		r.Eval(fmt.Sprintf("admit:%d:%d:%v:%s", lazy, rcode, tc, rrsOp05(rrs)), stored)
		r.Count(fmt.Sprintf("admit:rcode=%d,stored=%v", rcode, stored))
	}

	// ---------- serving: entries of a chosen age injected with explicit times
	nServe := r.N(1500, 40000)
	half := 500 * time.Millisecond
	for i := 0; i < nServe; i++ {
		lazyOn := r.Rng.Intn(2) == 0
		lazy := 0
		if lazyOn {
			lazy = 86400
		}
		c := cache.NewCache(&cache.Args{Size: 1024, LazyCacheTTL: lazy}, cache.Opts{})
		rrs := r.rrs05(true)
		if r.Rng.Intn(3) != 0 { // stored copies never contain OPT; keep some with OPT to exercise the helpers
			var f []rr05
			for _, x := range rrs {
				if !x.isOpt {
					f = append(f, x)
				}
			}
			rrs = f
		}
		m := msg05(0, false, rrs)
		// elapsed = k s + 0.5 s; expiries at +/- (j s + 0.5 s): every boundary is half a second away
		elapsed := time.Duration([]int{0, 1, 2, 4, 5, 6, 29, 30, 31, 59, 60, 61, 299, 300, 3599, 3600, 100000}[r.Rng.Intn(17)])*time.Second + half
		if r.Rng.Intn(3) == 0 {
			elapsed = time.Duration(r.Rng.Intn(5000))*time.Second + half
		}
		msgIn := time.Duration(r.Rng.Intn(100))*time.Second + half
		if r.Rng.Intn(2) == 0 {
			msgIn = -msgIn
		}
		cacheIn := msgIn + time.Duration(r.Rng.Intn(3))*time.Hour
		if r.Rng.Intn(6) == 0 {
			cacheIn = -(time.Duration(r.Rng.Intn(100))*time.Second + half) // already out of the store
		}
		now := time.Now()
		c.VerifInject("k", m, now.Add(-elapsed), now.Add(msgIn), now.Add(cacheIn))
		got, lazyHit := c.VerifGet("k")
		out := "miss"
		if got != nil {
			if lazyHit {
				out = "stale " + ttlsOf05(got)
			} else {
				out = "fresh " + ttlsOf05(got)
			}
		}
		c.Close()
		r.Line(fmt.Sprintf("serve %s 5 %d %d %d %s", b01(lazyOn), int64(elapsed), int64(msgIn), int64(cacheIn), rrsOp05(rrs)), out)
		r.Eval(fmt.Sprintf("serve:%v:%d:%d:%d:%s", lazyOn, elapsed, msgIn, cacheIn, rrsOp05(rrs)), got != nil)
		r.Count("serve:" + strings.Fields(out)[0])
		// ---- property's own predicate on the implementation's answer
		desc := map[string]any{"lazy": lazyOn, "stored_ago": elapsed.String(), "msg_expires_in": msgIn.String(), "cache_expires_in": cacheIn.String(), "records": rrsOp05(rrs), "served": out}
		inStore := cacheIn > 0
		switch {
		case !inStore && got != nil:
			r.Fail("an entry past its cache expiry was served", desc)
		case inStore && msgIn > 0:
			if got == nil || lazyHit {
				r.Fail("an unexpired entry was not served fresh", desc)
				break
			}
			delta := uint32(elapsed / time.Second)
			j := 0
			for _, sec := range [][]dns.RR{got.Answer, got.Ns, got.Extra} {
				for _, rr := range sec {
					x := rrs[j]
					j++
					want := x.ttl
					if !x.isOpt {
						if x.ttl > delta {
							want = x.ttl - delta
						} else {
							want = 1
						}
					}
					if rr.Header().Ttl != want {
						desc["record"], desc["want_ttl"], desc["got_ttl"] = j-1, want, rr.Header().Ttl
						r.Fail("a record of a fresh hit does not carry its TTL lowered by the whole seconds elapsed (floor 1; OPT untouched)", desc)
					}
				}
			}
		case inStore && msgIn < 0 && !lazyOn:
			if got != nil {
				r.Fail("an answer whose TTL has run out was served although lazy caching is off", desc)
			}
		case inStore && msgIn < 0 && lazyOn:
			if got == nil || !lazyHit {
				r.Fail("lazy caching is on but the stale entry was not served as a lazy hit", desc)
				break
			}
			j := 0
			for _, sec := range [][]dns.RR{got.Answer, got.Ns, got.Extra} {
				for _, rr := range sec {
					x := rrs[j]
					j++
					if (!x.isOpt && rr.Header().Ttl != 5) || (x.isOpt && rr.Header().Ttl != x.ttl) {
						r.Fail("a stale (lazy) hit must carry TTL 5 on every record (OPT untouched)", desc)
					}
				}
			}
		}
	}

	// ---------- entries that came in through a dump (restart, /load_dump): see c05reload.go
	for i, n := 0, r.N(400, 8000); i < n; i++ {
		r.runReload05(i)
	}

	// ---------- replies post-processed (TTL rewrites) after the cache plugin returned: see c05post.go
	for i, n := 0, r.N(200, 4000); i < n; i++ {
		r.runPost05(i)
	}

	// ---------- bursts on a stale entry: at most one background refresh per question in flight
	bursts := r.N(8, 100)
	for b := 0; b < bursts; b++ {
		c := cache.NewCache(&cache.Args{Size: 1024, LazyCacheTTL: 86400}, cache.Opts{})
		var inflight, maxInflight, started int32
		gate := make(chan struct{})
		node := &sequence.ChainNode{E: sequence.ExecutableFunc(func(ctx context.Context, qCtx *query_context.Context) error {
			if qCtx.R() != nil { // foreground: already answered from cache
				return nil
			}
			n := atomic.AddInt32(&inflight, 1)
			atomic.AddInt32(&started, 1)
			for {
				mx := atomic.LoadInt32(&maxInflight)
				if n <= mx || atomic.CompareAndSwapInt32(&maxInflight, mx, n) {
					break
				}
			}
			<-gate
			atomic.AddInt32(&inflight, -1)
			resp := new(dns.Msg)
			resp.SetReply(qCtx.Q())
			resp.Answer = append(resp.Answer, &dns.A{Hdr: dns.RR_Header{Name: qCtx.Q().Question[0].Name, Rrtype: dns.TypeA, Class: dns.ClassINET, Ttl: 300}, A: net.IPv4(192, 0, 2, 9)})
			qCtx.SetResponse(resp)
			return nil
		})}
		next := sequence.NewChainWalker([]*sequence.ChainNode{node}, nil)
		q := new(dns.Msg)
		q.SetQuestion("burst.example.", dns.TypeA)
		key := cache.VerifGetMsgKey(q)
		now := time.Now()
		c.VerifInject(key, msg05(0, false, []rr05{{'a', false, 60}}), now.Add(-100*time.Second), now.Add(-40*time.Second), now.Add(time.Hour))
		nq := 4 + r.Rng.Intn(12)
		concurrent := r.Rng.Intn(2) == 0
		var wg sync.WaitGroup
		answered := int32(0)
		for i := 0; i < nq; i++ {
			ask := func() {
				qq := q.Copy()
				qq.Id = uint16(i + 1)
				qCtx := query_context.NewContext(qq)
				if err := c.Exec(context.Background(), qCtx, next); err == nil && qCtx.R() != nil {
					atomic.AddInt32(&answered, 1)
				}
			}
			if concurrent {
				wg.Add(1)
				go func() { defer wg.Done(); ask() }()
			} else {
				ask()
				if i == 0 { // make sure the first refresh is parked before the next query arrives
					for j := 0; j < 200 && atomic.LoadInt32(&started) == 0; j++ {
						time.Sleep(time.Millisecond)
					}
				}
			}
		}
		wg.Wait()
		time.Sleep(20 * time.Millisecond)
		mx, st := atomic.LoadInt32(&maxInflight), atomic.LoadInt32(&started)
		close(gate)
		time.Sleep(5 * time.Millisecond)
		c.Close()
		r.Eval(fmt.Sprintf("burst:%d:%v:%d", nq, concurrent, b), true)
		r.Count("burst")
		r.Trace()
		if mx > 1 || st > 1 {
			r.Fail("more than one background refresh for one question was in flight", map[string]any{"queries": nq, "concurrent": concurrent, "refreshes_started": st, "max_in_flight": mx})
		}
		if int(answered) != nq {
			r.Fail("a query hitting a stale entry was not answered from the cache", map[string]any{"queries": nq, "answered": answered})
		}
	}

	// ---------- real clock: one entry followed through its life (TTL 2 s)
	if true {
		c := cache.NewCache(&cache.Args{Size: 1024}, cache.Opts{})
		upstreamCalls := 0
		node := &sequence.ChainNode{E: sequence.ExecutableFunc(func(ctx context.Context, qCtx *query_context.Context) error {
			if qCtx.R() != nil {
				return nil
			}
			upstreamCalls++
			resp := new(dns.Msg)
			resp.SetReply(qCtx.Q())
			resp.Answer = append(resp.Answer, &dns.A{Hdr: dns.RR_Header{Name: qCtx.Q().Question[0].Name, Rrtype: dns.TypeA, Class: dns.ClassINET, Ttl: 2}, A: net.IPv4(192, 0, 2, 1)},
				&dns.A{Hdr: dns.RR_Header{Name: qCtx.Q().Question[0].Name, Rrtype: dns.TypeA, Class: dns.ClassINET, Ttl: 100}, A: net.IPv4(192, 0, 2, 2)})
			qCtx.SetResponse(resp)
			return nil
		})}
		next := sequence.NewChainWalker([]*sequence.ChainNode{node}, nil)
		ask := func() (string, int) {
			q := new(dns.Msg)
			q.SetQuestion("clock.example.", dns.TypeA)
			qCtx := query_context.NewContext(q)
			c.Exec(context.Background(), qCtx, next)
			return ttlsOf05(qCtx.R()), upstreamCalls
		}
		t0, _ := ask()
		t1, u1 := ask()
		time.Sleep(1200 * time.Millisecond)
		t2, u2 := ask()
		time.Sleep(1000 * time.Millisecond)
		t3, u3 := ask()
		c.Close()
		r.Eval("clock", true)
		r.Count("real-clock-life")
		got := fmt.Sprintf("%s/%s(%d)/%s(%d)/%s(%d)", t0, t1, u1, t2, u2, t3, u3)
		if got != "2,100/2,100(1)/1,99(1)/2,100(2)" {
			r.Fail("an entry with TTL 2 followed through real time was not served 2,100 at once, 1,99 after 1.2 s and refetched after 2.2 s", map[string]any{"observed ttls(upstream calls)": got})
		}
	}
	if sr := <-stuckCh; true {
		r.Eval("stuck-refresh", true)
		r.Count("burst:refresh-outlives-update-timeout")
		if sr.started > 1 || sr.maxInflight > 1 {
			r.Fail("more than one background refresh for one question was in flight", map[string]any{"scenario": "the first refresh does not return within the 5 s update timeout; two more stale hits arrive 5.3 s after it started", "refreshes_started": sr.started, "max_in_flight": sr.maxInflight})
		}
		if sr.answered != 3 {
			r.Fail("a query hitting a stale entry was not answered from the cache", map[string]any{"queries": 3, "answered": sr.answered, "scenario": "refresh outlives the update timeout"})
		}
	}
	lazyRes := make([]lazyRes05, nLazy)
	for i := 0; i < nLazy; i++ {
		x := <-lazyCh
		lazyRes[x.idx] = x
	}
	for _, x := range lazyRes {
		r.evalLazy05(x)
	}
	r.Finish("admission: rcodes {0,2,3 and others}, TC, lazy on/off, 0..3 records per section with TTLs from {0,1,2,...,2^32-1} incl. an OPT pseudo-record; serving: entries injected with stored/expiry times placed half a second from every boundary (elapsed k+0.5 s, expiries +-(j+0.5 s), in or out of the store), lazy on/off; bursts of 4..15 sequential or concurrent queries on a stale entry with the refresh held; one refresh held beyond the 5 s update timeout with further stale hits after it; lazy refresh outcomes: a stale entry (random records, ages, leaving the store in 2 s or 1 h, lazy_cache_ttl 2..86400) queried at T, T+0.5 s, T+1.5 s, T+2.5 s while the rest of the chain fails / yields nothing / sits behind a skip-when-answered guard (matcher or in the executable) / answers (storable or never-storable answers), first refresh optionally held with more queries arriving - stale data must keep TTL 5, start a refresh, leave on time, and be replaced once a healthy upstream answered; each scenario also replayed on the model (lazyRun); replies post-processed after the plugin returned: the real sequence/ttl plugins in the layouts main=[exec: $sub; ttl X] with sub=[cache; upstream(; ttl Y)] and [wrapper that rewrites after its continuation; cache; upstream(; ttl Y)], X/Y = fixed, min, max, min-max or an affine per-record rewrite, upstream answers of every rcode/section mix, lazy on/off; the entry is aged (same item object, times shifted) to k+0.5 s inside its lifetime and queried 1..3 times, every reply rewritten again - each fresh hit, seen by a probe directly behind the cache, must carry the TTLs the answer had when Cache.Exec returned minus k (floor 1); replayed on the model (aliasRun); one entry followed through real time; non-trivial = stored / served; answers stored by an instance with a seeded lazy_cache_ttl (lifetimes from the real saveRespToCache), aged by k whole seconds, moved through a dump (crafted dump + readDump / POST /load_dump; VerifInject + writeDump + readDump, GET /dump + POST /load_dump, dump_file + Close + NewCache) into an instance with the same or another lazy_cache_ttl and asked there: NXDOMAIN / SERVFAIL / empty NOERROR not served once 30 s / 5 s / min(300 s, smallest TTL) have run out, answers not served after their smallest TTL without lazy caching and only with TTL 5 with it; each run replayed on the model (reload)")
}
