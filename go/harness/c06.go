//go:build pC06 || pall

package main

import (
	"context"
	"errors"
	"fmt"
	"strings"
	"sync"

	"github.com/IrineSistiana/mosdns/v5/coremain"
	"github.com/IrineSistiana/mosdns/v5/pkg/query_context"
	"github.com/IrineSistiana/mosdns/v5/plugin/executable/sequence"
	"github.com/miekg/dns"
)

// C06: sequences execute exactly as their rules say.
//
// Random programs (mutually referencing sequences built bottom-up) are rendered
// to rule text, loaded with the real sequence.NewSequence over a test Mosdns
// whose plugins log their invocations into a per-context log, executed, and the
// ordered log + response + error are compared with the model and with a
// reference interpreter written from the property statement.

func init() { props["C06"] = runC06 }

var logKey06 = query_context.RegKey()

type log06 struct {
	mu   sync.Mutex
	ev   []string
	pend []*pend06 // continuations that wrappers of kind 5/6 will run after their Exec returned
}

// pend06: a continuation kept by a wrapper that has already returned. Its
// goroutine exists since the wrapper's Exec and runs the continuation on a
// copy of the query (own log) once the harness closes release.
type pend06 struct {
	release chan struct{}
	done    chan struct{}
	log     *log06
	err     error
}

func (l *log06) addPend(p *pend06) { l.mu.Lock(); l.pend = append(l.pend, p); l.mu.Unlock() }

func (l *log06) takePend() []*pend06 {
	l.mu.Lock()
	defer l.mu.Unlock()
	p := l.pend
	l.pend = nil
	return p
}

// drain06 lets the kept continuations registered in l run, one after the other
// in registration order, each to completion (and then, recursively, the ones
// it registered itself), and returns what they logged:
// `{`, events, [`ERR`,] nested blocks, `}` per continuation. The blocks of a
// run that ended with an error are run too but not reported.
func drain06(l *log06) []string {
	var out []string
	for _, p := range l.takePend() {
		close(p.release)
		<-p.done
		nested := drain06(p.log)
		out = append(out, "{")
		out = append(out, p.log.ev...)
		if p.err != nil {
			out = append(out, "ERR")
		} else {
			out = append(out, nested...)
		}
		out = append(out, "}")
	}
	return out
}

// later06 starts the goroutine that will run next on a copy of q after the
// harness released it, and registers it in q's log.
func later06(q *query_context.Context, next sequence.ChainWalker) {
	c := q.Copy()
	p := &pend06{release: make(chan struct{}), done: make(chan struct{}), log: &log06{}}
	c.StoreValue(logKey06, p.log)
	go func() {
		defer close(p.done)
		<-p.release
		p.err = next.ExecNext(context.Background(), c)
	}()
	logOf06(q).addPend(p)
}

func (l *log06) add(s string) { l.mu.Lock(); l.ev = append(l.ev, s); l.mu.Unlock() }

// add1 appends s and reports whether s had not been logged before.
func (l *log06) add1(s string) bool {
	l.mu.Lock()
	defer l.mu.Unlock()
	first := true
	for _, e := range l.ev {
		if e == s {
			first = false
			break
		}
	}
	l.ev = append(l.ev, s)
	return first
}

func logOf06(q *query_context.Context) *log06 {
	v, _ := q.GetValue(logKey06)
	return v.(*log06)
}

type matcher06 struct{ id int }

func (m matcher06) Match(_ context.Context, q *query_context.Context) (bool, error) {
	name := fmt.Sprintf("m%d", m.id)
	l := logOf06(q)
	first := l.add1(name)
	switch m.id / 1000 {
	case 0:
		return true, nil
	case 1:
		return false, nil
	case 3: // like the stock has_resp: depends on what earlier actions did
		return q.R() != nil, nil
	case 4: // true only the first time it is asked about this query
		return first, nil
	}
	return false, fmt.Errorf("m%d", m.id)
}

// The three ways rule text can name a matcher (parseMatch / newMatcher):
// `$m12` (a plugin by tag), `c06m 12` (an inline matcher: type + args, built
// by the registered quick setup for every occurrence) and `$c06q 12` (a tagged
// plugin that is configured per occurrence through QuickConfigureMatch).
// Kinds 5 and 6 are the stock inline matchers `_true` / `_false` (they log
// nothing).
type quick06 struct{}

func (quick06) Match(context.Context, *query_context.Context) (bool, error) {
	return false, errors.New("c06q used without arguments")
}

func (quick06) QuickConfigureMatch(args string) (sequence.Matcher, error) {
	var id int
	if _, err := fmt.Sscanf(args, "%d", &id); err != nil {
		return nil, err
	}
	return matcher06{id}, nil
}

func init() {
	sequence.MustRegMatchQuickSetup("c06m", func(_ sequence.BQ, args string) (sequence.Matcher, error) {
		return quick06{}.QuickConfigureMatch(args)
	})
}

const (
	byTag06 = iota
	inline06
	quickTag06
)

// matchText06 renders matcher `m<id>` / `!m<id>` to rule text.
func (r *Run) matchText06(m string, mode int, plugins map[string]any) string {
	rev := strings.HasPrefix(m, "!")
	name := strings.TrimPrefix(m, "!")
	var id int
	fmt.Sscanf(name, "m%d", &id)
	var txt string
	switch {
	case id/1000 == 5:
		txt = "_true"
	case id/1000 == 6:
		txt = "_false"
	case mode == inline06:
		txt = fmt.Sprintf("c06m %d", id)
	case mode == quickTag06:
		plugins["c06q"] = quick06{}
		txt = fmt.Sprintf("$c06q %d", id)
	default:
		plugins[name] = matcher06{id}
		txt = "$" + name
	}
	if rev {
		txt = []string{"!" + txt, "! " + txt, " !" + txt + " "}[r.Rng.Intn(3)]
	}
	return txt
}

type plain06 struct{ id int }

func (p plain06) Exec(_ context.Context, q *query_context.Context) error {
	logOf06(q).add(fmt.Sprintf("a%d", p.id))
	switch p.id / 1000 {
	case 0:
		return nil
	case 2: // answers the query, like a forwarder or a cache hit
		m := new(dns.Msg)
		m.SetReply(q.Q())
		m.Rcode = p.id % 1000
		q.SetResponse(m)
		return nil
	case 3: // drops the response
		q.SetResponse(nil)
		return nil
	}
	return fmt.Errorf("a%d", p.id)
}

type wrap06 struct{ id int }

func (w wrap06) Exec(ctx context.Context, q *query_context.Context, next sequence.ChainWalker) error {
	name := fmt.Sprintf("w%d", w.id)
	logOf06(q).add(name)
	switch w.id / 1000 {
	case 0:
		return next.ExecNext(ctx, q)
	case 1:
		return nil
	case 2:
		if err := next.ExecNext(ctx, q); err != nil {
			return err
		}
		logOf06(q).add(name + "-")
		return nil
	case 3:
		if err := next.ExecNext(ctx, q); err != nil {
			return err
		}
		return next.ExecNext(ctx, q)
	case 5: // returns at once, runs the continuation later (as cache's lazy update does)
		later06(q, next)
		return nil
	case 6: // runs the continuation now and, on a copy taken before, once more after it returned
		later06(q, next)
		return next.ExecNext(ctx, q)
	default: // concurrently, on two copies with their own logs
		var wg sync.WaitGroup
		logs := [2]*log06{{}, {}}
		var failed [2]bool
		for i := 0; i < 2; i++ {
			c := q.Copy()
			c.StoreValue(logKey06, logs[i])
			wg.Add(1)
			go func(i int) {
				defer wg.Done()
				nx := next // each goroutine runs its own copy of the continuation value
				if err := nx.ExecNext(ctx, c); err != nil {
					logs[i].add("ERR")
					failed[i] = true
				}
			}(i)
		}
		wg.Wait()
		l := logOf06(q)
		l.add("[")
		for _, e := range logs[0].ev {
			l.add(e)
		}
		l.add("|")
		for _, e := range logs[1].ev {
			l.add(e)
		}
		l.add("]")
		// continuations kept by wrappers inside the copies' runs: handed to the
		// caller's log (a copy that failed: run, not reported)
		for i := 0; i < 2; i++ {
			if failed[i] {
				drain06(logs[i])
				continue
			}
			for _, p := range logs[i].takePend() {
				l.addPend(p)
			}
		}
		return nil
	}
}

// ---- program generation

type rule06 struct {
	ms  []string // m12 / !m1003
	act string   // a5 A r R3 J0 G1 w2000
}

// plainAct06: a plain action: logs only, answers the query (rcode 0..5),
// drops the response, or (rarely) fails.
func (r *Run) plainAct06(errOneIn int) string {
	id := r.Rng.Intn(50)
	switch k := r.Rng.Intn(10); {
	case k < 3:
		id = 2000 + r.Rng.Intn(6)
	case k < 4:
		id = 3000 + r.Rng.Intn(3)
	}
	if errOneIn > 0 && r.Rng.Intn(errOneIn) == 0 {
		id = 1000 + r.Rng.Intn(50)
	}
	return fmt.Sprintf("a%d", id)
}

func (r *Run) genSeq06(idx int, depthOK bool) []rule06 {
	n := r.Rng.Intn(6)
	if r.Rng.Intn(8) == 0 {
		n = 0
	}
	var out []rule06
	for i := 0; i < n; i++ {
		var rl rule06
		if i > 0 && len(out[i-1].ms) > 0 && r.Rng.Intn(5) == 0 {
			// the same condition written again on the next line
			rl.ms = append(rl.ms, out[i-1].ms...)
		} else {
			for j := r.Rng.Intn(4); j > 0; j-- {
				kind := []int{0, 0, 0, 1, 1, 2}[r.Rng.Intn(6)]
				if kind == 2 && r.Rng.Intn(3) != 0 {
					kind = 0
				}
				num := r.Rng.Intn(20)
				if r.Rng.Intn(5) == 0 { // result depends on what ran before
					kind, num = 3+r.Rng.Intn(2), r.Rng.Intn(3)
				}
				m := fmt.Sprintf("m%d", kind*1000+num)
				if r.Rng.Intn(3) == 0 {
					m = "!" + m
				}
				rl.ms = append(rl.ms, m)
			}
		}
		switch k := r.Rng.Intn(20); {
		case k < 7:
			if r.Rng.Intn(3) == 0 {
				rl.act = r.plainAct06(12)
				break
			}
			id := r.Rng.Intn(50)
			if r.Rng.Intn(12) == 0 {
				id += 1000
			}
			rl.act = fmt.Sprintf("a%d", id)
		case k < 9:
			rl.act = "A"
		case k < 10:
			rl.act = fmt.Sprintf("R%d", []int{2, 3, 5, 5, 0, 4095}[r.Rng.Intn(6)])
		case k < 12:
			rl.act = "r"
		case k < 15 && idx > 0:
			rl.act = fmt.Sprintf("J%d", r.Rng.Intn(idx))
		case k < 16 && idx > 0:
			rl.act = fmt.Sprintf("G%d", r.Rng.Intn(idx))
		default:
			rl.act = fmt.Sprintf("w%d", r.Rng.Intn(7)*1000+r.Rng.Intn(20))
		}
		out = append(out, rl)
	}
	return out
}

// genRepeat06: the "same condition on consecutive lines" idiom
// (`!has_resp -> primary`, `!has_resp -> secondary`, ...): blocks of 2..4
// adjacent rules that share one non-empty matcher list in which at least one
// matcher's result depends on what earlier actions did (response present /
// asked before), with mostly plain actions that answer the query, drop the
// response or only log. Every rule has to evaluate its own matchers on the
// state its predecessors left behind.
func (r *Run) genRepeat06(idx int) []rule06 {
	var s []rule06
	if r.Rng.Intn(3) == 0 {
		s = append(s, rule06{act: fmt.Sprintf("a%d", 2000+r.Rng.Intn(6))})
	}
	for b := 1 + r.Rng.Intn(3); b > 0; b-- {
		var ms []string
		neg := func(m string) string {
			if r.Rng.Intn(2) == 0 {
				return "!" + m
			}
			return m
		}
		for j := 1 + r.Rng.Intn(2); j > 0; j-- {
			ms = append(ms, neg(fmt.Sprintf("m%d", (3+r.Rng.Intn(2))*1000+r.Rng.Intn(3))))
		}
		if r.Rng.Intn(4) == 0 { // plus a constant one, before or after
			c := neg(fmt.Sprintf("m%d", []int{0, 0, 0, 1000, 2000}[r.Rng.Intn(5)]+r.Rng.Intn(20)))
			if r.Rng.Intn(2) == 0 {
				ms = append([]string{c}, ms...)
			} else {
				ms = append(ms, c)
			}
		}
		for j := 2 + r.Rng.Intn(3); j > 0; j-- {
			act := r.plainAct06(25)
			if r.Rng.Intn(8) == 0 {
				acts := []string{"A", "r", "R3", fmt.Sprintf("w%d", []int{0, 2, 3, 4, 5, 6}[r.Rng.Intn(6)]*1000+r.Rng.Intn(20))}
				if idx > 0 {
					acts = append(acts, fmt.Sprintf("J%d", r.Rng.Intn(idx)), fmt.Sprintf("G%d", r.Rng.Intn(idx)))
				}
				act = acts[r.Rng.Intn(len(acts))]
			}
			s = append(s, rule06{ms: append([]string(nil), ms...), act: act})
		}
		switch r.Rng.Intn(4) {
		case 0:
			s = append(s, rule06{act: r.plainAct06(0)})
		case 1:
			if idx > 0 {
				s = append(s, rule06{act: fmt.Sprintf("J%d", r.Rng.Intn(idx))})
			}
		}
	}
	return s
}

// genIfElse06: the if/else idiom (`cond -> A`, `!cond -> B`) and its
// relatives: 2..5 rules whose matchers are drawn from an alphabet of only one
// or two conditions, each occurrence negated or not independently (so the same
// matcher text occurs several times in one sequence with both polarities, the
// first occurrence negated or not, also `x` and `!x` inside one rule); half of
// the rules after the first are the exact complement of their predecessor.
// Conditions: constant true/false (logging, or the stock `_true`/`_false`),
// response present, first-time-asked, rarely failing.
func (r *Run) genIfElse06(idx int) []rule06 {
	var conds []string
	for j := 1 + r.Rng.Intn(2); j > 0; j-- {
		kind := []int{0, 0, 1, 1, 3, 3, 4, 5, 6}[r.Rng.Intn(9)]
		num := r.Rng.Intn(20)
		if kind >= 3 {
			num = r.Rng.Intn(3)
		}
		if kind >= 5 {
			num = 0
		}
		if r.Rng.Intn(25) == 0 {
			kind = 2
		}
		conds = append(conds, fmt.Sprintf("m%d", kind*1000+num))
	}
	toggle := func(m string) string {
		if strings.HasPrefix(m, "!") {
			return m[1:]
		}
		return "!" + m
	}
	var s []rule06
	if r.Rng.Intn(3) == 0 {
		s = append(s, rule06{act: fmt.Sprintf("a%d", 2000+r.Rng.Intn(6))})
	}
	for i, n := 0, 2+r.Rng.Intn(4); i < n; i++ {
		var ms []string
		if prev := len(s) - 1; i > 0 && len(s[prev].ms) == 1 && r.Rng.Intn(2) == 0 {
			ms = []string{toggle(s[prev].ms[0])} // else-branch of the rule before
		} else {
			for j := []int{1, 1, 1, 2, 3}[r.Rng.Intn(5)]; j > 0; j-- {
				c := conds[r.Rng.Intn(len(conds))]
				if r.Rng.Intn(2) == 0 {
					c = "!" + c
				}
				ms = append(ms, c)
			}
		}
		act := r.plainAct06(25)
		if r.Rng.Intn(6) == 0 {
			acts := []string{"A", "r", "R3", fmt.Sprintf("w%d", []int{0, 2, 3, 4, 5, 6}[r.Rng.Intn(6)]*1000+r.Rng.Intn(20))}
			if idx > 0 {
				acts = append(acts, fmt.Sprintf("J%d", r.Rng.Intn(idx)), fmt.Sprintf("G%d", r.Rng.Intn(idx)))
			}
			act = acts[r.Rng.Intn(len(acts))]
		}
		s = append(s, rule06{ms: ms, act: act})
	}
	return s
}

func seqOp06(s []rule06) string {
	if len(s) == 0 {
		return "-"
	}
	var p []string
	for _, rl := range s {
		p = append(p, strings.Join(rl.ms, "+")+">"+rl.act)
	}
	return strings.Join(p, ",")
}

// ---- reference interpreter (continuation semantics from the property text)

type st06 struct {
	log   []string
	resp  int      // -1 none
	later []string // blocks logged by continuations that were kept and run after their wrapper returned
}

// refLater06: a kept continuation is the same remaining rules whenever it is
// run: on a copy of the query as it was when the wrapper was called, own log.
func refLater06(next func(*st06) error, s *st06) {
	c := &st06{resp: s.resp}
	s.later = append(s.later, "{")
	if err := next(c); err != nil {
		s.later = append(append(s.later, c.log...), "ERR")
	} else {
		s.later = append(append(s.later, c.log...), c.later...)
	}
	s.later = append(s.later, "}")
}

var errRef06 = errors.New("ref error")

func refRun06(seqs [][]rule06, rules []rule06, k func(*st06) error, s *st06) error {
	if len(rules) == 0 {
		return k(s)
	}
	rl, rs := rules[0], rules[1:]
	for _, m := range rl.ms {
		rev := strings.HasPrefix(m, "!")
		name := strings.TrimPrefix(m, "!")
		var id int
		fmt.Sscanf(name, "m%d", &id)
		first := true
		for _, e := range s.log {
			if e == name {
				first = false
			}
		}
		if id/1000 != 5 && id/1000 != 6 { // the stock _true / _false log nothing
			s.log = append(s.log, name)
		}
		var v bool
		switch id / 1000 {
		case 5:
			v = true
		case 6:
			v = false
		case 0:
			v = true
		case 1:
			v = false
		case 3:
			v = s.resp >= 0
		case 4:
			v = first
		default:
			return errRef06
		}
		if v == rev { // false after negation
			return refRun06(seqs, rs, k, s)
		}
	}
	a := rl.act
	var id int
	switch a[0] {
	case 'a':
		fmt.Sscanf(a, "a%d", &id)
		s.log = append(s.log, a)
		switch id / 1000 {
		case 0:
		case 2:
			s.resp = id % 1000
		case 3:
			s.resp = -1
		default:
			return errRef06
		}
		return refRun06(seqs, rs, k, s)
	case 'A':
		return nil
	case 'R':
		fmt.Sscanf(a, "R%d", &id)
		s.resp = id
		return nil
	case 'r':
		return k(s)
	case 'J':
		fmt.Sscanf(a, "J%d", &id)
		return refRun06(seqs, seqs[id], func(t *st06) error { return refRun06(seqs, rs, k, t) }, s)
	case 'G':
		fmt.Sscanf(a, "G%d", &id)
		return refRun06(seqs, seqs[id], func(*st06) error { return nil }, s)
	case 'w':
		fmt.Sscanf(a, "w%d", &id)
		s.log = append(s.log, a)
		next := func(t *st06) error { return refRun06(seqs, rs, k, t) }
		switch id / 1000 {
		case 0:
			return next(s)
		case 1:
			return nil
		case 2:
			if err := next(s); err != nil {
				return err
			}
			s.log = append(s.log, a+"-")
			return nil
		case 3:
			if err := next(s); err != nil {
				return err
			}
			return next(s)
		case 5:
			refLater06(next, s)
			return nil
		case 6:
			refLater06(next, s)
			return next(s)
		default:
			var ls [2][]string
			var lt []string
			for i := 0; i < 2; i++ {
				c := &st06{resp: s.resp}
				if err := next(c); err != nil {
					c.log = append(c.log, "ERR")
				} else {
					lt = append(lt, c.later...)
				}
				ls[i] = c.log
			}
			s.later = append(s.later, lt...)
			s.log = append(s.log, "[")
			s.log = append(s.log, ls[0]...)
			s.log = append(s.log, "|")
			s.log = append(s.log, ls[1]...)
			s.log = append(s.log, "]")
			return nil
		}
	}
	panic("bad action " + a)
}

func runC06(r *Run) {
	n := r.N(1500, 60000)
	for it := 0; it < n; it++ {
		nseq := 1 + r.Rng.Intn(4)
		var seqs [][]rule06
		for i := 0; i < nseq; i++ {
			seqs = append(seqs, r.genSeq06(i, true))
		}
		if it%4 == 0 {
			// structured stream: wrappers that re-run their continuation sit inside
			// sequences that are entered by jump and have rules behind them, and the
			// callers have rules behind the jump (pending jump returns matter).
			seqs = nil
			nseq = 2 + r.Rng.Intn(3)
			for i := 0; i < nseq; i++ {
				var s []rule06
				plain := func() rule06 { return rule06{act: fmt.Sprintf("a%d", r.Rng.Intn(50))} }
				if r.Rng.Intn(2) == 0 {
					s = append(s, plain())
				}
				if i > 0 {
					s = append(s, rule06{act: fmt.Sprintf("J%d", r.Rng.Intn(i))})
					if r.Rng.Intn(3) == 0 {
						s = append(s, rule06{ms: []string{"m1"}, act: fmt.Sprintf("G%d", r.Rng.Intn(i))})
						s[len(s)-1].ms = []string{[]string{"m1001", "!m1", "m2"}[r.Rng.Intn(3)]}
					}
				}
				if r.Rng.Intn(3) != 0 {
					s = append(s, rule06{act: fmt.Sprintf("w%d", []int{0, 2, 3, 3, 4, 4, 5, 5, 5, 6}[r.Rng.Intn(10)]*1000+r.Rng.Intn(20))})
				}
				for j := r.Rng.Intn(3); j > 0; j-- {
					s = append(s, plain())
				}
				if r.Rng.Intn(4) == 0 {
					s = append(s, rule06{ms: []string{[]string{"m3", "m1003"}[r.Rng.Intn(2)]}, act: "r"}, plain())
				}
				seqs = append(seqs, s)
			}
		}
		if it%4 == 1 {
			// repeated-condition stream (see genRepeat06)
			seqs = nil
			nseq = 1 + r.Rng.Intn(3)
			for i := 0; i < nseq; i++ {
				seqs = append(seqs, r.genRepeat06(i))
			}
			r.Count("stream:repeated-condition")
		}
		inlineIn, quickIn := 4, 8 // one matcher in 4 is written inline, one in 8 as `$tag args`
		if it%4 == 2 {
			// if/else stream (see genIfElse06); conditions mostly inline
			seqs = nil
			nseq = 1 + r.Rng.Intn(3)
			for i := 0; i < nseq; i++ {
				seqs = append(seqs, r.genIfElse06(i))
			}
			inlineIn, quickIn = 2, 4
			r.Count("stream:if-else")
		}
		var ops []string
		for _, s := range seqs {
			ops = append(ops, seqOp06(s))
		}
		line := "run " + strings.Join(ops, ";")

		// ---- build with the real sequence plugin from rule text
		plugins := map[string]any{}
		m := coremain.NewTestMosdnsWithPlugins(plugins)
		var built []*sequence.Sequence
		buildErr := error(nil)
		// how each matcher is written: one way per matcher and program (so a
		// repeated condition is the same text every time), now and then
		// another way for a single occurrence
		modes := map[string]int{}
		var config []string
		for i, s := range seqs {
			var ras []sequence.RuleArgs
			for _, rl := range s {
				var ra sequence.RuleArgs
				for _, mt := range rl.ms {
					name := strings.TrimPrefix(mt, "!")
					mode, ok := modes[name]
					if !ok {
						switch {
						case r.Rng.Intn(inlineIn) == 0:
							mode = inline06
						case r.Rng.Intn(quickIn) == 0:
							mode = quickTag06
						}
						modes[name] = mode
					}
					if r.Rng.Intn(12) == 0 {
						mode = r.Rng.Intn(3)
					}
					ra.Matches = append(ra.Matches, r.matchText06(mt, mode, plugins))
				}
				a := rl.act
				var id int
				switch a[0] {
				case 'a':
					fmt.Sscanf(a, "a%d", &id)
					plugins[a] = plain06{id}
					ra.Exec = "$" + a
				case 'w':
					fmt.Sscanf(a, "w%d", &id)
					plugins[a] = wrap06{id}
					ra.Exec = []string{"$" + a, " $" + a + "  "}[r.Rng.Intn(2)]
				case 'A':
					ra.Exec = "accept"
				case 'R':
					ra.Exec = "reject " + a[1:]
					if a[1:] == "5" && r.Rng.Intn(2) == 0 {
						ra.Exec = "reject" // no argument: REFUSED
					}
				case 'r':
					ra.Exec = "return"
				case 'J':
					ra.Exec = "jump seq" + a[1:]
				case 'G':
					ra.Exec = "goto  seq" + a[1:]
				}
				ras = append(ras, ra)
				config = append(config, fmt.Sprintf("seq%d: '%s' -> '%s'", i, strings.Join(ra.Matches, "' '"), ra.Exec))
			}
			sq, err := sequence.NewSequence(sequence.NewBQ(m, m.Logger()), ras)
			if err != nil {
				buildErr = err
				break
			}
			plugins[fmt.Sprintf("seq%d", i)] = sq
			built = append(built, sq)
		}
		if buildErr != nil {
			r.Fail("a valid sequence program was rejected: "+buildErr.Error(), map[string]any{"program": line, "config": config})
			continue
		}
		q := new(dns.Msg)
		q.SetQuestion("c06.example.", dns.TypeA)
		qCtx := query_context.NewContext(q)
		lg := &log06{}
		qCtx.StoreValue(logKey06, lg)
		err := built[len(built)-1].Exec(context.Background(), qCtx)
		resp := "-"
		if rr := qCtx.R(); rr != nil {
			resp = fmt.Sprint(rr.Rcode)
		}
		later := drain06(lg) // the kept continuations run now, after the top-level Exec has returned
		if len(later) > 0 {
			r.Count("continuations run after their wrapper returned")
		}
		out := "ok " + strings.Join(append(append([]string(nil), lg.ev...), later...), ",") + " resp=" + resp
		if err != nil {
			out = "err " + strings.Join(lg.ev, ",")
		}
		r.Line(line, out)

		// ---- reference
		ref := &st06{resp: -1}
		rerr := refRun06(seqs, seqs[len(seqs)-1], func(*st06) error { return nil }, ref)
		rresp := "-"
		if ref.resp >= 0 {
			rresp = fmt.Sprint(ref.resp)
		}
		want := "ok " + strings.Join(append(append([]string(nil), ref.log...), ref.later...), ",") + " resp=" + rresp
		if rerr != nil {
			want = "err " + strings.Join(ref.log, ",")
		}
		nontrivial, repeated, bothPol := false, false, false
		for _, s := range seqs {
			pol := map[string]int{} // matcher -> 1 seen plain, 2 seen negated
			for _, rl := range s {
				for _, m := range rl.ms {
					k := strings.TrimPrefix(m, "!")
					if k == m {
						pol[k] |= 1
					} else {
						pol[k] |= 2
					}
					if pol[k] == 3 {
						bothPol = true
						nontrivial = true // a condition and its negation in one sequence
					}
				}
			}
			for i, rl := range s {
				if strings.ContainsAny(rl.act[:1], "JGrw") {
					nontrivial = true
				}
				if i > 0 && len(rl.ms) > 0 && strings.Join(rl.ms, "+") == strings.Join(s[i-1].ms, "+") {
					repeated = true
					for _, m := range rl.ms {
						if k := strings.TrimPrefix(m, "!"); len(k) == 5 && (k[1] == '3' || k[1] == '4') {
							nontrivial = true // a repeated condition whose value the actions can change
						}
					}
				}
			}
		}
		if repeated {
			r.Count("adjacent rules with the same condition")
		}
		if bothPol {
			r.Count("a matcher and its negation in one sequence")
			for _, md := range modes {
				if md != byTag06 {
					r.Count("a matcher and its negation in one sequence, some matcher inline or `$tag args`")
					break
				}
			}
		}
		r.Eval(line, nontrivial && len(lg.ev) > 2)
		r.Count(fmt.Sprintf("seqs=%d", nseq))
		if err != nil {
			r.Count("ended:error")
		} else {
			r.Count("ended:ok")
		}
		if out != want {
			r.Fail("the sequence did not execute as its rules say", map[string]any{"program": line, "config": config, "got": out, "want": want})
		}
	}
	r.Finish("1..4 sequences built bottom-up (later ones jump/goto earlier ones), 0..5 rules each, 0..3 matchers per rule (true/false/error/response-present/first-time-asked, a third negated with '!' in three spellings; each matcher written as `$tag`, as an inline `type args` matcher built through a registered quick setup, as `$tag args` configured through QuickConfigureMatch, or the stock `_true`/`_false`, one way per matcher and program with occasional exceptions), actions: plain (log only / answer the query / drop the response / error), accept, reject, return, jump, goto, wrappers that continue / stop / post-process / run the continuation twice / run it concurrently on two copies / return at once (or continue) and run the kept continuation on a copy in a goroutine that the harness releases only after the top-level Exec has returned, one kept continuation after the other, nested ones after their parent, their logs appended as `{...}` blocks and compared with the continuation semantics (the same remaining rules incl. the pending jump returns, whenever it is run); a quarter of the programs are built from blocks of 2..4 adjacent rules that repeat one condition whose value the actions change (the `!has_resp -> primary; !has_resp -> secondary` idiom), so every rule must evaluate its own matchers on the state left by its predecessors; a quarter are if/else programs (2..5 rules over an alphabet of one or two conditions, every occurrence negated or not independently, half of the rules the exact complement of the rule before, conditions mostly inline), so the same matcher text occurs in one sequence with both polarities; rendered to rule text and loaded by sequence.NewSequence; non-trivial = uses jump/goto/return/wrapper, a repeated state-dependent condition or a matcher together with its negation in one sequence, and logs more than 2 events")
}
