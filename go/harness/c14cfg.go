//go:build pC14 || pall

package main

import (
	"context"
	"encoding/binary"
	"errors"
	"fmt"
	"io"
	"net"
	"sort"
	"strings"
	"sync"
	"sync/atomic"
	"time"

	"github.com/IrineSistiana/mosdns/v5/coremain"
	"github.com/IrineSistiana/mosdns/v5/pkg/query_context"
	"github.com/IrineSistiana/mosdns/v5/pkg/utils"
	fastforward "github.com/IrineSistiana/mosdns/v5/plugin/executable/forward"
	"github.com/IrineSistiana/mosdns/v5/plugin/executable/sequence"
	"github.com/miekg/dns"
)

// C14, configured forwards: the upstream list U is the one NewForward / Init
// builds from plugin arguments (decoded from a config map as mosdns does), not
// a list of ready-made in-memory upstreams. Every configured entry designates
// one of a few loopback servers - by its addr, by dial_addr under an addr it
// shares with other entries, or by a SOCKS5 proxy (its own or the plugin-wide
// one) - over UDP or TCP. The servers have distinguishable answers and record
// every query they receive, so what is observed is which positions of U a
// query really went to and whose answer came back.

type srv14 struct {
	id       int // 1..k, the last byte of the A record / the TXT of its answers
	hub      *hub14
	udp      net.PacketConn
	tcp      net.Listener
	socks    net.Listener
	behave   atomic.Int32 // index into behaviours14
	delayNs  atomic.Int64
	udpAddr  string
	tcpAddr  string
	sockAddr string
	// fault sequences (c14seq.go): hang up on every query (read it, record it, close the connection); outages
	hangup atomic.Bool
	refuse atomic.Bool // new connections are closed as soon as they are accepted
	cmu    sync.Mutex
	conns  map[net.Conn]struct{}
}

// what a server does with a query: NOERROR, NXDOMAIN, SERVFAIL, REFUSED, bytes that do not unpack, nothing
var behaviours14 = []string{"g", "x", "b", "f", "u", "never"}

type hub14 struct {
	mu     sync.Mutex
	hits   map[string]map[int]int // qname -> server id -> queries received
	wake   chan struct{}
	closed atomic.Bool
}

func (h *hub14) record(qname string, id int) {
	h.mu.Lock()
	m := h.hits[qname]
	if m == nil {
		m = map[int]int{}
		h.hits[qname] = m
	}
	m[id]++
	h.mu.Unlock()
	select {
	case h.wake <- struct{}{}:
	default:
	}
}

func (h *hub14) snapshot(qname string) (map[int]int, int) {
	h.mu.Lock()
	defer h.mu.Unlock()
	out, n := map[int]int{}, 0
	for k, v := range h.hits[qname] {
		out[k] = v
		n += v
	}
	return out, n
}

func newSrv14(id int, hub *hub14) *srv14 {
	s := &srv14{id: id, hub: hub, conns: map[net.Conn]struct{}{}}
	var err error
	if s.udp, err = net.ListenPacket("udp", "127.0.0.1:0"); err != nil {
		fatal(err)
	}
	if s.tcp, err = net.Listen("tcp", "127.0.0.1:0"); err != nil {
		fatal(err)
	}
	if s.socks, err = net.Listen("tcp", "127.0.0.1:0"); err != nil {
		fatal(err)
	}
	s.udpAddr, s.tcpAddr, s.sockAddr = s.udp.LocalAddr().String(), s.tcp.Addr().String(), s.socks.Addr().String()
	go s.serveUDP(s.udp)
	go s.accept(s.tcp, false)
	go s.accept(s.socks, true)
	return s
}

func (s *srv14) close() {
	s.udp.Close()
	s.tcp.Close()
	s.socks.Close()
}

// dropConns closes every connection the server has accepted.
func (s *srv14) dropConns() {
	s.cmu.Lock()
	for c := range s.conns {
		c.Close()
	}
	s.cmu.Unlock()
}

// answer records the query and returns the reply bytes (nil = stay silent) and the delay to apply.
func (s *srv14) answer(raw []byte) ([]byte, time.Duration) {
	q := new(dns.Msg)
	if err := q.Unpack(raw); err != nil || len(q.Question) != 1 {
		return nil, 0
	}
	s.hub.record(q.Question[0].Name, s.id)
	d := time.Duration(s.delayNs.Load())
	mk := func(rcode int) []byte {
		r := new(dns.Msg)
		r.SetRcode(q, rcode)
		if rcode == dns.RcodeSuccess {
			r.Answer = append(r.Answer, &dns.A{Hdr: dns.RR_Header{Name: q.Question[0].Name, Rrtype: dns.TypeA, Class: 1, Ttl: 60}, A: net.IPv4(10, 0, 0, byte(s.id))})
		} else {
			r.Ns = append(r.Ns, &dns.TXT{Hdr: dns.RR_Header{Name: "from.", Rrtype: dns.TypeTXT, Class: 1, Ttl: 60}, Txt: []string{fmt.Sprint(s.id)}})
		}
		b, err := r.Pack()
		if err != nil {
			return nil
		}
		return b
	}
	switch behaviours14[s.behave.Load()] {
	case "g":
		return mk(dns.RcodeSuccess), d
	case "x":
		return mk(dns.RcodeNameError), d
	case "b":
		return mk(dns.RcodeServerFailure), d
	case "f":
		return mk(dns.RcodeRefused), d
	case "u": // the query's id, QR, one question announced, and a label that runs off the end
		b := make([]byte, 13)
		copy(b, raw[:2])
		b[2], b[5], b[12] = 0x80, 1, 0x3f
		return b, d
	}
	return nil, 0
}

func (s *srv14) serveUDP(pc net.PacketConn) {
	buf := make([]byte, 65535)
	for {
		n, from, err := pc.ReadFrom(buf)
		if err != nil {
			return
		}
		rep, d := s.answer(append([]byte(nil), buf[:n]...))
		if rep == nil {
			continue
		}
		if d > 0 {
			time.AfterFunc(d, func() { pc.WriteTo(rep, from) })
		} else {
			pc.WriteTo(rep, from)
		}
	}
}

func (s *srv14) accept(l net.Listener, socks bool) {
	for {
		c, err := l.Accept()
		if err != nil {
			return
		}
		if s.refuse.Load() {
			c.Close()
			continue
		}
		s.cmu.Lock()
		s.conns[c] = struct{}{}
		s.cmu.Unlock()
		go func() {
			defer func() {
				c.Close()
				s.cmu.Lock()
				delete(s.conns, c)
				s.cmu.Unlock()
			}()
			if socks && !socks5Handshake14(c) {
				return
			}
			s.serveStream(c)
		}()
	}
}

// socks5Handshake14 accepts a no-auth CONNECT to anything: the proxy itself is the DNS server.
func socks5Handshake14(c net.Conn) bool {
	c.SetDeadline(time.Now().Add(5 * time.Second))
	defer c.SetDeadline(time.Time{})
	h := make([]byte, 2)
	if _, err := io.ReadFull(c, h); err != nil || h[0] != 5 {
		return false
	}
	if _, err := io.ReadFull(c, make([]byte, int(h[1]))); err != nil {
		return false
	}
	if _, err := c.Write([]byte{5, 0}); err != nil {
		return false
	}
	rq := make([]byte, 4)
	if _, err := io.ReadFull(c, rq); err != nil || rq[0] != 5 || rq[1] != 1 {
		return false
	}
	n := 0
	switch rq[3] {
	case 1:
		n = 4
	case 4:
		n = 16
	case 3:
		l := make([]byte, 1)
		if _, err := io.ReadFull(c, l); err != nil {
			return false
		}
		n = int(l[0])
	default:
		return false
	}
	if _, err := io.ReadFull(c, make([]byte, n+2)); err != nil {
		return false
	}
	_, err := c.Write([]byte{5, 0, 0, 1, 0, 0, 0, 0, 0, 0})
	return err == nil
}

func (s *srv14) serveStream(c net.Conn) {
	var wmu sync.Mutex
	write := func(rep []byte) {
		out := make([]byte, 2+len(rep))
		binary.BigEndian.PutUint16(out, uint16(len(rep)))
		copy(out[2:], rep)
		wmu.Lock()
		c.Write(out)
		wmu.Unlock()
	}
	for {
		hdr := make([]byte, 2)
		if _, err := io.ReadFull(c, hdr); err != nil {
			return
		}
		raw := make([]byte, binary.BigEndian.Uint16(hdr))
		if _, err := io.ReadFull(c, raw); err != nil {
			return
		}
		if s.hangup.Load() {
			if q := new(dns.Msg); q.Unpack(raw) == nil && len(q.Question) == 1 {
				s.hub.record(q.Question[0].Name, s.id)
			}
			return
		}
		rep, d := s.answer(raw)
		if rep == nil {
			continue
		}
		if d > 0 {
			time.AfterFunc(d, func() { write(rep) })
		} else {
			write(rep)
		}
	}
}

type ent14 struct {
	cfg    map[string]any
	target int // id of the server this entry's own options designate
	tag    string
}

func runC14Configured(r *Run) {
	const nSrv = 4
	hub := &hub14{hits: map[string]map[int]int{}, wake: make(chan struct{}, 1)}
	srvs := make([]*srv14, nSrv)
	for i := range srvs {
		srvs[i] = newSrv14(i+1, hub)
		defer srvs[i].close()
	}
	byID := func(id int) *srv14 { return srvs[id-1] }
	sharedUDP := []string{"udp://192.0.2.53", "192.0.2.53:5353", "udp://192.0.2.53:53"}
	sharedTCP := []string{"tcp://192.0.2.53", "tcp://192.0.2.53:5353", "tcp+pipeline://192.0.2.53"}
	sharedSocks := []string{"tcp://resolver.c14.example", "tcp://192.0.2.53:53"}

	cases := r.N(40, 400)
	for ci := 0; ci < cases; ci++ {
		// ---- what the servers do in this case
		for _, s := range srvs {
			b := r.Rng.Intn(4) // a reply with some rcode
			switch x := r.Rng.Intn(30); {
			case x == 0:
				b = 5 // never answers
			case x <= 2:
				b = 4 // unparsable bytes
			}
			s.behave.Store(int32(b))
			s.delayNs.Store(int64([]time.Duration{0, 0, 2 * time.Millisecond, 10 * time.Millisecond, 25 * time.Millisecond}[r.Rng.Intn(5)]))
		}
		// ---- the configuration
		n := 1 + r.Rng.Intn(4)
		if r.Rng.Intn(3) > 0 && n < 2 {
			n = 2
		}
		conc := []int{-2, 0, 1, 2, 3, 4, 7}[r.Rng.Intn(7)]
		c := conc
		if c <= 0 {
			c = 1
		}
		if c > 3 {
			c = 3
		}
		family := []string{"same-addr-udp", "same-addr-tcp", "same-addr-socks5", "mixed"}[r.Rng.Intn(4)]
		noise := r.Rng.Intn(2) == 0 // options that do not change where an entry leads
		shUDP, shTCP, shSocks := sharedUDP[r.Rng.Intn(len(sharedUDP))], sharedTCP[r.Rng.Intn(len(sharedTCP))], sharedSocks[r.Rng.Intn(len(sharedSocks))]
		globalSocks := 0 // id of the server behind the plugin-wide socks5, 0 = none
		if family == "same-addr-socks5" && r.Rng.Intn(2) == 0 || family == "mixed" && r.Rng.Intn(4) == 0 {
			globalSocks = 1 + r.Rng.Intn(nSrv)
		}
		perm := r.Rng.Perm(nSrv)
		ents := make([]ent14, n)
		for i := range ents {
			t := 1 + perm[i%nSrv]
			if r.Rng.Intn(6) == 0 {
				t = 1 + r.Rng.Intn(nSrv) // now and then two entries lead to the same server
			}
			s := byID(t)
			how := family
			if family == "mixed" {
				how = []string{"same-addr-udp", "same-addr-tcp", "same-addr-socks5", "own-addr-udp", "own-addr-tcp"}[r.Rng.Intn(5)]
			}
			e := map[string]any{}
			stream := true
			switch how {
			case "same-addr-udp":
				e["addr"], e["dial_addr"] = shUDP, s.udpAddr
				stream = false
			case "same-addr-tcp":
				e["addr"], e["dial_addr"] = shTCP, s.tcpAddr
			case "same-addr-socks5":
				e["addr"] = shSocks
				if r.Rng.Intn(2) == 0 {
					e["dial_addr"] = "192.0.2.54:53" // what the proxy is asked to connect to; the proxy answers itself
				}
				if globalSocks == t && r.Rng.Intn(2) == 0 {
					// left empty: the plugin-wide proxy applies
				} else {
					e["socks5"] = s.sockAddr
				}
			case "own-addr-udp":
				e["addr"] = []string{"udp://", ""}[r.Rng.Intn(2)] + s.udpAddr
				stream = false
			case "own-addr-tcp":
				e["addr"] = "tcp://" + s.tcpAddr
			}
			if stream && globalSocks != 0 && e["socks5"] == nil {
				t = globalSocks // a stream entry without its own proxy goes through the plugin-wide one
			}
			if noise {
				if r.Rng.Intn(2) == 0 {
					e["idle_timeout"] = []int{5, 30, 60}[r.Rng.Intn(3)] // never shorter than a case may last (see caseStart)
				}
				if stream && r.Rng.Intn(3) == 0 {
					e["enable_pipeline"] = true
				}
				if r.Rng.Intn(4) == 0 {
					e["max_conns"] = 1 + r.Rng.Intn(4)
				}
			}
			tag := ""
			if r.Rng.Intn(5) > 0 {
				tag = fmt.Sprintf("t%d", i)
				e["tag"] = tag
			}
			ents[i] = ent14{cfg: e, target: t, tag: tag}
		}
		var ups []any
		var targets []string
		for _, e := range ents {
			ups = append(ups, e.cfg)
			targets = append(targets, fmt.Sprint(e.target))
		}
		conf := map[string]any{"upstreams": ups, "concurrent": conc}
		if globalSocks != 0 {
			conf["socks5"] = byID(globalSocks).sockAddr
		}
		args := new(fastforward.Args)
		if err := utils.WeakDecode(conf, args); err != nil {
			fatal(fmt.Errorf("C14 configured forward: arguments do not decode: %w", err))
		}
		var f *fastforward.Forward
		via := "NewForward"
		if r.Rng.Intn(2) == 0 {
			via = "Init"
			p, err := fastforward.Init(coremain.NewBP(fmt.Sprintf("fwd%d", ci), coremain.NewTestMosdnsWithPlugins(nil)), args)
			if err != nil {
				fatal(fmt.Errorf("C14 configured forward: Init: %w", err))
			}
			f = p.(*fastforward.Forward)
		} else {
			var err error
			if f, err = fastforward.NewForward(args, fastforward.Opts{}); err != nil {
				fatal(fmt.Errorf("C14 configured forward: NewForward: %w", err))
			}
		}
		behav := map[int]string{}
		var srvDesc []string
		for _, s := range srvs {
			behav[s.id] = behaviours14[s.behave.Load()]
			srvDesc = append(srvDesc, fmt.Sprintf("%d:%s+%s(udp %s, tcp %s, socks5 %s)", s.id, behav[s.id], time.Duration(s.delayNs.Load()), s.udpAddr, s.tcpAddr, s.sockAddr))
		}
		r.Count("configured:" + family)
		r.Count("configured-via:" + via)

		caseStart := time.Now()
		queries := 2
		for qi := 0; qi < queries; qi++ {
			if time.Since(caseStart) > 3*time.Second {
				// idle connections are closed after >= 5 s and a query on a connection that is just being closed is
				// legitimately sent again on a fresh one: do not let a case come near that
				r.Count("configured:case-cut-short-on-a-slow-machine")
				break
			}
			// ---- the list in use: all entries, or a tag subset in random order
			use := make([]int, n)
			for i := range use {
				use[i] = i
			}
			var exec sequence.Executable = f
			subsetStr := "-"
			var tagged []int
			for i, e := range ents {
				if e.tag != "" {
					tagged = append(tagged, i)
				}
			}
			if len(tagged) > 0 && r.Rng.Intn(2) == 0 {
				k := 1 + r.Rng.Intn(len(tagged))
				use = nil
				var ts, is []string
				for _, j := range r.Rng.Perm(len(tagged))[:k] {
					use = append(use, tagged[j])
					ts = append(ts, ents[tagged[j]].tag)
					is = append(is, fmt.Sprint(tagged[j]))
				}
				e, err := f.QuickConfigureExec(strings.Join(ts, " "))
				if err != nil {
					fatal(err)
				}
				exec = e.(sequence.Executable)
				subsetStr = strings.Join(is, ".")
			}
			silentInUse := false
			for _, i := range use {
				if behav[ents[i].target] == "never" {
					silentInUse = true
				}
			}
			budget := 4 * time.Second
			if silentInUse {
				budget = 150 * time.Millisecond // a call that has to wait for a silent server can only end with its context
			}
			qname := fmt.Sprintf("c14cfg-%d-%d.example.", ci, qi)
			q := new(dns.Msg)
			q.SetQuestion(qname, dns.TypeA)
			q.Id = uint16(r.Rng.Intn(65536))
			if r.Rng.Intn(2) == 0 {
				q.SetEdns0(1232, false)
			}
			qCtx := query_context.NewContext(q)
			_, priorStr := prior14(r, q, qCtx)
			desc := map[string]any{"config": conf, "built_via": via, "entry_leads_to_server": strings.Join(targets, ","), "tag_subset_entries": subsetStr,
				"servers(id:behaviour+delay(addresses))": strings.Join(srvDesc, " "), "qname": qname,
				"response_already_in_the_context_before_the_call(rcode:origin)": priorStr}
			meter := startStallMeter()
			ctx, cancel := context.WithTimeout(context.Background(), budget)
			t0 := time.Now()
			err := exec.Exec(ctx, qCtx)
			took := time.Since(t0)
			cancel()
			// the helpers are detached from the call and have 5 s each: wait (event-driven) until c queries were seen
			var obs map[int]int
			total := 0
			limit := time.NewTimer(5500*time.Millisecond - took)
		wait:
			for {
				if obs, total = hub.snapshot(qname); total >= c {
					break
				}
				select {
				case <-hub.wake:
				case <-time.After(20 * time.Millisecond):
				case <-limit.C:
					obs, total = hub.snapshot(qname)
					break wait
				}
			}
			limit.Stop()
			seenAfter := time.Since(t0)
			stall := meter.Stop()
			var obsList []int
			for id, k := range obs {
				for j := 0; j < k; j++ {
					obsList = append(obsList, id)
				}
			}
			sort.Ints(obsList)
			obsStr := strings.Trim(strings.ReplaceAll(fmt.Sprint(obsList), " ", "."), "[]")
			if obsStr == "" {
				obsStr = "none"
			}
			desc["servers_that_received_the_query"] = obsStr
			// ---- "sent to c cyclically consecutive positions of U starting at a random one (wrapping around a shorter list)"
			rStart := -1
			for cand := 0; cand < len(use) && rStart < 0; cand++ {
				var exp []int
				for i := 0; i < c; i++ {
					exp = append(exp, ents[use[(cand+i)%len(use)]].target)
				}
				sort.Ints(exp)
				if fmt.Sprint(exp) == fmt.Sprint(obsList) {
					rStart = cand
				}
			}
			line := func(rs int) {
				r.Line(fmt.Sprintf("cfg %s %s %d %d", strings.Join(targets, "."), subsetStr, conc, rs), "servers="+obsStr)
				r.Eval(fmt.Sprintf("cfg/%d/%d", ci, qi), len(use) > 1)
				r.Trace()
			}
			if rStart < 0 && (seenAfter > 800*time.Millisecond || stall > 300*time.Millisecond) {
				// an upstream that waits for a reply over UDP sends its query again every second: only what was seen
				// well within the first second is one datagram / frame per helper
				r.Count("configured:observation-dropped-machine-stalled")
				continue
			}
			if rStart < 0 {
				r.Fail("a forward built from plugin arguments did not send the query to the servers of c cyclically consecutive positions of its configured upstream list (some configured position is not the upstream its entry describes)", desc)
				line(0)
				continue
			}
			line(rStart)
			// ---- whose answer came back
			contacted := map[int]bool{}
			anyGood, anySilent, anyGarbage := false, false, false
			for i := 0; i < c; i++ {
				id := ents[use[(rStart+i)%len(use)]].target
				contacted[id] = true
				switch behav[id] {
				case "g", "x":
					anyGood = true
				case "never":
					anySilent = true
				case "u":
					anyGarbage = true
				}
			}
			out := ""
			switch {
			case err != nil && (errors.Is(err, context.DeadlineExceeded) || errors.Is(err, context.Canceled)):
				out = "errCtx"
				if anyGood || !anySilent {
					// every server that had to be waited for answers within 25 ms. Only the 4 s budget is asserted
					// (the short one exists for calls that must wait for a silent server; the statement allows the context's error)
					if silentInUse || stall > time.Second {
						r.Count("configured:context-ended-early-not-asserted")
					} else {
						desc["result"], desc["took"] = "context error", took.String()
						r.Fail("every queried server that matters answered at once, yet the call ended with its context's error: a good / last answer was lost", desc)
					}
				}
			case err != nil:
				out = "errAll"
				if anyGood || anySilent || !anyGarbage {
					desc["result"] = "error: " + err.Error()
					r.Fail("the call failed although no queried exchange that could have been the last to finish failed (a good answer was masked, or an exchange was still pending)", desc)
				}
			default:
				rr := qCtx.R()
				from := fromOf14(rr)
				out = fmt.Sprintf("reply:%d:%d", rr.Rcode, from)
				desc["result"] = out
				wantRc := map[string]int{"g": dns.RcodeSuccess, "x": dns.RcodeNameError, "b": dns.RcodeServerFailure, "f": dns.RcodeRefused}
				rc, replies := wantRc[behav[from]]
				switch {
				case !contacted[from] || !replies || rc != rr.Rcode:
					r.Fail("the reply is not the answer of one of the servers the query was sent to", desc)
				case anyGood && rr.Rcode != dns.RcodeSuccess && rr.Rcode != dns.RcodeNameError:
					r.Fail("a queried upstream answered NOERROR / NXDOMAIN but the call returned another upstream's failure", desc)
				case !anyGood && anySilent:
					r.Fail("no NOERROR / NXDOMAIN reply arrived and a queried exchange had not finished, yet the call returned a reply", desc)
				}
				if rr.Id != q.Id || len(rr.Question) != 1 || rr.Question[0] != q.Question[0] {
					r.Fail("the reply does not carry the id and question of the query", desc)
				}
			}
			r.Count("configured-result:" + strings.SplitN(out, ":", 2)[0])
		}
		_ = f.Close()
	}
}
