//go:build pC04 || pall

package main

import (
	"context"
	"fmt"
	"net"
	"runtime"
	"strings"
	"sync"
	"sync/atomic"
	"time"

	"github.com/IrineSistiana/mosdns/v5/pkg/query_context"
	"github.com/IrineSistiana/mosdns/v5/plugin/executable/cache"
	"github.com/IrineSistiana/mosdns/v5/plugin/executable/sequence"
	"github.com/miekg/dns"
)

// C04, bursts: several clients at one real cache plugin around the expiry of
// entries. A round holds a handful of questions whose entries run out (short
// lifetimes set through VerifInject, or real 1 s TTLs stored through Exec and
// waited for); 2..32 clients then ask each of them at the same moment (a spin
// barrier in front of every question, or free running), the upstream answering
// or being down; after that other questions are stored and asked again,
// sequentially or by all clients at once, under varying GOMAXPROCS.
//
// Every answer the fake upstream produces carries the question it was produced
// for. Oracle (the property's, independent of timing): whatever Exec hands to a
// client - fresh, from the cache, or lazily - was produced for the question
// this client asked. The store / hit events of a round are replayed on the
// model's trace acceptor (all stores first: the acceptor never forgets a store,
// so the order of concurrent events does not matter to it).

const burstStamp04 = "c04-burst-for="

type burstLog04 struct {
	mu     sync.Mutex
	stores []string
}

func (l *burstLog04) store(q q04, serial int) {
	l.mu.Lock()
	l.stores = append(l.stores, fmt.Sprintf("S 0 %s %d", identity04(q), serial))
	l.mu.Unlock()
}

type burst04 struct {
	c      *cache.Cache
	serial atomic.Int64
	down   atomic.Bool   // the upstream gives no answer
	ttl    atomic.Uint32 // TTL of the answers the upstream produces
}

func burstAnswer04(q *dns.Msg, serial int, ttl uint32) *dns.Msg {
	m := new(dns.Msg)
	m.SetReply(q)
	name := q.Question[0].Name
	m.Answer = append(m.Answer,
		&dns.A{Hdr: dns.RR_Header{Name: name, Rrtype: dns.TypeA, Class: dns.ClassINET, Ttl: ttl}, A: net.IPv4(10, byte(serial>>16), byte(serial>>8), byte(serial))},
		&dns.TXT{Hdr: dns.RR_Header{Name: name, Rrtype: dns.TypeTXT, Class: dns.ClassINET, Ttl: ttl}, Txt: []string{burstStamp04 + identity04(q04FromMsg(q))}})
	return m
}

// burstStampOf returns the question an answer was produced for, and its number.
func burstStampOf(r *dns.Msg) (ident string, serial int, ok bool) {
	for _, rr := range r.Answer {
		if t, isTxt := rr.(*dns.TXT); isTxt && len(t.Txt) == 1 && strings.HasPrefix(t.Txt[0], burstStamp04) {
			return strings.TrimPrefix(t.Txt[0], burstStamp04), serial04(r), true
		}
	}
	return "", 0, false
}

type burstRes04 struct {
	q        q04
	answered bool
	fresh    bool // produced by the upstream for this very call
	ident    string
	serial   int
	phase    string
}

// ctx builds the context a client's query arrives in.
func burstCtx04(q q04) *query_context.Context {
	qCtx := query_context.NewContext(q.msg())
	if q.do { // NewContext terminates the client's EDNS0; a plugin in front of cache may set DO again.
		qCtx.QOpt().SetDo()
	}
	return qCtx
}

func (b *burst04) ask(q q04, l *burstLog04, phase string) burstRes04 {
	qCtx := burstCtx04(q)
	own := 0
	node := &sequence.ChainNode{E: sequence.ExecutableFunc(func(_ context.Context, qc *query_context.Context) error {
		// also runs on a Copy() in the plugin's lazy-update goroutine
		if qc.R() != nil || b.down.Load() {
			return nil
		}
		s := int(b.serial.Add(1))
		l.store(q04FromMsg(qc.Q()), s)
		if qc == qCtx {
			own = s
		}
		qc.SetResponse(burstAnswer04(qc.Q(), s, b.ttl.Load()))
		return nil
	})}
	res := burstRes04{q: q, phase: phase}
	if err := b.c.Exec(context.Background(), qCtx, sequence.NewChainWalker([]*sequence.ChainNode{node}, nil)); err != nil {
		return res
	}
	resp := qCtx.R()
	if resp == nil {
		return res
	}
	res.ident, res.serial, res.answered = burstStampOf(resp)
	res.fresh = res.answered && own != 0 && res.serial == own
	return res
}

// barrier04 lets n goroutines pass together, as tightly as the scheduler allows.
type barrier04 struct {
	n     int32
	yield bool
	slots []atomic.Int32
}

func (b *barrier04) wait(i int) {
	b.slots[i].Add(1)
	for spins := 0; b.slots[i].Load() < b.n; spins++ {
		if b.yield || spins&255 == 255 {
			runtime.Gosched()
		}
		if spins > 1<<24 { // a client that died must not hang the others
			return
		}
	}
}

type burstCfg04 struct {
	procs, clients, popular, follow int
	perKeyBarrier                   bool
	upstreamDown                    bool
	concurrentFollow                bool
	lazy                            bool
	realTTL                         bool
	early                           time.Duration // the burst starts this long before the last entry runs out (0: after)
}

func (c burstCfg04) String() string {
	return fmt.Sprintf("gomaxprocs=%d clients=%d expiring-questions=%d follow-up-questions=%d barrier-per-question=%v upstream-down-during-burst=%v follow-up-concurrent=%v lazy_cache_ttl=%v real-1s-ttl=%v burst-starts-before-expiry=%v",
		c.procs, c.clients, c.popular, c.follow, c.perKeyBarrier, c.upstreamDown, c.concurrentFollow, c.lazy, c.realTTL, c.early)
}

// burstQuestions04 returns n pairwise different cacheable questions; neighbours often differ in one attribute only.
func (r *Run) burstQuestions04(tag string, n int) []q04 {
	out := make([]q04, 0, n)
	seen := map[string]bool{}
	types := []uint16{1, 28, 5, 15, 16, 257, 65, 2, 255}
	for i := 0; len(out) < n; i++ {
		q := q04{nq: 1, qtype: types[r.Rng.Intn(len(types))], qclass: 1, name: fmt.Sprintf("q%d.%s.burst.example.", i/3, tag)}
		if r.Rng.Intn(5) == 0 {
			q.qclass = []uint16{3, 4, 255, 257}[r.Rng.Intn(4)]
		}
		if r.Rng.Intn(8) == 0 {
			q.qtype = r.U16()
		}
		q.ad, q.cd, q.do = r.Rng.Intn(4) == 0, r.Rng.Intn(4) == 0, r.Rng.Intn(3) == 0
		q.hasOpt = q.do || r.Rng.Intn(2) == 0
		if id := identity04(q); !seen[id] {
			seen[id] = true
			out = append(out, q)
		}
	}
	return out
}

func runBursts04(r *Run) {
	prev := runtime.GOMAXPROCS(0)
	defer runtime.GOMAXPROCS(prev)
	ncpu := runtime.NumCPU()
	procChoices := []int{2, 3, 4, 8, ncpu, ncpu, 2 * ncpu}
	rounds := r.N(500, 5000)
	realRounds := r.N(1, 5)
	chainLines := r.N(30, 150)
	deadline := time.Now().Add(time.Duration(r.N(8, 90)) * time.Second)

	var b *burst04
	fresh := func(lazy bool) {
		if b != nil {
			b.c.Close()
		}
		args := &cache.Args{Size: 1 << 16}
		if lazy {
			args.LazyCacheTTL = 3600
		}
		b = &burst04{c: cache.NewCache(args, cache.Opts{})}
		b.ttl.Store(3600)
	}
	reported := 0
	modelSaw := false // one failing round is enough for the model side
	served, hits, lazyRounds := 0, 0, 0
	procs := prev
	lazy := false
	for rd := 0; rd < rounds+realRounds; rd++ {
		if time.Now().After(deadline) {
			r.Count("burst-rounds-skipped-time-budget")
			continue
		}
		real := rd < realRounds
		if rd%25 == 0 || real {
			procs = procChoices[r.Rng.Intn(len(procChoices))]
			if procs < 2 {
				procs = 2
			}
			runtime.GOMAXPROCS(procs)
			lazy = !real && r.Rng.Intn(5) == 0
			fresh(lazy)
		}
		cfg := burstCfg04{
			procs: procs, clients: []int{2, 2, 3, 4, 6, 8, 8, 16, 32}[r.Rng.Intn(9)], popular: 1 + r.Rng.Intn(12),
			perKeyBarrier: r.Rng.Intn(3) != 0, upstreamDown: r.Rng.Intn(2) == 0, concurrentFollow: r.Rng.Intn(2) == 0, lazy: lazy, realTTL: real,
		}
		if r.Rng.Intn(4) == 0 {
			cfg.early = time.Duration(20+r.Rng.Intn(100)) * time.Microsecond
		}
		if real {
			cfg.popular = r.N(150, 600)
			cfg.clients = []int{4, 8, 16}[r.Rng.Intn(3)]
			cfg.early = 0
		}
		cfg.follow = 2*cfg.popular + r.Rng.Intn(2*cfg.popular+4)
		if real {
			cfg.follow = cfg.popular + r.Rng.Intn(cfg.popular)
		}
		if lazy {
			lazyRounds++
		}
		tag := fmt.Sprintf("r%d", rd)
		popular := r.burstQuestions04(tag, cfg.popular)
		follow := r.burstQuestions04(tag+"f", cfg.follow)
		rotate := make([]int, cfg.clients)
		for i := range rotate {
			if !cfg.perKeyBarrier && r.Rng.Intn(2) == 0 {
				rotate[i] = r.Rng.Intn(cfg.popular)
			}
		}
		l := &burstLog04{}
		base := runtime.NumGoroutine()
		var results []burstRes04

		// 1. entries that are about to run out
		var lastExp time.Time
		b.down.Store(false)
		if real {
			b.ttl.Store(1)
			for _, q := range popular {
				results = append(results, b.ask(q, l, "store (TTL 1 s)"))
			}
			b.ttl.Store(3600)
			lastExp = time.Now().Add(time.Second)
		} else {
			for _, q := range popular {
				qm := burstCtx04(q).Q()
				s := int(b.serial.Add(1))
				now := time.Now()
				life := time.Duration(100+r.Rng.Intn(500)) * time.Microsecond
				msgExp, cacheExp := now.Add(life), now.Add(life)
				if lazy {
					switch r.Rng.Intn(3) {
					case 0:
						msgExp = now.Add(life / 2) // lazily served for a while, then gone
					case 1:
						msgExp, cacheExp = now.Add(life), now.Add(time.Hour) // stays, served lazily
					}
				}
				l.store(q04FromMsg(qm), s)
				b.c.VerifInject(cache.VerifGetMsgKey(qm), burstAnswer04(qm, s, 3600), now, msgExp, cacheExp)
				if cacheExp.After(lastExp) && cacheExp.Before(now.Add(time.Minute)) {
					lastExp = cacheExp
				}
			}
		}
		for wait := lastExp.Add(-cfg.early); time.Now().Before(wait); {
			if d := time.Until(wait); d > 2*time.Millisecond {
				time.Sleep(d - time.Millisecond)
			} else {
				runtime.Gosched()
			}
		}

		// 2. the burst: every client asks every expiring question
		b.down.Store(cfg.upstreamDown)
		bar := &barrier04{n: int32(cfg.clients), yield: cfg.clients > procs, slots: make([]atomic.Int32, cfg.popular+1)}
		per := make([][]burstRes04, cfg.clients)
		panics := atomic.Int32{}
		runClients := func(f func(w int)) {
			var wg sync.WaitGroup
			for w := 0; w < cfg.clients; w++ {
				wg.Add(1)
				go func(w int) {
					defer wg.Done()
					defer func() {
						if e := recover(); e != nil {
							panics.Add(1)
						}
					}()
					f(w)
				}(w)
			}
			wg.Wait()
		}
		runClients(func(w int) {
			bar.wait(cfg.popular)
			for i := range popular {
				if cfg.perKeyBarrier {
					bar.wait(i)
				}
				per[w] = append(per[w], b.ask(popular[(i+rotate[w])%cfg.popular], l, "burst"))
			}
		})
		b.down.Store(false)

		// 3. other questions are stored, then everything is asked again
		if cfg.concurrentFollow {
			runClients(func(w int) {
				for i := w; i < len(follow); i += cfg.clients {
					per[w] = append(per[w], b.ask(follow[i], l, "follow-up store"))
				}
			})
			runClients(func(w int) {
				for i := range follow {
					per[w] = append(per[w], b.ask(follow[(i+w)%len(follow)], l, "follow-up lookup"))
				}
				for i := range popular {
					per[w] = append(per[w], b.ask(popular[(i+w)%len(popular)], l, "lookup after the burst"))
				}
			})
		} else {
			for _, q := range follow {
				results = append(results, b.ask(q, l, "follow-up store"))
			}
			for _, q := range follow {
				results = append(results, b.ask(q, l, "follow-up lookup"))
			}
			for _, q := range popular {
				results = append(results, b.ask(q, l, "lookup after the burst"))
			}
		}
		for _, p := range per {
			results = append(results, p...)
		}
		if lazy { // lazy updates still walking the chain
			for dl := time.Now().Add(5 * time.Second); time.Now().Before(dl) && runtime.NumGoroutine() > base; {
				time.Sleep(50 * time.Microsecond)
			}
		}
		if n := panics.Load(); n > 0 {
			r.meta.Dist["burst-client-panicked"] += int(n)
		}

		// 4. the oracle, and the round's events for the model
		var hitEvs []string
		var bad *burstRes04
		for i := range results {
			x := &results[i]
			if !x.answered {
				continue
			}
			served++
			if !x.fresh {
				hits++
				if len(hitEvs) < 400 || (bad == nil && x.ident != identity04(x.q)) {
					hitEvs = append(hitEvs, fmt.Sprintf("H 0 %s %d", identity04(x.q), x.serial))
				}
			}
			if x.ident != identity04(x.q) && bad == nil {
				bad = x
			}
		}
		r.Eval("burst:"+tag+":"+cfg.String(), true)
		r.Count("burst-round")
		if real {
			r.Count("burst-round:real-1s-ttl")
		}
		if bad != nil {
			r.Count("burst-round:foreign-answer")
		}
		if bad != nil && reported < 3 {
			reported++
			r.Fail("a query was served an answer that was produced and cached for a different question (several clients asking one question at the moment its entry expired, then other questions stored and asked)", map[string]any{
				"served_to": bad.q.String(), "served_to_op": "key " + identity04(bad.q), "produced_for_op": "key " + bad.ident, "answer_serial": bad.serial,
				"step": bad.phase, "served_from_cache": !bad.fresh, "round": rd, "round_config": cfg.String(),
				"with_expiring_questions": q04Strings(popular, 4), "with_follow_up_questions": q04Strings(follow, 4),
			})
		}
		l.mu.Lock()
		stores := l.stores
		l.mu.Unlock()
		if (chainLines > 0 && len(stores) <= 600) || (bad != nil && reported <= 3 && !modelSaw) {
			modelSaw = modelSaw || bad != nil
			chainLines--
			r.Line("chain "+strings.Join(append(append([]string{}, stores...), hitEvs...), " "), "accept")
			r.Trace()
		}
	}
	b.c.Close()
	r.meta.Dist["burst-answers-checked"] += served
	r.meta.Dist["burst-answers-from-cache"] += hits
	r.meta.Dist["burst-round:lazy_cache_ttl"] += lazyRounds
}

func q04Strings(qs []q04, max int) []string {
	var out []string
	for i, q := range qs {
		if i == max {
			out = append(out, fmt.Sprintf("... (%d in all)", len(qs)))
			break
		}
		out = append(out, q.String())
	}
	return out
}
