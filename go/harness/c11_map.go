//go:build pC11 || pall

package main

import (
	"fmt"
	"os"
	"runtime"
	"sort"
	"strings"
	"sync"
	"time"

	"github.com/IrineSistiana/mosdns/v5/pkg/concurrent_map"
)

// C11 part 5: pkg/concurrent_map.Map driven directly (the store underneath the cache), with RangeDo callbacks
// that answer "set" and "delete" (the cache's own sweep only deletes and its dump only reads).
//
// 5a: sequential histories of Set / Get / Del / TestAndSet / RangeDo / Flush / Len, replayed on the model
//     (`map <size> <ops>`); eviction victims are read back after every Set.
// 5b: forced overlaps: while a RangeDo pass is inside a shard, its callback starts another goroutine's operation on
//     that shard (Set of the key being visited, Set of a new key in a full shard - on every shard -, TestAndSet,
//     Flush) and lingers until that goroutine has had time to queue up on the shard lock. Every shard method being
//     one critical section, the outcome must be that of "pass, then the other operation" or "the other operation,
//     then the pass", per shard. The post-state is read when both have returned and is compared with both orders
//     (by the harness's own sequential reference, and by the model: `maprace` lines list both outcomes per lookup).
//     If the other goroutine is scheduled late it simply runs after the pass: a miss, never a false alarm.
//
// Oracles (property statement): a lookup that begins after both operations returned must not return a value that
// neither order leaves under that key - in the scenarios here that is a value computed from one that a completed
// Set / TestAndSet had overwritten ("not overwritten before the lookup began"), or an entry that a completed Flush
// removed ("not flushed before the lookup began"); Len() must not exceed the configured capacity.

type mop11 struct {
	kind    byte // 's' set, 'g' get, 'd' del, 'f' flush, 'l' len, 'r' range, 't' tas
	k       hkey
	v       int
	victims []hkey
	m, r    int
	act     string // "a<d>" set v+d, "d" delete, "o" delete when the value is odd
}

func (o mop11) String() string {
	switch o.kind {
	case 's':
		var vs []string
		for _, x := range o.victims {
			vs = append(vs, fmt.Sprint(uint64(x)))
		}
		return fmt.Sprintf("s:%d:%d:%s", uint64(o.k), o.v, strings.Join(vs, "."))
	case 'g':
		return fmt.Sprintf("g:%d", uint64(o.k))
	case 'd':
		return fmt.Sprintf("d:%d", uint64(o.k))
	case 'r':
		return fmt.Sprintf("r:%d:%d:%s", o.m, o.r, o.act)
	case 't':
		return fmt.Sprintf("t:%d:%s", uint64(o.k), o.act)
	}
	return string(o.kind)
}

// answer11 is the callback's decision for one entry: (new value, set, delete)
func answer11(act string, v int) (int, bool, bool) {
	switch {
	case act == "d":
		return 0, false, true
	case act == "o":
		return 0, false, v%2 == 1
	default:
		d := 0
		fmt.Sscanf(act[1:], "%d", &d)
		return v + d, true, false
	}
}

// mapSim is the harness's sequential reference of concurrent_map.Map (what the Lean model computes as well)
type mapSim struct {
	m        map[hkey]int
	perShard int
}

func (s *mapSim) shardLen(k hkey) int {
	n := 0
	for x := range s.m {
		if x.Sum()%64 == k.Sum()%64 {
			n++
		}
	}
	return n
}

func (s *mapSim) apply(o mop11) string {
	switch o.kind {
	case 's':
		if s.perShard > 0 && s.shardLen(o.k)+1 > s.perShard {
			for _, x := range o.victims {
				if _, ok := s.m[x]; ok && s.shardLen(o.k)+1 > s.perShard {
					delete(s.m, x)
				}
			}
		}
		s.m[o.k] = o.v
	case 'g':
		if v, ok := s.m[o.k]; ok {
			return fmt.Sprintf("hit:%d:0", v)
		}
		return "miss"
	case 'd':
		delete(s.m, o.k)
	case 'f':
		s.m = map[hkey]int{}
	case 'l':
		return fmt.Sprintf("len:%d", len(s.m))
	case 'r':
		n := len(s.m)
		for k, v := range s.m {
			if int(uint64(k)%uint64(o.m)) != o.r {
				continue
			}
			nv, set, del := answer11(o.act, v)
			if set {
				s.m[k] = nv
			} else if del {
				delete(s.m, k)
			}
		}
		return fmt.Sprintf("len:%d", n)
	case 't':
		if v, ok := s.m[o.k]; ok {
			nv, set, del := answer11(o.act, v)
			if set {
				s.m[o.k] = nv
			} else if del {
				delete(s.m, o.k)
			}
		}
	}
	return "-"
}

func (s *mapSim) clone() *mapSim {
	c := &mapSim{m: map[hkey]int{}, perShard: s.perShard}
	for k, v := range s.m {
		c.m[k] = v
	}
	return c
}

type map11 = concurrent_map.Map[hkey, int]

func c11MapKeys(m *map11) map[hkey]int {
	out := map[hkey]int{}
	_ = m.RangeDo(func(k hkey, v int) (int, bool, bool, error) { out[k] = v; return 0, false, false, nil })
	return out
}

// c11MapDo runs one operation on the real map; pass callbacks may be wrapped by `around` (5b)
func c11MapDo(m *map11, o mop11, around func(k hkey)) string {
	switch o.kind {
	case 's':
		m.Set(o.k, o.v)
	case 'g':
		if v, ok := m.Get(o.k); ok {
			return fmt.Sprintf("hit:%d:0", v)
		}
		return "miss"
	case 'd':
		m.Del(o.k)
	case 'f':
		m.Flush()
	case 'l':
		return fmt.Sprintf("len:%d", m.Len())
	case 'r':
		n := 0
		_ = m.RangeDo(func(k hkey, v int) (int, bool, bool, error) {
			n++
			if around != nil {
				around(k)
			}
			if int(uint64(k)%uint64(o.m)) != o.r {
				return 0, false, false, nil
			}
			nv, set, del := answer11(o.act, v)
			return nv, set, del, nil
		})
		return fmt.Sprintf("len:%d", n)
	case 't':
		m.TestAndSet(o.k, func(v int, ok bool) (int, bool, bool) {
			if !ok {
				return 0, false, false // a missing key is left alone
			}
			return answer11(o.act, v)
		})
	}
	return "-"
}

func joinOps11(ops []mop11) string {
	if len(ops) == 0 {
		return "-"
	}
	ss := make([]string, len(ops))
	for i, o := range ops {
		ss[i] = o.String()
	}
	return strings.Join(ss, ",")
}

func c11RandAct(r *Run) string {
	switch r.Rng.Intn(6) {
	case 0:
		return "d"
	case 1:
		return "o"
	case 2:
		return "a0" // re-stores the value it saw
	default:
		return fmt.Sprintf("a%d", []int{1, 100, 1000}[r.Rng.Intn(3)])
	}
}

func c11MapParts(r *Run) {
	raceOnly := os.Getenv("VERIF_RACE") == "1" // second pass under the race detector: the overlaps only
	// ------------------------------------------------------------------ 5a
	histories := r.N(16, 160)
	if raceOnly {
		histories = 0
	}
	for hi := 0; hi < histories; hi++ {
		size := []int{0, 64, 100, 128, 200, 640, 63}[hi%7]
		perShard := size / 64
		capacity := 64 * perShard
		m := concurrent_map.NewMapCache[hkey, int](size)
		ref := &mapSim{m: map[hkey]int{}, perShard: perShard}
		flushedAt := map[hkey]int{} // value a key held when it was last flushed (and not set since)
		hot := uint64(r.Rng.Intn(64))
		keys := map[hkey]int{}
		var ops []mop11
		var outs []string
		steps := 40 + r.Rng.Intn(120)
		seq := 0
		for st := 0; st < steps; st++ {
			var k hkey
			if r.Rng.Intn(4) > 0 {
				k = hkey(hot*1000 + uint64(r.Rng.Intn(3*perShard+4)))
			} else {
				k = hkey(uint64(r.Rng.Intn(64))*1000 + uint64(r.Rng.Intn(3)))
			}
			if len(keys) > 0 && r.Rng.Intn(2) == 0 {
				for kk := range keys {
					k = kk
					break
				}
			}
			var o mop11
			switch x := r.Rng.Intn(100); {
			case x < 40:
				seq++
				o = mop11{kind: 's', k: k, v: 2*seq + r.Rng.Intn(2)}
			case x < 65:
				o = mop11{kind: 'g', k: k}
			case x < 70:
				o = mop11{kind: 'd', k: k}
			case x < 80:
				mod := 1 + r.Rng.Intn(3)
				o = mop11{kind: 'r', m: mod, r: r.Rng.Intn(mod), act: c11RandAct(r)}
			case x < 88:
				o = mop11{kind: 't', k: k, act: c11RandAct(r)}
			case x < 91:
				o = mop11{kind: 'f'}
			default:
				o = mop11{kind: 'l'}
			}
			out := c11MapDo(m, o, nil)
			if o.kind == 's' {
				after := c11MapKeys(m)
				for old := range keys {
					if _, still := after[old]; !still && old != k {
						o.victims = append(o.victims, old)
					}
				}
				sort.Slice(o.victims, func(i, j int) bool { return o.victims[i] < o.victims[j] })
				if _, had := keys[k]; had && len(o.victims) == 0 && perShard > 0 && ref.shardLen(k)+1 > perShard {
					o.victims = []hkey{k} // overwriting a key in a full shard evicts one entry first: nothing else disappeared, so it was the key itself
				}
				keys = after
				delete(flushedAt, k)
			}
			if o.kind == 'f' {
				for kk, v := range ref.m {
					flushedAt[kk] = v
				}
			}
			want := ref.apply(o)
			if o.kind != 's' {
				keys = c11MapKeys(m)
			}
			ops = append(ops, o)
			outs = append(outs, out)
			if o.kind == 'g' && out != "miss" && out != want {
				desc := map[string]any{"size": size, "key": uint64(k), "lookup": out, "stored_under_the_key": want, "history": joinOps11(ops)}
				if v, was := flushedAt[k]; was && want == "miss" && out == fmt.Sprintf("hit:%d:0", v) {
					r.Fail("a lookup in the shard map returned a value that had been flushed before the lookup began", desc)
				} else if want != "miss" {
					r.Fail("a lookup in the shard map returned a value other than the one most recently stored under that key (it had been overwritten before the lookup began)", desc)
				}
			}
			if n := m.Len(); capacity > 0 && n > capacity {
				r.Fail("the shard map holds more entries than its capacity", map[string]any{"size": size, "capacity": capacity, "len": n, "history": joinOps11(ops)})
				break
			}
		}
		r.Line(fmt.Sprintf("map %d %s", size, joinOps11(ops)), strings.Join(outs, ";"))
		r.Eval(fmt.Sprintf("map-seq/%d", hi), true)
		r.Count("map-sequential-histories")
		r.Trace()
	}

	// ------------------------------------------------------------------ 5b
	rounds := r.N(30, 300)
	linger := 300 * time.Microsecond
	for rd := 0; rd < rounds; rd++ {
		kind := []string{"set-visited-key", "flush", "insert-into-full-shards", "testandset-visited-key", "set-visited-key", "insert-into-full-shards", "sweep-vs-set"}[rd%7]
		c := 1 + r.Rng.Intn(3)
		size := 64 * c
		if kind != "insert-into-full-shards" && r.Rng.Intn(3) == 0 {
			size = 0 // unlimited
		}
		perShard := size / 64
		m := concurrent_map.NewMapCache[hkey, int](size)
		ref := &mapSim{m: map[hkey]int{}, perShard: perShard}
		var pre, comps, post []mop11
		target := uint64(r.Rng.Intn(64))
		tk := hkey(target*1000 + uint64(r.Rng.Intn(5)))
		a0 := 1 + 2*r.Rng.Intn(50) // odd
		d := []int{0, 100, 1000, 1}[r.Rng.Intn(4)]
		pass := mop11{kind: 'r', m: 1, r: 0, act: fmt.Sprintf("a%d", d)}
		trigger := map[uint64][]mop11{} // shard -> operations another goroutine starts when the pass first visits that shard
		switch kind {
		case "insert-into-full-shards":
			for sh := uint64(0); sh < 64; sh++ {
				for j := 0; j < c; j++ {
					pre = append(pre, mop11{kind: 's', k: hkey(sh*1000 + uint64(j)), v: 10 + 2*int(sh) + 1000*j})
				}
			}
			for sh := uint64(0); sh < 64; sh++ {
				o := mop11{kind: 's', k: hkey(sh*1000 + uint64(c+r.Rng.Intn(3))), v: 5000 + int(sh)}
				trigger[sh] = []mop11{o}
			}
		default:
			pre = append(pre, mop11{kind: 's', k: tk, v: a0})
			inShard := map[uint64]int{target: 1}
			for j, n := 0, r.Rng.Intn(2*c+1); j < n; j++ { // other keys, in the target shard and elsewhere; no shard is overfilled (no eviction before the overlap)
				sh := target
				if r.Rng.Intn(2) == 0 {
					sh = uint64(r.Rng.Intn(64))
				}
				if perShard > 0 && inShard[sh]+1 > perShard {
					continue
				}
				inShard[sh]++
				pre = append(pre, mop11{kind: 's', k: hkey(sh*1000 + 10 + uint64(j)), v: 300 + 2*j})
			}
			switch kind {
			case "set-visited-key":
				trigger[target] = []mop11{{kind: 's', k: tk, v: 2 * (100 + r.Rng.Intn(50))}}
			case "flush":
				trigger[target] = []mop11{{kind: 'f'}}
			case "testandset-visited-key":
				trigger[target] = []mop11{{kind: 't', k: tk, act: fmt.Sprintf("a%d", 7+r.Rng.Intn(3))}}
			case "sweep-vs-set": // a pass that deletes (as the expiry sweep does) against a store of the visited key: losing the stored value is tolerated by the property (a miss), so this is compared with the model only
				pass.act = []string{"d", "o"}[r.Rng.Intn(2)]
				trigger[target] = []mop11{{kind: 's', k: tk, v: 2 * (100 + r.Rng.Intn(50))}}
			}
		}
		if r.Rng.Intn(3) == 0 && kind != "insert-into-full-shards" {
			pass.m, pass.r = 2, int(uint64(tk)%2) // a callback that modifies only some of the entries (the visited key among them)
		}
		for _, o := range pre {
			c11MapDo(m, o, nil)
			ref.apply(o)
		}
		before := c11MapKeys(m)
		// the overlap
		var wg sync.WaitGroup
		fired := map[uint64]bool{}
		out := c11MapDo(m, pass, func(k hkey) {
			sh := k.Sum() % 64
			if fired[sh] || len(trigger[sh]) == 0 {
				return
			}
			fired[sh] = true
			started := make(chan struct{})
			ops := trigger[sh]
			wg.Add(1)
			go func() {
				defer wg.Done()
				close(started)
				for _, o := range ops {
					c11MapDo(m, o, nil)
				}
			}()
			<-started
			for t0 := time.Now(); time.Since(t0) < linger; { // give it time to reach the shard lock and queue up there
				runtime.Gosched()
			}
		})
		_ = out
		done := make(chan struct{})
		go func() { wg.Wait(); close(done) }()
		select {
		case <-done:
		case <-time.After(60 * time.Second):
			r.Note("C11 part 5b: an operation started during a RangeDo pass did not return within 60 s")
			continue
		}
		// both returned: read the post-state
		after := c11MapKeys(m)
		for sh := uint64(0); sh < 64; sh++ {
			if !fired[sh] {
				continue
			}
			for i := range trigger[sh] {
				o := &trigger[sh][i]
				if o.kind == 's' { // which entry did its eviction choose
					for old := range before {
						if _, still := after[old]; !still && old != o.k && old.Sum()%64 == sh {
							o.victims = append(o.victims, old)
						}
					}
					sort.Slice(o.victims, func(i, j int) bool { return o.victims[i] < o.victims[j] })
					inShard := 0
					for old := range before {
						if old.Sum()%64 == sh {
							inShard++
						}
					}
					if _, had := before[o.k]; had && len(o.victims) == 0 && perShard > 0 && inShard+1 > perShard {
						o.victims = []hkey{o.k} // overwriting a key in a full shard evicts one entry first: nothing else disappeared, so it was the key itself
					}
				}
				comps = append(comps, *o)
			}
		}
		probe := map[hkey]bool{}
		for k := range before {
			probe[k] = true
		}
		for _, o := range comps {
			if o.kind == 's' || o.kind == 't' {
				probe[o.k] = true
			}
		}
		var pk []hkey
		for k := range probe {
			pk = append(pk, k)
		}
		sort.Slice(pk, func(i, j int) bool { return pk[i] < pk[j] })
		for _, k := range pk {
			post = append(post, mop11{kind: 'g', k: k})
		}
		post = append(post, mop11{kind: 'l'})
		// the two orders on the reference
		ra, rb := ref.clone(), ref.clone()
		ra.apply(pass)
		for _, o := range comps {
			ra.apply(o)
			rb.apply(o)
		}
		rb.apply(pass)
		var outs []string
		desc := func(extra map[string]any) map[string]any {
			extra["scenario"] = kind
			extra["size"] = size
			extra["before"] = joinOps11(pre)
			extra["pass_RangeDo"] = pass.String()
			extra["started_by_the_callback_while_the_pass_was_in_the_shard"] = joinOps11(comps)
			return extra
		}
		failed := false
		for _, o := range post {
			got := c11MapDo(m, o, nil)
			wa, wb := ra.apply(o), rb.apply(o)
			outs = append(outs, got)
			if got == wa || got == wb || failed {
				continue
			}
			switch {
			case o.kind == 'l':
				var n int
				fmt.Sscanf(got, "len:%d", &n)
				if size > 0 && n > size {
					failed = true
					r.Fail("the shard map holds more entries than its capacity after a store into a full shard overlapped a RangeDo pass that sets values", desc(map[string]any{"len": n, "capacity": size}))
				}
			case got == "miss":
				// a lost entry: the property allows a lookup to return nothing
			case kind == "flush":
				failed = true
				r.Fail("a lookup returned an entry that had been flushed before the lookup began (Flush had returned; the RangeDo pass that overlapped it put the entry back)", desc(map[string]any{"key": uint64(o.k), "lookup": got, "pass_then_flush": wa, "flush_then_pass": wb}))
			case (kind == "set-visited-key" || kind == "testandset-visited-key") && o.k == tk:
				failed = true
				r.Fail("a lookup returned a value computed from one that had been overwritten before the lookup began (the store had returned; the RangeDo pass that overlapped it wrote over it with a value derived from the older one): neither order of the two operations leaves it", desc(map[string]any{"key": uint64(o.k), "lookup": got, "pass_then_store": wa, "store_then_pass": wb}))
			}
		}
		r.Line(fmt.Sprintf("maprace %d %s %s %s %s", size, joinOps11(pre), pass.String(), joinOps11(comps), joinOps11(post)), strings.Join(outs, ";"))
		r.Eval(fmt.Sprintf("map-overlap/%s/%d", kind, rd), len(comps) > 0)
		r.Count("map-overlap-" + kind)
		r.meta.Dist["map-overlap-operations-started-inside-a-pass"] += len(comps)
		r.Trace()
	}
}
