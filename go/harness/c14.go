//go:build pC14 || pall

package main

import (
	"bytes"
	"context"
	"errors"
	"fmt"
	"net"
	"runtime"
	"sort"
	"strings"
	"sync"
	"time"

	"github.com/IrineSistiana/mosdns/v5/pkg/pool"
	"github.com/IrineSistiana/mosdns/v5/pkg/query_context"
	"github.com/IrineSistiana/mosdns/v5/pkg/upstream"
	fastforward "github.com/IrineSistiana/mosdns/v5/plugin/executable/forward"
	"github.com/IrineSistiana/mosdns/v5/plugin/executable/sequence"
	"github.com/miekg/dns"
)

// C14: forward returns the first good answer among the queried upstreams.
//
// In-memory upstreams (verif hook VerifNewForward) with scripted outcomes. Each
// queried upstream blocks until the harness releases it; releases happen one
// after the other, so the order of arrival at the collection loop is the
// scripted one. Every upstream records the bytes it was given - at call time
// and again when it is released (a buffer shared with the caller and released
// early shows up as changed bytes, because released buffers are overwritten).

func init() { props["C14"] = runC14 }

type up14 struct {
	idx     int
	mu      sync.Mutex
	calls   []*upCall14
	started chan *upCall14
}

type upCall14 struct {
	up        *up14
	atCall    []byte
	atRelease []byte
	outcome   string
	gate      chan struct{}
	ctxLimit  time.Duration
	hasLimit  bool
	finished  chan struct{}
	endedBy   string
}

func (u *up14) Close() error { return nil }

func (u *up14) ExchangeContext(ctx context.Context, m []byte) (*[]byte, error) {
	u.mu.Lock()
	c := &upCall14{up: u, atCall: append([]byte(nil), m...), gate: make(chan struct{}), finished: make(chan struct{})}
	if dl, ok := ctx.Deadline(); ok {
		c.hasLimit, c.ctxLimit = true, time.Until(dl)
	}
	u.calls = append(u.calls, c)
	u.mu.Unlock()
	u.started <- c
	defer close(c.finished)
	select {
	case <-c.gate:
		c.endedBy = "released"
	case <-ctx.Done():
		c.endedBy = "context"
		return nil, context.Cause(ctx)
	}
	c.atRelease = append([]byte(nil), m...)
	q := new(dns.Msg)
	if err := q.Unpack(m); err != nil {
		return nil, fmt.Errorf("upstream %d: query does not unpack: %w", u.idx, err)
	}
	mk := func(rcode int) (*[]byte, error) {
		r := new(dns.Msg)
		r.SetRcode(q, rcode)
		if rcode == dns.RcodeSuccess {
			r.Answer = append(r.Answer, &dns.A{Hdr: dns.RR_Header{Name: q.Question[0].Name, Rrtype: dns.TypeA, Class: 1, Ttl: 60}, A: net.IPv4(10, 0, 0, byte(u.idx))})
		} else {
			r.Ns = append(r.Ns, &dns.TXT{Hdr: dns.RR_Header{Name: "from.", Rrtype: dns.TypeTXT, Class: 1, Ttl: 60}, Txt: []string{fmt.Sprint(u.idx)}})
		}
		b, err := r.Pack()
		if err != nil {
			return nil, err
		}
		bp := pool.GetBuf(len(b))
		copy(*bp, b)
		return bp, nil
	}
	switch c.outcome { // set by the harness before the release
	case "g":
		return mk(dns.RcodeSuccess)
	case "x":
		return mk(dns.RcodeNameError)
	case "b":
		return mk(dns.RcodeServerFailure)
	case "f":
		return mk(dns.RcodeRefused)
	case "u": // bytes that do not unpack
		bp := pool.GetBuf(7)
		copy(*bp, []byte{1, 2, 3, 4, 5, 6, 7})
		return bp, nil
	default:
		return nil, errors.New("upstream failed (injected)")
	}
}

// prior14: with probability 1/2 the query context already carries a response when the forward runs - what an earlier
// step of a sequence left there (an earlier forward, a cache / hosts / black_hole step that did not accept).
// It answers the same query (same id and question) and is recognisable: its origin (fromOf14) is 200..203, an origin
// no harness upstream or server has. Returns the slot in the model's notation ("-" or "rcode:origin").
func prior14(r *Run, q *dns.Msg, qCtx *query_context.Context) (*dns.Msg, string) {
	if r.Rng.Intn(2) == 0 {
		return nil, "-"
	}
	k := r.Rng.Intn(4)
	rcode := []int{dns.RcodeSuccess, dns.RcodeSuccess, dns.RcodeServerFailure, dns.RcodeNameError}[k]
	m := new(dns.Msg)
	m.SetRcode(q, rcode)
	if rcode == dns.RcodeSuccess {
		m.Answer = append(m.Answer, &dns.A{Hdr: dns.RR_Header{Name: q.Question[0].Name, Rrtype: dns.TypeA, Class: 1, Ttl: 60}, A: net.IPv4(10, 0, 0, byte(200+k))})
	} else {
		m.Ns = append(m.Ns, &dns.TXT{Hdr: dns.RR_Header{Name: "from.", Rrtype: dns.TypeTXT, Class: 1, Ttl: 60}, Txt: []string{fmt.Sprint(200 + k)}})
	}
	qCtx.SetResponse(m)
	return m, fmt.Sprintf("%d:%d", rcode, 200+k)
}

func slot14(m *dns.Msg) string {
	if m == nil {
		return "-"
	}
	return fmt.Sprintf("%d:%d", m.Rcode, fromOf14(m))
}

func fromOf14(r *dns.Msg) int {
	if r == nil {
		return -1
	}
	for _, rr := range r.Answer {
		if a, ok := rr.(*dns.A); ok {
			return int(a.A.To4()[3])
		}
	}
	for _, rr := range r.Ns {
		if t, ok := rr.(*dns.TXT); ok && len(t.Txt) == 1 {
			n := 0
			fmt.Sscan(t.Txt[0], &n)
			return n
		}
	}
	return -1
}

func runC14(r *Run) {
	undo := poison01c14()
	defer undo()
	outcomes := []string{"g", "x", "b", "f", "e", "u", "never"}
	cases := r.N(150, 1500)
	// A Forward instance serves a session of 1..4 consecutive cases (outcomes, arrival order, tag subset and
	// cancellation drawn anew for each): what a call is owed does not depend on how earlier calls on the instance ended.
	var (
		sessLeft, sessCall, n, conc int
		tags                        []string
		started                     chan *upCall14
		ups                         []*up14
		f                           *fastforward.Forward
	)
	for ci := 0; ci < cases; ci++ {
		if sessLeft == 0 {
			n = 1 + r.Rng.Intn(5)
			conc = []int{-2, 0, 1, 2, 3, 4, 7}[r.Rng.Intn(7)]
			tags = make([]string, n)
			for i := range tags {
				tags[i] = fmt.Sprintf("t%d", i)
			}
			started = make(chan *upCall14, 16)
			ups = make([]*up14, n)
			uis := make([]upstream.Upstream, n)
			for i := 0; i < n; i++ {
				u := &up14{idx: i, started: started}
				ups[i], uis[i] = u, u
			}
			f = fastforward.VerifNewForward(conc, uis, tags)
			sessLeft, sessCall = 1+r.Rng.Intn(4), 0
		}
		sessLeft--
		sessCall++
		c := conc
		if c <= 0 {
			c = 1
		}
		if c > 3 {
			c = 3
		}
		// tag subset?
		subset := []int(nil)
		if r.Rng.Intn(3) == 0 {
			k := 1 + r.Rng.Intn(n)
			perm := r.Rng.Perm(n)[:k]
			subset = perm
		}
		// outcome per helper, in the order in which the harness will release them
		planned := []string{}
		for i := 0; i < c; i++ {
			planned = append(planned, outcomes[r.Rng.Intn(len(outcomes))])
		}
		var exec sequence.Executable = f
		usedN := n
		if subset != nil {
			var ts []string
			for _, i := range subset {
				ts = append(ts, tags[i])
			}
			e, err := f.QuickConfigureExec(strings.Join(ts, " "))
			if err != nil {
				fatal(err)
			}
			exec = e.(sequence.Executable)
			usedN = len(subset)
		}
		q := new(dns.Msg)
		q.SetQuestion(fmt.Sprintf("c14-%d.example.", ci), dns.TypeA)
		q.Id = uint16(r.Rng.Intn(65536))
		if r.Rng.Intn(2) == 0 {
			q.SetEdns0(1232, r.Rng.Intn(2) == 0)
		}
		qCtx := query_context.NewContext(q)
		prior, priorStr := prior14(r, q, qCtx)
		wantBytes, _ := qCtx.Q().Pack() // what the plugin is asked to forward
		meter := startStallMeter()
		ctx, cancel := context.WithCancel(context.Background())
		type ret struct {
			err  error
			took time.Duration
		}
		retCh := make(chan ret, 1)
		t0 := time.Now()
		go func() {
			err := exec.Exec(ctx, qCtx)
			retCh <- ret{err, time.Since(t0)}
		}()
		// all c helpers start
		var calls []*upCall14
		timeout := time.After(2 * time.Second)
	collect:
		for len(calls) < c {
			select {
			case cl := <-started:
				calls = append(calls, cl)
			case <-timeout:
				break collect
			}
		}
		time.Sleep(200 * time.Microsecond)
		select {
		case cl := <-started:
			calls = append(calls, cl) // more helpers than the clamp allows
		default:
		}
		for i, cl := range calls {
			cl.outcome = "e"
			if i < len(planned) {
				cl.outcome = planned[i]
			}
		}
		desc := map[string]any{"upstreams": n, "concurrent_setting": conc, "outcomes_in_arrival_order": strings.Join(planned, ","), "tag_subset": fmt.Sprint(subset), "call_number_on_this_forward_instance": sessCall,
			"response_already_in_the_context_before_the_call(rcode:origin)": priorStr}
		if len(calls) != c {
			desc["queried"] = len(calls)
			r.Fail("the number of upstreams queried is not the concurrency clamped to 1..3", desc)
		}
		// which upstreams were queried: must be c cyclically consecutive positions of the list in use
		pos := func(u *up14) int {
			if subset == nil {
				return u.idx
			}
			for p, i := range subset {
				if i == u.idx {
					return p
				}
			}
			return -1
		}
		var got []int
		for _, cl := range calls {
			got = append(got, pos(cl.up))
		}
		sort.Ints(got)
		rStart := -1
		for cand := 0; cand < usedN; cand++ {
			var exp []int
			for i := 0; i < len(calls); i++ {
				exp = append(exp, (cand+i)%usedN)
			}
			sort.Ints(exp)
			if fmt.Sprint(exp) == fmt.Sprint(got) {
				rStart = cand
				break
			}
		}
		if rStart < 0 {
			desc["queried_positions"] = fmt.Sprint(got)
			r.Fail("the queried upstreams are not cyclically consecutive positions of the upstream list", desc)
			rStart = 0
		}
		for _, cl := range calls {
			if !bytes.Equal(cl.atCall, wantBytes) {
				desc["upstream"] = cl.up.idx
				r.Fail("an upstream was not given the query byte-for-byte", desc)
			}
			if !cl.hasLimit || cl.ctxLimit > 5*time.Second+50*time.Millisecond {
				desc["upstream"] = cl.up.idx
				r.Fail("a helper's exchange has no deadline within the 5-second upstream timeout", desc)
			}
		}
		// arrival order: release the helpers one by one (in the order they started = planned order); "never" stays blocked
		cancelAt := -1
		if r.Rng.Intn(5) == 0 {
			cancelAt = r.Rng.Intn(c + 1)
		}
		var evs []string
		returned := false
		var got1 ret
		for i, cl := range calls {
			if i == cancelAt {
				cancel()
				evs = append(evs, "ctx")
				time.Sleep(time.Millisecond)
			}
			if cl.outcome == "never" {
				continue
			}
			g0 := runtime.NumGoroutine()
			close(cl.gate)
			select {
			case <-cl.finished:
			case <-time.After(time.Second):
			}
			code := map[string]string{"g": "g", "x": "x", "b": "b", "f": "f", "e": "e", "u": "e"}[cl.outcome]
			if code != "e" {
				code += fmt.Sprint(cl.up.idx)
			}
			evs = append(evs, code)
			// give the collection loop time to take it
			patience := 1500 * time.Microsecond
			if code[0] == 'g' || code[0] == 'x' || i == len(calls)-1 || (cancelAt >= 0 && cancelAt <= i) {
				patience = 50 * time.Millisecond // the call is expected to return on this event
			}
			// The helper has its outcome; it still has to hand it to the collection loop. When the call is not going to
			// return on this event, the hand-over shows as the helper's goroutine ending: wait for that (not only for
			// the clock) before the next release, so that a helper that is descheduled for a few ms is not overtaken.
			waitFrom := time.Now()
			for !returned {
				select {
				case got1 = <-retCh:
					returned = true
					continue
				default:
				}
				el := time.Since(waitFrom)
				if el >= patience && (runtime.NumGoroutine() < g0 || el >= 50*time.Millisecond) {
					break
				}
				time.Sleep(50 * time.Microsecond)
			}
			if returned {
				// release the rest so that helpers end; they arrive after the decision
				for _, rest := range calls[i+1:] {
					if rest.outcome != "never" {
						close(rest.gate)
					}
				}
				break
			}
		}
		if !returned && cancelAt == len(calls) {
			cancel()
			evs = append(evs, "ctx")
		}
		pending := false
		if !returned {
			select {
			case got1 = <-retCh:
				returned = true
			case <-time.After(30 * time.Millisecond):
				pending = true // only "never" upstreams are left and the context is alive
			}
		}
		if pending {
			cancel()
			select {
			case got1 = <-retCh:
			case <-time.After(time.Second):
				r.Fail("the call did not end when its context ended", desc)
			}
		}
		cancel()
		if stall := meter.Stop(); stall > 20*time.Millisecond {
			// the arrival order is enforced by short waits between releases: a stall of this size may have reordered it
			r.Count("case-dropped:machine-stalled")
			continue
		}
		// the buffers the helpers hold must still be the query when they are released
		for _, cl := range calls {
			if cl.atRelease != nil && !bytes.Equal(cl.atRelease, wantBytes) {
				desc["upstream"] = cl.up.idx
				r.Fail("the query bytes an upstream holds changed while it was still working (shared buffer released early)", desc)
			}
		}
		out := ""
		switch {
		case pending:
			out = "pending"
		case got1.err != nil && errors.Is(got1.err, context.Canceled):
			out = "errCtx"
		case got1.err != nil:
			out = "errAll"
		default:
			rr := qCtx.R()
			if rr == nil {
				r.Fail("the call returned nil but the query context holds no response", desc)
				rr = new(dns.Msg)
			}
			out = fmt.Sprintf("reply:%d:%d", rr.Rcode, fromOf14(rr))
			if prior != nil && rr == prior {
				desc["context_after_the_call(rcode:origin)"] = slot14(rr)
				r.Fail("the call returned nil, but the query context still holds the response an earlier step had left there, not the reply the forward chose (the first NOERROR / NXDOMAIN to arrive, else the reply of the last exchange to finish whatever its rcode)", desc)
			}
			if rr.Id != q.Id {
				r.Fail("the reply does not carry the id of the query", desc)
			}
		}
		desc["events"] = strings.Join(evs, ",")
		desc["result"] = out
		// ---- the property's own predicate
		firstGood := ""
		for _, e := range evs {
			if e == "ctx" {
				break
			}
			if e[0] == 'g' || e[0] == 'x' {
				firstGood = e
				break
			}
		}
		if firstGood != "" {
			rc := 0
			if firstGood[0] == 'x' {
				rc = 3
			}
			want := fmt.Sprintf("reply:%d:%s", rc, firstGood[1:])
			if out != want {
				desc["expected"] = want
				r.Fail("a NOERROR / NXDOMAIN reply arrived while the context was alive, but it is not what the call returned", desc)
			}
		}
		// a helper that was going to deliver a good answer must not have been cut short by anything but its own 5 s budget
		for _, cl := range calls {
			if cl.outcome != "g" && cl.outcome != "x" {
				continue
			}
			select {
			case <-cl.finished:
				if cl.endedBy == "context" {
					desc["upstream"] = cl.up.idx
					desc["its_context_had"] = cl.ctxLimit.String()
					r.Fail("the exchange with an upstream that was about to answer NOERROR / NXDOMAIN was cancelled within milliseconds (not by its 5-second budget): another upstream's failure masked a good answer", desc)
				}
			default:
			}
		}
		hasNever, ctxEnded := false, false
		for _, cl := range calls {
			if cl.outcome == "never" {
				hasNever = true
			}
		}
		for _, e := range evs {
			if e == "ctx" {
				ctxEnded = true
			}
		}
		if firstGood == "" && !hasNever && !ctxEnded && len(evs) > 0 {
			// every queried upstream has finished and none was good: the outcome is that of the last exchange to finish
			last := evs[len(evs)-1]
			want := "errAll"
			if last[0] == 'b' {
				want = "reply:2:" + last[1:]
			} else if last[0] == 'f' {
				want = "reply:5:" + last[1:]
			}
			if out != want {
				desc["expected"] = want
				if pending {
					r.Fail("every queried upstream had finished (none with NOERROR / NXDOMAIN) and the context was alive, but the call did not return", desc)
				} else {
					r.Fail("no NOERROR / NXDOMAIN reply arrived, but the outcome is not that of the last exchange to finish", desc)
				}
			}
		}
		if len(evs) == 0 {
			evs = []string{"-"}
		}
		var picked []string
		for _, p := range got {
			picked = append(picked, fmt.Sprint(p))
		}
		outM := out
		r.Line(fmt.Sprintf("fwdx %d %d %d %s %s", usedN, conc, rStart, strings.Join(evs, ","), priorStr), fmt.Sprintf("picked=%s out=%s ctx=%s", strings.Join(picked, "."), outM, slot14(qCtx.R())))
		r.Eval(fmt.Sprintf("fwd/%d", ci), c > 1)
		r.Count(fmt.Sprintf("concurrency:%d", c))
		r.Count("result:" + strings.SplitN(out, ":", 2)[0])
		r.Trace()
	}
	runC14Configured(r)
	runC14Faults(r)
	r.Finish("upstream lists of 1..5 in-memory upstreams (all, or a random tag subset in random order) x concurrent in {-2, 0, 1, 2, 3, 4, 7} x per-helper outcome {NOERROR, NXDOMAIN, SERVFAIL, REFUSED, error, unparsable bytes, never answers} in a scripted arrival order x context cancellation before any arrival / between arrivals / after all, 1..4 consecutive calls on one Forward instance, on a fresh query context or on one that already carries a recognisable response of an earlier step (NOERROR / SERVFAIL / NXDOMAIN; in all three scenario families): after a call that returns nil the context must hold the forward's chosen reply, compared with the model (Exec as the regenerated fact describes it); released pool buffers are overwritten; plus forwards built by NewForward / Init from decoded plugin arguments: 1..4 entries leading to 4 loopback servers (UDP, TCP, SOCKS5; distinguishable answers, every received query recorded) through their own addr, through dial_addr / socks5 under an addr shared with other entries, or through the plugin-wide socks5, all entries or a tag subset: the multiset of servers that received each query must be that of c cyclically consecutive configured positions, and the reply must be a legitimate one among the contacted servers' answers; plus fault sequences on one configured forward (stream upstreams tcp / tcp+pipeline / socks5 with max_conns 0..3, idle_timeout, tags and tag subsets): sessions of healthy queries, outages (servers hang up on every query or refuse every connection, so that exchanges fail) and recoveries, repeated: during an outage the outcome must be one the statement allows for some start position, after it every query must again reach c cyclically consecutive configured positions and be answered by one of them")
}

func poison01c14() func() {
	orig := pool.ReleaseBuf
	pool.ReleaseBuf = func(b *[]byte) {
		if b != nil {
			for i := range *b {
				(*b)[i] = 0xEE
			}
		}
		orig(b)
	}
	return func() { pool.ReleaseBuf = orig }
}
