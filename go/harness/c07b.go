//go:build pC07 || pall

package main

import (
	"context"
	"encoding/binary"
	"fmt"
	"strings"
	"sync"
	"sync/atomic"
	"time"

	"github.com/IrineSistiana/mosdns/v5/pkg/upstream/transport"
)

// C07, continued.
//
// Part 1b: the read deadline of ONE non-pipelined (reused) connection under a ReuseConnTransport, followed through
// scripted histories (query parks / reply / reply and immediate reuse with the reader's own deadline call held up /
// caller gives up / late reply / data nobody waits for) and compared with the model (Model.C07R.RConn, run with the
// reader's statement order regenerated from reuse.go) after every operation. Oracle: whenever a query is written and
// unanswered, and no deadline call is in progress, the deadline in force is the waiting-reply deadline.
// Part 1c: the same window end to end with deadlines shortened 100x: n answered queries, each next one issued the
// moment the previous reply is in, then silence with an unbounded context.
// Part 4: Close racing with calls that are inside (or queued for) the transport's critical section.

// rconn07 wraps the fake connection: SetReadDeadline (the reader's call; exchange uses SetDeadline) can be held at its
// entry, which stands for the reader goroutine being descheduled right there.
type rconn07 struct {
	*fakeConn
	hmu      sync.Mutex
	holdNext bool
	holdMax  time.Duration
	release  chan struct{}
	inFlight int
	nDone    int
}

func (c *rconn07) SetReadDeadline(t time.Time) error {
	c.hmu.Lock()
	c.inFlight++
	var rel chan struct{}
	var max time.Duration
	if c.holdNext {
		c.holdNext = false
		rel, max = c.release, c.holdMax
	}
	c.hmu.Unlock()
	if rel != nil {
		select {
		case <-rel:
		case <-time.After(max):
		}
	}
	c.fakeConn.setRdl(t)
	c.hmu.Lock()
	c.inFlight--
	c.nDone++
	c.hmu.Unlock()
	return nil
}

// hold makes the next SetReadDeadline call wait until letGo or for max.
func (c *rconn07) hold(max time.Duration) {
	c.hmu.Lock()
	c.holdNext, c.holdMax, c.release = true, max, make(chan struct{})
	c.hmu.Unlock()
}

func (c *rconn07) letGo() {
	c.hmu.Lock()
	if c.release != nil {
		select {
		case <-c.release:
		default:
			close(c.release)
		}
	}
	c.hmu.Unlock()
}

func (c *rconn07) done() int { c.hmu.Lock(); defer c.hmu.Unlock(); return c.nDone }

// quiet waits until more than n0 SetReadDeadline calls have completed (if wantMore) and none is in progress.
func (c *rconn07) quiet(n0 int, wantMore bool, d time.Duration) bool {
	deadline := time.Now().Add(d)
	for {
		c.hmu.Lock()
		ok := c.inFlight == 0 && (!wantMore || c.nDone > n0)
		c.hmu.Unlock()
		if ok {
			return true
		}
		if time.Now().After(deadline) {
			return false
		}
		time.Sleep(100 * time.Microsecond)
	}
}

type rcall07 struct {
	tag    int
	cancel context.CancelFunc
	done   chan struct{}
	resp   *[]byte
	err    error
}

func (c *rcall07) wait(d time.Duration) bool {
	select {
	case <-c.done:
		return true
	case <-time.After(d):
		return false
	}
}

func runC07Reuse(r *Run) {
	// ------------------------------------------------------------------ part 1c
	rounds := r.N(3, 30)
	for rd := 0; rd < rounds; rd++ {
		answeredMax := 1 + r.Rng.Intn(3)
		var mu sync.Mutex
		var conns []*rconn07
		answered := 0
		holds := make([]time.Duration, answeredMax)
		for i := range holds {
			holds[i] = time.Duration(8+r.Rng.Intn(12)) * time.Millisecond
		}
		t := transport.NewReuseConnTransport(transport.ReuseConnOpts{IdleTimeout: 1000 * time.Second, DialContext: func(ctx context.Context) (transport.NetConn, error) {
			mu.Lock()
			defer mu.Unlock()
			c := &rconn07{fakeConn: newFakeConn(len(conns), true)}
			c.scale = scale07
			c.onWrite = func(fc *fakeConn, w []byte) error {
				q := fc.payloadOf(w)
				if len(q) < 12 {
					return nil
				}
				c.letGo() // the next query is on the wire: the held deadline call (if any) may go on
				mu.Lock()
				reply := answered < answeredMax
				var hold time.Duration
				if reply {
					hold = holds[answered]
				}
				answered++
				mu.Unlock()
				if reply {
					c.hold(hold)
					fc.feed(fc.frame(mkReply(q, binary.BigEndian.Uint16(q))))
				}
				return nil
			}
			conns = append(conns, c)
			return c, nil
		}})
		desc := map[string]any{"transport": "reuse", "scenario": "answered queries, each next one sent the moment the reply is in, then silence; unbounded context",
			"answered_queries": answeredMax, "idle_timeout": "1000s", "deadline_scale": scale07}
		ok := true
		for i := 0; i < answeredMax && ok; i++ {
			ctx, cancel := context.WithTimeout(context.Background(), 3*time.Second)
			_, err := t.ExchangeContext(ctx, mkQuery(uint16(i), 820000+rd*10+i))
			cancel()
			if err != nil {
				ok = false // not this scenario's business (the fault matrix reports failures of answered queries)
			}
		}
		if ok {
			meter := startStallMeter()
			t0 := time.Now()
			doneCh := make(chan error, 1)
			go func() {
				_, err := t.ExchangeContext(context.Background(), mkQuery(99, 820009+rd*10))
				doneCh <- err
			}()
			bound := 400 * time.Millisecond // 60 ms on the reused connection, 60 ms on the fresh one it is retried on, slack
			var err error
			returned := false
			select {
			case err = <-doneCh:
				returned = true
			case <-time.After(bound + 800*time.Millisecond):
			}
			took := time.Since(t0)
			if stall := meter.Stop(); stall > 50*time.Millisecond {
				bound += 4 * stall
				r.Count("timing-bound-widened:machine-stalled")
			}
			desc["took"] = took.String()
			if !returned {
				mu.Lock()
				var dls []string
				for _, c := range conns {
					c.fakeConn.mu.Lock()
					dls = append(dls, fmt.Sprint(c.rdlHist))
					c.fakeConn.mu.Unlock()
				}
				mu.Unlock()
				desc["deadlines_set_per_connection"] = dls
				r.Fail("an exchange with an unbounded context is still pending on a silent server long after the waiting-reply timeout (6 s, here 60 ms)", desc)
			} else if took > bound {
				r.Fail("an exchange returned later than the transport's liveness timeouts allow", desc)
			} else if err == nil {
				r.Fail("an exchange reported success although the server was silent", desc)
			}
			closed := make(chan struct{})
			go func() { t.Close(); close(closed) }()
			select {
			case <-closed:
			case <-time.After(2 * time.Second):
				r.Fail("Close did not return", desc)
			}
			if !returned {
				select {
				case <-doneCh:
				case <-time.After(2 * time.Second):
					r.Fail("pending exchanges did not return after Close", desc)
				}
			}
		} else {
			t.Close()
		}
		r.Eval(fmt.Sprintf("reuse-silence/%d/%d", answeredMax, rd), true)
		r.Count("reuse-silence-after-immediate-reuse")
		r.Trace()
	}
	// ------------------------------------------------------------------ part 1b
	histories := r.N(14, 140)
	for hi := 0; hi < histories; hi++ {
		idle := 40 * time.Second
		var mu sync.Mutex
		var conns []*rconn07
		written := make(chan []byte, 16)
		var onWritten func() // called (once) when the next query has been written
		t := transport.NewReuseConnTransport(transport.ReuseConnOpts{IdleTimeout: idle, DialContext: func(ctx context.Context) (transport.NetConn, error) {
			mu.Lock()
			defer mu.Unlock()
			c := &rconn07{fakeConn: newFakeConn(len(conns), true)}
			c.onWrite = func(fc *fakeConn, w []byte) error {
				if q := fc.payloadOf(w); len(q) >= 12 {
					mu.Lock()
					f := onWritten
					onWritten = nil
					mu.Unlock()
					if f != nil {
						f()
					}
					written <- append([]byte(nil), q...)
				}
				return nil
			}
			conns = append(conns, c)
			return c, nil
		}})
		nDials := func() int { mu.Lock(); defer mu.Unlock(); return len(conns) }
		tagBase := 810000 + hi*100
		nCalls := 0
		start := func() *rcall07 {
			nCalls++
			ctx, cancel := context.WithCancel(context.Background())
			c := &rcall07{tag: tagBase + nCalls, cancel: cancel, done: make(chan struct{})}
			q := mkQuery(uint16(nCalls), c.tag)
			go func() {
				c.resp, c.err = t.ExchangeContext(ctx, q)
				close(c.done)
			}()
			return c
		}
		waitWritten := func(d time.Duration) []byte {
			select {
			case q := <-written:
				return q
			case <-time.After(d):
				return nil
			}
		}
		var rc *rconn07
		kind := func() string {
			rc.quiet(0, false, time.Second)
			rc.fakeConn.waitDrained(time.Second)
			rc.fakeConn.mu.Lock()
			defer rc.fakeConn.mu.Unlock()
			if rc.fakeConn.closed {
				return "closed"
			}
			if len(rc.rdlHist) == 0 {
				return "none"
			}
			if rc.rdlHist[len(rc.rdlHist)-1] > 25*time.Second {
				return "idle"
			}
			return "short"
		}
		waitKind := func(want string) string {
			k := kind()
			for i := 0; i < 500 && k != want; i++ {
				time.Sleep(100 * time.Microsecond)
				k = kind()
			}
			return k
		}
		var parked *rcall07 // written, unanswered, its caller waits
		var parkedQ []byte
		var abandonedQ []byte // written, unanswered, its caller gave up: the connection is out of the pool
		var ops, outs []string
		broken := false
		steps := 3 + r.Rng.Intn(10)
		for st := 0; st < steps && !broken; st++ {
			k := r.Rng.Intn(10)
			switch {
			case parked == nil && abandonedQ == nil: // idle (or not dialed yet)
				if k == 9 && rc != nil {
					rc.feed(rc.frame(mkReply(mkQuery(0, 424242), 7)))
					ops, outs = append(ops, "s"), append(outs, waitKind("closed"))
					broken = true // the connection is gone; the history ends here
					continue
				}
				c := start()
				q := waitWritten(2 * time.Second)
				if q == nil || nDials() != 1 {
					broken = true
					continue
				}
				mu.Lock()
				rc = conns[0]
				mu.Unlock()
				parked, parkedQ = c, q
				ops, outs = append(ops, "q"), append(outs, kind())
			case parked != nil && k < 3: // plain reply
				n0 := rc.done()
				rc.feed(rc.frame(mkReply(parkedQ, binary.BigEndian.Uint16(parkedQ))))
				if !parked.wait(2*time.Second) || parked.err != nil {
					broken = true
					continue
				}
				parked, parkedQ = nil, nil
				rc.quiet(n0, true, 100*time.Millisecond)
				ops, outs = append(ops, "r"), append(outs, waitKind("idle"))
			case parked != nil && k < 8: // reply, reader's deadline call held up, immediate reuse
				n0 := rc.done()
				rc.hold(time.Duration(8+r.Rng.Intn(12)) * time.Millisecond)
				mu.Lock()
				onWritten = rc.letGo
				mu.Unlock()
				rc.feed(rc.frame(mkReply(parkedQ, binary.BigEndian.Uint16(parkedQ))))
				if !parked.wait(2*time.Second) || parked.err != nil {
					rc.letGo()
					broken = true
					continue
				}
				c := start()
				q := waitWritten(2 * time.Second)
				rc.letGo()
				if q == nil || nDials() != 1 {
					broken = true
					continue
				}
				parked, parkedQ = c, q
				rc.quiet(n0, true, 200*time.Millisecond)
				ops, outs = append(ops, "k"), append(outs, kind())
				r.Count("reuse-deadline:immediate-reuse")
			case parked != nil: // the caller gives up
				parked.cancel()
				if !parked.wait(2 * time.Second) {
					r.Fail("an exchange did not return after its context was cancelled", map[string]any{"transport": "reuse", "history": strings.Join(ops, ",")})
					broken = true
					continue
				}
				abandonedQ, parked, parkedQ = parkedQ, nil, nil
				ops, outs = append(ops, "c"), append(outs, kind())
			default: // abandoned: the late reply arrives
				n0 := rc.done()
				rc.feed(rc.frame(mkReply(abandonedQ, binary.BigEndian.Uint16(abandonedQ))))
				abandonedQ = nil
				rc.quiet(n0, true, 200*time.Millisecond)
				time.Sleep(time.Millisecond) // setIdle follows
				ops, outs = append(ops, "l"), append(outs, waitKind("idle"))
			}
			if parked != nil && !broken {
				if kd := kind(); kd != "short" {
					r.Fail("a query is written and unanswered on a reused connection whose read deadline in force is not the waiting-reply deadline: a silent server would hold the caller for the idle timeout", map[string]any{
						"transport": "reuse", "history": strings.Join(ops, ","), "deadline_in_force": kd, "idle_timeout": idle.String(),
						"deadlines_set": fmt.Sprint(rc.rdlHist)})
				}
			}
		}
		if parked != nil {
			parked.cancel()
			parked.wait(time.Second)
		}
		t.Close()
		if len(ops) > 0 {
			r.Line("reuse "+strings.Join(ops, ","), strings.Join(outs, ";"))
		}
		r.Eval("reuse-deadline/"+strings.Join(ops, ","), len(ops) > 2)
		r.Count("reuse-deadline-histories")
		r.Trace()
	}

}

// ---------------------------------------------------------------------- part 4: Close against the critical section
func runC07CloseRace(r *Run) {
	base := goroutines07()
	rounds := r.N(16, 160)
	for rd := 0; rd < rounds; rd++ {
		kind := []string{"pipeline", "pipeline", "reuse"}[rd%3]
		stream := r.Rng.Intn(3) != 0 || kind == "reuse"
		occupied := kind == "pipeline" && r.Rng.Intn(3) == 0 // the pooled connection is full: the caller that holds the mutex dials another one
		nLater := 1 + r.Rng.Intn(3)
		closeFirst := r.Rng.Intn(4) != 0
		gap := func() { time.Sleep(time.Duration(1500+r.Rng.Intn(1500)) * time.Microsecond) }

		var mu sync.Mutex
		var conns []*fakeConn
		late := map[*fakeConn]bool{}  // dialed, with a live context, after Close had returned
		sentOn := map[int]*fakeConn{} // tag -> connection its query was written on
		var closeReturned atomic.Bool
		silentTag := -1
		onWrite := func(c *fakeConn, w []byte) error {
			q := c.payloadOf(w)
			if len(q) < 12 {
				return nil
			}
			tag := tagOf(q)
			mu.Lock()
			sentOn[tag] = c
			silent := tag == silentTag
			mu.Unlock()
			if !silent {
				c.feed(c.frame(mkReply(q, binary.BigEndian.Uint16(q))))
			}
			return nil
		}
		dial := func(ctx context.Context) *fakeConn {
			isLate := closeReturned.Load() && ctx.Err() == nil
			mu.Lock()
			defer mu.Unlock()
			c := newFakeConn(len(conns), stream)
			c.onWrite = onWrite
			conns = append(conns, c)
			if isLate {
				late[c] = true
			}
			return c
		}
		var ex func(ctx context.Context, q []byte) (*[]byte, error)
		var closeT func()
		maxCq := 8
		if occupied {
			maxCq = 1
		}
		if kind == "reuse" {
			t := transport.NewReuseConnTransport(transport.ReuseConnOpts{DialContext: func(ctx context.Context) (transport.NetConn, error) { return dial(ctx), nil }})
			ex, closeT = t.ExchangeContext, func() { t.Close() }
		} else {
			t := transport.NewPipelineTransport(transport.PipelineOpts{DialContext: func(ctx context.Context) (transport.DnsConn, error) {
				return transport.NewDnsConn(transport.TraditionalDnsConnOpts{WithLengthHeader: stream, MaxConcurrentQuery: maxCq}, dial(ctx)), nil
			}})
			ex, closeT = t.ExchangeContext, func() { t.Close() }
		}
		desc := map[string]any{"transport": kind, "stream": stream, "scenario": "Close while one caller is inside the transport's critical section and others queue for it",
			"pooled_connection_full": occupied, "callers_behind_close": nLater, "close_started_first": closeFirst}
		type res struct {
			tag  int
			ok   bool
			err  error
			done chan struct{}
		}
		call := func(tag int, ctx context.Context) *res {
			rs := &res{tag: tag, done: make(chan struct{})}
			go func() {
				resp, err := ex(ctx, mkQuery(uint16(tag), tag))
				rs.ok, rs.err = err == nil && resp != nil, err
				close(rs.done)
			}()
			return rs
		}
		tagBase := 830000 + rd*20
		// warm up: one answered query, so that a dialed connection is in the pool
		ctx0, cancel0 := context.WithTimeout(context.Background(), 3*time.Second)
		w := call(tagBase, ctx0)
		<-w.done
		cancel0()
		mu.Lock()
		nc := len(conns)
		mu.Unlock()
		if !w.ok || nc != 1 {
			closeT()
			continue
		}
		mu.Lock()
		fc := conns[0]
		mu.Unlock()
		var calls []*res
		ctx, cancel := context.WithTimeout(context.Background(), 5*time.Second)
		if occupied {
			mu.Lock()
			silentTag = tagBase + 1
			mu.Unlock()
			p := call(tagBase+1, ctx)
			calls = append(calls, p)
			for i := 0; i < 2000; i++ { // until it is written
				mu.Lock()
				_, sent := sentOn[tagBase+1]
				mu.Unlock()
				if sent {
					break
				}
				time.Sleep(50 * time.Microsecond)
			}
		}
		held := false
		if kind == "pipeline" {
			// a reply nobody waits for sends the reader round its loop; its SetReadDeadline call (made with the connection's
			// queue lock held) is held at the entry: the next caller blocks in ReserveNewQuery with the transport's mutex held
			entered := fc.armGate(300 * time.Millisecond)
			fc.feed(fc.frame(mkReply(mkQuery(0, 424242), uint16(50000+r.Rng.Intn(10000)))))
			select {
			case <-entered:
				held = true
			case <-time.After(time.Second):
			}
		}
		calls = append(calls, call(tagBase+2, ctx)) // A
		gap()
		closed := make(chan struct{})
		startClose := func() {
			go func() {
				closeT()
				closeReturned.Store(true)
				close(closed)
			}()
		}
		startLater := func() {
			for i := 0; i < nLater; i++ {
				calls = append(calls, call(tagBase+3+i, ctx))
			}
		}
		if closeFirst {
			startClose()
			gap()
			startLater()
		} else {
			startLater()
			gap()
			startClose()
		}
		gap()
		if held {
			func() {
				defer func() { recover() }()
				fc.mu.Lock()
				rel := fc.gateRelease
				fc.mu.Unlock()
				select {
				case <-rel:
				default:
					close(rel)
				}
			}()
			r.Count("close-race:mutex-held-by-caller")
		}
		stuck := false
		select {
		case <-closed:
		case <-time.After(2 * time.Second):
			stuck = true
			r.Fail("Close did not return", desc)
		}
		if !stuck {
			for _, c := range calls {
				select {
				case <-c.done:
				case <-time.After(2 * time.Second):
					stuck = true
				}
			}
			if stuck {
				r.Fail("pending exchanges did not return after Close", desc)
			}
		}
		cancel()
		if !stuck {
			for _, c := range calls {
				mu.Lock()
				on := sentOn[c.tag]
				isLate := on != nil && late[on]
				mu.Unlock()
				if c.ok && isLate {
					desc["connection"] = on.id
					r.Fail("a call was served (dial, query, reply) by a transport whose Close had already returned, instead of returning an error", desc)
					break
				}
			}
			// a later call fails at once
			t2 := time.Now()
			ctxL, cancelL := context.WithTimeout(context.Background(), 2*time.Second)
			_, err := ex(ctxL, mkQuery(1, tagBase+19))
			cancelL()
			if err == nil || time.Since(t2) > 100*time.Millisecond {
				desc["took"] = time.Since(t2).String()
				r.Fail("a call on a closed transport did not fail immediately", desc)
				delete(desc, "took")
			}
			// every connection the transport was given is closed
			leaked := -1
			deadline := time.Now().Add(time.Second)
			for {
				leaked = -1
				mu.Lock()
				for _, c := range conns {
					if !c.isClosed() {
						leaked = c.id
					}
				}
				n := len(conns)
				mu.Unlock()
				if leaked < 0 || time.Now().After(deadline) {
					desc["connections_dialed"] = n
					break
				}
				time.Sleep(time.Millisecond)
			}
			if leaked >= 0 {
				desc["connection"] = leaked
				mu.Lock()
				desc["dialed_after_close_returned"] = late[conns[leaked]]
				mu.Unlock()
				r.Fail("a connection the transport created was not closed by Close", desc)
				mu.Lock()
				for _, c := range conns {
					c.Close() // do not let it disturb the following rounds
				}
				mu.Unlock()
			}
			g := goroutines07()
			for i := 0; i < 1000 && g > base; i++ {
				time.Sleep(time.Millisecond)
				g = goroutines07()
			}
			if g > base {
				desc["goroutines_in_transport_code"] = g - base
				r.Fail("goroutines of the transport are still running after Close", desc)
				base = g
			}
		}
		r.Eval(fmt.Sprintf("close-vs-critical-section/%s/%v/%v/%d/%v", kind, stream, occupied, nLater, closeFirst), true)
		r.Count("close-vs-critical-section:" + kind)
		r.Trace()
		if stuck {
			break
		}
	}
}
