//go:build pC09 || pall

package main

import (
	"context"
	"encoding/binary"
	"errors"
	"fmt"
	"strings"
	"sync"
	"sync/atomic"
	"time"

	"github.com/IrineSistiana/mosdns/v5/pkg/upstream/transport"
)

// C09, parts 7 and 8.
//
// Part 7: a late caller arrives at the moment the dial of a connection with a
// full (or partly filled) queue succeeds: the queued queries must all be taken
// by the dialed connection (equal or larger limit), whatever the late caller
// does. The dialed connection is wrapped: one early caller is descheduled on
// its way into ReserveNewQuery of the dialed connection (a legal schedule),
// which is the window a late caller must not get through.
//
// Part 8: PipelineTransport with a pool in mixed states: established
// connections with room next to a connection that is still dialing, many
// queries arriving one after the other in that state (the order in which the
// transport visits its connections varies), then the dial ends. Afterwards every
// live connection is quiescent and must admit its full limit again, and no
// call may hang.

// gatedDnsConn09 is the connection a dial returns: the first ReserveNewQuery call is kept at
// its entry until `need` further calls have completed, or maxHold has passed.
type gatedDnsConn09 struct {
	inner   transport.DnsConn
	maxHold time.Duration
	need    int

	mu        sync.Mutex
	calls     int
	completed int
	firstIn   chan struct{}
	release   chan struct{}
}

func newGatedDnsConn09(inner transport.DnsConn, need int, maxHold time.Duration) *gatedDnsConn09 {
	return &gatedDnsConn09{inner: inner, need: need, maxHold: maxHold, firstIn: make(chan struct{}), release: make(chan struct{})}
}

func (g *gatedDnsConn09) ReserveNewQuery() (transport.ReservedExchanger, bool) {
	g.mu.Lock()
	g.calls++
	first := g.calls == 1 && g.need > 0
	g.mu.Unlock()
	if first {
		close(g.firstIn)
		select {
		case <-g.release:
		case <-time.After(g.maxHold):
		}
	}
	rx, cl := g.inner.ReserveNewQuery()
	if !first {
		g.mu.Lock()
		g.completed++
		if g.completed == g.need {
			close(g.release)
		}
		g.mu.Unlock()
	}
	return rx, cl
}

func (g *gatedDnsConn09) Close() error { return g.inner.Close() }

// poolSrv09 is the peer of one connection of a transport: it answers at once (auto) or keeps
// the queries until told, counts unanswered queries and logs writes and answers in order.
type poolSrv09 struct {
	fc         *fakeConn
	mu         sync.Mutex
	auto       bool
	unanswered map[int][]byte // tag -> query as written
	order      []int          // tags of the unanswered queries, oldest first
	max, total int
	events     []string // "w" a query arrived, "r" a query was answered
	tags       map[int]bool
}

func newPoolSrv09(fc *fakeConn, auto bool) *poolSrv09 {
	s := &poolSrv09{fc: fc, auto: auto, unanswered: map[int][]byte{}, tags: map[int]bool{}}
	fc.onWrite = func(c *fakeConn, w []byte) error {
		q := c.payloadOf(w)
		if len(q) < 12 {
			return nil
		}
		tag := tagOf(q)
		s.mu.Lock()
		if s.tags[tag] { // a datagram resend
			s.mu.Unlock()
			return nil
		}
		s.tags[tag] = true
		s.total++
		s.events = append(s.events, "w")
		if s.auto {
			s.events = append(s.events, "r")
			if len(s.unanswered)+1 > s.max {
				s.max = len(s.unanswered) + 1
			}
			s.mu.Unlock()
			c.feed(c.frame(mkReply(q, binary.BigEndian.Uint16(q))))
			return nil
		}
		s.unanswered[tag] = q
		s.order = append(s.order, tag)
		if len(s.unanswered) > s.max {
			s.max = len(s.unanswered)
		}
		s.mu.Unlock()
		return nil
	}
	return s
}

func (s *poolSrv09) setAuto(a bool) { s.mu.Lock(); s.auto = a; s.mu.Unlock() }

// answer replies to the n oldest unanswered queries (n < 0: all) and returns their tags.
func (s *poolSrv09) answer(n int) (tags []int) {
	s.mu.Lock()
	var qs [][]byte
	for len(s.order) > 0 && n != 0 {
		tag := s.order[0]
		s.order = s.order[1:]
		qs = append(qs, s.unanswered[tag])
		delete(s.unanswered, tag)
		tags = append(tags, tag)
		s.events = append(s.events, "r")
		n--
	}
	s.mu.Unlock()
	for _, q := range qs {
		s.fc.feed(s.fc.frame(mkReply(q, binary.BigEndian.Uint16(q))))
	}
	return tags
}

func (s *poolSrv09) stats() (carried, max, total int) {
	s.mu.Lock()
	defer s.mu.Unlock()
	return len(s.unanswered), s.max, s.total
}

func (s *poolSrv09) log() []string {
	s.mu.Lock()
	defer s.mu.Unlock()
	return append([]string(nil), s.events...)
}

type pcall09 struct {
	tag  int
	done chan struct{}
	err  error
}

func startPoolCall09(ex func(ctx context.Context, q []byte) (*[]byte, error), tag int) *pcall09 {
	c := &pcall09{tag: tag, done: make(chan struct{})}
	go func() {
		ctx, cancel := context.WithTimeout(context.Background(), 20*time.Second)
		defer cancel()
		_, c.err = ex(ctx, mkQuery(uint16(tag), tag))
		close(c.done)
	}()
	return c
}

func (c *pcall09) wait(d time.Duration) bool {
	select {
	case <-c.done:
		return true
	case <-time.After(d):
		return false
	}
}

func waitUntil09(d time.Duration, cond func() bool) bool {
	deadline := time.Now().Add(d)
	for {
		if cond() {
			return true
		}
		if time.Now().After(deadline) {
			return false
		}
		time.Sleep(100 * time.Microsecond)
	}
}

// ---------------------------------------------------------------- part 7

func lateCallerAtDial09(r *Run) {
	// (a) on the dialing wrapper itself
	rounds := r.N(8, 80)
	for ri := 0; ri < rounds; ri++ {
		a := 1 + r.Rng.Intn(4) // queue limit while dialing
		b := a                 // limit of the dialed connection
		if r.Rng.Intn(3) == 0 {
			b = a + 1 + r.Rng.Intn(2)
		}
		n := a // queued queries: mostly a full queue
		if r.Rng.Intn(3) == 0 {
			n = 1 + r.Rng.Intn(a)
		}
		k := 1 + r.Rng.Intn(2) // late callers
		hold := time.Duration(r.N(60, 100)) * time.Millisecond
		fc := newFakeConn(50000+ri, true)
		srv := newServer09(fc)
		realDc := transport.NewDnsConn(transport.TraditionalDnsConnOpts{WithLengthHeader: true, IdleTimeout: 10 * time.Second, MaxConcurrentQuery: b}, fc)
		gd := newGatedDnsConn09(realDc, n, hold)
		gate := make(chan struct{})
		lc := transport.VerifNewLazyDnsConn(func(ctx context.Context) (transport.DnsConn, error) {
			select {
			case <-gate:
				return gd, nil
			case <-ctx.Done():
				return nil, ctx.Err()
			}
		}, 5*time.Second, a)
		var parked []*call09
		var ops, outs []string
		for i := 0; i < n; i++ {
			rx, _ := lc.ReserveNewQuery()
			if rx == nil {
				r.Fail("a dialing connection refused a query below its queue limit", map[string]any{"queue_limit": a, "queued": i})
				break
			}
			parked = append(parked, startCall09(rx, false))
			free := probe09(lc.ReserveNewQuery)
			ops = append(ops, "l.reserve+l.enter")
			outs = append(outs, fmt.Sprintf("a:%d", free))
		}
		time.Sleep(time.Duration(200+r.Rng.Intn(800)) * time.Microsecond) // the callers park in ExchangeReserved
		meter := startStallMeter()
		close(gate)
		firstSeen := false
		select {
		case <-gd.firstIn:
			firstSeen = true
		case <-time.After(3 * time.Second):
		}
		// the late callers arrive while one queued query is on its way into ReserveNewQuery of the dialed connection
		late := make([]transport.ReservedExchanger, k)
		var lwg sync.WaitGroup
		for i := 0; i < k; i++ {
			lwg.Add(1)
			go func(i int) {
				defer lwg.Done()
				late[i], _ = lc.ReserveNewQuery()
			}(i)
		}
		lateDone := make(chan struct{})
		go func() { lwg.Wait(); close(lateDone) }()
		var inflight, refused []*call09
		for _, c := range parked {
			if findWrite09(fc, c, 4*time.Second) {
				inflight = append(inflight, c)
			} else {
				c.wait(time.Second)
				refused = append(refused, c)
			}
		}
		lateReturned := true
		select {
		case <-lateDone:
		case <-time.After(5 * time.Second):
			lateReturned = false
		}
		stall := meter.Stop()
		if !firstSeen || !lateReturned || stall > time.Second {
			r.Count(fmt.Sprintf("late:skipped(first-seen=%v,late-returned=%v,stall>1s=%v)", firstSeen, lateReturned, stall > time.Second))
			for _, c := range parked {
				c.cancel()
			}
			lc.Close()
			realDc.Close()
			continue
		}
		var holders []transport.ReservedExchanger
		for _, rx := range late {
			if rx != nil {
				holders = append(holders, rx)
			}
		}
		_, now, _ := srv.stats()
		free := probe09(lc.ReserveNewQuery)
		op := "l.dialOk"
		if len(inflight) > 0 {
			op += "+" + rep09("l.proceed+t.enter1", len(inflight))
		}
		if len(refused) > 0 {
			op += "+" + rep09("l.proceed", len(refused))
		}
		op += "+" + rep09("l.reserve", k)
		out := "r"
		if len(inflight) > 0 {
			out = "a"
		}
		ops = append(ops, op)
		outs = append(outs, fmt.Sprintf("%s:%d", out, free))
		desc := map[string]any{"queue_limit_while_dialing": a, "connection_limit": b, "queued_queries": n, "late_callers_arriving_when_the_dial_succeeds": k,
			"queued_queries_sent": len(inflight), "queued_queries_refused": len(refused), "late_callers_admitted": len(holders),
			"unanswered_queries_seen_by_the_server": now, "admits_afterwards": free,
			"schedule": "one queued caller is held at the entry of ReserveNewQuery of the dialed connection until the others and the late callers are through (at most " + hold.String() + ")"}
		if len(refused) > 0 {
			desc["error"] = fmt.Sprint(refused[0].err)
			r.Fail("queries queued while the connection was dialing were refused after the dial succeeded with an equal or larger limit (a late caller got in before them)", desc)
			r.Count("late:early-refused")
		} else {
			want := b - n
			if want > k {
				want = k
			}
			if len(holders) < want {
				r.Fail("a live connection holding fewer queries than its limit refused a caller that arrived when the dial succeeded", desc)
			}
		}
		if now > b {
			r.Fail("a connection carries more unanswered queries than its limit", desc)
		} else if free != b-len(inflight)-len(holders) {
			r.Fail("after the dial, a live connection does not admit exactly limit - (reservations + unanswered queries)", desc)
		}
		bad := len(refused) > 0 || now > b
		check := func() {
			free := probe09(lc.ReserveNewQuery)
			outs = append(outs, fmt.Sprintf("-:%d", free))
			if free != b-len(inflight)-len(holders) && !bad {
				desc["admits_afterwards"], desc["unanswered"], desc["reservations_held"], desc["history"] = free, len(inflight), len(holders), strings.Join(ops, ",")
				r.Fail("capacity was lost: a live connection does not admit limit - (reservations + unanswered queries)", desc)
				bad = true
			}
		}
		for len(holders) > 0 { // the late callers use or give back what they got
			rx := holders[len(holders)-1]
			holders = holders[:len(holders)-1]
			if r.Rng.Intn(2) == 0 {
				rx.WithdrawReserved()
				ops = append(ops, "t.withdraw")
				check()
			} else {
				c := startCall09(rx, false)
				if findWrite09(fc, c, 4*time.Second) {
					inflight = append(inflight, c)
					ops = append(ops, "t.enter1")
					outs = append(outs, fmt.Sprintf("a:%d", probe09(lc.ReserveNewQuery)))
				} else {
					r.Fail("a reserved query on a live connection was not sent", map[string]any{"history": strings.Join(ops, ","), "err": fmt.Sprint(c.err)})
					ops = append(ops, "t.enter1")
					outs = append(outs, "c:0")
				}
			}
		}
		for len(inflight) > 0 {
			i := r.Rng.Intn(len(inflight))
			c := inflight[i]
			inflight = append(inflight[:i], inflight[i+1:]...)
			if r.Rng.Intn(2) == 0 {
				srv.answer(fc, c.wireQ)
				c.wait(4 * time.Second)
				if c.err != nil {
					r.Fail("an answered query did not return its reply", map[string]any{"history": strings.Join(ops, ","), "err": fmt.Sprint(c.err)})
				}
				ops = append(ops, "t.reply+t.exit0")
			} else {
				c.cancel()
				c.wait(4 * time.Second)
				ops = append(ops, "t.exit1")
			}
			check()
		}
		lc.Close()
		realDc.Close()
		r.Line(fmt.Sprintf("sys %d %d %s", a, b, strings.Join(ops, ",")), strings.Join(outs, ";"))
		r.Eval(fmt.Sprintf("sys-late/%d", ri), true)
		r.Count(fmt.Sprintf("late:queue-full:%v", n == a))
		r.Count(fmt.Sprintf("late:limits-equal:%v", a == b))
		r.Trace()
	}

	// (b) through PipelineTransport: a full queue behind a held dial, late queries when the dial succeeds
	rounds = r.N(5, 40)
	for ri := 0; ri < rounds; ri++ {
		L := 1
		if r.Rng.Intn(2) == 0 {
			L = 2 + r.Rng.Intn(2)
		}
		n, k := L, 1+r.Rng.Intn(2)
		hold := time.Duration(r.N(60, 100)) * time.Millisecond
		var mu sync.Mutex
		var srvs []*poolSrv09
		dialGo := make(chan struct{})
		gd0 := make(chan *gatedDnsConn09, 1)
		t := transport.NewPipelineTransport(transport.PipelineOpts{MaxConcurrentQueryWhileDialing: L, DialContext: func(ctx context.Context) (transport.DnsConn, error) {
			select {
			case <-dialGo:
			case <-ctx.Done():
				return nil, ctx.Err()
			}
			mu.Lock()
			idx := len(srvs)
			fc := newFakeConn(51000+ri*100+idx, true)
			srvs = append(srvs, newPoolSrv09(fc, false))
			mu.Unlock()
			dc := transport.NewDnsConn(transport.TraditionalDnsConnOpts{WithLengthHeader: true, IdleTimeout: 10 * time.Second, MaxConcurrentQuery: L}, fc)
			if idx != 0 {
				return dc, nil
			}
			g := newGatedDnsConn09(dc, n, hold)
			gd0 <- g
			return g, nil
		}})
		sent := func() (total, worst int) {
			mu.Lock()
			defer mu.Unlock()
			for _, s := range srvs {
				_, m, tot := s.stats()
				total += tot
				if m > worst {
					worst = m
				}
			}
			return
		}
		var calls []*pcall09
		finished := func() (f int) {
			for _, c := range calls {
				select {
				case <-c.done:
					f++
				default:
				}
			}
			return
		}
		for i := 0; i < n; i++ {
			calls = append(calls, startPoolCall09(t.ExchangeContext, 700000+ri*1000+i))
		}
		time.Sleep(time.Duration(1+r.Rng.Intn(3)) * time.Millisecond) // they queue up on the dialing connection
		meter := startStallMeter()
		close(dialGo)
		firstSeen := false
		select {
		case g := <-gd0:
			select {
			case <-g.firstIn:
				firstSeen = true
			case <-time.After(3 * time.Second):
			}
		case <-time.After(3 * time.Second):
		}
		for i := 0; i < k; i++ {
			calls = append(calls, startPoolCall09(t.ExchangeContext, 700000+ri*1000+500+i))
		}
		settled := waitUntil09(5*time.Second, func() bool { s, _ := sent(); return s+finished() >= n+k })
		_, worst := sent()
		mu.Lock()
		nconns := len(srvs)
		for _, s := range srvs {
			s.setAuto(true)
			s.answer(-1)
		}
		mu.Unlock()
		var failed []string
		hung := 0
		for _, c := range calls {
			if !c.wait(5 * time.Second) {
				hung++
			} else if c.err != nil && !errors.Is(c.err, context.DeadlineExceeded) {
				failed = append(failed, fmt.Sprint(c.err))
			}
		}
		stall := meter.Stop()
		desc := map[string]any{"transport": "pipeline", "queue_limit_while_dialing": L, "connection_limit": L, "queries_queued_while_the_dial_is_held": n,
			"late_queries_arriving_when_the_dial_succeeds": k, "connections": nconns, "max_unanswered_on_one_connection": worst, "errors": failed,
			"schedule": "one queued caller is held at the entry of ReserveNewQuery of the dialed connection until the others and the late callers are through (at most " + hold.String() + ")"}
		if worst > L {
			r.Fail("a connection carried more unanswered queries than its limit", desc)
		}
		if len(failed) > 0 {
			r.Fail("a query was refused although the dial succeeded with an equal limit and the transport can open additional connections (a late caller took the slot of a query queued while dialing)", desc)
			r.Count("late-pipeline:refused")
		}
		if !firstSeen || !settled || hung > 0 {
			r.Count(fmt.Sprintf("late-pipeline:note(first-seen=%v,settled=%v,hung=%d,stall>1s=%v)", firstSeen, settled, hung, stall > time.Second))
		}
		closeT09(t)
		r.Eval(fmt.Sprintf("burst/pipeline-late/%d", ri), true)
		r.Count(fmt.Sprintf("late-pipeline:limit:%d", L))
		r.Trace()
	}
}

// closeT09 closes a transport without waiting for it for ever (a transport whose lock is held by a stuck call never returns).
func closeT09(t *transport.PipelineTransport) bool {
	done := make(chan struct{})
	go func() { t.Close(); close(done) }()
	select {
	case <-done:
		return true
	case <-time.After(2 * time.Second):
		return false
	}
}

// ---------------------------------------------------------------- part 8

type poolConn09 struct {
	srv    *poolSrv09
	dialOk bool
	first  bool // the dial was held
}

func poolMixedStates09(r *Run) {
	rounds := r.N(3, 30)
	for ri := 0; ri < rounds; ri++ {
		L := 2 + r.Rng.Intn(3) // limit of every connection
		a := L                 // queue limit while dialing (<= L: nothing queued is refused)
		if r.Rng.Intn(3) == 0 {
			a = 2 + r.Rng.Intn(L-1)
		}
		x := 1 + r.Rng.Intn(L) // queries of A answered while B is dialing
		m := r.N(72, 200)      // queries arriving one after the other in the mixed state
		bOk := r.Rng.Intn(5) != 0
		var mu sync.Mutex
		var conns []*poolConn09
		var dials int32
		gateB, bDialing := make(chan struct{}), make(chan struct{})
		t := transport.NewPipelineTransport(transport.PipelineOpts{MaxConcurrentQueryWhileDialing: a, DialContext: func(ctx context.Context) (transport.DnsConn, error) {
			idx := int(atomic.AddInt32(&dials, 1)) - 1
			pc := &poolConn09{}
			if idx == 1 {
				pc.first = true
				close(bDialing)
				select {
				case <-gateB:
				case <-ctx.Done():
					mu.Lock()
					conns = append(conns, pc)
					mu.Unlock()
					return nil, ctx.Err()
				}
				if !bOk {
					mu.Lock()
					conns = append(conns, pc)
					mu.Unlock()
					return nil, errors.New("dial refused (injected)")
				}
			}
			fc := newFakeConn(60000+ri*100+idx, true)
			pc.srv, pc.dialOk = newPoolSrv09(fc, false), true
			if idx > 1 {
				pc.srv.auto = true // connections opened later on answer at once until the final burst
			}
			mu.Lock()
			conns = append(conns, pc)
			mu.Unlock()
			return transport.NewDnsConn(transport.TraditionalDnsConnOpts{WithLengthHeader: true, IdleTimeout: 10 * time.Second, MaxConcurrentQuery: L}, fc), nil
		}})
		live := func() (l []*poolConn09) {
			mu.Lock()
			defer mu.Unlock()
			for _, c := range conns {
				if c.dialOk {
					l = append(l, c)
				}
			}
			return
		}
		tagBase := 800000 + ri*2000
		nextTag := 0
		var all []*pcall09
		start := func() *pcall09 {
			c := startPoolCall09(t.ExchangeContext, tagBase+nextTag)
			nextTag++
			all = append(all, c)
			return c
		}
		byTag := func(tag int) *pcall09 { return all[tag-tagBase] }
		skip := func(why string) {
			r.Count("pool:skipped:" + why)
			for _, c := range live() {
				c.srv.setAuto(true)
				c.srv.answer(-1)
			}
			select {
			case <-gateB:
			default:
				close(gateB)
			}
			closeT09(t)
		}
		meter := startStallMeter()
		// 1. connection A is established and filled
		start()
		if !waitUntil09(3*time.Second, func() bool {
			l := live()
			if len(l) != 1 {
				return false
			}
			_, _, tot := l[0].srv.stats()
			return tot >= 1
		}) {
			meter.Stop()
			skip("A-not-established")
			continue
		}
		A := live()[0]
		for i := 1; i < L; i++ {
			start()
		}
		if !waitUntil09(3*time.Second, func() bool { c, _, _ := A.srv.stats(); return c == L }) || atomic.LoadInt32(&dials) != 1 {
			meter.Stop()
			skip("A-not-filled")
			continue
		}
		// 2. one more query: the transport dials B, the dial is held
		start()
		select {
		case <-bDialing:
		case <-time.After(3 * time.Second):
			meter.Stop()
			skip("B-not-dialed")
			continue
		}
		// 3. A drops below its limit
		for _, tag := range A.srv.answer(x) {
			byTag(tag).wait(3 * time.Second)
		}
		// 4. queries one after the other: each is served by A at once or queued behind B's dial
		A.srv.setAuto(true)
		var pending []*pcall09
		for i := 0; i < m; i++ {
			c := start()
			if !c.wait(15 * time.Millisecond) {
				pending = append(pending, c)
			}
		}
		pendingAtDialEnd := 0
		for _, c := range pending {
			select {
			case <-c.done:
			default:
				pendingAtDialEnd++
			}
		}
		dialsBefore := int(atomic.LoadInt32(&dials))
		// 5. B's dial ends; everything that was queued or held is answered
		close(gateB)
		waitUntil09(3*time.Second, func() bool { mu.Lock(); defer mu.Unlock(); return len(conns) >= 2 })
		answerAll := func() {
			for _, c := range live() {
				c.srv.setAuto(true)
				c.srv.answer(-1)
			}
		}
		hung, failedQueued := 0, []string{}
		deadline := time.Now().Add(6 * time.Second)
		for _, c := range all {
			for {
				answerAll() // connections may still appear (retries after a failed dial)
				if c.wait(2*time.Millisecond) || time.Now().After(deadline) {
					break
				}
			}
			select {
			case <-c.done:
				if c.err != nil {
					failedQueued = append(failedQueued, fmt.Sprint(c.err))
				}
			default:
				hung++
			}
		}
		mu.Lock()
		var B *poolConn09
		for _, c := range conns {
			if c.first {
				B = c
			}
		}
		mu.Unlock()
		bEstablished := B != nil && B.dialOk
		history := fmt.Sprintf("connection A established and filled with %d held queries; one more query makes the transport dial B (dial held); %d of A's queries answered; %d queries one after the other, each answered at once by its connection (%d of them still waiting when B's dial ended); B's dial %s; every query answered and returned; then a burst of (limit x live connections) held queries",
			L, x, m, pendingAtDialEnd, map[bool]string{true: "succeeded", false: "failed"}[bEstablished])
		desc := map[string]any{"transport": "pipeline", "connection_limit": L, "queue_limit_while_dialing": a, "history": history, "connections_dialed_before_the_dial_ended": dialsBefore}
		if hung > 0 {
			stall := meter.Stop()
			if stall > 2*time.Second {
				skip("stalled")
				continue
			}
			desc["calls_that_did_not_return"] = hung
			r.Fail("calls hang although every query that reached a server was answered: a live connection below its limit admits nothing", desc)
			r.Count("pool:hung-before-burst")
			closeT09(t)
			break
		}
		if bEstablished && len(failedQueued) > 0 {
			desc["errors"] = failedQueued
			r.Fail("queries failed although every dial succeeded with a limit >= the queue limit and every query that reached a server was answered", desc)
		}
		// 6. every live connection is quiescent: it must admit its full limit again
		lv := live()
		for _, c := range lv {
			c.srv.setAuto(false)
		}
		dialsBeforeBurst := int(atomic.LoadInt32(&dials))
		N := L * len(lv)
		var burst []*pcall09
		for i := 0; i < N; i++ {
			burst = append(burst, start())
		}
		carried := func() (per []int, total int) {
			for _, c := range live() {
				n, _, _ := c.srv.stats()
				per = append(per, n)
				total += n
			}
			return
		}
		reached := waitUntil09(time.Duration(r.N(3, 5))*time.Second, func() bool { _, tot := carried(); return tot >= N })
		per, tot := carried()
		dialsAfterBurst := int(atomic.LoadInt32(&dials))
		stall := meter.Stop()
		desc["live_connections_before_the_burst"], desc["burst_queries"], desc["carried_per_connection"], desc["burst_queries_that_reached_a_server"] = len(lv), N, per, tot
		desc["connections_dialed_for_the_burst"] = dialsAfterBurst - dialsBeforeBurst
		worst := 0
		for _, c := range live() {
			if _, mx, _ := c.srv.stats(); mx > worst {
				worst = mx
			}
		}
		failed := false
		switch {
		case stall > time.Second:
			r.Count("pool:burst-not-judged(stall>1s)")
		case worst > L:
			desc["max_unanswered_on_one_connection"] = worst
			r.Fail("a connection carried more unanswered queries than its limit", desc)
			failed = true
		case dialsAfterBurst > dialsBeforeBurst:
			r.Fail("capacity was lost: quiescent live connections admitted fewer queries than fresh ones, the burst needed an additional connection", desc)
			failed = true
		case !reached:
			r.Fail("capacity was lost: quiescent live connections do not admit their limit any more (burst queries never reached a server; calls hang)", desc)
			r.Count("pool:burst-hung")
			failed = true
		}
		// per connection: its history as the server saw it, replayed on the composed model; compared: what it admits at the end
		if stall <= time.Second && dialsAfterBurst == dialsBeforeBurst {
			// the burst on the model of the transport's pick: queries that got a reservation, room left over all connections
			rooms := make([]string, len(lv))
			for i := range rooms {
				rooms[i] = fmt.Sprint(L)
			}
			r.Line(fmt.Sprintf("pick %d %s", N, strings.Join(rooms, ",")), fmt.Sprintf("%d:%d", tot, N-tot))
			for ci, c := range lv {
				early := 1
				if c == B {
					early = a
				}
				ev := c.srv.log()
				nBurst := 0
				if ci < len(per) {
					nBurst = per[ci]
				}
				// the events of the final burst are not part of the history
				cut := len(ev)
				for w := 0; cut > 0 && w < nBurst; {
					cut--
					if ev[cut] == "w" {
						w++
					}
				}
				ev = ev[:cut]
				var lbl []string
				nw := 0
				for _, e := range ev {
					if e == "w" {
						nw++
					}
				}
				if early > nw {
					early = nw
				}
				for i := 0; i < early; i++ {
					lbl = append(lbl, "l.reserve", "l.enter")
				}
				lbl = append(lbl, "l.dialOk")
				seenW := 0
				for _, e := range ev {
					switch {
					case e == "w" && seenW < early:
						lbl = append(lbl, "l.proceed", "t.enter1")
						seenW++
					case e == "w":
						lbl = append(lbl, "l.reserve", "t.enter1")
						seenW++
					default:
						lbl = append(lbl, "t.reply", "t.exit0")
					}
				}
				if nw == 0 {
					continue
				}
				r.Line(fmt.Sprintf("sys %d %d %s", a, L, strings.Join(lbl, "+")), fmt.Sprintf("a:%d", nBurst))
			}
		}
		answerAll()
		for end := time.Now().Add(time.Second); !failed; {
			left := time.Until(end)
			if left <= 0 || len(burst) == 0 {
				break
			}
			if burst[0].wait(left) {
				burst = burst[1:]
			}
		}
		closed := closeT09(t)
		r.Eval(fmt.Sprintf("pool/%d", ri), true)
		r.Count(fmt.Sprintf("pool:B-dial-ok:%v", bEstablished))
		r.Count(fmt.Sprintf("pool:queued-behind-B:%d", pendingAtDialEnd))
		r.Count(fmt.Sprintf("pool:connections:%d", dialsAfterBurst))
		r.Trace()
		if failed || !closed {
			break // a stuck transport: further rounds would only repeat it
		}
	}
}
