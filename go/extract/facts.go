package main

// T2: fact extraction. Each fact is a small, shape-guarded reading of the Go
// AST: a constant, the operator of a named comparison, a lock mode, the order
// of two statements, a channel capacity... When the code around a fact no
// longer has the recognised shape the fact is emitted as `unknown` (for
// enumerations) or with an `unknown:` note, and the Lean guard that depends
// on it fails.

import (
	"fmt"
	"go/ast"
	"go/parser"
	"go/token"
	"path/filepath"
	"strconv"
	"strings"
)

type fact struct {
	Type string // Lean type
	Lean string // Lean value
	Note string
}

func extractFacts(repo string) map[string]fact {
	fs := map[string]fact{}
	ex := &factExtractor{repo: repo, out: fs, files: map[string]*ast.File{}, fset: token.NewFileSet()}
	for _, f := range factFuncs {
		f(ex)
	}
	return fs
}

type factExtractor struct {
	repo  string
	out   map[string]fact
	files map[string]*ast.File
	fset  *token.FileSet
}

var factFuncs []func(*factExtractor)

func (ex *factExtractor) file(rel string) *ast.File {
	if f, ok := ex.files[rel]; ok {
		return f
	}
	f, err := parser.ParseFile(ex.fset, filepath.Join(ex.repo, rel), nil, parser.ParseComments)
	if err != nil {
		f = nil
	}
	ex.files[rel] = f
	return f
}

func (ex *factExtractor) str(n ast.Node) string {
	tr := translator{fset: ex.fset}
	return tr.str(n)
}

// fn finds a function or method declaration. recv "" = plain function.
func (ex *factExtractor) fn(rel, recv, name string) *ast.FuncDecl {
	f := ex.file(rel)
	if f == nil {
		return nil
	}
	for _, d := range f.Decls {
		fd, ok := d.(*ast.FuncDecl)
		if !ok || fd.Name.Name != name || fd.Body == nil {
			continue
		}
		r := ""
		if fd.Recv != nil && len(fd.Recv.List) > 0 {
			r = strings.TrimPrefix(ex.str(fd.Recv.List[0].Type), "*")
			if i := strings.Index(r, "["); i >= 0 {
				r = r[:i]
			}
		}
		if r == recv {
			return fd
		}
	}
	return nil
}

func (ex *factExtractor) setNat(name string, v int64, ok bool, note string) {
	if !ok {
		ex.out[name] = fact{Type: "Option Nat", Lean: "none", Note: "unknown: " + note}
		return
	}
	ex.out[name] = fact{Type: "Option Nat", Lean: fmt.Sprintf("some %d", v), Note: note}
}

func (ex *factExtractor) setBool(name string, v, ok bool, note string) {
	if !ok {
		ex.out[name] = fact{Type: "Option Bool", Lean: "none", Note: "unknown: " + note}
		return
	}
	ex.out[name] = fact{Type: "Option Bool", Lean: fmt.Sprintf("some %v", v), Note: note}
}

func (ex *factExtractor) setCmp(name string, op token.Token, ok bool, note string) {
	m := map[token.Token]string{token.LSS: ".lt", token.LEQ: ".le", token.GTR: ".gt", token.GEQ: ".ge", token.EQL: ".eq", token.NEQ: ".ne"}
	v, known := m[op]
	if !ok || !known {
		ex.out[name] = fact{Type: "Base.Cmp", Lean: ".unknown", Note: "unknown: " + note}
		return
	}
	ex.out[name] = fact{Type: "Base.Cmp", Lean: v, Note: note}
}

func (ex *factExtractor) setRaw(name, typ, val, note string) {
	ex.out[name] = fact{Type: typ, Lean: val, Note: note}
}

// intLit evaluates an integer literal or a simple constant expression
// (literals combined with * + - <<, and time.Second-style units given in units).
func (ex *factExtractor) intLit(e ast.Expr, units map[string]int64) (int64, bool) {
	switch x := e.(type) {
	case *ast.BasicLit:
		if x.Kind == token.INT {
			v, err := strconv.ParseInt(x.Value, 0, 64)
			return v, err == nil
		}
	case *ast.ParenExpr:
		return ex.intLit(x.X, units)
	case *ast.Ident, *ast.SelectorExpr:
		if v, ok := units[ex.str(e)]; ok {
			return v, true
		}
	case *ast.BinaryExpr:
		a, ok1 := ex.intLit(x.X, units)
		b, ok2 := ex.intLit(x.Y, units)
		if ok1 && ok2 {
			switch x.Op {
			case token.MUL:
				return a * b, true
			case token.ADD:
				return a + b, true
			case token.SUB:
				return a - b, true
			case token.SHL:
				return a << uint(b), true
			}
		}
	}
	return 0, false
}

// constIn finds `const name = <int>` (or `name := <int>`) inside node.
func (ex *factExtractor) constIn(node ast.Node, name string, units map[string]int64) (int64, bool) {
	var val int64
	found := 0
	ast.Inspect(node, func(n ast.Node) bool {
		switch x := n.(type) {
		case *ast.ValueSpec:
			for i, id := range x.Names {
				if id.Name == name && i < len(x.Values) {
					if v, ok := ex.intLit(x.Values[i], units); ok {
						val = v
						found++
					} else {
						found += 100
					}
				}
			}
		}
		return true
	})
	return val, found == 1
}

// pkgConst finds a package-level constant in a file.
func (ex *factExtractor) pkgConst(rel, name string, units map[string]int64) (int64, bool) {
	f := ex.file(rel)
	if f == nil {
		return 0, false
	}
	for _, d := range f.Decls {
		if gd, ok := d.(*ast.GenDecl); ok && gd.Tok == token.CONST {
			if v, ok := ex.constIn(gd, name, units); ok {
				return v, true
			}
		}
	}
	return 0, false
}

// caseClause finds the clause of a `switch tag` whose list contains the string literal lit.
func (ex *factExtractor) caseClause(body ast.Node, tag, lit string) *ast.CaseClause {
	var res *ast.CaseClause
	ast.Inspect(body, func(n ast.Node) bool {
		sw, ok := n.(*ast.SwitchStmt)
		if !ok || sw.Tag == nil || ex.str(sw.Tag) != tag {
			return true
		}
		for _, c := range sw.Body.List {
			cc := c.(*ast.CaseClause)
			for _, e := range cc.List {
				if ex.str(e) == strconv.Quote(lit) {
					res = cc
				}
			}
		}
		return true
	})
	return res
}

// findCond returns the first binary comparison inside node whose printed
// operands are (lhs, rhs).
func (ex *factExtractor) findCmp(node ast.Node, lhs, rhs string) (token.Token, bool) {
	var op token.Token
	n := 0
	ast.Inspect(node, func(x ast.Node) bool {
		if b, ok := x.(*ast.BinaryExpr); ok {
			isCmp := b.Op == token.LSS || b.Op == token.LEQ || b.Op == token.GTR || b.Op == token.GEQ || b.Op == token.EQL || b.Op == token.NEQ
			if isCmp && ex.str(b.X) == lhs && ex.str(b.Y) == rhs {
				op = b.Op
				n++
			}
		}
		return true
	})
	return op, n == 1
}

// calls lists the printed call expressions (function part only) in node, in source order.
func (ex *factExtractor) calls(node ast.Node) []string {
	var out []string
	ast.Inspect(node, func(x ast.Node) bool {
		if c, ok := x.(*ast.CallExpr); ok {
			out = append(out, ex.str(c.Fun))
		}
		return true
	})
	return out
}

func contains(xs []string, s string) bool {
	for _, x := range xs {
		if x == s {
			return true
		}
	}
	return false
}

func indexOf(xs []string, s string) int {
	for i, x := range xs {
		if x == s {
			return i
		}
	}
	return -1
}

var timeUnits = map[string]int64{"time.Second": 1000000000, "time.Millisecond": 1000000, "time.Minute": 60000000000, "time.Hour": 3600000000000}
