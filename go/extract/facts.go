package main

type fact struct {
	Type string // Lean type
	Lean string // Lean value
	Note string
}

func extractFacts(repo string) map[string]fact {
	fs := map[string]fact{}
	ex := &factExtractor{repo: repo, out: fs}
	ex.run()
	return fs
}

type factExtractor struct {
	repo string
	out  map[string]fact
}

func (ex *factExtractor) run() {
	for _, f := range factFuncs {
		f(ex)
	}
}

var factFuncs []func(*factExtractor)
