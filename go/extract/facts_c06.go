package main

import (
	"go/ast"
	"strings"
)

func init() {
	factFuncs = append(factFuncs, func(ex *factExtractor) {
		const crel = "plugin/executable/sequence/chain.go"
		const brel = "plugin/executable/sequence/built_in.go"
		en := ex.fn(crel, "ChainWalker", "ExecNext")
		noMut, nextOK, eocOK, loopOK, prefOK := false, false, false, false, false
		if en != nil {
			noMut = true
			ast.Inspect(en.Body, func(n ast.Node) bool {
				check := func(e ast.Expr) {
					s := ex.str(e)
					if s == "w" || s == "*w" || strings.HasPrefix(s, "w.") || strings.HasPrefix(s, "(*w)") {
						noMut = false
					}
				}
				switch x := n.(type) {
				case *ast.AssignStmt:
					for _, l := range x.Lhs {
						check(l)
					}
				case *ast.IncDecStmt:
					check(x.X)
				case *ast.UnaryExpr:
					if x.Op.String() == "&" && strings.HasPrefix(ex.str(x.X), "w.") {
						noMut = false // taking the address of a field would allow mutation elsewhere
					}
				}
				return true
			})
			ss := stmtStrings(ex, en.Body)
			nextOK = contains(ss, "next := ChainWalker{ p: p + 1, chain: w.chain, jumpBack: w.jumpBack, }") && contains(ss, "return n.RE.Exec(ctx, qCtx, next)")
			eocOK = contains(ss, "if w.jumpBack != nil { return w.jumpBack.ExecNext(ctx, qCtx) }") && ex.str(en.Body.List[len(en.Body.List)-1]) == "return nil"
			loopOK = contains(ss, "p := w.p") && contains(ss, "n := w.chain[p]") && contains(ss, "ok, err := match.Match(ctx, qCtx)") &&
				contains(ss, "if err != nil { return err }") && contains(ss, "if !ok { p++ continue checkMatchesLoop }") &&
				contains(ss, "if err := n.E.Exec(ctx, qCtx); err != nil { return err }")
			// E before RE in the switch
			ast.Inspect(en.Body, func(n ast.Node) bool {
				if sw, ok := n.(*ast.SwitchStmt); ok && sw.Tag == nil && len(sw.Body.List) == 3 {
					c0 := sw.Body.List[0].(*ast.CaseClause)
					c1 := sw.Body.List[1].(*ast.CaseClause)
					if len(c0.List) == 1 && len(c1.List) == 1 && ex.str(c0.List[0]) == "n.E != nil" && ex.str(c1.List[0]) == "n.RE != nil" {
						prefOK = true
					}
				}
				return true
			})
		}
		ex.setBool("c06ExecNextDoesNotMutateWalker", noMut, en != nil, "ExecNext never assigns to *w or its fields (walkers are values; a continuation can be run again)")
		ex.setBool("c06NextIsRestOfChain", nextOK, en != nil, "ExecNext: RE gets ChainWalker{p+1, w.chain, w.jumpBack}")
		ex.setBool("c06EndOfChainJumpsBack", eocOK, en != nil, "ExecNext: at the end of the chain continue with w.jumpBack, else return nil")
		ex.setBool("c06MatchLoopShape", loopOK, en != nil, "ExecNext: matchers in order, error returns, first false skips the rule; E errors return")
		ex.setBool("c06EPreferredOverRE", prefOK, en != nil, "ExecNext: `case n.E != nil` precedes `case n.RE != nil`")
		body := func(recv, name string) string {
			f := ex.fn(brel, recv, name)
			if f == nil {
				return ""
			}
			return ex.str(f.Body)
		}
		ex.setBool("c06ReturnUsesJumpBack", body("ActionReturn", "Exec") == "{ if next.jumpBack != nil { return next.jumpBack.ExecNext(ctx, qCtx) } return nil }", true, "ActionReturn.Exec")
		ex.setBool("c06JumpPushesNext", body("ActionJump", "Exec") == "{ w := NewChainWalker(a.To, &next) return w.ExecNext(ctx, qCtx) }", true, "ActionJump.Exec")
		ex.setBool("c06GotoDropsStack", body("ActionGoto", "Exec") == "{ w := NewChainWalker(a.To, nil) return w.ExecNext(ctx, qCtx) }", true, "ActionGoto.Exec")
		ex.setBool("c06AcceptRejectReturnNil", body("ActionAccept", "Exec") == "{ return nil }" &&
			body("ActionReject", "Exec") == "{ r := new(dns.Msg) r.SetReply(qCtx.Q()) r.Rcode = a.Rcode qCtx.SetResponse(r) return nil }", true, "ActionAccept / ActionReject")
		rm := ex.fn(crel, "reverseMatch", "Match")
		ex.setBool("c06ReverseNegatesNonError", rm != nil && ex.str(rm.Body) == "{ ok, err := r.m.Match(ctx, qCtx) if err != nil { return false, err } return !ok, nil }", rm != nil, "reverseMatch.Match")
		nw := ex.fn(crel, "", "NewChainWalker")
		if nw == nil || ex.str(nw.Body) != "{ return ChainWalker{ chain: chain, jumpBack: jumpBack, } }" {
			ex.setBool("c06JumpPushesNext", false, true, "NewChainWalker changed")
		}
	})
}
