package main

import (
	"go/ast"
	"os"
	"path/filepath"
	"strings"
)

func init() {
	factFuncs = append(factFuncs, func(ex *factExtractor) {
		const crel = "plugin/executable/sequence/chain.go"
		const brel = "plugin/executable/sequence/built_in.go"
		en := ex.fn(crel, "ChainWalker", "ExecNext")
		noMut, nextOK, eocOK, loopOK, prefOK := false, false, false, false, false
		if en != nil {
			noMut = true
			ast.Inspect(en.Body, func(n ast.Node) bool {
				check := func(e ast.Expr) {
					s := ex.str(e)
					if s == "w" || s == "*w" || strings.HasPrefix(s, "w.") || strings.HasPrefix(s, "(*w)") {
						noMut = false
					}
				}
				switch x := n.(type) {
				case *ast.AssignStmt:
					for _, l := range x.Lhs {
						check(l)
					}
				case *ast.IncDecStmt:
					check(x.X)
				case *ast.UnaryExpr:
					if x.Op.String() == "&" && strings.HasPrefix(ex.str(x.X), "w.") {
						noMut = false // taking the address of a field would allow mutation elsewhere
					}
				}
				return true
			})
			ss := stmtStrings(ex, en.Body)
			nextOK = contains(ss, "next := ChainWalker{ p: p + 1, chain: w.chain, jumpBack: w.jumpBack, }") && contains(ss, "return n.RE.Exec(ctx, qCtx, next)")
			eocOK = contains(ss, "if w.jumpBack != nil { return w.jumpBack.ExecNext(ctx, qCtx) }") && ex.str(en.Body.List[len(en.Body.List)-1]) == "return nil"
			loopOK = contains(ss, "p := w.p") && contains(ss, "n := w.chain[p]") && contains(ss, "ok, err := match.Match(ctx, qCtx)") &&
				contains(ss, "if err != nil { return err }") && contains(ss, "if !ok { p++ continue checkMatchesLoop }") &&
				contains(ss, "if err := n.E.Exec(ctx, qCtx); err != nil { return err }")
			// E before RE in the switch
			ast.Inspect(en.Body, func(n ast.Node) bool {
				if sw, ok := n.(*ast.SwitchStmt); ok && sw.Tag == nil && len(sw.Body.List) == 3 {
					c0 := sw.Body.List[0].(*ast.CaseClause)
					c1 := sw.Body.List[1].(*ast.CaseClause)
					if len(c0.List) == 1 && len(c1.List) == 1 && ex.str(c0.List[0]) == "n.E != nil" && ex.str(c1.List[0]) == "n.RE != nil" {
						prefOK = true
					}
				}
				return true
			})
		}
		ex.setBool("c06ExecNextDoesNotMutateWalker", noMut, en != nil, "ExecNext never assigns to *w or its fields (walkers are values; a continuation can be run again)")
		ex.setBool("c06NextIsRestOfChain", nextOK, en != nil, "ExecNext: RE gets ChainWalker{p+1, w.chain, w.jumpBack}")
		ex.setBool("c06EndOfChainJumpsBack", eocOK, en != nil, "ExecNext: at the end of the chain continue with w.jumpBack, else return nil")
		ex.setBool("c06MatchLoopShape", loopOK, en != nil, "ExecNext: matchers in order, error returns, first false skips the rule; E errors return")
		ex.setBool("c06EPreferredOverRE", prefOK, en != nil, "ExecNext: `case n.E != nil` precedes `case n.RE != nil`")
		body := func(recv, name string) string {
			f := ex.fn(brel, recv, name)
			if f == nil {
				return ""
			}
			return ex.str(f.Body)
		}
		ex.setBool("c06ReturnUsesJumpBack", body("ActionReturn", "Exec") == "{ if next.jumpBack != nil { return next.jumpBack.ExecNext(ctx, qCtx) } return nil }", true, "ActionReturn.Exec")
		ex.setBool("c06JumpPushesNext", body("ActionJump", "Exec") == "{ w := NewChainWalker(a.To, &next) return w.ExecNext(ctx, qCtx) }", true, "ActionJump.Exec")
		ex.setBool("c06GotoDropsStack", body("ActionGoto", "Exec") == "{ w := NewChainWalker(a.To, nil) return w.ExecNext(ctx, qCtx) }", true, "ActionGoto.Exec")
		ex.setBool("c06AcceptRejectReturnNil", body("ActionAccept", "Exec") == "{ return nil }" &&
			body("ActionReject", "Exec") == "{ r := new(dns.Msg) r.SetReply(qCtx.Q()) r.Rcode = a.Rcode qCtx.SetResponse(r) return nil }", true, "ActionAccept / ActionReject")
		rm := ex.fn(crel, "reverseMatch", "Match")
		ex.setBool("c06ReverseNegatesNonError", rm != nil && ex.str(rm.Body) == "{ ok, err := r.m.Match(ctx, qCtx) if err != nil { return false, err } return !ok, nil }", rm != nil, "reverseMatch.Match")
		nw := ex.fn(crel, "", "NewChainWalker")
		if nw == nil || ex.str(nw.Body) != "{ return ChainWalker{ chain: chain, jumpBack: jumpBack, } }" {
			ex.setBool("c06JumpPushesNext", false, true, "NewChainWalker changed")
		}
	})
}

// How the chain a Sequence executes is built from the configured rules:
// buildChain appends exactly one node per rule, in order; newNode gives it
// the rule's matchers in order (negated where written with '!') and the
// rule's executable; nothing else in the package writes a Sequence's chain or
// a node's fields; Sequence.Exec walks that chain from its first node.
func init() {
	factFuncs = append(factFuncs, func(ex *factExtractor) {
		const dir = "plugin/executable/sequence"
		const crel = dir + "/chain.go"
		const srel = dir + "/sequence.go"
		bc := ex.fn(crel, "Sequence", "buildChain")
		bcShape := bc != nil && ex.str(bc.Body) == "{ c := make([]*ChainNode, 0, len(rs)) for ri, r := range rs { n, err := s.newNode(bq, r, ri) if err != nil { return fmt.Errorf(\"failed to init rule #%d, %w\", ri, err) } c = append(c, n) } s.chain = c return nil }"
		appends := int64(0)
		loopOK := false
		if bc != nil {
			for _, st := range bc.Body.List {
				rg, ok := st.(*ast.RangeStmt)
				if !ok || ex.str(rg.X) != "rs" {
					continue
				}
				loopOK = true
				ast.Inspect(rg.Body, func(n ast.Node) bool {
					if as, ok := n.(*ast.AssignStmt); ok && len(as.Lhs) == 1 && len(as.Rhs) == 1 {
						if c, ok := as.Rhs[0].(*ast.CallExpr); ok && ex.str(c.Fun) == "append" && len(c.Args) > 0 && ex.str(c.Args[0]) == ex.str(as.Lhs[0]) {
							appends += int64(len(c.Args) - 1)
						}
					}
					return true
				})
			}
		}
		ex.setNat("c06ChainAppendsPerRule", appends, bc != nil && loopOK, "buildChain: nodes appended to the chain per iteration of the loop over the configured rules")
		ex.setBool("c06BuildChainShape", bcShape, bc != nil, "buildChain: for each rule in order: newNode (error aborts), append; then s.chain = c")

		nn := ex.fn(crel, "Sequence", "newNode")
		nnShape := false
		if nn != nil {
			ss := stmtStrings(ex, nn.Body)
			nnShape = len(nn.Body.List) == 7 && ex.str(nn.Body.List[0]) == "n := new(ChainNode)" &&
				strings.HasPrefix(ex.str(nn.Body.List[1]), "for mi, mc := range r.Matches { m, err := s.newMatcher(bq, mc, ri, mi) if err != nil {") &&
				strings.HasSuffix(ex.str(nn.Body.List[1]), "n.Matches = append(n.Matches, m) }") &&
				contains(ss, "e, re, err := s.newExec(bq, r, ri)") && ex.str(nn.Body.List[4]) == "n.E = e" && ex.str(nn.Body.List[5]) == "n.RE = re" &&
				ex.str(nn.Body.List[6]) == "return n, nil"
		}
		nm := ex.fn(crel, "Sequence", "newMatcher")
		if nm != nil {
			l := nm.Body.List
			nnShape = nnShape && len(l) >= 2 && ex.str(l[len(l)-2]) == "if mc.Reverse { m = reverseMatcher(m) }" && ex.str(l[len(l)-1]) == "return m, nil"
		}
		ex.setBool("c06NewNodeShape", nnShape, nn != nil && nm != nil, "newNode: the rule's matchers in configured order (reverseMatcher iff '!'), E/RE from newExec of the same rule")

		// Every path of newMatcher that hands out a matcher has to pass the
		// reverse wiring, which is the last but one statement: count the
		// return statements of newMatcher itself (not of nested function
		// literals), other than the final one, whose first result is not the
		// literal nil (a return that can deliver a matcher), plus gotos/labels
		// (none expected: they could jump over the wiring).
		early := int64(0)
		var earlyWhere []string
		tailOK := false
		if nm != nil {
			l := nm.Body.List
			tailOK = len(l) >= 2 && ex.str(l[len(l)-2]) == "if mc.Reverse { m = reverseMatcher(m) }" && ex.str(l[len(l)-1]) == "return m, nil"
			var last ast.Stmt
			if len(l) > 0 {
				last = l[len(l)-1]
			}
			ast.Inspect(nm.Body, func(n ast.Node) bool {
				switch x := n.(type) {
				case *ast.FuncLit:
					return false
				case *ast.ReturnStmt:
					if ast.Stmt(x) == last {
						return true
					}
					if len(x.Results) == 0 || ex.str(x.Results[0]) != "nil" {
						early++
						earlyWhere = append(earlyWhere, ex.str(x))
					}
				case *ast.BranchStmt:
					if x.Tok.String() == "goto" {
						early++
						earlyWhere = append(earlyWhere, ex.str(x))
					}
				}
				return true
			})
		}
		ex.setNat("c06NewMatcherEarlyReturns", early, nm != nil && tailOK, "newMatcher: returns that can deliver a matcher (first result not nil) located before the final `if mc.Reverse { m = reverseMatcher(m) }; return m, nil`: "+strings.Join(earlyWhere, " | "))

		ns := ex.fn(srel, "", "NewSequence")
		se := ex.fn(srel, "Sequence", "Exec")
		ex.setBool("c06NewSequenceShape", ns != nil && ex.str(ns.Body) == "{ s := &Sequence{} var rc []RuleConfig for _, ra := range ra { rc = append(rc, parseArgs(ra)) } if err := s.buildChain(bq, rc); err != nil { _ = s.Close() return nil, err } return s, nil }", ns != nil,
			"NewSequence: parse every rule in order, buildChain, return the sequence as built")
		ex.setBool("c06SequenceExecWalksWholeChain", se != nil && ex.str(se.Body) == "{ walker := NewChainWalker(s.chain, nil) return walker.ExecNext(ctx, qCtx) }", se != nil, "Sequence.Exec: a fresh walker at the first node of s.chain, no caller")

		// writes to a chain or to a node's fields anywhere else in the package
		ents, err := os.ReadDir(filepath.Join(ex.repo, dir))
		rewrites := int64(0)
		var where []string
		parsed := err == nil
		for _, e := range ents {
			name := e.Name()
			if e.IsDir() || !strings.HasSuffix(name, ".go") || strings.HasSuffix(name, "_test.go") {
				continue
			}
			f := ex.file(dir + "/" + name)
			if f == nil {
				parsed = false
				continue
			}
			for _, d := range f.Decls {
				fd, _ := d.(*ast.FuncDecl)
				fname := ""
				if fd != nil {
					fname = fd.Name.Name
				}
				ast.Inspect(d, func(n ast.Node) bool {
					hit := func(what string) {
						rewrites++
						where = append(where, name+":"+fname+":"+what)
					}
					switch x := n.(type) {
					case *ast.AssignStmt:
						for _, l := range x.Lhs {
							// through an index or a dereference too: c[i].E = ..., (*n).E = ...
							sel, ok := l.(*ast.SelectorExpr)
							if !ok {
								if ix, ok2 := l.(*ast.IndexExpr); ok2 {
									if s2, ok3 := ix.X.(*ast.SelectorExpr); ok3 && s2.Sel.Name == "chain" {
										hit(ex.str(l))
									}
								}
								continue
							}
							switch sel.Sel.Name {
							case "chain":
								if fname != "buildChain" {
									hit(ex.str(l))
								}
							case "E", "RE":
								if fname != "newNode" {
									hit(ex.str(l))
								}
							case "Matches":
								if fname != "newNode" && fname != "parseArgs" {
									hit(ex.str(l))
								}
							}
						}
					case *ast.CompositeLit:
						t := ex.str(x.Type)
						if (t == "ChainNode" || t == "Sequence") && len(x.Elts) > 0 {
							hit(t + "{...}")
						}
					}
					return true
				})
			}
		}
		ex.setNat("c06ChainRewrites", rewrites, parsed, "statements in package sequence, outside buildChain/newNode, that assign a chain or a node's Matches/E/RE, or build a non-empty ChainNode/Sequence literal: "+strings.Join(where, " "))
	})
}

