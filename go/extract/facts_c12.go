package main

import (
	"go/ast"
	"strings"
)

func init() {
	factFuncs = append(factFuncs, func(ex *factExtractor) {
		const rel = "pkg/matcher/domain/matcher.go"
		const urel = "pkg/matcher/domain/utils.go"
		// SubDomainMatcher.Match: a child only replaces (v, ok) if it has a value
		m := ex.fn(rel, "SubDomainMatcher", "Match")
		ok := false
		if m != nil {
			ast.Inspect(m.Body, func(n ast.Node) bool {
				if is, isIf := n.(*ast.IfStmt); isIf && ex.str(is.Cond) == "nextNode.hasValue()" && is.Else == nil &&
					len(is.Body.List) == 1 && ex.str(is.Body.List[0]) == "v, ok = nextNode.getValue()" {
					ok = true
				}
				return true
			})
			ss := stmtStrings(ex, m.Body)
			ok = ok && contains(ss, "currentNode = nextNode") && contains(ss, "v, ok := currentNode.getValue()") && contains(ss, "break") && contains(ss, "return v, ok")
			// and no other assignment to v, ok
			cnt := 0
			for _, s := range ss {
				if s == "v, ok = nextNode.getValue()" {
					cnt++
				}
			}
			ok = ok && cnt == 1
		}
		ex.setBool("c12WalkUpdatesOnlyIfHasValue", ok, m != nil, "SubDomainMatcher.Match: `if nextNode.hasValue() { v, ok = nextNode.getValue() }`, cursor always advances, missing child breaks")
		// MixMatcher.Match order
		mm := ex.fn(rel, "MixMatcher", "Match")
		ok = false
		if mm != nil {
			ast.Inspect(mm.Body, func(n ast.Node) bool {
				if rs, isR := n.(*ast.RangeStmt); isR && ex.str(rs.X) == "[...]Matcher[T]{m.full, m.domain, m.regex, m.keyword}" {
					ok = true
				}
				return true
			})
		}
		ex.setBool("c12MixOrder", ok, mm != nil, "MixMatcher.Match ranges over {m.full, m.domain, m.regex, m.keyword} in this order")
		km := ex.fn(rel, "KeywordMatcher", "Match")
		ex.setBool("c12KeywordUsesContains", km != nil && contains(ex.calls(km.Body), "strings.Contains") && contains(stmtStrings(ex, km.Body), "if strings.Contains(s, k) { return v, true }"), km != nil, "KeywordMatcher.Match: strings.Contains(s, k)")
		nd := ex.fn(urel, "", "NormalizeDomain")
		td := ex.fn(urel, "", "TrimDot")
		ex.setBool("c12NormalizeLowerTrim",
			nd != nil && td != nil && ex.str(nd.Body) == "{ return strings.ToLower(TrimDot(s)) }" &&
				ex.str(td.Body) == "{ if len(s) >= 1 && s[len(s)-1] == '.' { s = s[:len(s)-1] } return s }",
			nd != nil && td != nil, "NormalizeDomain = strings.ToLower(TrimDot(s)); TrimDot removes one trailing dot")
		// which sub-matcher methods normalise their argument first
		all := true
		for _, mth := range [][2]string{{"SubDomainMatcher", "Match"}, {"SubDomainMatcher", "Add"}, {"FullMatcher", "Add"}, {"FullMatcher", "Match"}, {"KeywordMatcher", "Match"}, {"RegexMatcher", "Match"}} {
			f := ex.fn(rel, mth[0], mth[1])
			if f == nil || len(f.Body.List) == 0 || ex.str(f.Body.List[0]) != "s = NormalizeDomain(s)" {
				all = false
			}
		}
		ka := ex.fn(rel, "KeywordMatcher", "Add")
		if ka == nil || len(ka.Body.List) == 0 || ex.str(ka.Body.List[0]) != "keyword = NormalizeDomain(keyword)" {
			all = false
		}
		ra := ex.fn(rel, "RegexMatcher", "Add")
		if ra == nil || contains(ex.calls(ra.Body), "NormalizeDomain") {
			all = false
		}
		ex.setBool("c12SubMatchersNormalize", all, true, "full/domain/keyword Add and every Match normalise first; RegexMatcher.Add keeps the expression as written")

		// ---- data_provider/domain_set: how a set is assembled from its own rules and other sets
		const srel = "plugin/data_provider/domain_set/domain_set.go"
		const grel = "plugin/data_provider/domain_set/group.go"
		nds := ex.fn(srel, "", "NewDomainSet")
		gdm := ex.fn(srel, "DomainSet", "GetDomainMatcher")
		// (a) the group slice of a set belongs to the set: it starts as the zero value of a fresh DomainSet,
		// every write to it in the package appends single members to the set's own slice
		// (`ds.mg = append(ds.mg, m)`, never a slice obtained from another set, never a spread `g...`),
		// and GetDomainMatcher only hands it out
		owned := false
		if nds != nil && gdm != nil {
			owned = ex.str(gdm.Body) == "{ return MatcherGroup(d.mg) }"
			ss := stmtStrings(ex, nds.Body)
			owned = owned && contains(ss, "ds := &DomainSet{}") && contains(ss, "return ds, nil")
			writes := 0
			for _, rel := range []string{srel, grel} {
				f := ex.file(rel)
				if f == nil {
					owned = false
					continue
				}
				ast.Inspect(f, func(n ast.Node) bool {
					switch st := n.(type) {
					case *ast.AssignStmt:
						for _, l := range st.Lhs {
							if ls := ex.str(l); ls == "mg" || strings.HasSuffix(ls, ".mg") || strings.Contains(ls, ".mg[") {
								writes++
								if ex.str(st) != "ds.mg = append(ds.mg, m)" {
									owned = false
								}
							}
						}
					case *ast.CompositeLit:
						if t := ex.str(st.Type); (t == "DomainSet" || t == "MatcherGroup") && len(st.Elts) > 0 {
							owned = false
						}
					case *ast.UnaryExpr:
						if st.Op.String() == "&" && strings.HasSuffix(ex.str(st.X), ".mg") {
							owned = false
						}
					}
					return true
				})
			}
			owned = owned && writes == 2
		}
		ex.setBool("c12SetGroupOwned", owned, nds != nil && gdm != nil, "domain_set: the only writes to a set's group are `ds.mg = append(ds.mg, m)` (one member at a time, onto the new set's own slice, which starts nil); GetDomainMatcher returns MatcherGroup(d.mg)")
		// (b) the shape of NewDomainSet: own MixMatcher (default type domain) kept iff Len() > 0, then one
		// member per tag of args.Sets, in order, a missing provider is an error
		shape := false
		if nds != nil && len(nds.Body.List) == 6 {
			l := nds.Body.List
			shape = ex.str(l[0]) == "ds := &DomainSet{}" &&
				ex.str(l[1]) == "m := domain.NewDomainMixMatcher()" &&
				ex.str(l[2]) == "if err := LoadExpsAndFiles(args.Exps, args.Files, m); err != nil { return nil, err }" &&
				ex.str(l[3]) == "if m.Len() > 0 { ds.mg = append(ds.mg, m) }" &&
				ex.str(l[5]) == "return ds, nil"
			if fr, isR := l[4].(*ast.RangeStmt); shape && isR && ex.str(fr.X) == "args.Sets" && ex.str(fr.Value) == "tag" && len(fr.Body.List) == 4 {
				b := fr.Body.List
				shape = ex.str(b[0]) == "provider, _ := bp.M().GetPlugin(tag).(data_provider.DomainMatcherProvider)" &&
					strings.HasPrefix(ex.str(b[1]), "if provider == nil { return nil, ") &&
					ex.str(b[2]) == "m := provider.GetDomainMatcher()" &&
					ex.str(b[3]) == "ds.mg = append(ds.mg, m)"
			} else {
				shape = false
			}
		}
		ndm := ex.fn("pkg/matcher/domain/load_helper.go", "", "NewDomainMixMatcher")
		shape = shape && ndm != nil && contains(stmtStrings(ex, ndm.Body), "mixMatcher.SetDefaultMatcher(MatcherDomain)")
		ex.setBool("c12SetMembersOwnThenSets", shape, nds != nil, "NewDomainSet: own MixMatcher (default type domain) is a member iff m.Len() > 0, then GetDomainMatcher() of every tag in args.Sets, in order; unknown tag = error")
		// (c) MatcherGroup.Match: some member matches
		gm := ex.fn(grel, "MatcherGroup", "Match")
		ex.setBool("c12GroupMatchIsAny", gm != nil && ex.str(gm.Body) == "{ for _, m := range mg { if _, ok := m.Match(s); ok { return struct{}{}, true } } return struct{}{}, false }", gm != nil, "MatcherGroup.Match: true iff some member's Match says so")
		// (d) Len: labelNode.len = valued nodes below the node; SubDomainMatcher.Len adds one for a value at the
		// root (the rule for the root domain); MixMatcher.Len sums it with the three map sizes
		ln := ex.fn(urel, "labelNode", "len")
		ml := ex.fn(rel, "MixMatcher", "Len")
		sl := ex.fn(rel, "SubDomainMatcher", "Len")
		lenOk := ln != nil && ml != nil && sl != nil &&
			ex.str(ln.Body) == "{ l := 0 for _, node := range n.children { l += node.len() if node.hasValue() { l++ } } return l }" &&
			ex.str(sl.Body) == "{ l := m.root.len() if m.root.hasValue() { l++ } return l }" &&
			contains(stmtStrings(ex, ml.Body), "sum += matcher.Len()")
		if lenOk {
			lenOk = false
			ast.Inspect(ml.Body, func(n ast.Node) bool {
				if rs, isR := n.(*ast.RangeStmt); isR && ex.str(rs.X) == "[...]interface{ Len() int }{m.full, m.domain, m.regex, m.keyword}" {
					lenOk = true
				}
				return true
			})
		}
		ex.setBool("c12LenCountsValuedNodesAndRoot", lenOk, ln != nil && ml != nil && sl != nil, "MixMatcher.Len = full + domain + regex + keyword; SubDomainMatcher.Len = labelNode.len of the root (valued nodes below it) + 1 if the root itself has a value")
		// ---- rules that carry values: the way from a line of text to Add
		// (e) hosts.ParseIPs: the rule is the first blank-separated field exactly as written (a regular
		// expression must reach RegexMatcher.Add unchanged); `pattern` is assigned once and returned
		const hrel = "pkg/hosts/hosts.go"
		pi := ex.fn(hrel, "", "ParseIPs")
		asWritten := false
		if pi != nil {
			ss := stmtStrings(ex, pi.Body)
			asWritten = contains(ss, "f := strings.Fields(s)") && contains(ss, "pattern := f[0]") && contains(ss, "return pattern, v, nil")
			ast.Inspect(pi.Body, func(n ast.Node) bool {
				if as, isA := n.(*ast.AssignStmt); isA {
					for _, l := range as.Lhs {
						if ex.str(l) == "pattern" && ex.str(as) != "pattern := f[0]" {
							asWritten = false
						}
					}
				}
				return true
			})
		}
		ex.setBool("c12HostsRuleAsWritten", asWritten, pi != nil, "hosts.ParseIPs: `pattern := f[0]` (first field of strings.Fields(s)) is the only assignment to pattern, and it is returned")
		// (f) the text loader hands every line on as a string of its own (scanner.Text() copies out of the
		// scanner's read buffer; the sub-matchers keep substrings of it as map keys / trie labels), and Load
		// passes what parseString returned straight to Add
		const lrel = "pkg/matcher/domain/load_helper.go"
		lt := ex.fn(lrel, "", "LoadFromTextReader")
		ld := ex.fn(lrel, "", "Load")
		copies := false
		if lt != nil && ld != nil {
			ss := stmtStrings(ex, lt.Body)
			copies = contains(ss, "s := scanner.Text()") && contains(ss, "err := Load(m, s, parseString)")
			for _, c := range ex.calls(lt.Body) {
				if c == "scanner.Bytes" || strings.Contains(c, "Unsafe") || strings.HasPrefix(c, "unsafe.") {
					copies = false
				}
			}
			ls := stmtStrings(ex, ld.Body)
			copies = copies && contains(ls, "pattern, v, err := parseString(s)") && contains(ls, "return m.Add(pattern, v)")
		}
		ex.setBool("c12LoaderOwnsLineStrings", copies, lt != nil && ld != nil, "LoadFromTextReader: `s := scanner.Text()` (a copy; no scanner.Bytes / unsafe conversion), each non-empty line goes to Load, which returns m.Add(pattern, v) of what parseString gave")
		// (g) the qname / cname matchers (plugin/matcher/base_domain): like a set, a matcher's group starts nil
		// (`m = &Matcher{match: f}`) and is only ever extended by one member at a time on its own slice; it never
		// takes over the slice of a referenced set
		const brel = "plugin/matcher/base_domain/domain_matcher.go"
		nm := ex.fn(brel, "", "NewMatcher")
		mOwned := false
		if bf := ex.file(brel); bf != nil && nm != nil {
			ss := stmtStrings(ex, nm.Body)
			mOwned = contains(ss, "m = &Matcher{ match: f, }") && contains(ss, "return m, nil")
			writes := 0
			ast.Inspect(bf, func(n ast.Node) bool {
				switch st := n.(type) {
				case *ast.AssignStmt:
					for _, l := range st.Lhs {
						if ls := ex.str(l); ls == "mg" || strings.HasSuffix(ls, ".mg") || strings.Contains(ls, ".mg[") {
							writes++
							if t := ex.str(st); t != "m.mg = append(m.mg, dm)" && t != "m.mg = append(m.mg, anonymousSet)" {
								mOwned = false
							}
						}
					}
				case *ast.CompositeLit:
					if ex.str(st.Type) == "Matcher" && ex.str(st) != "Matcher{ match: f, }" {
						mOwned = false
					}
				case *ast.UnaryExpr:
					if st.Op.String() == "&" && strings.HasSuffix(ex.str(st.X), ".mg") {
						mOwned = false
					}
				}
				return true
			})
			mOwned = mOwned && writes == 2
		}
		ex.setBool("c12MatcherGroupOwned", mOwned, nm != nil, "base_domain.NewMatcher: the matcher starts as &Matcher{match: f} (nil group); the only writes to its group are `m.mg = append(m.mg, dm)` (one per referenced set) and `m.mg = append(m.mg, anonymousSet)`")
		// (h) the hosts plugin loads every entry and every file line into the very MixMatcher it answers from:
		// no rule is filtered or rewritten between ParseIPs and Add (a rule whose value is the empty address
		// list is a rule like any other and shadows less specific rules)
		const hprel = "plugin/executable/hosts/hosts.go"
		nh := ex.fn(hprel, "", "NewHosts")
		direct := false
		if nh != nil {
			ss := stmtStrings(ex, nh.Body)
			direct = contains(ss, "m := domain.NewMixMatcher[*hosts.IPs]()") && contains(ss, "m.SetDefaultMatcher(domain.MatcherFull)") &&
				contains(ss, "return &Hosts{ h: hosts.NewHosts(m), }, nil")
			loads := 0
			for _, t := range ss {
				if strings.HasPrefix(t, "if err := domain.Load[*hosts.IPs](m, entry, hosts.ParseIPs); err != nil {") ||
					strings.HasPrefix(t, "if err := domain.LoadFromTextReader[*hosts.IPs](m, bytes.NewReader(b), hosts.ParseIPs); err != nil {") {
					loads++
				}
			}
			nAssign := 0
			ast.Inspect(nh.Body, func(n ast.Node) bool {
				if st, isA := n.(*ast.AssignStmt); isA {
					for _, l := range st.Lhs {
						if ex.str(l) == "m" {
							nAssign++
						}
					}
				}
				return true
			})
			direct = direct && loads == 2 && nAssign == 1
		}
		ex.setBool("c12HostsLoadsEveryRule", direct, nh != nil, "hosts plugin NewHosts: m is a MixMatcher (default type full), assigned once; entries go through domain.Load(m, entry, hosts.ParseIPs), files through domain.LoadFromTextReader(m, ..., hosts.ParseIPs), and the answers come from hosts.NewHosts(m): no rule is dropped between parser and matcher")
	})
}
