package main

import "go/ast"

func init() {
	factFuncs = append(factFuncs, func(ex *factExtractor) {
		const rel = "pkg/matcher/domain/matcher.go"
		const urel = "pkg/matcher/domain/utils.go"
		// SubDomainMatcher.Match: a child only replaces (v, ok) if it has a value
		m := ex.fn(rel, "SubDomainMatcher", "Match")
		ok := false
		if m != nil {
			ast.Inspect(m.Body, func(n ast.Node) bool {
				if is, isIf := n.(*ast.IfStmt); isIf && ex.str(is.Cond) == "nextNode.hasValue()" && is.Else == nil &&
					len(is.Body.List) == 1 && ex.str(is.Body.List[0]) == "v, ok = nextNode.getValue()" {
					ok = true
				}
				return true
			})
			ss := stmtStrings(ex, m.Body)
			ok = ok && contains(ss, "currentNode = nextNode") && contains(ss, "v, ok := currentNode.getValue()") && contains(ss, "break") && contains(ss, "return v, ok")
			// and no other assignment to v, ok
			cnt := 0
			for _, s := range ss {
				if s == "v, ok = nextNode.getValue()" {
					cnt++
				}
			}
			ok = ok && cnt == 1
		}
		ex.setBool("c12WalkUpdatesOnlyIfHasValue", ok, m != nil, "SubDomainMatcher.Match: `if nextNode.hasValue() { v, ok = nextNode.getValue() }`, cursor always advances, missing child breaks")
		// MixMatcher.Match order
		mm := ex.fn(rel, "MixMatcher", "Match")
		ok = false
		if mm != nil {
			ast.Inspect(mm.Body, func(n ast.Node) bool {
				if rs, isR := n.(*ast.RangeStmt); isR && ex.str(rs.X) == "[...]Matcher[T]{m.full, m.domain, m.regex, m.keyword}" {
					ok = true
				}
				return true
			})
		}
		ex.setBool("c12MixOrder", ok, mm != nil, "MixMatcher.Match ranges over {m.full, m.domain, m.regex, m.keyword} in this order")
		km := ex.fn(rel, "KeywordMatcher", "Match")
		ex.setBool("c12KeywordUsesContains", km != nil && contains(ex.calls(km.Body), "strings.Contains") && contains(stmtStrings(ex, km.Body), "if strings.Contains(s, k) { return v, true }"), km != nil, "KeywordMatcher.Match: strings.Contains(s, k)")
		nd := ex.fn(urel, "", "NormalizeDomain")
		td := ex.fn(urel, "", "TrimDot")
		ex.setBool("c12NormalizeLowerTrim",
			nd != nil && td != nil && ex.str(nd.Body) == "{ return strings.ToLower(TrimDot(s)) }" &&
				ex.str(td.Body) == "{ if len(s) >= 1 && s[len(s)-1] == '.' { s = s[:len(s)-1] } return s }",
			nd != nil && td != nil, "NormalizeDomain = strings.ToLower(TrimDot(s)); TrimDot removes one trailing dot")
		// which sub-matcher methods normalise their argument first
		all := true
		for _, mth := range [][2]string{{"SubDomainMatcher", "Match"}, {"SubDomainMatcher", "Add"}, {"FullMatcher", "Add"}, {"FullMatcher", "Match"}, {"KeywordMatcher", "Match"}, {"RegexMatcher", "Match"}} {
			f := ex.fn(rel, mth[0], mth[1])
			if f == nil || len(f.Body.List) == 0 || ex.str(f.Body.List[0]) != "s = NormalizeDomain(s)" {
				all = false
			}
		}
		ka := ex.fn(rel, "KeywordMatcher", "Add")
		if ka == nil || len(ka.Body.List) == 0 || ex.str(ka.Body.List[0]) != "keyword = NormalizeDomain(keyword)" {
			all = false
		}
		ra := ex.fn(rel, "RegexMatcher", "Add")
		if ra == nil || contains(ex.calls(ra.Body), "NormalizeDomain") {
			all = false
		}
		ex.setBool("c12SubMatchersNormalize", all, true, "full/domain/keyword Add and every Match normalise first; RegexMatcher.Add keeps the expression as written")
	})
}
