package main

import "math/big"

type groupSpec struct {
	fnSpec
	Group string // Gen/Fn<Group>.lean
}

func b(s string) lx   { return lx{s: s, t: tBool} }
func i(s string) lx   { return lx{s: s, t: tInt} }
func u16(s string) lx { return lx{s: s, t: tU16} }
func by(s string) lx  { return lx{s: s, t: tBytes} }

var fnSpecs = []groupSpec{
	// ---------------------------------------------------------------- C04
	{Group: "Cache", fnSpec: fnSpec{
		File: "plugin/executable/cache/utils.go", Func: "getMsgKey",
		Lean: "getMsgKey", Params: "(q : Query)", Ret: "Bytes",
		Expr: map[string]lx{
			"q.Response":             b("q.response"),
			"q.Opcode":               i("q.opcode"),
			"dns.OpcodeQuery":        i("(0 : Int)"),
			"len(q.Question)":        i("q.nQuestion"),
			"question.Qtype":         u16("q.qtype"),
			"question.Qclass":        u16("q.qclass"),
			"question.Name":          by("q.name"),
			"q.AuthenticatedData":    b("q.ad"),
			"q.CheckingDisabled":     b("q.cd"),
			"opt != nil && opt.Do()": b("q.dnssecOk"),
		},
		Skip: []string{"question := q.Question[0]", "opt := q.IsEdns0()"},
		Doc:  "; `q.IsEdns0() != nil && opt.Do()` is the field `dnssecOk` of the model query",
	}},
	// ---------------------------------------------------------------- C17 / C18
	{Group: "Upstream", fnSpec: fnSpec{
		File: "pkg/upstream/utils.go", Func: "msgTruncated",
		Lean: "msgTruncated", Params: "(b : Bytes)", Ret: "Bool",
		Vars: map[string]ty{"b": tBytes},
	}},
	{Group: "Upstream", fnSpec: fnSpec{
		File: "pkg/upstream/utils.go", Func: "tryTrimIpv6Brackets",
		Lean: "tryTrimIpv6Brackets", Params: "(s : Bytes)", Ret: "Bytes",
		Vars: map[string]ty{"s": tBytes},
	}},
	{Group: "Upstream", fnSpec: fnSpec{
		File: "pkg/upstream/upstream.go", Func: "ExchangeContext", Recv: "udpWithFallback",
		Lean: "udpWithFallbackExchange", Params: "(udp tcp : Bytes → Except Nat Bytes) (q : Bytes)", Ret: "Except Nat Bytes × Bool",
		Vars: map[string]ty{"q": tBytes},
		Expr: map[string]lx{"msgTruncated(*r)": b("(msgTruncated r)")},
		Stmt: map[string]string{
			"r, err := u.u.ExchangeContext(ctx, q)": "match udp q with\n| .error e => (.error e, false)\n| .ok r =>",
			"return u.t.ExchangeContext(ctx, q)":    "return (tcp q, true)",
			"return r, nil":                         "return (.ok r, false)",
		},
		StmtVars: map[string]map[string]ty{"r, err := u.u.ExchangeContext(ctx, q)": {"r": tBytes}},
		Skip:     []string{"if err != nil { return nil, err }", "pool.ReleaseBuf(r)"},
		Doc:      "; the two transports are parameters; the Bool says whether the TCP transport was called; the UDP error propagates (the skipped `if err != nil`)",
	}},
	// ---------------------------------------------------------------- C16
	{Group: "Framing", fnSpec: fnSpec{
		File: "pkg/upstream/transport/utils.go", Func: "copyMsgWithLenHdr",
		Lean: "copyMsgWithLenHdr", Params: "(m : Bytes)", Ret: "Option Bytes",
		Vars: map[string]ty{"m": tBytes},
		Expr: map[string]lx{"dns.MaxMsgSize": constLx(big.NewInt(65535))},
		Stmt: map[string]string{
			"return nil, ErrPayloadOverFlow": "return none",
			"return bp, nil":                 "return some bp",
		},
		Doc: "; dns.MaxMsgSize = 65535 (checked by the correspondence); result none = ErrPayloadOverFlow",
	}},
	{Group: "Framing", fnSpec: fnSpec{
		File: "pkg/dnsutils/net_io.go", Func: "WriteRawMsgToTCP",
		Lean: "writeRawMsgToTCP", Params: "(b : Bytes)", Ret: "Option Bytes",
		Vars: map[string]ty{"b": tBytes},
		Expr: map[string]lx{"dns.MaxMsgSize": constLx(big.NewInt(65535))},
		Stmt: map[string]string{
			`return 0, fmt.Errorf("payload length %d is greater than dns max msg size", len(b))`: "return none",
			"return c.Write((*buf))": "return some buf",
		},
		Skip: []string{"defer pool.ReleaseBuf(buf)"},
		Doc:  "; result = the argument of the single c.Write call, none = size error before any write",
	}},
	{Group: "Framing", fnSpec: fnSpec{
		File: "pkg/dnsutils/net_io.go", Func: "ReadRawMsgFromTCP",
		Lean: "readRawMsgFromTCP", Params: "(c : Go.Stream)", Ret: "Except Go.ReadErr (Bytes × Go.Stream)",
		Vars: map[string]ty{"h": tBytes},
		Stmt: map[string]string{
			"h := pool.GetBuf(2)":            "let h : Bytes := Go.make 2",
			"_, err := io.ReadFull(c, *h)":   "match Go.readFull c h.length with\n| .error e => .error e\n| .ok (h, c) =>",
			"return nil, ErrPayloadTooSmall": "return .error .tooSmall",
			"b := pool.GetBuf(int(length))":  "let b : Bytes := Go.make (length.toNat : Int)",
			"_, err = io.ReadFull(c, *b)":    "match Go.readFull c b.length with\n| .error e => .error e\n| .ok (b, c) =>",
			"return b, nil":                  "return .ok (b, c)",
		},
		StmtVars: map[string]map[string]ty{
			"h := pool.GetBuf(2)":           {"h": tBytes},
			"b := pool.GetBuf(int(length))": {"b": tBytes},
		},
		Skip: []string{"defer pool.ReleaseBuf(h)", "if err != nil { return nil, err }", "if err != nil { pool.ReleaseBuf(b) return nil, err }"},
		Doc:  "; io.ReadFull is Go.readFull on a chunked stream; its error propagates (the two `if err != nil` blocks)",
	}},
	{Group: "Framing", fnSpec: fnSpec{
		File: "pkg/pool/msg_buf.go", Func: "PackTCPBuffer",
		Lean: "packTCPBuffer", Params: "(wire : Bytes)", Ret: "Option Bytes",
		Vars: map[string]ty{"wire": tBytes},
		Expr: map[string]lx{"dns.MaxMsgSize": constLx(big.NewInt(65535))},
		Stmt: map[string]string{
			`return nil, fmt.Errorf("dns payload size %d is too large", l)`: "return none",
			"return msgBuf, nil": "return some msgBuf",
		},
		Skip: []string{"packBuf := GetBuf(packBufferSize)", "defer ReleaseBuf(packBuf)", "wire, err := m.PackBuffer((*packBuf)[2:])", "if err != nil { return nil, err }"},
		Doc:  "; `wire` = what m.PackBuffer returned (miekg/dns, not modelled; a pack error propagates: the skipped `if err != nil`); result = the framed buffer handed to the caller, none = size error",
	}},
	{Group: "Framing", fnSpec: fnSpec{
		File: "pkg/pool/msg_buf.go", Func: "PackBuffer",
		Lean: "packBuffer", Params: "(wire : Bytes)", Ret: "Bytes",
		Vars: map[string]ty{"wire": tBytes},
		Stmt: map[string]string{"return msgBuf, nil": "return msgBuf"},
		Skip: []string{"packBuf := GetBuf(packBufferSize)", "defer ReleaseBuf(packBuf)", "wire, err := m.PackBuffer(*packBuf)", "if err != nil { return nil, err }"},
		Doc:  "; `wire` = what m.PackBuffer returned; result = the private copy handed to the caller (datagram transports: no header)",
	}},
	// ---------------------------------------------------------------- C09: the counter updates of one connection
	{Group: "Conn", fnSpec: fnSpec{
		File: "pkg/upstream/transport/conn_traditional.go", Func: "ReserveNewQuery", Recv: "TraditionalDnsConn",
		Lean: "tdcReserveNewQuery", Params: "(closed : Bool) (queueLen reserved maxCq : Int)", Ret: "Bool × Bool × Int",
		Expr: map[string]lx{
			"dc.closed.Load()": b("closed"),
			"len(dc.queue)":    i("queueLen"),
			"dc.reservedQuery": i("reserved"),
			"dc.maxCq":         i("maxCq"),
		},
		Stmt: map[string]string{
			"return nil, true":                         "return (false, true, reserved)",
			"return nil, false":                        "return (false, false, reserved)",
			"dc.reservedQuery++":                       "let reserved := reserved + 1",
			"return (*tdcOneTimeExchanger)(dc), false": "return (true, false, reserved)",
		},
		Skip: []string{"dc.queueMu.Lock()", "defer dc.queueMu.Unlock()"},
		Doc:  "; result = (a reservation was handed out, the connection reported itself closed, the new value of reservedQuery); the mutex is the atomic step",
	}},
	{Group: "Conn", fnSpec: fnSpec{
		File: "pkg/upstream/transport/conn_traditional.go", Func: "WithdrawReserved", Recv: "tdcOneTimeExchanger",
		Lean: "tdcWithdrawReserved", Params: "(reserved : Int)", Ret: "Int",
		Expr: map[string]lx{"ote.reservedQuery": i("reserved")},
		Stmt: map[string]string{
			"ote.reservedQuery--":  "let reserved := reserved - 1",
			"ote.queueMu.Unlock()": "return reserved",
		},
		Skip: []string{"ote.queueMu.Lock()"},
		Doc:  "; result = the new value of reservedQuery",
	}},
	{Group: "Conn", fnSpec: fnSpec{
		File: "pkg/upstream/transport/conn_lazy_dial.go", Func: "WithdrawReserved", Recv: "lazyDnsConnEarlyReservedExchanger",
		Lean: "lazyWithdrawReserved", Params: "(wg reserved : Int)", Ret: "Int × Int",
		Expr: map[string]lx{"ote.reservedQuery": i("reserved")},
		Stmt: map[string]string{
			"ote.earlyReserveCallWg.Done()": "let wg := wg - 1",
			"ote.reservedQuery--":           "let reserved := reserved - 1",
			"ote.mu.Unlock()":               "return (wg, reserved)",
		},
		Skip: []string{"ote.mu.Lock()"},
		Doc:  "; result = the new values of earlyReserveCallWg and reservedQuery",
	}},
	// ---------------------------------------------------------------- C11: the size clamp
	{Group: "Store", fnSpec: fnSpec{
		File: "pkg/cache/cache.go", Func: "init", Recv: "Opts",
		Lean: "cacheOptsInitSize", Params: "(size : Int)", Ret: "Int",
		Expr: map[string]lx{"opts.Size": i("size")},
		Stmt: map[string]string{
			"opts.Size = 1024": "let size := (1024 : Int)",
			"utils.SetDefaultNum(&opts.CleanerInterval, defaultCleanerInterval)": "return size",
		},
		Doc: "; result = Opts.Size after init (the cleaner interval is not modelled)",
	}},
	// ---------------------------------------------------------------- C05: how long an answer is kept
	{Group: "Cache", fnSpec: fnSpec{
		File: "plugin/executable/cache/utils.go", Func: "saveRespToCache",
		Lean: "saveRespToCacheTtl", Params: "(truncated : Bool) (rcode : Int) (minTTL : UInt32) (nAnswer : Int) (lazyCacheTtl : Int)", Ret: "Option (Int × Int)",
		Vars: map[string]ty{"minTTL": tU32, "lazyCacheTtl": tInt},
		Expr: map[string]lx{
			"r.Truncated":            b("truncated"),
			"r.Rcode":                i("rcode"),
			"dns.RcodeNameError":     i("(3 : Int)"),
			"dns.RcodeServerFailure": i("(2 : Int)"),
			"dns.RcodeSuccess":       i("(0 : Int)"),
			"len(r.Answer)":          i("nAnswer"),
			"time.Second":            i("(1000000000 : Int)"),
		},
		Stmt: map[string]string{
			"return false": "return none",
			"return true":  "return some (msgTtl, cacheTtl)",
		},
		Skip: []string{"minTTL := dnsutils.GetMinimalTTL(r)", "now := time.Now()", "backend.Store(key(msgKey), v, now.Add(cacheTtl))",
			"v := &item{ resp: copyNoOpt(r), storedTime: now, expirationTime: now.Add(msgTtl), }"},
		Doc: "; the decision part of saveRespToCache: none = not stored, some (message lifetime, cache-entry lifetime) in ns; minTTL = dnsutils.GetMinimalTTL(r)",
	}},
	// ---------------------------------------------------------------- C03: the UDP size the reply is truncated to
	{Group: "Handler", fnSpec: fnSpec{
		File: "pkg/server_handler/entry_handler.go", Func: "getValidUDPSize",
		Lean: "getValidUDPSize", Params: "(hasOpt : Bool) (advertised : UInt16)", Ret: "Int",
		Expr: map[string]lx{
			"opt != nil":     b("hasOpt"),
			"opt.UDPSize()":  u16("advertised"),
			"dns.MinMsgSize": constLx(big.NewInt(512)),
		},
		Doc: "; dns.MinMsgSize = 512 (checked by the correspondence); `opt` = the client's OPT record, if any",
	}},
	// ---------------------------------------------------------------- C12: the label scanner
	{Group: "Domain", fnSpec: fnSpec{
		File: "pkg/matcher/domain/utils.go", Func: "TrimDot",
		Lean: "trimDot", Params: "(s : Bytes)", Ret: "Bytes",
		Vars: map[string]ty{"s": tBytes},
	}},
	{Group: "Domain", fnSpec: fnSpec{
		File: "pkg/matcher/domain/utils.go", Func: "Scan", Recv: "ReverseDomainScanner",
		Lean: "scannerScan", Params: "(str : Bytes) (p t : Int)", Ret: "Bool × Int × Int",
		Vars:  map[string]ty{"p": tInt, "t": tInt},
		Expr:  map[string]lx{"s.p": i("p"), "s.t": i("t"), "s.s": by("str")},
		Alias: map[string]string{"s.p": "p", "s.t": "t"},
		Stmt: map[string]string{
			"return false": "return (false, p, t)",
			"return true":  "return (true, p, t)",
		},
		Doc: "; the scanner's fields are parameters and results: (more labels, p, t)",
	}},
	{Group: "Domain", fnSpec: fnSpec{
		File: "pkg/matcher/domain/utils.go", Func: "NextLabel", Recv: "ReverseDomainScanner",
		Lean: "scannerNextLabel", Params: "(str : Bytes) (p t : Int)", Ret: "Bytes",
		Expr: map[string]lx{"s.p": i("p"), "s.t": i("t"), "s.s": by("str")},
	}},
	// ---------------------------------------------------------------- C05: what the TTL helpers do to one record
	{Group: "Ttl", fnSpec: fnSpec{
		File: "pkg/dnsutils/msg.go", Func: "GetMinimalTTL", LoopBody: true, Result: "(hasRecord, minTTL)",
		Lean: "getMinimalTTLStep", Params: "(rrtype : UInt16) (rttl : UInt32) (hasRecord : Bool) (minTTL : UInt32)", Ret: "Bool × UInt32",
		Vars: map[string]ty{"hasRecord": tBool, "minTTL": tU32},
		Expr: map[string]lx{"hdr.Rrtype": u16("rrtype"), "dns.TypeOPT": constLx(big.NewInt(41)), "hdr.Ttl": lx{s: "rttl", t: tU32}},
		Skip: []string{"hdr := rr.Header()"},
		Doc:  "; the body of the innermost loop: one record (type, ttl) and the loop-carried (hasRecord, minTTL)",
	}},
	{Group: "Ttl", fnSpec: fnSpec{
		File: "pkg/dnsutils/msg.go", Func: "SubtractTTL", LoopBody: true, Result: "(rttl, overflowed)",
		Lean: "subtractTTLStep", Params: "(rrtype : UInt16) (rttl : UInt32) (delta : UInt32) (overflowed : Bool)", Ret: "UInt32 × Bool",
		Vars:  map[string]ty{"rttl": tU32, "delta": tU32, "overflowed": tBool},
		Expr:  map[string]lx{"hdr.Rrtype": u16("rrtype"), "dns.TypeOPT": constLx(big.NewInt(41)), "hdr.Ttl": lx{s: "rttl", t: tU32}},
		Alias: map[string]string{"hdr.Ttl": "rttl"},
		Skip:  []string{"hdr := rr.Header()"},
		Doc:   "; the body of the innermost loop: result = (the record's new ttl, overflowed)",
	}},
	{Group: "Ttl", fnSpec: fnSpec{
		File: "pkg/dnsutils/msg.go", Func: "SetTTL", LoopBody: true, Result: "rttl",
		Lean: "setTTLStep", Params: "(rrtype : UInt16) (rttl : UInt32) (ttl : UInt32)", Ret: "UInt32",
		Vars:  map[string]ty{"rttl": tU32, "ttl": tU32},
		Expr:  map[string]lx{"hdr.Rrtype": u16("rrtype"), "dns.TypeOPT": constLx(big.NewInt(41)), "hdr.Ttl": lx{s: "rttl", t: tU32}},
		Alias: map[string]string{"hdr.Ttl": "rttl"},
		Skip:  []string{"hdr := rr.Header()"},
		Doc:   "; the body of the innermost loop: result = the record's new ttl",
	}},
	// ---------------------------------------------------------------- C01: one try of the wire-id search
	{Group: "Conn", fnSpec: fnSpec{
		File: "pkg/upstream/transport/conn_traditional.go", Func: "addQueueC", Recv: "TraditionalDnsConn", LoopBody: true, Result: "(false, qid, nextQid)",
		Lean: "addQueueTry", Params: "(qid nextQid : UInt16) (dup : Bool)", Ret: "Bool × UInt16 × UInt16",
		Vars:  map[string]ty{"qid": tU16, "nextQid": tU16, "dup": tBool},
		Expr:  map[string]lx{"dc.nextQid": u16("nextQid")},
		Alias: map[string]string{"dc.nextQid": "nextQid"},
		Stmt:  map[string]string{"return qid, c": "return (true, qid, nextQid)"},
		Skip:  []string{"_, dup := dc.queue[uint32(qid)]", "dc.queue[uint32(qid)] = c", "dc.queueMu.Unlock()"},
		Doc:   "; the body of the search loop: `dup` = the id just taken is still in the waiter table; result = (found, the id, the counter)",
	}},
	// ---------------------------------------------------------------- C14: what the collection loop does with one result
	{Group: "Forward", fnSpec: fnSpec{
		File: "plugin/executable/forward/forward.go", Func: "exchange", Recv: "Forward", LoopBody: true, SelectCase: "res := <-resChan", Result: "false",
		Lean: "forwardCollectStep", Params: "(i concurrent : Int) (failed : Bool) (rcode : Int)", Ret: "Bool",
		Vars: map[string]ty{"i": tInt, "concurrent": tInt},
		Expr: map[string]lx{
			"err != nil":         b("failed"),
			"r.Rcode":            i("rcode"),
			"dns.RcodeSuccess":   i("(0 : Int)"),
			"dns.RcodeNameError": i("(3 : Int)"),
		},
		Stmt: map[string]string{"return r, nil": "return true"},
		Skip: []string{"r, err := res.r, res.err"},
		Doc:  "; the body of `case res := <-resChan` in the collection loop: `failed` = the helper reported an error (or unparsable bytes), `rcode` = the reply's rcode; true = the call returns this reply now, false = `continue`",
	}},
	// ---------------------------------------------------------------- C13: what Sort's merge loop does with one prefix
	{Group: "Netlist", fnSpec: fnSpec{
		File: "pkg/matcher/netlist/list.go", Func: "Sort", Recv: "List", LoopBody: true, Result: "(0 : Int)",
		Lean: "sortMergeDecision", Params: "(i : Int) (sameAddr shorter covered : Bool)", Ret: "Int",
		Vars: map[string]ty{"i": tInt},
		Expr: map[string]lx{
			"n.Addr() == lv.Addr()":  b("sameAddr"),
			"n.Bits() < lv.Bits()":   b("shorter"),
			"!lv.Contains(n.Addr())": b("(!covered)"),
		},
		Stmt: map[string]string{"out = append(out, n)": "return (1 : Int)", "*lv = n": "return (2 : Int)"},
		Skip: []string{"lv := &out[len(out)-1]"},
		Doc:  "; the body of the merge loop of `Sort` as a decision: `lv` = the last prefix kept so far, `sameAddr` = n.Addr() == lv.Addr(), `shorter` = n.Bits() < lv.Bits(), `covered` = lv.Contains(n.Addr()); result 1 = append n, 2 = replace lv by n, 0 = drop n",
	}},
	// ---------------------------------------------------------------- C13: the binary search of List.Contains
	{Group: "Netlist", fnSpec: fnSpec{
		File: "pkg/matcher/netlist/list.go", Func: "Contains", Recv: "List", Fuel: "fuel",
		Lean: "listContains", Params: "(e : List Go.Pfx) (valid : Bool) (addr : Nat) (fuel : Nat)", Ret: "Bool",
		Expr: map[string]lx{
			"addr.IsValid()":                 b("valid"),
			"len(list.e)":                    i("(e.length : Int)"),
			"int(uint(i+j) >> 1)":            i("((i + j) / 2)"),
			"list.e[h].Addr().Compare(addr)": i("(Go.cmpNat (Go.pfxAt e h).1 addr)"),
			"list.e[i-1].Contains(addr)":     b("(Go.pfxContains (Go.pfxAt e (i - 1)) addr)"),
		},
		Skip: []string{`if !list.sorted { panic("list is not sorted") }`, "addr = to6(addr)"},
		Doc:  "; `e` = list.e as (base, bits) over 128-bit addresses, `addr` = to6(addr) as a number, `valid` = addr.IsValid(); `int(uint(i+j) >> 1)` is (i+j)/2 for the non-negative i, j of the loop; the `sorted` panic is a precondition",
	}},
	// ---------------------------------------------------------------- C12: normalisation of names and rules
	{Group: "Domain", fnSpec: fnSpec{
		File: "pkg/matcher/domain/utils.go", Func: "NormalizeDomain",
		Lean: "normalizeDomain", Params: "(toLower : Bytes → Bytes) (s : Bytes)", Ret: "Bytes",
		Vars: map[string]ty{"s": tBytes},
		Expr: map[string]lx{"strings.ToLower(TrimDot(s))": by("(toLower (trimDot s))")},
		Doc:  "; `strings.ToLower` is a parameter (Refine.C12 instantiates it with byte-wise ASCII lower-casing), `TrimDot` is the regenerated `trimDot`; any other body (a hand-written loop, another library call) is translated as written or refused",
	}},
	// ---------------------------------------------------------------- C13: what the two text loaders hand to List.Append
	{Group: "Netlist", fnSpec: fnSpec{
		File: "pkg/matcher/netlist/load_helper.go", Func: "LoadFromText",
		Lean: "loadFromTextPrefix", Params: "(hasSlash : Bool) (parsedPrefix : Option ((Bool × Nat) × Int)) (parsedAddr : Option (Bool × Nat))", Ret: "Option ((Bool × Nat) × Int)",
		Expr: map[string]lx{
			"strings.ContainsRune(s, '/')": b("hasSlash"),
			"addr.Is6()":                   b("addr.1"),
		},
		Stmt: map[string]string{
			"ipNet, err := netip.ParsePrefix(s)":     "match parsedPrefix with\n| none => none\n| some ipNet =>",
			"l.Append(ipNet)":                        "return some ipNet",
			"addr, err := netip.ParseAddr(s)":        "match parsedAddr with\n| none => none\n| some addr =>",
			"l.Append(netip.PrefixFrom(addr, bits))": "return some (addr, bits)",
		},
		StmtVars: map[string]map[string]ty{
			"ipNet, err := netip.ParsePrefix(s)": {"ipNet": tAny},
			"addr, err := netip.ParseAddr(s)":    {"addr": tAny},
		},
		Skip: []string{"if err != nil { return err }"},
		Doc:  "; result = the prefix (address, length) handed to l.Append, none = the parse error is returned (the skipped `if err != nil`); an address is (Is6() - the 16-byte form, IPv4-mapped included -, its value); `parsedPrefix` / `parsedAddr` = what netip.ParsePrefix(s) / netip.ParseAddr(s) yield",
	}},
	{Group: "Netlist", fnSpec: fnSpec{
		File: "plugin/data_provider/ip_set/ip_set.go", Func: "parseNetipPrefix",
		Lean: "ipSetParsePrefix", Params: "(hasSlash : Bool) (parsedPrefix : Option ((Bool × Nat) × Int)) (parsedAddr : Option (Bool × Nat))", Ret: "Option ((Bool × Nat) × Int)",
		Expr: map[string]lx{
			"strings.ContainsRune(s, '/')": b("hasSlash"),
		},
		Stmt: map[string]string{
			"return netip.ParsePrefix(s)":       "return parsedPrefix",
			"addr, err := netip.ParseAddr(s)":   "match parsedAddr with\n| none => none\n| some addr =>",
			"return addr.Prefix(addr.BitLen())": "return some (addr, (if addr.1 then (128 : Int) else (32 : Int)))",
		},
		StmtVars: map[string]map[string]ty{
			"addr, err := netip.ParseAddr(s)": {"addr": tAny},
		},
		Skip: []string{"if err != nil { return netip.Prefix{}, err }"},
		Doc:  "; result = the prefix (address, length) LoadFromIPs hands to l.Append, none = error; `addr.BitLen()` is 128 for the 16-byte form (IPv4-mapped included) and 32 for the 4-byte form, and `addr.Prefix(addr.BitLen())` masks nothing",
	}},
	// ---------------------------------------------------------------- C08: one turn of the two retry loops
	{Group: "Retry", fnSpec: fnSpec{
		File: "pkg/upstream/transport/reuse.go", Func: "ExchangeContext", Recv: "ReuseConnTransport", LoopBody: true, Result: "(none, retry)",
		Lean: "reuseExchangeTurn", Params: "(maxRetry retry : Int) (closed noIdle dialFails tooLarge exchangeFails : Bool)", Ret: "Option Nat × Int",
		Vars: map[string]ty{"maxRetry": tInt, "retry": tInt},
		Expr: map[string]lx{"c == nil": b("noIdle"), "err != nil": b("(err != 0)")},
		Stmt: map[string]string{
			"c, err := t.getIdleConn()":                  "let err : Nat := if closed then 1 else 0",
			"c, err = t.getNewConn(ctx)":                 "let err : Nat := if dialFails then 2 else 0",
			"queryPayload, err := copyMsgWithLenHdr(m)":  "let err : Nat := if tooLarge then 3 else 0",
			"resp, err := c.exchange(ctx, queryPayload)": "let err : Nat := if exchangeFails then 4 else 0",
			"return nil, err":                            "return (some err, retry)",
			"return resp, nil":                           "return (some 0, retry)",
		},
		Doc: "; the body of the retry loop: the environment of one turn is `closed` (getIdleConn fails), `noIdle` (getIdleConn returned nil), `dialFails`, `tooLarge`, `exchangeFails`; `err` is the number of the call that failed (1 getIdleConn, 2 getNewConn, 3 copyMsgWithLenHdr, 4 exchange); result = (some 0, _) reply returned, (some e, _) error of call e returned, (none, retry') = `continue`; `maxRetry` is the const declared in front of the loop (T2 fact c08ReuseMaxRetry)",
	}},
	{Group: "Retry", fnSpec: fnSpec{
		File: "pkg/upstream/transport/pipeline.go", Func: "ExchangeContext", Recv: "PipelineTransport", LoopBody: true, Result: "(none, retry)",
		Lean: "pipelineExchangeTurn", Params: "(maxRetry retry : Int) (reserveErr : Nat) (isNewConn exchangeFails ctxEnded : Bool)", Ret: "Option Nat × Int",
		Vars: map[string]ty{"maxRetry": tInt, "retry": tInt, "isNewConn": tBool},
		Expr: map[string]lx{"err != nil": b("(err != 0)"), "ctx.Err() == nil": b("(!ctxEnded)")},
		Stmt: map[string]string{
			"dc, isNewConn, err := t.getReservedExchanger()": "let err : Nat := reserveErr",
			"r, err := dc.ExchangeReserved(ctx, m)":          "let err : Nat := if exchangeFails then 4 else 0",
			"return nil, err":                                "return (some err, retry)",
			"return r, nil":                                  "return (some 0, retry)",
		},
		Doc: "; the body of the retry loop: `reserveErr` = the error of getReservedExchanger (0 none), `isNewConn` = its second result (where it is set: T2 fact c08PipelineNewConnFlag), `exchangeFails`, `ctxEnded` = `ctx.Err() != nil` when the exchange has failed; result as for reuseExchangeTurn",
	}},
}
