package main

import (
	"go/ast"
	"go/token"
	"strings"
)

func init() {
	factFuncs = append(factFuncs, func(ex *factExtractor) {
		const urel = "plugin/executable/cache/utils.go"
		const crel = "plugin/executable/cache/cache.go"
		const brel = "pkg/cache/cache.go"
		const mrel = "pkg/dnsutils/msg.go"
		save := ex.fn(urel, "", "saveRespToCache")
		// lifetimes per rcode
		get := func(rc, name string) (int64, bool) {
			if save == nil {
				return 0, false
			}
			cc := ex.caseClause(save.Body, "r.Rcode", "") // not a string switch; find by printed case below
			_ = cc
			var v int64
			found := false
			ast.Inspect(save.Body, func(n ast.Node) bool {
				c, ok := n.(*ast.CaseClause)
				if !ok || len(c.List) != 1 || ex.str(c.List[0]) != rc {
					return true
				}
				for _, st := range c.Body {
					if as, ok := st.(*ast.AssignStmt); ok && ex.str(as.Lhs[0]) == name {
						if x, ok := ex.intLit(as.Rhs[0], map[string]int64{"time.Second": 1}); ok {
							v, found = x, true
						}
					}
				}
				return true
			})
			return v, found
		}
		v, ok := get("dns.RcodeNameError", "msgTtl")
		ex.setNat("c05NxdomainTtl", v, ok, "saveRespToCache: NXDOMAIN msgTtl in seconds (cacheTtl = msgTtl)")
		v, ok = get("dns.RcodeServerFailure", "msgTtl")
		ex.setNat("c05ServfailTtl", v, ok, "saveRespToCache: SERVFAIL msgTtl in seconds (cacheTtl = msgTtl)")
		var mx int64
		ok = false
		if save != nil {
			mx, ok = ex.constIn(save.Body, "maxEmtpyAnswerTtl", nil)
		}
		ex.setNat("c05EmptyAnswerMaxTtl", mx, ok, "saveRespToCache: const maxEmtpyAnswerTtl")
		st, ok := ex.pkgConst(crel, "expiredMsgTtl", nil)
		ex.setNat("c05StaleTtl", st, ok, "cache.go: const expiredMsgTtl")
		// the three rcode cases, each with cacheTtl = msgTtl for negative answers, nothing else
		okCases := false
		if save != nil {
			var cases []string
			okPins := true
			ast.Inspect(save.Body, func(n ast.Node) bool {
				if sw, isSw := n.(*ast.SwitchStmt); isSw && sw.Tag != nil && ex.str(sw.Tag) == "r.Rcode" {
					for _, c := range sw.Body.List {
						cc := c.(*ast.CaseClause)
						for _, e := range cc.List {
							cases = append(cases, ex.str(e))
						}
						if cc.List == nil {
							cases = append(cases, "default")
						}
						if len(cc.List) == 1 && (ex.str(cc.List[0]) == "dns.RcodeNameError" || ex.str(cc.List[0]) == "dns.RcodeServerFailure") {
							if !contains(stmtStrings(ex, cc), "cacheTtl = msgTtl") {
								okPins = false
							}
						}
					}
				}
				return true
			})
			okCases = okPins && strings.Join(cases, ",") == "dns.RcodeNameError,dns.RcodeServerFailure,dns.RcodeSuccess"
		}
		ex.setBool("c05RcodeCases", okCases, save != nil, "saveRespToCache: switch r.Rcode has exactly NameError, ServerFailure, Success; negative answers pin cacheTtl = msgTtl")
		// empty answer branch: msgTtl = min(minTTL, max) and cacheTtl = msgTtl; else branch uses lazyCacheTtl
		okEmpty := false
		if save != nil {
			ast.Inspect(save.Body, func(n ast.Node) bool {
				if is, isIf := n.(*ast.IfStmt); isIf && ex.str(is.Cond) == "len(r.Answer) == 0" {
					th := stmtStrings(ex, is.Body)
					el := []string{}
					if is.Else != nil {
						el = stmtStrings(ex, is.Else)
					}
					okEmpty = contains(th, "msgTtl = time.Duration(min(minTTL, maxEmtpyAnswerTtl)) * time.Second") && contains(th, "cacheTtl = msgTtl") &&
						!strings.Contains(strings.Join(th, ";"), "lazyCacheTtl") &&
						contains(el, "msgTtl = time.Duration(minTTL) * time.Second") && contains(el, "cacheTtl = time.Duration(lazyCacheTtl) * time.Second")
				}
				return true
			})
		}
		ex.setBool("c05EmptyAnswerPinsCacheTtl", okEmpty, save != nil, "saveRespToCache: empty answer: msgTtl = min(minTTL, 300) s and cacheTtl = msgTtl; otherwise minTTL and lazy_cache_ttl when > 0")
		okSkip, okTc := false, false
		if save != nil {
			ss := stmtStrings(ex, save.Body)
			okSkip = contains(ss, "if msgTtl <= 0 || cacheTtl <= 0 { return false }")
			okTc = len(save.Body.List) > 0 && ex.str(save.Body.List[0]) == "if r.Truncated != false { return false }"
			okSkip = okSkip && contains(ss, "backend.Store(key(msgKey), v, now.Add(cacheTtl))") && contains(ss, "minTTL := dnsutils.GetMinimalTTL(r)")
		}
		ex.setBool("c05SkipIfNonPositive", okSkip, save != nil, "saveRespToCache: `if msgTtl <= 0 || cacheTtl <= 0 { return false }`, stores until now+cacheTtl")
		ex.setBool("c05TcNotStored", okTc, save != nil, "saveRespToCache starts with `if r.Truncated != false { return false }`")
		// getRespFromCache
		getf := ex.fn(urel, "", "getRespFromCache")
		okFresh := false
		if getf != nil {
			ss := stmtStrings(ex, getf.Body)
			okFresh = contains(ss, "dnsutils.SubtractTTL(r, uint32(now.Sub(v.storedTime).Seconds()))") &&
				contains(ss, "dnsutils.SetTTL(r, uint32(lazyTtl))") && contains(ss, "return r, true") && contains(ss, "return r, false")
			n := 0
			ast.Inspect(getf.Body, func(x ast.Node) bool {
				if is, isIf := x.(*ast.IfStmt); isIf {
					c := ex.str(is.Cond)
					if c == "now.Before(v.expirationTime)" || c == "lazyCacheEnabled" || c == "v != nil" {
						n++
					}
				}
				return true
			})
			okFresh = okFresh && n == 3
		}
		ex.setBool("c05FreshTest", okFresh, getf != nil, "getRespFromCache: fresh iff now.Before(v.expirationTime), SubtractTTL by whole seconds since storedTime; else lazy -> SetTTL(lazyTtl), lazyHit")
		// pkg/cache Get / Store
		cg := ex.fn(brel, "Cache", "Get")
		cs := ex.fn(brel, "Cache", "Store")
		gc := ex.fn(brel, "Cache", "gc")
		okGet := cg != nil && cs != nil && gc != nil &&
			contains(stmtStrings(ex, cg.Body), "if e.expirationTime.Before(time.Now()) { c.m.Del(key) return }") &&
			contains(stmtStrings(ex, cs.Body), "if now.After(expirationTime) { return }") &&
			strings.Contains(ex.str(gc.Body), "now.After(v.expirationTime)")
		ex.setBool("c05CacheGetHidesExpired", okGet, cg != nil, "pkg/cache: Get hides and deletes entries whose expiry is before now; Store ignores expired values; gc sweeps them")
		// TTL helpers
		sub := ex.fn(mrel, "", "SubtractTTL")
		op, okOp := token.ILLEGAL, false
		if sub != nil {
			op, okOp = ex.findCmp(sub.Body, "ttl", "delta")
			ss := stmtStrings(ex, sub.Body)
			okOp = okOp && contains(ss, "hdr.Ttl = ttl - delta") && contains(ss, "hdr.Ttl = 1")
		}
		ex.setCmp("c05SubtractCmp", op, okOp, "SubtractTTL: `if ttl := hdr.Ttl; ttl <op> delta { hdr.Ttl = ttl - delta } else { hdr.Ttl = 1 }`")
		okOpt := true
		for _, fn := range []string{"GetMinimalTTL", "SetTTL", "SubtractTTL"} {
			f := ex.fn(mrel, "", fn)
			if f == nil || !contains(stmtStrings(ex, f.Body), "if hdr.Rrtype == dns.TypeOPT { continue }") ||
				!strings.Contains(ex.str(f.Body), "[...][]dns.RR{m.Answer, m.Ns, m.Extra}") {
				okOpt = false
			}
		}
		ex.setBool("c05TtlHelpersSkipOpt", okOpt, true, "GetMinimalTTL/SetTTL/SubtractTTL range over Answer, Ns, Extra and `continue` on OPT")
		// singleflight: Forget is deferred (runs when the refresh function returns)
		lz := ex.fn(crel, "Cache", "doLazyUpdate")
		okF := false
		if lz != nil {
			nDefer, nPlain := 0, 0
			ast.Inspect(lz.Body, func(x ast.Node) bool {
				switch y := x.(type) {
				case *ast.DeferStmt:
					if ex.str(y.Call) == "c.lazyUpdateSF.Forget(msgKey)" {
						nDefer++
					}
				case *ast.ExprStmt:
					if ex.str(y.X) == "c.lazyUpdateSF.Forget(msgKey)" {
						nPlain++
					}
				}
				return true
			})
			okF = nDefer == 1 && nPlain == 0 && contains(ex.calls(lz.Body), "c.lazyUpdateSF.DoChan")
		}
		ex.setBool("c05ForgetDeferred", okF, lz != nil, "doLazyUpdate: `defer c.lazyUpdateSF.Forget(msgKey)` inside the function given to DoChan")
	})
}

func init() {
	factFuncs = append(factFuncs, func(ex *factExtractor) {
		const rel = "pkg/dnsutils/msg.go"
		ok := true
		for _, name := range []string{"GetMinimalTTL", "SubtractTTL", "SetTTL"} {
			fd := ex.fn(rel, "", name)
			if fd == nil {
				ok = false
				continue
			}
			var outer, inner *ast.RangeStmt
			nRange := 0
			ast.Inspect(fd.Body, func(n ast.Node) bool {
				if r, isR := n.(*ast.RangeStmt); isR {
					nRange++
					if outer == nil {
						outer = r
					} else {
						inner = r
					}
				}
				return true
			})
			if nRange != 2 || outer == nil || inner == nil || ex.str(outer.X) != "[...][]dns.RR{m.Answer, m.Ns, m.Extra}" || ex.str(outer.Value) != "section" ||
				ex.str(inner.X) != "section" || ex.str(inner.Value) != "rr" || len(outer.Body.List) != 1 || outer.Body.List[0] != ast.Stmt(inner) {
				ok = false
			}
			switch name {
			case "GetMinimalTTL":
				l := fd.Body.List
				if len(l) != 5 || ex.str(l[0]) != "minTTL := ^uint32(0)" || ex.str(l[1]) != "hasRecord := false" || l[2] != ast.Stmt(outer) ||
					ex.str(l[3]) != "if !hasRecord { return 0 }" || ex.str(l[4]) != "return minTTL" {
					ok = false
				}
			case "SubtractTTL":
				l := fd.Body.List
				if len(l) != 2 || l[0] != ast.Stmt(outer) || ex.str(l[1]) != "return" {
					ok = false
				}
			case "SetTTL":
				if len(fd.Body.List) != 1 {
					ok = false
				}
			}
		}
		ex.setBool("c05TtlHelpersVisitEveryRecordOnce", ok, true,
			"GetMinimalTTL / SubtractTTL / SetTTL: one pass over Answer, Ns, Extra and over every record of each (the per-record bodies are translated by T1); GetMinimalTTL starts from (false, max uint32) and returns 0 when no record counted")
	})
}

// Lazy refresh: what the context handed to the background refresh carries, and what the refresh stores.
func init() {
	factFuncs = append(factFuncs, func(ex *factExtractor) {
		const crel = "plugin/executable/cache/cache.go"
		exec := ex.fn(crel, "Cache", "Exec")
		lz := ex.fn(crel, "Cache", "doLazyUpdate")
		// (1) In Exec (straight-line / if-structured: no loop, goto, label or function literal, so source order is
		// execution order) the single doLazyUpdate call comes before every qCtx.SetResponse, and doLazyUpdate copies
		// the context in its first statement, before anything else can touch it.
		shape, before := false, false
		if exec != nil && lz != nil {
			var lazyPos []token.Pos
			var setPos []token.Pos
			structured := true
			ast.Inspect(exec.Body, func(n ast.Node) bool {
				switch y := n.(type) {
				case *ast.ForStmt, *ast.RangeStmt, *ast.LabeledStmt, *ast.FuncLit, *ast.GoStmt, *ast.DeferStmt:
					structured = false
				case *ast.BranchStmt:
					structured = false
				case *ast.CallExpr:
					switch ex.str(y.Fun) {
					case "c.doLazyUpdate":
						if ex.str(y) == "c.doLazyUpdate(msgKey, qCtx, next)" {
							lazyPos = append(lazyPos, y.Pos())
						} else {
							structured = false
						}
					case "qCtx.SetResponse":
						setPos = append(setPos, y.Pos())
					}
				}
				return true
			})
			copyFirst := len(lz.Body.List) > 0 && ex.str(lz.Body.List[0]) == "qCtxCopy := qCtx.Copy()"
			nCopyUse := 0
			ast.Inspect(lz.Body, func(n ast.Node) bool {
				if id, ok := n.(*ast.Ident); ok && id.Name == "qCtxCopy" {
					nCopyUse++
				}
				return true
			})
			lzParams := ex.str(lz.Type) // func(msgKey string, qCtx *query_context.Context, next sequence.ChainWalker)
			shape = structured && len(lazyPos) == 1 && len(setPos) >= 1 && copyFirst && nCopyUse == 2 &&
				strings.Contains(lzParams, "qCtx *query_context.Context") && contains(stmtStrings(ex, lz.Body), "qCtx := qCtxCopy")
			if shape {
				before = true
				for _, p := range setPos {
					if p < lazyPos[0] {
						before = false
					}
				}
			}
		}
		ex.setBool("c05LazyCopyTakenBeforeCachedResp", before, shape,
			"Cache.Exec: the one `c.doLazyUpdate(msgKey, qCtx, next)` call precedes every `qCtx.SetResponse(...)` (Exec has no loop/goto/closure), and doLazyUpdate starts with `qCtxCopy := qCtx.Copy()`: the refresh context does not carry the stale answer")
		// (2) the refresh function runs the rest of the chain on the copy and stores exactly the response the copy holds
		// afterwards, if any; it never puts a response into the copy itself.
		okStore := false
		if lz != nil {
			ss := stmtStrings(ex, lz.Body)
			calls := ex.calls(lz.Body)
			nSave, nSet, nExec := 0, 0, 0
			for _, c := range calls {
				switch {
				case c == "saveRespToCache":
					nSave++
				case strings.HasSuffix(c, ".SetResponse"):
					nSet++
				case c == "next.ExecNext":
					nExec++
				}
			}
			iExec, iR, iSave := indexOf(ss, "err := next.ExecNext(ctx, qCtx)"), indexOf(ss, "r := qCtx.R()"), indexOf(ss, "if r != nil && rBefore != r { saveRespToCache(msgKey, r, c.backend, c.args.LazyCacheTTL) c.updatedKey.Add(1) }")
			okStore = nSave == 1 && nSet == 0 && nExec == 1 && iExec >= 0 && iR > iExec && iSave > iR && indexOf(ss, "rBefore := qCtx.R()")+1 == iExec
		}
		ex.setBool("c05RefreshStoresContextResp", okStore, lz != nil,
			"doLazyUpdate: `err := next.ExecNext(ctx, qCtx)` on the copy, preceded by `rBefore := qCtx.R()`, then `r := qCtx.R()` and `if r != nil && rBefore != r { saveRespToCache(msgKey, r, ...) }`; no SetResponse in the refresh itself")
	})
}

// Ownership of the record objects: what the store keeps and what a hit hands out are copies, record by record.
func init() {
	factFuncs = append(factFuncs, func(ex *factExtractor) {
		const urel = "plugin/executable/cache/utils.go"
		cp := ex.fn(urel, "", "copyNoOpt")
		save := ex.fn(urel, "", "saveRespToCache")
		getf := ex.fn(urel, "", "getRespFromCache")
		isSec := func(e ast.Expr, base string) bool {
			s, ok := e.(*ast.SelectorExpr)
			if !ok {
				return false
			}
			id, ok := s.X.(*ast.Ident)
			return ok && id.Name == base && (s.Sel.Name == "Answer" || s.Sel.Name == "Ns" || s.Sel.Name == "Extra")
		}
		// (1) copyNoOpt: the only things put into m2's sections are `dns.Copy(r)` of the range variable of a loop over
		// the corresponding section of m; m's sections are otherwise only measured (len) and ranged over; the stored
		// item's message is copyNoOpt(r).
		okCopy := false
		if cp != nil && save != nil {
			nAppend, nGood := 0, 0
			nSecUse, nSecOk := 0, 0
			okAssign := true
			ast.Inspect(cp.Body, func(n ast.Node) bool {
				switch y := n.(type) {
				case *ast.CallExpr:
					if id, ok := y.Fun.(*ast.Ident); ok {
						switch id.Name {
						case "append":
							nAppend++
							if len(y.Args) == 2 && y.Ellipsis == token.NoPos && isSec(y.Args[0], "m2") && ex.str(y.Args[1]) == "dns.Copy(r)" {
								nGood++
							}
						case "len":
							if len(y.Args) == 1 && isSec(y.Args[0], "m") {
								nSecOk++
							}
						case "copy":
							if len(y.Args) != 2 || ex.str(y.Args[0]) != "m2.Question" {
								okAssign = false
							}
						}
					}
				case *ast.RangeStmt:
					if isSec(y.X, "m") {
						nSecOk++
						if y.Value == nil || ex.str(y.Value) != "r" || y.Tok != token.DEFINE {
							okAssign = false
						}
					}
				case *ast.SelectorExpr:
					if isSec(y, "m") {
						nSecUse++
					}
				case *ast.AssignStmt:
					// a section of m2 is assigned either an append to itself or a fresh (empty) slice of the new backing array s
					for i, l := range y.Lhs {
						if !isSec(l, "m2") {
							continue
						}
						var rhs string
						if len(y.Rhs) == len(y.Lhs) {
							rhs = ex.str(y.Rhs[i])
						}
						if !strings.HasPrefix(rhs, "append("+ex.str(l)+", ") && !strings.HasPrefix(rhs, "s[:0:") {
							okAssign = false
						}
					}
				}
				return true
			})
			ss := stmtStrings(ex, cp.Body)
			okCopy = nAppend == 3 && nGood == 3 && nSecUse == nSecOk && okAssign &&
				contains(ss, "m2.Answer = append(m2.Answer, dns.Copy(r))") && contains(ss, "m2.Ns = append(m2.Ns, dns.Copy(r))") && contains(ss, "m2.Extra = append(m2.Extra, dns.Copy(r))") &&
				contains(ss, "s := make([]dns.RR, len(m.Answer)+len(m.Ns)+lenExtra)") && contains(ss, "return m2") &&
				strings.Contains(ex.str(save.Body), "resp: copyNoOpt(r)")
		}
		ex.setBool("c05StoredRecordsAreCopies", okCopy, cp != nil && save != nil,
			"copyNoOpt: m2's sections live in a new backing array and receive only `dns.Copy(r)` of the records of m's sections (3 appends, no other use of m.Answer/m.Ns/m.Extra than len and range); saveRespToCache stores `resp: copyNoOpt(r)`")
		// (2) getRespFromCache: both hits work on `r := v.resp.Copy()`; v.resp is not used otherwise
		okHit := false
		if getf != nil {
			nResp, nCopyStmt := 0, 0
			ast.Inspect(getf.Body, func(n ast.Node) bool {
				switch y := n.(type) {
				case *ast.SelectorExpr:
					if ex.str(y) == "v.resp" {
						nResp++
					}
				case *ast.AssignStmt:
					if ex.str(y) == "r := v.resp.Copy()" {
						nCopyStmt++
					}
				}
				return true
			})
			okHit = nResp == 2 && nCopyStmt == 2
		}
		ex.setBool("c05HitHandsOutCopy", okHit, getf != nil,
			"getRespFromCache: `r := v.resp.Copy()` on the fresh and on the lazy path, and no other use of v.resp: TTL arithmetic is done on, and the caller gets, a deep copy")
		// readDump: a loaded entry gets exactly the three dumped times. Each of the three time variables is
		// defined once from its dump field and never assigned again; the item and the Store call use them.
		rd := ex.fn("plugin/executable/cache/cache.go", "Cache", "readDump")
		okTimes := false
		if rd != nil {
			defs := map[string]string{}
			nAssign := 0
			nStore := 0
			ast.Inspect(rd.Body, func(n ast.Node) bool {
				switch y := n.(type) {
				case *ast.AssignStmt:
					for i, l := range y.Lhs {
						name := ex.str(l)
						if name == "cacheExpTime" || name == "msgExpTime" || name == "storedTime" {
							nAssign++
							if y.Tok == token.DEFINE && len(y.Lhs) == len(y.Rhs) {
								defs[name] = ex.str(y.Rhs[i])
							}
						}
					}
				case *ast.IncDecStmt:
					if name := ex.str(y.X); name == "cacheExpTime" || name == "msgExpTime" || name == "storedTime" {
						nAssign++
					}
				case *ast.UnaryExpr:
					if y.Op == token.AND {
						if name := ex.str(y.X); name == "cacheExpTime" || name == "msgExpTime" || name == "storedTime" {
							nAssign++
						}
					}
				case *ast.CallExpr:
					if strings.HasSuffix(ex.str(y.Fun), "backend.Store") {
						nStore++
					}
				}
				return true
			})
			ss := stmtStrings(ex, rd.Body)
			okTimes = nAssign == 3 && nStore == 1 &&
				defs["cacheExpTime"] == "time.Unix(entry.GetCacheExpirationTime(), 0)" &&
				defs["msgExpTime"] == "time.Unix(entry.GetMsgExpirationTime(), 0)" &&
				defs["storedTime"] == "time.Unix(entry.GetMsgStoredTime(), 0)" &&
				contains(ss, "i := &item{ resp: resp, storedTime: storedTime, expirationTime: msgExpTime, }") &&
				contains(ss, "c.backend.Store(key(entry.GetKey()), i, cacheExpTime)")
		}
		ex.setBool("c05ReadDumpKeepsTimes", okTimes, rd != nil,
			"readDump: storedTime / msgExpTime / cacheExpTime are each defined once as time.Unix(<dumped field>, 0) and never assigned again; the item is built from storedTime and msgExpTime and stored once, with cacheExpTime (no expiry is recomputed from the local configuration)")
	})
}
