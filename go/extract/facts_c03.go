package main

import (
	"go/ast"
	"strings"
)

func init() {
	factFuncs = append(factFuncs, func(ex *factExtractor) {
		const hrel = "pkg/server_handler/entry_handler.go"
		h := ex.fn(hrel, "EntryHandler", "Handle")
		okValid, okSF, okRA, okOrder := false, false, false, false
		if h != nil {
			okValid = len(h.Body.List) > 0 && ex.str(h.Body.List[0]) == "if q.Response || len(q.Question) != 1 || len(q.Answer)+len(q.Ns) > 0 || len(q.Extra) > 1 { return nil }"
			ss := stmtStrings(ex, h.Body)
			okSF = contains(ss, "resp.SetReply(q)") && contains(ss, "resp.Rcode = dns.RcodeServerFailure") && contains(ss, "resp.Rcode = dns.RcodeRefused") &&
				contains(ss, "resp = qCtx.R()") && contains(ss, "err := h.opts.Entry.Exec(ctx, qCtx)") && contains(ss, "qCtx := query_context.NewContext(q)")
			n := 0
			for _, s := range ss {
				if s == "resp.SetReply(q)" {
					n++
				}
			}
			okSF = okSF && n == 2
			okRA = contains(ss, "resp.RecursionAvailable = true")
			// order of the top-level statements
			var top []string
			for _, st := range h.Body.List {
				top = append(top, ex.str(st))
			}
			iOpt, iTr, iPack, iRA := -1, -1, -1, -1
			for i, s := range top {
				switch {
				case s == "if respOpt := qCtx.RespOpt(); respOpt != nil { resp.Extra = append(resp.Extra, respOpt) }":
					iOpt = i
				case s == "if serverMeta.FromUDP { udpSize := getValidUDPSize(qCtx.ClientOpt()) resp.Truncate(udpSize) }":
					iTr = i
				case strings.HasPrefix(s, "payload, err := packMsgPayload(resp)"):
					iPack = i
				case s == "resp.RecursionAvailable = true":
					iRA = i
				}
			}
			okOrder = iRA >= 0 && iRA < iOpt && iOpt < iTr && iTr < iPack
		}
		ex.setBool("c03ValidityCheck", okValid, h != nil, "Handle: first statement drops QR / question count != 1 / answer or authority records / more than one additional")
		ex.setBool("c03ServfailRefusedFromQuery", okSF, h != nil, "Handle: entry error -> SetReply(q)+SERVFAIL; no response -> SetReply(q)+REFUSED; else qCtx.R()")
		ex.setBool("c03RaForced", okRA, h != nil, "Handle: resp.RecursionAvailable = true")
		ex.setBool("c03OptThenTruncateThenPack", okOrder, h != nil, "Handle: RA, then append respOpt, then (UDP) Truncate(getValidUDPSize(clientOpt)), then pack")
		g := ex.fn(hrel, "", "getValidUDPSize")
		ex.setBool("c03UdpSizeMin512", g != nil && ex.str(g.Body) == "{ var s uint16 if opt != nil { s = opt.UDPSize() } if s < dns.MinMsgSize { s = dns.MinMsgSize } return int(s) }", g != nil, "getValidUDPSize = max(512, advertised)")
		// cache hit: ID rewritten before SetResponse
		ce := ex.fn("plugin/executable/cache/cache.go", "Cache", "Exec")
		okHit := false
		if ce != nil {
			ss := stmtStrings(ex, ce.Body)
			i1, i2 := indexOf(ss, "cachedResp.Id = q.Id"), indexOf(ss, "qCtx.SetResponse(cachedResp)")
			okHit = i1 >= 0 && i2 > i1 && contains(ss, "q := qCtx.Q()") && contains(ss, "msgKey := getMsgKey(q)")
		}
		ex.setBool("c03CacheHitIdRewritten", okHit, ce != nil, "cache.Exec: cachedResp.Id = q.Id before SetResponse")
		// redirect
		re := ex.fn("plugin/executable/redirect/redirect.go", "Redirect", "Exec")
		okRe, okCur := false, false
		if re != nil {
			ss := stmtStrings(ex, re.Body)
			// the deferred function: first the restore through the pointer read on entry (`q`); then, optionally, the
			// restore of the query the context points to NOW when a plugin below replaced it by a copy (F13)
			hasDefer := false
			nDefer := 0
			ast.Inspect(re.Body, func(n ast.Node) bool {
				d, ok := n.(*ast.DeferStmt)
				if !ok {
					return true
				}
				nDefer++
				lit, ok := d.Call.Fun.(*ast.FuncLit)
				if !ok || len(d.Call.Args) != 0 || len(lit.Body.List) == 0 || ex.str(lit.Body.List[0]) != "q.Question[0].Name = orgQName" {
					return true
				}
				switch len(lit.Body.List) {
				case 1:
					hasDefer = true
				case 2:
					if ex.str(lit.Body.List[1]) == "if cq := qCtx.Q(); cq != q && len(cq.Question) == 1 && cq.Question[0].Name == redirectTarget { cq.Question[0].Name = orgQName }" {
						hasDefer, okCur = true, true
					}
				}
				return true
			})
			hasDefer = hasDefer && nDefer == 1
			okCur = okCur && hasDefer
			iSet, iNext := indexOf(ss, "q.Question[0].Name = redirectTarget"), indexOf(ss, "err := next.ExecNext(ctx, qCtx)")
			okRe = hasDefer && iSet >= 0 && iNext > iSet && contains(ss, "orgQName := q.Question[0].Name") &&
				contains(ss, "if r.Question[i].Name == redirectTarget { r.Question[i].Name = orgQName }") &&
				contains(ss, "newAns = append(newAns, r.Answer...)") && contains(ss, "r.Answer = newAns") && contains(ss, "return err")
		}
		ex.setBool("c03RedirectRestores", okRe, re != nil, "redirect.Exec: rewrite, deferred restore of the query name through the pointer read on entry, reply names restored, CNAME prepended, error returned")
		ex.setBool("c03RedirectRestoresCurrentQuery", okRe && okCur, re != nil, "redirect.Exec: the deferred function also restores the name on the query the context points to when it returns, if that is another object (a plugin below replaced the context) with one question that carries the redirect target")
		// locally generated answers
		okLocal := true
		for _, site := range [][3]string{
			{"pkg/hosts/hosts.go", "Hosts", "LookupMsg"}, {"plugin/executable/black_hole/black_hole.go", "BlackHole", "Response"},
			{"pkg/zone_file/zone_file.go", "Matcher", "Reply"}, {"pkg/dnsutils/msg.go", "", "GenEmptyReply"},
		} {
			f := ex.fn(site[0], site[1], site[2])
			if f == nil {
				okLocal = false
				continue
			}
			cs := ex.calls(f.Body)
			if !(contains(cs, "r.SetReply") || contains(cs, "r.SetRcode")) {
				okLocal = false
			}
			// every `new(dns.Msg)` must be followed by SetReply/SetRcode: count them
			nNew, nSet := 0, 0
			for _, c := range cs {
				if c == "new" {
					nNew++
				}
				if c == "r.SetReply" || c == "r.SetRcode" {
					nSet++
				}
			}
			if nSet < nNew {
				okLocal = false
			}
		}
		// UDP server: the query is unpacked from the listener's receive buffer inside the read loop, before the goroutine
		// that handles it is started; that goroutine touches neither the receive buffer nor the control-message buffer
		// (the loop stores the next datagram there while the goroutine runs)
		su := ex.fn("pkg/server/udp.go", "", "ServeUDP")
		shapeUDP, okUDP := false, false
		if su != nil {
			var loops []*ast.ForStmt
			for _, st := range su.Body.List {
				if f, ok := st.(*ast.ForStmt); ok {
					loops = append(loops, f)
				}
			}
			if len(loops) == 1 && loops[0].Cond == nil && len(loops[0].Body.List) > 0 &&
				ex.str(loops[0].Body.List[0]) == "n, oobn, _, remoteAddr, err := c.ReadMsgUDPAddrPort(*rb, ob)" {
				body := loops[0].Body.List
				iNew, iUnpack, iGo, nGo := -1, -1, -1, 0
				var lit *ast.FuncLit
				for i, st := range body {
					s := ex.str(st)
					switch {
					case s == "q := new(dns.Msg)":
						iNew = i
					case strings.HasPrefix(s, "if err := q.Unpack((*rb)[:n]); err != nil {") && strings.HasSuffix(s, "continue }"):
						iUnpack = i
					}
					if g, ok := st.(*ast.GoStmt); ok {
						iGo = i
						lit, _ = g.Call.Fun.(*ast.FuncLit)
					}
				}
				ast.Inspect(loops[0], func(n ast.Node) bool {
					if _, ok := n.(*ast.GoStmt); ok {
						nGo++
					}
					return true
				})
				if nGo == 1 && iGo == len(body)-1 && lit != nil && len(lit.Type.Params.List) == 0 {
					shapeUDP = true
					touches, usesQ := false, false
					ast.Inspect(lit.Body, func(n ast.Node) bool {
						if id, ok := n.(*ast.Ident); ok {
							switch id.Name {
							case "rb", "ob":
								touches = true
							case "q":
								usesQ = true
							}
						}
						return true
					})
					okUDP = iNew >= 0 && iNew < iUnpack && iUnpack < iGo && !touches && usesQ
				}
			}
		}
		// cache: the message that is stored gets a Question slice of its own (redirect above the cache restores the live
		// reply's question in place after the entry was stored)
		cn := ex.fn("plugin/executable/cache/utils.go", "", "copyNoOpt")
		okCopyQ := false
		if cn != nil {
			nAssign := 0
			ast.Inspect(cn.Body, func(n ast.Node) bool {
				if a, ok := n.(*ast.AssignStmt); ok {
					for _, l := range a.Lhs {
						if strings.HasPrefix(ex.str(l), "m2.Question") {
							nAssign++
						}
					}
				}
				return true
			})
			ss := stmtStrings(ex, cn.Body)
			okCopyQ = nAssign == 1 && contains(ss, "m2.Question = make([]dns.Question, len(m.Question))") && contains(ss, "copy(m2.Question, m.Question)")
		}
		// cache.Exec stores only a response that is new since the rest of the chain ran (F16): `rBefore := qCtx.R()` is the
		// statement immediately before `err := next.ExecNext(ctx, qCtx)`, the one call of saveRespToCache in Exec sits in
		// `if r := qCtx.R(); r != nil && rBefore != r { ... }`, and rBefore is assigned nowhere else
		okNew := false
		if ce != nil {
			var top []string
			for _, st := range ce.Body.List {
				top = append(top, ex.str(st))
			}
			iB, iN, iIf := indexOf(top, "rBefore := qCtx.R()"), indexOf(top, "err := next.ExecNext(ctx, qCtx)"), -1
			for i, t := range top {
				if strings.HasPrefix(t, "if r := qCtx.R(); r != nil && rBefore != r { saveRespToCache(msgKey, r, c.backend, c.args.LazyCacheTTL)") {
					iIf = i
				}
			}
			nSave, nAssign := 0, 0
			for _, cs := range ex.calls(ce.Body) {
				if cs == "saveRespToCache" {
					nSave++
				}
			}
			ast.Inspect(ce.Body, func(n ast.Node) bool {
				if a, ok := n.(*ast.AssignStmt); ok {
					for _, l := range a.Lhs {
						if ex.str(l) == "rBefore" {
							nAssign++
						}
					}
				}
				return true
			})
			okNew = iB >= 0 && iN == iB+1 && iIf == iN+1 && nSave == 1 && nAssign == 1
		}
		// the lazy refresh (doLazyUpdate) stores only a response that was not in the copied context (F17): in the function
		// literal that runs the rest of the chain, `rBefore := qCtx.R()` is the statement immediately before
		// `err := next.ExecNext(ctx, qCtx)`, `r := qCtx.R()` is immediately followed by `if r != nil && rBefore != r {
		// saveRespToCache(...) ...`, the only saveRespToCache of doLazyUpdate; rBefore is assigned nowhere else
		lu := ex.fn("plugin/executable/cache/cache.go", "Cache", "doLazyUpdate")
		okLazy := false
		if lu != nil {
			ast.Inspect(lu.Body, func(n ast.Node) bool {
				fl, ok := n.(*ast.FuncLit)
				if !ok || okLazy {
					return true
				}
				var top []string
				for _, st := range fl.Body.List {
					top = append(top, ex.str(st))
				}
				iB, iN, iR, iIf := indexOf(top, "rBefore := qCtx.R()"), indexOf(top, "err := next.ExecNext(ctx, qCtx)"), indexOf(top, "r := qCtx.R()"), -1
				for i, t := range top {
					if strings.HasPrefix(t, "if r != nil && rBefore != r { saveRespToCache(msgKey, r, c.backend, c.args.LazyCacheTTL)") {
						iIf = i
					}
				}
				okLazy = iB >= 0 && iN == iB+1 && iR > iN && iIf == iR+1
				return true
			})
			nSave, nAssign := 0, 0
			for _, cs := range ex.calls(lu.Body) {
				if cs == "saveRespToCache" {
					nSave++
				}
			}
			ast.Inspect(lu.Body, func(n ast.Node) bool {
				if a, ok := n.(*ast.AssignStmt); ok {
					for _, l := range a.Lhs {
						if ex.str(l) == "rBefore" {
							nAssign++
						}
					}
				}
				return true
			})
			okLazy = okLazy && nSave == 1 && nAssign == 1
		}
		ex.setBool("c03LazyUpdateStoresOnlyNewResponse", okLazy, lu != nil, "cache.doLazyUpdate: rBefore := qCtx.R() immediately before next.ExecNext in the refresh; the only saveRespToCache of doLazyUpdate under `r != nil && rBefore != r`")
		ex.setBool("c03CacheStoresOnlyNewResponse", okNew, ce != nil, "cache.Exec: rBefore := qCtx.R() immediately before next.ExecNext; the only saveRespToCache of Exec under `r != nil && rBefore != r`")
		ex.setBool("c03CacheStoreCopiesQuestion", okCopyQ, cn != nil, "cache copyNoOpt: the stored message's Question slice is allocated (make + copy), the only assignment to it")
		ex.setBool("c03UdpUnpackInReadLoop", okUDP, shapeUDP, "ServeUDP: the loop unpacks (*rb)[:n] into a fresh message before `go`; the handler goroutine (last statement of the loop body) refers to neither rb nor ob")
		// FakeSOA (the authority record of locally generated empty answers; hosts.LookupMsg passes the QUERY NAME): the
		// function is one return of a composite literal whose Ns and Mbox are string literals, i.e. constants that do not
		// depend on the name; their wire lengths (presentation form without escapes, ending in a dot: len+1)
		fs := ex.fn("pkg/dnsutils/msg.go", "", "FakeSOA")
		okSoa, nsW, mbW := false, int64(0), int64(0)
		if fs != nil && len(fs.Body.List) == 1 {
			if ret, ok := fs.Body.List[0].(*ast.ReturnStmt); ok && len(ret.Results) == 1 {
				var cl *ast.CompositeLit
				if u, ok := ret.Results[0].(*ast.UnaryExpr); ok {
					cl, _ = u.X.(*ast.CompositeLit)
				}
				if cl != nil && ex.str(cl.Type) == "dns.SOA" {
					lit := func(e ast.Expr) (int64, bool) {
						b, ok := e.(*ast.BasicLit)
						if !ok || len(b.Value) < 3 || b.Value[0] != '"' || strings.ContainsAny(b.Value[1:len(b.Value)-1], "\\\"") || !strings.HasSuffix(b.Value, ".\"") {
							return 0, false
						}
						return int64(len(b.Value) - 2 + 1), true
					}
					nNs, nMb := 0, 0
					for _, el := range cl.Elts {
						kv, ok := el.(*ast.KeyValueExpr)
						if !ok {
							continue
						}
						switch ex.str(kv.Key) {
						case "Ns":
							nNs++
							if w, ok := lit(kv.Value); ok {
								nsW = w
							}
						case "Mbox":
							nMb++
							if w, ok := lit(kv.Value); ok {
								mbW = w
							}
						}
					}
					okSoa = nNs == 1 && nMb == 1 && nsW > 0 && mbW > 0
				}
			}
		}
		ex.setBool("c03FakeSoaNamesConstant", okSoa, fs != nil, "dnsutils.FakeSOA: a single return of &dns.SOA{...} whose Ns and Mbox are string literals (independent of the name passed in)")
		ex.setNat("c03FakeSoaNsWire", nsW, okSoa, "dnsutils.FakeSOA: wire length of the Ns literal")
		ex.setNat("c03FakeSoaMboxWire", mbW, okSoa, "dnsutils.FakeSOA: wire length of the Mbox literal")
		ex.setBool("c03LocalAnswersUseSetReply", okLocal, true, "hosts.LookupMsg, black_hole.Response, zone_file Reply, GenEmptyReply build their message with SetReply/SetRcode from the query")
	})
}
