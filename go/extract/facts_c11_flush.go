package main

import (
	"go/ast"
	"strings"
)

// C11: where the backing map of pkg/cache.Cache comes from. The capacity is a property of the
// map object (every shard's `max`, set when the map is created); it survives a Flush exactly
// when Flush empties that object in place instead of putting another one there.
func init() {
	factFuncs = append(factFuncs, func(ex *factExtractor) {
		const crel = "pkg/cache/cache.go"
		const mrel = "pkg/concurrent_map/map.go"
		cf, mf := ex.file(crel), ex.file(mrel)
		if cf == nil || mf == nil {
			ex.setBool("c11MapCreatedOnceFlushOnlyEmpties", false, false, "pkg/cache or pkg/concurrent_map could not be parsed")
			return
		}
		within := func(fd *ast.FuncDecl, n ast.Node) bool { return fd != nil && fd.Pos() <= n.Pos() && n.End() <= fd.End() }
		callee := func(c *ast.CallExpr) string {
			f := c.Fun
			for {
				switch x := f.(type) {
				case *ast.IndexExpr:
					f = x.X
					continue
				case *ast.IndexListExpr:
					f = x.X
					continue
				case *ast.ParenExpr:
					f = x.X
					continue
				}
				break
			}
			return ex.str(f)
		}
		// ---- pkg/cache: one map, made in New, kept in a plain field that is never assigned again
		newFn := ex.fn(crel, "", "New")
		creations, creationsInNew := 0, 0
		fieldWrites := 0 // `x.m = ...`, `&x.m`, `x.m.Store(...)` / Swap / CompareAndSwap (a field that holds the map behind an atomic)
		ast.Inspect(cf, func(n ast.Node) bool {
			switch x := n.(type) {
			case *ast.CallExpr:
				cl := callee(x)
				if strings.HasPrefix(cl, "concurrent_map.New") {
					creations++
					if within(newFn, x) {
						creationsInNew++
					}
				}
				if se, ok := x.Fun.(*ast.SelectorExpr); ok {
					if inner, ok := se.X.(*ast.SelectorExpr); ok && inner.Sel.Name == "m" {
						switch se.Sel.Name {
						case "Store", "Swap", "CompareAndSwap":
							fieldWrites++
						}
					}
				}
			case *ast.AssignStmt:
				for _, l := range x.Lhs {
					if se, ok := l.(*ast.SelectorExpr); ok && se.Sel.Name == "m" {
						fieldWrites++
					}
					if _, ok := l.(*ast.StarExpr); ok {
						fieldWrites++ // `*c = Cache{...}` would replace the map as well
					}
				}
			case *ast.UnaryExpr:
				if se, ok := x.X.(*ast.SelectorExpr); ok && x.Op.String() == "&" && se.Sel.Name == "m" {
					fieldWrites++
				}
			}
			return true
		})
		fieldType := ""
		cacheLits := 0
		ast.Inspect(cf, func(n ast.Node) bool {
			switch x := n.(type) {
			case *ast.TypeSpec:
				if st, ok := x.Type.(*ast.StructType); ok && x.Name.Name == "Cache" {
					for _, fl := range st.Fields.List {
						for _, nm := range fl.Names {
							if nm.Name == "m" {
								fieldType = ex.str(fl.Type)
							}
						}
					}
				}
			case *ast.CompositeLit:
				if x.Type != nil && strings.HasPrefix(ex.str(x.Type), "Cache[") {
					cacheLits++
				}
			}
			return true
		})
		newOK := false
		if newFn != nil {
			ss := stmtStrings(ex, newFn.Body)
			newOK = indexOf(ss, "opts.init()") == 0 && strings.Contains(strings.Join(ss, " "), "m: concurrent_map.NewMapCache[K, *elem[V]](opts.Size)")
		}
		flushOK := false
		if fd := ex.fn(crel, "Cache", "Flush"); fd != nil {
			flushOK = len(fd.Body.List) == 1 && ex.str(fd.Body.List[0]) == "c.m.Flush()"
		}
		// ---- pkg/concurrent_map: Flush walks the shards of the same map; a shard's flush replaces the Go map only; `max` is set
		// where the shard is created and nowhere else; shards are put into a map only by the two constructors
		mapFlushOK := false
		if fd := ex.fn(mrel, "Map", "Flush"); fd != nil {
			mapFlushOK = len(fd.Body.List) == 1 && ex.str(fd.Body.List[0]) == "for i := range m.shards { m.shards[i].flush() }"
		}
		shardFlushOK := false
		if fd := ex.fn(mrel, "shard", "flush"); fd != nil {
			shardFlushOK = len(fd.Body.List) == 3 && ex.str(fd.Body.List[2]) == "m.m = make(map[K]V)"
		}
		maxWrites, shardAssigns, shardAssignsInCtors := 0, 0, 0
		ctors := []*ast.FuncDecl{ex.fn(mrel, "", "NewMap"), ex.fn(mrel, "", "NewMapCache")}
		ast.Inspect(mf, func(n ast.Node) bool {
			switch x := n.(type) {
			case *ast.AssignStmt:
				for _, l := range x.Lhs {
					if se, ok := l.(*ast.SelectorExpr); ok && se.Sel.Name == "max" {
						maxWrites++
					}
					if _, ok := l.(*ast.StarExpr); ok {
						maxWrites++ // `*m = shard{...}` / `*m = Map{...}`
					}
					if strings.HasPrefix(ex.str(l), "m.shards") {
						shardAssigns++
						if within(ctors[0], x) || within(ctors[1], x) {
							shardAssignsInCtors++
						}
					}
				}
			case *ast.IncDecStmt:
				if se, ok := x.X.(*ast.SelectorExpr); ok && se.Sel.Name == "max" {
					maxWrites++
				}
			case *ast.UnaryExpr:
				if se, ok := x.X.(*ast.SelectorExpr); ok && x.Op.String() == "&" && se.Sel.Name == "max" {
					maxWrites++
				}
			}
			return true
		})
		ok := creations == 1 && creationsInNew == 1 && fieldWrites == 0 && cacheLits == 1 && newOK && flushOK &&
			fieldType == "*concurrent_map.Map[K, *elem[V]]" &&
			mapFlushOK && shardFlushOK && maxWrites == 0 && shardAssigns == 2 && shardAssignsInCtors == 2
		ex.setBool("c11MapCreatedOnceFlushOnlyEmpties", ok, true,
			"pkg/cache: the backing map is created at exactly one site (in New, after opts.init(), from the normalised opts.Size) and kept in a plain pointer field that is never assigned again (no `.m = `, `&x.m`, `.m.Store/Swap(...)`, `*c = `; one Cache literal); Cache.Flush is `c.m.Flush()`; concurrent_map: Map.Flush calls flush() on every shard of the same map, shard.flush only replaces the Go map, `max` is written nowhere after newShard, shards are assigned only in NewMap / NewMapCache: the capacity the map was created with survives every flush")
	})
}
