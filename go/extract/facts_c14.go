package main

import (
	"go/ast"
	"strings"
)

func init() {
	factFuncs = append(factFuncs, func(ex *factExtractor) {
		const rel = "plugin/executable/forward/forward.go"
		if v, ok := ex.pkgConst(rel, "maxConcurrentQueries", nil); ok {
			ex.setNat("c14MaxConcurrent", v, true, "forward: maxConcurrentQueries")
		}
		if v, ok := ex.pkgConst(rel, "queryTimeout", timeUnits); ok {
			ex.setNat("c14QueryTimeoutMs", v/1000000, true, "forward: per-upstream queryTimeout in ms")
		}
		fd := ex.fn(rel, "Forward", "exchange")
		if fd == nil {
			return
		}
		ss := stmtStrings(ex, fd.Body)
		i0 := indexOf(ss, "concurrent := f.args.Concurrent")
		ex.setBool("c14ClampShape", i0 >= 0 && i0+4 < len(ss) && ss[i0+1] == "if concurrent <= 0 { concurrent = 1 }" && ss[i0+3] == "if concurrent > maxConcurrentQueries { concurrent = maxConcurrentQueries }" &&
			countStr(ss, "concurrent = 1") == 1 && countStr(ss, "concurrent = maxConcurrentQueries") == 1, true,
			"exchange: concurrent <= 0 becomes 1, concurrent > maxConcurrentQueries becomes maxConcurrentQueries, nothing else assigns it")
		var loops []*ast.ForStmt
		ast.Inspect(fd.Body, func(n ast.Node) bool {
			if f, ok := n.(*ast.ForStmt); ok {
				loops = append(loops, f)
			}
			return true
		})
		okPick, okCopy, okHelper, okCollect := false, false, false, false
		if len(loops) == 2 {
			hdr := func(f *ast.ForStmt) string { return ex.str(f.Init) + ";" + ex.str(f.Cond) + ";" + ex.str(f.Post) }
			l0 := loops[0]
			okPick = hdr(l0) == "i := 0;i < concurrent;i++" && contains(ss, "r := rand.IntN(len(us))") && len(l0.Body.List) == 3 &&
				ex.str(l0.Body.List[0]) == "u := us[(r+i)%len(us)]" && contains(ss, "if len(us) == 0 { return nil, errors.New(\"no upstream to exchange\") }")
			okCopy = len(l0.Body.List) == 3 && ex.str(l0.Body.List[1]) == "qc := copyPayload(queryPayload)" && contains(ss, "defer pool.ReleaseBuf(qc)") &&
				contains(ss, "respPayload, err := u.ExchangeContext(upstreamCtx, *qc)") && contains(ss, "queryPayload, err := pool.PackBuffer(qCtx.Q())") &&
				countStr(ss, "defer pool.ReleaseBuf(queryPayload)") == 1
			okHelper = contains(ss, "upstreamCtx, cancel := context.WithTimeout(context.Background(), queryTimeout)") && contains(ss, "defer cancel()") &&
				contains(ss, "err = r.Unpack(*respPayload)") && contains(ss, "if err != nil { r = nil }") &&
				contains(ss, "select { case resChan <- res{r: r, err: err}: case <-done: }") && contains(ss, "resChan := make(chan res)") &&
				contains(ss, "done := make(chan struct{})") && contains(ss, "defer close(done)")
			l1 := loops[1]
			okCollect = hdr(l1) == "i := 0;i < concurrent;i++" && len(l1.Body.List) == 1 &&
				ex.str(l1.Body.List[0]) == "select { case res := <-resChan: r, err := res.r, res.err if err != nil { continue } if i < concurrent-1 && r.Rcode != dns.RcodeSuccess && r.Rcode != dns.RcodeNameError { continue } return r, nil case <-ctx.Done(): return nil, context.Cause(ctx) }" &&
				ex.str(fd.Body.List[len(fd.Body.List)-1]) == "return nil, errors.New(\"all upstream servers failed\")"
		}
		ex.setBool("c14PickShape", okPick, true, "exchange: random start r in [0, len(us)), the i-th helper queries us[(r+i)%len(us)]")
		ex.setBool("c14PrivateCopyPerUpstream", okCopy, true, "exchange: the query is packed once; every helper gets its own copy, released by that helper")
		ex.setBool("c14HelperShape", okHelper, true, "helper: fixed timeout detached from the caller's context, unparsable replies count as failures, the result is handed over unless the call has already returned")
		ex.setBool("c14CollectShape", okCollect, true, "collection loop: failures are skipped, a reply that is not the last is skipped unless its rcode is NOERROR or NXDOMAIN, the context ends the call")
		qc := ex.fn(rel, "Forward", "QuickConfigureExec")
		if qc != nil {
			qs := strings.Join(stmtStrings(ex, qc.Body), " ")
			ex.setBool("c14TagSubsets", strings.Contains(qs, "if len(args) == 0 { us = f.us } else { for _, tag := range strings.Fields(args) { u := f.tag2Upstream[tag] if u == nil { return nil, fmt.Errorf(\"cannot find upstream by tag %s\", tag) } us = append(us, u) } }") &&
				strings.Contains(qs, "r, err := f.exchange(ctx, qCtx, us)"), true,
				"QuickConfigureExec: no argument = all upstreams, otherwise exactly the upstreams with the listed tags, in the listed order")
		}
	})
}
