package main

import (
	"go/ast"
	"go/token"
	"strings"
)

func init() {
	factFuncs = append(factFuncs, func(ex *factExtractor) {
		const rel = "plugin/executable/forward/forward.go"
		if v, ok := ex.pkgConst(rel, "maxConcurrentQueries", nil); ok {
			ex.setNat("c14MaxConcurrent", v, true, "forward: maxConcurrentQueries")
		}
		if v, ok := ex.pkgConst(rel, "queryTimeout", timeUnits); ok {
			ex.setNat("c14QueryTimeoutMs", v/1000000, true, "forward: per-upstream queryTimeout in ms")
		}
		fd := ex.fn(rel, "Forward", "exchange")
		if fd == nil {
			return
		}
		ss := stmtStrings(ex, fd.Body)
		i0 := indexOf(ss, "concurrent := f.args.Concurrent")
		ex.setBool("c14ClampShape", i0 >= 0 && i0+4 < len(ss) && ss[i0+1] == "if concurrent <= 0 { concurrent = 1 }" && ss[i0+3] == "if concurrent > maxConcurrentQueries { concurrent = maxConcurrentQueries }" &&
			countStr(ss, "concurrent = 1") == 1 && countStr(ss, "concurrent = maxConcurrentQueries") == 1, true,
			"exchange: concurrent <= 0 becomes 1, concurrent > maxConcurrentQueries becomes maxConcurrentQueries, nothing else assigns it")
		var loops []*ast.ForStmt
		ast.Inspect(fd.Body, func(n ast.Node) bool {
			if f, ok := n.(*ast.ForStmt); ok {
				loops = append(loops, f)
			}
			return true
		})
		okPick, okCopy, okHelper, okCollect := false, false, false, false
		if len(loops) == 2 {
			hdr := func(f *ast.ForStmt) string { return ex.str(f.Init) + ";" + ex.str(f.Cond) + ";" + ex.str(f.Post) }
			l0 := loops[0]
			okPick = hdr(l0) == "i := 0;i < concurrent;i++" && contains(ss, "r := rand.IntN(len(us))") && len(l0.Body.List) == 3 &&
				ex.str(l0.Body.List[0]) == "u := us[(r+i)%len(us)]" && contains(ss, "if len(us) == 0 { return nil, errors.New(\"no upstream to exchange\") }")
			okCopy = len(l0.Body.List) == 3 && ex.str(l0.Body.List[1]) == "qc := copyPayload(queryPayload)" && contains(ss, "defer pool.ReleaseBuf(qc)") &&
				contains(ss, "respPayload, err := u.ExchangeContext(upstreamCtx, *qc)") && contains(ss, "queryPayload, err := pool.PackBuffer(qCtx.Q())") &&
				countStr(ss, "defer pool.ReleaseBuf(queryPayload)") == 1
			okHelper = contains(ss, "upstreamCtx, cancel := context.WithTimeout(context.Background(), queryTimeout)") && contains(ss, "defer cancel()") &&
				contains(ss, "err = r.Unpack(*respPayload)") && contains(ss, "if err != nil { r = nil }") &&
				contains(ss, "select { case resChan <- res{r: r, err: err}: case <-done: }") && contains(ss, "resChan := make(chan res)") &&
				contains(ss, "done := make(chan struct{})") && contains(ss, "defer close(done)")
			l1 := loops[1]
			okCollect = hdr(l1) == "i := 0;i < concurrent;i++" && len(l1.Body.List) == 1 &&
				ex.str(l1.Body.List[0]) == "select { case res := <-resChan: r, err := res.r, res.err if err != nil { continue } if i < concurrent-1 && r.Rcode != dns.RcodeSuccess && r.Rcode != dns.RcodeNameError { continue } return r, nil case <-ctx.Done(): return nil, context.Cause(ctx) }" &&
				ex.str(fd.Body.List[len(fd.Body.List)-1]) == "return nil, errors.New(\"all upstream servers failed\")"
		}
		ex.setBool("c14PickShape", okPick, true, "exchange: random start r in [0, len(us)), the i-th helper queries us[(r+i)%len(us)]")
		ex.setBool("c14PrivateCopyPerUpstream", okCopy, true, "exchange: the query is packed once; every helper gets its own copy, released by that helper")
		ex.setBool("c14HelperShape", okHelper, true, "helper: fixed timeout detached from the caller's context, unparsable replies count as failures, the result is handed over unless the call has already returned")
		ex.setBool("c14CollectShape", okCollect, true, "collection loop: failures are skipped, a reply that is not the last is skipped unless its rcode is NOERROR or NXDOMAIN, the context ends the call")
		c14ConstructionFacts(ex, rel)
		c14WrapperFacts(ex)
		c14InstallFacts(ex, rel)
		qc := ex.fn(rel, "Forward", "QuickConfigureExec")
		if qc != nil {
			qs := strings.Join(stmtStrings(ex, qc.Body), " ")
			ex.setBool("c14TagSubsets", strings.Contains(qs, "if len(args) == 0 { us = f.us } else { for _, tag := range strings.Fields(args) { u := f.tag2Upstream[tag] if u == nil { return nil, fmt.Errorf(\"cannot find upstream by tag %s\", tag) } us = append(us, u) } }") &&
				strings.Contains(qs, "r, err := f.exchange(ctx, qCtx, us)"), true,
				"QuickConfigureExec: no argument = all upstreams, otherwise exactly the upstreams with the listed tags, in the listed order")
		}
	})
}

// c14ConstructionFacts: how NewForward turns the configured entries into the upstream list U.
func c14ConstructionFacts(ex *factExtractor, rel string) {
	nf := ex.fn(rel, "", "NewForward")
	if nf == nil {
		return
	}
	ss := stmtStrings(ex, nf.Body)
	var loops []*ast.RangeStmt
	ast.Inspect(nf.Body, func(n ast.Node) bool {
		if rs, ok := n.(*ast.RangeStmt); ok {
			loops = append(loops, rs)
		}
		return true
	})
	okLoop, okOpts := false, false
	var optLit *ast.CompositeLit
	if len(loops) == 1 && ex.str(loops[0].Key) == "i" && ex.str(loops[0].Value) == "c" && ex.str(loops[0].X) == "args.Upstreams" {
		b := loops[0].Body.List
		at := func(i int) string {
			if i < len(b) {
				return ex.str(b[i])
			}
			return ""
		}
		nCalls := 0
		for _, c := range ex.calls(nf.Body) {
			if c == "upstream.NewUpstream" {
				nCalls++
			}
		}
		otherWrites := 0 // any other statement that writes the wrapper's upstream, the list or the tag map
		for _, s := range ss {
			if (strings.HasPrefix(s, "uw.u ") || strings.HasPrefix(s, "uw.u=") || strings.HasPrefix(s, "f.us ") || strings.HasPrefix(s, "f.us[") || strings.HasPrefix(s, "f.tag2Upstream[")) &&
				s != "uw.u = u" && s != "f.us = append(f.us, uw)" && s != "f.tag2Upstream[c.Tag] = uw" {
				otherWrites++
			}
		}
		okLoop = len(b) == 9 &&
			strings.HasPrefix(at(0), "if len(c.Addr) == 0 { return nil, ") &&
			at(1) == "applyGlobal(&c)" &&
			at(2) == "uw := newWrapper(i, c, opt.MetricsTag)" &&
			strings.HasPrefix(at(3), "uOpt := upstream.Opt{") &&
			at(4) == "u, err := upstream.NewUpstream(c.Addr, uOpt)" &&
			strings.HasPrefix(at(5), "if err != nil { _ = f.Close() return nil, ") &&
			at(6) == "uw.u = u" &&
			at(7) == "f.us = append(f.us, uw)" &&
			strings.HasPrefix(at(8), "if len(c.Tag) > 0 { if _, dup := f.tag2Upstream[c.Tag]; dup { _ = f.Close() return nil, ") && strings.HasSuffix(at(8), " } f.tag2Upstream[c.Tag] = uw }") &&
			nCalls == 1 && otherWrites == 0 &&
			countStr(ss, "uw.u = u") == 1 && countStr(ss, "f.us = append(f.us, uw)") == 1 && countStr(ss, "f.tag2Upstream[c.Tag] = uw") == 1
		for _, st := range b {
			if as, ok := st.(*ast.AssignStmt); ok && len(as.Lhs) == 1 && len(as.Rhs) == 1 && ex.str(as.Lhs[0]) == "uOpt" && optLit == nil {
				optLit, _ = as.Rhs[0].(*ast.CompositeLit)
			}
		}
	}
	if optLit != nil {
		kv := map[string]string{}
		for _, e := range optLit.Elts {
			if p, ok := e.(*ast.KeyValueExpr); ok {
				kv[ex.str(p.Key)] = ex.str(p.Value)
			}
		}
		want := map[string]string{
			"DialAddr": "c.DialAddr", "Socks5": "c.Socks5", "SoMark": "c.SoMark", "BindToDevice": "c.BindToDevice",
			"IdleTimeout": "time.Duration(c.IdleTimeout) * time.Second", "EnablePipeline": "c.EnablePipeline", "EnableHTTP3": "c.EnableHTTP3",
			"Bootstrap": "c.Bootstrap", "BootstrapVer": "c.BootstrapVer", "EventObserver": "uw",
		}
		okOpts = len(kv) == len(optLit.Elts)
		for k, v := range want {
			if kv[k] != v {
				okOpts = false
			}
		}
		okOpts = okOpts && strings.Contains(kv["TLSConfig"], "InsecureSkipVerify: c.InsecureSkipVerify") &&
			contains(ss, "applyGlobal := func(c *UpstreamConfig) { utils.SetDefaultString(&c.Socks5, args.Socks5) utils.SetDefaultUnsignNum(&c.SoMark, args.SoMark) utils.SetDefaultString(&c.BindToDevice, args.BindToDevice) utils.SetDefaultString(&c.Bootstrap, args.Bootstrap) utils.SetDefaultUnsignNum(&c.BootstrapVer, args.BootstrapVer) }")
	}
	ex.setBool("c14UpstreamPerEntry", okLoop, true,
		"NewForward: one pass over args.Upstreams; every entry gets its own wrapper and its own upstream.NewUpstream(c.Addr, uOpt) call (the only one), appended to the list in configuration order and registered under its own tag; nothing else writes the list, a wrapper's upstream or the tag map")
	ex.setBool("c14EntryOptions", okOpts, true,
		"NewForward: the upstream of an entry is created from that entry's own addr, dial_addr, socks5, so_mark, bind_to_device, idle_timeout, pipeline, http3, bootstrap(+version), insecure_skip_verify; the plugin-wide socks5 / so_mark / bind_to_device / bootstrap(+version) only fill fields the entry leaves empty")
}

// c14WrapperFacts: what stands between a helper of Forward.exchange and the upstream of its position
// (upstreamWrapper.ExchangeContext in utils.go).
func c14WrapperFacts(ex *factExtractor) {
	fd := ex.fn("plugin/executable/forward/utils.go", "upstreamWrapper", "ExchangeContext")
	if fd == nil || fd.Body == nil {
		return
	}
	const call = "r, err := uw.u.ExchangeContext(ctx, m)"
	top := fd.Body.List
	at := -1
	for i, st := range top {
		if ex.str(st) == call {
			at = i
		}
	}
	ok := at >= 0 && len(top) > 0 && ex.str(top[len(top)-1]) == "return r, err"
	nCalls, nReturns := 0, 0
	for _, c := range ex.calls(fd.Body) {
		if c == "uw.u.ExchangeContext" {
			nCalls++
		}
	}
	// nothing in the body can wait, repeat, leave early or start something: no select, channel operation, loop, go,
	// defer, goto / labelled jump, lock; the only return is the last statement
	ast.Inspect(fd.Body, func(n ast.Node) bool {
		switch x := n.(type) {
		case *ast.SelectStmt, *ast.SendStmt, *ast.ForStmt, *ast.RangeStmt, *ast.GoStmt, *ast.DeferStmt, *ast.BranchStmt, *ast.LabeledStmt, *ast.FuncLit, *ast.SwitchStmt, *ast.TypeSwitchStmt:
			ok = false
		case *ast.UnaryExpr:
			if x.Op == token.ARROW {
				ok = false
			}
		case *ast.ReturnStmt:
			nReturns++
		case *ast.CallExpr:
			s := ex.str(x.Fun)
			if strings.HasSuffix(s, "Lock") || strings.HasSuffix(s, ".Wait") || strings.HasSuffix(s, ".Sleep") || strings.HasSuffix(s, ".Acquire") {
				ok = false
			}
		}
		return true
	})
	// before the call: plain statements only (no condition under which the call is skipped); after it r and err are not written
	for i, st := range top {
		if i < at {
			switch st.(type) {
			case *ast.ExprStmt, *ast.AssignStmt, *ast.IncDecStmt, *ast.DeclStmt:
			default:
				ok = false
			}
		}
		if i > at {
			ast.Inspect(st, func(n ast.Node) bool {
				if as, isAs := n.(*ast.AssignStmt); isAs {
					for _, l := range as.Lhs {
						if s := ex.str(l); s == "r" || s == "err" || s == "*r" {
							ok = false
						}
					}
				}
				return true
			})
		}
	}
	ex.setBool("c14WrapperTransparent", ok && nCalls == 1 && nReturns == 1, true,
		"upstreamWrapper.ExchangeContext: one unconditional call of the wrapped upstream's ExchangeContext(ctx, m) whose results are returned as they are; around it only counters (no select, channel operation, loop, lock, early return: nothing that can hold an exchange back or keep state between exchanges)")
}

// c14InstallFacts: what Forward.Exec and the closure of QuickConfigureExec do with the outcome of exchange: the
// error is returned as it is, and otherwise the chosen reply is stored in the query context - with no condition
// on the reply (rcode ...) or on what the context already holds.
func c14InstallFacts(ex *factExtractor, rel string) {
	shape := func(body *ast.BlockStmt, us string) bool {
		if body == nil || len(body.List) != 4 {
			return false
		}
		return ex.str(body.List[0]) == "r, err := f.exchange(ctx, qCtx, "+us+")" &&
			ex.str(body.List[1]) == "if err != nil { return err }" &&
			ex.str(body.List[2]) == "qCtx.SetResponse(r)" &&
			ex.str(body.List[3]) == "return nil"
	}
	okExec, okQuick := false, false
	if fd := ex.fn(rel, "Forward", "Exec"); fd != nil {
		okExec = shape(fd.Body, "f.us")
	}
	if qc := ex.fn(rel, "Forward", "QuickConfigureExec"); qc != nil {
		var lits []*ast.FuncLit
		ast.Inspect(qc.Body, func(n ast.Node) bool {
			if fl, ok := n.(*ast.FuncLit); ok {
				lits = append(lits, fl)
			}
			return true
		})
		last := ""
		if n := len(qc.Body.List); n > 0 {
			last = ex.str(qc.Body.List[n-1])
		}
		okQuick = len(lits) == 1 && shape(lits[0].Body, "us") && last == "return execFunc, nil" &&
			countStr(stmtStrings(ex, qc.Body), "return execFunc, nil") == 1
	}
	ex.setBool("c14ExecInstallsReply", okExec && okQuick, true,
		"Forward.Exec and the executable returned by QuickConfigureExec: r, err := f.exchange(...); an error is returned as it is; otherwise qCtx.SetResponse(r) unconditionally (whatever the rcode of r and whatever response the context already holds), then nil")
}
