package main

import (
	"go/ast"
	"go/token"
)

func init() {
	factFuncs = append(factFuncs, func(ex *factExtractor) {
		const rel = "pkg/matcher/netlist/list.go"
		// ---- Sort: the switch inside the loop
		sortFn := ex.fn(rel, "List", "Sort")
		var sameBase, appendCase *ast.CaseClause
		if sortFn != nil {
			ast.Inspect(sortFn.Body, func(n ast.Node) bool {
				if cc, ok := n.(*ast.CaseClause); ok && len(cc.List) == 1 {
					switch ex.str(cc.List[0]) {
					case "n.Addr() == lv.Addr()":
						sameBase = cc
					case "!lv.Contains(n.Addr())":
						appendCase = cc
					}
				}
				return true
			})
		}
		op, ok := token.ILLEGAL, false
		if sameBase != nil {
			op, ok = ex.findCmp(sameBase, "n.Bits()", "lv.Bits()")
			// the body of that if must replace the last kept prefix
			ok = ok && contains(stmtStrings(ex, sameBase), "*lv = n")
		}
		ex.setCmp("c13SortSameBaseCmp", op, ok, "Sort: `case n.Addr() == lv.Addr(): if n.Bits() <op> lv.Bits() { *lv = n }`")
		ex.setBool("c13SortAppendsWhenNotContained", appendCase != nil && contains(stmtStrings(ex, appendCase), "out = append(out, n)"), sortFn != nil,
			"Sort: `case !lv.Contains(n.Addr()): out = append(out, n)`")
		ex.setBool("c13SortCallsSort", sortFn != nil && contains(ex.calls(sortFn.Body), "sort.Sort"), sortFn != nil, "Sort calls sort.Sort(list)")
		// an early return other than `if list.sorted { return }` would skip the merge
		nret := 0
		if sortFn != nil {
			ast.Inspect(sortFn.Body, func(n ast.Node) bool {
				if _, ok := n.(*ast.ReturnStmt); ok {
					nret++
				}
				return true
			})
		}
		ex.setNat("c13SortReturns", int64(nret), sortFn != nil, "number of return statements in Sort (the `if list.sorted` shortcut only)")
		// ---- Less
		less := ex.fn(rel, "List", "Less")
		ex.setBool("c13LessByAddr", less != nil && ex.str(less.Body) == "{ return list.e[i].Addr().Less(list.e[j].Addr()) }", less != nil, "Less compares base addresses only")
		// ---- Contains
		cont := ex.fn(rel, "List", "Contains")
		op, ok = token.ILLEGAL, false
		if cont != nil {
			op, ok = ex.findCmp(cont, "list.e[h].Addr().Compare(addr)", "0")
		}
		ex.setCmp("c13ContainsCmp", op, ok, "Contains: `if list.e[h].Addr().Compare(addr) <op> 0 { i = h + 1 } else { j = h }`")
		okRet := false
		if cont != nil {
			ss := stmtStrings(ex, cont.Body)
			okRet = contains(ss, "return list.e[i-1].Contains(addr)") && contains(ss, "i = h + 1") && contains(ss, "j = h") && contains(ss, "addr = to6(addr)")
		}
		ex.setBool("c13ContainsShape", okRet, cont != nil, "Contains: to6, i = h + 1 / j = h, returns list.e[i-1].Contains(addr)")
		// ---- Append
		app := ex.fn(rel, "List", "Append")
		okApp := false
		var off int64
		if app != nil {
			ss := stmtStrings(ex, app.Body)
			okApp = contains(ss, "addr := to6(n.Addr())") && contains(ss, "newNet[i] = netip.PrefixFrom(addr, bits).Masked()")
			ast.Inspect(app.Body, func(n ast.Node) bool {
				if is, ok := n.(*ast.IfStmt); ok && ex.str(is.Cond) == "n.Addr().Is4()" {
					for _, s := range is.Body.List {
						if as, ok := s.(*ast.AssignStmt); ok && as.Tok == token.ADD_ASSIGN && ex.str(as.Lhs[0]) == "bits" {
							off, _ = ex.intLit(as.Rhs[0], nil)
						}
					}
				}
				return true
			})
		}
		ex.setBool("c13AppendMasksTo6", okApp, app != nil, "Append: addr := to6(n.Addr()); newNet[i] = netip.PrefixFrom(addr, bits).Masked()")
		ex.setNat("c13AppendV4BitsOffset", off, app != nil && off != 0, "Append: `if n.Addr().Is4() { bits += 96 }`")
	})
}

// stmtStrings lists every statement under node, printed.
func stmtStrings(ex *factExtractor, node ast.Node) []string {
	var out []string
	ast.Inspect(node, func(n ast.Node) bool {
		if s, ok := n.(ast.Stmt); ok {
			if _, isBlock := s.(*ast.BlockStmt); !isBlock {
				out = append(out, ex.str(s))
			}
		}
		return true
	})
	return out
}
