package main

import (
	"go/ast"
	"go/token"
)

func init() {
	factFuncs = append(factFuncs, func(ex *factExtractor) {
		const rel = "pkg/matcher/netlist/list.go"
		// ---- Sort: the switch inside the loop
		sortFn := ex.fn(rel, "List", "Sort")
		var sameBase, appendCase *ast.CaseClause
		if sortFn != nil {
			ast.Inspect(sortFn.Body, func(n ast.Node) bool {
				if cc, ok := n.(*ast.CaseClause); ok && len(cc.List) == 1 {
					switch ex.str(cc.List[0]) {
					case "n.Addr() == lv.Addr()":
						sameBase = cc
					case "!lv.Contains(n.Addr())":
						appendCase = cc
					}
				}
				return true
			})
		}
		op, ok := token.ILLEGAL, false
		if sameBase != nil {
			op, ok = ex.findCmp(sameBase, "n.Bits()", "lv.Bits()")
			// the body of that if must replace the last kept prefix
			ok = ok && contains(stmtStrings(ex, sameBase), "*lv = n")
		}
		ex.setCmp("c13SortSameBaseCmp", op, ok, "Sort: `case n.Addr() == lv.Addr(): if n.Bits() <op> lv.Bits() { *lv = n }`")
		ex.setBool("c13SortAppendsWhenNotContained", appendCase != nil && contains(stmtStrings(ex, appendCase), "out = append(out, n)"), sortFn != nil,
			"Sort: `case !lv.Contains(n.Addr()): out = append(out, n)`")
		ex.setBool("c13SortCallsSort", sortFn != nil && contains(ex.calls(sortFn.Body), "sort.Sort"), sortFn != nil, "Sort calls sort.Sort(list)")
		// an early return other than `if list.sorted { return }` would skip the merge
		nret := 0
		if sortFn != nil {
			ast.Inspect(sortFn.Body, func(n ast.Node) bool {
				if _, ok := n.(*ast.ReturnStmt); ok {
					nret++
				}
				return true
			})
		}
		ex.setNat("c13SortReturns", int64(nret), sortFn != nil, "number of return statements in Sort (the `if list.sorted` shortcut only)")
		// ---- Less
		less := ex.fn(rel, "List", "Less")
		ex.setBool("c13LessByAddr", less != nil && ex.str(less.Body) == "{ return list.e[i].Addr().Less(list.e[j].Addr()) }", less != nil, "Less compares base addresses only")
		// ---- Contains
		cont := ex.fn(rel, "List", "Contains")
		op, ok = token.ILLEGAL, false
		if cont != nil {
			op, ok = ex.findCmp(cont, "list.e[h].Addr().Compare(addr)", "0")
		}
		ex.setCmp("c13ContainsCmp", op, ok, "Contains: `if list.e[h].Addr().Compare(addr) <op> 0 { i = h + 1 } else { j = h }`")
		okRet := false
		if cont != nil {
			ss := stmtStrings(ex, cont.Body)
			okRet = contains(ss, "return list.e[i-1].Contains(addr)") && contains(ss, "i = h + 1") && contains(ss, "j = h") && contains(ss, "addr = to6(addr)")
		}
		ex.setBool("c13ContainsShape", okRet, cont != nil, "Contains: to6, i = h + 1 / j = h, returns list.e[i-1].Contains(addr)")
		// ---- Append
		app := ex.fn(rel, "List", "Append")
		okApp := false
		var off int64
		if app != nil {
			ss := stmtStrings(ex, app.Body)
			okApp = contains(ss, "addr := to6(n.Addr())") && contains(ss, "newNet[i] = netip.PrefixFrom(addr, bits).Masked()")
			ast.Inspect(app.Body, func(n ast.Node) bool {
				if is, ok := n.(*ast.IfStmt); ok && ex.str(is.Cond) == "n.Addr().Is4()" {
					for _, s := range is.Body.List {
						if as, ok := s.(*ast.AssignStmt); ok && as.Tok == token.ADD_ASSIGN && ex.str(as.Lhs[0]) == "bits" {
							off, _ = ex.intLit(as.Rhs[0], nil)
						}
					}
				}
				return true
			})
		}
		ex.setBool("c13AppendMasksTo6", okApp, app != nil, "Append: addr := to6(n.Addr()); newNet[i] = netip.PrefixFrom(addr, bits).Masked()")
		ex.setNat("c13AppendV4BitsOffset", off, app != nil && off != 0, "Append: `if n.Addr().Is4() { bits += 96 }`")
	})
}

// ip_set plugins that reference other sets: who writes an IPSet's member slice `mg`, and the shape of the
// loops over `sets:` (NewIPSet) and over the members (MatcherGroup.Match).
func init() {
	factFuncs = append(factFuncs, func(ex *factExtractor) {
		const rel = "plugin/data_provider/ip_set/ip_set.go"
		f := ex.file(rel)
		newFn := ex.fn(rel, "", "NewIPSet")
		// every write of a field `mg` in the file: `p.mg = append(p.mg, <one value>)` inside NewIPSet is a
		// "self append"; everything else (another right-hand side, `append(p.mg, xs...)`, an element write,
		// `&x.mg`, a composite literal with an `mg:` key, a write outside NewIPSet) is an "other write"
		selfAppends, otherWrites := int64(0), int64(0)
		isMg := func(e ast.Expr) bool {
			sel, ok := e.(*ast.SelectorExpr)
			return ok && sel.Sel.Name == "mg"
		}
		if f != nil {
			ast.Inspect(f, func(n ast.Node) bool {
				switch x := n.(type) {
				case *ast.AssignStmt:
					for k, l := range x.Lhs {
						target := l
						if ix, ok := l.(*ast.IndexExpr); ok {
							target = ix.X
						}
						if sl, ok := l.(*ast.SliceExpr); ok {
							target = sl.X
						}
						if !isMg(target) {
							continue
						}
						good := false
						if target == l && x.Tok == token.ASSIGN && len(x.Lhs) == len(x.Rhs) && newFn != nil && x.Pos() >= newFn.Pos() && x.End() <= newFn.End() && ex.str(l) == "p.mg" {
							if c, ok := x.Rhs[k].(*ast.CallExpr); ok && ex.str(c.Fun) == "append" && len(c.Args) == 2 && !c.Ellipsis.IsValid() && ex.str(c.Args[0]) == "p.mg" {
								good = true
							}
						}
						if good {
							selfAppends++
						} else {
							otherWrites++
						}
					}
				case *ast.UnaryExpr:
					if x.Op == token.AND && isMg(x.X) {
						otherWrites++
					}
				case *ast.KeyValueExpr:
					if id, ok := x.Key.(*ast.Ident); ok && id.Name == "mg" {
						otherWrites++
					}
				case *ast.IncDecStmt:
					if isMg(x.X) {
						otherWrites++
					}
				}
				return true
			})
		}
		ex.setNat("c13IPSetMgSelfAppends", selfAppends, f != nil && newFn != nil, "ip_set.go: number of statements `p.mg = append(p.mg, <one value>)` in NewIPSet")
		ex.setNat("c13IPSetMgOtherWrites", otherWrites, f != nil && newFn != nil, "ip_set.go: number of other writes of a field `mg` (other right-hand side, append with `...`, element write, &x.mg, literal key, outside NewIPSet)")
		fresh, ownFirst, rangesSets := false, false, false
		if newFn != nil && len(newFn.Body.List) > 0 {
			fresh = ex.str(newFn.Body.List[0]) == "p := &IPSet{}"
			top := []string{}
			for _, st := range newFn.Body.List {
				top = append(top, ex.str(st))
			}
			iSort, iOwn, iLoop := indexOf(top, "l.Sort()"), indexOf(top, "if l.Len() > 0 { p.mg = append(p.mg, l) }"), -1
			for k, st := range newFn.Body.List {
				if rs, ok := st.(*ast.RangeStmt); ok {
					if iLoop >= 0 {
						iLoop = -2 // more than one loop
						break
					}
					iLoop = k
					rangesSets = ex.str(rs.X) == "args.Sets" && rs.Key != nil && ex.str(rs.Key) == "_" && rs.Value != nil && ex.str(rs.Value) == "tag"
				}
			}
			ownFirst = iSort >= 0 && iSort < iOwn && iOwn < iLoop && iLoop == len(top)-2 && top[len(top)-1] == "return p, nil"
			rangesSets = rangesSets && iLoop >= 0
		}
		ex.setBool("c13IPSetFresh", fresh, newFn != nil, "NewIPSet starts with `p := &IPSet{}` (an empty member slice of its own)")
		ex.setBool("c13IPSetOwnListFirst", ownFirst, newFn != nil, "NewIPSet: `l.Sort()`, then `if l.Len() > 0 { p.mg = append(p.mg, l) }`, then the only loop, then `return p, nil`")
		ex.setBool("c13IPSetRangesSets", rangesSets, newFn != nil, "NewIPSet: the loop is `for _, tag := range args.Sets`")
		get := ex.fn(rel, "IPSet", "GetIPMatcher")
		ex.setBool("c13GetIPMatcherShape", get != nil && ex.str(get.Body) == "{ return MatcherGroup(d.mg) }", get != nil, "GetIPMatcher: `return MatcherGroup(d.mg)` (the member slice itself, not a copy)")
		match := ex.fn(rel, "MatcherGroup", "Match")
		shape := false
		if match != nil && len(match.Body.List) == 2 {
			rs, ok := match.Body.List[0].(*ast.RangeStmt)
			shape = ok && ex.str(rs.X) == "mg" && rs.Key != nil && ex.str(rs.Key) == "_" && rs.Value != nil && ex.str(rs.Value) == "m" && ex.str(match.Body.List[1]) == "return false"
		}
		ex.setBool("c13GroupMatchShape", shape, match != nil, "MatcherGroup.Match: `for _, m := range mg { ... }` followed by `return false`")
	})
}

// stmtStrings lists every statement under node, printed.
func stmtStrings(ex *factExtractor, node ast.Node) []string {
	var out []string
	ast.Inspect(node, func(n ast.Node) bool {
		if s, ok := n.(ast.Stmt); ok {
			if _, isBlock := s.(*ast.BlockStmt); !isBlock {
				out = append(out, ex.str(s))
			}
		}
		return true
	})
	return out
}
