package main

import (
	"go/ast"
	"strings"
)

// C20: the other clients of pkg/pool's timer pool (the pool fallback's threshold timer comes from). Each of them
// must hand a borrowed timer back exactly once: per file, every `X := pool.GetTimer(..)` is directly followed by
// `defer pool.ReleaseTimer(X)` in the same block, there is no other pool.ReleaseTimer / timerPool use in the file,
// and X is otherwise only received from (`<-X.C`) - it is not passed to anything that could release it again.
func init() {
	factFuncs = append(factFuncs, func(ex *factExtractor) {
		files := []string{"plugin/executable/sleep/sleep.go", "plugin/executable/dual_selector/dual_selector.go"}
		once, known := true, true
		var notes []string
		for _, rel := range files {
			f := ex.file(rel)
			if f == nil {
				known = false
				notes = append(notes, rel+": not found")
				continue
			}
			nGet, nRel, paired, otherUse := 0, 0, 0, 0
			vars := map[string]bool{}
			ast.Inspect(f, func(n ast.Node) bool {
				switch x := n.(type) {
				case *ast.BlockStmt, *ast.CommClause, *ast.CaseClause:
					var list []ast.Stmt
					switch b := x.(type) {
					case *ast.BlockStmt:
						list = b.List
					case *ast.CommClause:
						list = b.Body
					case *ast.CaseClause:
						list = b.Body
					}
					for i, s := range list {
						as, ok := s.(*ast.AssignStmt)
						if !ok || len(as.Lhs) != 1 || len(as.Rhs) != 1 || !strings.HasPrefix(ex.str(as.Rhs[0]), "pool.GetTimer(") {
							continue
						}
						v := ex.str(as.Lhs[0])
						vars[v] = true
						if i+1 < len(list) && ex.str(list[i+1]) == "defer pool.ReleaseTimer("+v+")" {
							paired++
						}
					}
				case *ast.CallExpr:
					switch ex.str(x.Fun) {
					case "pool.GetTimer":
						nGet++
					case "pool.ReleaseTimer":
						nRel++
					}
				}
				return true
			})
			// every other mention of a borrowed timer must be `<-X.C`
			ast.Inspect(f, func(n ast.Node) bool {
				switch x := n.(type) {
				case *ast.AssignStmt:
					if len(x.Rhs) == 1 && strings.HasPrefix(ex.str(x.Rhs[0]), "pool.GetTimer(") {
						return false
					}
				case *ast.DeferStmt:
					if strings.HasPrefix(ex.str(x), "defer pool.ReleaseTimer(") {
						return false
					}
				case *ast.UnaryExpr:
					if s := ex.str(x); strings.HasPrefix(s, "<-") && strings.HasSuffix(s, ".C") && vars[strings.TrimSuffix(strings.TrimPrefix(s, "<-"), ".C")] {
						return false
					}
				case *ast.Ident:
					if vars[x.Name] {
						otherUse++
					}
				}
				return true
			})
			ok := nGet >= 1 && nGet == nRel && paired == nGet && otherUse == 0
			once = once && ok
			if !ok {
				notes = append(notes, rel+": a borrowed timer is not released exactly once by a deferred pool.ReleaseTimer right after pool.GetTimer (or is handed on)")
			}
		}
		note := "every other client of the timer pool (sleep, dual_selector): `X := pool.GetTimer(..)` directly followed by `defer pool.ReleaseTimer(X)`, no other pool.ReleaseTimer in the file, X otherwise only received from"
		if len(notes) > 0 {
			note += " [" + strings.Join(notes, "; ") + "]"
		}
		ex.setBool("c20PoolClientsReleaseOnce", once, known, note)
	})
}
