package main

import (
	"fmt"
	"go/ast"
	"go/token"
	"strings"
)

// C17: where the two halves of the plain-UDP upstream connect. The `udp` case
// of NewUpstream builds two dial closures (dialUdpPipeline, dialTcpNetConn)
// and wires them into udpWithFallback{u, t}. "To the same server" means both
// closures end in the same dialer with the same address; the facts below read
// that off the source. Code 0 = `dialer.DialContext(ctx, <network>, dialAddr)`
// (direct), 1 = through the shared newTcpDialer helper (which connects to
// Opt.Socks5 first when that is set), none = shape not recognised.
func init() {
	factFuncs = append(factFuncs, func(ex *factExtractor) {
		const rel = "pkg/upstream/upstream.go"
		fd := ex.fn(rel, "", "NewUpstream")
		var cc *ast.CaseClause
		if fd != nil {
			cc = ex.caseClause(fd.Body, "addrURL.Scheme", "udp")
		}
		noteVia := "0 = dialer.DialContext(ctx, network, dialAddr) directly; 1 = through newTcpDialer (connects to Opt.Socks5 when set)"
		if cc == nil {
			ex.setNat("c17UdpDialVia", 0, false, "udp case of NewUpstream not found")
			ex.setNat("c17TcpDialVia", 0, false, "udp case of NewUpstream not found")
			ex.setBool("c17DialAddrShape", false, false, "udp case of NewUpstream not found")
			ex.setBool("c17DialerIsNetDialer", false, false, "udp case of NewUpstream not found")
			ex.setBool("c17FallbackWiring", false, false, "udp case of NewUpstream not found")
			return
		}
		clause := &ast.BlockStmt{List: cc.Body}

		// top-level `name := <rhs>` / `name, err := <rhs>` of the clause
		topAssign := func(name string) ast.Expr {
			var res ast.Expr
			n := 0
			for _, s := range cc.Body {
				as, ok := s.(*ast.AssignStmt)
				if !ok || len(as.Rhs) != 1 {
					continue
				}
				for _, l := range as.Lhs {
					if id, ok := l.(*ast.Ident); ok && id.Name == name {
						res = as.Rhs[0]
						n++
					}
				}
			}
			if n != 1 {
				return nil
			}
			return res
		}
		// number of assignments / declarations of an identifier anywhere in node (closures included)
		writes := func(node ast.Node, name string) int {
			n := 0
			ast.Inspect(node, func(x ast.Node) bool {
				switch s := x.(type) {
				case *ast.AssignStmt:
					for _, l := range s.Lhs {
						if id, ok := l.(*ast.Ident); ok && id.Name == name {
							n++
						}
					}
				case *ast.ValueSpec:
					for _, id := range s.Names {
						if id.Name == name {
							n++
						}
					}
				case *ast.IncDecStmt:
					if id, ok := s.X.(*ast.Ident); ok && id.Name == name {
						n++
					}
				case *ast.UnaryExpr:
					if id, ok := s.X.(*ast.Ident); ok && s.Op == token.AND && id.Name == name {
						n += 100 // address taken: could be written through the pointer
					}
				}
				return true
			})
			return n
		}
		isHelperCall := func(e ast.Expr) bool {
			c, ok := e.(*ast.CallExpr)
			return ok && ex.str(c.Fun) == "newTcpDialer"
		}
		// via classifies one dial closure: its first statement must be `c, err := <call>`, c must not be
		// assigned again, and the value returned on success must be built from c by `wantRet`.
		via := func(name, network, wantRet string) (int64, bool) {
			lit, ok := topAssign(name).(*ast.FuncLit)
			if !ok || len(lit.Body.List) < 2 {
				return 0, false
			}
			first, ok := lit.Body.List[0].(*ast.AssignStmt)
			if !ok || len(first.Lhs) != 2 || len(first.Rhs) != 1 || ex.str(first.Lhs[0]) != "c" || ex.str(first.Lhs[1]) != "err" {
				return 0, false
			}
			if writes(lit.Body, "c") != 1 || writes(lit.Body, "dialAddr") != 0 {
				return 0, false
			}
			nret := 0
			okRet := false
			ast.Inspect(lit.Body, func(x ast.Node) bool {
				if _, isLit := x.(*ast.FuncLit); isLit {
					return false
				}
				if rs, ok := x.(*ast.ReturnStmt); ok {
					s := ex.str(rs)
					if s == "return nil, err" {
						return true
					}
					nret++
					okRet = s == wantRet
				}
				return true
			})
			if nret != 1 || !okRet {
				return 0, false
			}
			call, ok := first.Rhs[0].(*ast.CallExpr)
			if !ok {
				return 0, false
			}
			if ex.str(call) == `dialer.DialContext(ctx, "`+network+`", dialAddr)` {
				return 0, true
			}
			// f(ctx) with f assigned from newTcpDialer(...) in the clause, or newTcpDialer(...)(ctx)
			if isHelperCall(call.Fun) {
				return 1, true
			}
			if id, ok := call.Fun.(*ast.Ident); ok {
				if rhs := topAssign(id.Name); rhs != nil && isHelperCall(rhs) && writes(clause, id.Name) == 1 {
					return 1, true
				}
			}
			return 0, false
		}
		v, ok := via("dialUdpPipeline", "udp", "return transport.NewDnsConn(to, wrapConn(c, opt.EventObserver)), nil")
		ex.setNat("c17UdpDialVia", v, ok, "dialUdpPipeline of the udp upstream: "+noteVia)
		v, ok = via("dialTcpNetConn", "tcp", "return wrapConn(c, opt.EventObserver), nil")
		ex.setNat("c17TcpDialVia", v, ok, "dialTcpNetConn (TCP retry) of the udp upstream: "+noteVia)

		// dialAddr is host:port of parseDialAddr(addrUrlHost, opt.DialAddr, defaultPort), each assigned once
		okAddr := false
		if h := topAssign("host"); h != nil && ex.str(h) == "parseDialAddr(addrUrlHost, opt.DialAddr, defaultPort)" && topAssign("port") == h {
			if d := topAssign("dialAddr"); d != nil && ex.str(d) == "joinPort(host, port)" {
				okAddr = writes(clause, "dialAddr") == 1 && writes(clause, "host") == 1 && writes(clause, "port") == 1 && writes(clause, "dialer") == 0
			}
		}
		ex.setBool("c17DialAddrShape", okAddr, true, "udp case: host, port from parseDialAddr(addrUrlHost, opt.DialAddr, defaultPort); dialAddr := joinPort(host, port); dialAddr, host, port, dialer not written again in the case")

		// dialer is a plain *net.Dialer (socket options only), assigned once in NewUpstream
		okDialer := false
		n := 0
		ast.Inspect(fd.Body, func(x ast.Node) bool {
			as, ok := x.(*ast.AssignStmt)
			if !ok {
				return true
			}
			for i, l := range as.Lhs {
				if id, ok := l.(*ast.Ident); ok && id.Name == "dialer" {
					n++
					if len(as.Rhs) == len(as.Lhs) {
						if u, ok := as.Rhs[i].(*ast.UnaryExpr); ok && u.Op == token.AND {
							if cl, ok := u.X.(*ast.CompositeLit); ok && ex.str(cl.Type) == "net.Dialer" {
								okDialer = true
								for _, el := range cl.Elts {
									kv, ok := el.(*ast.KeyValueExpr)
									if !ok || ex.str(kv.Key) != "Control" {
										okDialer = false
									}
								}
							}
						}
					}
				}
			}
			return true
		})
		ex.setBool("c17DialerIsNetDialer", okDialer && n == 1, true, "NewUpstream: dialer := &net.Dialer{Control: ...}, assigned once (no proxy, no fixed local address)")

		// return &udpWithFallback{u: NewPipelineTransport({DialContext: dialUdpPipeline ...}), t: NewReuseConnTransport({DialContext: dialTcpNetConn})}
		dialCtxOf := func(e ast.Expr, ctor string) string {
			c, ok := e.(*ast.CallExpr)
			if !ok || ex.str(c.Fun) != ctor || len(c.Args) != 1 {
				return ""
			}
			cl, ok := c.Args[0].(*ast.CompositeLit)
			if !ok {
				return ""
			}
			for _, el := range cl.Elts {
				if kv, ok := el.(*ast.KeyValueExpr); ok && ex.str(kv.Key) == "DialContext" {
					return ex.str(kv.Value)
				}
			}
			return ""
		}
		okWire := false
		nLit := 0
		ast.Inspect(clause, func(x ast.Node) bool {
			cl, ok := x.(*ast.CompositeLit)
			if !ok || ex.str(cl.Type) != "udpWithFallback" {
				return true
			}
			nLit++
			var u, t string
			for _, el := range cl.Elts {
				if kv, ok := el.(*ast.KeyValueExpr); ok {
					switch ex.str(kv.Key) {
					case "u":
						u = dialCtxOf(kv.Value, "transport.NewPipelineTransport")
					case "t":
						t = dialCtxOf(kv.Value, "transport.NewReuseConnTransport")
					}
				}
			}
			okWire = u == "dialUdpPipeline" && t == "dialTcpNetConn" && len(cl.Elts) == 2
			return true
		})
		okWire = okWire && nLit == 1 && writes(clause, "dialUdpPipeline") == 1 && writes(clause, "dialTcpNetConn") == 1
		ex.setBool("c17FallbackWiring", okWire, true, "udp case returns &udpWithFallback{u: pipeline transport over dialUdpPipeline, t: reuse transport over dialTcpNetConn}")
	})
}

// C17, "the same query": the UDP side is handed the caller's slice and the TCP
// retry is handed the same slice afterwards, so the query sent again is the
// caller's only if nothing on the UDP side writes through that slice. The fact
// below reads that off the datagram path (PipelineTransport.ExchangeContext ->
// lazy conn -> TraditionalDnsConn.exchange -> writeQuery): every use of the
// query parameter is a direct argument of a call from a short list - handing it
// on to the next function of this path, copying it (copyMsg, copyMsgWithLenHdr:
// the connection-local id is written into the copy) or reading its id
// (binary.BigEndian.Uint16). Any other use (index assignment, PutUint16(q, ..),
// copy(q, ..), q[a:b], storing it) makes the fact false.
func init() {
	factFuncs = append(factFuncs, func(ex *factExtractor) {
		type site struct {
			rel, recv, name, param string
			allowed                []string
		}
		sites := []site{
			{"pkg/upstream/upstream.go", "udpWithFallback", "ExchangeContext", "q", []string{"u.u.ExchangeContext", "u.t.ExchangeContext"}},
			{"pkg/upstream/transport/pipeline.go", "PipelineTransport", "ExchangeContext", "m", []string{"dc.ExchangeReserved"}},
			{"pkg/upstream/transport/conn_lazy_dial.go", "lazyDnsConnEarlyReservedExchanger", "ExchangeReserved", "q", []string{"rec.ExchangeReserved"}},
			{"pkg/upstream/transport/conn_traditional.go", "tdcOneTimeExchanger", "ExchangeReserved", "q", []string{"(*TraditionalDnsConn)(ote).exchange"}},
			{"pkg/upstream/transport/conn_traditional.go", "TraditionalDnsConn", "exchange", "q", []string{"dc.writeQuery", "binary.BigEndian.Uint16"}},
			{"pkg/upstream/transport/conn_traditional.go", "TraditionalDnsConn", "writeQuery", "q", []string{"copyMsg", "copyMsgWithLenHdr"}},
		}
		note := "datagram path udpWithFallback.ExchangeContext -> PipelineTransport.ExchangeContext -> ExchangeReserved -> TraditionalDnsConn.exchange -> writeQuery: the query slice is only handed on, copied (copyMsg / copyMsgWithLenHdr) or read (binary.BigEndian.Uint16); nothing writes through it"
		ok, readsOnly := true, true
		why := ""
		for _, s := range sites {
			fd := ex.fn(s.rel, s.recv, s.name)
			if fd == nil {
				ok = false
				why = s.recv + "." + s.name + " not found"
				break
			}
			// the parameter must exist under that name and have type []byte
			found := false
			for _, f := range fd.Type.Params.List {
				for _, n := range f.Names {
					if n.Name == s.param && ex.str(f.Type) == "[]byte" {
						found = true
					}
				}
			}
			if !found {
				ok = false
				why = s.recv + "." + s.name + ": no []byte parameter " + s.param
				break
			}
			// every occurrence of the identifier is a whole argument of an allowed call
			good := map[*ast.Ident]bool{}
			ast.Inspect(fd.Body, func(x ast.Node) bool {
				c, isCall := x.(*ast.CallExpr)
				if !isCall || !contains(s.allowed, ex.str(c.Fun)) {
					return true
				}
				for _, a := range c.Args {
					if id, isId := a.(*ast.Ident); isId && id.Name == s.param {
						good[id] = true
					}
				}
				return true
			})
			ast.Inspect(fd.Body, func(x ast.Node) bool {
				if id, isId := x.(*ast.Ident); isId && id.Name == s.param && !good[id] {
					readsOnly = false
					if why == "" {
						why = s.recv + "." + s.name + " uses " + s.param + " outside " + fmt.Sprint(s.allowed)
					}
				}
				return true
			})
		}
		if why != "" {
			note += " [" + why + "]"
		}
		ex.setBool("c17UdpSideReadsQueryOnly", readsOnly, ok, note)
	})
}

// C17, "the TCP reply is what the caller gets": the TCP half is a
// ReuseConnTransport, which does not match replies to queries by id; a reply
// read from a connection goes to whoever waits on it. The caller gets the reply
// to ITS query only if a connection enters the idle pool when no reply is owed
// on it. The fact below reads that off pkg/upstream/transport/reuse.go:
//   - idleConns is written (idleConns[..] = ..) only inside setIdle;
//   - setIdle is called from exactly two functions: getNewConn (a connection
//     that was just dialled: nothing was written on it) and
//     reusableConn.readLoop, there after dnsutils.ReadRawMsgFromTCP (a reply
//     was read) and only once;
//   - reusableConn.exchange writes c.waitingResp exactly once (registering its
//     channel) and does not call setIdle: a caller that stops waiting (context
//     ended, connection closed) leaves the connection out of the pool.
func init() {
	factFuncs = append(factFuncs, func(ex *factExtractor) {
		const rel = "pkg/upstream/transport/reuse.go"
		const name = "c17TcpConnIdleOnlyWhenNothingOwed"
		f := ex.file(rel)
		exch := ex.fn(rel, "reusableConn", "exchange")
		rl := ex.fn(rel, "reusableConn", "readLoop")
		if f == nil || exch == nil || rl == nil || ex.fn(rel, "ReuseConnTransport", "setIdle") == nil {
			ex.setBool(name, false, false, "reuse.go: reusableConn.exchange / readLoop / ReuseConnTransport.setIdle not found")
			return
		}
		ok := true
		var why []string
		for _, d := range f.Decls {
			fd, isFn := d.(*ast.FuncDecl)
			if !isFn || fd.Body == nil {
				continue
			}
			nSet, nIdleWrite := 0, 0
			ast.Inspect(fd.Body, func(x ast.Node) bool {
				switch s := x.(type) {
				case *ast.CallExpr:
					if fn := ex.str(s.Fun); fn == "setIdle" || strings.HasSuffix(fn, ".setIdle") {
						nSet++
					}
				case *ast.AssignStmt:
					for _, l := range s.Lhs {
						if ix, isIx := l.(*ast.IndexExpr); isIx && strings.HasSuffix(ex.str(ix.X), "idleConns") {
							nIdleWrite++
						}
					}
				}
				return true
			})
			switch fd.Name.Name {
			case "setIdle":
				if nSet != 0 {
					ok = false
					why = append(why, "setIdle calls itself")
				}
			case "getNewConn", "readLoop":
				if nSet > 1 || nIdleWrite != 0 {
					ok = false
					why = append(why, fd.Name.Name+": more than one setIdle call or a direct idleConns write")
				}
			default:
				if nSet != 0 || nIdleWrite != 0 {
					ok = false
					why = append(why, fd.Name.Name+" puts a connection into the idle pool")
				}
			}
		}
		// readLoop: the setIdle call comes after the read of a reply
		cs := ex.calls(rl.Body)
		iRead, iSet := -1, -1
		for i, c := range cs {
			if c == "dnsutils.ReadRawMsgFromTCP" && iRead < 0 {
				iRead = i
			}
			if strings.HasSuffix(c, ".setIdle") && iSet < 0 {
				iSet = i
			}
		}
		if iRead < 0 || iSet < iRead {
			ok = false
			why = append(why, "readLoop: setIdle not after ReadRawMsgFromTCP")
		}
		// exchange: c.waitingResp written exactly once
		nW := 0
		ast.Inspect(exch.Body, func(x ast.Node) bool {
			if s, isAs := x.(*ast.AssignStmt); isAs {
				for _, l := range s.Lhs {
					if strings.HasSuffix(ex.str(l), ".waitingResp") {
						nW++
					}
				}
			}
			return true
		})
		if nW != 1 {
			ok = false
			why = append(why, fmt.Sprintf("exchange writes waitingResp %d times", nW))
		}
		note := "reuse.go: a connection enters idleConns only through setIdle, called for a freshly dialled connection (getNewConn) and by readLoop after a reply was read; reusableConn.exchange registers its channel once and never calls setIdle (a caller that stops waiting leaves the connection busy)"
		if !ok {
			note = "reuse.go: " + strings.Join(why, "; ")
		}
		ex.setBool(name, ok, true, note)
	})
}
