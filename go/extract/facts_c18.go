package main

func init() {
	factFuncs = append(factFuncs, func(ex *factExtractor) {
		// default port per scheme: `case "<scheme>": const defaultPort = N` in NewUpstream
		const rel = "pkg/upstream/upstream.go"
		fd := ex.fn(rel, "", "NewUpstream")
		for scheme, name := range map[string]string{"udp": "portUdp", "tcp": "portTcp", "tls": "portTls", "https": "portHttps", "quic": "portQuic"} {
			ok := false
			var v int64
			if fd != nil {
				if cc := ex.caseClause(fd.Body, "addrURL.Scheme", scheme); cc != nil {
					v, ok = ex.constIn(cc, "defaultPort", nil)
				}
			}
			ex.setNat(name, v, ok, "default port of scheme "+scheme+" in NewUpstream")
		}
		// the host handed to parseDialAddr is the bracket-trimmed URL host
		ok := false
		if fd != nil {
			n := 0
			for _, c := range ex.calls(fd.Body) {
				if c == "tryTrimIpv6Brackets" {
					n++
				}
			}
			ok = n == 1
		}
		ex.setBool("hostIsTrimmedUrlHost", ok, fd != nil, "NewUpstream: addrUrlHost := tryTrimIpv6Brackets(addrURL.Host), exactly once")
	})
}
