package main

import (
	"go/ast"
	"go/token"
	"strings"
)

func init() {
	factFuncs = append(factFuncs, func(ex *factExtractor) {
		// default port per scheme: `case "<scheme>": const defaultPort = N` in NewUpstream
		const rel = "pkg/upstream/upstream.go"
		fd := ex.fn(rel, "", "NewUpstream")
		for scheme, name := range map[string]string{"udp": "portUdp", "tcp": "portTcp", "tls": "portTls", "https": "portHttps", "quic": "portQuic"} {
			ok := false
			var v int64
			if fd != nil {
				if cc := ex.caseClause(fd.Body, "addrURL.Scheme", scheme); cc != nil {
					v, ok = ex.constIn(cc, "defaultPort", nil)
				}
			}
			ex.setNat(name, v, ok, "default port of scheme "+scheme+" in NewUpstream")
		}
		// the host handed to parseDialAddr is the bracket-trimmed URL host
		ok := false
		if fd != nil {
			n := 0
			for _, c := range ex.calls(fd.Body) {
				if c == "tryTrimIpv6Brackets" {
					n++
				}
			}
			ok = n == 1
		}
		ex.setBool("hostIsTrimmedUrlHost", ok, fd != nil, "NewUpstream: addrUrlHost := tryTrimIpv6Brackets(addrURL.Host), exactly once")
		c18BootFacts(ex, fd)
		c18DohFacts(ex, fd)
		c18SocksFacts(ex, fd)
		c18FwdFacts(ex)
	})
}

// The DoH / HTTP3 path: the endpoint handed to the HTTP client is the string of
// the URL the user wrote (only its scheme may have been rewritten by the h3
// alias), and the DoH upstream sends its requests to that URL. Go's HTTP
// clients take the TLS server name and the Host / :authority from there.
func c18DohFacts(ex *factExtractor, newUpstream *ast.FuncDecl) {
	const noteEP = "NewUpstream: addrURL is assigned once (url.Parse(addr)), it is passed to nobody and only its String method is called; the only writes to its fields are Scheme and, at most, the one bracket-restoring statement of fact c18DohRestoresV6Brackets; the one doh.NewUpstream call gets addrURL.String() as endpoint"
	const noteBR = "NewUpstream, case \"https\", before the endpoint is rendered: if a, err := netip.ParseAddr(addrURL.Host); err == nil && a.Is6() { addrURL.Host = \"[\" + addrURL.Host + \"]\" } - an IPv6 URL host written without brackets gets them back (fix bb593cc, finding F15)"
	if newUpstream != nil {
		const restoreStmt = `addrURL.Host = "[" + addrURL.Host + "]"`
		ok := c18Assigns(ex, newUpstream.Body, "addrURL") == 1 && contains(stmtStrings(ex, newUpstream.Body), "addrURL, err := url.Parse(addr)")
		nDoh, hostWrites := 0, 0
		var dohPos token.Pos
		ast.Inspect(newUpstream.Body, func(x ast.Node) bool {
			switch n := x.(type) {
			case *ast.AssignStmt:
				for _, l := range n.Lhs {
					if sel, isSel := l.(*ast.SelectorExpr); isSel && ex.str(sel.X) == "addrURL" && sel.Sel.Name != "Scheme" {
						if sel.Sel.Name == "Host" && ex.str(n) == restoreStmt {
							hostWrites++
						} else {
							ok = false // addrURL.Host (or Path, ...) = something else
						}
					}
					if st, isStar := l.(*ast.StarExpr); isStar && ex.str(st.X) == "addrURL" {
						ok = false
					}
				}
			case *ast.IncDecStmt:
				if strings.HasPrefix(ex.str(n.X), "addrURL") {
					ok = false
				}
			case *ast.UnaryExpr:
				if n.Op == token.AND && strings.HasPrefix(ex.str(n.X), "addrURL") {
					ok = false
				}
			case *ast.CallExpr:
				f := ex.str(n.Fun)
				if strings.HasPrefix(f, "addrURL.") && f != "addrURL.String" {
					ok = false
				}
				for _, a := range n.Args {
					if ex.str(a) == "addrURL" || ex.str(a) == "*addrURL" {
						ok = false
					}
				}
				if f == "doh.NewUpstream" {
					nDoh++
					dohPos = n.Pos()
					if len(n.Args) != 3 || ex.str(n.Args[0]) != "addrURL.String()" {
						ok = false
					}
				}
			}
			return true
		})
		// the recognised bracket restoration: a direct statement of the https case, before the endpoint is rendered
		restores := false
		if cc := ex.caseClause(newUpstream.Body, "addrURL.Scheme", "https"); cc != nil {
			for _, st := range cc.Body {
				is, isIf := st.(*ast.IfStmt)
				if !isIf || is.Init == nil || is.Else != nil || len(is.Body.List) != 1 {
					continue
				}
				if ex.str(is.Init) == "a, err := netip.ParseAddr(addrURL.Host)" && ex.str(is.Cond) == "err == nil && a.Is6()" &&
					ex.str(is.Body.List[0]) == restoreStmt && nDoh == 1 && is.End() < dohPos {
					restores = true
				}
			}
		}
		if hostWrites > 1 || (hostWrites == 1 && !restores) {
			ok = false // a write to addrURL.Host that is not the recognised statement at the recognised place
		}
		ex.setBool("c18DohEndpointIsAddrUrl", ok && nDoh == 1, true, noteEP)
		ex.setBool("c18DohRestoresV6Brackets", ok && nDoh == 1 && restores && hostWrites == 1, true, noteBR)
	} else {
		ex.setBool("c18DohEndpointIsAddrUrl", false, false, noteEP)
		ex.setBool("c18DohRestoresV6Brackets", false, false, noteBR)
	}

	const drel = "pkg/upstream/doh/upstream.go"
	const noteReq = "doh.Upstream: NewUpstream parses endPoint with http.NewRequest and keeps req.URL as template; exchange copies the template into the request and writes only RawQuery; no Host field is written anywhere in the file"
	nu, exch, df := ex.fn(drel, "", "NewUpstream"), ex.fn(drel, "Upstream", "exchange"), ex.file(drel)
	if nu != nil && exch != nil && df != nil {
		ns, es := stmtStrings(ex, nu.Body), stmtStrings(ex, exch.Body)
		tmpl := 0
		ast.Inspect(nu.Body, func(x ast.Node) bool {
			if kv, isKV := x.(*ast.KeyValueExpr); isKV && ex.str(kv.Key) == "urlTemplate" && ex.str(kv.Value) == "req.URL" {
				tmpl++
			}
			return true
		})
		urlWrites := 0
		ast.Inspect(exch.Body, func(x ast.Node) bool {
			if as, isAs := x.(*ast.AssignStmt); isAs {
				for _, l := range as.Lhs {
					if s := ex.str(l); s == "req.URL" || strings.HasPrefix(s, "req.URL.") || s == "*req.URL" || s == "req.Host" {
						urlWrites++
					}
				}
			}
			return true
		})
		ok := contains(ns, "req, err := http.NewRequest(http.MethodGet, endPoint, nil)") && c18Assigns(ex, nu.Body, "endPoint") == 0 &&
			c18Assigns(ex, nu.Body, "req") == 1 && tmpl == 1 &&
			contains(es, "req := u.reqTemplate.WithContext(ctx)") && contains(es, "req.URL = new(urlpkg.URL)") &&
			contains(es, "*req.URL = *u.urlTemplate") && contains(es, "req.URL.RawQuery = dnsQuery") && urlWrites == 3 &&
			contains(es, "resp, err := u.rt.RoundTrip(req)") && c18Assigns(ex, exch.Body, "req") == 1 &&
			c18FieldWrites(ex, df, "Host") == 0 && c18FieldWrites(ex, df, "urlTemplate") == 0 && c18FieldWrites(ex, df, "reqTemplate") == 0
		ex.setBool("c18DohRequestKeepsEndpointHost", ok, true, noteReq)
	} else {
		ex.setBool("c18DohRequestKeepsEndpointHost", false, false, noteReq)
	}
}

// c18Assigns counts, inside node, the assignments (= and :=, also in if/for
// headers and range clauses) whose left side contains the plain identifier name.
func c18Assigns(ex *factExtractor, node ast.Node, name string) int {
	n := 0
	ast.Inspect(node, func(x ast.Node) bool {
		switch s := x.(type) {
		case *ast.AssignStmt:
			for _, l := range s.Lhs {
				if id, ok := l.(*ast.Ident); ok && id.Name == name {
					n++
				}
			}
		case *ast.RangeStmt:
			for _, l := range []ast.Expr{s.Key, s.Value} {
				if id, ok := l.(*ast.Ident); ok && id.Name == name {
					n++
				}
			}
		case *ast.IncDecStmt:
			if id, ok := s.X.(*ast.Ident); ok && id.Name == name {
				n++
			}
		}
		return true
	})
	return n
}

// c18FieldWrites counts, inside node, the assignments to a selector `<x>.field`.
func c18FieldWrites(ex *factExtractor, node ast.Node, field string) int {
	n := 0
	ast.Inspect(node, func(x ast.Node) bool {
		if s, ok := x.(*ast.AssignStmt); ok {
			for _, l := range s.Lhs {
				if sel, ok := l.(*ast.SelectorExpr); ok && sel.Sel.Name == field {
					n++
				}
			}
		}
		if cl, ok := x.(*ast.CompositeLit); ok && ex.str(cl.Type) == "Bootstrap" {
			n += 100 // a Bootstrap built by a literal: not the recognised shape
		}
		return true
	})
	return n
}

// The bootstrap path (host names resolved through Opt.Bootstrap): which
// Bootstrap an upstream holds, what that Bootstrap asks for and appends, and
// what NewUpstream hands to it.
func c18BootFacts(ex *factExtractor, newUpstream *ast.FuncDecl) {
	const brel = "pkg/upstream/bootstrap/bootstrap.go"
	bf := ex.file(brel)

	// ---- bootstrap.New builds one Bootstrap per call from its own arguments
	const noteNew = "bootstrap.New: every call allocates its own Bootstrap (dp := new(Bootstrap), the only thing it returns), stores Fqdn(host) and port of this call in it unconditionally; the package keeps no package-level state besides error values"
	if fd := ex.fn(brel, "", "New"); fd != nil && bf != nil {
		var top []string
		for _, s := range fd.Body.List {
			top = append(top, ex.str(s))
		}
		params := ""
		if fd.Type.Params != nil {
			for _, f := range fd.Type.Params.List {
				for _, n := range f.Names {
					params += n.Name + " "
				}
			}
		}
		retOK, retDp := true, 0
		ast.Inspect(fd.Body, func(x ast.Node) bool {
			if _, isLit := x.(*ast.FuncLit); isLit {
				retOK = false // a closure inside New: not the recognised shape
			}
			if r, ok := x.(*ast.ReturnStmt); ok {
				s := ex.str(r)
				switch {
				case s == "return dp, nil":
					retDp++
				case strings.HasPrefix(s, "return nil, "):
				default:
					retOK = false
				}
			}
			return true
		})
		pkgStateless := true
		for _, d := range bf.Decls {
			gd, ok := d.(*ast.GenDecl)
			if !ok || gd.Tok != token.VAR {
				continue
			}
			for _, sp := range gd.Specs {
				vs := sp.(*ast.ValueSpec)
				if len(vs.Values) != len(vs.Names) {
					pkgStateless = false
				}
				for _, v := range vs.Values {
					if c, ok := v.(*ast.CallExpr); !ok || ex.str(c.Fun) != "errors.New" {
						pkgStateless = false
					}
				}
			}
		}
		ok := strings.HasPrefix(params, "host port ") &&
			contains(top, "dp := new(Bootstrap)") && contains(top, "dp.fqdn = dns.Fqdn(host)") && contains(top, "dp.port = port") &&
			c18Assigns(ex, fd.Body, "dp") == 1 && c18Assigns(ex, fd.Body, "host") == 0 && c18Assigns(ex, fd.Body, "port") == 0 &&
			retOK && retDp == 1 && pkgStateless
		ex.setBool("c18BootNewPerCall", ok, true, noteNew)
	} else {
		ex.setBool("c18BootNewPerCall", false, false, noteNew)
	}

	// ---- the address string is the resolved address joined with the Bootstrap's own port; the question is its own name
	const noteAddr = "Bootstrap: resolve asks the bootstrap server for sp.fqdn; updateAddr publishes netip.AddrPortFrom(<resolved addr>, sp.port).String(); GetAddrPortStr returns that string; fqdn, port and addrStr are each written at one place only"
	ua, ga, rs := ex.fn(brel, "Bootstrap", "updateAddr"), ex.fn(brel, "Bootstrap", "GetAddrPortStr"), ex.fn(brel, "Bootstrap", "resolve")
	if ua != nil && ga != nil && rs != nil && bf != nil {
		us, gs, rss := stmtStrings(ex, ua.Body), stmtStrings(ex, ga.Body), stmtStrings(ex, rs.Body)
		gret := 0
		for _, s := range gs {
			if strings.HasPrefix(s, "return ") && strings.HasSuffix(s, ", nil") {
				gret++
			}
		}
		ok := contains(us, "addr, ttl, err := sp.resolve(ctx, sp.qt)") &&
			contains(us, "addrPort := netip.AddrPortFrom(addr, sp.port).String()") && contains(us, "sp.addrStr = addrPort") &&
			c18Assigns(ex, ua.Body, "addr") == 1 && c18Assigns(ex, ua.Body, "addrPort") == 1 &&
			contains(gs, "addr := sp.addrStr") && contains(gs, "return addr, nil") && gret == 1 && c18Assigns(ex, ga.Body, "addr") == 1 &&
			contains(rss, "q.SetQuestion(sp.fqdn, qt)") && contains(rss, `c, err := net.DialUDP("udp", nil, sp.bootstrap)`) &&
			c18FieldWrites(ex, bf, "addrStr") == 1 && c18FieldWrites(ex, bf, "port") == 1 && c18FieldWrites(ex, bf, "fqdn") == 1
		ex.setBool("c18BootAddrOwnPort", ok, true, noteAddr)
	} else {
		ex.setBool("c18BootAddrOwnPort", false, false, noteAddr)
	}

	// ---- NewUpstream hands parseDialAddr's host and port to bootstrap.New and dials the string it gets back
	const noteCall = "NewUpstream (newTcpDialer, newUdpAddrResolveFunc): host, port := parseDialAddr(addrUrlHost, opt.DialAddr, defaultPort) go unchanged into bootstrap.New(host, port, ...), and the dial uses the string of that Bootstrap's GetAddrPortStr"
	if newUpstream != nil {
		okAll := true
		nNew, nGet := 0, 0
		ast.Inspect(newUpstream.Body, func(x ast.Node) bool {
			if c, ok := x.(*ast.CallExpr); ok {
				switch f := ex.str(c.Fun); {
				case f == "bootstrap.New":
					nNew++
					var as []string
					for _, a := range c.Args {
						as = append(as, ex.str(a))
					}
					if strings.Join(as, ", ") != "host, port, bootstrapAp, opt.BootstrapVer, opt.Logger" {
						okAll = false
					}
				case strings.HasSuffix(f, ".GetAddrPortStr"):
					nGet++
					if f != "bs.GetAddrPortStr" {
						okAll = false
					}
				}
			}
			return true
		})
		for _, name := range []string{"newUdpAddrResolveFunc", "newTcpDialer"} {
			var lit *ast.FuncLit
			for _, s := range newUpstream.Body.List {
				if as, ok := s.(*ast.AssignStmt); ok && len(as.Lhs) == 1 && len(as.Rhs) == 1 && ex.str(as.Lhs[0]) == name {
					lit, _ = as.Rhs[0].(*ast.FuncLit)
				}
			}
			if lit == nil || len(lit.Body.List) == 0 ||
				ex.str(lit.Body.List[0]) != "host, port, err := parseDialAddr(addrUrlHost, opt.DialAddr, defaultPort)" ||
				c18Assigns(ex, lit.Body, "host") != 1 || c18Assigns(ex, lit.Body, "port") != 1 || c18Assigns(ex, lit.Body, "bs") != 1 ||
				countStr(stmtStrings(ex, lit.Body), "bs, err := bootstrap.New(host, port, bootstrapAp, opt.BootstrapVer, opt.Logger)") != 1 {
				okAll = false
				continue
			}
			ss := stmtStrings(ex, lit.Body)
			if name == "newTcpDialer" {
				i := indexOf(ss, "dialAddr, err := bs.GetAddrPortStr(ctx)")
				if i < 0 || i+3 >= len(ss) || ss[i+3] != `return dialer.DialContext(ctx, "tcp", dialAddr)` {
					okAll = false
				}
			} else {
				i := indexOf(ss, "s, err := bs.GetAddrPortStr(ctx)")
				if i < 0 || i+3 >= len(ss) || ss[i+3] != `return net.ResolveUDPAddr("udp", s)` {
					okAll = false
				}
			}
		}
		ex.setBool("c18BootCallsPassTarget", okAll && nNew == 2 && nGet == 2, true, noteCall)
	} else {
		ex.setBool("c18BootCallsPassTarget", false, false, noteCall)
	}
}

// The SOCKS5 path of newTcpDialer: the proxy is handed parseDialAddr's host and
// port as text, before (and instead of) the ip / bootstrap decision tree.
func c18SocksFacts(ex *factExtractor, newUpstream *ast.FuncDecl) {
	const note = "NewUpstream, newTcpDialer: right after host, port, err := parseDialAddr(..) and its error check comes `if s5Addr := opt.Socks5; len(s5Addr) > 0 {`, whose body ends by returning a function that calls contextDialer.DialContext(ctx, \"tcp\", dialAddr) with dialAddr := net.JoinHostPort(host, strconv.Itoa(int(port))); no other proxy dialer exists in NewUpstream (the name goes to the proxy as written, a configured bootstrap server is not consulted)"
	if newUpstream == nil {
		ex.setBool("c18Socks5ConnectsToTarget", false, false, note)
		return
	}
	var lit *ast.FuncLit
	for _, s := range newUpstream.Body.List {
		if as, ok := s.(*ast.AssignStmt); ok && len(as.Lhs) == 1 && len(as.Rhs) == 1 && ex.str(as.Lhs[0]) == "newTcpDialer" {
			lit, _ = as.Rhs[0].(*ast.FuncLit)
		}
	}
	ok := false
	if lit != nil && len(lit.Body.List) >= 3 && ex.str(lit.Body.List[0]) == "host, port, err := parseDialAddr(addrUrlHost, opt.DialAddr, defaultPort)" {
		if is, isIf := lit.Body.List[2].(*ast.IfStmt); isIf && is.Init != nil && is.Else == nil &&
			ex.str(is.Init) == "s5Addr := opt.Socks5" && ex.str(is.Cond) == "len(s5Addr) > 0" && len(is.Body.List) > 0 {
			var top []string
			for _, s := range is.Body.List {
				top = append(top, ex.str(s))
			}
			retOK := false
			if rs, isRet := is.Body.List[len(is.Body.List)-1].(*ast.ReturnStmt); isRet && len(rs.Results) == 2 && ex.str(rs.Results[1]) == "nil" {
				if fl, isFl := rs.Results[0].(*ast.FuncLit); isFl && len(fl.Body.List) == 1 &&
					ex.str(fl.Body.List[0]) == `return contextDialer.DialContext(ctx, "tcp", dialAddr)` {
					retOK = true
				}
			}
			ok = retOK && contains(top, `socks5Dialer, err := proxy.SOCKS5("tcp", s5Addr, nil, dialer)`) &&
				contains(top, "contextDialer := socks5Dialer.(proxy.ContextDialer)") &&
				contains(top, "dialAddr := net.JoinHostPort(host, strconv.Itoa(int(port)))") &&
				c18Assigns(ex, is.Body, "dialAddr") == 1 && c18Assigns(ex, is.Body, "contextDialer") == 1 &&
				c18Assigns(ex, lit.Body, "host") == 1 && c18Assigns(ex, lit.Body, "port") == 1
		}
	}
	nProxy := 0
	for _, c := range ex.calls(newUpstream.Body) {
		if strings.HasPrefix(c, "proxy.") {
			nProxy++
		}
	}
	ex.setBool("c18Socks5ConnectsToTarget", ok && nProxy == 1, true, note)
}

// The forward plugin: every configured entry gets an upstream of its own,
// created from that entry's addr and dial_addr.
func c18FwdFacts(ex *factExtractor) {
	const rel = "plugin/executable/forward/forward.go"
	const note = "forward.NewForward: the one loop `for i, c := range args.Upstreams` has, as direct statements of its body, u, err := upstream.NewUpstream(c.Addr, uOpt) (the only NewUpstream call and the only assignment to u), uw.u = u and f.us = append(f.us, uw); uOpt is a literal with DialAddr: c.DialAddr, Socks5: c.Socks5, Bootstrap: c.Bootstrap, BootstrapVer: c.BootstrapVer; c.Addr / c.DialAddr are never written; f.us and .u are written nowhere else in the file"
	fd, ff := ex.fn(rel, "", "NewForward"), ex.file(rel)
	if fd == nil || ff == nil {
		ex.setBool("c18FwdUpstreamPerEntry", false, false, note)
		return
	}
	var loops []*ast.RangeStmt
	ast.Inspect(fd.Body, func(x ast.Node) bool {
		if rs, ok := x.(*ast.RangeStmt); ok && ex.str(rs.X) == "args.Upstreams" {
			loops = append(loops, rs)
		}
		return true
	})
	ok := false
	if len(loops) == 1 && loops[0].Key != nil && loops[0].Value != nil && ex.str(loops[0].Value) == "c" {
		body := loops[0].Body
		var top []string
		for _, s := range body.List {
			top = append(top, ex.str(s))
		}
		nNew := 0
		for _, c := range ex.calls(fd.Body) {
			if c == "upstream.NewUpstream" {
				nNew++
			}
		}
		want := map[string]string{"DialAddr": "c.DialAddr", "Socks5": "c.Socks5", "Bootstrap": "c.Bootstrap", "BootstrapVer": "c.BootstrapVer", "EnablePipeline": "c.EnablePipeline", "EnableHTTP3": "c.EnableHTTP3"}
		got := 0
		for _, s := range body.List {
			as, isAs := s.(*ast.AssignStmt)
			if !isAs || len(as.Lhs) != 1 || ex.str(as.Lhs[0]) != "uOpt" || len(as.Rhs) != 1 {
				continue
			}
			if cl, isCl := as.Rhs[0].(*ast.CompositeLit); isCl && ex.str(cl.Type) == "upstream.Opt" {
				for _, e := range cl.Elts {
					if kv, isKV := e.(*ast.KeyValueExpr); isKV && want[ex.str(kv.Key)] != "" && want[ex.str(kv.Key)] == ex.str(kv.Value) {
						got++
					}
				}
			}
		}
		cWrites := 0
		ast.Inspect(fd.Body, func(x ast.Node) bool {
			if as, isAs := x.(*ast.AssignStmt); isAs {
				for _, l := range as.Lhs {
					if s := ex.str(l); s == "c.Addr" || s == "c.DialAddr" || s == "uOpt.DialAddr" || s == "uOpt" && as.Tok == token.ASSIGN {
						cWrites++
					}
				}
			}
			return true
		})
		ok = contains(top, "u, err := upstream.NewUpstream(c.Addr, uOpt)") && nNew == 1 && c18Assigns(ex, fd.Body, "u") == 1 &&
			contains(top, "uw.u = u") && contains(top, "f.us = append(f.us, uw)") && contains(top, "uw := newWrapper(i, c, opt.MetricsTag)") &&
			c18Assigns(ex, fd.Body, "uw") == 1 && c18Assigns(ex, fd.Body, "uOpt") == 1 && c18Assigns(ex, fd.Body, "c") == 1 &&
			got == len(want) && cWrites == 0 && c18FwdSelWrites(ex, ff, "us") == 1 && c18FwdSelWrites(ex, ff, "u") == 1
	}
	ex.setBool("c18FwdUpstreamPerEntry", ok, true, note)
}

// c18FwdSelWrites counts, inside node, the assignments to a selector `<x>.field`.
func c18FwdSelWrites(ex *factExtractor, node ast.Node, field string) int {
	n := 0
	ast.Inspect(node, func(x ast.Node) bool {
		if s, ok := x.(*ast.AssignStmt); ok {
			for _, l := range s.Lhs {
				if sel, ok := l.(*ast.SelectorExpr); ok && sel.Sel.Name == field {
					n++
				}
			}
		}
		return true
	})
	return n
}
