package main

import (
	"go/ast"
	"go/token"
	"sort"
	"strings"
)

func init() {
	factFuncs = append(factFuncs, func(ex *factExtractor) {
		const crel = "plugin/executable/cache/cache.go"
		wd := ex.fn(crel, "Cache", "writeDump")
		rd := ex.fn(crel, "Cache", "readDump")
		// every field of an entry is written, each from the right source
		okFields := false
		if wd != nil {
			ast.Inspect(wd.Body, func(n ast.Node) bool {
				cl, ok := n.(*ast.CompositeLit)
				if !ok || ex.str(cl.Type) != "CachedEntry" {
					return true
				}
				var kv []string
				for _, e := range cl.Elts {
					if p, ok := e.(*ast.KeyValueExpr); ok {
						kv = append(kv, ex.str(p.Key)+"="+ex.str(p.Value))
					}
				}
				sort.Strings(kv)
				okFields = strings.Join(kv, ";") == "CacheExpirationTime=cacheExpirationTime.Unix();Key=[]byte(k);Msg=msg;MsgExpirationTime=v.expirationTime.Unix();MsgStoredTime=v.storedTime.Unix()"
				return true
			})
			ss := stmtStrings(ex, wd.Body)
			okFields = okFields && contains(ss, "msg, err := v.resp.Pack()") && contains(ss, "block.Entries = append(block.Entries, e)")
		}
		ex.setBool("c19EntryFields", okFields, wd != nil, "writeDump: CachedEntry{Key, CacheExpirationTime, MsgExpirationTime, MsgStoredTime, Msg} each from its own source")
		v, ok := ex.pkgConst(crel, "dumpBlockSize", nil)
		ex.setNat("c19BlockSize", v, ok, "const dumpBlockSize")
		v, ok = ex.pkgConst(crel, "dumpMaximumBlockLength", nil)
		ex.setNat("c19MaxBlockLen", v, ok, "const dumpMaximumBlockLength")
		okSplit := false
		if wd != nil {
			ss := stmtStrings(ex, wd.Body)
			okSplit = contains(ss, "if len(block.Entries) >= dumpBlockSize || blockLen >= dumpMaximumBlockLength/2 { return writeBlock() }") &&
				contains(ss, "blockLen += proto.Size(e) + 8") && contains(ss, "blockLen = 0") &&
				contains(ss, "binary.BigEndian.PutUint64(l, uint64(len(b)))") && contains(ss, "gw.Name = dumpHeader") &&
				contains(ss, "if len(block.GetEntries()) > 0 { if err := writeBlock(); err != nil { return en, err } }")
		}
		ex.setBool("c19WriterSplitsBySize", okSplit, wd != nil, "writeDump: a block is closed at 128 entries or at half the maximum block length; 8-byte length header; remaining entries flushed")
		op, okOp := token.ILLEGAL, false
		okEof, okHdr, okTimes := false, false, false
		if rd != nil {
			ss := stmtStrings(ex, rd.Body)
			op, okOp = ex.findCmp(rd.Body, "u", "dumpMaximumBlockLength")
			okOp = okOp && contains(ss, "u := binary.BigEndian.Uint64(*h)") && contains(ss, "b := pool.GetBuf(int(u))") && contains(ss, "h := pool.GetBuf(8)")
			okEof = contains(ss, `if err != nil { if errors.Is(err, io.EOF) { return errReadHeaderEOF } return fmt.Errorf("failed to read block header, %w", err) }`) &&
				contains(ss, `if err != nil { return fmt.Errorf("failed to read block data, %w", err) }`) &&
				contains(ss, "if err != nil { if err == errReadHeaderEOF { err = nil } break }") &&
				contains(ss, "_, err := io.ReadFull(gr, *h)") && contains(ss, "_, err = io.ReadFull(gr, *b)")
			okHdr = false
			for _, s := range ss {
				if strings.HasPrefix(s, "if gr.Name != dumpHeader { return en,") {
					okHdr = true
				}
			}
			okTimes = contains(ss, "cacheExpTime := time.Unix(entry.GetCacheExpirationTime(), 0)") &&
				contains(ss, "msgExpTime := time.Unix(entry.GetMsgExpirationTime(), 0)") &&
				contains(ss, "storedTime := time.Unix(entry.GetMsgStoredTime(), 0)") &&
				contains(ss, "i := &item{ resp: resp, storedTime: storedTime, expirationTime: msgExpTime, }") &&
				contains(ss, "c.backend.Store(key(entry.GetKey()), i, cacheExpTime)")
		}
		ex.setCmp("c19MaxBlockCmp", op, okOp, "readDump: `u := binary.BigEndian.Uint64(*h); if u <op> dumpMaximumBlockLength { error }` before pool.GetBuf(int(u))")
		ex.setBool("c19HeaderEofOnly", okEof, rd != nil, "readDump: only io.EOF on the 8-byte header read is the clean end; every other read error is returned")
		ex.setBool("c19HeaderNameChecked", okHdr, rd != nil, "readDump: gzip header name must be dumpHeader")
		ex.setBool("c19ReadUsesAllTimes", okTimes, rd != nil, "readDump: each entry is stored under its dumped key with its dumped stored / message-expiry / cache-expiry times")
	})
}
