package main

import (
	"bytes"
	"go/ast"
	"go/token"
	"os"
	"path/filepath"
	"regexp"
	"sort"
	"strconv"
	"strings"
)

func init() {
	factFuncs = append(factFuncs, func(ex *factExtractor) {
		const crel = "plugin/executable/cache/cache.go"
		wd := ex.fn(crel, "Cache", "writeDump")
		rd := ex.fn(crel, "Cache", "readDump")
		// every field of an entry is written, each from the right source
		okFields := false
		if wd != nil {
			ast.Inspect(wd.Body, func(n ast.Node) bool {
				cl, ok := n.(*ast.CompositeLit)
				if !ok || ex.str(cl.Type) != "CachedEntry" {
					return true
				}
				var kv []string
				for _, e := range cl.Elts {
					if p, ok := e.(*ast.KeyValueExpr); ok {
						kv = append(kv, ex.str(p.Key)+"="+ex.str(p.Value))
					}
				}
				sort.Strings(kv)
				okFields = strings.Join(kv, ";") == "CacheExpirationTime=cacheExpirationTime.Unix();Key=[]byte(k);Msg=msg;MsgExpirationTime=v.expirationTime.Unix();MsgStoredTime=v.storedTime.Unix()"
				return true
			})
			ss := stmtStrings(ex, wd.Body)
			okFields = okFields && contains(ss, "msg, err := v.resp.Pack()") && contains(ss, "block.Entries = append(block.Entries, e)")
		}
		ex.setBool("c19EntryFields", okFields, wd != nil, "writeDump: CachedEntry{Key, CacheExpirationTime, MsgExpirationTime, MsgStoredTime, Msg} each from its own source")
		v, ok := ex.pkgConst(crel, "dumpBlockSize", nil)
		ex.setNat("c19BlockSize", v, ok, "const dumpBlockSize")
		v, ok = ex.pkgConst(crel, "dumpMaximumBlockLength", nil)
		ex.setNat("c19MaxBlockLen", v, ok, "const dumpMaximumBlockLength")
		okSplit := false
		if wd != nil {
			ss := stmtStrings(ex, wd.Body)
			okSplit = contains(ss, "if len(block.Entries) >= dumpBlockSize || blockLen >= dumpMaximumBlockLength/2 { return writeBlock() }") &&
				contains(ss, "blockLen += proto.Size(e) + 8") && contains(ss, "blockLen = 0") &&
				contains(ss, "binary.BigEndian.PutUint64(l, uint64(len(b)))") && contains(ss, "gw.Name = dumpHeader") &&
				contains(ss, "if len(block.GetEntries()) > 0 { if err := writeBlock(); err != nil { return en, err } }")
		}
		ex.setBool("c19WriterSplitsBySize", okSplit, wd != nil, "writeDump: a block is closed at 128 entries or at half the maximum block length; 8-byte length header; remaining entries flushed")
		op, okOp := token.ILLEGAL, false
		okEof, okHdr, okTimes := false, false, false
		if rd != nil {
			ss := stmtStrings(ex, rd.Body)
			op, okOp = ex.findCmp(rd.Body, "u", "dumpMaximumBlockLength")
			okOp = okOp && contains(ss, "u := binary.BigEndian.Uint64(*h)") && contains(ss, "b := pool.GetBuf(int(u))") && contains(ss, "h := pool.GetBuf(8)")
			okEof = contains(ss, `if err != nil { if errors.Is(err, io.EOF) { return errReadHeaderEOF } return fmt.Errorf("failed to read block header, %w", err) }`) &&
				contains(ss, `if err != nil { return fmt.Errorf("failed to read block data, %w", err) }`) &&
				contains(ss, "if err != nil { if err == errReadHeaderEOF { err = nil } break }") &&
				contains(ss, "_, err := io.ReadFull(gr, *h)") && contains(ss, "_, err = io.ReadFull(gr, *b)")
			okHdr = false
			for _, s := range ss {
				if strings.HasPrefix(s, "if gr.Name != dumpHeader { return en,") {
					okHdr = true
				}
			}
			okTimes = contains(ss, "cacheExpTime := time.Unix(entry.GetCacheExpirationTime(), 0)") &&
				contains(ss, "msgExpTime := time.Unix(entry.GetMsgExpirationTime(), 0)") &&
				contains(ss, "storedTime := time.Unix(entry.GetMsgStoredTime(), 0)") &&
				contains(ss, "i := &item{ resp: resp, storedTime: storedTime, expirationTime: msgExpTime, }") &&
				contains(ss, "c.backend.Store(key(entry.GetKey()), i, cacheExpTime)")
		}
		ex.setCmp("c19MaxBlockCmp", op, okOp, "readDump: `u := binary.BigEndian.Uint64(*h); if u <op> dumpMaximumBlockLength { error }` before pool.GetBuf(int(u))")
		ex.setBool("c19HeaderEofOnly", okEof, rd != nil, "readDump: only io.EOF on the 8-byte header read is the clean end; every other read error is returned")
		ex.setBool("c19HeaderNameChecked", okHdr, rd != nil, "readDump: gzip header name must be dumpHeader")
		ex.setBool("c19ReadUsesAllTimes", okTimes, rd != nil, "readDump: each entry is stored under its dumped key with its dumped stored / message-expiry / cache-expiry times")

		// writeDump keeps no state outside its own frame between "marshal a block"
		// and "the bytes were handed to the compressor": the only use of the
		// receiver is c.backend.Range(rangeFunc); the block, the marshaled bytes,
		// the length header and the gzip writer are locals created by this call;
		// no package-level variable of the cache package is referenced.
		okLocal := false
		if wd != nil && wd.Recv != nil && len(wd.Recv.List) == 1 && len(wd.Recv.List[0].Names) == 1 {
			recv := wd.Recv.List[0].Names[0].Name
			pkgVars := map[string]bool{}
			dir := filepath.Dir(crel)
			des, _ := os.ReadDir(filepath.Join(ex.repo, dir))
			for _, de := range des {
				if de.IsDir() || !strings.HasSuffix(de.Name(), ".go") || strings.HasSuffix(de.Name(), "_test.go") {
					continue
				}
				f := ex.file(filepath.Join(dir, de.Name()))
				if f == nil {
					continue
				}
				for _, d := range f.Decls {
					if gd, ok := d.(*ast.GenDecl); ok && gd.Tok == token.VAR {
						for _, sp := range gd.Specs {
							if vs, ok := sp.(*ast.ValueSpec); ok {
								for _, n := range vs.Names {
									pkgVars[n.Name] = true
								}
							}
						}
					}
				}
			}
			recvUses, backendRange, pkgVarUses := 0, 0, 0
			fieldNames := map[*ast.Ident]bool{} // x.Sel and struct-literal keys are not variable references
			ast.Inspect(wd.Body, func(n ast.Node) bool {
				switch x := n.(type) {
				case *ast.SelectorExpr:
					fieldNames[x.Sel] = true
				case *ast.CompositeLit:
					for _, e := range x.Elts {
						if kv, ok := e.(*ast.KeyValueExpr); ok {
							if id, ok := kv.Key.(*ast.Ident); ok {
								fieldNames[id] = true
							}
						}
					}
				case *ast.CallExpr:
					if ex.str(x) == recv+".backend.Range(rangeFunc)" {
						backendRange++
					}
				}
				return true
			})
			ast.Inspect(wd.Body, func(n ast.Node) bool {
				id, ok := n.(*ast.Ident)
				if !ok || fieldNames[id] {
					return true
				}
				local := id.Obj != nil && id.Obj.Pos() >= wd.Pos() && id.Obj.Pos() <= wd.End()
				if id.Name == recv {
					recvUses++
				} else if pkgVars[id.Name] && id.Name != "_" && !local {
					pkgVarUses++
				}
				return true
			})
			ss := stmtStrings(ex, wd.Body)
			okLocal = recvUses == 1 && backendRange == 1 && pkgVarUses == 0 &&
				contains(ss, "b, err := proto.Marshal(block)") && contains(ss, "l := make([]byte, 8)") &&
				contains(ss, "block := new(CacheDumpBlock)") && contains(ss, "gw, _ := gzip.NewWriterLevel(w, gzip.BestSpeed)") &&
				contains(ss, "_, err = gw.Write(l)") && contains(ss, "_, err = gw.Write(b)")
		}
		ex.setBool("c19WriterStateLocal", okLocal, wd != nil, "writeDump: the receiver is used only for c.backend.Range(rangeFunc); block, marshaled bytes (fresh slice from proto.Marshal), length header and gzip writer are locals of the call; no package-level variable is referenced - overlapping dumps share nothing but the store")
	})
}

// The cache key is binary (getMsgKey: flags, qtype, qclass, length octet,
// name), so the dump must carry it in a field that takes any octets: proto3
// `bytes`. A `string` field makes proto.Marshal / Unmarshal fail on every key
// that is not valid UTF-8. Three places have to agree: dump.proto, the Go
// field type in dump.pb.go, and the field type in the raw descriptor.
func init() {
	factFuncs = append(factFuncs, func(ex *factExtractor) {
		const dir = "plugin/executable/cache"
		protoOK, known := false, false
		if src, err := os.ReadFile(filepath.Join(ex.repo, dir, "dump.proto")); err == nil {
			known = true
			if m := regexp.MustCompile(`(?s)message\s+CachedEntry\s*\{(.*?)\}`).FindSubmatch(src); m != nil {
				protoOK = regexp.MustCompile(`(?m)^\s*bytes\s+key\s*=\s*1\s*;`).Match(m[1]) &&
					regexp.MustCompile(`(?m)^\s*bytes\s+msg\s*=\s*2\s*;`).Match(m[1])
			}
		}
		goOK, descOK := false, false
		f := ex.file(filepath.Join(dir, "dump.pb.go"))
		if f == nil {
			known = false
		} else {
			var desc []byte
			for _, d := range f.Decls {
				gd, ok := d.(*ast.GenDecl)
				if !ok {
					continue
				}
				for _, sp := range gd.Specs {
					switch x := sp.(type) {
					case *ast.TypeSpec:
						st, ok := x.Type.(*ast.StructType)
						if !ok || x.Name.Name != "CachedEntry" {
							continue
						}
						types := map[string]string{}
						for _, fl := range st.Fields.List {
							for _, n := range fl.Names {
								types[n.Name] = ex.str(fl.Type)
							}
						}
						goOK = types["Key"] == "[]byte" && types["Msg"] == "[]byte"
					case *ast.ValueSpec:
						if len(x.Names) != 1 || !strings.HasSuffix(x.Names[0].Name, "dump_proto_rawDesc") || len(x.Values) != 1 {
							continue
						}
						if cl, ok := x.Values[0].(*ast.CompositeLit); ok {
							for _, e := range cl.Elts {
								if bl, ok := e.(*ast.BasicLit); ok {
									if v, err := strconv.ParseUint(bl.Value, 0, 8); err == nil {
										desc = append(desc, byte(v))
									}
								}
							}
						}
					}
				}
			}
			// FieldDescriptorProto{name=1:"key", number=3:1, label=4:1, type=5:TYPE_BYTES(12)}
			descOK = bytes.Contains(desc, []byte{0x0a, 0x03, 'k', 'e', 'y', 0x18, 0x01, 0x20, 0x01, 0x28, 0x0c}) &&
				bytes.Contains(desc, []byte{0x0a, 0x03, 'm', 's', 'g', 0x18, 0x02, 0x20, 0x01, 0x28, 0x0c})
		}
		ex.setBool("c19KeyFieldIsBytes", protoOK && goOK && descOK, known, "dump.proto / dump.pb.go: CachedEntry.key (and msg) are proto3 `bytes` ([]byte in Go, TYPE_BYTES in the raw descriptor): any octets marshal and unmarshal; a `string` field would reject every key that is not valid UTF-8")
	})
}
