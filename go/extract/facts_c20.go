package main

import (
	"go/ast"
	"sort"
	"strings"
)

func init() {
	factFuncs = append(factFuncs, func(ex *factExtractor) {
		const rel = "plugin/executable/sequence/fallback/fallback.go"
		f := ex.fn(rel, "fallback", "doFallback")
		if f == nil {
			for _, n := range []string{"c20PrimarySendsBeforeClose", "c20PrimaryFailClosesThenSendsNil", "c20FirstSelectCases", "c20SecondSelectCases", "c20CollectLoop"} {
				ex.setBool(n, false, false, "doFallback not found")
			}
			ex.setNat("c20RespChanCap", 0, false, "doFallback not found")
			return
		}
		// channel capacity
		var capV int64
		okCap := false
		ast.Inspect(f.Body, func(n ast.Node) bool {
			if as, ok := n.(*ast.AssignStmt); ok && len(as.Lhs) == 1 && ex.str(as.Lhs[0]) == "respChan" {
				if c, ok := as.Rhs[0].(*ast.CallExpr); ok && ex.str(c.Fun) == "make" && len(c.Args) == 2 && ex.str(c.Args[0]) == "chan *dns.Msg" {
					capV, okCap = ex.intLit(c.Args[1], nil)
				}
			}
			return true
		})
		ex.setNat("c20RespChanCap", capV, okCap, "respChan := make(chan *dns.Msg, N)")
		// the primary goroutine: `if err != nil || r == nil { close(primFailed); respChan <- nil } else { respChan <- r; close(primDone) }`
		okSucc, okFail := false, false
		ast.Inspect(f.Body, func(n ast.Node) bool {
			is, ok := n.(*ast.IfStmt)
			if !ok || ex.str(is.Cond) != "err != nil || r == nil" {
				return true
			}
			var th, el []string
			for _, s := range is.Body.List {
				if !strings.HasPrefix(ex.str(s), "verifpoint.At(") { // schedule-point hook, a no-op in normal builds
					th = append(th, ex.str(s))
				}
			}
			if eb, ok := is.Else.(*ast.BlockStmt); ok {
				for _, s := range eb.List {
					if !strings.HasPrefix(ex.str(s), "verifpoint.At(") {
						el = append(el, ex.str(s))
					}
				}
			}
			okFail = strings.Join(th, ";") == "close(primFailed);respChan <- nil"
			okSucc = strings.Join(el, ";") == "respChan <- r;close(primDone)"
			return true
		})
		ex.setBool("c20PrimarySendsBeforeClose", okSucc, true, "primary success: `respChan <- r` then `close(primDone)`")
		ex.setBool("c20PrimaryFailClosesThenSendsNil", okFail, true, "primary failure: `close(primFailed)` then `respChan <- nil`, taken when err != nil || r == nil")
		// selects
		caseSet := func(sel *ast.SelectStmt) string {
			var cs []string
			for _, c := range sel.Body.List {
				cc := c.(*ast.CommClause)
				s := "default"
				if cc.Comm != nil {
					s = ex.str(cc.Comm)
				}
				body := ""
				for _, b := range cc.Body {
					body += ex.str(b) + ";"
				}
				cs = append(cs, s+"{"+body+"}")
			}
			sort.Strings(cs)
			return strings.Join(cs, " | ")
		}
		okFirst, okSecond, okLoop := false, false, false
		ast.Inspect(f.Body, func(n ast.Node) bool {
			switch x := n.(type) {
			case *ast.IfStmt:
				c := ex.str(x.Cond)
				if c == "!f.alwaysStandby" && len(x.Body.List) == 1 {
					if sel, ok := x.Body.List[0].(*ast.SelectStmt); ok {
						okFirst = caseSet(sel) == "<-primDone{return;} | <-primFailed{} | <-timer.C{}"
					}
				}
				if c == "f.alwaysStandby && r != nil" && len(x.Body.List) == 1 {
					if sel, ok := x.Body.List[0].(*ast.SelectStmt); ok {
						okSecond = caseSet(sel) == "<-ctx.Done(){} | <-primDone{} | <-primFailed{} | <-timer.C{}"
					}
				}
			case *ast.ForStmt:
				if ex.str(x.Init) == "i := 0" && ex.str(x.Cond) == "i < 2" && len(x.Body.List) == 1 {
					if sel, ok := x.Body.List[0].(*ast.SelectStmt); ok {
						okLoop = caseSet(sel) == "<-ctx.Done(){return context.Cause(ctx);} | r := <-respChan{if r == nil { continue };qCtx.SetResponse(r);return nil;}"
					}
				}
			}
			return true
		})
		ss := stmtStrings(ex, f.Body)
		okSecond = okSecond && contains(ss, "respChan <- r") && contains(ss, "err := f.secondary.Exec(ctx, qCtx)") &&
			contains(ss, `if err != nil { f.logger.Warn("secondary error", qCtx.InfoField(), zap.Error(err)) respChan <- nil return }`)
		okLoop = okLoop && ex.str(f.Body.List[len(f.Body.List)-1]) == "return ErrFailed"
		ex.setBool("c20FirstSelectCases", okFirst, true, "without always_standby the secondary first waits on {primDone -> return, primFailed, timer}")
		ex.setBool("c20SecondSelectCases", okSecond, true, "with always_standby and an answer the secondary waits on {ctx, primDone, primFailed, timer}, then sends; an error sends nil")
		ex.setBool("c20CollectLoop", okLoop, true, "the caller receives at most two results, the first non-nil wins, ctx ends the call, two nils -> ErrFailed")
		// the threshold timer: borrowed from pkg/pool by the secondary goroutine and only ever received from
		nGet, nRel, otherUse := 0, 0, false
		ast.Inspect(f.Body, func(n ast.Node) bool {
			switch x := n.(type) {
			case *ast.AssignStmt:
				if ex.str(x) == "timer := pool.GetTimer(f.fastFallbackDuration)" {
					nGet++
					return false
				}
			case *ast.DeferStmt:
				if ex.str(x) == "defer pool.ReleaseTimer(timer)" {
					nRel++
					return false
				}
			case *ast.UnaryExpr:
				if ex.str(x) == "<-timer.C" {
					return false
				}
			case *ast.Ident:
				if x.Name == "timer" {
					otherUse = true
				}
			}
			return true
		})
		ex.setBool("c20ThresholdTimerFromPool", nGet == 1 && nRel == 1 && !otherUse && contains(ss, "timer := pool.GetTimer(f.fastFallbackDuration)"), true,
			"the secondary goroutine's threshold timer is `pool.GetTimer(f.fastFallbackDuration)`, released by a deferred `pool.ReleaseTimer`, and otherwise only received from")
		// whose timer it is: borrowed, released (deferred, i.e. when that goroutine ends) and received from inside ONE
		// function literal that is started with `go` - the goroutine that waits on the timer holds it until it ends
		{
			var stack []ast.Node
			owner := func() ast.Node {
				for i := len(stack) - 1; i >= 0; i-- {
					if fl, ok := stack[i].(*ast.FuncLit); ok {
						return fl
					}
				}
				return nil
			}
			goLit := map[ast.Node]bool{}
			var getIn, relIn, recvIn []ast.Node
			ast.Inspect(f.Body, func(n ast.Node) bool {
				if n == nil {
					stack = stack[:len(stack)-1]
					return true
				}
				switch x := n.(type) {
				case *ast.GoStmt:
					if fl, ok := x.Call.Fun.(*ast.FuncLit); ok {
						goLit[fl] = true
					}
				case *ast.AssignStmt:
					if ex.str(x) == "timer := pool.GetTimer(f.fastFallbackDuration)" {
						getIn = append(getIn, owner())
					}
				case *ast.DeferStmt:
					if ex.str(x) == "defer pool.ReleaseTimer(timer)" {
						relIn = append(relIn, owner())
					}
				case *ast.UnaryExpr:
					if ex.str(x) == "<-timer.C" {
						recvIn = append(recvIn, owner())
					}
				}
				stack = append(stack, n)
				return true
			})
			held := len(getIn) == 1 && len(relIn) == 1 && len(recvIn) >= 1 && getIn[0] != nil && goLit[getIn[0]] && relIn[0] == getIn[0]
			for _, o := range recvIn {
				held = held && o == getIn[0]
			}
			ex.setBool("c20TimerHeldByItsReader", held, true,
				"the threshold timer is borrowed (`pool.GetTimer`), released (deferred `pool.ReleaseTimer`) and received from (`<-timer.C`) inside one `go func() {...}()` literal of doFallback: the goroutine that waits on it holds it until it ends (false: e.g. doFallback itself borrows and releases it while a goroutine it started receives from it)")
		}
	})
	// pkg/pool: what a released timer looks like when it is handed out again
	factFuncs = append(factFuncs, func(ex *factExtractor) {
		const rel = "pkg/pool/timer.go"
		norm := func(b *ast.BlockStmt) string {
			var xs []string
			for _, s := range b.List {
				xs = append(xs, strings.Join(strings.Fields(ex.str(s)), " "))
			}
			return strings.Join(xs, " ;; ")
		}
		rl := ex.fn(rel, "", "ReleaseTimer")
		if rl == nil {
			ex.setBool("c20ReleaseTimerDrains", false, false, "pool.ReleaseTimer not found")
		} else {
			got := norm(rl.Body)
			drains := got == "if !timer.Stop() { select { case <-timer.C: default: } } ;; timerPool.Put(timer)"
			bare := got == "timer.Stop() ;; timerPool.Put(timer)"
			ex.setBool("c20ReleaseTimerDrains", drains, drains || bare,
				"pool.ReleaseTimer: `if !timer.Stop() { select { case <-timer.C: default: } }` then `timerPool.Put(timer)` (false: a bare `timer.Stop()`)")
		}
		gt := ex.fn(rel, "", "GetTimer")
		if gt == nil {
			ex.setBool("c20GetTimerOnlyResets", false, false, "pool.GetTimer not found")
		} else {
			got := norm(gt.Body)
			want := "timer, ok := timerPool.Get().(*time.Timer) ;; if !ok { return time.NewTimer(t) } ;; " +
				"if timer.Reset(t) { panic(\"dispatcher.go getTimer: active timer trapped in timerPool\") } ;; return timer"
			ex.setBool("c20GetTimerOnlyResets", got == want, true,
				"pool.GetTimer: a new timer, or a pooled one after `timer.Reset(t)` and nothing else (its channel is not looked at)")
		}
	})
	// the queries the two workers run on: Context.CopyTo gives a copy a query message of its own (dns.Msg.Copy is a deep
	// copy: the OPT record ecs_handler / forward_edns0opt edit through QOpt() is not shared), and doFallback hands each
	// worker such a copy and nothing else
	factFuncs = append(factFuncs, func(ex *factExtractor) {
		const crel = "pkg/query_context/context.go"
		ct := ex.fn(crel, "Context", "CopyTo")
		cp := ex.fn(crel, "Context", "Copy")
		if ct == nil || cp == nil {
			ex.setBool("c20CopyToQueryDeep", false, false, "Context.CopyTo / Copy not found")
		} else {
			nAssign, deep := 0, false
			ast.Inspect(ct.Body, func(n ast.Node) bool {
				if s, ok := n.(*ast.AssignStmt); ok {
					for _, l := range s.Lhs {
						if ex.str(l) == "d.query" || strings.HasPrefix(ex.str(l), "d.query.") {
							nAssign++
						}
					}
					if ex.str(s) == "d.query = ctx.query.Copy()" {
						deep = true
					}
				}
				return true
			})
			okCopy := ex.str(cp.Body) == "{ newCtx := new(Context) ctx.CopyTo(newCtx) return newCtx }" && !strings.Contains(ex.str(ct.Body), "*d = *ctx")
			// `query` must be the *dns.Msg whose Copy is miekg/dns's
			okField := false
			if f := ex.file(crel); f != nil {
				ast.Inspect(f, func(n ast.Node) bool {
					if ts, ok := n.(*ast.TypeSpec); ok && ts.Name.Name == "Context" {
						if st, ok := ts.Type.(*ast.StructType); ok {
							for _, fl := range st.Fields.List {
								for _, nm := range fl.Names {
									if nm.Name == "query" && ex.str(fl.Type) == "*dns.Msg" {
										okField = true
									}
								}
							}
						}
					}
					return true
				})
			}
			ex.setBool("c20CopyToQueryDeep", deep && nAssign == 1 && okCopy && okField, true,
				"Context.CopyTo: the only write to d.query is `d.query = ctx.query.Copy()` (query is a *dns.Msg: dns.Msg.Copy, a deep copy with records of its own); Copy() is new(Context) + CopyTo")
		}
		f := ex.fn("plugin/executable/sequence/fallback/fallback.go", "fallback", "doFallback")
		if f == nil {
			ex.setBool("c20WorkersRunOnCopies", false, false, "doFallback not found")
			return
		}
		// per goroutine literal: the statements before the worker's Exec call
		var lits []*ast.FuncLit
		ast.Inspect(f.Body, func(n ast.Node) bool {
			if g, ok := n.(*ast.GoStmt); ok {
				if fl, ok := g.Call.Fun.(*ast.FuncLit); ok {
					lits = append(lits, fl)
				}
			}
			return true
		})
		worker := func(fl *ast.FuncLit, copyVar, exec string) bool {
			ss := stmtStrings(ex, fl.Body)
			iCopy, iExec, nShadow := -1, -1, 0
			for i, s := range ss {
				if strings.HasPrefix(s, "qCtx := ") || strings.HasPrefix(s, "qCtx = ") {
					nShadow++
					if s == "qCtx := "+copyVar && iCopy < 0 {
						iCopy = i
					}
				}
				if s == exec && iExec < 0 {
					iExec = i
				}
			}
			return nShadow == 1 && iCopy >= 0 && iExec > iCopy
		}
		uses := func(name string) int {
			n := 0
			ast.Inspect(f.Body, func(x ast.Node) bool {
				if id, ok := x.(*ast.Ident); ok && id.Name == name {
					n++
				}
				return true
			})
			return n
		}
		top := stmtStrings(ex, f.Body)
		ok := len(lits) == 2 && contains(top, "qCtxP := qCtx.Copy()") && contains(top, "qCtxS := qCtx.Copy()") &&
			uses("qCtxP") == 2 && uses("qCtxS") == 2 &&
			worker(lits[0], "qCtxP", "err := f.primary.Exec(ctx, qCtx)") && worker(lits[1], "qCtxS", "err := f.secondary.Exec(ctx, qCtx)")
		ex.setBool("c20WorkersRunOnCopies", ok, true,
			"doFallback: `qCtxP := qCtx.Copy()` / `qCtxS := qCtx.Copy()`, each used once: the worker goroutine's `qCtx := qCtxP` (`qCtxS`) before its `f.primary.Exec(ctx, qCtx)` (`f.secondary.Exec`)")
	})
}
