package main

import (
	"go/ast"
	"go/token"
	"strconv"
	"strings"
)

// C07, upstream level: the wrappers in pkg/upstream/upstream.go that implement ExchangeContext on top of the
// transports (udpWithFallback: UDP, then TCP after a truncated reply; dohWithClose; ...). For every inner
// ExchangeContext call of such a method the relation of the context it is given to the caller's context is read
// from the source:
//
//	0  the method's own context parameter
//	1  derived from it by context.WithCancel / WithTimeout / WithDeadline / WithValue (and the ...Cause forms):
//	   it ends whenever the caller's ends
//	2  anything else (context.Background(), context.WithoutCancel(..), a field, a reassigned variable, ...)
//
// Variables are followed flow-insensitively: a variable assigned more than once, or from anything but the forms
// above, is 2.

var c07CtxDerive = map[string]bool{
	"context.WithCancel": true, "context.WithTimeout": true, "context.WithDeadline": true, "context.WithValue": true,
	"context.WithCancelCause": true, "context.WithTimeoutCause": true, "context.WithDeadlineCause": true,
}

type c07CtxFlow struct {
	ex   *factExtractor
	vars map[string]int // identifier -> code
	set  map[string]int // identifier -> number of assignments
}

func (p *c07CtxFlow) class(e ast.Expr) int {
	switch x := e.(type) {
	case *ast.ParenExpr:
		return p.class(x.X)
	case *ast.Ident:
		if c, ok := p.vars[x.Name]; ok {
			return c
		}
		return 2
	case *ast.CallExpr:
		if c07CtxDerive[p.ex.str(x.Fun)] && len(x.Args) >= 1 {
			if p.class(x.Args[0]) <= 1 {
				return 1
			}
		}
		return 2
	}
	return 2
}

// scan records every assignment to an identifier that is (or becomes) a context variable, in source order.
func (p *c07CtxFlow) scan(body ast.Node) {
	assign := func(lhs ast.Expr, code int) {
		id, ok := lhs.(*ast.Ident)
		if !ok || id.Name == "_" {
			return
		}
		_, tracked := p.vars[id.Name]
		if !tracked && code == 2 {
			return // not a context we follow; if it is used as one it classifies as 2 anyway
		}
		p.set[id.Name]++
		if tracked {
			p.vars[id.Name] = 2 // assigned again (the parameter itself included): no longer known
			return
		}
		p.vars[id.Name] = code
	}
	ast.Inspect(body, func(n ast.Node) bool {
		switch st := n.(type) {
		case *ast.AssignStmt:
			if len(st.Rhs) == 1 && len(st.Lhs) >= 1 {
				assign(st.Lhs[0], p.class(st.Rhs[0]))
				for _, l := range st.Lhs[1:] {
					assign(l, 2)
				}
			} else {
				for i, l := range st.Lhs {
					if i < len(st.Rhs) {
						assign(l, p.class(st.Rhs[i]))
					} else {
						assign(l, 2)
					}
				}
			}
		case *ast.UnaryExpr:
			if st.Op == token.AND { // &ctx: somebody else may write it
				if id, ok := st.X.(*ast.Ident); ok {
					if _, tracked := p.vars[id.Name]; tracked {
						p.vars[id.Name] = 2
					}
				}
			}
		case *ast.RangeStmt:
			if st.Key != nil {
				assign(st.Key, 2)
			}
			if st.Value != nil {
				assign(st.Value, 2)
			}
		}
		return true
	})
}

func init() {
	factFuncs = append(factFuncs, func(ex *factExtractor) {
		const rel = "pkg/upstream/upstream.go"
		const name = "c07UpstreamCtxArgs"
		const typ = "Option (List (String × List Nat))"
		note := "pkg/upstream/upstream.go: for every method ExchangeContext declared there (receiver type), the contexts handed to its inner ExchangeContext calls in source order: 0 = the method's own context parameter, 1 = derived from it by context.WithCancel/WithTimeout/WithDeadline/WithValue, 2 = anything else (not tied to the caller's context)"
		f := ex.file(rel)
		if f == nil {
			ex.setRaw(name, typ, "none", "unknown: "+note)
			return
		}
		var entries []string
		bad := ""
		for _, d := range f.Decls {
			fd, ok := d.(*ast.FuncDecl)
			if !ok || fd.Name.Name != "ExchangeContext" || fd.Body == nil || fd.Recv == nil || len(fd.Recv.List) == 0 {
				continue
			}
			recv := strings.TrimPrefix(ex.str(fd.Recv.List[0].Type), "*")
			params := fd.Type.Params.List
			if len(params) == 0 || ex.str(params[0].Type) != "context.Context" || len(params[0].Names) != 1 {
				bad = recv + ".ExchangeContext does not take a named context.Context first"
				break
			}
			p := &c07CtxFlow{ex: ex, vars: map[string]int{params[0].Names[0].Name: 0}, set: map[string]int{}}
			p.scan(fd.Body)
			var codes []string
			ast.Inspect(fd.Body, func(n ast.Node) bool {
				c, ok := n.(*ast.CallExpr)
				if !ok {
					return true
				}
				sel, ok := c.Fun.(*ast.SelectorExpr)
				if !ok || sel.Sel.Name != "ExchangeContext" {
					return true
				}
				code := 2
				if len(c.Args) >= 1 {
					code = p.class(c.Args[0])
				}
				codes = append(codes, strconv.Itoa(code))
				return true
			})
			entries = append(entries, "(\""+recv+"\", ["+strings.Join(codes, ", ")+"])")
		}
		if bad != "" {
			ex.setRaw(name, typ, "none", "unknown ("+bad+"): "+note)
		} else {
			ex.setRaw(name, typ, "some ["+strings.Join(entries, ", ")+"]", note)
		}

		// Close of the composite upstream closes both transports
		if fd := ex.fn(rel, "udpWithFallback", "Close"); fd != nil {
			ss := stmtStrings(ex, fd.Body)
			ex.setBool("c07FallbackClosesBoth", contains(ss, "u.u.Close()") && contains(ss, "u.t.Close()"), true,
				"udpWithFallback.Close closes the UDP pipeline transport and the TCP reuse transport")
		} else {
			ex.setBool("c07FallbackClosesBoth", false, false, "udpWithFallback.Close closes the UDP pipeline transport and the TCP reuse transport")
		}
	})
}
