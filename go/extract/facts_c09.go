package main

import (
	"fmt"
	"go/ast"
	"go/token"
	"strings"
)

func countStr(xs []string, s string) int {
	n := 0
	for _, x := range xs {
		if x == s {
			n++
		}
	}
	return n
}

func init() {
	factFuncs = append(factFuncs, func(ex *factExtractor) {
		const trel = "pkg/upstream/transport/conn_traditional.go"
		const lrel = "pkg/upstream/transport/conn_lazy_dial.go"
		// ---- established connection
		rv := ex.fn(trel, "TraditionalDnsConn", "ReserveNewQuery")
		if rv != nil {
			op, ok := ex.findCmp(rv.Body, "len(dc.queue) + dc.reservedQuery", "dc.maxCq")
			ex.setCmp("c09TdcReserveCmp", op, ok, "TraditionalDnsConn.ReserveNewQuery: `len(dc.queue)+dc.reservedQuery <op> dc.maxCq` refuses")
			ss := stmtStrings(ex, rv.Body)
			l := rv.Body.List
			ex.setBool("c09TdcReserveShape",
				len(l) == 6 && countStr(ss, "dc.reservedQuery++") == 1 &&
					ex.str(l[0]) == "if dc.closed.Load() { return nil, true }" &&
					ex.str(l[1]) == "dc.queueMu.Lock()" && ex.str(l[2]) == "defer dc.queueMu.Unlock()" &&
					strings.HasPrefix(ex.str(l[3]), "if len(dc.queue)+dc.reservedQuery ") && strings.HasSuffix(ex.str(l[3]), " dc.maxCq { return nil, false }") &&
					ex.str(l[4]) == "dc.reservedQuery++" && ex.str(l[5]) == "return (*tdcOneTimeExchanger)(dc), false",
				true, "ReserveNewQuery: closed check, refusal test under queueMu, exactly one reservedQuery++, returns the one-time exchanger")
		}
		aq := ex.fn(trel, "TraditionalDnsConn", "addQueueC")
		if aq != nil {
			ss := stmtStrings(ex, aq.Body)
			iDec := indexOf(ss, "dc.reservedQuery--")
			iFor := -1
			for i, s := range ss {
				if strings.HasPrefix(s, "for i := 0; i < 100; i++") {
					iFor = i
				}
			}
			ex.setBool("c09AddQueueReleasesReservationOnce", countStr(ss, "dc.reservedQuery--") == 1 && iDec >= 0 && iFor > iDec && countStr(ss, "dc.queue[uint32(qid)] = c") == 1,
				true, "addQueueC: exactly one reservedQuery-- before the qid search (both outcomes), exactly one insertion into the waiter table")
		}
		exch := ex.fn(trel, "TraditionalDnsConn", "exchange")
		if exch != nil && len(exch.Body.List) >= 4 {
			first := ex.str(exch.Body.List[0])
			ex.setBool("c09ExchangeEntry",
				first == "select { case <-dc.closeNotify: (*tdcOneTimeExchanger)(dc).WithdrawReserved() return nil, ErrTDCClosed default: }" &&
					ex.str(exch.Body.List[1]) == "assignedQid, respChan := dc.addQueueC()" &&
					ex.str(exch.Body.List[2]) == "if respChan == nil { return nil, ErrTDCTooManyQueries }" &&
					ex.str(exch.Body.List[3]) == "defer dc.deleteQueueC(assignedQid, respChan)",
				true, "exchange: the only way out before addQueueC is the closeNotify arm, which withdraws the reservation; deleteQueueC is deferred right after a successful addQueueC")
		}
		wd := ex.fn(trel, "tdcOneTimeExchanger", "WithdrawReserved")
		er := ex.fn(trel, "tdcOneTimeExchanger", "ExchangeReserved")
		if wd != nil && er != nil {
			ss := stmtStrings(ex, wd.Body)
			ex.setBool("c09TdcWithdrawOnce", len(ss) == 3 && ss[1] == "ote.reservedQuery--" && countStr(stmtStrings(ex, er.Body), "return (*TraditionalDnsConn)(ote).exchange(ctx, q)") == 1 && len(er.Body.List) == 1,
				true, "WithdrawReserved decrements once under queueMu; ExchangeReserved is just exchange")
		}
		if f := ex.file(trel); f != nil {
			inc, dec, del := 0, 0, 0
			ast.Inspect(f, func(n ast.Node) bool {
				if s, ok := n.(*ast.IncDecStmt); ok && strings.HasSuffix(ex.str(s.X), "reservedQuery") {
					if ex.str(s) == ex.str(s.X)+"++" {
						inc++
					} else {
						dec++
					}
				}
				if a, ok := n.(*ast.AssignStmt); ok {
					for _, l := range a.Lhs {
						if strings.HasSuffix(ex.str(l), "reservedQuery") {
							inc += 100
						}
					}
				}
				if c, ok := n.(*ast.CallExpr); ok && ex.str(c.Fun) == "delete" && len(c.Args) == 2 && strings.HasSuffix(ex.str(c.Args[0]), ".queue") {
					del++
				}
				return true
			})
			ex.setNat("c09TdcReservedIncSites", int64(inc), true, "conn_traditional.go: sites that increase reservedQuery")
			ex.setNat("c09TdcReservedDecSites", int64(dec), true, "conn_traditional.go: sites that decrease reservedQuery")
			ex.setNat("c09TdcQueueDeleteSites", int64(del), true, "conn_traditional.go: delete(dc.queue, ...) sites (popQueueC, deleteQueueC)")
		}
		// ---- dialing connection
		lr := ex.fn(lrel, "lazyDnsConn", "ReserveNewQuery")
		if lr != nil {
			op, ok := ex.findCmp(lr.Body, "lc.reservedQuery", "lc.maxConcurrentQuery")
			ex.setCmp("c09LazyReserveCmp", op, ok, "lazyDnsConn.ReserveNewQuery while dialing: `lc.reservedQuery <op> lc.maxConcurrentQuery` refuses")
			ss := stmtStrings(ex, lr.Body)
			iWait, iRes := indexOf(ss, "lc.earlyReserveCallWg.Wait()"), indexOf(ss, "return dc.ReserveNewQuery()")
			ex.setBool("c09LazyReserveShape",
				countStr(ss, "lc.reservedQuery++") == 1 && countStr(ss, "lc.earlyReserveCallWg.Add(1)") == 1 &&
					contains(ss, "if lc.reservedQuery >= lc.maxConcurrentQuery { return nil, false }") &&
					indexOf(ss, "lc.reservedQuery++") > indexOf(ss, "if lc.reservedQuery >= lc.maxConcurrentQuery { return nil, false }") &&
					iWait >= 0 && iRes > iWait && indexOf(ss, "lc.fastPath.Store(1)") > iWait &&
					contains(ss, "if err != nil { lc.fastPath.Store(2) return nil, true }"),
				true, "lazy ReserveNewQuery: while dialing one reservedQuery++ and one wg.Add(1) after the refusal test; after the dial it waits for the early callers before the fast path / the real connection")
		}
		le := ex.fn(lrel, "lazyDnsConnEarlyReservedExchanger", "ExchangeReserved")
		if le != nil && len(le.Body.List) == 2 {
			d := ex.str(le.Body.List[0])
			sel := ex.str(le.Body.List[1])
			ex.setBool("c09LazyEarlyExchange",
				d == "defer func() { ote.mu.Lock() ote.reservedQuery-- ote.mu.Unlock() }()" &&
					sel == "select { case <-ctx.Done(): ote.earlyReserveCallWg.Done() return nil, context.Cause(ctx) case <-ote.dialFinished: dc, err := ote.c, ote.dialErr if err != nil { return nil, err } rec, _ := dc.ReserveNewQuery() ote.earlyReserveCallWg.Done() if rec == nil { return nil, ErrLazyConnCannotReserveQueryExchanger } return rec.ExchangeReserved(ctx, q) }",
				true, "early ExchangeReserved: one deferred reservedQuery--; context arm: wg.Done once; dial arm: re-reserve on the real connection, then wg.Done once")
		}
		lw := ex.fn(lrel, "lazyDnsConnEarlyReservedExchanger", "WithdrawReserved")
		if lw != nil {
			ss := stmtStrings(ex, lw.Body)
			ex.setBool("c09LazyWithdrawOnce", len(ss) == 4 && ss[0] == "ote.earlyReserveCallWg.Done()" && ss[2] == "ote.reservedQuery--", true,
				"early WithdrawReserved: wg.Done once, reservedQuery-- once")
		}
		if f := ex.file(lrel); f != nil {
			inc, dec, done, add := 0, 0, 0, 0
			ast.Inspect(f, func(n ast.Node) bool {
				if s, ok := n.(*ast.IncDecStmt); ok && strings.HasSuffix(ex.str(s.X), "reservedQuery") {
					if ex.str(s) == ex.str(s.X)+"++" {
						inc++
					} else {
						dec++
					}
				}
				if a, ok := n.(*ast.AssignStmt); ok {
					for _, l := range a.Lhs {
						if strings.HasSuffix(ex.str(l), "reservedQuery") {
							inc += 100
						}
					}
				}
				if c, ok := n.(*ast.CallExpr); ok {
					switch {
					case strings.HasSuffix(ex.str(c.Fun), "earlyReserveCallWg.Done"):
						done++
					case strings.HasSuffix(ex.str(c.Fun), "earlyReserveCallWg.Add"):
						add++
					}
				}
				return true
			})
			ex.setNat("c09LazyReservedIncSites", int64(inc), true, "conn_lazy_dial.go: sites that increase reservedQuery")
			ex.setNat("c09LazyReservedDecSites", int64(dec), true, "conn_lazy_dial.go: sites that decrease reservedQuery")
			ex.setNat("c09LazyWgDoneSites", int64(done), true, "conn_lazy_dial.go: earlyReserveCallWg.Done sites")
			ex.setNat("c09LazyWgAddSites", int64(add), true, "conn_lazy_dial.go: earlyReserveCallWg.Add sites")
		}
		// ---- callers: one ExchangeReserved per reservation
		pe := ex.fn("pkg/upstream/transport/pipeline.go", "PipelineTransport", "ExchangeContext")
		if pe != nil {
			ss := stmtStrings(ex, pe.Body)
			i1, i2 := indexOf(ss, "dc, isNewConn, err := t.getReservedExchanger()"), indexOf(ss, "r, err := dc.ExchangeReserved(ctx, m)")
			ex.setBool("c09PipelineUsesEachReservationOnce", i1 >= 0 && i2 == i1+3 && ss[i1+1] == "if err != nil { return nil, err }" && ss[i1+2] == "return nil, err" &&
				countStr(ss, "r, err := dc.ExchangeReserved(ctx, m)") == 1, true,
				"PipelineTransport.ExchangeContext: every reservation obtained is handed to ExchangeReserved exactly once, with nothing in between that could return")
		}
		// ---- the transport's pick among its connections: every reservation it takes is the one it returns
		gr := ex.fn("pkg/upstream/transport/pipeline.go", "PipelineTransport", "getReservedExchanger")
		if gr != nil && len(gr.Body.List) >= 4 {
			l := gr.Body.List
			loop, dial, calls, assigns := "", "", 0, 0
			for _, st := range l {
				switch s := ex.str(st); {
				case strings.HasPrefix(s, "for c := range t.conns "):
					loop = s
				case strings.HasPrefix(s, "if rxc == nil { c := newLazyDnsConn("):
					dial = s
				}
			}
			ast.Inspect(gr.Body, func(n ast.Node) bool {
				if c, ok := n.(*ast.CallExpr); ok && strings.HasSuffix(ex.str(c.Fun), ".ReserveNewQuery") {
					calls++
				}
				if a, ok := n.(*ast.AssignStmt); ok && len(a.Lhs) > 0 && len(a.Rhs) == 1 {
					if _, isCall := a.Rhs[0].(*ast.CallExpr); isCall && ex.str(a.Lhs[0]) == "rxc" && strings.HasSuffix(ex.str(a.Rhs[0]), ".ReserveNewQuery()") {
						assigns++
					} else {
						for _, lhs := range a.Lhs {
							if ex.str(lhs) == "rxc" {
								assigns += 100 // rxc is written by something else than a reservation
							}
						}
					}
				}
				return true
			})
			maxAtt, okAtt := ex.constIn(gr.Body, "maxReserveAttempt", nil)
			ex.setNat("c09PipelineMaxReserveAttempt", maxAtt, okAtt && strings.Contains(loop, "reserveAttempt++ if reserveAttempt > maxReserveAttempt { break }"),
				"getReservedExchanger: the loop gives up after more than this many refusals")
			ex.setBool("c09PipelinePickStopsAtFirstReservation",
				loop == "for c := range t.conns { var closed bool rxc, closed = c.ReserveNewQuery() if closed { delete(t.conns, c) } if rxc != nil { break } else { reserveAttempt++ if reserveAttempt > maxReserveAttempt { break } } }" &&
					strings.Contains(dial, " rxc, _ = c.ReserveNewQuery() ") && calls == 2 && assigns == 2 &&
					ex.str(l[len(l)-1]) == "return rxc, isNewConn, err" && countStr(stmtStrings(ex, gr.Body), "return rxc, isNewConn, err") == 1,
				true, "getReservedExchanger: both ReserveNewQuery results are assigned to rxc, the loop over the connections leaves at the first reservation it obtains, a connection is dialed only if rxc is still nil, rxc is what is returned (no reservation is taken and dropped)")
		}

		// ---- the limits as pkg/upstream.NewUpstream configures them
		ex.c09UpstreamLimits()
	})
}

// c09UpstreamLimits: for every transport.PipelineOpts literal in NewUpstream whose DialContext builds a
// TraditionalDnsConn (transport.NewDnsConn), the pair (MaxConcurrentQueryWhileDialing, MaxConcurrentQuery of the
// connection options), both resolved to numbers (literal, local or package constant; field absent: the
// transport's default). Identifiers are resolved to the last preceding `name := ...` whose block encloses the use.
func (ex *factExtractor) c09UpstreamLimits() {
	const urel = "pkg/upstream/upstream.go"
	const note = "NewUpstream: (limit while dialing, limit of the dialed connection) of every PipelineTransport over TraditionalDnsConn, in source order (udp, tcp, tls)"
	nu := ex.fn(urel, "", "NewUpstream")
	defTdc, ok1 := ex.pkgConst("pkg/upstream/transport/transport.go", "defaultTdcMaxConcurrentQuery", nil)
	defQ, ok2 := ex.pkgConst("pkg/upstream/transport/transport.go", "defaultMaxLazyConnQueue", nil)
	// the option fields are what the constructors install as limits
	nd := ex.fn("pkg/upstream/transport/conn_traditional.go", "", "NewDnsConn")
	np := ex.fn("pkg/upstream/transport/pipeline.go", "", "NewPipelineTransport")
	gr := ex.fn("pkg/upstream/transport/pipeline.go", "PipelineTransport", "getReservedExchanger")
	if nd != nil && np != nil && gr != nil {
		ex.setBool("c09LimitsComeFromOpts",
			countStr(stmtStrings(ex, nd.Body), "setDefaultGZ(&dc.maxCq, opt.MaxConcurrentQuery, defaultTdcMaxConcurrentQuery)") == 1 &&
				countStr(stmtStrings(ex, np.Body), "setDefaultGZ(&t.maxLazyConnQueue, opt.MaxConcurrentQueryWhileDialing, defaultMaxLazyConnQueue)") == 1 &&
				strings.Contains(ex.str(gr.Body), "newLazyDnsConn(t.dialFunc, t.dialTimeout, t.maxLazyConnQueue, t.logger)"),
			true, "NewDnsConn installs opt.MaxConcurrentQuery (or the default) as maxCq; NewPipelineTransport installs opt.MaxConcurrentQueryWhileDialing (or the default) as the queue limit every dialing connection gets")
	}
	if nu == nil || !ok1 || !ok2 {
		ex.setRaw("c09UpstreamPipelineLimits", "Option (List (Nat × Nat))", "none", "unknown: "+note)
		return
	}
	type def struct {
		name  string
		rhs   ast.Expr
		pos   token.Pos
		block *ast.BlockStmt
	}
	var defs []def
	var stack []*ast.BlockStmt
	var walk func(n ast.Node)
	walk = func(n ast.Node) {
		ast.Inspect(n, func(x ast.Node) bool {
			switch v := x.(type) {
			case *ast.BlockStmt:
				if v == n {
					return true
				}
				stack = append(stack, v)
				for _, st := range v.List {
					walk(st)
				}
				stack = stack[:len(stack)-1]
				return false
			case *ast.CaseClause:
				// a case clause is a scope of its own
				b := &ast.BlockStmt{Lbrace: v.Colon, List: v.Body, Rbrace: v.End()}
				stack = append(stack, b)
				for _, st := range v.Body {
					walk(st)
				}
				stack = stack[:len(stack)-1]
				return false
			case *ast.AssignStmt:
				if v.Tok == token.DEFINE && len(v.Lhs) == len(v.Rhs) && len(stack) > 0 {
					for i, l := range v.Lhs {
						if id, ok := l.(*ast.Ident); ok {
							defs = append(defs, def{id.Name, v.Rhs[i], v.Pos(), stack[len(stack)-1]})
						}
					}
				}
			}
			return true
		})
	}
	stack = append(stack, nu.Body)
	for _, st := range nu.Body.List {
		walk(st)
	}
	resolve := func(name string, use token.Pos) ast.Expr {
		var best *def
		for i := range defs {
			d := &defs[i]
			if d.name == name && d.pos < use && d.block.Pos() <= use && use <= d.block.End() && (best == nil || d.pos > best.pos) {
				best = d
			}
		}
		if best == nil {
			return nil
		}
		return best.rhs
	}
	isLit := func(e ast.Expr, typ string) *ast.CompositeLit {
		cl, ok := e.(*ast.CompositeLit)
		if ok && cl.Type != nil && ex.str(cl.Type) == typ {
			return cl
		}
		return nil
	}
	field := func(cl *ast.CompositeLit, name string) (ast.Expr, bool) {
		for _, el := range cl.Elts {
			if kv, ok := el.(*ast.KeyValueExpr); ok && ex.str(kv.Key) == name {
				return kv.Value, true
			}
		}
		return nil, false
	}
	number := func(e ast.Expr, present bool, dflt int64) (int64, bool) {
		if !present {
			return dflt, true
		}
		v, ok := ex.intLit(e, nil)
		if !ok {
			if id, isId := e.(*ast.Ident); isId {
				if v, ok = ex.constIn(nu.Body, id.Name, nil); !ok {
					v, ok = ex.pkgConst(urel, id.Name, nil)
				}
			}
		}
		if ok && v <= 0 {
			return dflt, true // setDefaultGZ
		}
		return v, ok
	}
	var pairs []string
	good := true
	ast.Inspect(nu.Body, func(x ast.Node) bool {
		e, isExpr := x.(ast.Expr)
		if !isExpr {
			return true
		}
		po := isLit(e, "transport.PipelineOpts")
		if po == nil {
			return true
		}
		dialE, has := field(po, "DialContext")
		if !has {
			good = false
			return true
		}
		if id, ok := dialE.(*ast.Ident); ok {
			dialE = resolve(id.Name, po.Pos())
		}
		fl, ok := dialE.(*ast.FuncLit)
		if !ok {
			good = false
			return true
		}
		// what the dial function returns: transport.NewDnsConn(<opts>, ...) calls
		var connOpts []*ast.CompositeLit
		other := false
		ast.Inspect(fl.Body, func(y ast.Node) bool {
			c, ok := y.(*ast.CallExpr)
			if !ok {
				return true
			}
			switch f := ex.str(c.Fun); {
			case f == "transport.NewDnsConn" && len(c.Args) == 2:
				a := c.Args[0]
				if id, ok := a.(*ast.Ident); ok {
					a = resolve(id.Name, c.Pos())
				}
				if a == nil {
					other = true
				} else if cl := isLit(a, "transport.TraditionalDnsConnOpts"); cl != nil {
					connOpts = append(connOpts, cl)
				} else {
					other = true
				}
			case strings.HasPrefix(f, "transport.New") && strings.HasSuffix(f, "DnsConn"):
				other = true // a connection of another kind (quic): its limit is the peer's
			}
			return true
		})
		if len(connOpts) == 0 && other {
			return true
		}
		if len(connOpts) != 1 || other {
			good = false
			return true
		}
		qe, qHas := field(po, "MaxConcurrentQueryWhileDialing")
		ce, cHas := field(connOpts[0], "MaxConcurrentQuery")
		qv, okq := number(qe, qHas, defQ)
		cv, okc := number(ce, cHas, defTdc)
		if !okq || !okc {
			good = false
			return true
		}
		pairs = append(pairs, fmt.Sprintf("(%d, %d)", qv, cv))
		return true
	})
	if !good {
		ex.setRaw("c09UpstreamPipelineLimits", "Option (List (Nat × Nat))", "none", "unknown: "+note)
		return
	}
	ex.setRaw("c09UpstreamPipelineLimits", "Option (List (Nat × Nat))", "some ["+strings.Join(pairs, ", ")+"]", note)
}
