package main

import (
	"go/ast"
	"strings"
)

func init() {
	factFuncs = append(factFuncs, func(ex *factExtractor) {
		const crel = "pkg/cache/cache.go"
		const mrel = "pkg/concurrent_map/map.go"
		const prel = "plugin/executable/cache/cache.go"
		// ---- sizes
		if fd := ex.fn(crel, "Opts", "init"); fd != nil {
			ss := stmtStrings(ex, fd.Body)
			min, ok := int64(0), false
			ast.Inspect(fd.Body, func(n ast.Node) bool {
				if is, isIf := n.(*ast.IfStmt); isIf {
					if be, isB := is.Cond.(*ast.BinaryExpr); isB && ex.str(be.X) == "opts.Size" && be.Op.String() == "<" {
						if v, okv := ex.intLit(be.Y, nil); okv && len(is.Body.List) == 1 && ex.str(is.Body.List[0]) == "opts.Size = "+ex.str(be.Y) {
							min, ok = v, true
						}
					}
				}
				return true
			})
			_ = ss
			ex.setNat("c11MinSize", min, ok, "pkg/cache Opts.init: `if opts.Size < N { opts.Size = N }`")
		}
		if f := ex.file(prel); f != nil {
			n := 0
			ast.Inspect(f, func(x ast.Node) bool {
				if a, ok := x.(*ast.AssignStmt); ok && ex.str(a) == "backend := cache.New[key, *item](cache.Opts{Size: args.Size})" {
					n++
				}
				return true
			})
			ex.setBool("c11PluginSizeGoesThroughClamp", n == 1, true, "cache plugin: the backend is created by cache.New with the configured size (clamped there)")
		}
		if v, ok := ex.pkgConst(mrel, "MapShardSize", nil); ok {
			ex.setNat("c11ShardCount", v, true, "concurrent_map: MapShardSize")
		}
		if fd := ex.fn(mrel, "", "NewMapCache"); fd != nil {
			ss := stmtStrings(ex, fd.Body)
			ex.setBool("c11PerShardIsSizeDivShards", contains(ss, "sizePreShard := size / MapShardSize") && contains(ss, "m.shards[i] = newShard[K, V](sizePreShard)"), true,
				"NewMapCache: every shard's maximum is size / MapShardSize")
		}
		if fd := ex.fn(crel, "", "New"); fd != nil {
			ss := stmtStrings(ex, fd.Body)
			ex.setBool("c11CacheUsesClampedSize", indexOf(ss, "opts.init()") == 0 && strings.Contains(strings.Join(ss, " "), "concurrent_map.NewMapCache[K, *elem[V]](opts.Size)"), true,
				"cache.New clamps the options first and sizes the map with the clamped size")
		}
		if fd := ex.fn(mrel, "Map", "getShard"); fd != nil {
			ex.setBool("c11ShardByHashMod", contains(stmtStrings(ex, fd.Body), "return &m.shards[key.Sum()%MapShardSize]"), true, "getShard: shards[key.Sum() % MapShardSize]")
		}
		// ---- lock discipline: every shard method starts with the right lock and its deferred unlock
		want := map[string][2]string{
			"get": {"m.l.RLock()", "defer m.l.RUnlock()"}, "len": {"m.l.RLock()", "defer m.l.RUnlock()"},
			"set": {"m.l.Lock()", "defer m.l.Unlock()"}, "del": {"m.l.Lock()", "defer m.l.Unlock()"},
			"testAndSet": {"m.l.Lock()", "defer m.l.Unlock()"}, "flush": {"m.l.Lock()", "defer m.l.Unlock()"},
			"rangeDo": {"m.l.Lock()", "defer m.l.Unlock()"},
		}
		okLocks := true
		inMethods := 0
		for name, w := range want {
			fd := ex.fn(mrel, "shard", name)
			if fd == nil || len(fd.Body.List) < 3 || ex.str(fd.Body.List[0]) != w[0] || ex.str(fd.Body.List[1]) != w[1] {
				okLocks = false
				continue
			}
			ast.Inspect(fd.Body, func(n ast.Node) bool {
				if se, ok := n.(*ast.SelectorExpr); ok && ex.str(se) == "m.m" {
					inMethods++
				}
				return true
			})
		}
		total := 0
		if f := ex.file(mrel); f != nil {
			ast.Inspect(f, func(n ast.Node) bool {
				if se, ok := n.(*ast.SelectorExpr); ok && ex.str(se) == "m.m" {
					total++
				}
				return true
			})
		}
		ex.setBool("c11LockDiscipline", okLocks && total == inMethods, true,
			"every shard method that touches the map takes the shard lock first (RLock for get / len, Lock for set / del / testAndSet / flush / rangeDo) with a deferred unlock, and the map is touched nowhere else")
		ex.setNat("c11MapAccessSites", int64(total), true, "concurrent_map: number of `m.m` accesses (all inside the locked methods)")
		if fd := ex.fn(mrel, "shard", "set"); fd != nil {
			ss := stmtStrings(ex, fd.Body)
			ex.setBool("c11SetEvictsBeforeInsert", len(fd.Body.List) == 4 &&
				ex.str(fd.Body.List[2]) == "if m.max > 0 && len(m.m)+1 > m.max { for k := range m.m { delete(m.m, k) if len(m.m)+1 <= m.max { break } } }" &&
				ex.str(fd.Body.List[3]) == "m.m[key] = v" && len(ss) > 0, true,
				"shard.set: with a maximum, entries are deleted until one more fits, then the new entry is inserted")
		}
		if fd := ex.fn(crel, "Cache", "Get"); fd != nil {
			ss := stmtStrings(ex, fd.Body)
			ex.setBool("c11GetHidesExpired", contains(ss, "if e.expirationTime.Before(time.Now()) { c.m.Del(key) return }") && contains(ss, "return e.v, e.expirationTime, true"), true,
				"Cache.Get: an entry that expired before now is deleted and not returned")
		}
		if fd := ex.fn(crel, "Cache", "Store"); fd != nil {
			ss := stmtStrings(ex, fd.Body)
			ex.setBool("c11StoreSkipsExpired", contains(ss, "if now.After(expirationTime) { return }") && contains(ss, "c.m.Set(key, e)"), true,
				"Cache.Store: a value that is already expired is not stored")
		}
		// ---- elems are written only where they are created: Get reads an elem after the shard lock is released
		if f := ex.file(crel); f != nil {
			fields := map[string]bool{}
			ast.Inspect(f, func(n ast.Node) bool {
				if ts, ok := n.(*ast.TypeSpec); ok && ts.Name.Name == "elem" {
					if st, ok := ts.Type.(*ast.StructType); ok {
						for _, fl := range st.Fields.List {
							for _, nm := range fl.Names {
								fields[nm.Name] = true
							}
						}
					}
				}
				return true
			})
			isElemField := func(e ast.Expr) bool {
				for {
					switch x := e.(type) {
					case *ast.ParenExpr:
						e = x.X
						continue
					case *ast.IndexExpr:
						e = x.X
						continue
					case *ast.SelectorExpr:
						return fields[x.Sel.Name]
					}
					return false
				}
			}
			writes, literals, others := 0, 0, 0
			isElemType := func(e ast.Expr) bool { s := ex.str(e); return s == "elem" || strings.HasPrefix(s, "elem[") }
			ast.Inspect(f, func(n ast.Node) bool {
				switch x := n.(type) {
				case *ast.AssignStmt:
					for _, l := range x.Lhs {
						if isElemField(l) {
							writes++
						}
					}
				case *ast.IncDecStmt:
					if isElemField(x.X) {
						writes++
					}
				case *ast.UnaryExpr:
					if x.Op.String() == "&" && isElemField(x.X) {
						writes++ // a pointer to a field: it could be written through
					}
				case *ast.CompositeLit:
					if x.Type != nil && isElemType(x.Type) {
						literals++
					}
				case *ast.CallExpr:
					if id, ok := x.Fun.(*ast.Ident); ok && id.Name == "new" && len(x.Args) == 1 && isElemType(x.Args[0]) {
						others++ // an elem that is not filled where it is created has to be filled later
					}
				}
				return true
			})
			ast.Inspect(f, func(n ast.Node) bool {
				if as, ok := n.(*ast.AssignStmt); ok {
					for _, l := range as.Lhs {
						if _, ok := l.(*ast.StarExpr); ok {
							others++ // `*e = elem{...}` would overwrite a whole elem: no store through a pointer at all in this file
						}
					}
				}
				return true
			})
			ex.setBool("c11ElemsWrittenOnlyAtCreation", len(fields) == 2 && writes == 0 && others == 0 && literals == 1, true,
				"pkg/cache: the fields of an elem are set only in the composite literal that creates it (one site, in Store); no assignment to, or pointer to, an elem field, no `new(elem)`, no store through a pointer anywhere in cache.go")
		}
		if fd := ex.fn(crel, "Cache", "gc"); fd != nil {
			ss := stmtStrings(ex, fd.Body)
			ex.setBool("c11GcRemovesExpired", contains(ss, "return nil, false, now.After(v.expirationTime), nil") && contains(ss, "_ = c.m.RangeDo(f)"), true,
				"Cache.gc deletes exactly the entries that expired before now")
		}
	})
}
