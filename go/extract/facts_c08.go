package main

import (
	"go/ast"
	"go/token"
	"strings"
)

func init() {
	factFuncs = append(factFuncs, func(ex *factExtractor) {
		const rrel = "pkg/upstream/transport/reuse.go"
		const prel = "pkg/upstream/transport/pipeline.go"
		retryCond := func(fd *ast.FuncDecl) (cond string, op token.Token, okOp bool, max int64, okMax bool) {
			if fd == nil {
				return
			}
			max, okMax = ex.constIn(fd.Body, "maxRetry", nil)
			op, okOp = ex.findCmp(fd.Body, "retry", "maxRetry")
			ast.Inspect(fd.Body, func(n ast.Node) bool {
				if is, ok := n.(*ast.IfStmt); ok && strings.Contains(ex.str(is.Cond), "maxRetry") {
					cond = ex.str(is.Cond)
					body := ""
					for _, s := range is.Body.List {
						body += ex.str(s) + ";"
					}
					if body != "retry++;continue;" {
						cond = "?" + cond
					}
				}
				return true
			})
			return
		}
		re := ex.fn(rrel, "ReuseConnTransport", "ExchangeContext")
		cond, op, okOp, max, okMax := retryCond(re)
		ex.setCmp("c08ReuseCmp", op, okOp, "ReuseConnTransport.ExchangeContext: `retry <op> maxRetry`")
		ex.setNat("c08ReuseMaxRetry", max, okMax, "ReuseConnTransport.ExchangeContext: const maxRetry")
		ex.setBool("c08ReuseRetryOnlyIfReused", cond == "!isNewConn && retry <= maxRetry" || cond == "!isNewConn && retry < maxRetry", re != nil,
			"ReuseConnTransport.ExchangeContext retries (`retry++; continue`) iff `!isNewConn && retry <op> maxRetry`")
		okFlag := false
		if re != nil {
			ss := stmtStrings(ex, re.Body)
			okFlag = contains(ss, "var isNewConn bool") && contains(ss, "c, err := t.getIdleConn()") &&
				contains(ss, "if c == nil { isNewConn = true c, err = t.getNewConn(ctx) if err != nil { return nil, err } }") &&
				contains(ss, "resp, err := c.exchange(ctx, queryPayload)") && contains(ss, "retry := 0")
			n := 0
			for _, s := range ss {
				if s == "isNewConn = true" {
					n++
				}
			}
			okFlag = okFlag && n == 1
		}
		ex.setBool("c08ReuseNewConnFlag", okFlag, re != nil, "ReuseConnTransport.ExchangeContext: isNewConn is set exactly when no idle connection was available and one was dialed")
		pe := ex.fn(prel, "PipelineTransport", "ExchangeContext")
		cond, op, okOp, max, okMax = retryCond(pe)
		ex.setCmp("c08PipelineCmp", op, okOp, "PipelineTransport.ExchangeContext: `retry <op> maxRetry`")
		ex.setNat("c08PipelineMaxRetry", max, okMax, "PipelineTransport.ExchangeContext: const maxRetry")
		ex.setBool("c08PipelineRetryOnlyIfReusedAndCtxAlive", cond == "!isNewConn && retry < maxRetry && ctx.Err() == nil" || cond == "!isNewConn && retry <= maxRetry && ctx.Err() == nil", pe != nil,
			"PipelineTransport.ExchangeContext retries iff `!isNewConn && retry <op> maxRetry && ctx.Err() == nil`")
		gr := ex.fn(prel, "PipelineTransport", "getReservedExchanger")
		okP := false
		okPool := false
		if gr != nil && pe != nil {
			ss := stmtStrings(ex, gr.Body)
			okP = contains(ss, "isNewConn = true") && contains(ss, "rxc, closed = c.ReserveNewQuery()") &&
				contains(stmtStrings(ex, pe.Body), "dc, isNewConn, err := t.getReservedExchanger()") &&
				contains(stmtStrings(ex, pe.Body), "r, err := dc.ExchangeReserved(ctx, m)")
			n := 0
			for _, s := range ss {
				if s == "isNewConn = true" {
					n++
				}
			}
			okP = okP && n == 1
			okPool = contains(ss, "if closed { delete(t.conns, c) }")
		}
		ex.setBool("c08PipelineNewConnFlag", okP, gr != nil, "getReservedExchanger: isNewConn only for the connection it has just created")
		cw := ex.fn(rrel, "reusableConn", "closeWithErr")
		okPool = okPool && cw != nil && contains(stmtStrings(ex, cw.Body), "delete(c.t.conns, c)") && contains(stmtStrings(ex, cw.Body), "delete(c.t.idleConns, c)")
		ex.setBool("c08DeadConnsLeavePool", okPool, true, "closed pipeline connections are dropped in getReservedExchanger; a failing reusable connection removes itself from conns and idleConns")
		// ---- what getNewConn hands to the branch that sets isNewConn: the connection it has dialed, nothing else
		{
			gn := ex.fn(rrel, "ReuseConnTransport", "getNewConn")
			okDialed := false
			if gn != nil {
				ss := stmtStrings(ex, gn.Body)
				cnt := func(x string) (n int) {
					for _, s := range ss {
						if s == x {
							n++
						}
					}
					return
				}
				var armBody []string
				arms, sends, rets := 0, 0, 0
				ast.Inspect(gn.Body, func(n ast.Node) bool {
					switch v := n.(type) {
					case *ast.CommClause:
						if v.Comm != nil && ex.str(v.Comm) == "res := <-dialChan" {
							arms++
							for _, st := range v.Body {
								armBody = append(armBody, ex.str(st))
							}
						}
					case *ast.SendStmt:
						if ex.str(v.Chan) == "dialChan" {
							sends++
						}
					case *ast.ReturnStmt:
						if len(v.Results) == 2 && ex.str(v.Results[0]) != "nil" {
							rets++ // a return that hands out a connection
						}
					}
					return true
				})
				body := ex.str(gn.Body)
				okDialed = arms == 1 && len(armBody) == 1 && armBody[0] == "return res.c, res.err" && rets == 1 &&
					sends == 1 && cnt("c, err := t.dialFunc(dialCtx)") == 1 && cnt("rc = t.newReusableConn(c)") == 1 &&
					strings.Contains(body, "dialChan <- dialRes{c: rc, err: err}") &&
					!strings.Contains(body, "getIdleConn") && !strings.Contains(body, "idleConns")
			}
			ex.setBool("c08ReuseNewConnIsTheDialedOne", okDialed, gn != nil,
				"ReuseConnTransport.getNewConn: the only connection it returns is the one its own dial produced (`return res.c, res.err` of the single value sent on dialChan, built from t.dialFunc); it never looks into the idle pool")
		}
		// ---- the hand-over of the queries queued on a dialing pipeline connection to the dialed one: the order of the
		// statements of the `case <-...dialFinished:` arms, read as data (top-level statements of the arm, printed)
		const lrel = "pkg/upstream/transport/conn_lazy_dial.go"
		arm := func(fd *ast.FuncDecl, comm string) (top []string, all []string, found bool) {
			if fd == nil {
				return
			}
			ast.Inspect(fd.Body, func(n ast.Node) bool {
				if cc, ok := n.(*ast.CommClause); ok && cc.Comm != nil && ex.str(cc.Comm) == comm && !found {
					found = true
					for _, st := range cc.Body {
						top = append(top, ex.str(st))
						all = append(all, stmtStrings(ex, st)...)
					}
				}
				return true
			})
			return
		}
		count := func(xs []string, s string) (n int) {
			for _, x := range xs {
				if x == s {
					n++
				}
			}
			return
		}
		{
			top, all, found := arm(ex.fn(lrel, "lazyDnsConnEarlyReservedExchanger", "ExchangeReserved"), "<-ote.dialFinished")
			iRes, iDone := indexOf(top, "rec, _ := dc.ReserveNewQuery()"), indexOf(top, "ote.earlyReserveCallWg.Done()")
			shape := found && iRes >= 0 && iDone >= 0 && count(all, "rec, _ := dc.ReserveNewQuery()") == 1 && count(all, "ote.earlyReserveCallWg.Done()") == 1
			ex.setBool("c08LazyEarlyReservesBeforeDone", iRes < iDone, shape,
				"early ExchangeReserved, dial-finished arm: the queued query takes its slot on the dialed connection (dc.ReserveNewQuery) before it leaves the wait group (earlyReserveCallWg.Done); each exactly once")
			top, all, found = arm(ex.fn(lrel, "lazyDnsConn", "ReserveNewQuery"), "<-lc.dialFinished")
			iWait, iRet := indexOf(top, "lc.earlyReserveCallWg.Wait()"), indexOf(top, "return dc.ReserveNewQuery()")
			shape = found && iRet >= 0 && count(all, "return dc.ReserveNewQuery()") == 1
			ex.setBool("c08LazyLateWaitsForEarly", iWait >= 0 && iWait < iRet, shape,
				"lazyDnsConn.ReserveNewQuery, dial-finished arm: a caller that arrives after the dial waits for the wait group of the queued queries before it reserves on the dialed connection")
		}
	})
}
