package main

import (
	"go/ast"
	"go/token"
	"strings"
)

func init() {
	factFuncs = append(factFuncs, func(ex *factExtractor) {
		const rrel = "pkg/upstream/transport/reuse.go"
		const prel = "pkg/upstream/transport/pipeline.go"
		retryCond := func(fd *ast.FuncDecl) (cond string, op token.Token, okOp bool, max int64, okMax bool) {
			if fd == nil {
				return
			}
			max, okMax = ex.constIn(fd.Body, "maxRetry", nil)
			op, okOp = ex.findCmp(fd.Body, "retry", "maxRetry")
			ast.Inspect(fd.Body, func(n ast.Node) bool {
				if is, ok := n.(*ast.IfStmt); ok && strings.Contains(ex.str(is.Cond), "maxRetry") {
					cond = ex.str(is.Cond)
					body := ""
					for _, s := range is.Body.List {
						body += ex.str(s) + ";"
					}
					if body != "retry++;continue;" {
						cond = "?" + cond
					}
				}
				return true
			})
			return
		}
		re := ex.fn(rrel, "ReuseConnTransport", "ExchangeContext")
		cond, op, okOp, max, okMax := retryCond(re)
		ex.setCmp("c08ReuseCmp", op, okOp, "ReuseConnTransport.ExchangeContext: `retry <op> maxRetry`")
		ex.setNat("c08ReuseMaxRetry", max, okMax, "ReuseConnTransport.ExchangeContext: const maxRetry")
		ex.setBool("c08ReuseRetryOnlyIfReused", cond == "!isNewConn && retry <= maxRetry" || cond == "!isNewConn && retry < maxRetry", re != nil,
			"ReuseConnTransport.ExchangeContext retries (`retry++; continue`) iff `!isNewConn && retry <op> maxRetry`")
		okFlag := false
		if re != nil {
			ss := stmtStrings(ex, re.Body)
			okFlag = contains(ss, "var isNewConn bool") && contains(ss, "c, err := t.getIdleConn()") &&
				contains(ss, "if c == nil { isNewConn = true c, err = t.getNewConn(ctx) if err != nil { return nil, err } }") &&
				contains(ss, "resp, err := c.exchange(ctx, queryPayload)") && contains(ss, "retry := 0")
			n := 0
			for _, s := range ss {
				if s == "isNewConn = true" {
					n++
				}
			}
			okFlag = okFlag && n == 1
		}
		ex.setBool("c08ReuseNewConnFlag", okFlag, re != nil, "ReuseConnTransport.ExchangeContext: isNewConn is set exactly when no idle connection was available and one was dialed")
		pe := ex.fn(prel, "PipelineTransport", "ExchangeContext")
		cond, op, okOp, max, okMax = retryCond(pe)
		ex.setCmp("c08PipelineCmp", op, okOp, "PipelineTransport.ExchangeContext: `retry <op> maxRetry`")
		ex.setNat("c08PipelineMaxRetry", max, okMax, "PipelineTransport.ExchangeContext: const maxRetry")
		ex.setBool("c08PipelineRetryOnlyIfReusedAndCtxAlive", cond == "!isNewConn && retry < maxRetry && ctx.Err() == nil" || cond == "!isNewConn && retry <= maxRetry && ctx.Err() == nil", pe != nil,
			"PipelineTransport.ExchangeContext retries iff `!isNewConn && retry <op> maxRetry && ctx.Err() == nil`")
		gr := ex.fn(prel, "PipelineTransport", "getReservedExchanger")
		okP := false
		okPool := false
		if gr != nil && pe != nil {
			ss := stmtStrings(ex, gr.Body)
			okP = contains(ss, "isNewConn = true") && contains(ss, "rxc, closed = c.ReserveNewQuery()") &&
				contains(stmtStrings(ex, pe.Body), "dc, isNewConn, err := t.getReservedExchanger()") &&
				contains(stmtStrings(ex, pe.Body), "r, err := dc.ExchangeReserved(ctx, m)")
			n := 0
			for _, s := range ss {
				if s == "isNewConn = true" {
					n++
				}
			}
			okP = okP && n == 1
			okPool = contains(ss, "if closed { delete(t.conns, c) }")
		}
		ex.setBool("c08PipelineNewConnFlag", okP, gr != nil, "getReservedExchanger: isNewConn only for the connection it has just created")
		cw := ex.fn(rrel, "reusableConn", "closeWithErr")
		okPool = okPool && cw != nil && contains(stmtStrings(ex, cw.Body), "delete(c.t.conns, c)") && contains(stmtStrings(ex, cw.Body), "delete(c.t.idleConns, c)")
		ex.setBool("c08DeadConnsLeavePool", okPool, true, "closed pipeline connections are dropped in getReservedExchanger; a failing reusable connection removes itself from conns and idleConns")
	})
}
