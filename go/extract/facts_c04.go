package main

import "strings"

func init() {
	factFuncs = append(factFuncs, func(ex *factExtractor) {
		const crel = "plugin/executable/cache/cache.go"
		if fd := ex.fn(crel, "Cache", "readDump"); fd != nil {
			qs := strings.Join(stmtStrings(ex, fd.Body), " ")
			ex.setBool("c04DumpLoadKeepsKey", strings.Count(qs, "c.backend.Store(") >= 1 && strings.Contains(qs, "c.backend.Store(key(entry.GetKey()), i, cacheExpTime)") &&
				strings.Count(qs, "c.backend.Store(key(entry.GetKey()), i, cacheExpTime)")*2 >= strings.Count(qs, "c.backend.Store("), true,
				"readDump stores every loaded entry under the key it was dumped with")
		}
		if fd := ex.fn(crel, "Cache", "writeDump"); fd != nil {
			qs := strings.Join(stmtStrings(ex, fd.Body), " ")
			ex.setBool("c04DumpWritesKey", strings.Contains(qs, "Key: []byte(k),"), true,
				"writeDump records the entry's own key")
		}
	})
}
