package main

import (
	"go/ast"
	"strings"
)

func init() {
	factFuncs = append(factFuncs, func(ex *factExtractor) {
		const crel = "plugin/executable/cache/cache.go"
		if fd := ex.fn(crel, "Cache", "readDump"); fd != nil {
			qs := strings.Join(stmtStrings(ex, fd.Body), " ")
			ex.setBool("c04DumpLoadKeepsKey", strings.Count(qs, "c.backend.Store(") >= 1 && strings.Contains(qs, "c.backend.Store(key(entry.GetKey()), i, cacheExpTime)") &&
				strings.Count(qs, "c.backend.Store(key(entry.GetKey()), i, cacheExpTime)")*2 >= strings.Count(qs, "c.backend.Store("), true,
				"readDump stores every loaded entry under the key it was dumped with")
		}
		if fd := ex.fn(crel, "Cache", "writeDump"); fd != nil {
			qs := strings.Join(stmtStrings(ex, fd.Body), " ")
			ex.setBool("c04DumpWritesKey", strings.Contains(qs, "Key: []byte(k),"), true,
				"writeDump records the entry's own key")
		}

		// Cache.Exec: the key is that of the question this Exec is handed, computed here and now, and it is the one
		// key every lookup and store of this Exec (and of the lazy update it starts) goes through.
		const urel = "plugin/executable/cache/utils.go"
		exec := ex.fn(crel, "Cache", "Exec")
		lazy := ex.fn(crel, "Cache", "doLazyUpdate")
		get := ex.fn(urel, "", "getRespFromCache")
		save := ex.fn(urel, "", "saveRespToCache")
		if exec != nil {
			var top []string
			for _, st := range exec.Body.List {
				top = append(top, ex.str(st))
			}
			i := indexOf(top, "q := qCtx.Q()")
			ex.setBool("c04ExecKeyOfCurrentQuery", i >= 0 && i+1 < len(top) && top[i+1] == "msgKey := getMsgKey(q)" &&
				c04Assignments(ex, exec, "msgKey") == 1 && c04Assignments(ex, exec, "q") == 1, true,
				"Cache.Exec: `q := qCtx.Q()` directly followed by `msgKey := getMsgKey(q)`, neither assigned again")
		}
		if exec != nil {
			// what is stored once the rest of the sequence has returned: only a response that was not in the context
			// when the rest started (`rBefore`, read after this cache's own lookup and directly in front of ExecNext)
			var top []string
			for _, st := range exec.Body.List {
				top = append(top, ex.str(st))
			}
			i := indexOf(top, "rBefore := qCtx.R()")
			ex.setBool("c04ExecStoresOnlyNewResponse", i >= 0 && i+2 < len(top) && top[i+1] == "err := next.ExecNext(ctx, qCtx)" &&
				strings.HasPrefix(top[i+2], "if r := qCtx.R(); r != nil && rBefore != r {") &&
				c04Assignments(ex, exec, "rBefore") == 1 && strings.Count(strings.Join(top, " "), "saveRespToCache(") == 1 &&
				strings.Contains(top[i+2], "saveRespToCache(msgKey, r, "), true,
				"Cache.Exec: `rBefore := qCtx.R()` directly in front of `next.ExecNext`, and the only store is behind `r != nil && rBefore != r`")
		}
		if lazy != nil {
			// the background refresh of a lazy cache: the same rule as in Exec, on the copy of the context
			var lit *ast.FuncLit
			ast.Inspect(lazy.Body, func(x ast.Node) bool {
				if f, ok := x.(*ast.FuncLit); ok && lit == nil {
					lit = f
				}
				return lit == nil
			})
			ok := false
			if lit != nil {
				var top []string
				for _, st := range lit.Body.List {
					top = append(top, ex.str(st))
				}
				i := indexOf(top, "rBefore := qCtx.R()")
				j := indexOf(top, "r := qCtx.R()")
				ok = i >= 0 && i+1 < len(top) && top[i+1] == "err := next.ExecNext(ctx, qCtx)" && j > i+1 && j+1 < len(top) &&
					strings.HasPrefix(top[j+1], "if r != nil && rBefore != r {") && strings.Contains(top[j+1], "saveRespToCache(msgKey, r, ") &&
					strings.Count(strings.Join(top, " "), "next.ExecNext(") == 1
			}
			ex.setBool("c04LazyStoresOnlyNewResponse", ok && c04Assignments(ex, lazy, "rBefore") == 1 && c04Assignments(ex, lazy, "r") == 1 &&
				strings.Count(ex.str(lazy.Body), "saveRespToCache(") == 1, true,
				"Cache.doLazyUpdate: the refresh reads `rBefore := qCtx.R()` of the copy directly in front of `next.ExecNext`, and its only store is behind `r != nil && rBefore != r`")
		}
		if exec != nil && lazy != nil && get != nil && save != nil {
			// every call that reaches the backend takes the key as its first argument
			firstArgs := func(fd *ast.FuncDecl) (n int, ok bool) {
				ok = true
				ast.Inspect(fd.Body, func(x ast.Node) bool {
					c, isCall := x.(*ast.CallExpr)
					if !isCall {
						return true
					}
					switch f := ex.str(c.Fun); {
					case f == "getRespFromCache" || f == "saveRespToCache" || f == "c.doLazyUpdate":
						n++
						if len(c.Args) == 0 || ex.str(c.Args[0]) != "msgKey" {
							ok = false
						}
					case strings.HasPrefix(f, "c.backend.") || strings.HasPrefix(f, "backend."):
						n++
						if f == "backend.Get" || f == "backend.Store" {
							if len(c.Args) == 0 || ex.str(c.Args[0]) != "key(msgKey)" {
								ok = false
							}
						} else {
							ok = false // any other direct access to the store from these functions is not a recognised shape
						}
					}
					return true
				})
				return n, ok
			}
			firstParamIsKey := func(fd *ast.FuncDecl) bool {
				ps := fd.Type.Params.List
				return len(ps) > 0 && len(ps[0].Names) == 1 && ps[0].Names[0].Name == "msgKey" && ex.str(ps[0].Type) == "string"
			}
			nE, okE := firstArgs(exec)
			nL, okL := firstArgs(lazy)
			nG, okG := firstArgs(get)
			nS, okS := firstArgs(save)
			ex.setBool("c04ExecSingleKey", okE && okL && okG && okS && nE == 3 && nL == 1 && nG == 1 && nS == 1 &&
				firstParamIsKey(lazy) && firstParamIsKey(get) && firstParamIsKey(save) &&
				c04Assignments(ex, lazy, "msgKey") == 0 && c04Assignments(ex, get, "msgKey") == 0 && c04Assignments(ex, save, "msgKey") == 0, true,
				"Exec, doLazyUpdate, getRespFromCache, saveRespToCache: the lookup, the store and the lazy update all use the one msgKey of Exec")
		}
	})
}

// c04Assignments counts the statements of fd that assign to (or declare) the variable name.
func c04Assignments(ex *factExtractor, fd *ast.FuncDecl, name string) int {
	n := 0
	ast.Inspect(fd.Body, func(x ast.Node) bool {
		switch s := x.(type) {
		case *ast.AssignStmt:
			for _, l := range s.Lhs {
				if id, ok := l.(*ast.Ident); ok && id.Name == name {
					n++
				}
			}
		case *ast.ValueSpec:
			for _, id := range s.Names {
				if id.Name == name {
					n++
				}
			}
		case *ast.IncDecStmt:
			if id, ok := s.X.(*ast.Ident); ok && id.Name == name {
				n++
			}
		case *ast.RangeStmt:
			for _, e := range []ast.Expr{s.Key, s.Value} {
				if id, ok := e.(*ast.Ident); ok && id.Name == name {
					n++
				}
			}
		}
		return true
	})
	return n
}
