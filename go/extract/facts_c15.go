package main

import (
	"go/ast"
	"go/token"
	"os"
	"path/filepath"
	"sort"
	"strings"
)

func init() {
	factFuncs = append(factFuncs, func(ex *factExtractor) {
		const crel = "pkg/query_context/context.go"
		nc := ex.fn(crel, "", "NewContext")
		sw := ex.fn(crel, "", "addNewAndSwapOldOpt")
		okSwap := nc != nil && sw != nil && strings.Contains(ex.str(nc.Body), "clientOpt: addNewAndSwapOldOpt(q)") &&
			ex.str(sw.Body) == "{ for i := len(m.Extra) - 1; i >= 0; i-- { if oldOpt, ok := m.Extra[i].(*dns.OPT); ok { m.Extra[i] = newOpt() return oldOpt } } m.Extra = append(m.Extra, newOpt()) return nil }"
		ex.setBool("c15NewContextSwapsOpt", okSwap, nc != nil && sw != nil, "NewContext: clientOpt = addNewAndSwapOldOpt(q): last OPT replaced by newOpt(), or newOpt() appended")
		sr := ex.fn(crel, "Context", "SetResponse")
		po := ex.fn(crel, "", "popOpt")
		okPop := sr != nil && po != nil &&
			ex.str(sr.Body) == "{ ctx.resp = m if m == nil { ctx.upstreamOpt = nil } else { ctx.upstreamOpt = popOpt(m) } }" &&
			ex.str(po.Body) == "{ for i := len(m.Extra) - 1; i >= 0; i-- { if opt, ok := m.Extra[i].(*dns.OPT); ok { m.Extra = append(m.Extra[:i], m.Extra[i+1:]...) return opt } } return nil }"
		ex.setBool("c15SetResponsePopsOpt", okPop, sr != nil && po != nil, "SetResponse: upstreamOpt = popOpt(m), which removes the last OPT from m.Extra")
		okDo := false
		if nc != nil {
			ss := stmtStrings(ex, nc.Body)
			okDo = contains(ss, "if ctx.clientOpt != nil { ctx.respOpt = newOpt() if ctx.clientOpt.Do() { setDo(ctx.respOpt, true) } }")
		}
		sd := ex.fn(crel, "", "setDo")
		okDo = okDo && sd != nil && strings.Contains(ex.str(sd.Body), "const doBit = 1 << 15") && strings.Contains(ex.str(sd.Body), "if do { opt.Hdr.Ttl |= doBit }")
		ex.setBool("c15RespOptMirrorsDo", okDo, nc != nil, "NewContext: respOpt exists iff clientOpt does; DO copied")
		// NewContext creates the response OPT under `ctx.clientOpt != nil` and nothing else: whatever the client's OPT
		// says about itself (VERSION, extended-rcode byte, Z bits, size, options), it is an OPT. Counted: conjuncts of the
		// condition of the top-level `if` whose body assigns ctx.respOpt other than `ctx.clientOpt != nil`, returns in front
		// of that `if` (+1000 when there is not exactly one assignment to ctx.respOpt in NewContext, the `if` is not a
		// top-level statement without init, `ctx.clientOpt != nil` is not among the conjuncts, or the Context literal sets
		// respOpt).
		if nc != nil {
			extra, nAssign, nIf := int64(0), 0, 0
			ast.Inspect(nc.Body, func(n ast.Node) bool {
				if a, ok := n.(*ast.AssignStmt); ok {
					for _, l := range a.Lhs {
						if ex.str(l) == "ctx.respOpt" {
							nAssign++
						}
					}
				}
				if kv, ok := n.(*ast.KeyValueExpr); ok && ex.str(kv.Key) == "respOpt" {
					extra += 1000
				}
				return true
			})
			for _, st := range nc.Body.List {
				s, ok := st.(*ast.IfStmt)
				if !ok {
					continue
				}
				assigns := false
				for _, b := range s.Body.List {
					if a, ok := b.(*ast.AssignStmt); ok {
						for _, l := range a.Lhs {
							assigns = assigns || ex.str(l) == "ctx.respOpt"
						}
					}
				}
				if !assigns {
					continue
				}
				nIf++
				var conj []ast.Expr
				var split func(e ast.Expr)
				split = func(e ast.Expr) {
					switch v := e.(type) {
					case *ast.ParenExpr:
						split(v.X)
					case *ast.BinaryExpr:
						if v.Op == token.LAND {
							split(v.X)
							split(v.Y)
							return
						}
						conj = append(conj, e)
					default:
						conj = append(conj, e)
					}
				}
				split(s.Cond)
				seen := false
				for _, c := range conj {
					if ex.str(c) == "ctx.clientOpt != nil" {
						seen = true
					} else {
						extra++
					}
				}
				if !seen || s.Init != nil {
					extra += 1000
				}
				ast.Inspect(nc.Body, func(n ast.Node) bool {
					if r, ok := n.(*ast.ReturnStmt); ok && r.Pos() < s.Pos() {
						extra++
					}
					return true
				})
			}
			if nAssign != 1 || nIf != 1 {
				extra += 1000
			}
			ex.setNat("c15RespOptExtraConds", extra, true, "NewContext: conditions besides `ctx.clientOpt != nil` under which the response OPT is created (further conjuncts of that `if`, returns in front of it); 0 = a client that sent an OPT - of any VERSION, extended-rcode byte, Z bits - gets a response OPT")
		} else {
			ex.setNat("c15RespOptExtraConds", 0, false, "NewContext not found")
		}
		no := ex.fn(crel, "", "newOpt")
		sz, okSz := ex.pkgConst(crel, "edns0Size", nil)
		ex.setBool("c15FreshOptShape", no != nil && okSz && sz == 1200 &&
			ex.str(no.Body) == `{ opt := new(dns.OPT) opt.Hdr.Name = "." opt.Hdr.Rrtype = dns.TypeOPT opt.SetUDPSize(edns0Size) return opt }`, no != nil, "newOpt: empty OPT, UDP size 1200")
		cn := ex.fn("plugin/executable/cache/utils.go", "", "copyNoOpt")
		okCn := false
		if cn != nil {
			ss := stmtStrings(ex, cn.Body)
			n := 0
			for _, s := range ss {
				if s == "if r.Header().Rrtype == dns.TypeOPT { continue }" {
					n++
				}
			}
			okCn = n == 1 && contains(ss, "if r.Header().Rrtype == dns.TypeOPT { lenExtra-- }") && contains(ss, "m2.Extra = append(m2.Extra, dns.Copy(r))")
		}
		ex.setBool("c15CopyNoOptDropsOpt", okCn, cn != nil, "copyNoOpt skips every OPT in Extra")
		// copyNoOpt always hands back a message of its own: the only results are nil and the local m2, m2 is new(dns.Msg)
		// and is never re-pointed. Counted: return statements with any other result + other assignments to m2 (+1000
		// when m2 := new(dns.Msg) is missing). 0 = no path returns the argument (or anything reachable before the call).
		if cn != nil {
			alias, defs := int64(0), 0
			ast.Inspect(cn.Body, func(n ast.Node) bool {
				switch s := n.(type) {
				case *ast.FuncLit:
					alias += 500 // a closure: not analysed
				case *ast.ReturnStmt:
					if len(s.Results) != 1 {
						alias++
					} else if r := ex.str(s.Results[0]); r != "nil" && r != "m2" {
						alias++
					}
				case *ast.AssignStmt:
					for _, l := range s.Lhs {
						if id, ok := l.(*ast.Ident); ok && id.Name == "m2" {
							if s.Tok == token.DEFINE && len(s.Lhs) == 1 && len(s.Rhs) == 1 && ex.str(s.Rhs[0]) == "new(dns.Msg)" {
								defs++
							} else {
								alias++
							}
						}
					}
				case *ast.UnaryExpr:
					if s.Op == token.AND && ex.str(s.X) == "m2" {
						alias++
					}
				case *ast.StarExpr:
					if ex.str(s.X) == "m2" {
						alias++ // *m2 = *m would share the slices
					}
				}
				return true
			})
			if defs != 1 {
				alias += 1000
			}
			ex.setNat("c15CopyNoOptAliasPaths", alias, true, "copyNoOpt: ways to hand back something other than nil or its own new(dns.Msg) (results other than nil / m2, re-pointing of m2); 0 = the stored message is never the live response")
		} else {
			ex.setNat("c15CopyNoOptAliasPaths", 0, false, "copyNoOpt not found")
		}
		// who touches RespOpt()/QOpt(): only ecs_handler, forward_edns0opt and the entry handler
		var users []string
		filepath.Walk(ex.repo, func(p string, info os.FileInfo, err error) error {
			if err != nil || info.IsDir() || !strings.HasSuffix(p, ".go") || strings.HasSuffix(p, "_test.go") {
				return nil
			}
			rel, _ := filepath.Rel(ex.repo, p)
			if strings.HasPrefix(rel, "pkg/query_context/") {
				return nil
			}
			b, _ := os.ReadFile(p)
			if strings.Contains(string(b), ".RespOpt()") || strings.Contains(string(b), ".QOpt()") {
				users = append(users, rel)
			}
			return nil
		})
		sort.Strings(users)
		okUsers := strings.Join(users, ",") == "pkg/server_handler/entry_handler.go,plugin/executable/ecs_handler/handler.go,plugin/executable/forward_edns0opt/forwarder.go"
		eh := ex.fn("plugin/executable/ecs_handler/handler.go", "ECSHandler", "Exec")
		okEcs := eh != nil && contains(stmtStrings(ex, eh.Body), "if o.Option() == dns.EDNS0SUBNET { respOpt.Option = append(respOpt.Option, o) break }")
		ex.setBool("c15OnlyEcsForwardsBack", okUsers && okEcs, true, "only entry_handler, ecs_handler and forward_edns0opt use RespOpt()/QOpt(); ecs_handler copies back the client-subnet option only")
		// ecs_handler: Exec copies the upstream's client-subnet option back only `if forwarded`, and addECS reports
		// `forwarded` only on the path that appended the CLIENT's own option to the query. Counted: results of addECS
		// other than `false` outside that recognised path, assignments to the named result, bare returns (+1000 when the
		// recognised path or Exec's `forwarded := e.addECS(qCtx)` ... `if forwarded {` is missing). 0 = the upstream's
		// client-subnet option goes back only to a client whose own option was forwarded.
		ae := ex.fn("plugin/executable/ecs_handler/handler.go", "ECSHandler", "addECS")
		if ae != nil && eh != nil {
			const ownPath = "if e.args.Forward { clientOpt := qCtx.ClientOpt() if clientOpt != nil { for _, o := range clientOpt.Option { if o.Option() == dns.EDNS0SUBNET { queryOpt.Option = append(queryOpt.Option, o) return true } } } }"
			var own ast.Node
			ast.Inspect(ae.Body, func(n ast.Node) bool {
				if s, ok := n.(*ast.IfStmt); ok && own == nil && ex.str(s) == ownPath {
					own = s
				}
				return true
			})
			loose := int64(0)
			if own == nil {
				loose += 1000
			}
			ast.Inspect(ae.Body, func(n ast.Node) bool {
				switch s := n.(type) {
				case *ast.FuncLit:
					loose += 500
				case *ast.ReturnStmt:
					inOwn := own != nil && s.Pos() >= own.Pos() && s.End() <= own.End()
					if len(s.Results) != 1 {
						loose++
					} else if r := ex.str(s.Results[0]); r != "false" && !(r == "true" && inOwn) {
						loose++
					}
				case *ast.AssignStmt:
					for _, l := range s.Lhs {
						if id, ok := l.(*ast.Ident); ok && id.Name == "forwarded" {
							loose++
						}
					}
				}
				return true
			})
			nDef, nUse := 0, 0
			ast.Inspect(eh.Body, func(n ast.Node) bool {
				switch s := n.(type) {
				case *ast.AssignStmt:
					for _, l := range s.Lhs {
						if id, ok := l.(*ast.Ident); ok && id.Name == "forwarded" {
							if ex.str(s) == "forwarded := e.addECS(qCtx)" {
								nDef++
							} else {
								loose++
							}
						}
					}
				case *ast.IfStmt:
					if strings.Contains(ex.str(s.Body), "respOpt.Option = append(respOpt.Option") {
						if ex.str(s.Cond) == "forwarded" {
							nUse++
						}
					}
				}
				return true
			})
			if nDef != 1 || nUse != 1 || strings.Count(ex.str(eh.Body), "respOpt.Option = append(respOpt.Option") != 1 {
				loose += 1000
			}
			ex.setNat("c15EcsForwardedLoosePaths", loose, true, "ecs_handler: ways for the upstream's client-subnet option to be copied back without the client's own option having been forwarded (results of addECS other than false outside the `append(queryOpt.Option, o) return true` path over clientOpt.Option, writes to `forwarded`, a copy-back not under `if forwarded`); 0 = none")
		} else {
			ex.setNat("c15EcsForwardedLoosePaths", 0, false, "ecs_handler addECS / Exec not found")
		}
		// Context.CopyTo gives the copy a response OPT of its own (plugins write to RespOpt(); fallback, dual_selector and
		// the lazy cache run sub-queries on copies and throw some of them away)
		ct := ex.fn(crel, "Context", "CopyTo")
		cp := ex.fn(crel, "Context", "Copy")
		if ct != nil && cp != nil {
			nAssign, deep := 0, false
			ast.Inspect(ct.Body, func(n ast.Node) bool {
				if s, ok := n.(*ast.AssignStmt); ok {
					for _, l := range s.Lhs {
						if ex.str(l) == "d.respOpt" {
							nAssign++
						}
					}
				}
				if s, ok := n.(*ast.IfStmt); ok && ex.str(s) == "if ctx.respOpt != nil { d.respOpt = dns.Copy(ctx.respOpt).(*dns.OPT) }" {
					deep = true
				}
				return true
			})
			okCopy := ex.str(cp.Body) == "{ newCtx := new(Context) ctx.CopyTo(newCtx) return newCtx }" && !strings.Contains(ex.str(ct.Body), "*d = *ctx")
			ex.setBool("c15CopyToRespOptDeep", deep && nAssign == 1 && okCopy, true, "Context.CopyTo: the only write to d.respOpt is `d.respOpt = dns.Copy(ctx.respOpt).(*dns.OPT)` (a copy of its own); Copy() is new(Context) + CopyTo")
		} else {
			ex.setBool("c15CopyToRespOptDeep", false, false, "Context.CopyTo / Copy not found")
		}
	})
}
