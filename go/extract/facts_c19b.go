package main

import (
	"go/ast"
	"strings"
)

// C19, second group: what the plugin lets into the cache by rcode (every
// stored message must be packable by writeDump without an OPT record), and
// how much of a posted dump the API hands to readDump.
func init() {
	factFuncs = append(factFuncs, func(ex *factExtractor) {
		// miekg/dns rcode constants (msg header rcodes 0..15 need no OPT; 16.. do)
		rcodes := map[string]int64{"dns.RcodeSuccess": 0, "dns.RcodeFormatError": 1, "dns.RcodeServerFailure": 2, "dns.RcodeNameError": 3,
			"dns.RcodeNotImplemented": 4, "dns.RcodeRefused": 5, "dns.RcodeYXDomain": 6, "dns.RcodeYXRrset": 7, "dns.RcodeNXRrset": 8,
			"dns.RcodeNotAuth": 9, "dns.RcodeNotZone": 10, "dns.RcodeBadSig": 16, "dns.RcodeBadVers": 16, "dns.RcodeBadKey": 17,
			"dns.RcodeBadTime": 18, "dns.RcodeBadMode": 19, "dns.RcodeBadName": 20, "dns.RcodeBadAlg": 21, "dns.RcodeBadTrunc": 22, "dns.RcodeBadCookie": 23}
		sv := ex.fn("plugin/executable/cache/utils.go", "", "saveRespToCache")
		maxRc, okRc := int64(-1), false
		if sv != nil {
			ss := stmtStrings(ex, sv.Body)
			switches := 0
			okRc = true
			ast.Inspect(sv.Body, func(n ast.Node) bool {
				sw, ok := n.(*ast.SwitchStmt)
				if !ok || sw.Tag == nil || ex.str(sw.Tag) != "r.Rcode" {
					return true
				}
				switches++
				for _, c := range sw.Body.List {
					cc := c.(*ast.CaseClause)
					if cc.List == nil { // default arm: every rcode is admitted
						okRc = false
					}
					for _, e := range cc.List {
						v, known := rcodes[ex.str(e)]
						if !known {
							if lv, ok := ex.intLit(e, nil); ok {
								v, known = lv, true
							}
						}
						if !known {
							okRc = false
						}
						if v > maxRc {
							maxRc = v
						}
					}
				}
				return true
			})
			// the ttl variables are only set inside that switch; zero means "not cached"
			assignsOutside := 0
			for _, s := range sv.Body.List {
				if _, isSw := s.(*ast.SwitchStmt); isSw {
					continue
				}
				ast.Inspect(s, func(n ast.Node) bool {
					if as, ok := n.(*ast.AssignStmt); ok {
						for _, l := range as.Lhs {
							if nm := ex.str(l); nm == "msgTtl" || nm == "cacheTtl" {
								assignsOutside++
							}
						}
					}
					return true
				})
			}
			okRc = okRc && switches == 1 && maxRc >= 0 && assignsOutside == 0 &&
				contains(ss, "if msgTtl <= 0 || cacheTtl <= 0 { return false }") &&
				contains(ss, "var msgTtl time.Duration") && contains(ss, "var cacheTtl time.Duration")
		}
		ex.setNat("c19MaxCachedRcode", maxRc, okRc, "saveRespToCache: msgTtl / cacheTtl are set only in the arms of `switch r.Rcode`, there is no default arm, zero ttl = not stored; the value is the largest rcode named by an arm")

		api := ex.fn("plugin/executable/cache/cache.go", "Cache", "Api")
		whole := false
		if api != nil {
			reads, limited := 0, false
			ast.Inspect(api.Body, func(n ast.Node) bool {
				switch x := n.(type) {
				case *ast.CallExpr:
					f := ex.str(x.Fun)
					if f == "c.readDump" {
						reads++
						if len(x.Args) != 1 || ex.str(x.Args[0]) != "req.Body" {
							limited = true
						}
					}
					if strings.Contains(f, "MaxBytesReader") || strings.Contains(f, "LimitReader") || strings.Contains(f, "ContentLength") {
						limited = true
					}
				case *ast.AssignStmt:
					for _, l := range x.Lhs {
						if ex.str(l) == "req.Body" {
							limited = true
						}
					}
				case *ast.CompositeLit:
					if strings.Contains(ex.str(x.Type), "LimitedReader") {
						limited = true
					}
				case *ast.SelectorExpr:
					if ex.str(x) == "req.ContentLength" {
						limited = true
					}
				}
				return true
			})
			whole = reads == 1 && !limited
		}
		ex.setBool("c19LoadApiWholeBody", whole, api != nil, "Cache.Api: POST /load_dump hands req.Body itself to c.readDump (no MaxBytesReader / LimitReader / Content-Length test in the handler): the API load reads the same stream as the file load")
	})
}
