package main

import (
	"go/ast"
)

// C02, datagram reader (readMsgUdp): the receive buffer handed to every Read has its full size.
func init() {
	factFuncs = append(factFuncs, func(ex *factExtractor) {
		const urel = "pkg/upstream/transport/utils.go"
		fd := ex.fn(urel, "", "readMsgUdp")
		size, sizeOK, nGet := int64(0), false, 0
		nRead, readArgOK := 0, true
		nAssign, assignThenReturn := 0, true
		if fd != nil {
			// payload := pool.GetBuf(N), exactly once
			ast.Inspect(fd.Body, func(x ast.Node) bool {
				if as, isAs := x.(*ast.AssignStmt); isAs && len(as.Lhs) == 1 && ex.str(as.Lhs[0]) == "payload" {
					nGet++
					if c, isCall := as.Rhs[0].(*ast.CallExpr); isCall && ex.str(c.Fun) == "pool.GetBuf" && len(c.Args) == 1 {
						size, sizeOK = ex.intLit(c.Args[0], nil)
					}
				}
				if c, isCall := x.(*ast.CallExpr); isCall && ex.str(c.Fun) == "r.Read" {
					nRead++
					if len(c.Args) != 1 || ex.str(c.Args[0]) != "*payload" {
						readArgOK = false
					}
				}
				return true
			})
			// every statement that changes *payload (or payload) is directly followed by a return in the same block:
			// no Read can see a buffer that was cut to the length of an earlier datagram
			var walk func(list []ast.Stmt)
			walk = func(list []ast.Stmt) {
				for i, st := range list {
					switch s := st.(type) {
					case *ast.AssignStmt:
						for _, l := range s.Lhs {
							if t := ex.str(l); t == "*payload" || (t == "payload" && s.Tok.String() == "=") {
								nAssign++
								if i+1 >= len(list) {
									assignThenReturn = false
								} else if _, isRet := list[i+1].(*ast.ReturnStmt); !isRet {
									assignThenReturn = false
								}
							}
						}
					case *ast.LabeledStmt:
						walk([]ast.Stmt{s.Stmt})
					case *ast.BlockStmt:
						walk(s.List)
					case *ast.IfStmt:
						walk(s.Body.List)
						if s.Else != nil {
							walk([]ast.Stmt{s.Else})
						}
					case *ast.ForStmt:
						walk(s.Body.List)
					case *ast.RangeStmt:
						walk(s.Body.List)
					case *ast.SwitchStmt:
						for _, cc := range s.Body.List {
							walk(cc.(*ast.CaseClause).Body)
						}
					}
				}
			}
			walk(fd.Body.List)
		}
		ex.setNat("c02UdpRxBufSize", size, fd != nil && sizeOK && nGet == 1, "readMsgUdp: payload := pool.GetBuf(N) (the only assignment to payload)")
		ex.setBool("c02UdpEveryReadGetsFullBuffer", nRead >= 1 && readArgOK && nAssign <= 1 && assignThenReturn, fd != nil,
			"readMsgUdp: every r.Read gets *payload, and the only statement that re-slices *payload is directly followed by a return (a skipped datagram leaves the buffer at its full size)")
	})
}
