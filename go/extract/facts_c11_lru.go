package main

import (
	"go/ast"
	"strings"
)

// C11, second group of facts: pkg/lru, pkg/concurrent_lru and the critical
// sections of the shard methods of pkg/concurrent_map (one section per method).
func init() {
	factFuncs = append(factFuncs, func(ex *factExtractor) {
		const mrel = "pkg/concurrent_map/map.go"
		const lrel = "pkg/lru/lru.go"
		const crel = "pkg/concurrent_lru/concurrent_lru.go"

		// ---- every shard method is ONE critical section: besides the leading lock call and its deferred unlock
		// the shard's lock is not mentioned again (no unlock / re-lock in the middle of a method)
		{
			ok, one := true, true
			for _, name := range []string{"get", "len", "set", "del", "testAndSet", "flush", "rangeDo"} {
				fd := ex.fn(mrel, "shard", name)
				if fd == nil {
					ok = false
					continue
				}
				n := 0
				ast.Inspect(fd.Body, func(x ast.Node) bool {
					if se, isSel := x.(*ast.SelectorExpr); isSel && ex.str(se.X) == "m.l" {
						n++
					}
					return true
				})
				if n != 2 {
					one = false
				}
			}
			ex.setBool("c11OneCriticalSectionPerMethod", one, ok,
				"concurrent_map: each shard method (get, len, set, del, testAndSet, flush, rangeDo) mentions the shard lock exactly twice (the lock call and the deferred unlock): the lock is not released and taken again inside a method")
		}
		if fd := ex.fn(mrel, "shard", "rangeDo"); fd != nil {
			ex.setBool("c11RangeDoAppliesInPlace", len(fd.Body.List) == 4 &&
				ex.str(fd.Body.List[2]) == "for k, v := range m.m { newV, setV, deleteV, err := f(k, v) if err != nil { return err } switch { case setV: m.m[k] = newV case deleteV: delete(m.m, k) } }" &&
				ex.str(fd.Body.List[3]) == "return nil", true,
				"shard.rangeDo: the callback's answer for an entry is applied to that entry while the entry is being visited (set: m.m[k] = newV, delete: delete(m.m, k)); nothing is deferred")
		}

		// ---- pkg/lru
		if fd := ex.fn(lrel, "LRU", "Add"); fd != nil {
			var upd *ast.IfStmt
			if len(fd.Body.List) > 0 {
				if is, isIf := fd.Body.List[0].(*ast.IfStmt); isIf && is.Init != nil && ex.str(is.Init) == "e, ok := q.m[key]" && ex.str(is.Cond) == "ok" && is.Else == nil {
					upd = is
				}
			}
			ex.setBool("c11LruUpdateStoresFirst", upd != nil && len(upd.Body.List) > 0 && ex.str(upd.Body.List[0]) == "e.Value.v = v", upd != nil,
				"LRU.Add: the branch for a key that is already present begins with the write of the new value (e.Value.v = v): no path through an update leaves the old value in place")
			var ss []string
			for _, s := range fd.Body.List {
				ss = append(ss, ex.str(s))
			}
			want := []string{
				"if e, ok := q.m[key]; ok { e.Value.v = v q.l.PushBack(q.l.PopElem(e)) return }",
				"o := q.Len() - q.maxSize + 1",
				"for o > 0 { key, v, _ := q.PopOldest() if q.onEvict != nil { q.onEvict(key, v) } o-- }",
				"e := list.NewElem(KV[K, V]{ key: key, v: v, })",
				"q.m[key] = e",
				"q.l.PushBack(e)",
			}
			ex.setBool("c11LruAddShape", strings.Join(ss, " ;; ") == strings.Join(want, " ;; "), true,
				"LRU.Add: update = write value, move to the back, return; insert = pop the oldest entries (onEvict each) until one more fits, then create the elem, put it into the map and at the back")
		}
		if fd := ex.fn(lrel, "LRU", "Get"); fd != nil {
			var ss []string
			for _, s := range fd.Body.List {
				ss = append(ss, ex.str(s))
			}
			want := []string{"e, ok := q.m[key]", "if !ok { return }", "q.l.PushBack(q.l.PopElem(e))", "return e.Value.v, true"}
			ex.setBool("c11LruGetShape", strings.Join(ss, " ;; ") == strings.Join(want, " ;; "), true,
				"LRU.Get: looks the elem up by exactly the key, moves it to the back and returns its value")
		}

		// ---- pkg/concurrent_lru: every method of ConcurrentLRU is one critical section of the embedded mutex and the
		// inner LRU is touched nowhere else
		if f := ex.file(crel); f != nil {
			ok := true
			inMethods := 0
			for _, name := range []string{"Add", "Del", "Clean", "Flush", "Get", "Len"} {
				fd := ex.fn(crel, "ConcurrentLRU", name)
				if fd == nil || len(fd.Body.List) < 3 || ex.str(fd.Body.List[0]) != "c.Lock()" || ex.str(fd.Body.List[1]) != "defer c.Unlock()" {
					ok = false
					continue
				}
				locks := 0
				ast.Inspect(fd.Body, func(x ast.Node) bool {
					if se, isSel := x.(*ast.SelectorExpr); isSel {
						switch ex.str(se) {
						case "c.lru":
							inMethods++
						case "c.Lock", "c.Unlock", "c.TryLock", "c.Mutex":
							locks++
						}
					}
					return true
				})
				if locks != 2 {
					ok = false
				}
			}
			total := 0
			ast.Inspect(f, func(x ast.Node) bool {
				if se, isSel := x.(*ast.SelectorExpr); isSel && se.Sel.Name == "lru" {
					if id, isId := se.X.(*ast.Ident); !isId || id.Name != "lru" { // not the package qualifier lru.X
						total++
					}
				}
				return true
			})
			ex.setBool("c11ConcurrentLruLocked", ok && total == inMethods, true,
				"ConcurrentLRU: Add, Del, Clean, Flush, Get, Len each take the mutex first with a deferred unlock, never release it in between, and the inner LRU is not touched outside these methods")
		}
		if fd := ex.fn(crel, "ShardedLRU", "getShard"); fd != nil {
			ex.setBool("c11ShardedLruShardByHashMod", len(fd.Body.List) == 1 && ex.str(fd.Body.List[0]) == "return c.l[key.Sum()%uint64(c.shardNum())]", true,
				"ShardedLRU.getShard: shard key.Sum() % number of shards")
		}
	})
}
