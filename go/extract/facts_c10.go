package main

import (
	"go/ast"
	"strings"
)

func init() {
	factFuncs = append(factFuncs, func(ex *factExtractor) {
		const urel = "plugin/executable/cache/utils.go"
		const crel = "plugin/executable/cache/cache.go"
		if fd := ex.fn(urel, "", "saveRespToCache"); fd != nil {
			ss := stmtStrings(ex, fd.Body)
			joined := strings.Join(ss, " ")
			ex.setBool("c10StoreCopies", strings.Contains(joined, "v := &item{ resp: copyNoOpt(r),") && contains(ss, "backend.Store(key(msgKey), v, now.Add(cacheTtl))") && strings.Count(joined, "backend.Store(") == 1, true,
				"saveRespToCache stores copyNoOpt(r), never r itself")
		}
		if fd := ex.fn(urel, "", "copyNoOpt"); fd != nil {
			ss := stmtStrings(ex, fd.Body)
			ex.setBool("c10CopyNoOptDeep", contains(ss, "m2 := new(dns.Msg)") && contains(ss, "m2.MsgHdr = m.MsgHdr") &&
				contains(ss, "if len(m.Question) > 0 { m2.Question = make([]dns.Question, len(m.Question)) copy(m2.Question, m.Question) }") &&
				contains(ss, "s := make([]dns.RR, len(m.Answer)+len(m.Ns)+lenExtra)") &&
				contains(ss, "m2.Answer = append(m2.Answer, dns.Copy(r))") && contains(ss, "m2.Ns = append(m2.Ns, dns.Copy(r))") && contains(ss, "m2.Extra = append(m2.Extra, dns.Copy(r))") &&
				countStr(ss, "return m2") == 1, true,
				"copyNoOpt: new message, header by value, a new Question array, new RR slices filled with dns.Copy of every record")
		}
		if fd := ex.fn(urel, "", "getRespFromCache"); fd != nil {
			ss := stmtStrings(ex, fd.Body)
			ex.setBool("c10HitCopies", contains(ss, "if now.Before(v.expirationTime) { r := v.resp.Copy() dnsutils.SubtractTTL(r, uint32(now.Sub(v.storedTime).Seconds())) return r, false }"), true,
				"getRespFromCache (fresh entry): serves v.resp.Copy(), adjusts the TTLs of the copy")
			ex.setBool("c10LazyHitCopies", contains(ss, "if lazyCacheEnabled { r := v.resp.Copy() dnsutils.SetTTL(r, uint32(lazyTtl)) return r, true }"), true,
				"getRespFromCache (stale entry, lazy cache): serves v.resp.Copy(), sets the TTLs of the copy")
			// every path out of the lookup hands out nil or a copy made in the same block: v.resp is read only as the
			// receiver of Copy(), and every return statement returns `nil` or the `r` assigned from v.resp.Copy()
			src := ex.str(fd.Body)
			onlyCopies := strings.Count(src, "v.resp") > 0 && strings.Count(src, "v.resp") == strings.Count(src, "v.resp.Copy()") &&
				strings.Count(src, ".resp") == strings.Count(src, "v.resp")
			ast.Inspect(fd.Body, func(n ast.Node) bool {
				switch x := n.(type) {
				case *ast.ReturnStmt:
					if len(x.Results) != 2 || (ex.str(x.Results[0]) != "nil" && ex.str(x.Results[0]) != "r") {
						onlyCopies = false
					}
				case *ast.AssignStmt:
					for i, l := range x.Lhs {
						if ex.str(l) == "r" && (len(x.Rhs) <= i || ex.str(x.Rhs[i]) != "v.resp.Copy()") {
							onlyCopies = false
						}
					}
				case *ast.FuncLit, *ast.GoStmt, *ast.DeferStmt:
					onlyCopies = false
				}
				return true
			})
			ex.setBool("c10HitServesOnlyCopies", onlyCopies, true,
				"getRespFromCache: the stored message is read only as the receiver of Copy(); every return hands out nil or that copy (no path returns the stored message itself)")
		}
		// every construction of an item: from copyNoOpt (store) or from a freshly unpacked message (dump load)
		writers := 0
		for _, rel := range []string{urel, crel} {
			if f := ex.file(rel); f != nil {
				ast.Inspect(f, func(n ast.Node) bool {
					if cl, ok := n.(*ast.CompositeLit); ok && ex.str(cl.Type) == "item" {
						writers++
					}
					if as, ok := n.(*ast.AssignStmt); ok {
						for _, l := range as.Lhs {
							if strings.HasSuffix(ex.str(l), ".resp") {
								writers += 100
							}
						}
					}
					return true
				})
			}
		}
		ex.setNat("c10ItemRespWriters", int64(writers), true, "cache plugin: places that build an item (the store path and the dump loader); nothing assigns item.resp afterwards")
		if fd := ex.fn(crel, "Cache", "Exec"); fd != nil {
			ss := stmtStrings(ex, fd.Body)
			ex.setBool("c10ExecSetsId", contains(ss, "if cachedResp != nil { c.hitTotal.Inc() cachedResp.Id = q.Id qCtx.SetResponse(cachedResp) }") &&
				contains(ss, "rBefore := qCtx.R()") && indexOf(ss, "rBefore := qCtx.R()")+1 == indexOf(ss, "err := next.ExecNext(ctx, qCtx)") && contains(ss, "if r := qCtx.R(); r != nil && rBefore != r { saveRespToCache(msgKey, r, c.backend, c.args.LazyCacheTTL) c.updatedKey.Add(1) }"), true,
				"Exec: a hit gets the id of the query it answers; a response that is not the served hit is stored through saveRespToCache")
		}
		if fd := ex.fn(crel, "Cache", "Exec"); fd != nil {
			// a query that misses walks the rest of the chain itself, with its own query context, and keeps what that produced:
			// the only response the plugin itself sets is the (deep-copied) hit; Exec has no closures / goroutines through which
			// another in-flight query's response could be reached (no singleflight on the miss path)
			ss := stmtStrings(ex, fd.Body)
			closures := 0
			ast.Inspect(fd.Body, func(n ast.Node) bool {
				switch n.(type) {
				case *ast.FuncLit, *ast.GoStmt:
					closures++
				}
				return true
			})
			setters := 0
			for _, rel := range []string{urel, crel} {
				if f := ex.file(rel); f != nil {
					ast.Inspect(f, func(n ast.Node) bool {
						if ce, ok := n.(*ast.CallExpr); ok {
							if se, ok := ce.Fun.(*ast.SelectorExpr); ok && se.Sel.Name == "SetResponse" {
								setters++
							}
						}
						return true
					})
				}
			}
			ex.setBool("c10MissPrivate", countStr(ss, "err := next.ExecNext(ctx, qCtx)") == 1 && closures == 0 && setters == 1 && countStr(ss, "qCtx.SetResponse(cachedResp)") == 1, true,
				"Exec on a miss: the query itself runs next.ExecNext(ctx, qCtx) on its own context (no closure, no goroutine, no singleflight in Exec); the only SetResponse call of the cache plugin is the one that sets the deep-copied hit")
		}
		if fd := ex.fn(crel, "Cache", "doLazyUpdate"); fd != nil {
			ss := stmtStrings(ex, fd.Body)
			ex.setBool("c10LazyUpdateUsesContextCopy", indexOf(ss, "qCtxCopy := qCtx.Copy()") == 0 && contains(ss, "if r != nil && rBefore != r { saveRespToCache(msgKey, r, c.backend, c.args.LazyCacheTTL) c.updatedKey.Add(1) }"), true,
				"doLazyUpdate works on a copy of the query context and stores through saveRespToCache")
		}
		if fd := ex.fn(crel, "Cache", "readDump"); fd != nil {
			qs := strings.Join(stmtStrings(ex, fd.Body), " ")
			ex.setBool("c10DumpLoadUnpacksFresh", strings.Contains(qs, "resp := new(dns.Msg)") && strings.Contains(qs, "resp.Unpack("), true,
				"readDump builds every item from a freshly unpacked message")
		}
	})
}
