package main

import (
	"go/ast"
	"sort"
	"strings"
)

// selectCases returns the sorted comm clauses of the last select statement in node.
func selectCases(ex *factExtractor, node ast.Node, last bool) string {
	var sel *ast.SelectStmt
	ast.Inspect(node, func(n ast.Node) bool {
		if s, ok := n.(*ast.SelectStmt); ok {
			if sel == nil || last {
				sel = s
			}
		}
		return true
	})
	if sel == nil {
		return ""
	}
	var cs []string
	for _, cl := range sel.Body.List {
		cc := cl.(*ast.CommClause)
		if cc.Comm == nil {
			cs = append(cs, "default")
		} else {
			cs = append(cs, ex.str(cc.Comm))
		}
	}
	sort.Strings(cs)
	return strings.Join(cs, " | ")
}

func init() {
	factFuncs = append(factFuncs, func(ex *factExtractor) {
		const trel = "pkg/upstream/transport/conn_traditional.go"
		const rrel = "pkg/upstream/transport/reuse.go"
		const lrel = "pkg/upstream/transport/conn_lazy_dial.go"
		const prel = "pkg/upstream/transport/pipeline.go"
		units := timeUnits
		// ---- every wait selects on context, close notification and reply
		if fd := ex.fn(trel, "TraditionalDnsConn", "exchange"); fd != nil {
			var outer *ast.SelectStmt
			ast.Inspect(fd.Body, func(n ast.Node) bool {
				if l, ok := n.(*ast.LabeledStmt); ok && l.Label.Name == "wait" {
					outer, _ = l.Stmt.(*ast.SelectStmt)
				}
				return true
			})
			got := ""
			if outer != nil {
				var cs []string
				for _, cl := range outer.Body.List {
					cc := cl.(*ast.CommClause)
					if cc.Comm != nil {
						cs = append(cs, ex.str(cc.Comm))
					} else {
						cs = append(cs, "default")
					}
				}
				sort.Strings(cs)
				got = strings.Join(cs, " | ")
			}
			ex.setBool("c07TdcWaitCoversAll", got == "<-ctx.Done() | <-dc.closeNotify | <-resend | r := <-respChan", outer != nil,
				"TraditionalDnsConn.exchange: the final wait selects on the context, the close notification, the reply and the resend ticker, without default")
			ss := stmtStrings(ex, fd.Body)
			ex.setBool("c07TdcCallerArms", contains(ss, "if !dc.waitingResp { dc.waitingResp = true dc.c.SetReadDeadline(time.Now().Add(waitingReplyTimeout)) }") &&
				indexOf(ss, "dc.queueMu.Lock()") >= 0 && countStr(ss, "dc.CloseWithErr(fmt.Errorf(\"write err, %w\", err))") == 2, true,
				"exchange: after the write the caller arms the waiting-reply deadline unless waitingResp is set (under queueMu); every write error closes the connection")
		}
		if fd := ex.fn(trel, "TraditionalDnsConn", "readLoop"); fd != nil {
			ss := stmtStrings(ex, fd.Body)
			ex.setBool("c07TdcReaderArms", contains(ss, "if len(dc.queue) > 0 { dc.waitingResp = true dc.c.SetReadDeadline(time.Now().Add(waitingReplyTimeout)) } else { dc.waitingResp = false dc.c.SetReadDeadline(time.Now().Add(dc.idleTimeout)) }") &&
				indexOf(ss, "dc.queueMu.Lock()") == 1 && contains(ss, "if err != nil { dc.CloseWithErr(fmt.Errorf(\"read err, %w\", err)) return }"), true,
				"readLoop: at the top of every iteration, under queueMu, the deadline and waitingResp follow the emptiness of the waiter table; any read error closes the connection and ends the loop")
		}
		if fd := ex.fn(trel, "TraditionalDnsConn", "CloseWithErr"); fd != nil {
			ss := stmtStrings(ex, fd.Body)
			ex.setBool("c07TdcCloseOnce", contains(ss, "dc.closeOnce.Do(func() { dc.closed.Store(true) dc.closeErr = err close(dc.closeNotify) dc.c.Close() })"), true,
				"CloseWithErr: once: mark closed, publish the error, close the notification channel (wakes every waiter), close the socket (ends the reader)")
		}
		if v, ok := ex.pkgConst("pkg/upstream/transport/transport.go", "waitingReplyTimeout", units); ok {
			ex.setNat("c07WaitingReplyTimeoutMs", v/1000000, true, "waitingReplyTimeout in ms")
		}
		if v, ok := ex.pkgConst(rrel, "reuseConnQueryTimeout", units); ok {
			ex.setNat("c07ReuseQueryTimeoutMs", v/1000000, true, "reuseConnQueryTimeout in ms")
		}
		if v, ok := ex.pkgConst("pkg/upstream/transport/transport.go", "defaultDialTimeout", units); ok {
			ex.setNat("c07DialTimeoutMs", v/1000000, true, "defaultDialTimeout in ms")
		}
		// ---- reused connection
		if fd := ex.fn(rrel, "reusableConn", "exchange"); fd != nil {
			got := selectCases(ex, fd.Body, false)
			ss := stmtStrings(ex, fd.Body)
			iD, iW := indexOf(ss, "c.c.SetDeadline(time.Now().Add(waitRespTimeout))"), indexOf(ss, "_, err := c.c.Write(*q)")
			ex.setBool("c07ReuseWaitCoversAll", got == "<-c.closeNotify | <-ctx.Done() | resp := <-respChan" && iD >= 0 && iW == iD+1 &&
				contains(ss, "if err != nil { c.closeWithErr(err) return nil, err }"), true,
				"reusableConn.exchange: a deadline for the whole exchange is set before the write, a write error closes the connection, and the wait selects on reply, close notification and context")
		}
		if fd := ex.fn(rrel, "reusableConn", "readLoop"); fd != nil {
			ss := stmtStrings(ex, fd.Body)
			ex.setBool("c07ReuseReadErrCloses", contains(ss, "if err != nil { c.closeWithErr(err) return }"), true, "reusableConn.readLoop: any read error (incl. an expired deadline) closes the connection")
		}
		// the reader's actions after it took a reply and the waiter's channel, in source order:
		// 1 = a read-deadline call, 2 = setIdle, 3 = hand-over of the reply, 0 = anything else
		if fd := ex.fn(rrel, "reusableConn", "readLoop"); fd != nil {
			var loop *ast.ForStmt
			for _, s := range fd.Body.List {
				if f, ok := s.(*ast.ForStmt); ok && loop == nil {
					loop = f
				}
			}
			preamble := map[string]bool{
				"resp, err := dnsutils.ReadRawMsgFromTCP(c.c)": true, "if err != nil { c.closeWithErr(err) return }": true,
				"c.m.Lock()": true, "respChan := c.waitingResp": true, "c.waitingResp = nil": true, "c.m.Unlock()": true,
				"if respChan == nil { pool.ReleaseBuf(resp) c.closeWithErr(errUnexpectedResp) return }": true,
			}
			if loop != nil && len(fd.Body.List) == 1 && loop.Cond == nil {
				var codes []string
				started := false
				for _, s := range loop.Body.List {
					str := ex.str(s)
					code := "0"
					switch {
					case strings.Contains(str, "SetReadDeadline(") || strings.Contains(str, "SetDeadline("):
						code = "1"
					case strings.Contains(str, "setIdle("):
						code = "2"
					case strings.Contains(str, "respChan <- resp"):
						code = "3"
					case !started && preamble[str]:
						continue
					}
					started = true
					codes = append(codes, code)
				}
				ex.setRaw("c07ReuseReaderOrder", "List Nat", "["+strings.Join(codes, ", ")+"]",
					"reusableConn.readLoop, after a reply and the waiter's channel were taken: 1 = read-deadline call (idle timeout), 2 = setIdle (the connection can be picked by the next caller), 3 = the reply is handed over, 0 = any other statement")
			} else {
				ex.setRaw("c07ReuseReaderOrder", "List Nat", "[]", "unknown: reusableConn.readLoop is no longer a single endless loop")
			}
		}
		if fd := ex.fn(rrel, "reusableConn", "closeWithErr"); fd != nil {
			var top []string
			for _, s := range fd.Body.List {
				top = append(top, ex.str(s))
			}
			want := []string{"if err == nil { err = net.ErrClosed }", "c.t.m.Lock()", "delete(c.t.conns, c)", "delete(c.t.idleConns, c)", "c.t.m.Unlock()",
				"c.closeOnce.Do(func() { c.closeErr = err c.c.Close() close(c.closeNotify) })"}
			ex.setBool("c07ReuseCloseWithErrOrder", strings.Join(top, "|") == strings.Join(want, "|"), true,
				"reusableConn.closeWithErr: the pool is updated under t.m and t.m is released before the Once; the Once takes no lock")
		}
		if fd := ex.fn(rrel, "reusableConn", "closeWithErrByTransport"); fd != nil {
			ss := stmtStrings(ex, fd.Body)
			ex.setBool("c07ReuseCloseByTransportLockFree", contains(ss, "c.closeOnce.Do(func() { c.closeErr = err c.c.Close() close(c.closeNotify) })") && !strings.Contains(strings.Join(ss, " "), ".Lock()"), true,
				"closeWithErrByTransport (called with t.m held) takes no lock")
		}
		if fd := ex.fn(rrel, "ReuseConnTransport", "Close"); fd != nil {
			var top []string
			for _, s := range fd.Body.List {
				top = append(top, ex.str(s))
			}
			want := []string{"t.m.Lock()", "defer t.m.Unlock()", "if t.closed { return nil }", "t.closed = true",
				"for c := range t.conns { delete(t.conns, c) delete(t.idleConns, c) c.closeWithErrByTransport(ErrClosedTransport) }", "t.ctxCancel(ErrClosedTransport)", "return nil"}
			ex.setBool("c07ReuseCloseShape", strings.Join(top, "|") == strings.Join(want, "|"), true,
				"ReuseConnTransport.Close: under t.m: mark closed, close every connection, cancel the transport context (aborts dials)")
		}
		if fd := ex.fn(rrel, "ReuseConnTransport", "getIdleConn"); fd != nil {
			ss := stmtStrings(ex, fd.Body)
			ex.setBool("c07ReuseClosedRejects", contains(ss, "if t.closed { return nil, ErrClosedTransport }"), true, "getIdleConn fails at once on a closed transport")
		}
		if fd := ex.fn(rrel, "ReuseConnTransport", "getNewConn"); fd != nil {
			got := selectCases(ex, fd.Body, true)
			ss := stmtStrings(ex, fd.Body)
			ex.setBool("c07ReuseDialWaitCoversAll", got == "<-callCtx.Done() | <-t.ctx.Done() | res := <-dialChan" && contains(ss, "dialCtx, cancelDial := context.WithTimeout(t.ctx, t.dialTimeout)"), true,
				"getNewConn: waits for the dial, the caller's context or the transport's context; the dial itself runs under the transport context with the dial timeout")
		}
		if fd := ex.fn(rrel, "ReuseConnTransport", "newReusableConn"); fd != nil {
			ss := stmtStrings(ex, fd.Body)
			ex.setBool("c07ReuseNewConnAfterCloseRejected", contains(ss, "if t.closed { t.m.Unlock() return nil }"), true, "a connection whose dial finishes after Close is not registered (and is closed by the caller)")
		}
		if fd := ex.fn(rrel, "ReuseConnTransport", "newReusableConn"); fd != nil {
			// is the closed flag tested inside the critical section that registers the freshly dialed connection?
			iLock, iCheck, iInsert, iUnlock := -1, -1, -1, -1
			for i, st := range fd.Body.List {
				str := ex.str(st)
				ifs, isIf := st.(*ast.IfStmt)
				switch {
				case str == "t.m.Lock()" && iLock < 0:
					iLock = i
				case str == "t.m.Unlock()" && iInsert >= 0 && iUnlock < 0:
					iUnlock = i
				case isIf && strings.Contains(ex.str(ifs.Cond), "t.closed") && iLock >= 0 && iInsert < 0 && iCheck < 0:
					iCheck = i
				case strings.Contains(str, "t.conns[rc] = struct{}{}") && iInsert < 0:
					iInsert = i
				}
			}
			ex.setBool("c07ReuseClosedCheckedUnderLock", iLock >= 0 && iLock < iCheck && iCheck < iInsert && iInsert < iUnlock, iLock >= 0 && iInsert >= 0 && iUnlock >= 0,
				"newReusableConn: t.closed is tested after t.m.Lock() and the connection is registered before the t.m.Unlock() that follows (one critical section with the flag Close sets under t.m)")
		}
		// ---- reading one frame: deadline calls made between the reader's arming and the end of the frame
		{
			var codes []string
			known := false
			scan := func(fd *ast.FuncDecl) {
				if fd == nil || fd.Body == nil {
					return
				}
				ast.Inspect(fd.Body, func(n ast.Node) bool {
					ce, ok := n.(*ast.CallExpr)
					if !ok {
						return true
					}
					se, ok := ce.Fun.(*ast.SelectorExpr)
					if !ok || !strings.HasPrefix(se.Sel.Name, "Set") || !strings.HasSuffix(se.Sel.Name, "Deadline") || se.Sel.Name == "SetWriteDeadline" {
						return true
					}
					code := "1"
					if len(ce.Args) == 1 && ex.str(ce.Args[0]) == "time.Time{}" {
						code = "0"
					}
					codes = append(codes, code)
					return true
				})
			}
			if fd := ex.fn("pkg/dnsutils/net_io.go", "", "ReadRawMsgFromTCP"); fd != nil {
				known = true
				scan(fd)
			}
			scan(ex.fn("pkg/dnsutils/net_io.go", "", "ReadMsgFromTCP"))
			scan(ex.fn(trel, "TraditionalDnsConn", "readResp"))
			if known {
				ex.setRaw("c07FrameReadDeadlineCalls", "List Nat", "["+strings.Join(codes, ", ")+"]",
					"read-deadline calls made while a frame is being read (dnsutils.ReadRawMsgFromTCP / ReadMsgFromTCP, TraditionalDnsConn.readResp), in source order: 0 = the deadline is cleared (zero time), 1 = a deadline is set")
			} else {
				ex.setRaw("c07FrameReadDeadlineCalls", "List Nat", "[0]", "unknown: dnsutils.ReadRawMsgFromTCP not found")
			}
		}
		// ---- dialing wrapper and pipeline transport
		if fd := ex.fn(lrel, "lazyDnsConnEarlyReservedExchanger", "ExchangeReserved"); fd != nil {
			ex.setBool("c07LazyWaitCoversAll", selectCases(ex, fd.Body, false) == "<-ctx.Done() | <-ote.dialFinished", true,
				"early ExchangeReserved waits for the end of the dial or the caller's context")
		}
		if fd := ex.fn(lrel, "", "newLazyDnsConn"); fd != nil {
			ss := stmtStrings(ex, fd.Body)
			ex.setBool("c07LazyDialBounded", contains(ss, "dialCtx, cancelDial := context.WithTimeout(context.Background(), defaultDialTimeout)") &&
				contains(ss, "if lc.closed { lc.mu.Unlock() if dc != nil { dc.Close() } return }") && contains(ss, "close(lc.dialFinished)"), true,
				"the dial runs under a timeout; its end is always published (dialFinished) unless Close already did, and a connection dialed after Close is closed")
		}
		if fd := ex.fn(lrel, "lazyDnsConn", "Close"); fd != nil {
			ss := stmtStrings(ex, fd.Body)
			ex.setBool("c07LazyCloseShape", contains(ss, "if lc.c == nil && lc.dialErr == nil { lc.cancelDial() lc.dialErr = errLazyConnDialCanceled close(lc.dialFinished) } else { if lc.c != nil { lc.c.Close() } }") &&
				contains(ss, "lc.closed = true"), true,
				"lazyDnsConn.Close: while dialing it cancels the dial and publishes an error to the queued callers; afterwards it closes the connection")
		}
		if fd := ex.fn(prel, "PipelineTransport", "Close"); fd != nil {
			var top []string
			for _, s := range fd.Body.List {
				top = append(top, ex.str(s))
			}
			want := []string{"t.m.Lock()", "defer t.m.Unlock()", "if t.closed { return nil }", "t.closed = true", "for conn := range t.conns { conn.Close() }", "return nil"}
			ex.setBool("c07PipelineCloseShape", strings.Join(top, "|") == strings.Join(want, "|"), true, "PipelineTransport.Close: under t.m: mark closed, close every connection")
		}
		if fd := ex.fn(prel, "PipelineTransport", "getReservedExchanger"); fd != nil {
			ss := stmtStrings(ex, fd.Body)
			// is the closed flag tested inside the critical section that registers a new connection?
			iLock, iCheck, iInsert, iUnlock := -1, -1, -1, -1
			for i, st := range fd.Body.List {
				str := ex.str(st)
				ifs, isIf := st.(*ast.IfStmt)
				switch {
				case str == "t.m.Lock()" && iLock < 0:
					iLock = i
				case str == "t.m.Unlock()" && iUnlock < 0:
					iUnlock = i
				case isIf && strings.Contains(ex.str(ifs.Cond), "closed") && iCheck < 0:
					iCheck = i
				case strings.Contains(str, "t.conns[c] = struct{}{}") && iInsert < 0:
					iInsert = i
				}
			}
			ex.setBool("c07PipelineClosedCheckedUnderLock", iLock < iCheck && iCheck < iInsert && iInsert < iUnlock, iLock >= 0 && iCheck >= 0 && iInsert >= 0 && iUnlock >= 0,
				"getReservedExchanger: the closed flag is tested after t.m.Lock() and the new connection is registered before the t.m.Unlock() that follows (one critical section)")
			ex.setBool("c07PipelineClosedRejects", contains(ss, "if t.closed { err = ErrClosedTransport t.m.Unlock() return }"), true, "getReservedExchanger fails at once on a closed transport")
		}
	})
}
