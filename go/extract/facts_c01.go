package main

import (
	"go/ast"
	"strings"
)

func init() {
	factFuncs = append(factFuncs, func(ex *factExtractor) {
		const trel = "pkg/upstream/transport/conn_traditional.go"
		const rrel = "pkg/upstream/transport/reuse.go"
		aq := ex.fn(trel, "TraditionalDnsConn", "addQueueC")
		if aq != nil {
			var loop *ast.ForStmt
			ast.Inspect(aq.Body, func(n ast.Node) bool {
				if f, ok := n.(*ast.ForStmt); ok && loop == nil {
					loop = f
				}
				return true
			})
			if loop != nil {
				tries, ok := int64(0), false
				if be, isB := loop.Cond.(*ast.BinaryExpr); isB && ex.str(be.X) == "i" && be.Op.String() == "<" && ex.str(loop.Init) == "i := 0" && ex.str(loop.Post) == "i++" {
					tries, ok = ex.intLit(be.Y, nil)
				}
				ex.setNat("c01AllocTries", tries, ok, "addQueueC: number of wire ids tried (`for i := 0; i < N; i++`)")
				var body []string
				for _, s := range loop.Body.List {
					body = append(body, ex.str(s))
				}
				want := []string{"qid = dc.nextQid", "dc.nextQid++", "if _, dup := dc.queue[uint32(qid)]; dup { continue }", "dc.queue[uint32(qid)] = c", "dc.queueMu.Unlock()", "return qid, c"}
				ex.setBool("c01AllocSkipsIdsInUse", strings.Join(body, "|") == strings.Join(want, "|"), true,
					"addQueueC loop: take nextQid, advance it, skip the id if it is still in the waiter table, else install the caller's channel under it")
			}
		}
		if f := ex.file(trel); f != nil {
			okT := false
			ast.Inspect(f, func(n ast.Node) bool {
				if ts, ok := n.(*ast.TypeSpec); ok && ts.Name.Name == "TraditionalDnsConn" {
					if st, ok := ts.Type.(*ast.StructType); ok {
						for _, fl := range st.Fields.List {
							for _, nm := range fl.Names {
								if nm.Name == "nextQid" && ex.str(fl.Type) == "uint16" {
									okT = true
								}
							}
						}
					}
				}
				return true
			})
			ex.setBool("c01NextQidIs16Bit", okT, true, "TraditionalDnsConn.nextQid is a uint16 (wraps at 65536)")
		}
		rl := ex.fn(trel, "TraditionalDnsConn", "readLoop")
		if rl != nil {
			ss := stmtStrings(ex, rl.Body)
			i1 := indexOf(ss, "rid := binary.BigEndian.Uint16(*r)")
			ex.setBool("c01ReaderDispatchesByWireId", i1 >= 0 && i1+2 < len(ss) && ss[i1+1] == "resChan := dc.popQueueC(rid)" &&
				ss[i1+2] == "if resChan != nil { select { case resChan <- r: default: pool.ReleaseBuf(r) } } else { pool.ReleaseBuf(r) }", true,
				"readLoop: the reply's own 16-bit id selects the waiter; without a waiter (or without room) the buffer is released, never delivered")
		}
		pq := ex.fn(trel, "TraditionalDnsConn", "popQueueC")
		dq := ex.fn(trel, "TraditionalDnsConn", "deleteQueueC")
		if pq != nil && dq != nil {
			ps, ds := stmtStrings(ex, pq.Body), stmtStrings(ex, dq.Body)
			ex.setBool("c01PopRemovesEntry", contains(ps, "c := dc.queue[uint32(qid)]") && contains(ps, "delete(dc.queue, uint32(qid))") && contains(ps, "return c"), true,
				"popQueueC returns the waiter under the id and removes it")
			ex.setBool("c01DeleteOnlyOwnEntry", contains(ds, "if dc.queue[uint32(qid)] == c { delete(dc.queue, uint32(qid)) }") && countStr(ds, "delete(dc.queue, uint32(qid))") == 1, true,
				"deleteQueueC removes the entry only if it still belongs to the leaving caller")
		}
		wq := ex.fn(trel, "TraditionalDnsConn", "writeQuery")
		if wq != nil {
			ss := stmtStrings(ex, wq.Body)
			ex.setBool("c01WireIdWrittenIntoCopy", contains(ss, "payload, err = copyMsgWithLenHdr(q)") && contains(ss, "binary.BigEndian.PutUint16((*payload)[2:], assignedQid)") &&
				contains(ss, "payload = copyMsg(q)") && contains(ss, "binary.BigEndian.PutUint16(*payload, assignedQid)") && contains(ss, "_, err := dc.c.Write(*payload)"), true,
				"writeQuery puts the assigned wire id into a copy of the query (offset 2 behind a length header, offset 0 otherwise); the caller's buffer is untouched")
		}
		exch := ex.fn(trel, "TraditionalDnsConn", "exchange")
		if exch != nil {
			ss := stmtStrings(ex, exch.Body)
			ex.setBool("c01CallerIdRestored", countStr(ss, "orgId := binary.BigEndian.Uint16(q)") == 2 && countStr(ss, "binary.BigEndian.PutUint16(*r, orgId)") == 2 && countStr(ss, "return r, nil") == 2 &&
				contains(ss, "err := dc.writeQuery(q, assignedQid)"), true,
				"exchange: both places that return a reply first put the id of the caller's own query back")
		}
		// DoH / DoQ: one request / stream per query, id 0 on the wire, restored on return
		dh := ex.fn("pkg/upstream/doh/upstream.go", "Upstream", "ExchangeContext")
		if dh != nil {
			ss := stmtStrings(ex, dh.Body)
			ex.setBool("c01DohIdZeroedAndRestored", contains(ss, "wire := *bp") && contains(ss, "copy(wire, q)") && contains(ss, "wire[0] = 0") && contains(ss, "wire[1] = 0") &&
				contains(ss, "if r != nil { binary.BigEndian.PutUint16(*r, binary.BigEndian.Uint16(q)) }"), true,
				"DoH: the id is zeroed in a copy and the caller's id is put back into the reply of its own HTTP request")
		}
		qc := ex.fn("pkg/upstream/transport/conn_quic.go", "quicReservedExchanger", "ExchangeReserved")
		if qc != nil {
			ss := stmtStrings(ex, qc.Body)
			ex.setBool("c01DoqIdZeroedAndRestored", contains(ss, "payload, err := copyMsgWithLenHdr(q)") && contains(ss, "orgQid := binary.BigEndian.Uint16((*payload)[2:])") &&
				contains(ss, "binary.BigEndian.PutUint16((*payload)[2:], 0)") && contains(ss, "if resp != nil { binary.BigEndian.PutUint16((*resp), orgQid) }") &&
				contains(ss, "r, err := dnsutils.ReadRawMsgFromTCP(stream)"), true,
				"DoQ: one stream per query, id zeroed in a copy, the caller's id put back into the reply read from that stream")
		}
		// non-pipelined reused connection
		re := ex.fn(rrel, "reusableConn", "exchange")
		if re != nil {
			var last *ast.SelectStmt
			ast.Inspect(re.Body, func(n ast.Node) bool {
				if s, ok := n.(*ast.SelectStmt); ok {
					if last == nil {
						last = s
					}
				}
				return true
			})
			okLeave := false
			if last != nil {
				for _, cl := range last.Body.List {
					cc := cl.(*ast.CommClause)
					if cc.Comm != nil && ex.str(cc.Comm) == "<-ctx.Done()" {
						okLeave = len(cc.Body) == 1 && ex.str(cc.Body[0]) == "return nil, context.Cause(ctx)"
					}
				}
			}
			ex.setBool("c01ReuseLeaveKeepsSlot", okLeave, true, "reusableConn.exchange: a caller whose context ends just returns; its channel stays installed and the connection stays out of the idle set")
			ss := stmtStrings(ex, re.Body)
			ex.setBool("c01ReuseOneWaiter", contains(ss, "if c.waitingResp != nil { c.m.Unlock() panic(\"bug: reusableConn: concurrent exchange calls\") }") && contains(ss, "c.waitingResp = respChan"), true,
				"reusableConn.exchange installs its channel as the single waiter and refuses a second one")
		}
		rr := ex.fn(rrel, "reusableConn", "readLoop")
		if rr != nil {
			ss := stmtStrings(ex, rr.Body)
			i1, i2, i3 := indexOf(ss, "respChan := c.waitingResp"), indexOf(ss, "c.waitingResp = nil"), indexOf(ss, "c.t.setIdle(c)")
			ex.setBool("c01ReuseReaderDispatch", i1 >= 0 && i2 == i1+1 && i3 > i2 &&
				contains(ss, "if respChan == nil { pool.ReleaseBuf(resp) c.closeWithErr(errUnexpectedResp) return }") && countStr(ss, "c.t.setIdle(c)") == 1, true,
				"reusableConn.readLoop: the reply goes to the installed waiter and only then the connection becomes idle; a reply without a waiter closes the connection")
		}
		if f := ex.file(rrel); f != nil {
			n := 0
			ast.Inspect(f, func(x ast.Node) bool {
				if c, ok := x.(*ast.CallExpr); ok && strings.HasSuffix(ex.str(c.Fun), ".setIdle") {
					n++
				}
				return true
			})
			ex.setNat("c01ReuseSetIdleCallSites", int64(n), true, "reuse.go: call sites of setIdle (readLoop after a reply; the abandoned-dial path for a connection nobody used)")
		}
		gi := ex.fn(rrel, "ReuseConnTransport", "getIdleConn")
		if gi != nil {
			ss := stmtStrings(ex, gi.Body)
			ex.setBool("c01ReuseTakeRemovesFromIdle", contains(ss, "for c := range t.idleConns { delete(t.idleConns, c) return c, nil }"), true,
				"getIdleConn removes the connection from the idle set before handing it out")
		}
	})
}
