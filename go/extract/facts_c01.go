package main

import (
	"go/ast"
	"strings"
)

func init() {
	factFuncs = append(factFuncs, func(ex *factExtractor) {
		const trel = "pkg/upstream/transport/conn_traditional.go"
		const rrel = "pkg/upstream/transport/reuse.go"
		aq := ex.fn(trel, "TraditionalDnsConn", "addQueueC")
		if aq != nil {
			var loop *ast.ForStmt
			ast.Inspect(aq.Body, func(n ast.Node) bool {
				if f, ok := n.(*ast.ForStmt); ok && loop == nil {
					loop = f
				}
				return true
			})
			if loop != nil {
				tries, ok := int64(0), false
				if be, isB := loop.Cond.(*ast.BinaryExpr); isB && ex.str(be.X) == "i" && be.Op.String() == "<" && ex.str(loop.Init) == "i := 0" && ex.str(loop.Post) == "i++" {
					tries, ok = ex.intLit(be.Y, nil)
				}
				ex.setNat("c01AllocTries", tries, ok, "addQueueC: number of wire ids tried (`for i := 0; i < N; i++`)")
				var body []string
				for _, s := range loop.Body.List {
					body = append(body, ex.str(s))
				}
				want := []string{"qid = dc.nextQid", "dc.nextQid++", "if _, dup := dc.queue[uint32(qid)]; dup { continue }", "dc.queue[uint32(qid)] = c", "dc.queueMu.Unlock()", "return qid, c"}
				ex.setBool("c01AllocSkipsIdsInUse", strings.Join(body, "|") == strings.Join(want, "|"), true,
					"addQueueC loop: take nextQid, advance it, skip the id if it is still in the waiter table, else install the caller's channel under it")
			}
		}
		if f := ex.file(trel); f != nil {
			okT := false
			ast.Inspect(f, func(n ast.Node) bool {
				if ts, ok := n.(*ast.TypeSpec); ok && ts.Name.Name == "TraditionalDnsConn" {
					if st, ok := ts.Type.(*ast.StructType); ok {
						for _, fl := range st.Fields.List {
							for _, nm := range fl.Names {
								if nm.Name == "nextQid" && ex.str(fl.Type) == "uint16" {
									okT = true
								}
							}
						}
					}
				}
				return true
			})
			ex.setBool("c01NextQidIs16Bit", okT, true, "TraditionalDnsConn.nextQid is a uint16 (wraps at 65536)")
		}
		rl := ex.fn(trel, "TraditionalDnsConn", "readLoop")
		if rl != nil {
			ss := stmtStrings(ex, rl.Body)
			i1 := indexOf(ss, "rid := binary.BigEndian.Uint16(*r)")
			ex.setBool("c01ReaderDispatchesByWireId", i1 >= 0 && i1+2 < len(ss) && ss[i1+1] == "resChan := dc.popQueueC(rid)" &&
				ss[i1+2] == "if resChan != nil { select { case resChan <- r: default: pool.ReleaseBuf(r) } } else { pool.ReleaseBuf(r) }", true,
				"readLoop: the reply's own 16-bit id selects the waiter; without a waiter (or without room) the buffer is released, never delivered")
		}
		pq := ex.fn(trel, "TraditionalDnsConn", "popQueueC")
		dq := ex.fn(trel, "TraditionalDnsConn", "deleteQueueC")
		if pq != nil && dq != nil {
			ps, ds := stmtStrings(ex, pq.Body), stmtStrings(ex, dq.Body)
			ex.setBool("c01PopRemovesEntry", contains(ps, "c := dc.queue[uint32(qid)]") && contains(ps, "delete(dc.queue, uint32(qid))") && contains(ps, "return c"), true,
				"popQueueC returns the waiter under the id and removes it")
			ex.setBool("c01DeleteOnlyOwnEntry", contains(ds, "if dc.queue[uint32(qid)] == c { delete(dc.queue, uint32(qid)) }") && countStr(ds, "delete(dc.queue, uint32(qid))") == 1, true,
				"deleteQueueC removes the entry only if it still belongs to the leaving caller")
		}
		wq := ex.fn(trel, "TraditionalDnsConn", "writeQuery")
		if wq != nil {
			ss := stmtStrings(ex, wq.Body)
			ex.setBool("c01WireIdWrittenIntoCopy", contains(ss, "payload, err = copyMsgWithLenHdr(q)") && contains(ss, "binary.BigEndian.PutUint16((*payload)[2:], assignedQid)") &&
				contains(ss, "payload = copyMsg(q)") && contains(ss, "binary.BigEndian.PutUint16(*payload, assignedQid)") && contains(ss, "_, err := dc.c.Write(*payload)"), true,
				"writeQuery puts the assigned wire id into a copy of the query (offset 2 behind a length header, offset 0 otherwise); the caller's buffer is untouched")
		}
		exch := ex.fn(trel, "TraditionalDnsConn", "exchange")
		if exch != nil {
			ss := stmtStrings(ex, exch.Body)
			ex.setBool("c01CallerIdRestored", countStr(ss, "orgId := binary.BigEndian.Uint16(q)") == 2 && countStr(ss, "binary.BigEndian.PutUint16(*r, orgId)") == 2 && countStr(ss, "return r, nil") == 2 &&
				contains(ss, "err := dc.writeQuery(q, assignedQid)"), true,
				"exchange: both places that return a reply first put the id of the caller's own query back")
		}
		// DoH / DoQ: one request / stream per query, id 0 on the wire, restored on return
		dh := ex.fn("pkg/upstream/doh/upstream.go", "Upstream", "ExchangeContext")
		if dh != nil {
			ss := stmtStrings(ex, dh.Body)
			ex.setBool("c01DohIdZeroedAndRestored", contains(ss, "wire := *bp") && contains(ss, "copy(wire, q)") && contains(ss, "wire[0] = 0") && contains(ss, "wire[1] = 0") &&
				contains(ss, "if r != nil { binary.BigEndian.PutUint16(*r, binary.BigEndian.Uint16(q)) }"), true,
				"DoH: the id is zeroed in a copy and the caller's id is put back into the reply of its own HTTP request")
		}
		// DoH: the request handed to the RoundTripper belongs to this call alone (its URL is a fresh copy of the
		// template's URL, the query string is written into that copy); nothing reachable from the upstream is written
		dx := ex.fn("pkg/upstream/doh/upstream.go", "Upstream", "exchange")
		if dh != nil && dx != nil {
			var top []string
			for _, s := range dx.Body.List {
				top = append(top, ex.str(s))
			}
			want := []string{"req := u.reqTemplate.WithContext(ctx)", "req.URL = new(urlpkg.URL)", "*req.URL = *u.urlTemplate", "req.URL.RawQuery = dnsQuery", "resp, err := u.rt.RoundTrip(req)"}
			head := len(top) >= len(want) && strings.Join(top[:len(want)], "|") == strings.Join(want, "|")
			// every write through `req` or through the receiver `u`, in both methods
			var writes []string
			for _, fd := range []*ast.FuncDecl{dh, dx} {
				ast.Inspect(fd.Body, func(n ast.Node) bool {
					switch st := n.(type) {
					case *ast.AssignStmt:
						for _, l := range st.Lhs {
							ls := strings.TrimLeft(ex.str(l), "*(")
							if strings.HasPrefix(ls, "u.") || strings.HasPrefix(ls, "req.") || ls == "u" {
								writes = append(writes, ex.str(st))
							}
						}
					case *ast.IncDecStmt:
						ls := strings.TrimLeft(ex.str(st.X), "*(")
						if strings.HasPrefix(ls, "u.") || strings.HasPrefix(ls, "req.") {
							writes = append(writes, ex.str(st))
						}
					}
					return true
				})
			}
			ownWrites := strings.Join(writes, "|") == "req.URL = new(urlpkg.URL)|*req.URL = *u.urlTemplate|req.URL.RawQuery = dnsQuery"
			ss := stmtStrings(ex, dh.Body)
			ownQuery := contains(ss, "queryBuf := make([]byte, queryLen)") && contains(ss, "base64.RawURLEncoding.Encode(queryBuf[p:], wire)") &&
				contains(ss, "r, err := u.exchange(ctx, utils.BytesToStringUnsafe(queryBuf))") && contains(ss, "resChan := make(chan res, 1)")
			ex.setBool("c01DohRequestPerCall", head && ownWrites && ownQuery, true,
				"DoH: every exchange encodes its query into a buffer of its own and writes it into a URL of its own (a fresh copy of the template's URL) before RoundTrip; no field of the upstream or of the shared request template is written")
		}
		qc := ex.fn("pkg/upstream/transport/conn_quic.go", "quicReservedExchanger", "ExchangeReserved")
		if qc != nil {
			ss := stmtStrings(ex, qc.Body)
			ex.setBool("c01DoqIdZeroedAndRestored", contains(ss, "payload, err := copyMsgWithLenHdr(q)") && contains(ss, "orgQid := binary.BigEndian.Uint16((*payload)[2:])") &&
				contains(ss, "binary.BigEndian.PutUint16((*payload)[2:], 0)") && contains(ss, "if resp != nil { binary.BigEndian.PutUint16((*resp), orgQid) }") &&
				contains(ss, "r, err := dnsutils.ReadRawMsgFromTCP(stream)"), true,
				"DoQ: one stream per query, id zeroed in a copy, the caller's id put back into the reply read from that stream")
		}
		// non-pipelined reused connection
		re := ex.fn(rrel, "reusableConn", "exchange")
		if re != nil {
			var last *ast.SelectStmt
			ast.Inspect(re.Body, func(n ast.Node) bool {
				if s, ok := n.(*ast.SelectStmt); ok {
					if last == nil {
						last = s
					}
				}
				return true
			})
			okLeave := false
			if last != nil {
				for _, cl := range last.Body.List {
					cc := cl.(*ast.CommClause)
					if cc.Comm != nil && ex.str(cc.Comm) == "<-ctx.Done()" {
						okLeave = len(cc.Body) == 1 && ex.str(cc.Body[0]) == "return nil, context.Cause(ctx)"
					}
				}
			}
			ex.setBool("c01ReuseLeaveKeepsSlot", okLeave, true, "reusableConn.exchange: a caller whose context ends just returns; its channel stays installed and the connection stays out of the idle set")
			ss := stmtStrings(ex, re.Body)
			ex.setBool("c01ReuseOneWaiter", contains(ss, "if c.waitingResp != nil { c.m.Unlock() panic(\"bug: reusableConn: concurrent exchange calls\") }") && contains(ss, "c.waitingResp = respChan"), true,
				"reusableConn.exchange installs its channel as the single waiter and refuses a second one")
		}
		rr := ex.fn(rrel, "reusableConn", "readLoop")
		if rr != nil {
			ss := stmtStrings(ex, rr.Body)
			i1, i2, i3 := indexOf(ss, "respChan := c.waitingResp"), indexOf(ss, "c.waitingResp = nil"), indexOf(ss, "c.t.setIdle(c)")
			ex.setBool("c01ReuseReaderDispatch", i1 >= 0 && i2 == i1+1 && i3 > i2 &&
				contains(ss, "if respChan == nil { pool.ReleaseBuf(resp) c.closeWithErr(errUnexpectedResp) return }") && countStr(ss, "c.t.setIdle(c)") == 1, true,
				"reusableConn.readLoop: the reply goes to the installed waiter and only then the connection becomes idle; a reply without a waiter closes the connection")
		}
		if f := ex.file(rrel); f != nil {
			n := 0
			ast.Inspect(f, func(x ast.Node) bool {
				if c, ok := x.(*ast.CallExpr); ok && strings.HasSuffix(ex.str(c.Fun), ".setIdle") {
					n++
				}
				return true
			})
			ex.setNat("c01ReuseSetIdleCallSites", int64(n), true, "reuse.go: call sites of setIdle (readLoop after a reply; the abandoned-dial path for a connection nobody used)")
		}
		gi := ex.fn(rrel, "ReuseConnTransport", "getIdleConn")
		if gi != nil {
			ss := stmtStrings(ex, gi.Body)
			ex.setBool("c01ReuseTakeRemovesFromIdle", contains(ss, "for c := range t.idleConns { delete(t.idleConns, c) return c, nil }"), true,
				"getIdleConn removes the connection from the idle set before handing it out")
		}
	})
}

// ---- reply-buffer ownership along the control-flow paths of udpWithFallback.ExchangeContext
//
// The function receives pooled reply buffers from the two transports and must hand at most one of them to its
// caller; every other one goes back to the pool exactly once, and none is read, returned or released after it
// went back. The fact is the list of paths through the function body, each a list of events (kind, variable):
//   0 got v       v, err := <call>            1 lost v     the `if err != nil` branch right behind it (v is nil)
//   2 use v       v is read (condition, argument of a call that is not the release)
//   3 release v   pool.ReleaseBuf(v)          4 defer v    defer pool.ReleaseBuf(v)
//   5 return v    return v, ...               6 return something that is no variable (nil, the result of a call)
// Statement kinds outside {define/assign from a call, if/else, block, return, defer, call statement}, a variable
// assigned twice on one path, or a buffer variable that escapes in another way make the fact `none`.

type c01BufPaths struct {
	ex      *factExtractor
	vars    map[string]int
	order   []string
	paths   [][][2]int
	bad     string
	maxPath int
}

func (p *c01BufPaths) fail(why string) {
	if p.bad == "" {
		p.bad = why
	}
}

func (p *c01BufPaths) isRelease(c *ast.CallExpr) (string, bool) {
	if p.ex.str(c.Fun) != "pool.ReleaseBuf" || len(c.Args) != 1 {
		return "", false
	}
	id, ok := c.Args[0].(*ast.Ident)
	if !ok {
		return "", false
	}
	_, tracked := p.vars[id.Name]
	return id.Name, tracked
}

// uses lists the tracked variables mentioned in an expression, in source order.
func (p *c01BufPaths) uses(n ast.Node) []int {
	var out []int
	if n == nil {
		return out
	}
	ast.Inspect(n, func(x ast.Node) bool {
		if id, ok := x.(*ast.Ident); ok {
			if v, tracked := p.vars[id.Name]; tracked {
				out = append(out, v)
			}
		}
		return true
	})
	return out
}

// walk runs the statements `todo` (a stack of statement lists: the rest of the innermost block first) from the
// events collected so far; every return statement ends one path.
func (p *c01BufPaths) walk(todo [][]ast.Stmt, evs [][2]int, lastGot int) {
	if p.bad != "" {
		return
	}
	for len(todo) > 0 && len(todo[0]) == 0 {
		todo = todo[1:]
	}
	if len(todo) == 0 {
		p.fail("a path falls off the end of the function")
		return
	}
	s, rest := todo[0][0], append([][]ast.Stmt{todo[0][1:]}, todo[1:]...)
	add := func(k, v int) [][2]int { return append(append([][2]int(nil), evs...), [2]int{k, v}) }
	switch st := s.(type) {
	case *ast.BlockStmt:
		p.walk(append([][]ast.Stmt{st.List}, rest...), evs, -1)
	case *ast.AssignStmt:
		call, isCall := (ast.Expr)(nil), false
		if len(st.Rhs) == 1 {
			_, isCall = st.Rhs[0].(*ast.CallExpr)
			call = st.Rhs[0]
		}
		if !isCall || len(st.Lhs) != 2 {
			if len(p.uses(st)) > 0 {
				p.fail("a reply buffer is copied or assigned: " + p.ex.str(st))
				return
			}
			p.walk(rest, evs, -1)
			return
		}
		for _, v := range p.uses(call) {
			evs = add(2, v)
		}
		id, ok := st.Lhs[0].(*ast.Ident)
		if !ok {
			p.fail("unrecognised assignment: " + p.ex.str(st))
			return
		}
		if id.Name == "_" {
			p.fail("a reply is discarded without release: " + p.ex.str(st))
			return
		}
		v, seen := p.vars[id.Name]
		if !seen {
			v = len(p.order)
			p.vars[id.Name] = v
			p.order = append(p.order, id.Name)
		}
		for _, e := range evs {
			if e[0] == 0 && e[1] == v {
				p.fail("a reply variable is assigned twice on one path: " + id.Name)
				return
			}
		}
		p.walk(rest, add(0, v), v)
	case *ast.IfStmt:
		if st.Init != nil {
			// `if v, err := call; cond { ... }`: same as the statement followed by the if
			cp := *st
			cp.Init = nil
			p.walk(append([][]ast.Stmt{{st.Init, &cp}}, rest...), evs, lastGot)
			return
		}
		for _, v := range p.uses(st.Cond) {
			evs = add(2, v)
		}
		thenEvs := evs
		if lastGot >= 0 && p.ex.str(st.Cond) == "err != nil" {
			thenEvs = add(1, lastGot)
		}
		p.walk(append([][]ast.Stmt{st.Body.List}, rest...), thenEvs, -1)
		if st.Else != nil {
			p.walk(append([][]ast.Stmt{{st.Else}}, rest...), evs, -1)
		} else {
			p.walk(rest, evs, -1)
		}
	case *ast.ReturnStmt:
		if len(st.Results) == 0 {
			p.fail("unrecognised return: " + p.ex.str(st))
			return
		}
		if _, tail := st.Results[0].(*ast.CallExpr); !(len(st.Results) == 2 || len(st.Results) == 1 && tail) {
			p.fail("unrecognised return: " + p.ex.str(st))
			return
		}
		switch r := st.Results[0].(type) {
		case *ast.Ident:
			if v, tracked := p.vars[r.Name]; tracked {
				evs = add(5, v)
			} else if r.Name == "nil" {
				evs = add(6, 0)
			} else {
				p.fail("returns a variable that was not followed: " + r.Name)
				return
			}
		case *ast.CallExpr:
			for _, v := range p.uses(r) {
				evs = add(2, v)
			}
			evs = add(6, 0)
		default:
			p.fail("unrecognised return: " + p.ex.str(st))
			return
		}
		if len(p.paths) >= p.maxPath {
			p.fail("too many paths")
			return
		}
		p.paths = append(p.paths, evs)
	case *ast.DeferStmt:
		if v, ok := p.isRelease(st.Call); ok {
			p.walk(rest, add(4, p.vars[v]), -1)
		} else if len(p.uses(st.Call)) > 0 {
			p.fail("a reply buffer escapes into a deferred call: " + p.ex.str(st))
		} else {
			p.walk(rest, evs, -1)
		}
	case *ast.ExprStmt:
		c, ok := st.X.(*ast.CallExpr)
		if !ok {
			p.fail("unrecognised statement: " + p.ex.str(st))
			return
		}
		if v, ok := p.isRelease(c); ok {
			p.walk(rest, add(3, p.vars[v]), -1)
			return
		}
		for _, v := range p.uses(c) {
			evs = add(2, v)
		}
		p.walk(rest, evs, -1)
	default:
		p.fail("statement kind outside the recognised subset: " + p.ex.str(s))
	}
}

func init() {
	factFuncs = append(factFuncs, func(ex *factExtractor) {
		const name = "c01FallbackBufPaths"
		const typ = "Option (List (List (Nat × Nat)))"
		note := "udpWithFallback.ExchangeContext: every control-flow path as events (kind, variable) on reply buffers: 0 got, 1 lost (the err != nil branch), 2 read, 3 pool.ReleaseBuf, 4 deferred pool.ReleaseBuf, 5 returned to the caller, 6 something else returned"
		fd := ex.fn("pkg/upstream/upstream.go", "udpWithFallback", "ExchangeContext")
		if fd == nil || fd.Type.Results == nil || len(fd.Type.Results.List) != 2 || ex.str(fd.Type.Results.List[0].Type) != "*[]byte" {
			ex.setRaw(name, typ, "none", "unknown: "+note)
			return
		}
		p := &c01BufPaths{ex: ex, vars: map[string]int{}, maxPath: 64}
		p.walk([][]ast.Stmt{fd.Body.List}, nil, -1)
		if p.bad != "" || len(p.paths) == 0 {
			ex.setRaw(name, typ, "none", "unknown ("+strings.ReplaceAll(p.bad, "-/", "- /")+"): "+note)
			return
		}
		var ps []string
		for _, path := range p.paths {
			var es []string
			for _, e := range path {
				es = append(es, "("+itoaF(e[0])+", "+itoaF(e[1])+")")
			}
			ps = append(ps, "["+strings.Join(es, ", ")+"]")
		}
		ex.setRaw(name, typ, "some ["+strings.Join(ps, ", ")+"]", note+"; variables in order of first assignment: "+strings.Join(p.order, ", "))
	})
}

func itoaF(n int) string {
	if n == 0 {
		return "0"
	}
	s := ""
	for n > 0 {
		s = string(rune('0'+n%10)) + s
		n /= 10
	}
	return s
}

// the byte pool under every reply buffer: GetBuf / ReleaseBuf are the free list's own Get / Release
func init() {
	factFuncs = append(factFuncs, func(ex *factExtractor) {
		const name = "c01PoolGetIsFreeListGet"
		note := "pkg/pool/allocator.go: GetBuf and ReleaseBuf are the Get and Release of one bytesPool.NewPool(n) value, and the file declares nothing else (no function, no further variable: no place of its own where a buffer could wait between a Release and a Get)"
		f := ex.file("pkg/pool/allocator.go")
		if f == nil {
			ex.setBool(name, false, false, note)
			return
		}
		vals := map[string]string{}
		others := 0
		for _, d := range f.Decls {
			gd, ok := d.(*ast.GenDecl)
			if !ok {
				others++ // a function
				continue
			}
			switch gd.Tok.String() {
			case "import":
			case "var":
				for _, s := range gd.Specs {
					vs, ok := s.(*ast.ValueSpec)
					if !ok || vs.Type != nil || len(vs.Names) != len(vs.Values) {
						others++
						continue
					}
					for i, n := range vs.Names {
						vals[n.Name] = ex.str(vs.Values[i])
					}
				}
			default:
				others++ // const / type
			}
		}
		okPool := false
		if v, has := vals["_pool"]; has && strings.HasPrefix(v, "bytesPool.NewPool(") && strings.HasSuffix(v, ")") {
			arg := strings.TrimSuffix(strings.TrimPrefix(v, "bytesPool.NewPool("), ")")
			okPool = arg != ""
			for _, ch := range arg {
				if ch < '0' || ch > '9' {
					okPool = false
				}
			}
		}
		imp := false
		for _, im := range f.Imports {
			if im.Name != nil && im.Name.Name == "bytesPool" && im.Path.Value == `"github.com/IrineSistiana/go-bytes-pool"` {
				imp = true
			}
		}
		ex.setBool(name, imp && okPool && others == 0 && len(vals) == 3 && vals["GetBuf"] == "_pool.Get" && vals["ReleaseBuf"] == "_pool.Release", true, note)
	})
}
