package main

// T1: a small Go -> Lean translator for pure, loop-free (or simply looping)
// functions. It follows the Go text statement by statement and emits one Lean
// `def` made of `let` bindings and `if … then … else …`. An `if` without else
// (or whose branches do not all return) is translated by duplicating the rest
// of the block into both branches, so early returns, conditional assignments
// and `switch` need no special treatment.
//
// Anything outside the supported subset makes translation fail loudly.

import (
	"bytes"
	"fmt"
	"go/ast"
	"go/parser"
	"go/printer"
	"go/token"
	"math/big"
	"os"
	"path/filepath"
	"sort"
	"strconv"
	"strings"
)

type ty string

const (
	tInt   ty = "Int"   // Go int (modelled unbounded)
	tU8    ty = "UInt8" // byte / uint8
	tU16   ty = "UInt16"
	tU32   ty = "UInt32"
	tU64   ty = "UInt64"
	tBool  ty = "Bool"
	tBytes ty = "Bytes" // []byte and string
	tConst ty = "const" // untyped numeric constant
	tAny   ty = "any"   // opaque (errors, external results)
)

type lx struct {
	s string   // Lean text
	t ty       // type
	c *big.Int // value when t == tConst
}

type fnSpec struct {
	File   string // path relative to the repo root
	Func   string // function name
	Recv   string // receiver type name ("" for plain functions)
	Lean   string // name of the generated def
	Params string // Lean binders
	Ret    string // Lean return type
	Vars   map[string]ty
	// Expr: printed Go expression -> Lean replacement (leaf substitution for
	// things the subset does not interpret: field reads on foreign structs,
	// library calls, named constants).
	Expr map[string]lx
	// Stmt: printed Go statement -> Lean text placed in front of the rest of
	// the block (must end with a newline). Escape hatch for I/O statements;
	// every use is visible here.
	Stmt map[string]string
	// StmtVars: variables (re)defined by a Stmt replacement.
	StmtVars map[string]map[string]ty
	Skip     []string // statements dropped (resource release, logging)
	// Alias: printed Go lvalue (a field of the receiver) -> local variable that stands for it;
	// assignments to it become re-bindings of that variable (reads go through Expr).
	Alias map[string]string
	// LoopBody: translate only the body of the innermost `for … range` loop of the function, as a
	// function of one element and the loop-carried variables; `continue` and falling off the end
	// of the body both yield Result (the loop structure itself is guarded by a T2 fact).
	LoopBody bool
	Result   string
	// SelectCase (with LoopBody): translate only the body of that case of the `select` statement in the innermost
	// loop; the string is the printed communication of the case, e.g. "res := <-resChan".
	SelectCase string
	// Fuel: name of the `Nat` parameter (declared in Params) that bounds the iterations of every translated
	// `for` loop: `for init; cond; post { body }` becomes `Go.loop fuel cond (body; post) state`, where the
	// state is the tuple of outer variables the loop assigns. Theorems state how much fuel suffices.
	Fuel string
	Doc  string
}

type translator struct {
	spec   *fnSpec
	fset   *token.FileSet
	consts map[string]*big.Int
	errs   []string
	// yields: what `continue` means inside the translated `for` loops currently open (innermost last)
	yields []func(env, string) string
}

func (tr *translator) fail(n ast.Node, format string, a ...any) {
	pos := tr.fset.Position(n.Pos())
	tr.errs = append(tr.errs, fmt.Sprintf("%s:%d: %s", pos.Filename, pos.Line, fmt.Sprintf(format, a...)))
}

func (tr *translator) str(n ast.Node) string {
	var b bytes.Buffer
	printer.Fprint(&b, tr.fset, n)
	return strings.Join(strings.Fields(b.String()), " ")
}

type env map[string]ty

func (e env) clone() env {
	m := env{}
	for k, v := range e {
		m[k] = v
	}
	return m
}

func leanIdent(s string) string {
	switch s {
	case "end", "from", "at", "then", "do", "fun", "open", "in", "local", "prefix", "show", "have", "by", "where", "with":
		return s + "_"
	}
	return s
}

func constLx(v *big.Int) lx { return lx{s: v.String(), t: tConst, c: v} }

func bitsOf(t ty) int {
	switch t {
	case tU8:
		return 8
	case tU16:
		return 16
	case tU32:
		return 32
	case tU64:
		return 64
	}
	return 0
}

// coerce renders e at type t (only untyped constants are converted).
func (tr *translator) coerce(n ast.Node, e lx, t ty) lx {
	if e.t == t || t == tAny || e.t == tAny {
		return e
	}
	if e.t == tConst {
		if bitsOf(t) > 0 {
			if e.c.Sign() < 0 || e.c.BitLen() > bitsOf(t) {
				tr.fail(n, "constant %s overflows %s", e.s, t)
			}
			return lx{s: fmt.Sprintf("(%s : %s)", e.c.String(), t), t: t}
		}
		if t == tInt {
			return lx{s: fmt.Sprintf("(%s : Int)", e.c.String()), t: tInt}
		}
	}
	tr.fail(n, "type mismatch: %s is %s, want %s", e.s, e.t, t)
	return e
}

func (tr *translator) unify(n ast.Node, a, b lx) (lx, lx, ty) {
	switch {
	case a.t == tConst && b.t == tConst:
		return a, b, tConst
	case a.t == tConst:
		return tr.coerce(n, a, b.t), b, b.t
	case b.t == tConst:
		return a, tr.coerce(n, b, a.t), a.t
	case a.t == b.t:
		return a, b, a.t
	case a.t == tAny || b.t == tAny:
		return a, b, tAny
	}
	tr.fail(n, "operand types differ: %s : %s vs %s : %s", a.s, a.t, b.s, b.t)
	return a, b, a.t
}

func (tr *translator) expr(e ast.Expr, en env) lx {
	if r, ok := tr.spec.Expr[tr.str(e)]; ok {
		return r
	}
	switch x := e.(type) {
	case *ast.ParenExpr:
		return tr.expr(x.X, en)
	case *ast.StarExpr: // *bp : pointers to slices are the slice itself in the model
		return tr.expr(x.X, en)
	case *ast.BasicLit:
		switch x.Kind {
		case token.INT:
			v, ok := new(big.Int).SetString(x.Value, 0)
			if !ok {
				tr.fail(e, "bad int literal %s", x.Value)
				v = big.NewInt(0)
			}
			return constLx(v)
		case token.CHAR:
			r, _, _, err := strconv.UnquoteChar(x.Value[1:len(x.Value)-1], '\'')
			if err != nil || r > 255 {
				tr.fail(e, "unsupported char literal %s", x.Value)
			}
			return constLx(big.NewInt(int64(r)))
		case token.STRING:
			s, err := strconv.Unquote(x.Value)
			if err != nil {
				tr.fail(e, "bad string literal")
			}
			var parts []string
			for _, b := range []byte(s) {
				parts = append(parts, strconv.Itoa(int(b)))
			}
			return lx{s: "([" + strings.Join(parts, ", ") + "] : Bytes)", t: tBytes}
		}
	case *ast.Ident:
		if x.Name == "true" || x.Name == "false" {
			return lx{s: x.Name, t: tBool}
		}
		if t, ok := en[x.Name]; ok {
			return lx{s: leanIdent(x.Name), t: t}
		}
		if v, ok := tr.consts[x.Name]; ok {
			return constLx(v)
		}
		tr.fail(e, "unknown identifier %s", x.Name)
		return lx{s: x.Name, t: tAny}
	case *ast.UnaryExpr:
		a := tr.expr(x.X, en)
		switch x.Op {
		case token.NOT:
			return lx{s: "(!" + tr.coerce(e, a, tBool).s + ")", t: tBool}
		case token.SUB:
			if a.t == tConst {
				return constLx(new(big.Int).Neg(a.c))
			}
			if a.t == tInt {
				return lx{s: "(-" + a.s + ")", t: tInt}
			}
		}
		tr.fail(e, "unsupported unary %s", x.Op)
		return a
	case *ast.BinaryExpr:
		return tr.binary(x, en)
	case *ast.CallExpr:
		return tr.call(x, en)
	case *ast.IndexExpr:
		a := tr.expr(x.X, en)
		i := tr.coerce(e, tr.expr(x.Index, en), tInt)
		if a.t != tBytes {
			tr.fail(e, "index of non-bytes %s", a.s)
		}
		return lx{s: fmt.Sprintf("(Go.idx %s %s)", a.s, i.s), t: tU8}
	case *ast.SliceExpr:
		a := tr.expr(x.X, en)
		if a.t != tBytes || x.Slice3 {
			tr.fail(e, "unsupported slice expression")
		}
		lo := "(0 : Int)"
		if x.Low != nil {
			lo = tr.coerce(e, tr.expr(x.Low, en), tInt).s
		}
		hi := fmt.Sprintf("(%s.length : Int)", a.s)
		if x.High != nil {
			hi = tr.coerce(e, tr.expr(x.High, en), tInt).s
		}
		return lx{s: fmt.Sprintf("(Go.slice %s %s %s)", a.s, lo, hi), t: tBytes}
	}
	tr.fail(e, "unsupported expression %s", tr.str(e))
	return lx{s: "sorryUnsupported", t: tAny}
}

func (tr *translator) binary(x *ast.BinaryExpr, en env) lx {
	a := tr.expr(x.X, en)
	b := tr.expr(x.Y, en)
	switch x.Op {
	case token.LAND, token.LOR:
		op := map[token.Token]string{token.LAND: "&&", token.LOR: "||"}[x.Op]
		return lx{s: fmt.Sprintf("(%s %s %s)", tr.coerce(x, a, tBool).s, op, tr.coerce(x, b, tBool).s), t: tBool}
	case token.SHL, token.SHR:
		if a.t == tConst && b.t == tConst {
			if x.Op == token.SHL {
				return constLx(new(big.Int).Lsh(a.c, uint(b.c.Int64())))
			}
			return constLx(new(big.Int).Rsh(a.c, uint(b.c.Int64())))
		}
		if b.t != tConst {
			tr.fail(x, "shift by a non-constant amount")
			return a
		}
		w := bitsOf(a.t)
		if w == 0 {
			tr.fail(x, "shift of %s", a.t)
			return a
		}
		// Go: shifting a w-bit unsigned value by >= w bits gives 0; Lean's
		// UIntN shifts reduce the amount mod w, so that case is made explicit.
		if b.c.Cmp(big.NewInt(int64(w))) >= 0 {
			return lx{s: fmt.Sprintf("(0 : %s)", a.t), t: a.t}
		}
		op := "<<<"
		if x.Op == token.SHR {
			op = ">>>"
		}
		return lx{s: fmt.Sprintf("(%s %s %s)", a.s, op, b.c.String()), t: a.t}
	}
	a, b, t := tr.unify(x, a, b)
	switch x.Op {
	case token.EQL, token.NEQ:
		op := "=="
		if x.Op == token.NEQ {
			op = "!="
		}
		return lx{s: fmt.Sprintf("(%s %s %s)", a.s, op, b.s), t: tBool}
	case token.LSS, token.LEQ, token.GTR, token.GEQ:
		if t == tConst {
			return lx{s: strconv.FormatBool(cmpConst(x.Op, a.c, b.c)), t: tBool}
		}
		return lx{s: fmt.Sprintf("(decide (%s %s %s))", a.s, map[token.Token]string{token.LSS: "<", token.LEQ: "≤", token.GTR: ">", token.GEQ: "≥"}[x.Op], b.s), t: tBool}
	case token.ADD, token.SUB, token.MUL:
		if t == tConst {
			r := new(big.Int)
			switch x.Op {
			case token.ADD:
				r.Add(a.c, b.c)
			case token.SUB:
				r.Sub(a.c, b.c)
			case token.MUL:
				r.Mul(a.c, b.c)
			}
			return constLx(r)
		}
		if t == tBytes && x.Op == token.ADD {
			return lx{s: fmt.Sprintf("(%s ++ %s)", a.s, b.s), t: tBytes}
		}
		if t != tInt && bitsOf(t) == 0 {
			tr.fail(x, "arithmetic on %s", t)
		}
		return lx{s: fmt.Sprintf("(%s %s %s)", a.s, x.Op.String(), b.s), t: t}
	case token.AND, token.OR, token.XOR:
		if t == tConst {
			r := new(big.Int)
			switch x.Op {
			case token.AND:
				r.And(a.c, b.c)
			case token.OR:
				r.Or(a.c, b.c)
			case token.XOR:
				r.Xor(a.c, b.c)
			}
			return constLx(r)
		}
		if bitsOf(t) == 0 {
			tr.fail(x, "bit operation on %s", t)
		}
		op := map[token.Token]string{token.AND: "&&&", token.OR: "|||", token.XOR: "^^^"}[x.Op]
		return lx{s: fmt.Sprintf("(%s %s %s)", a.s, op, b.s), t: t}
	case token.QUO, token.REM:
		if b.c == nil && !strings.HasPrefix(b.s, "(") {
			tr.fail(x, "division by a non-constant")
		}
		if t == tInt {
			f := "Int.tdiv"
			if x.Op == token.REM {
				f = "Int.tmod"
			}
			return lx{s: fmt.Sprintf("(%s %s %s)", f, a.s, b.s), t: t}
		}
		return lx{s: fmt.Sprintf("(%s %s %s)", a.s, x.Op.String(), b.s), t: t}
	}
	tr.fail(x, "unsupported operator %s", x.Op)
	return a
}

func cmpConst(op token.Token, a, b *big.Int) bool {
	c := a.Cmp(b)
	switch op {
	case token.LSS:
		return c < 0
	case token.LEQ:
		return c <= 0
	case token.GTR:
		return c > 0
	}
	return c >= 0
}

func (tr *translator) conv(n ast.Node, to ty, a lx) lx {
	if a.t == tConst {
		return tr.coerce(n, a, to)
	}
	if a.t == to {
		return a
	}
	if to == tInt {
		if bitsOf(a.t) > 0 {
			return lx{s: fmt.Sprintf("(%s.toNat : Int)", a.s), t: tInt}
		}
	}
	if bitsOf(to) > 0 {
		if a.t == tInt {
			return lx{s: fmt.Sprintf("(Go.int%s %s)", strings.TrimPrefix(string(to), "UInt"), a.s), t: to}
		}
		if bitsOf(a.t) > 0 {
			return lx{s: fmt.Sprintf("%s.to%s", a.s, to), t: to}
		}
	}
	tr.fail(n, "unsupported conversion %s -> %s", a.t, to)
	return a
}

func (tr *translator) call(x *ast.CallExpr, en env) lx {
	fn := tr.str(x.Fun)
	arg := func(i int) lx { return tr.expr(x.Args[i], en) }
	switch fn {
	case "byte", "uint8":
		return tr.conv(x, tU8, arg(0))
	case "uint16":
		return tr.conv(x, tU16, arg(0))
	case "uint32":
		return tr.conv(x, tU32, arg(0))
	case "uint64":
		return tr.conv(x, tU64, arg(0))
	case "int", "time.Duration":
		// time.Duration is an int64; like Go's int it is modelled unbounded (values here stay far below 2^63)
		return tr.conv(x, tInt, arg(0))
	case "strings.LastIndexByte", "bytes.LastIndexByte":
		a := tr.coerce(x, arg(0), tBytes)
		c := tr.coerce(x, arg(1), tU8)
		return lx{s: fmt.Sprintf("(Go.lastIndexByte %s %s)", a.s, c.s), t: tInt}
	case "min":
		if len(x.Args) == 2 {
			a, b, t := tr.unify(x, arg(0), arg(1))
			return lx{s: fmt.Sprintf("(min %s %s)", a.s, b.s), t: t}
		}
	case "string", "[]byte", "utils.BytesToStringUnsafe":
		return tr.coerce(x, arg(0), tBytes)
	case "len":
		a := arg(0)
		if a.t != tBytes {
			tr.fail(x, "len of %s", a.t)
		}
		return lx{s: fmt.Sprintf("(%s.length : Int)", a.s), t: tInt}
	case "make":
		if tr.str(x.Args[0]) == "[]byte" && len(x.Args) == 2 {
			n := tr.coerce(x, arg(1), tInt)
			return lx{s: fmt.Sprintf("(Go.make %s)", n.s), t: tBytes}
		}
	case "pool.GetBuf", "GetBuf":
		n := tr.coerce(x, arg(0), tInt)
		return lx{s: fmt.Sprintf("(Go.make %s)", n.s), t: tBytes}
	case "binary.BigEndian.Uint16":
		return lx{s: fmt.Sprintf("(Go.getU16 %s)", tr.coerce(x, arg(0), tBytes).s), t: tU16}
	}
	tr.fail(x, "unsupported call %s", tr.str(x))
	return lx{s: "sorryUnsupported", t: tAny}
}

// lvalueBytes recognises  X  /  *X  /  (*X)[k:]  /  X[k:]  /  (*X)[:k]  as "bytes
// variable X at offset k" for in-place writes (copy, PutUint16).
func (tr *translator) lvalueBytes(e ast.Expr, en env) (name string, off lx, ok bool) {
	zero := lx{s: "(0 : Int)", t: tInt}
	switch x := e.(type) {
	case *ast.ParenExpr:
		return tr.lvalueBytes(x.X, en)
	case *ast.StarExpr:
		return tr.lvalueBytes(x.X, en)
	case *ast.Ident:
		if en[x.Name] == tBytes {
			return x.Name, zero, true
		}
	case *ast.SliceExpr:
		n, o, ok := tr.lvalueBytes(x.X, en)
		if !ok || x.Slice3 {
			return "", zero, false
		}
		if x.Low != nil {
			lo := tr.coerce(e, tr.expr(x.Low, en), tInt)
			if o.s == zero.s {
				o = lo
			} else {
				o = lx{s: fmt.Sprintf("(%s + %s)", o.s, lo.s), t: tInt}
			}
		}
		// an upper bound only limits how much may be written; the writes we
		// support (PutUint16 into [:2]) stay inside it.
		return n, o, true
	}
	return "", zero, false
}

// block translates stmts; `rest` (already Lean text) is what follows when the
// block falls through. Returns Lean text of an expression.
func (tr *translator) block(stmts []ast.Stmt, en env, ind string, rest func(env, string) string) string {
	if len(stmts) == 0 {
		return rest(en, ind)
	}
	s := stmts[0]
	next := func(en env, ind string) string { return tr.block(stmts[1:], en, ind, rest) }
	key := tr.str(s)
	for _, sk := range tr.spec.Skip {
		if sk == key {
			return next(en, ind)
		}
	}
	if rep, ok := tr.spec.Stmt[key]; ok {
		en2 := en.clone()
		for k, v := range tr.spec.StmtVars[key] {
			en2[k] = v
		}
		if strings.HasPrefix(rep, "return ") {
			return ind + strings.TrimPrefix(rep, "return ")
		}
		if rep == "" {
			return next(en2, ind)
		}
		return ind + strings.ReplaceAll(rep, "\n", "\n"+ind) + "\n" + next(en2, ind)
	}
	switch x := s.(type) {
	case *ast.ReturnStmt:
		var parts []string
		for _, r := range x.Results {
			parts = append(parts, tr.expr(r, en).s)
		}
		if len(parts) == 1 {
			return ind + parts[0]
		}
		return ind + "(" + strings.Join(parts, ", ") + ")"
	case *ast.DeclStmt:
		gd := x.Decl.(*ast.GenDecl)
		if gd.Tok == token.CONST {
			tr.constDecl(gd)
			return next(en, ind)
		}
		if gd.Tok == token.VAR {
			out := ""
			en2 := en.clone()
			for _, sp := range gd.Specs {
				vs := sp.(*ast.ValueSpec)
				t := tr.goType(vs.Type)
				for i, n := range vs.Names {
					var v lx
					if i < len(vs.Values) {
						v = tr.coerce(s, tr.expr(vs.Values[i], en), t)
					} else {
						v = tr.zero(s, t)
					}
					out += fmt.Sprintf("%slet %s : %s := %s\n", ind, leanIdent(n.Name), leanTy(t), v.s)
					en2[n.Name] = t
				}
			}
			return out + next(en2, ind)
		}
	case *ast.AssignStmt:
		if len(x.Lhs) > 1 && len(x.Lhs) == len(x.Rhs) && (x.Tok == token.DEFINE || x.Tok == token.ASSIGN) {
			// i, j := a, b   (parallel assignment: all right-hand sides are evaluated first)
			en2 := en.clone()
			var names, vals []string
			okAll := true
			for k := range x.Lhs {
				id, isId := x.Lhs[k].(*ast.Ident)
				if !isId {
					okAll = false
					break
				}
				v := tr.expr(x.Rhs[k], en)
				if x.Tok == token.DEFINE {
					if v.t == tConst {
						v = tr.coerce(s, v, tInt)
					}
					en2[id.Name] = v.t
				} else {
					v = tr.coerce(s, v, en[id.Name])
				}
				names = append(names, leanIdent(id.Name))
				vals = append(vals, v.s)
			}
			if okAll {
				return fmt.Sprintf("%slet (%s) := (%s)\n", ind, strings.Join(names, ", "), strings.Join(vals, ", ")) + next(en2, ind)
			}
		}
		if len(x.Lhs) == 1 && len(x.Rhs) == 1 {
			// buf[i] = e
			if ix, ok := x.Lhs[0].(*ast.IndexExpr); ok && x.Tok == token.ASSIGN {
				name, off, ok := tr.lvalueBytes(ix.X, en)
				if ok && off.s == "(0 : Int)" {
					i := tr.coerce(s, tr.expr(ix.Index, en), tInt)
					v := tr.coerce(s, tr.expr(x.Rhs[0], en), tU8)
					return fmt.Sprintf("%slet %s := Go.set %s %s %s\n", ind, leanIdent(name), leanIdent(name), i.s, v.s) + next(en, ind)
				}
			}
			// *payload = (*payload)[:n] and friends are plain assignments
			lhs := x.Lhs[0]
			if st, ok := lhs.(*ast.StarExpr); ok {
				lhs = st.X
			}
			if a, ok := tr.spec.Alias[tr.str(lhs)]; ok {
				lhs = &ast.Ident{Name: a, NamePos: lhs.Pos()}
			}
			if id, ok := lhs.(*ast.Ident); ok {
				v := tr.expr(x.Rhs[0], en)
				en2 := en.clone()
				switch x.Tok {
				case token.DEFINE:
					if v.t == tConst {
						v = tr.coerce(s, v, tInt)
					}
					en2[id.Name] = v.t
				case token.ASSIGN:
					v = tr.coerce(s, v, en[id.Name])
				case token.ADD_ASSIGN, token.SUB_ASSIGN, token.OR_ASSIGN, token.AND_ASSIGN:
					op := map[token.Token]token.Token{token.ADD_ASSIGN: token.ADD, token.SUB_ASSIGN: token.SUB, token.OR_ASSIGN: token.OR, token.AND_ASSIGN: token.AND}[x.Tok]
					v = tr.binary(&ast.BinaryExpr{X: id, Op: op, Y: x.Rhs[0], OpPos: x.Pos()}, en)
				default:
					tr.fail(s, "unsupported assignment operator")
				}
				if id.Name == "_" {
					return next(en, ind)
				}
				return fmt.Sprintf("%slet %s : %s := %s\n", ind, leanIdent(id.Name), leanTy(v.t), v.s) + next(en2, ind)
			}
		}
	case *ast.IncDecStmt:
		target := x.X
		if a, ok := tr.spec.Alias[tr.str(target)]; ok {
			target = &ast.Ident{Name: a, NamePos: target.Pos()}
		}
		if id, ok := target.(*ast.Ident); ok {
			op := "+"
			if x.Tok == token.DEC {
				op = "-"
			}
			return fmt.Sprintf("%slet %s := %s %s 1\n", ind, leanIdent(id.Name), leanIdent(id.Name), op) + next(en, ind)
		}
	case *ast.ExprStmt:
		if c, ok := x.X.(*ast.CallExpr); ok {
			switch tr.str(c.Fun) {
			case "copy":
				name, off, ok := tr.lvalueBytes(c.Args[0], en)
				if ok {
					src := tr.coerce(s, tr.expr(c.Args[1], en), tBytes)
					return fmt.Sprintf("%slet %s := Go.copyAt %s %s %s\n", ind, leanIdent(name), leanIdent(name), off.s, src.s) + next(en, ind)
				}
			case "binary.BigEndian.PutUint16":
				name, off, ok := tr.lvalueBytes(c.Args[0], en)
				if ok {
					v := tr.coerce(s, tr.expr(c.Args[1], en), tU16)
					return fmt.Sprintf("%slet %s := Go.putU16 %s %s %s\n", ind, leanIdent(name), leanIdent(name), off.s, v.s) + next(en, ind)
				}
			}
		}
	case *ast.BranchStmt:
		if x.Tok == token.CONTINUE && x.Label == nil && len(tr.yields) > 0 {
			return tr.yields[len(tr.yields)-1](en, ind)
		}
		if x.Tok == token.CONTINUE && x.Label == nil && tr.spec.LoopBody {
			return ind + tr.spec.Result
		}
	case *ast.ForStmt:
		if tr.spec.Fuel == "" {
			break
		}
		if x.Init != nil {
			return tr.block([]ast.Stmt{x.Init, &ast.ForStmt{For: x.For, Cond: x.Cond, Post: x.Post, Body: x.Body}}, en, ind, next)
		}
		vars, okLoop := tr.loopState(x, en)
		if !okLoop {
			break
		}
		var tys []string
		for _, v := range vars {
			tys = append(tys, leanTy(en[v]))
		}
		pat, typ := leanIdent(vars[0]), tys[0]
		if len(vars) > 1 {
			var ids []string
			for _, v := range vars {
				ids = append(ids, leanIdent(v))
			}
			pat, typ = "("+strings.Join(ids, ", ")+")", strings.Join(tys, " × ")
		}
		cond := "true"
		if x.Cond != nil {
			cond = tr.coerce(s, tr.expr(x.Cond, en), tBool).s
		}
		yield := func(en env, ind string) string {
			if x.Post != nil {
				return tr.block([]ast.Stmt{x.Post}, en, ind, func(_ env, ind string) string { return ind + pat })
			}
			return ind + pat
		}
		tr.yields = append(tr.yields, yield)
		bodyTxt := tr.block(x.Body.List, en, ind+"    ", yield)
		tr.yields = tr.yields[:len(tr.yields)-1]
		binder := pat
		if len(vars) > 1 {
			binder = "(" + pat + " : " + typ + ")"
		} else {
			binder = "(" + pat + " : " + typ + ")"
		}
		return fmt.Sprintf("%slet %s := Go.loop %s (fun %s => %s) (fun %s =>\n%s) %s\n", ind, pat, tr.spec.Fuel, binder, cond, binder, bodyTxt, pat) + next(en, ind)
	case *ast.BlockStmt:
		return tr.block(x.List, en, ind, next)
	case *ast.IfStmt:
		en2 := en
		pre := ""
		if x.Init != nil {
			// translate `if init; cond {…}` as init followed by the if; names
			// bound by init shadow correctly because Lean lets are lexical.
			return tr.block([]ast.Stmt{x.Init, &ast.IfStmt{If: x.If, Cond: x.Cond, Body: x.Body, Else: x.Else}}, en, ind, next)
		}
		c := tr.coerce(s, tr.expr(x.Cond, en2), tBool)
		// Conditional assignment without escape: `if c { v = e }` becomes
		// `let v := if c then (…; v) else v` instead of duplicating the rest.
		if vars, ok := tr.pureAssignIf(x, en2); ok {
			tuple := strings.Join(vars, ", ")
			if len(vars) > 1 {
				tuple = "(" + tuple + ")"
			}
			ret := func(env, string) string { return ind + "    " + tuple }
			thenTxt := tr.block(x.Body.List, en2, ind+"    ", ret)
			elseTxt := ind + "    " + tuple
			if eb, ok := x.Else.(*ast.BlockStmt); ok {
				elseTxt = tr.block(eb.List, en2, ind+"    ", ret)
			}
			return fmt.Sprintf("%slet %s :=\n%s  if %s then\n%s\n%s  else\n%s\n", ind, tuple, ind, c.s, thenTxt, ind, elseTxt) + next(en2, ind)
		}
		thenTxt := tr.block(x.Body.List, en2, ind+"  ", next)
		var elseTxt string
		switch e := x.Else.(type) {
		case nil:
			elseTxt = next(en2, ind+"  ")
		case *ast.BlockStmt:
			elseTxt = tr.block(e.List, en2, ind+"  ", next)
		case *ast.IfStmt:
			elseTxt = tr.block([]ast.Stmt{e}, en2, ind+"  ", next)
		}
		return fmt.Sprintf("%s%sif %s then\n%s\n%selse\n%s", pre, ind, c.s, thenTxt, ind, elseTxt)
	case *ast.SwitchStmt:
		if x.Init != nil {
			break
		}
		// switch tag { case a, b: … default: … }  ->  if chain (no fallthrough)
		var chain ast.Stmt
		var dflt *ast.CaseClause
		var clauses []*ast.CaseClause
		for _, cs := range x.Body.List {
			cc := cs.(*ast.CaseClause)
			if cc.List == nil {
				dflt = cc
			} else {
				clauses = append(clauses, cc)
			}
		}
		var elseS ast.Stmt
		if dflt != nil {
			elseS = &ast.BlockStmt{List: dflt.Body}
		}
		for i := len(clauses) - 1; i >= 0; i-- {
			cc := clauses[i]
			var cond ast.Expr
			for _, v := range cc.List {
				var c ast.Expr = v
				if x.Tag != nil {
					c = &ast.BinaryExpr{X: x.Tag, Op: token.EQL, Y: v, OpPos: v.Pos()}
				}
				if cond == nil {
					cond = c
				} else {
					cond = &ast.BinaryExpr{X: cond, Op: token.LOR, Y: c, OpPos: v.Pos()}
				}
			}
			chain = &ast.IfStmt{If: cc.Pos(), Cond: cond, Body: &ast.BlockStmt{List: cc.Body}, Else: elseS}
			elseS = chain
		}
		if chain == nil {
			if dflt != nil {
				return tr.block(dflt.Body, en, ind, next)
			}
			return next(en, ind)
		}
		return tr.block([]ast.Stmt{chain}, en, ind, next)
	}
	tr.fail(s, "unsupported statement: %s", key)
	return ind + "sorryUnsupported"
}

// loopState lists (sorted) the variables declared outside the loop that its body or post statement assign;
// a loop that returns, breaks, jumps or defines closures is outside the subset.
func (tr *translator) loopState(x *ast.ForStmt, en env) ([]string, bool) {
	seen := map[string]bool{}
	ok := true
	note := func(e ast.Expr) {
		if st, isStar := e.(*ast.StarExpr); isStar {
			e = st.X
		}
		if a, isAlias := tr.spec.Alias[tr.str(e)]; isAlias {
			e = &ast.Ident{Name: a}
		}
		if id, isId := e.(*ast.Ident); isId {
			if _, outer := en[id.Name]; outer {
				seen[id.Name] = true
			}
		}
	}
	var visit func(n ast.Node) bool
	visit = func(n ast.Node) bool {
		switch y := n.(type) {
		case *ast.ReturnStmt, *ast.FuncLit, *ast.GoStmt, *ast.DeferStmt, *ast.LabeledStmt:
			ok = false
		case *ast.BranchStmt:
			if y.Tok != token.CONTINUE || y.Label != nil {
				ok = false
			}
		case *ast.ForStmt:
			if y != x {
				ok = false // nested loops: not needed so far
			}
		case *ast.RangeStmt:
			ok = false
		case *ast.AssignStmt:
			if rep, isRep := tr.spec.Stmt[tr.str(y)]; isRep {
				_ = rep
				for v := range tr.spec.StmtVars[tr.str(y)] {
					if _, outer := en[v]; outer {
						seen[v] = true
					}
				}
				return false
			}
			if y.Tok != token.DEFINE {
				for _, l := range y.Lhs {
					if ix, isIx := l.(*ast.IndexExpr); isIx {
						if name, _, okB := tr.lvalueBytes(ix.X, en); okB {
							seen[name] = true
						}
						continue
					}
					note(l)
				}
			}
		case *ast.IncDecStmt:
			note(y.X)
		case *ast.ExprStmt:
			if c, isCall := y.X.(*ast.CallExpr); isCall {
				switch tr.str(c.Fun) {
				case "copy", "binary.BigEndian.PutUint16":
					if name, _, okB := tr.lvalueBytes(c.Args[0], en); okB {
						seen[name] = true
					}
				}
			}
		}
		return ok
	}
	ast.Inspect(x.Body, visit)
	if x.Post != nil {
		ast.Inspect(x.Post, visit)
	}
	if !ok {
		tr.fail(x, "loop outside the subset (return / break / nested loop / closure inside)")
		return nil, false
	}
	var vars []string
	for v := range seen {
		vars = append(vars, v)
	}
	sort.Strings(vars)
	if len(vars) == 0 {
		tr.fail(x, "loop assigns no outer variable")
		return nil, false
	}
	return vars, true
}

// pureAssignIf reports whether the if statement (with optional else block)
// only assigns to variables that already exist, and lists them.
func (tr *translator) pureAssignIf(x *ast.IfStmt, en env) ([]string, bool) {
	seen := map[string]bool{}
	var vars []string
	ok := true
	var walk func(list []ast.Stmt)
	walk = func(list []ast.Stmt) {
		for _, st := range list {
			as, isAs := st.(*ast.AssignStmt)
			if !isAs || len(as.Lhs) != 1 || as.Tok == token.DEFINE {
				ok = false
				return
			}
			if _, skip := tr.spec.Stmt[tr.str(st)]; skip {
				ok = false
				return
			}
			id, isId := as.Lhs[0].(*ast.Ident)
			if !isId {
				ok = false
				return
			}
			if _, exists := en[id.Name]; !exists {
				ok = false
				return
			}
			if !seen[id.Name] {
				seen[id.Name] = true
				vars = append(vars, leanIdent(id.Name))
			}
		}
	}
	walk(x.Body.List)
	switch e := x.Else.(type) {
	case nil:
	case *ast.BlockStmt:
		walk(e.List)
	default:
		ok = false
	}
	return vars, ok && len(vars) > 0
}

func (tr *translator) goType(e ast.Expr) ty {
	switch tr.str(e) {
	case "int", "time.Duration":
		return tInt
	case "byte", "uint8":
		return tU8
	case "uint16":
		return tU16
	case "uint32":
		return tU32
	case "uint64":
		return tU64
	case "bool":
		return tBool
	case "string", "[]byte", "*[]byte":
		return tBytes
	}
	tr.fail(e, "unsupported type %s", tr.str(e))
	return tAny
}

func leanTy(t ty) string {
	if t == tAny || t == tConst {
		return "_"
	}
	return string(t)
}

func (tr *translator) zero(n ast.Node, t ty) lx {
	switch t {
	case tBool:
		return lx{s: "false", t: t}
	case tBytes:
		return lx{s: "([] : Bytes)", t: t}
	case tInt, tU8, tU16, tU32, tU64:
		return lx{s: "0", t: t}
	}
	tr.fail(n, "no zero value for %s", t)
	return lx{s: "default", t: t}
}

func (tr *translator) constDecl(gd *ast.GenDecl) {
	var last ast.Expr
	for i, sp := range gd.Specs {
		vs := sp.(*ast.ValueSpec)
		var e ast.Expr
		if len(vs.Values) > 0 {
			e = vs.Values[0]
			last = e
		} else {
			e = last
		}
		if e == nil {
			continue
		}
		tr.consts["iota"] = big.NewInt(int64(i))
		nerr := len(tr.errs)
		v := tr.expr(e, env{})
		if v.t == tConst && len(tr.errs) == nerr {
			for _, n := range vs.Names {
				tr.consts[n.Name] = v.c
			}
		} else {
			tr.errs = tr.errs[:nerr] // non-numeric constants are simply not recorded
		}
	}
	delete(tr.consts, "iota")
}

func translateFn(repo string, sp *fnSpec) (string, error) {
	fset := token.NewFileSet()
	path := filepath.Join(repo, sp.File)
	f, err := parser.ParseFile(fset, path, nil, parser.ParseComments)
	if err != nil {
		return "", err
	}
	tr := &translator{spec: sp, fset: fset, consts: map[string]*big.Int{}}
	// package-level numeric constants of the file (and of sibling files are
	// supplied through sp.Expr when needed)
	for _, d := range f.Decls {
		if gd, ok := d.(*ast.GenDecl); ok && gd.Tok == token.CONST {
			tr.constDecl(gd)
		}
	}
	var fd *ast.FuncDecl
	for _, d := range f.Decls {
		if x, ok := d.(*ast.FuncDecl); ok && x.Name.Name == sp.Func {
			recv := ""
			if x.Recv != nil && len(x.Recv.List) > 0 {
				recv = strings.TrimPrefix(tr.str(x.Recv.List[0].Type), "*")
			}
			if recv == sp.Recv {
				fd = x
			}
		}
	}
	if fd == nil {
		return "", fmt.Errorf("%s: function %s not found", sp.File, sp.Func)
	}
	en := env{}
	for k, v := range sp.Vars {
		en[k] = v
	}
	stmts := fd.Body.List
	fallOff := func(env, string) string {
		tr.fail(fd, "function may fall off its end")
		return "sorryUnsupported"
	}
	if sp.LoopBody {
		var inner *ast.BlockStmt
		ast.Inspect(fd.Body, func(n ast.Node) bool {
			switch r := n.(type) {
			case *ast.RangeStmt:
				inner = r.Body // pre-order: the last loop visited on the first nesting path is the innermost
			case *ast.ForStmt:
				inner = r.Body
			}
			return true
		})
		if inner == nil {
			return "", fmt.Errorf("%s.%s: no loop found", sp.File, sp.Func)
		}
		stmts = inner.List
		if sp.SelectCase != "" {
			var body []ast.Stmt
			found := 0
			for _, st := range inner.List {
				sel, ok := st.(*ast.SelectStmt)
				if !ok {
					continue
				}
				for _, cc := range sel.Body.List {
					if c, ok := cc.(*ast.CommClause); ok && c.Comm != nil && tr.str(c.Comm) == sp.SelectCase {
						body = c.Body
						found++
					}
				}
			}
			if found != 1 {
				return "", fmt.Errorf("%s.%s: select case %q found %d times in the innermost loop", sp.File, sp.Func, sp.SelectCase, found)
			}
			stmts = body
		}
		fallOff = func(_ env, ind string) string { return ind + sp.Result }
	}
	body := tr.block(stmts, en, "  ", fallOff)
	if len(tr.errs) > 0 {
		sort.Strings(tr.errs)
		return "", fmt.Errorf("cannot translate %s.%s:\n  %s", sp.File, sp.Func, strings.Join(tr.errs, "\n  "))
	}
	pos := fset.Position(fd.Pos())
	var b strings.Builder
	fmt.Fprintf(&b, "/-- generated from %s:%d `%s`%s -/\n", sp.File, pos.Line, sp.Func, sp.Doc)
	fmt.Fprintf(&b, "def %s %s : %s :=\n%s\n", sp.Lean, sp.Params, sp.Ret, body)
	return b.String(), nil
}

func writeIfChanged(path string, data []byte) error {
	old, err := os.ReadFile(path)
	if err == nil && bytes.Equal(old, data) {
		return nil
	}
	if err := os.MkdirAll(filepath.Dir(path), 0o755); err != nil {
		return err
	}
	return os.WriteFile(path, data, 0o644)
}
