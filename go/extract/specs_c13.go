package main

// C13: ip_set plugins that reference other sets (T1): the bodies of the two loops that decide what a
// set of sets answers - MatcherGroup.Match over the members, NewIPSet over the `sets:` list.
func init() {
	fnSpecs = append(fnSpecs,
		groupSpec{Group: "Netlist", fnSpec: fnSpec{
			File: "plugin/data_provider/ip_set/ip_set.go", Func: "Match", Recv: "MatcherGroup", LoopBody: true, Result: "false",
			Lean: "matcherGroupMatchStep", Params: "(hit : Bool)", Ret: "Bool",
			Expr: map[string]lx{"m.Match(addr)": b("hit")},
			Doc:  "; the body of the loop over the members of a group: `hit` = what the member answers for the address; true = the call returns true now, false = go on with the next member (the `return false` after the loop is the fact c13GroupMatchShape)",
		}},
		groupSpec{Group: "Netlist", fnSpec: fnSpec{
			File: "plugin/data_provider/ip_set/ip_set.go", Func: "NewIPSet", LoopBody: true, Result: "some mg",
			Lean: "newIPSetAddSet", Params: "{M : Type} (mg : List M) (referenced : Option M)", Ret: "Option (List M)",
			Stmt: map[string]string{
				"provider, _ := bp.M().GetPlugin(tag).(data_provider.IPMatcherProvider)": "match referenced with\n| none => none\n| some provider =>",
				"p.mg = append(p.mg, provider.GetIPMatcher())":                           "let mg := mg ++ [provider]",
			},
			Skip: []string{`if provider == nil { return nil, fmt.Errorf("%s is not an IPMatcherProvider", tag) }`},
			Doc:  "; the body of the loop over `sets:`: `mg` = the members collected so far (p.mg), `referenced` = the matcher of the plugin with that tag (none = no such IPMatcherProvider: the skipped `if provider == nil` returns the error); result = p.mg after this reference. Which backing array the appended slice lives in is not part of this value-level reading: see the facts c13IPSetMg* and Props.C13.Slices",
		}},
	)
}
