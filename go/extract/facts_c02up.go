package main

import (
	"go/ast"
	"os"
	"path/filepath"
	"sort"
	"strings"
)

// C02, second part: the DoQ exchanger's wait (no close notification competes with the reply) and the
// event-observer layer of pkg/upstream between the transports and the socket (Read is the embedded one).
func init() {
	factFuncs = append(factFuncs, func(ex *factExtractor) {
		const qrel = "pkg/upstream/transport/conn_quic.go"
		qex := ex.fn(qrel, "quicReservedExchanger", "ExchangeReserved")
		var capV int64
		capOK, nMake := false, 0
		nSel, selOK := 0, false
		sendOK, nSend := false, 0
		if qex != nil {
			ast.Inspect(qex.Body, func(x ast.Node) bool {
				switch n := x.(type) {
				case *ast.AssignStmt:
					if len(n.Lhs) == 1 && ex.str(n.Lhs[0]) == "rc" && len(n.Rhs) == 1 {
						if c, isCall := n.Rhs[0].(*ast.CallExpr); isCall && ex.str(c.Fun) == "make" {
							nMake++
							if len(c.Args) == 1 {
								capV, capOK = 0, true
							} else if len(c.Args) == 2 {
								capV, capOK = ex.intLit(c.Args[1], nil)
							}
						}
					}
				case *ast.SelectStmt:
					nSel++
					var cases []string
					for _, cl := range n.Body.List {
						cc := cl.(*ast.CommClause)
						if cc.Comm == nil {
							cases = append(cases, "default")
						} else {
							cases = append(cases, ex.str(cc.Comm))
						}
					}
					sort.Strings(cases)
					selOK = strings.Join(cases, " | ") == "<-ctx.Done() | r := <-rc"
				case *ast.SendStmt:
					if ex.str(n.Chan) == "rc" {
						nSend++
						sendOK = true
					}
				case *ast.FuncLit:
					// the reader goroutine: its body is `r, err := ReadRawMsgFromTCP(stream); rc <- ...` with no branch around the send
					for _, st := range n.Body.List {
						switch st.(type) {
						case *ast.AssignStmt, *ast.SendStmt:
						default:
							sendOK = false
							nSend += 100
						}
					}
				}
				return true
			})
		}
		ex.setNat("c02QuicRespChanCap", capV, capOK && nMake == 1, "quicReservedExchanger.ExchangeReserved: rc := make(chan res, N)")
		ex.setBool("c02QuicWaitOnlyCtxAndReply", nSel == 1 && selOK && sendOK && nSend == 1, qex != nil,
			"quicReservedExchanger.ExchangeReserved: its only select has exactly the cases `<-ctx.Done()` and `r := <-rc` (no close notification of the connection competes with a reply that was read), and the reader goroutine sends what it read on rc unconditionally")

		// ---- the observer layer: connWrapper embeds net.Conn and declares no method but Close, so Read (and Write,
		// the deadlines) are the connection's own: whatever a Read returns, data together with an error included, is
		// what the transport sees
		dir := "pkg/upstream"
		ents, err := os.ReadDir(filepath.Join(ex.repo, dir))
		known := err == nil
		var methods []string
		embeds := false
		nType := 0
		for _, e := range ents {
			if e.IsDir() || !strings.HasSuffix(e.Name(), ".go") || strings.HasSuffix(e.Name(), "_test.go") {
				continue
			}
			f := ex.file(dir + "/" + e.Name())
			if f == nil {
				known = false
				continue
			}
			for _, d := range f.Decls {
				switch n := d.(type) {
				case *ast.FuncDecl:
					if n.Recv != nil && len(n.Recv.List) > 0 && strings.TrimPrefix(ex.str(n.Recv.List[0].Type), "*") == "connWrapper" {
						methods = append(methods, n.Name.Name)
					}
				case *ast.GenDecl:
					for _, sp := range n.Specs {
						ts, isTS := sp.(*ast.TypeSpec)
						if !isTS || ts.Name.Name != "connWrapper" {
							continue
						}
						nType++
						if st, isSt := ts.Type.(*ast.StructType); isSt {
							for _, fl := range st.Fields.List {
								if len(fl.Names) == 0 && ex.str(fl.Type) == "net.Conn" {
									embeds = true
								}
							}
						}
					}
				}
			}
		}
		sort.Strings(methods)
		ex.setBool("c02ObserverLayerKeepsRead", embeds && strings.Join(methods, ",") == "Close", known && nType == 1,
			"pkg/upstream: connWrapper (what wrapConn puts around every tcp / tls connection of an upstream with an EventObserver) embeds net.Conn and declares exactly one method, Close: Read is the wrapped connection's own")
	})
}
