package main

import (
	"go/ast"
)

// C16: what the connection loop of ServeTCP does when reading a frame fails. ReadMsgFromTCP is not resumable: after a
// failed read (deadline inside a frame, short read, bad length) the position in the byte stream is unknown, so the
// only thing the loop may do is give the connection up. The fact is `some true` when the statement following the
// single `dnsutils.ReadMsgFromTCP(c)` of the loop is exactly `if err != nil { return }` and the goroutine closes the
// connection on return (`defer c.Close()`); any other reaction to the error gives `some false`.
func init() {
	factFuncs = append(factFuncs, func(ex *factExtractor) {
		const note = "ServeTCP connection loop: the only read is `req, _, err := dnsutils.ReadMsgFromTCP(c)`, the next statement is `if err != nil { return }` (nothing is read from the connection after a failed read) and the goroutine has `defer c.Close()`"
		fd := ex.fn("pkg/server/tcp.go", "", "ServeTCP")
		if fd == nil {
			ex.setBool("c16ReadErrEndsConn", false, false, note)
			return
		}
		nReads := 0
		for _, c := range ex.calls(fd.Body) {
			if c == "dnsutils.ReadMsgFromTCP" || c == "dnsutils.ReadRawMsgFromTCP" || c == "io.ReadFull" || c == "c.Read" {
				nReads++
			}
		}
		// the goroutine of one connection: the func literal whose body holds the read loop
		var conn *ast.FuncLit
		var loop *ast.ForStmt
		iRead := -1
		ast.Inspect(fd.Body, func(n ast.Node) bool {
			lit, ok := n.(*ast.FuncLit)
			if !ok || conn != nil {
				return true
			}
			for _, st := range lit.Body.List {
				f, ok := st.(*ast.ForStmt)
				if !ok || f.Cond != nil || f.Init != nil || f.Post != nil {
					continue
				}
				for i, s := range f.Body.List {
					if ex.str(s) == "req, _, err := dnsutils.ReadMsgFromTCP(c)" {
						conn, loop, iRead = lit, f, i
					}
				}
			}
			return true
		})
		if conn == nil || nReads != 1 || iRead+1 >= len(loop.Body.List) {
			ex.setBool("c16ReadErrEndsConn", false, false, note)
			return
		}
		closes := false
		for _, st := range conn.Body.List {
			if d, ok := st.(*ast.DeferStmt); ok && ex.str(d.Call) == "c.Close()" {
				closes = true
			}
		}
		ends := false
		if is, ok := loop.Body.List[iRead+1].(*ast.IfStmt); ok && is.Init == nil && is.Else == nil && ex.str(is.Cond) == "err != nil" && len(is.Body.List) == 1 {
			if ret, ok := is.Body.List[0].(*ast.ReturnStmt); ok && len(ret.Results) == 0 {
				ends = true
			}
		}
		ex.setBool("c16ReadErrEndsConn", ends && closes, true, note)
	})
}

// C16: which deadline the per-stream goroutine of ServeDoQ arms on the stream. The deadline is set once, when the
// stream is accepted, and never re-armed; it is there to bound the READ of the query frame. If it also covered writes
// (SetDeadline / SetWriteDeadline) it would run while the handler works and while the reply Write waits for the
// client's flow control, and a Write cut off by it leaves no / a truncated frame followed by FIN. The fact is
// `some true` when ServeDoQ makes exactly one deadline call, `stream.SetReadDeadline(...)`; any `*.SetDeadline` /
// `*.SetWriteDeadline` call in the function gives `some false`.
func init() {
	factFuncs = append(factFuncs, func(ex *factExtractor) {
		const note = "ServeDoQ: the only deadline call in the function is one `stream.SetReadDeadline(...)` (no SetDeadline / SetWriteDeadline on the stream: the reply write is not bounded by the stream deadline)"
		fd := ex.fn("pkg/server/doq.go", "", "ServeDoQ")
		if fd == nil {
			ex.setBool("c16DoqStreamDeadlineReadOnly", false, false, note)
			return
		}
		nRead, nOther := 0, 0
		for _, c := range ex.calls(fd.Body) {
			switch {
			case c == "stream.SetReadDeadline":
				nRead++
			case len(c) >= 8 && c[len(c)-8:] == "Deadline": // x.SetDeadline, x.SetWriteDeadline, another receiver's SetReadDeadline
				nOther++
			}
		}
		ex.setBool("c16DoqStreamDeadlineReadOnly", nRead == 1 && nOther == 0, true, note)
	})
}

// C16: the reading side of a pipelined / datagram upstream connection. A read that fails (a frame announcing less
// than a DNS header, a short read, an expired deadline) leaves the position in a byte stream unknown, so the loop must
// not read on: the statement after its single `r, err := dc.readResp()` is `if err != nil { dc.CloseWithErr(...) return }`
// and the loop has no `continue` / `goto` through which a failed read could be skipped.
func init() {
	factFuncs = append(factFuncs, func(ex *factExtractor) {
		const name = "c16ClientReadErrEndsConn"
		const note = "TraditionalDnsConn.readLoop: one `r, err := dc.readResp()` per iteration, followed by `if err != nil { dc.CloseWithErr(fmt.Errorf(\"read err, %w\", err)) return }`; no continue / goto in the loop (a failed read is never skipped)"
		fd := ex.fn("pkg/upstream/transport/conn_traditional.go", "TraditionalDnsConn", "readLoop")
		if fd == nil {
			ex.setBool(name, false, false, note)
			return
		}
		reads, jumps, ok := 0, 0, false
		ast.Inspect(fd.Body, func(n ast.Node) bool {
			switch x := n.(type) {
			case *ast.BranchStmt:
				jumps++
			case *ast.BlockStmt:
				for i, s := range x.List {
					if ex.str(s) == "r, err := dc.readResp()" {
						reads++
						if i+1 < len(x.List) {
							if is, isIf := x.List[i+1].(*ast.IfStmt); isIf && is.Init == nil && is.Else == nil && ex.str(is.Cond) == "err != nil" && len(is.Body.List) == 2 {
								_, ret := is.Body.List[1].(*ast.ReturnStmt)
								ok = ret && ex.str(is.Body.List[0]) == "dc.CloseWithErr(fmt.Errorf(\"read err, %w\", err))"
							}
						}
					}
				}
			}
			return true
		})
		nCalls := 0
		for _, c := range ex.calls(fd.Body) {
			if c == "dc.readResp" {
				nCalls++
			}
		}
		ex.setBool(name, ok && reads == 1 && nCalls == 1 && jumps == 0, true, note)
	})
}
