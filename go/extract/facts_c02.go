package main

import (
	"go/ast"
	"strings"
)

func init() {
	factFuncs = append(factFuncs, func(ex *factExtractor) {
		const trel = "pkg/upstream/transport/conn_traditional.go"
		const rrel = "pkg/upstream/transport/reuse.go"
		chanCap := func(fd *ast.FuncDecl, lhs string) (int64, bool) {
			var v int64
			ok := false
			n := 0
			if fd == nil {
				return 0, false
			}
			ast.Inspect(fd.Body, func(x ast.Node) bool {
				if as, isAs := x.(*ast.AssignStmt); isAs && len(as.Lhs) == 1 && ex.str(as.Lhs[0]) == lhs {
					if c, isCall := as.Rhs[0].(*ast.CallExpr); isCall && ex.str(c.Fun) == "make" && ex.str(c.Args[0]) == "chan *[]byte" {
						n++
						if len(c.Args) == 1 {
							v, ok = 0, true
						} else {
							v, ok = ex.intLit(c.Args[1], nil)
						}
					}
				}
				return true
			})
			return v, ok && n == 1
		}
		aq := ex.fn(trel, "TraditionalDnsConn", "addQueueC")
		v, ok := chanCap(aq, "c")
		ex.setNat("c02TdcRespChanCap", v, ok, "addQueueC: c = make(chan *[]byte, N)")
		rex := ex.fn(rrel, "reusableConn", "exchange")
		v, ok = chanCap(rex, "respChan")
		ex.setNat("c02ReuseRespChanCap", v, ok, "reusableConn.exchange: respChan := make(chan *[]byte, N)")
		// drain-before-close in the final selects
		drains := func(fd *ast.FuncDecl, closeCase, recvCase string) (bool, int) {
			found := false
			nClose := 0
			if fd == nil {
				return false, 0
			}
			ast.Inspect(fd.Body, func(x ast.Node) bool {
				cc, isCC := x.(*ast.CommClause)
				if !isCC || cc.Comm == nil || ex.str(cc.Comm) != closeCase {
					return true
				}
				nClose++
				if len(cc.Body) >= 2 {
					if sel, isSel := cc.Body[0].(*ast.SelectStmt); isSel && len(sel.Body.List) == 2 {
						c0 := sel.Body.List[0].(*ast.CommClause)
						c1 := sel.Body.List[1].(*ast.CommClause)
						if c0.Comm != nil && ex.str(c0.Comm) == recvCase && c1.Comm == nil && len(c1.Body) == 0 &&
							len(c0.Body) > 0 && strings.HasPrefix(ex.str(c0.Body[len(c0.Body)-1]), "return r") {
							found = true
						}
					}
				}
				return true
			})
			return found, nClose
		}
		tex := ex.fn(trel, "TraditionalDnsConn", "exchange")
		d, n := drains(tex, "<-dc.closeNotify", "r := <-respChan")
		ex.setBool("c02TdcDrainsOnClose", d, tex != nil, "TraditionalDnsConn.exchange: `case <-dc.closeNotify:` first tries `case r := <-respChan` (non-blocking)")
		ex.setBool("c02NoEarlyCloseCheckAfterWrite", n == 2, tex != nil, "TraditionalDnsConn.exchange looks at closeNotify exactly twice: before reserving an ID and in the final select")
		d2 := false
		if rex != nil {
			ast.Inspect(rex.Body, func(x ast.Node) bool {
				cc, isCC := x.(*ast.CommClause)
				if !isCC || cc.Comm == nil || ex.str(cc.Comm) != "<-c.closeNotify" {
					return true
				}
				if len(cc.Body) >= 2 {
					if sel, isSel := cc.Body[0].(*ast.SelectStmt); isSel && len(sel.Body.List) == 2 {
						c0 := sel.Body.List[0].(*ast.CommClause)
						c1 := sel.Body.List[1].(*ast.CommClause)
						if c0.Comm != nil && ex.str(c0.Comm) == "resp := <-respChan" && c1.Comm == nil && len(c0.Body) == 1 && ex.str(c0.Body[0]) == "return resp, nil" {
							d2 = true
						}
					}
				}
				return true
			})
		}
		ex.setBool("c02ReuseDrainsOnClose", d2, rex != nil, "reusableConn.exchange: `case <-c.closeNotify:` first tries `case resp := <-respChan`")
		rl := ex.fn(trel, "TraditionalDnsConn", "readLoop")
		okRL := false
		if rl != nil {
			ast.Inspect(rl.Body, func(x ast.Node) bool {
				if sel, isSel := x.(*ast.SelectStmt); isSel && len(sel.Body.List) == 2 {
					c0 := sel.Body.List[0].(*ast.CommClause)
					c1 := sel.Body.List[1].(*ast.CommClause)
					if c0.Comm != nil && ex.str(c0.Comm) == "resChan <- r" && c1.Comm == nil && len(c1.Body) == 1 && ex.str(c1.Body[0]) == "pool.ReleaseBuf(r)" {
						okRL = true
					}
				}
				return true
			})
		}
		ex.setBool("c02ReaderHandsOffNonBlocking", okRL, rl != nil, "readLoop: `select { case resChan <- r: default: pool.ReleaseBuf(r) }`")
		okOrder := false
		if rex != nil {
			ss := stmtStrings(ex, rex.Body)
			i1, i2 := indexOf(ss, "c.waitingResp = respChan"), indexOf(ss, "_, err := c.c.Write(*q)")
			okOrder = i1 >= 0 && i2 > i1
		}
		ex.setBool("c02ReuseChanInstalledBeforeWrite", okOrder, rex != nil, "reusableConn.exchange installs the reply channel before writing the query")
			// ---- the context the final select waits on is the caller's: no layer between ExchangeContext and the final
		// select assigns to (or redeclares) its `ctx` parameter, hands anything but `ctx` down, or waits on another
		// context's Done channel
		ctxClean := func(fd *ast.FuncDecl, skipFuncLits bool) bool {
			if fd == nil || fd.Type.Params == nil || len(fd.Type.Params.List) == 0 || len(fd.Type.Params.List[0].Names) != 1 ||
				fd.Type.Params.List[0].Names[0].Name != "ctx" || ex.str(fd.Type.Params.List[0].Type) != "context.Context" {
				return false
			}
			ok := true
			ast.Inspect(fd.Body, func(x ast.Node) bool {
				switch n := x.(type) {
				case *ast.FuncLit:
					if skipFuncLits {
						return false
					}
					for _, f := range n.Type.Params.List {
						for _, nm := range f.Names {
							if nm.Name == "ctx" {
								ok = false
							}
						}
					}
				case *ast.AssignStmt:
					for _, l := range n.Lhs {
						if id, isId := l.(*ast.Ident); isId && id.Name == "ctx" {
							ok = false
						}
					}
				case *ast.ValueSpec:
					for _, nm := range n.Names {
						if nm.Name == "ctx" {
							ok = false
						}
					}
				case *ast.RangeStmt:
					for _, e := range []ast.Expr{n.Key, n.Value} {
						if id, isId := e.(*ast.Ident); isId && id.Name == "ctx" {
							ok = false
						}
					}
				case *ast.CallExpr:
					if sel, isSel := n.Fun.(*ast.SelectorExpr); isSel {
						switch sel.Sel.Name {
						case "ExchangeReserved", "exchange", "ExchangeContext":
							if len(n.Args) == 0 || ex.str(n.Args[0]) != "ctx" {
								ok = false
							}
						case "Done":
							if len(n.Args) == 0 && ex.str(sel.X) != "ctx" && !strings.HasSuffix(ex.str(sel.X), "Wg") && !strings.HasSuffix(ex.str(sel.X), "wg") {
								ok = false // another context's Done channel (sync.WaitGroup.Done is not one)
							}
						}
					}
				}
				return true
			})
			return ok
		}
		const lrel = "pkg/upstream/transport/conn_lazy_dial.go"
		const prel = "pkg/upstream/transport/pipeline.go"
		const qrel = "pkg/upstream/transport/conn_quic.go"
		path := []*ast.FuncDecl{
			ex.fn(prel, "PipelineTransport", "ExchangeContext"),
			ex.fn(lrel, "lazyDnsConnEarlyReservedExchanger", "ExchangeReserved"),
			ex.fn(trel, "tdcOneTimeExchanger", "ExchangeReserved"),
			ex.fn(trel, "TraditionalDnsConn", "exchange"),
			ex.fn(qrel, "quicReservedExchanger", "ExchangeReserved"),
			ex.fn(rrel, "ReuseConnTransport", "ExchangeContext"),
			ex.fn(rrel, "reusableConn", "exchange"),
		}
		all, known := true, true
		for _, fd := range path {
			if fd == nil {
				known = false
				continue
			}
			if !ctxClean(fd, false) {
				all = false
			}
		}
		ex.setBool("c02CallerCtxReachesWait", all, known, "PipelineTransport.ExchangeContext, lazyDnsConnEarlyReservedExchanger.ExchangeReserved, tdcOneTimeExchanger.ExchangeReserved, TraditionalDnsConn.exchange, quicReservedExchanger.ExchangeReserved, ReuseConnTransport.ExchangeContext, reusableConn.exchange: the parameter `ctx` is never assigned or redeclared, it is what is handed to ExchangeReserved / exchange, and no other context's Done channel is waited on")
		// ---- the waiter table of TraditionalDnsConn: the key a waiter is registered under is the key the reader looks up
		// (uint32 of the 16-bit id that goes on the wire), and the id counter is 16 bits wide
		bits, bitsOK := int64(0), false
		if f := ex.file(trel); f != nil {
			ast.Inspect(f, func(x ast.Node) bool {
				ts, isTS := x.(*ast.TypeSpec)
				if !isTS || ts.Name.Name != "TraditionalDnsConn" {
					return true
				}
				if st, isSt := ts.Type.(*ast.StructType); isSt {
					for _, fl := range st.Fields.List {
						for _, nm := range fl.Names {
							if nm.Name == "nextQid" {
								if w, known := map[string]int64{"uint8": 8, "uint16": 16, "uint32": 32, "uint64": 64}[ex.str(fl.Type)]; known {
									bits, bitsOK = w, true
								}
							}
						}
					}
				}
				return false
			})
		}
		ex.setNat("c02TdcQidCounterBits", bits, bitsOK, "TraditionalDnsConn.nextQid is a uintN")
		// every index into dc.queue inside fd, as source text
		queueKeys := func(fd *ast.FuncDecl) (keys []string) {
			if fd == nil {
				return nil
			}
			ast.Inspect(fd.Body, func(x ast.Node) bool {
				switch n := x.(type) {
				case *ast.IndexExpr:
					if ex.str(n.X) == "dc.queue" {
						keys = append(keys, ex.str(n.Index))
					}
				case *ast.CallExpr:
					if ex.str(n.Fun) == "delete" && len(n.Args) == 2 && ex.str(n.Args[0]) == "dc.queue" {
						keys = append(keys, ex.str(n.Args[1]))
					}
				}
				return true
			})
			return keys
		}
		u16Param := func(fd *ast.FuncDecl) bool {
			return fd != nil && fd.Type.Params != nil && len(fd.Type.Params.List) >= 1 && len(fd.Type.Params.List[0].Names) == 1 &&
				fd.Type.Params.List[0].Names[0].Name == "qid" && ex.str(fd.Type.Params.List[0].Type) == "uint16"
		}
		allAre := func(keys []string, want string) bool {
			for _, k := range keys {
				if k != want {
					return false
				}
			}
			return len(keys) > 0
		}
		pq := ex.fn(trel, "TraditionalDnsConn", "popQueueC")
		dq := ex.fn(trel, "TraditionalDnsConn", "deleteQueueC")
		keyOK := false
		if aq != nil && pq != nil && dq != nil && tex != nil && rl != nil {
			// addQueueC: named result `qid uint16`; every dc.queue index is uint32(qid); the successful return is `return qid, c`
			resOK := aq.Type.Results != nil && len(aq.Type.Results.List) == 2 && len(aq.Type.Results.List[0].Names) == 1 &&
				aq.Type.Results.List[0].Names[0].Name == "qid" && ex.str(aq.Type.Results.List[0].Type) == "uint16"
			retOK, nRet := true, 0
			ast.Inspect(aq.Body, func(x ast.Node) bool {
				if rs, isRet := x.(*ast.ReturnStmt); isRet && len(rs.Results) == 2 && ex.str(rs.Results[1]) == "c" {
					nRet++
					if ex.str(rs.Results[0]) != "qid" {
						retOK = false
					}
				}
				return true
			})
			// the id handed to writeQuery and deleteQueueC is the one addQueueC returned; the reader looks up the id of the reply
			tss, rss := stmtStrings(ex, tex.Body), stmtStrings(ex, rl.Body)
			flow := indexOf(tss, "assignedQid, respChan := dc.addQueueC()") >= 0 && indexOf(tss, "defer dc.deleteQueueC(assignedQid, respChan)") >= 0 &&
				indexOf(tss, "err := dc.writeQuery(q, assignedQid)") >= 0 &&
				indexOf(rss, "rid := binary.BigEndian.Uint16(*r)") >= 0 && indexOf(rss, "resChan := dc.popQueueC(rid)") >= 0
			keyOK = resOK && retOK && nRet == 1 && allAre(queueKeys(aq), "uint32(qid)") &&
				u16Param(pq) && allAre(queueKeys(pq), "uint32(qid)") && u16Param(dq) && allAre(queueKeys(dq), "uint32(qid)") && flow
		}
		ex.setBool("c02TdcWaiterKeyIsWireId", keyOK, aq != nil && pq != nil && dq != nil && tex != nil && rl != nil,
			"addQueueC registers the waiter under uint32(qid) and returns that qid (uint16), exchange writes and later deletes with it; popQueueC / deleteQueueC (qid uint16) index dc.queue with uint32(qid) only; readLoop looks up the id of the reply it read")
		// ---- DoH
		const drel = "pkg/upstream/doh/upstream.go"
		dex := ex.fn(drel, "Upstream", "exchange")
		toEOF := false
		if dex != nil {
			// every mention of resp.Body is `resp.Body.Close()` or the reader handed to io.LimitReader directly inside
			// bb.ReadFrom(...) / io.ReadAll(...) (both read until EOF); the reply path reads up to dns.MaxMsgSize
			allowed := map[ast.Node]bool{}
			nReply := 0
			ast.Inspect(dex.Body, func(x ast.Node) bool {
				c, isCall := x.(*ast.CallExpr)
				if !isCall {
					return true
				}
				f := ex.str(c.Fun)
				if f == "resp.Body.Close" && len(c.Args) == 0 {
					allowed[c.Fun.(*ast.SelectorExpr).X] = true
				}
				if (f == "bb.ReadFrom" || f == "io.ReadAll") && len(c.Args) == 1 {
					if lr, isLR := c.Args[0].(*ast.CallExpr); isLR && ex.str(lr.Fun) == "io.LimitReader" && len(lr.Args) == 2 && ex.str(lr.Args[0]) == "resp.Body" {
						allowed[lr.Args[0]] = true
						if f == "bb.ReadFrom" && ex.str(lr.Args[1]) == "dns.MaxMsgSize" {
							nReply++
						}
					}
				}
				return true
			})
			other := 0
			ast.Inspect(dex.Body, func(x ast.Node) bool {
				if se, isSel := x.(*ast.SelectorExpr); isSel && ex.str(se) == "resp.Body" && !allowed[se] {
					other++
				}
				return true
			})
			// ... and the payload returned is a copy of everything that was read: `copy(*payload, bb.Bytes())` with
			// payload := pool.GetBuf(bb.Len())
			ss := stmtStrings(ex, dex.Body)
			i1, i2, i3 := indexOf(ss, "payload := pool.GetBuf(bb.Len())"), indexOf(ss, "copy(*payload, bb.Bytes())"), indexOf(ss, "return payload, nil")
			nRet := 0
			ast.Inspect(dex.Body, func(x ast.Node) bool {
				if rs, isRet := x.(*ast.ReturnStmt); isRet && len(rs.Results) == 2 && ex.str(rs.Results[1]) == "nil" {
					nRet++
				}
				return true
			})
			toEOF = nReply == 1 && other == 0 && i1 >= 0 && i2 > i1 && i3 > i2 && nRet == 1
		}
		ex.setBool("c02DohBodyReadToEOF", toEOF, dex != nil, "doh.(*Upstream).exchange: resp.Body is only closed or read through bb.ReadFrom(io.LimitReader(resp.Body, dns.MaxMsgSize)) / io.ReadAll(io.LimitReader(resp.Body, ..)) (until EOF); the single successful return hands back a copy of everything read")
		dec := ex.fn(drel, "Upstream", "ExchangeContext")
		waits := false
		if dec != nil && ctxClean(dec, true) {
			// the final select: `case <-ctx.Done()` and `case res := <-resChan`, resChan buffered (the worker never blocks)
			v, ok := int64(0), false
			ast.Inspect(dec.Body, func(x ast.Node) bool {
				if as, isAs := x.(*ast.AssignStmt); isAs && len(as.Lhs) == 1 && ex.str(as.Lhs[0]) == "resChan" {
					if c, isCall := as.Rhs[0].(*ast.CallExpr); isCall && ex.str(c.Fun) == "make" && len(c.Args) == 2 {
						v, ok = ex.intLit(c.Args[1], nil)
					}
				}
				return true
			})
			nSel := 0
			for _, st := range dec.Body.List {
				if sel, isSel := st.(*ast.SelectStmt); isSel && len(sel.Body.List) == 2 {
					c0, c1 := sel.Body.List[0].(*ast.CommClause), sel.Body.List[1].(*ast.CommClause)
					if c0.Comm != nil && c1.Comm != nil && ex.str(c0.Comm) == "<-ctx.Done()" && ex.str(c1.Comm) == "res := <-resChan" {
						nSel++
					}
				}
			}
			waits = ok && v >= 1 && nSel == 1
		}
		ex.setBool("c02DohWaitsOnCallerCtx", waits, dec != nil, "doh.(*Upstream).ExchangeContext: outside the worker goroutine `ctx` is never reassigned; the final select waits on `<-ctx.Done()` and on the buffered result channel of the worker")
	})
}
