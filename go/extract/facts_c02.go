package main

import (
	"go/ast"
	"strings"
)

func init() {
	factFuncs = append(factFuncs, func(ex *factExtractor) {
		const trel = "pkg/upstream/transport/conn_traditional.go"
		const rrel = "pkg/upstream/transport/reuse.go"
		chanCap := func(fd *ast.FuncDecl, lhs string) (int64, bool) {
			var v int64
			ok := false
			n := 0
			if fd == nil {
				return 0, false
			}
			ast.Inspect(fd.Body, func(x ast.Node) bool {
				if as, isAs := x.(*ast.AssignStmt); isAs && len(as.Lhs) == 1 && ex.str(as.Lhs[0]) == lhs {
					if c, isCall := as.Rhs[0].(*ast.CallExpr); isCall && ex.str(c.Fun) == "make" && ex.str(c.Args[0]) == "chan *[]byte" {
						n++
						if len(c.Args) == 1 {
							v, ok = 0, true
						} else {
							v, ok = ex.intLit(c.Args[1], nil)
						}
					}
				}
				return true
			})
			return v, ok && n == 1
		}
		aq := ex.fn(trel, "TraditionalDnsConn", "addQueueC")
		v, ok := chanCap(aq, "c")
		ex.setNat("c02TdcRespChanCap", v, ok, "addQueueC: c = make(chan *[]byte, N)")
		rex := ex.fn(rrel, "reusableConn", "exchange")
		v, ok = chanCap(rex, "respChan")
		ex.setNat("c02ReuseRespChanCap", v, ok, "reusableConn.exchange: respChan := make(chan *[]byte, N)")
		// drain-before-close in the final selects
		drains := func(fd *ast.FuncDecl, closeCase, recvCase string) (bool, int) {
			found := false
			nClose := 0
			if fd == nil {
				return false, 0
			}
			ast.Inspect(fd.Body, func(x ast.Node) bool {
				cc, isCC := x.(*ast.CommClause)
				if !isCC || cc.Comm == nil || ex.str(cc.Comm) != closeCase {
					return true
				}
				nClose++
				if len(cc.Body) >= 2 {
					if sel, isSel := cc.Body[0].(*ast.SelectStmt); isSel && len(sel.Body.List) == 2 {
						c0 := sel.Body.List[0].(*ast.CommClause)
						c1 := sel.Body.List[1].(*ast.CommClause)
						if c0.Comm != nil && ex.str(c0.Comm) == recvCase && c1.Comm == nil && len(c1.Body) == 0 &&
							len(c0.Body) > 0 && strings.HasPrefix(ex.str(c0.Body[len(c0.Body)-1]), "return r") {
							found = true
						}
					}
				}
				return true
			})
			return found, nClose
		}
		tex := ex.fn(trel, "TraditionalDnsConn", "exchange")
		d, n := drains(tex, "<-dc.closeNotify", "r := <-respChan")
		ex.setBool("c02TdcDrainsOnClose", d, tex != nil, "TraditionalDnsConn.exchange: `case <-dc.closeNotify:` first tries `case r := <-respChan` (non-blocking)")
		ex.setBool("c02NoEarlyCloseCheckAfterWrite", n == 2, tex != nil, "TraditionalDnsConn.exchange looks at closeNotify exactly twice: before reserving an ID and in the final select")
		d2 := false
		if rex != nil {
			ast.Inspect(rex.Body, func(x ast.Node) bool {
				cc, isCC := x.(*ast.CommClause)
				if !isCC || cc.Comm == nil || ex.str(cc.Comm) != "<-c.closeNotify" {
					return true
				}
				if len(cc.Body) >= 2 {
					if sel, isSel := cc.Body[0].(*ast.SelectStmt); isSel && len(sel.Body.List) == 2 {
						c0 := sel.Body.List[0].(*ast.CommClause)
						c1 := sel.Body.List[1].(*ast.CommClause)
						if c0.Comm != nil && ex.str(c0.Comm) == "resp := <-respChan" && c1.Comm == nil && len(c0.Body) == 1 && ex.str(c0.Body[0]) == "return resp, nil" {
							d2 = true
						}
					}
				}
				return true
			})
		}
		ex.setBool("c02ReuseDrainsOnClose", d2, rex != nil, "reusableConn.exchange: `case <-c.closeNotify:` first tries `case resp := <-respChan`")
		rl := ex.fn(trel, "TraditionalDnsConn", "readLoop")
		okRL := false
		if rl != nil {
			ast.Inspect(rl.Body, func(x ast.Node) bool {
				if sel, isSel := x.(*ast.SelectStmt); isSel && len(sel.Body.List) == 2 {
					c0 := sel.Body.List[0].(*ast.CommClause)
					c1 := sel.Body.List[1].(*ast.CommClause)
					if c0.Comm != nil && ex.str(c0.Comm) == "resChan <- r" && c1.Comm == nil && len(c1.Body) == 1 && ex.str(c1.Body[0]) == "pool.ReleaseBuf(r)" {
						okRL = true
					}
				}
				return true
			})
		}
		ex.setBool("c02ReaderHandsOffNonBlocking", okRL, rl != nil, "readLoop: `select { case resChan <- r: default: pool.ReleaseBuf(r) }`")
		okOrder := false
		if rex != nil {
			ss := stmtStrings(ex, rex.Body)
			i1, i2 := indexOf(ss, "c.waitingResp = respChan"), indexOf(ss, "_, err := c.c.Write(*q)")
			okOrder = i1 >= 0 && i2 > i1
		}
		ex.setBool("c02ReuseChanInstalledBeforeWrite", okOrder, rex != nil, "reusableConn.exchange installs the reply channel before writing the query")
	})
}
