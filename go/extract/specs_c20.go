package main

import "math/big"

// C20: the threshold the fallback plugin is built with (T1). `newFallbackPlugin` is translated as a function of
// the configured `threshold` argument only: the look-up of the two executables (whose failure makes Init fail) is
// skipped, and the composite literal that builds the plugin is the return point - its text is pinned here, so the
// value that reaches `fastFallbackDuration` is the translated `threshold` variable and nothing else.
func init() {
	fnSpecs = append(fnSpecs, groupSpec{Group: "Fallback", fnSpec: fnSpec{
		File: "plugin/executable/sequence/fallback/fallback.go", Func: "newFallbackPlugin",
		Lean: "fallbackThreshold", Params: "(thresholdArg : Int)", Ret: "Int",
		Expr: map[string]lx{
			"time.Second":      constLx(big.NewInt(1000000000)),
			"time.Millisecond": constLx(big.NewInt(1000000)),
			"args.Threshold":   i("thresholdArg"),
		},
		Stmt: map[string]string{
			"s := &fallback{ logger: bp.L(), primary: pe, secondary: se, fastFallbackDuration: threshold, alwaysStandby: args.AlwaysStandby, }": "return threshold",
		},
		Skip: []string{
			`if len(args.Primary) == 0 || len(args.Secondary) == 0 { return nil, errors.New("args missing primary or secondary") }`,
			"pe := sequence.ToExecutable(bp.M().GetPlugin(args.Primary))",
			`if pe == nil { return nil, fmt.Errorf("can not find primary executable %s", args.Primary) }`,
			"se := sequence.ToExecutable(bp.M().GetPlugin(args.Secondary))",
			`if se == nil { return nil, fmt.Errorf("can not find secondary executable %s", args.Secondary) }`,
		},
		Doc: "; result = the `fastFallbackDuration` (ns) of the plugin Init builds for the configured `threshold` argument (ms); the checks of the two executables (Init fails) are skipped; the composite literal `&fallback{... fastFallbackDuration: threshold ...}` is the return point; time.Duration is modelled unbounded (the harness stays below 2^63 ns)",
	}})
}
