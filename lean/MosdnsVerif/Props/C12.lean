import MosdnsVerif.Model.C12
import MosdnsVerif.Gen.Facts

/-!
# C12 — domain rules match exactly the names they describe
-/
namespace Props.C12
open Model.C12 Model.C12.Trie

variable {V : Type}

/-! ### The label trie behaves like a finite map from label paths to values -/

theorem child_setChild_same (t c : Trie V) (l : Label) : (t.setChild l c).child l = some c := by
  simp [Trie.setChild, Trie.child, Trie.kids]

theorem child_setChild_other (t c : Trie V) (l l' : Label) (h : l' ≠ l) :
    (t.setChild l c).child l' = t.child l' := by
  have h1 : (l == l') = false := by simpa using fun e => h e.symm
  cases t with
  | node val k =>
    simp only [Trie.setChild, Trie.child, Trie.kids, List.find?_cons, h1]
    congr 1
    induction k with
    | nil => rfl
    | cons p ps ih =>
      by_cases hp : p.1 = l
      · have h2 : (p.1 == l') = false := by simpa [hp] using fun e => h e.symm
        have h3 : (p.1 == l) = true := by simpa using hp
        simp only [List.filter_cons, h3, Bool.not_true, List.find?_cons, h2]
        simpa using ih
      · have h3 : (p.1 == l) = false := by simpa using hp
        simp only [List.filter_cons, h3, Bool.not_false, if_true, List.find?_cons]
        split
        · rfl
        · exact ih

theorem val_setChild (t c : Trie V) (l : Label) : (t.setChild l c).val = t.val := rfl

theorem valueAt_empty (q : List Label) : (Trie.empty : Trie V).valueAt q = none := by
  cases q <;> simp [Trie.valueAt, Trie.empty, Trie.val, Trie.child, Trie.kids]

/-- **Add stores exactly at its path** and changes nothing else. -/
theorem valueAt_add (p : List Label) : ∀ (t : Trie V) (v : V) (q : List Label),
    (t.add p v).valueAt q = if q = p then some v else t.valueAt q := by
  induction p with
  | nil =>
    intro t v q
    cases q with
    | nil => simp [Trie.add, Trie.valueAt, Trie.val]
    | cons l ls => simp [Trie.add, Trie.valueAt, Trie.child, Trie.kids]
  | cons l ls ih =>
    intro t v q
    cases q with
    | nil => simp [Trie.add, Trie.valueAt, val_setChild]
    | cons l' qs =>
      by_cases hl : l' = l
      · subst hl
        simp only [Trie.add, Trie.valueAt, child_setChild_same, ih]
        by_cases hq : qs = ls
        · simp [hq]
        · simp only [hq, if_false, List.cons.injEq, true_and]
          cases hc : t.child l' with
          | none => simp [valueAt_empty]
          | some c => simp
      · simp only [Trie.add, Trie.valueAt, child_setChild_other _ _ _ _ hl]
        have : ¬ (l' :: qs = l :: ls) := by intro e; injection e with e1 _; exact hl e1
        simp [this]

/-- The value the last `Add` for `q` stored, for a rule list applied oldest first. -/
def lastValue (rs : List (List Label × V)) (q : List Label) : Option V :=
  (rs.reverse.find? (fun r => r.1 == q)).map (·.2)

def build (rs : List (List Label × V)) : Trie V := rs.foldl (fun t r => t.add r.1 r.2) Trie.empty

theorem valueAt_fold (rs : List (List Label × V)) : ∀ (t : Trie V) (q : List Label),
    (rs.foldl (fun t r => t.add r.1 r.2) t).valueAt q =
      match lastValue rs q with | some v => some v | none => t.valueAt q := by
  induction rs with
  | nil => intro t q; simp [lastValue]
  | cons r rs ih =>
    intro t q
    simp only [List.foldl_cons, ih, valueAt_add]
    unfold lastValue
    simp only [List.reverse_cons, List.find?_append]
    cases h : rs.reverse.find? (fun r => r.1 == q) with
    | some x => simp
    | none =>
      by_cases hq : q = r.1
      · subst hq; simp
      · have : (r.1 == q) = false := by simpa using fun e => hq e.symm
        simp [this, hq]

theorem valueAt_build (rs : List (List Label × V)) (q : List Label) :
    (build rs).valueAt q = lastValue rs q := by
  unfold build
  rw [valueAt_fold]
  cases lastValue rs q <;> simp [valueAt_empty]

/-! ### The walk keeps the value of the longest stored prefix -/

/-- Specification of the walk over an arbitrary path-to-value function. -/
def best (f : List Label → Option V) : List Label → Option V → Option V
  | [], acc => acc
  | l :: ls, acc => best (fun q => f (l :: q)) ls (match f [l] with | some v => some v | none => acc)

theorem best_none (ls : List Label) : ∀ (f : List Label → Option V) (acc : Option V),
    (∀ q, f q = none) → best f ls acc = acc := by
  induction ls with
  | nil => intro f acc _; rfl
  | cons l ls ih =>
    intro f acc h
    have hf : f = fun _ => none := funext h
    subst hf
    simp only [best]
    exact ih _ _ (fun _ => rfl)

theorem walk_eq_best (path : List Label) : ∀ (t : Trie V) (acc : Option V),
    t.walk path acc = best t.valueAt path acc := by
  induction path with
  | nil => intro t acc; rfl
  | cons l ls ih =>
    intro t acc
    simp only [Trie.walk, best]
    cases hc : t.child l with
    | none =>
      have h0 : ∀ q, t.valueAt (l :: q) = none := by intro q; simp [Trie.valueAt, hc]
      rw [best_none ls _ _ h0]
      simp [h0 []]
    | some c =>
      have hf : (fun q => t.valueAt (l :: q)) = c.valueAt := by
        funext q; simp [Trie.valueAt, hc]
      have h1 : t.valueAt [l] = c.val := by simp [Trie.valueAt, hc]
      simp only [hf, h1]
      exact ih c _

/-- What `best` returns: either nothing on the way had a value and the
initial `acc` survives, or the value of the *longest* non-empty prefix that
has one. -/
theorem best_cases (path : List Label) : ∀ (f : List Label → Option V) (acc : Option V),
    (best f path acc = acc ∧ ∀ q, q <+: path → q ≠ [] → f q = none) ∨
    (∃ q v, q <+: path ∧ q ≠ [] ∧ f q = some v ∧ best f path acc = some v ∧
      ∀ q', q' <+: path → q.length < q'.length → f q' = none) := by
  induction path with
  | nil =>
    intro f acc
    left
    refine ⟨rfl, ?_⟩
    intro q hq hne
    exact absurd (List.prefix_nil.mp hq) hne
  | cons l ls ih =>
    intro f acc
    simp only [best]
    rcases ih (fun q => f (l :: q)) (match f [l] with | some v => some v | none => acc) with ⟨h1, h2⟩ | ⟨q, v, hq, hne, hfq, hb, hlong⟩
    · cases hfl : f [l] with
      | some v =>
        simp only [hfl] at h1
        right
        refine ⟨[l], v, by simp, by simp, hfl, h1, ?_⟩
        intro q' hq' hlen
        cases q' with
        | nil => simp at hlen
        | cons a q'' =>
          obtain ⟨rfl, hq''⟩ := List.cons_prefix_cons.mp hq'
          have : q'' ≠ [] := by intro e; subst e; simp at hlen
          exact h2 q'' hq'' this
      | none =>
        simp only [hfl] at h1
        left
        refine ⟨h1, ?_⟩
        intro q' hq' hne'
        cases q' with
        | nil => exact absurd rfl hne'
        | cons a q'' =>
          obtain ⟨rfl, hq''⟩ := List.cons_prefix_cons.mp hq'
          by_cases he : q'' = []
          · subst he; exact hfl
          · exact h2 q'' hq'' he
    · right
      refine ⟨l :: q, v, List.cons_prefix_cons.mpr ⟨rfl, hq⟩, by simp, hfq, hb, ?_⟩
      intro q' hq' hlen
      cases q' with
      | nil => simp at hlen
      | cons a q'' =>
        obtain ⟨rfl, hq''⟩ := List.cons_prefix_cons.mp hq'
        exact hlong q'' hq'' (by simpa using hlen)

/-- **C12 (domain rules).** After any sequence of `domain:` rules `rs` (label
paths right to left, duplicates and nesting allowed), `Match` on a name whose
reversed labels are `path` returns
* nothing iff no rule's labels are a label-wise suffix of the name
  (`q <+: path` on reversed labels - a label boundary by construction), and
* otherwise the value of the *longest* such rule, the last one added winning
  among equal rules. -/
theorem domain_match (rs : List (List Label × V)) (path : List Label) :
    ((build rs).matchPath path = none ↔ ∀ q, q <+: path → lastValue rs q = none) ∧
    (∀ v, (build rs).matchPath path = some v →
      ∃ q, q <+: path ∧ lastValue rs q = some v ∧
        ∀ q', q' <+: path → q.length < q'.length → lastValue rs q' = none) := by
  unfold Trie.matchPath
  rw [walk_eq_best]
  have hv : (build rs).valueAt = lastValue rs := funext (valueAt_build rs)
  have h0 : (build rs).val = lastValue rs [] := by
    have := valueAt_build rs []
    simpa [Trie.valueAt] using this
  rw [hv, h0]
  rcases best_cases path (lastValue rs) (lastValue rs []) with ⟨h1, h2⟩ | ⟨q, v, hq, hne, hfq, hb, hlong⟩
  · constructor
    · rw [h1]
      constructor
      · intro hn q hq
        by_cases he : q = []
        · subst he; exact hn
        · exact h2 q hq he
      · intro h; exact h [] (List.nil_prefix)
    · intro v hv'
      rw [h1] at hv'
      refine ⟨[], List.nil_prefix, hv', ?_⟩
      intro q' hq' hlen
      exact h2 q' hq' (by intro e; subst e; simp at hlen)
  · constructor
    · rw [hb]
      constructor
      · intro h; cases h
      · intro h; rw [h q hq] at hfq; cases hfq
    · intro v' hv'
      rw [hb] at hv'
      injection hv' with hv'
      subst hv'
      exact ⟨q, hq, hfq, hlong⟩

/-! ### Normalisation -/

theorem lower_idem (b : UInt8) : lower (lower b) = lower b := by
  unfold lower
  split
  · rename_i h
    have : ¬ (65 ≤ b + 32 ∧ b + 32 ≤ 90) := by
      intro h'
      have h1 := UInt8.le_iff_toNat_le.mp h.1
      have h2 := UInt8.le_iff_toNat_le.mp h.2
      have h3 := UInt8.le_iff_toNat_le.mp h'.2
      have : (b + 32).toNat = b.toNat + 32 := by
        rw [UInt8.toNat_add]; simp at h1 h2 ⊢; omega
      simp at h1 h2 h3; omega
    simp [this]
  · rename_i h; simp [h]

theorem lower_eq_dot (b : UInt8) : lower b = dot ↔ b = dot := by
  unfold lower dot
  constructor
  · intro h
    split at h
    · rename_i hh
      exfalso
      have h1 := UInt8.le_iff_toNat_le.mp hh.1
      have h2 := UInt8.le_iff_toNat_le.mp hh.2
      have h3 := congrArg UInt8.toNat h
      rw [UInt8.toNat_add] at h3
      simp at h1 h2 h3; omega
    · exact h
  · intro h; subst h; decide

theorem trimDot_map_lower (s : Bytes) : trimDot (s.map lower) = (trimDot s).map lower := by
  unfold trimDot
  rw [List.getLast?_map]
  cases h : s.getLast? with
  | none => simp
  | some b =>
    simp only [Option.map_some, Option.some.injEq]
    by_cases hb : b = dot
    · subst hb
      have : lower dot = dot := by decide
      simp [this, List.map_dropLast]
    · have : lower b ≠ dot := fun e => hb ((lower_eq_dot b).mp e)
      simp [hb, this]

/-! #### Lower-casing touches the 26 upper-case letters and nothing else

`norm` is tied to the code's `NormalizeDomain` by `Refine.C12.normalize_refines`. The statements
below say, for every byte, what "lower-cased" means in the property: digits, `-`, `_`, the bytes
next to the letter ranges (`@ [ \ ] ^ _` and the back-quote, `{ | } ~`, DEL) and every other non-letter
are left alone, and two different bytes are identified only if they are the two cases of one letter. -/

theorem lower_of_not_upper (b : UInt8) (h : ¬ (65 ≤ b ∧ b ≤ 90)) : lower b = b := by
  simp [lower, h]

theorem lower_of_upper (b : UInt8) (h : 65 ≤ b ∧ b ≤ 90) : lower b = b + 32 := by
  simp [lower, h]

theorem lower_not_upper (b : UInt8) : ¬ (65 ≤ lower b ∧ lower b ≤ 90) := by
  unfold lower
  split
  · rename_i h
    intro h'
    have h1 := UInt8.le_iff_toNat_le.mp h.1
    have h2 := UInt8.le_iff_toNat_le.mp h.2
    have h3 := UInt8.le_iff_toNat_le.mp h'.2
    rw [UInt8.toNat_add] at h3
    simp at h1 h2 h3; omega
  · rename_i h; exact h

/-- **Lower-casing never conflates two different bytes unless they are the two cases of one
letter** (so `_` and DEL, `@` and the back-quote, `[` and `{` stay different). -/
theorem lower_eq_lower (a b : UInt8) (h : lower a = lower b) :
    a = b ∨ ((65 ≤ a ∧ a ≤ 90) ∧ b = a + 32) ∨ ((65 ≤ b ∧ b ≤ 90) ∧ a = b + 32) := by
  by_cases ha : 65 ≤ a ∧ a ≤ 90 <;> by_cases hb : 65 ≤ b ∧ b ≤ 90
  · left
    rw [lower_of_upper a ha, lower_of_upper b hb] at h
    exact (UInt8.add_left_inj 32).mp h
  · right; left
    rw [lower_of_upper a ha, lower_of_not_upper b hb] at h
    exact ⟨ha, h.symm⟩
  · right; right
    rw [lower_of_not_upper a ha, lower_of_upper b hb] at h
    exact ⟨hb, h⟩
  · left
    rw [lower_of_not_upper a ha, lower_of_not_upper b hb] at h
    exact h

theorem mem_trimDot (s : Bytes) (b : UInt8) (h : b ∈ trimDot s) : b ∈ s := by
  unfold trimDot at h
  split at h
  · exact List.dropLast_subset _ h
  · exact h

/-- A name without upper-case letters is only stripped of its dot (the "already lower case" path:
nothing else may change, whatever other bytes the name holds). -/
theorem norm_no_upper (s : Bytes) (h : ∀ b ∈ s, ¬ (65 ≤ b ∧ b ≤ 90)) : norm s = trimDot s := by
  unfold norm
  have : ∀ b ∈ trimDot s, lower b = b := fun b hb => lower_of_not_upper b (h b (mem_trimDot s b hb))
  rw [List.map_congr_left this]
  simp

/-- The normalised name has no upper-case letter left. -/
theorem norm_has_no_upper (s : Bytes) : ∀ b ∈ norm s, ¬ (65 ≤ b ∧ b ≤ 90) := by
  intro b hb
  unfold norm at hb
  obtain ⟨a, _, rfl⟩ := List.mem_map.mp hb
  exact lower_not_upper a

/-- Byte by byte: position `i` of the normalised name is the lower-cased byte at position `i`
of the name without its trailing dot - also behind the first upper-case letter. -/
theorem norm_getElem? (s : Bytes) (i : Nat) : (norm s)[i]? = ((trimDot s)[i]?).map lower := by
  simp [norm]

/-- **Two spellings are the same name only if they differ in letter case alone**: equal
normal forms have the same length and, position by position, the same byte or the two cases of
one letter. -/
theorem norm_eq_bytes (s t : Bytes) (h : norm s = norm t) :
    (trimDot s).length = (trimDot t).length ∧
    ∀ (i : Nat) (a b : UInt8), (trimDot s)[i]? = some a → (trimDot t)[i]? = some b →
      a = b ∨ ((65 ≤ a ∧ a ≤ 90) ∧ b = a + 32) ∨ ((65 ≤ b ∧ b ≤ 90) ∧ a = b + 32) := by
  refine ⟨?_, ?_⟩
  · have := congrArg List.length h
    simpa [norm] using this
  · intro i a b ha hb
    have := congrArg (fun l => l[i]?) h
    simp only [norm_getElem?, ha, hb, Option.map_some, Option.some.injEq] at this
    exact lower_eq_lower a b this

/-- **Case does not matter**: a name (or full/domain/keyword rule) and its
lower-cased spelling normalise to the same string. -/
theorem norm_case (s : Bytes) : norm (s.map lower) = norm s := by
  unfold norm
  rw [trimDot_map_lower, List.map_map]
  congr 1
  funext b
  exact lower_idem b

/-- **One trailing dot does not matter.** -/
theorem norm_trailing_dot (s : Bytes) (h : s.getLast? ≠ some dot) : norm (s ++ [dot]) = norm s := by
  unfold norm trimDot
  simp [h]

/-- Adding a rule only goes through `norm` (full, keyword) or `scan ∘ norm`
(domain): two spellings with the same `norm` are the same rule. -/
theorem add_normalised (m : Mix V) (k : Kind) (hk : k ≠ .regexp) (p p' : Bytes) (v : V)
    (h : norm p = norm p') : m.add k p v = m.add k p' v := by
  cases k <;> simp_all [Mix.add]

/-- `Match` only depends on the normalised name. -/
theorem match_normalised (m : Mix V) (re : Bytes → Bytes → Bool) (n n' : Bytes)
    (h : norm n = norm n') : m.candidates re n = m.candidates re n' := by
  unfold Mix.candidates; rw [h]

/-! ### Precedence in `MixMatcher.Match` -/

/-- full > domain > regexp > keyword. -/
theorem mix_precedence (m : Mix V) (re : Bytes → Bytes → Bool) (name : Bytes) :
    (∀ p, m.full.find? (fun p => p.1 == norm name) = some p → m.candidates re name = [p.2]) ∧
    (m.full.find? (fun p => p.1 == norm name) = none →
      (∀ v, m.domain.matchPath (scan (norm name)) = some v → m.candidates re name = [v]) ∧
      (m.domain.matchPath (scan (norm name)) = none →
        ((m.regexp.filter (fun p => re p.1 (norm name))) ≠ [] →
          m.candidates re name = (m.regexp.filter (fun p => re p.1 (norm name))).map (·.2)) ∧
        ((m.regexp.filter (fun p => re p.1 (norm name))) = [] →
          m.candidates re name = (m.keyword.filter (fun p => isInfix p.1 (norm name))).map (·.2)))) := by
  refine ⟨?_, ?_⟩
  · intro p hp
    unfold Mix.candidates
    simp only [hp]
  · intro hf
    refine ⟨?_, ?_⟩
    · intro v hv
      unfold Mix.candidates
      simp only [hf, hv]
    · intro hd
      refine ⟨?_, ?_⟩
      · intro hne
        unfold Mix.candidates
        simp only [hf, hd]
        cases hm : (m.regexp.filter (fun p => re p.1 (norm name))) with
        | nil => exact absurd hm hne
        | cons a as => rfl
      · intro he
        unfold Mix.candidates
        simp only [hf, hd, he]
        rfl

theorem no_match_iff (m : Mix V) (re : Bytes → Bytes → Bool) (name : Bytes) :
    m.candidates re name = [] ↔
      m.full.find? (fun p => p.1 == norm name) = none ∧
      m.domain.matchPath (scan (norm name)) = none ∧
      (∀ p ∈ m.regexp, re p.1 (norm name) = false) ∧
      (∀ p ∈ m.keyword, isInfix p.1 (norm name) = false) := by
  obtain ⟨h1, h2⟩ := mix_precedence m re name
  cases hf : m.full.find? (fun p => p.1 == norm name) with
  | some p => rw [h1 p hf]; simp
  | none =>
    obtain ⟨h3, h4⟩ := h2 hf
    cases hd : m.domain.matchPath (scan (norm name)) with
    | some v => rw [h3 v hd]; simp
    | none =>
      obtain ⟨h5, h6⟩ := h4 hd
      have filt : ∀ (l : List (Bytes × V)) (f : Bytes × V → Bool), l.filter f = [] ↔ ∀ p ∈ l, f p = false := by
        intro l f
        rw [List.filter_eq_nil_iff]
        constructor
        · intro h p hp; simpa using h p hp
        · intro h p hp; simp [h p hp]
      by_cases hr : m.regexp.filter (fun p => re p.1 (norm name)) = []
      · rw [h6 hr]
        simp only [true_and, List.map_eq_nil_iff]
        rw [filt]
        constructor
        · intro hk; exact ⟨(filt _ _).mp hr, hk⟩
        · intro h; exact h.2
      · rw [h5 hr]
        simp only [true_and, List.map_eq_nil_iff]
        constructor
        · intro h; exact absurd h hr
        · intro h; exact absurd ((filt _ _).mpr h.1) hr

/-! ### From the rule list to the `MixMatcher`: a set's own matcher matches iff some rule describes the name -/

/-- The property's reading of the four rule types, on the normalised name. `domain:` - the rule's labels
are the last labels of the name (a prefix of the right-to-left label sequence). -/
def describes (re : Bytes → Bytes → Bool) (r : Kind × Bytes) (name : Bytes) : Prop :=
  match r.1 with
  | .full => norm r.2 = norm name
  | .domain => scan (norm r.2) <+: scan (norm name)
  | .regexp => re r.2 (norm name) = true
  | .keyword => isInfix (norm r.2) (norm name) = true

def keys (l : List (Bytes × Unit)) : List Bytes := l.map (·.1)

theorem keys_upsert (l : List (Bytes × Unit)) (k k' : Bytes) (v : Unit) :
    k' ∈ keys (upsert l k v) ↔ k' ∈ keys l ∨ k' = k := by
  unfold upsert keys
  split
  · rename_i h
    have hmap : (l.map (fun p => if p.1 == k then (k, v) else p)).map (·.1) = l.map (·.1) := by
      rw [List.map_map]
      apply List.map_congr_left
      intro p _
      by_cases hp : p.1 == k
      · simp only [Function.comp, hp, if_true]; exact (eq_of_beq hp).symm
      · simp [Function.comp, hp]
    rw [hmap]
    constructor
    · intro h'; exact Or.inl h'
    · rintro (h' | rfl)
      · exact h'
      · obtain ⟨p, hp, hpk⟩ := List.any_eq_true.mp h
        exact List.mem_map.mpr ⟨p, hp, eq_of_beq hpk⟩
  · simp [List.map_append, List.mem_append]

theorem find_none_iff (l : List (Bytes × Unit)) (n : Bytes) :
    l.find? (fun p => p.1 == n) = none ↔ n ∉ keys l := by
  unfold keys
  rw [List.find?_eq_none]
  simp only [List.mem_map, not_exists, not_and]
  constructor
  · intro h p hp e; exact h p hp (by simp [e])
  · intro h p hp e; exact h p hp (eq_of_beq e)

theorem all_keys_iff (l : List (Bytes × Unit)) (f : Bytes → Bool) :
    (∀ p ∈ l, f p.1 = false) ↔ ∀ k ∈ keys l, f k = false := by
  unfold keys
  simp only [List.mem_map]
  constructor
  · rintro h k ⟨p, hp, rfl⟩; exact h p hp
  · intro h p hp; exact h p.1 ⟨p, hp, rfl⟩

/-- the rules `rs` loaded into `m0`, oldest first -/
def loadRules (m0 : Mix Unit) (rs : List (Kind × Bytes)) : Mix Unit := rs.foldl (fun m r => m.add r.1 r.2 ()) m0

theorem full_keys (rs : List (Kind × Bytes)) : ∀ (m0 : Mix Unit) (k : Bytes),
    k ∈ keys (loadRules m0 rs).full ↔ k ∈ keys m0.full ∨ ∃ r ∈ rs, r.1 = .full ∧ norm r.2 = k := by
  induction rs with
  | nil => intro m0 k; simp [loadRules]
  | cons r rs ih =>
    intro m0 k
    show k ∈ keys (loadRules (m0.add r.1 r.2 ()) rs).full ↔ _
    rw [ih]
    obtain ⟨kd, p⟩ := r
    cases kd <;> simp [Mix.add, keys_upsert, eq_comm, or_assoc]

theorem regexp_keys (rs : List (Kind × Bytes)) : ∀ (m0 : Mix Unit) (k : Bytes),
    k ∈ keys (loadRules m0 rs).regexp ↔ k ∈ keys m0.regexp ∨ ∃ r ∈ rs, r.1 = .regexp ∧ r.2 = k := by
  induction rs with
  | nil => intro m0 k; simp [loadRules]
  | cons r rs ih =>
    intro m0 k
    show k ∈ keys (loadRules (m0.add r.1 r.2 ()) rs).regexp ↔ _
    rw [ih]
    obtain ⟨kd, p⟩ := r
    cases kd <;> simp [Mix.add, keys_upsert, eq_comm, or_assoc]

theorem keyword_keys (rs : List (Kind × Bytes)) : ∀ (m0 : Mix Unit) (k : Bytes),
    k ∈ keys (loadRules m0 rs).keyword ↔ k ∈ keys m0.keyword ∨ ∃ r ∈ rs, r.1 = .keyword ∧ norm r.2 = k := by
  induction rs with
  | nil => intro m0 k; simp [loadRules]
  | cons r rs ih =>
    intro m0 k
    show k ∈ keys (loadRules (m0.add r.1 r.2 ()) rs).keyword ↔ _
    rw [ih]
    obtain ⟨kd, p⟩ := r
    cases kd <;> simp [Mix.add, keys_upsert, eq_comm, or_assoc]

/-- the `domain:` rules among `rs` as label paths -/
def domRules : List (Kind × Bytes) → List (List Label × Unit)
  | [] => []
  | (.domain, p) :: rs => (scan (norm p), ()) :: domRules rs
  | (.full, _) :: rs => domRules rs
  | (.regexp, _) :: rs => domRules rs
  | (.keyword, _) :: rs => domRules rs

theorem mem_domRules (rs : List (Kind × Bytes)) (q : List Label) :
    (∃ x ∈ domRules rs, x.1 = q) ↔ ∃ r ∈ rs, r.1 = .domain ∧ scan (norm r.2) = q := by
  induction rs with
  | nil => simp [domRules]
  | cons r rs ih =>
    obtain ⟨kd, p⟩ := r
    cases kd <;> simp [domRules, ih]

theorem domain_trie (rs : List (Kind × Bytes)) : ∀ (m0 : Mix Unit),
    (loadRules m0 rs).domain = (domRules rs).foldl (fun t r => t.add r.1 r.2) m0.domain := by
  induction rs with
  | nil => intro m0; simp [loadRules, domRules]
  | cons r rs ih =>
    intro m0
    show (loadRules (m0.add r.1 r.2 ()) rs).domain = _
    rw [ih]
    obtain ⟨kd, p⟩ := r
    cases kd <;> simp [Mix.add, domRules]

theorem lastValue_none_iff (rs : List (List Label × Unit)) (q : List Label) :
    lastValue rs q = none ↔ ¬ ∃ x ∈ rs, x.1 = q := by
  unfold lastValue
  rw [Option.map_eq_none_iff, List.find?_eq_none]
  simp only [List.mem_reverse, not_exists, not_and]
  constructor
  · intro h x hx e; exact h x hx (by simp [e])
  · intro h x hx e; exact h x hx (eq_of_beq e)

/-- **C12 (first sentence).** A `MixMatcher` loaded with any list of rules matches a name if and only
if some rule of the list describes the name. -/
theorem rules_hit_iff (re : Bytes → Bytes → Bool) (rs : List (Kind × Bytes)) (name : Bytes) :
    (mixOfRules rs).hit re name = true ↔ ∃ r ∈ rs, describes re r name := by
  have hne : (mixOfRules rs).hit re name = true ↔ ¬ (mixOfRules rs).candidates re name = [] := by
    unfold Mix.hit
    cases (mixOfRules rs).candidates re name <;> simp
  have hC : (∀ p ∈ (mixOfRules rs).regexp, re p.1 (norm name) = false) ↔
      ∀ k ∈ keys (mixOfRules rs).regexp, re k (norm name) = false := all_keys_iff _ (fun k => re k (norm name))
  have hD : (∀ p ∈ (mixOfRules rs).keyword, isInfix p.1 (norm name) = false) ↔
      ∀ k ∈ keys (mixOfRules rs).keyword, isInfix k (norm name) = false := all_keys_iff _ (fun k => isInfix k (norm name))
  rw [hne, no_match_iff, find_none_iff, hC, hD]
  have hm : mixOfRules rs = loadRules {} rs := rfl
  have hdom : (mixOfRules rs).domain = build (domRules rs) := by rw [hm, domain_trie]; rfl
  rw [hdom, (domain_match (domRules rs) (scan (norm name))).1]
  simp only [lastValue_none_iff, mem_domRules, hm, full_keys, regexp_keys, keyword_keys]
  have e0 : keys ({} : Mix Unit).full = [] := rfl
  simp only [e0, List.not_mem_nil, false_or]
  constructor
  · intro h
    apply Classical.byContradiction
    intro hno
    apply h
    refine ⟨?_, ?_, ?_, ?_⟩
    · rintro ⟨r, hr, hk, hn⟩; exact hno ⟨r, hr, by unfold describes; rw [hk]; exact hn⟩
    · rintro q hq ⟨r, hr, hk, hn⟩; exact hno ⟨r, hr, by unfold describes; rw [hk]; show scan (norm r.2) <+: _; rw [hn]; exact hq⟩
    · rintro k ⟨r, hr, hk, rfl⟩
      cases hb : re r.2 (norm name) with
      | false => rfl
      | true => exact absurd ⟨r, hr, by unfold describes; rw [hk]; exact hb⟩ hno
    · rintro k ⟨r, hr, hk, rfl⟩
      cases hb : isInfix (norm r.2) (norm name) with
      | false => rfl
      | true => exact absurd ⟨r, hr, by unfold describes; rw [hk]; exact hb⟩ hno
  · rintro ⟨r, hr, hd⟩ ⟨h1, h2, h3, h4⟩
    obtain ⟨kd, p⟩ := r
    cases kd with
    | full => exact h1 ⟨(.full, p), hr, rfl, hd⟩
    | domain => exact h2 (scan (norm p)) hd ⟨(.domain, p), hr, rfl, rfl⟩
    | regexp =>
      have := h3 p ⟨(.regexp, p), hr, rfl, rfl⟩
      unfold describes at hd
      simp only at hd
      rw [hd] at this; cases this
    | keyword =>
      have := h4 (norm p) ⟨(.keyword, p), hr, rfl, rfl⟩
      unfold describes at hd
      simp only at hd
      rw [hd] at this; cases this

/-! ### Sets assembled from other sets (`data_provider/domain_set`) -/

/-- Some set reachable from set `i` through `sets:` (itself included) matches
the name with its own rules. -/
inductive Reach (defs : List SetDef) (name : Bytes) : Nat → Prop
  | own {i : Nat} {d : SetDef} : defs[i]? = some d → d.own name = true → Reach defs name i
  | ref {i j : Nat} {d : SetDef} : defs[i]? = some d → j ∈ d.refs → Reach defs name j → Reach defs name i

theorem lookupAll_spec (built : List SetMatcher) (name : Bytes) : ∀ (js : List Nat) (rs : List SetMatcher),
    lookupAll built js = some rs →
      (rs.any (fun f => f name) = true ↔ ∃ j ∈ js, ∃ f, built[j]? = some f ∧ f name = true) ∧
      (∀ j ∈ js, ∃ f, built[j]? = some f) := by
  intro js
  induction js with
  | nil => intro rs h; simp [lookupAll] at h; subst h; simp
  | cons j js ih =>
    intro rs h
    unfold lookupAll at h
    cases hj : built[j]? with
    | none => simp [hj] at h
    | some m =>
      cases hl : lookupAll built js with
      | none => simp [hj, hl] at h
      | some ms =>
        simp [hj, hl] at h
        subst h
        obtain ⟨ih1, ih2⟩ := ih ms hl
        constructor
        · simp only [List.any_cons, Bool.or_eq_true, ih1, List.mem_cons]
          constructor
          · rintro (h | ⟨j', hj', f, hf, hfn⟩)
            · exact ⟨j, Or.inl rfl, m, hj, h⟩
            · exact ⟨j', Or.inr hj', f, hf, hfn⟩
          · rintro ⟨j', (rfl | hj'), f, hf, hfn⟩
            · rw [hj] at hf; injection hf with hf; subst hf; exact Or.inl hfn
            · exact Or.inr ⟨j', hj', f, hf, hfn⟩
        · intro j' hj'
          rcases List.mem_cons.mp hj' with rfl | h'
          · exact ⟨m, hj⟩
          · exact ih2 j' h'

/-- the matcher `NewDomainSet` returns for the set at position `k`, given that the matchers of the
sets before it are right -/
theorem newSet_spec (all : List SetDef) (name : Bytes)
    (hkept : ∀ d ∈ all, d.kept = false → d.own name = false)
    (built : List SetMatcher) (d : SetDef) (m : SetMatcher)
    (hd : all[built.length]? = some d)
    (hb : ∀ i f, built[i]? = some f → (f name = true ↔ Reach all name i))
    (hm : newSet built d = some m) : m name = true ↔ Reach all name built.length := by
  unfold newSet at hm
  cases hl : lookupAll built d.refs with
  | none => simp [hl] at hm
  | some rs =>
    simp only [hl, Option.some.injEq] at hm
    subst hm
    obtain ⟨h1, h2⟩ := lookupAll_spec built name d.refs rs hl
    unfold groupMatch
    rw [List.any_append, Bool.or_eq_true, h1]
    constructor
    · rintro (h | ⟨j, hj, f, hf, hfn⟩)
      · cases hk : d.kept with
        | false => simp [hk] at h
        | true => simp [hk] at h; exact Reach.own hd h
      · exact Reach.ref hd hj ((hb j f hf).mp hfn)
    · intro h
      generalize hk : built.length = k at h hd
      cases h with
      | own hd' ho =>
        rw [hd] at hd'; injection hd' with hd'; subst hd'
        left
        cases hkk : d.kept with
        | false =>
          have := hkept d (List.mem_of_getElem? hd) hkk
          rw [this] at ho; cases ho
        | true => simp [ho]
      | ref hd' hj hr =>
        rw [hd] at hd'; injection hd' with hd'; subst hd'
        right
        obtain ⟨f, hf⟩ := h2 _ hj
        exact ⟨_, hj, f, hf, (hb _ f hf).mpr hr⟩

/-- **C12 (sets of sets).** The plugins of a configuration, built in order:
the matcher of the set at position `i` matches a name iff the own rules of
the set, or of a set it references directly or through other sets, match it
(given that a set whose own matcher is dropped, `Len() = 0`, has no rule for
the name). -/
theorem buildSets_spec (all : List SetDef) (name : Bytes)
    (hkept : ∀ d ∈ all, d.kept = false → d.own name = false) :
    ∀ (rest done : List SetDef) (built ms : List SetMatcher),
      all = done ++ rest → built.length = done.length →
      (∀ i f, built[i]? = some f → (f name = true ↔ Reach all name i)) →
      buildSets built rest = some ms →
      ms.length = all.length ∧ ∀ i f, ms[i]? = some f → (f name = true ↔ Reach all name i) := by
  intro rest
  induction rest with
  | nil =>
    intro done built ms hall hlen hb h
    simp only [buildSets, Option.some.injEq] at h
    subst h
    simp only [List.append_nil] at hall
    subst hall
    exact ⟨hlen, hb⟩
  | cons d ds ih =>
    intro done built ms hall hlen hb h
    unfold buildSets at h
    cases hm : newSet built d with
    | none => simp [hm] at h
    | some m =>
      simp only [hm] at h
      have hd : all[built.length]? = some d := by
        rw [hall, hlen]; simp
      have hmn := newSet_spec all name hkept built d m hd hb hm
      refine ih (done ++ [d]) (built ++ [m]) ms (by simp [hall]) (by simp [hlen]) ?_ h
      intro i f hif
      by_cases hi : i < built.length
      · rw [List.getElem?_append_left hi] at hif
        exact hb i f hif
      · by_cases hi' : i = built.length
        · subst hi'
          simp at hif
          subst hif
          exact hmn
        · have : built.length + 1 ≤ i := by omega
          rw [List.getElem?_eq_none (by simp; omega)] at hif
          cases hif

theorem sets_match (defs : List SetDef) (name : Bytes) (ms : List SetMatcher)
    (hkept : ∀ d ∈ defs, d.kept = false → d.own name = false)
    (h : buildSets [] defs = some ms) :
    ms.length = defs.length ∧ ∀ i f, ms[i]? = some f → (f name = true ↔ Reach defs name i) :=
  buildSets_spec defs name hkept defs [] [] ms (by simp) rfl (by intro i f hf; simp at hf) h

/-! `Len() > 0` as soon as there is a rule: the own matcher of a set is dropped only if the set has no
rules of its own. -/

theorem subLen_add_pos (path : List Label) : ∀ (t : Trie Unit), 0 < (t.add path ()).subLen true := by
  induction path with
  | nil => intro t; simp [Trie.add, Trie.subLen, Trie.val]
  | cons l ls ih =>
    intro t
    have hc := ih ((t.child l).getD Trie.empty)
    unfold Trie.subLen at hc ⊢
    simp only [Trie.add, Trie.setChild, Trie.len, Trie.lenKids]
    simp only [Bool.true_and] at hc ⊢
    omega

theorem subLen_fold_pos : ∀ (ds : List (List Label × Unit)) (t : Trie Unit), ds ≠ [] →
    0 < (ds.foldl (fun t r => t.add r.1 r.2) t).subLen true := by
  intro ds
  induction ds with
  | nil => intro t h; exact absurd rfl h
  | cons d ds ih =>
    intro t _
    by_cases hds : ds = []
    · subst hds; exact subLen_add_pos d.1 t
    · exact ih (t.add d.1 d.2) hds

theorem keys_length_pos (l : List (Bytes × Unit)) (k : Bytes) (h : k ∈ keys l) : 0 < l.length := by
  cases l with
  | nil => simp [keys] at h
  | cons _ _ => simp

/-- a matcher that holds a rule has `Len() > 0` -/
theorem len_pos_of_rule (rs : List (Kind × Bytes)) (r : Kind × Bytes) (hr : r ∈ rs) : 0 < (mixOfRules rs).len := by
  have hm : mixOfRules rs = loadRules {} rs := rfl
  unfold Mix.len Mix.lenWith
  obtain ⟨kd, p⟩ := r
  cases kd with
  | full =>
    have := keys_length_pos _ _ ((full_keys rs {} (norm p)).mpr (Or.inr ⟨_, hr, rfl, rfl⟩))
    rw [hm]; omega
  | regexp =>
    have := keys_length_pos _ _ ((regexp_keys rs {} p).mpr (Or.inr ⟨_, hr, rfl, rfl⟩))
    rw [hm]; omega
  | keyword =>
    have := keys_length_pos _ _ ((keyword_keys rs {} (norm p)).mpr (Or.inr ⟨_, hr, rfl, rfl⟩))
    rw [hm]; omega
  | domain =>
    have hne : domRules rs ≠ [] := by
      intro e
      obtain ⟨x, hx, _⟩ := (mem_domRules rs (scan (norm p))).mpr ⟨_, hr, rfl, rfl⟩
      rw [e] at hx; cases hx
    have := subLen_fold_pos (domRules rs) ({} : Mix Unit).domain hne
    rw [hm, domain_trie]; omega

/-- Some rule of set `i`, or of a set it references directly or through other sets, describes the name. -/
inductive SomeRule (re : Bytes → Bytes → Bool) (cfgs : List (List (Kind × Bytes) × List Nat)) (name : Bytes) : Nat → Prop
  | own {i : Nat} {c : List (Kind × Bytes) × List Nat} {r : Kind × Bytes} :
      cfgs[i]? = some c → r ∈ c.1 → describes re r name → SomeRule re cfgs name i
  | ref {i j : Nat} {c : List (Kind × Bytes) × List Nat} :
      cfgs[i]? = some c → j ∈ c.2 → SomeRule re cfgs name j → SomeRule re cfgs name i

theorem reach_iff_someRule (re : Bytes → Bytes → Bool) (cfgs : List (List (Kind × Bytes) × List Nat)) (name : Bytes) (i : Nat) :
    Reach (cfgs.map (defOfRules re)) name i ↔ SomeRule re cfgs name i := by
  constructor
  · intro h
    induction h with
    | own hd ho =>
      rw [List.getElem?_map] at hd
      obtain ⟨c, hc, rfl⟩ := Option.map_eq_some_iff.mp hd
      obtain ⟨r, hr, hdesc⟩ := (rules_hit_iff re c.1 name).mp ho
      exact SomeRule.own hc hr hdesc
    | ref hd hj _ ih =>
      rw [List.getElem?_map] at hd
      obtain ⟨c, hc, rfl⟩ := Option.map_eq_some_iff.mp hd
      exact SomeRule.ref hc hj ih
  · intro h
    induction h with
    | own hc hr hdesc =>
      exact Reach.own (by rw [List.getElem?_map, hc]; rfl) ((rules_hit_iff re _ name).mpr ⟨_, hr, hdesc⟩)
    | ref hc hj _ ih =>
      exact Reach.ref (by rw [List.getElem?_map, hc]; rfl) hj ih

/-- **C12 for `domain_set` plugins.** Any configuration of sets (own rules of
the four types plus references to sets built earlier, to any depth, sets
shared between several others), built in configuration order: the set at
position `i` matches a name if and only if some rule of the set itself or of
a set it references, directly or through other sets, describes the name.
(That the own matcher is kept only if `Len() > 0` loses nothing:
`len_pos_of_rule`. With the `Len` of the tree before the fix of finding F14
it did: `old_len_dropped_root_only_sets`.) -/
theorem domain_sets_match (re : Bytes → Bytes → Bool) (cfgs : List (List (Kind × Bytes) × List Nat))
    (name : Bytes) (ms : List SetMatcher)
    (h : buildSets [] (cfgs.map (defOfRules re)) = some ms) :
    ms.length = cfgs.length ∧ ∀ i f, ms[i]? = some f → (f name = true ↔ SomeRule re cfgs name i) := by
  have hkept : ∀ d ∈ cfgs.map (defOfRules re), d.kept = false → d.own name = false := by
    intro d hd hk
    obtain ⟨c, hc, rfl⟩ := List.mem_map.mp hd
    have hlen : (mixOfRules c.1).len = 0 := by
      simp only [defOfRules, decide_eq_false_iff_not] at hk
      omega
    cases ho : (defOfRules re c).own name with
    | false => rfl
    | true =>
      obtain ⟨r, hr, _⟩ := (rules_hit_iff re c.1 name).mp ho
      have := len_pos_of_rule c.1 r hr
      omega
  obtain ⟨h1, h2⟩ := sets_match _ name ms hkept h
  refine ⟨by simpa using h1, ?_⟩
  intro i f hf
  rw [h2 i f hf, reach_iff_someRule]

/-! ### Tables of rules with values (`hosts`): every line's rule is used as written -/

theorem mem_hostsRules (dflt : Option Kind) : ∀ (fields : List Bytes) (rs : List (Kind × Bytes)),
    hostsRules id dflt fields = some rs → ∀ r, r ∈ rs ↔ ∃ f ∈ fields, splitRule dflt f = some r := by
  intro fields
  induction fields with
  | nil =>
    intro rs h r
    simp only [hostsRules, Option.some.injEq] at h
    subst h; simp
  | cons f fs ih =>
    intro rs h r
    simp only [hostsRules, id] at h
    cases hf : splitRule dflt f with
    | none => rw [hf] at h; simp at h
    | some r0 =>
      rw [hf] at h
      cases hr : hostsRules id dflt fs with
      | none => rw [hr] at h; simp at h
      | some rs0 =>
        rw [hr] at h
        simp only [Option.some.injEq] at h
        subst h
        have ih' := ih rs0 hr r
        simp only [List.mem_cons, ih']
        constructor
        · rintro (e | ⟨g, hg, hs⟩)
          · exact ⟨f, Or.inl rfl, by rw [hf, e]⟩
          · exact ⟨g, Or.inr hg, hs⟩
        · rintro ⟨g, hg | hg, hs⟩
          · subst hg; rw [hf] at hs; exact Or.inl (Option.some.inj hs).symm
          · exact Or.inr ⟨g, hg, hs⟩

/-- **C12 for a hosts table.** When the parser hands every line's first field to `Add` as written
(`rw = id`, fact `c12HostsRuleAsWritten`), the table matches a name iff the rule written on some line
(type prefix or the table's default type) describes it - for a `regexp:` line: iff the expression as
written matches the normalised name. -/
theorem hosts_table_hit_iff (re : Bytes → Bytes → Bool) (dflt : Option Kind) (fields : List Bytes)
    (rs : List (Kind × Bytes)) (h : hostsRules id dflt fields = some rs) (name : Bytes) :
    (mixOfRules rs).hit re name = true ↔ ∃ f ∈ fields, ∃ r, splitRule dflt f = some r ∧ describes re r name := by
  rw [rules_hit_iff]
  constructor
  · rintro ⟨r, hr, hd⟩
    obtain ⟨f, hf, hs⟩ := (mem_hostsRules dflt fields rs h r).1 hr
    exact ⟨f, hf, r, hs, hd⟩
  · rintro ⟨f, hf, r, hs, hd⟩
    exact ⟨r, (mem_hostsRules dflt fields rs h r).2 ⟨f, hf, hs⟩, hd⟩

/-- Why the rule must be taken as written: a parser that lower-cases the field (`rw = map lower`,
harmless for full / domain / keyword rules, which are normalised anyway: `add_normalised`) turns the
line `regexp:^\D` into the rule `^\d`, another expression. With an engine `re` on which `^\D`
matches `a` and `^\d` does not, the written rule describes the name `a` and the loaded table does
not match it. -/
theorem lowercasing_parser_rewrites_regexps :
    let line : Bytes := [114, 101, 103, 101, 120, 112, 58, 94, 92, 68]        -- regexp:^\D
    let e : Bytes := [94, 92, 68]                                              -- ^\D
    let name : Bytes := [97]                                                   -- a
    let re : Bytes → Bytes → Bool := fun x n => x == e && n == name
    hostsRules id (some .full) [line] = some [(.regexp, e)] ∧
    hostsRules (·.map lower) (some .full) [line] = some [(.regexp, [94, 92, 100])] ∧
    (mixOfRules [(.regexp, e)]).hit re name = true ∧
    (mixOfRules [(Kind.regexp, ([94, 92, 100] : Bytes))]).hit re name = false := by
  decide

/-- Finding F14, as a witness about the old `Len` (`SubDomainMatcher.Len = m.root.len()`, the root's
own value not counted): a set whose only rule is the rule for the root - `domain:.` describes every
name - had `Len() = 0`, so `NewDomainSet` dropped its matcher and the set matched nothing. With the
repaired `Len` the same set counts one rule. -/
theorem old_len_dropped_root_only_sets (re : Bytes → Bytes → Bool) (name : Bytes) :
    describes re (.domain, [dot]) name ∧
    (mixOfRules [(.domain, [dot])]).lenWith false = 0 ∧ (mixOfRules [(.domain, [dot])]).len = 1 := by
  refine ⟨?_, by decide, by decide⟩
  show scan (norm [dot]) <+: _
  have : scan (norm [dot]) = [] := by decide
  rw [this]; exact List.nil_prefix

namespace Slices

/-! ### Why a set's group slice must be its own: Go slices over shared backing arrays

`GetDomainMatcher` hands out `MatcherGroup(d.mg)`: a slice header over the provider's backing array.
`append` writes in place whenever that array has room beyond the slice's length, and every other
header over the same array sees the write. Members are numbers here (which matcher); the heap is the
list of backing arrays, a slice is (array, length) with offset 0, its capacity is the array's size.
Array 0 is the empty array of the nil slice. -/

structure Slice where
  arr : Nat
  len : Nat
  deriving DecidableEq, Repr

abbrev Heap := List (List Nat)

def nil : Slice := ⟨0, 0⟩
def cap (h : Heap) (s : Slice) : Nat := (h.getD s.arr []).length
def view (h : Heap) (s : Slice) : List Nat := (h.getD s.arr []).take s.len

/-- `append(s, x)`; `grow n` = how many spare slots a reallocation from length `n` leaves (any policy). -/
def append (grow : Nat → Nat) (h : Heap) (s : Slice) (x : Nat) : Heap × Slice :=
  if s.len < cap h s then (h.set s.arr ((h.getD s.arr []).set s.len x), ⟨s.arr, s.len + 1⟩)
  else (h ++ [view h s ++ x :: List.replicate (grow s.len) 0], ⟨h.length, s.len + 1⟩)

/-- `ds.mg = append(ds.mg, m)` for every member, starting from the nil slice of a fresh `DomainSet`
(what `c12SetGroupOwned` says the constructor does). -/
def buildOwned (grow : Nat → Nat) (h : Heap) (members : List Nat) : Heap × Slice :=
  members.foldl (fun hs x => append grow hs.1 hs.2 x) (h, nil)

/-- the sets of a configuration one after the other, each given by its members -/
def buildAllOwned (grow : Nat → Nat) : Heap → List (List Nat) → Heap × List Slice
  | h, [] => (h, [])
  | h, ms :: rest =>
    let r := buildOwned grow h ms
    let r' := buildAllOwned grow r.1 rest
    (r'.1, r.2 :: r'.2)

/-- state of one set under construction: nothing below `L` (the arrays that existed before) has
changed, and the set's slice is either still nil or lives in an array of its own -/
structure Inv (h0 h : Heap) (s : Slice) (done : List Nat) : Prop where
  len_le : h0.length ≤ h.length
  frame : ∀ a, a < h0.length → h.getD a [] = h0.getD a []
  wf : s.len ≤ cap h s
  view_eq : view h s = done
  own : (s.arr = 0 ∧ s.len = 0) ∨ (h0.length ≤ s.arr ∧ s.arr < h.length)

theorem getD_set_ne (h : Heap) (i a : Nat) (v : List Nat) (hne : a ≠ i) : (h.set i v).getD a [] = h.getD a [] := by
  simp [List.getD_eq_getElem?_getD, List.getElem?_set_ne (Ne.symm hne)]

theorem getD_set_self (h : Heap) (i : Nat) (v : List Nat) (hi : i < h.length) : (h.set i v).getD i [] = v := by
  simp [List.getD_eq_getElem?_getD, hi]

theorem getD_append_left (h : Heap) (a : Nat) (v : List Nat) (ha : a < h.length) : (h ++ [v]).getD a [] = h.getD a [] := by
  simp [List.getD_eq_getElem?_getD, List.getElem?_append_left ha]

theorem getD_append_self (h : Heap) (v : List Nat) : (h ++ [v]).getD h.length [] = v := by
  simp [List.getD_eq_getElem?_getD]

theorem take_set_succ (a : List Nat) (n x : Nat) (hn : n < a.length) : (a.set n x).take (n + 1) = a.take n ++ [x] := by
  induction a generalizing n with
  | nil => simp at hn
  | cons y ys ih =>
    cases n with
    | zero => simp
    | succ n => simp at hn; simp [ih n hn]

theorem take_append_cons (l r : List Nat) (x : Nat) : (l ++ x :: r).take (l.length + 1) = l ++ [x] := by
  induction l with
  | nil => simp
  | cons y ys ih => simp [ih]

theorem inv_step (grow : Nat → Nat) (h0 h : Heap) (s : Slice) (done : List Nat) (x : Nat)
    (h00 : h0.getD 0 [] = []) (hpos : 0 < h0.length) (inv : Inv h0 h s done) :
    Inv h0 (append grow h s x).1 (append grow h s x).2 (done ++ [x]) := by
  obtain ⟨hle, hfr, hwf, hv, hown⟩ := inv
  unfold append
  by_cases hroom : s.len < cap h s
  · -- in place: only possible in an array of the set's own
    simp only [hroom, if_true]
    have hown' : h0.length ≤ s.arr ∧ s.arr < h.length := by
      rcases hown with ⟨ha, hl⟩ | h'
      · exfalso
        unfold cap at hroom
        rw [ha, hfr 0 hpos, h00] at hroom
        simp at hroom
      · exact h'
    refine ⟨by simpa using hle, ?_, ?_, ?_, Or.inr ⟨hown'.1, by simpa using hown'.2⟩⟩
    · intro a ha
      rw [getD_set_ne _ _ _ _ (by omega)]
      exact hfr a ha
    · show s.len + 1 ≤ cap _ _
      unfold cap
      simp only [getD_set_self _ _ _ hown'.2, List.length_set]
      exact hroom
    · unfold view
      simp only [getD_set_self _ _ _ hown'.2]
      rw [take_set_succ _ _ _ hroom]
      unfold view at hv
      rw [hv]
  · simp only [hroom, if_false]
    have hlen : (view h s).length = s.len := by
      unfold view cap at *
      simp only [List.length_take]
      omega
    refine ⟨by simp; omega, ?_, ?_, ?_, Or.inr ⟨hle, by simp⟩⟩
    · intro a ha
      rw [getD_append_left _ _ _ (by omega)]
      exact hfr a ha
    · show s.len + 1 ≤ cap _ _
      unfold cap
      rw [getD_append_self, List.length_append, List.length_cons, hlen]
      omega
    · unfold view
      simp only [getD_append_self]
      have := take_append_cons (view h s) (List.replicate (grow s.len) 0) x
      rw [hlen] at this
      unfold view at this hv
      rw [this, hv]

theorem inv_init (h0 : Heap) : Inv h0 h0 nil [] :=
  ⟨Nat.le_refl _, fun _ _ => rfl, Nat.zero_le _, by simp [view, nil], Or.inl ⟨rfl, rfl⟩⟩

theorem inv_fold (grow : Nat → Nat) (h0 : Heap) (h00 : h0.getD 0 [] = []) (hpos : 0 < h0.length) :
    ∀ (ms : List Nat) (hs : Heap × Slice) (done : List Nat), Inv h0 hs.1 hs.2 done →
      Inv h0 (ms.foldl (fun hs x => append grow hs.1 hs.2 x) hs).1 (ms.foldl (fun hs x => append grow hs.1 hs.2 x) hs).2 (done ++ ms) := by
  intro ms
  induction ms with
  | nil => intro hs done inv; simpa using inv
  | cons x xs ih =>
    intro hs done inv
    have := ih (append grow hs.1 hs.2 x) (done ++ [x]) (inv_step grow h0 hs.1 hs.2 done x h00 hpos inv)
    simpa using this

theorem buildOwned_inv (grow : Nat → Nat) (h0 : Heap) (h00 : h0.getD 0 [] = []) (hpos : 0 < h0.length) (ms : List Nat) :
    Inv h0 (buildOwned grow h0 ms).1 (buildOwned grow h0 ms).2 ms := by
  have := inv_fold grow h0 h00 hpos ms (h0, nil) [] (inv_init h0)
  simpa [buildOwned] using this

/-- **Sets that own their group slice keep their members.** However many sets are built one after
the other, each by appending its members one at a time to its own (initially nil) slice, and whatever
the growth policy of `append`: in the final heap every set's slice still shows exactly the members it
was given. -/
theorem owned_sets_keep_their_members (grow : Nat → Nat) : ∀ (mss : List (List Nat)) (h0 : Heap),
    h0.getD 0 [] = [] → 0 < h0.length →
    (buildAllOwned grow h0 mss).2.length = mss.length ∧
    h0.length ≤ (buildAllOwned grow h0 mss).1.length ∧
    (∀ a, a < h0.length → (buildAllOwned grow h0 mss).1.getD a [] = h0.getD a []) ∧
    ∀ (i : Nat) (s : Slice) (ms : List Nat), (buildAllOwned grow h0 mss).2[i]? = some s → mss[i]? = some ms →
      view (buildAllOwned grow h0 mss).1 s = ms := by
  intro mss
  induction mss with
  | nil => intro h0 _ _; simp [buildAllOwned]
  | cons ms rest ih =>
    intro h0 h00 hpos
    obtain ⟨hle, hfr, _, hv, hown⟩ := buildOwned_inv grow h0 h00 hpos ms
    have hpos' : 0 < (buildOwned grow h0 ms).1.length := by omega
    have h00' : (buildOwned grow h0 ms).1.getD 0 [] = [] := by rw [hfr 0 hpos]; exact h00
    obtain ⟨i1, i2, i3, i4⟩ := ih (buildOwned grow h0 ms).1 h00' hpos'
    simp only [buildAllOwned]
    refine ⟨by simp [i1], by omega, ?_, ?_⟩
    · intro a ha
      rw [i3 a (by omega)]
      exact hfr a ha
    · intro i s ms' hs hms
      cases i with
      | zero =>
        simp at hs hms
        subst hs; subst hms
        have harr : (buildOwned grow h0 ms).2.arr < (buildOwned grow h0 ms).1.length := by
          rcases hown with ⟨ha, _⟩ | ⟨_, hb⟩
          · rw [ha]; exact hpos'
          · exact hb
        unfold view
        rw [i3 _ harr]
        exact hv
      | succ i =>
        simp at hs hms
        exact i4 i s ms' hs hms

/-- Go's growth for small slices: capacity 1, 2, 4, 8, ... -/
def goGrow (n : Nat) : Nat := n - 1

/-- the other constructor: a set that has nothing of its own yet takes the first referenced group's
slice as it is and appends the further members to it -/
def buildSharing (grow : Nat → Nat) (h : Heap) (first : Slice) (more : List Nat) : Heap × Slice :=
  more.foldl (fun hs x => append grow hs.1 hs.2 x) (h, first)

/-- ... and what happens then: a base of three members (capacity 4), `direct` = base + member 20,
`blocked` = base + member 30, built in this order. Both appends go into the spare slot of the base's
array: `direct` ends up with `blocked`'s member. With slices of their own (copying the base's
members) both sets are what they were given. -/
theorem shared_group_slice_mixes_sets_up :
    let b := buildOwned goGrow [[]] [10, 11, 12]
    let d1 := buildSharing goGrow b.1 b.2 [20]
    let d2 := buildSharing goGrow d1.1 b.2 [30]
    view d1.1 d1.2 = [10, 11, 12, 20] ∧ view d2.1 d1.2 = [10, 11, 12, 30] ∧ view d2.1 d2.2 = [10, 11, 12, 30] ∧
    view d2.1 b.2 = [10, 11, 12] ∧
    (let r := buildAllOwned goGrow [[]] [[10, 11, 12], [10, 11, 12, 20], [10, 11, 12, 30]]
     r.2.map (view r.1) = [[10, 11, 12], [10, 11, 12, 20], [10, 11, 12, 30]]) := by decide


end Slices

/-! ### Guards over the regenerated facts -/
theorem facts_guard :
    Gen.Facts.c12WalkUpdatesOnlyIfHasValue = some true ∧
    Gen.Facts.c12MixOrder = some true ∧
    Gen.Facts.c12KeywordUsesContains = some true ∧
    Gen.Facts.c12NormalizeLowerTrim = some true ∧
    Gen.Facts.c12SubMatchersNormalize = some true ∧
    -- domain_set: the shape `newSet` / `Trie.len` / `groupMatch` were written from, and the ownership of
    -- the group slice that `Slices.owned_sets_keep_their_members` needs
    Gen.Facts.c12SetMembersOwnThenSets = some true ∧
    Gen.Facts.c12GroupMatchIsAny = some true ∧
    Gen.Facts.c12LenCountsValuedNodesAndRoot = some true ∧
    Gen.Facts.c12SetGroupOwned = some true ∧
    -- qname / cname matchers (base_domain.NewMatcher) assemble their group the same owning way
    Gen.Facts.c12MatcherGroupOwned = some true ∧
    -- the hosts plugin hands every parsed rule to the MixMatcher it answers from (`loadHosts (fun _ => true)`)
    Gen.Facts.c12HostsLoadsEveryRule = some true ∧
    -- rules with values: hosts.ParseIPs returns the first field as written (`hostsRules id`,
    -- `hosts_table_hit_iff`); the text loader gives every line a string of its own (the maps and the trie
    -- keep substrings of it: the model's rule lists hold values, not views into a read buffer)
    Gen.Facts.c12HostsRuleAsWritten = some true ∧
    Gen.Facts.c12LoaderOwnsLineStrings = some true := by decide

/-- On this tree the constructor of `domain_set` is the owning one (`c12SetGroupOwned`: every write to
a set's group is `ds.mg = append(ds.mg, m)` onto the new set's own slice): whatever sets a configuration
builds, in whatever order, each one's group holds exactly the members it was given, for every growth
policy of `append`. -/
theorem sets_keep_their_members_on_this_tree (grow : Nat → Nat) (mss : List (List Nat)) :
    Gen.Facts.c12SetGroupOwned = some true ∧
    ∀ (i : Nat) (s : Slices.Slice) (ms : List Nat),
      (Slices.buildAllOwned grow [[]] mss).2[i]? = some s → mss[i]? = some ms →
        Slices.view (Slices.buildAllOwned grow [[]] mss).1 s = ms :=
  ⟨by decide, (Slices.owned_sets_keep_their_members grow mss [[]] rfl (by decide)).2.2.2⟩

/-! ### Non-vacuity: "example.com" with rules domain:example.com=1, domain:a.b.example.com=2,
full:example.com=3, keyword:xam=4; names on and off label boundaries. -/
def b (s : List Nat) : Bytes := s.map UInt8.ofNat
def exampleCom : Bytes := b [101, 120, 97, 109, 112, 108, 101, 46, 99, 111, 109]       -- "example.com"
def abExampleCom : Bytes := b [97, 46, 98, 46] ++ exampleCom                             -- "a.b.example.com"
def bExampleCom : Bytes := b [98, 46] ++ exampleCom                                      -- "b.example.com"
def notexampleCom : Bytes := b [110, 111, 116] ++ exampleCom                             -- "notexample.com"
def m0 : Mix Nat := (((({} : Mix Nat).add .domain exampleCom 1).add .domain abExampleCom 2).add .keyword (b [120, 97, 109]) 4)
def reNone : Bytes → Bytes → Bool := fun _ _ => false
example : m0.candidates reNone bExampleCom = [1] := by decide          -- value-less node `b` keeps the shallower match
example : m0.candidates reNone abExampleCom = [2] := by decide         -- longest wins
example : m0.candidates reNone (b [88, 46] ++ abExampleCom ++ [46]) = [2] := by decide  -- "X.a.b.example.com."
example : m0.candidates reNone notexampleCom = [4] := by decide        -- not a label boundary: only the keyword matches
example : (m0.add .full (b [69, 88, 65, 77, 80, 76, 69, 46, 67, 79, 77, 46]) 3).candidates reNone exampleCom = [3] := by decide -- "EXAMPLE.COM." full rule wins
example : m0.candidates reNone (b [99, 111, 109]) = [] := by decide

/-! Service labels (`_tcp`) with mixed case on either side, and the bytes lower-casing must not touch:
rules domain:example.com=1, domain:_TCP.Example.com.=5. -/
def tcpExampleCom : Bytes := b [95, 84, 67, 80, 46, 69, 120, 97, 109, 112, 108, 101, 46, 99, 111, 109, 46]
def m1 : Mix Nat := ((({} : Mix Nat).add .domain exampleCom 1).add .domain tcpExampleCom 5)
-- "Host._tcp.EXAMPLE.com.": the underscore behind an upper-case letter is still an underscore
example : m1.candidates reNone (b [72, 111, 115, 116, 46, 95, 116, 99, 112, 46, 69, 88, 65, 77, 80, 76, 69, 46, 99, 111, 109, 46]) = [5] := by decide
-- "Host.\x7ftcp.example.com": DEL is not an underscore, only the shorter rule describes the name
example : m1.candidates reNone (b [72, 111, 115, 116, 46, 127, 116, 99, 112, 46] ++ exampleCom) = [1] := by decide
-- "A@[\]^_`{-09Z." -> "a@[\]^_`{-09z"
example : norm (b [65, 64, 91, 92, 93, 94, 95, 96, 123, 45, 48, 57, 90, 46]) = b [97, 64, 91, 92, 93, 94, 95, 96, 123, 45, 48, 57, 122] := by decide

/-! ### Rules whose value is the empty address list (hosts tables)

A hosts line without address is a rule with a value (the empty list). It takes part in the precedence of
values like every other rule: a name whose most specific rule has no address gets that value, i.e. no
answer, not the value of a less specific rule. -/

/-- A hosts table loader: every parsed line `(kind, pattern, addresses)` goes to `Add` unless `keep`
rejects its value. The plugin's loader keeps everything (fact `c12HostsLoadsEveryRule`). -/
def loadHosts (keep : List Nat → Bool) (m : Mix (List Nat)) : List (Kind × Bytes × List Nat) → Mix (List Nat)
  | [] => m
  | (k, p, v) :: rs => loadHosts keep (if keep v then m.add k p v else m) rs

/-- The loader that keeps everything is `Add` line by line: the matcher is the one `mix_precedence`,
`no_match_iff` and `hosts_table_hit_iff` speak about, loaded with every rule of the table. -/
theorem loadHosts_all (m : Mix (List Nat)) (rs : List (Kind × Bytes × List Nat)) :
    loadHosts (fun _ => true) m rs = rs.foldl (fun m r => m.add r.1 r.2.1 r.2.2) m := by
  induction rs generalizing m with
  | nil => rfl
  | cons r rs ih => obtain ⟨k, p, v⟩ := r; simp [loadHosts, ih]

theorem hosts_loader_keeps_every_rule_on_this_tree (m : Mix (List Nat)) (rs : List (Kind × Bytes × List Nat)) :
    Gen.Facts.c12HostsLoadsEveryRule = some true ∧
    loadHosts (fun _ => true) m rs = rs.foldl (fun m r => m.add r.1 r.2.1 r.2.2) m :=
  ⟨by decide, loadHosts_all m rs⟩

/-- domain:example.com => [1], full:b.example.com => no address, keyword:xam => [4]. -/
def hostsTbl : List (Kind × Bytes × List Nat) :=
  [(.domain, exampleCom, [1]), (.full, bExampleCom, []), (.keyword, b [120, 97, 109], [4]), (.domain, abExampleCom, [])]

/-- The address-less full / deeper domain rule wins: the name gets the empty list. -/
theorem address_less_rule_shadows :
    (loadHosts (fun _ => true) {} hostsTbl).candidates reNone bExampleCom = [[]] ∧
    (loadHosts (fun _ => true) {} hostsTbl).candidates reNone (b [88, 46] ++ abExampleCom) = [[]] ∧
    (loadHosts (fun _ => true) {} hostsTbl).candidates reNone exampleCom = [[1]] := by decide

/-- A loader that drops rules without address answers these names from the broader rule. -/
theorem dropping_loader_answers_from_broader_rule :
    (loadHosts (fun v => !v.isEmpty) {} hostsTbl).candidates reNone bExampleCom = [[1]] ∧
    (loadHosts (fun v => !v.isEmpty) {} hostsTbl).candidates reNone (b [88, 46] ++ abExampleCom) = [[1]] := by decide

/-- The qname / cname matchers build their group like a set does (`c12MatcherGroupOwned`: the group starts
nil and every write is a one-member append onto the matcher's own slice), so `Slices.buildAllOwned` is
their constructor too: any number of matchers over shared sets keep exactly their own members. -/
theorem matchers_keep_their_members_on_this_tree (grow : Nat → Nat) (mss : List (List Nat)) :
    Gen.Facts.c12MatcherGroupOwned = some true ∧
    ∀ (i : Nat) (s : Slices.Slice) (ms : List Nat),
      (Slices.buildAllOwned grow [[]] mss).2[i]? = some s → mss[i]? = some ms →
        Slices.view (Slices.buildAllOwned grow [[]] mss).1 s = ms :=
  ⟨by decide, (Slices.owned_sets_keep_their_members grow mss [[]] rfl (by decide)).2.2.2⟩

end Props.C12
