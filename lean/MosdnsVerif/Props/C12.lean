import MosdnsVerif.Model.C12
import MosdnsVerif.Gen.Facts

/-!
# C12 — domain rules match exactly the names they describe
-/
namespace Props.C12
open Model.C12 Model.C12.Trie

variable {V : Type}

/-! ### The label trie behaves like a finite map from label paths to values -/

theorem child_setChild_same (t c : Trie V) (l : Label) : (t.setChild l c).child l = some c := by
  simp [Trie.setChild, Trie.child, Trie.kids]

theorem child_setChild_other (t c : Trie V) (l l' : Label) (h : l' ≠ l) :
    (t.setChild l c).child l' = t.child l' := by
  have h1 : (l == l') = false := by simpa using fun e => h e.symm
  cases t with
  | node val k =>
    simp only [Trie.setChild, Trie.child, Trie.kids, List.find?_cons, h1]
    congr 1
    induction k with
    | nil => rfl
    | cons p ps ih =>
      by_cases hp : p.1 = l
      · have h2 : (p.1 == l') = false := by simpa [hp] using fun e => h e.symm
        have h3 : (p.1 == l) = true := by simpa using hp
        simp only [List.filter_cons, h3, Bool.not_true, List.find?_cons, h2]
        simpa using ih
      · have h3 : (p.1 == l) = false := by simpa using hp
        simp only [List.filter_cons, h3, Bool.not_false, if_true, List.find?_cons]
        split
        · rfl
        · exact ih

theorem val_setChild (t c : Trie V) (l : Label) : (t.setChild l c).val = t.val := rfl

theorem valueAt_empty (q : List Label) : (Trie.empty : Trie V).valueAt q = none := by
  cases q <;> simp [Trie.valueAt, Trie.empty, Trie.val, Trie.child, Trie.kids]

/-- **Add stores exactly at its path** and changes nothing else. -/
theorem valueAt_add (p : List Label) : ∀ (t : Trie V) (v : V) (q : List Label),
    (t.add p v).valueAt q = if q = p then some v else t.valueAt q := by
  induction p with
  | nil =>
    intro t v q
    cases q with
    | nil => simp [Trie.add, Trie.valueAt, Trie.val]
    | cons l ls => simp [Trie.add, Trie.valueAt, Trie.child, Trie.kids]
  | cons l ls ih =>
    intro t v q
    cases q with
    | nil => simp [Trie.add, Trie.valueAt, val_setChild]
    | cons l' qs =>
      by_cases hl : l' = l
      · subst hl
        simp only [Trie.add, Trie.valueAt, child_setChild_same, ih]
        by_cases hq : qs = ls
        · simp [hq]
        · simp only [hq, if_false, List.cons.injEq, true_and]
          cases hc : t.child l' with
          | none => simp [valueAt_empty]
          | some c => simp
      · simp only [Trie.add, Trie.valueAt, child_setChild_other _ _ _ _ hl]
        have : ¬ (l' :: qs = l :: ls) := by intro e; injection e with e1 _; exact hl e1
        simp [this]

/-- The value the last `Add` for `q` stored, for a rule list applied oldest first. -/
def lastValue (rs : List (List Label × V)) (q : List Label) : Option V :=
  (rs.reverse.find? (fun r => r.1 == q)).map (·.2)

def build (rs : List (List Label × V)) : Trie V := rs.foldl (fun t r => t.add r.1 r.2) Trie.empty

theorem valueAt_fold (rs : List (List Label × V)) : ∀ (t : Trie V) (q : List Label),
    (rs.foldl (fun t r => t.add r.1 r.2) t).valueAt q =
      match lastValue rs q with | some v => some v | none => t.valueAt q := by
  induction rs with
  | nil => intro t q; simp [lastValue]
  | cons r rs ih =>
    intro t q
    simp only [List.foldl_cons, ih, valueAt_add]
    unfold lastValue
    simp only [List.reverse_cons, List.find?_append]
    cases h : rs.reverse.find? (fun r => r.1 == q) with
    | some x => simp
    | none =>
      by_cases hq : q = r.1
      · subst hq; simp
      · have : (r.1 == q) = false := by simpa using fun e => hq e.symm
        simp [this, hq]

theorem valueAt_build (rs : List (List Label × V)) (q : List Label) :
    (build rs).valueAt q = lastValue rs q := by
  unfold build
  rw [valueAt_fold]
  cases lastValue rs q <;> simp [valueAt_empty]

/-! ### The walk keeps the value of the longest stored prefix -/

/-- Specification of the walk over an arbitrary path-to-value function. -/
def best (f : List Label → Option V) : List Label → Option V → Option V
  | [], acc => acc
  | l :: ls, acc => best (fun q => f (l :: q)) ls (match f [l] with | some v => some v | none => acc)

theorem best_none (ls : List Label) : ∀ (f : List Label → Option V) (acc : Option V),
    (∀ q, f q = none) → best f ls acc = acc := by
  induction ls with
  | nil => intro f acc _; rfl
  | cons l ls ih =>
    intro f acc h
    have hf : f = fun _ => none := funext h
    subst hf
    simp only [best]
    exact ih _ _ (fun _ => rfl)

theorem walk_eq_best (path : List Label) : ∀ (t : Trie V) (acc : Option V),
    t.walk path acc = best t.valueAt path acc := by
  induction path with
  | nil => intro t acc; rfl
  | cons l ls ih =>
    intro t acc
    simp only [Trie.walk, best]
    cases hc : t.child l with
    | none =>
      have h0 : ∀ q, t.valueAt (l :: q) = none := by intro q; simp [Trie.valueAt, hc]
      rw [best_none ls _ _ h0]
      simp [h0 []]
    | some c =>
      have hf : (fun q => t.valueAt (l :: q)) = c.valueAt := by
        funext q; simp [Trie.valueAt, hc]
      have h1 : t.valueAt [l] = c.val := by simp [Trie.valueAt, hc]
      simp only [hf, h1]
      exact ih c _

/-- What `best` returns: either nothing on the way had a value and the
initial `acc` survives, or the value of the *longest* non-empty prefix that
has one. -/
theorem best_cases (path : List Label) : ∀ (f : List Label → Option V) (acc : Option V),
    (best f path acc = acc ∧ ∀ q, q <+: path → q ≠ [] → f q = none) ∨
    (∃ q v, q <+: path ∧ q ≠ [] ∧ f q = some v ∧ best f path acc = some v ∧
      ∀ q', q' <+: path → q.length < q'.length → f q' = none) := by
  induction path with
  | nil =>
    intro f acc
    left
    refine ⟨rfl, ?_⟩
    intro q hq hne
    exact absurd (List.prefix_nil.mp hq) hne
  | cons l ls ih =>
    intro f acc
    simp only [best]
    rcases ih (fun q => f (l :: q)) (match f [l] with | some v => some v | none => acc) with ⟨h1, h2⟩ | ⟨q, v, hq, hne, hfq, hb, hlong⟩
    · cases hfl : f [l] with
      | some v =>
        simp only [hfl] at h1
        right
        refine ⟨[l], v, by simp, by simp, hfl, h1, ?_⟩
        intro q' hq' hlen
        cases q' with
        | nil => simp at hlen
        | cons a q'' =>
          obtain ⟨rfl, hq''⟩ := List.cons_prefix_cons.mp hq'
          have : q'' ≠ [] := by intro e; subst e; simp at hlen
          exact h2 q'' hq'' this
      | none =>
        simp only [hfl] at h1
        left
        refine ⟨h1, ?_⟩
        intro q' hq' hne'
        cases q' with
        | nil => exact absurd rfl hne'
        | cons a q'' =>
          obtain ⟨rfl, hq''⟩ := List.cons_prefix_cons.mp hq'
          by_cases he : q'' = []
          · subst he; exact hfl
          · exact h2 q'' hq'' he
    · right
      refine ⟨l :: q, v, List.cons_prefix_cons.mpr ⟨rfl, hq⟩, by simp, hfq, hb, ?_⟩
      intro q' hq' hlen
      cases q' with
      | nil => simp at hlen
      | cons a q'' =>
        obtain ⟨rfl, hq''⟩ := List.cons_prefix_cons.mp hq'
        exact hlong q'' hq'' (by simpa using hlen)

/-- **C12 (domain rules).** After any sequence of `domain:` rules `rs` (label
paths right to left, duplicates and nesting allowed), `Match` on a name whose
reversed labels are `path` returns
* nothing iff no rule's labels are a label-wise suffix of the name
  (`q <+: path` on reversed labels - a label boundary by construction), and
* otherwise the value of the *longest* such rule, the last one added winning
  among equal rules. -/
theorem domain_match (rs : List (List Label × V)) (path : List Label) :
    ((build rs).matchPath path = none ↔ ∀ q, q <+: path → lastValue rs q = none) ∧
    (∀ v, (build rs).matchPath path = some v →
      ∃ q, q <+: path ∧ lastValue rs q = some v ∧
        ∀ q', q' <+: path → q.length < q'.length → lastValue rs q' = none) := by
  unfold Trie.matchPath
  rw [walk_eq_best]
  have hv : (build rs).valueAt = lastValue rs := funext (valueAt_build rs)
  have h0 : (build rs).val = lastValue rs [] := by
    have := valueAt_build rs []
    simpa [Trie.valueAt] using this
  rw [hv, h0]
  rcases best_cases path (lastValue rs) (lastValue rs []) with ⟨h1, h2⟩ | ⟨q, v, hq, hne, hfq, hb, hlong⟩
  · constructor
    · rw [h1]
      constructor
      · intro hn q hq
        by_cases he : q = []
        · subst he; exact hn
        · exact h2 q hq he
      · intro h; exact h [] (List.nil_prefix)
    · intro v hv'
      rw [h1] at hv'
      refine ⟨[], List.nil_prefix, hv', ?_⟩
      intro q' hq' hlen
      exact h2 q' hq' (by intro e; subst e; simp at hlen)
  · constructor
    · rw [hb]
      constructor
      · intro h; cases h
      · intro h; rw [h q hq] at hfq; cases hfq
    · intro v' hv'
      rw [hb] at hv'
      injection hv' with hv'
      subst hv'
      exact ⟨q, hq, hfq, hlong⟩

/-! ### Normalisation -/

theorem lower_idem (b : UInt8) : lower (lower b) = lower b := by
  unfold lower
  split
  · rename_i h
    have : ¬ (65 ≤ b + 32 ∧ b + 32 ≤ 90) := by
      intro h'
      have h1 := UInt8.le_iff_toNat_le.mp h.1
      have h2 := UInt8.le_iff_toNat_le.mp h.2
      have h3 := UInt8.le_iff_toNat_le.mp h'.2
      have : (b + 32).toNat = b.toNat + 32 := by
        rw [UInt8.toNat_add]; simp at h1 h2 ⊢; omega
      simp at h1 h2 h3; omega
    simp [this]
  · rename_i h; simp [h]

theorem lower_eq_dot (b : UInt8) : lower b = dot ↔ b = dot := by
  unfold lower dot
  constructor
  · intro h
    split at h
    · rename_i hh
      exfalso
      have h1 := UInt8.le_iff_toNat_le.mp hh.1
      have h2 := UInt8.le_iff_toNat_le.mp hh.2
      have h3 := congrArg UInt8.toNat h
      rw [UInt8.toNat_add] at h3
      simp at h1 h2 h3; omega
    · exact h
  · intro h; subst h; decide

theorem trimDot_map_lower (s : Bytes) : trimDot (s.map lower) = (trimDot s).map lower := by
  unfold trimDot
  rw [List.getLast?_map]
  cases h : s.getLast? with
  | none => simp
  | some b =>
    simp only [Option.map_some, Option.some.injEq]
    by_cases hb : b = dot
    · subst hb
      have : lower dot = dot := by decide
      simp [this, List.map_dropLast]
    · have : lower b ≠ dot := fun e => hb ((lower_eq_dot b).mp e)
      simp [hb, this]

/-! #### Lower-casing touches the 26 upper-case letters and nothing else

`norm` is tied to the code's `NormalizeDomain` by `Refine.C12.normalize_refines`. The statements
below say, for every byte, what "lower-cased" means in the property: digits, `-`, `_`, the bytes
next to the letter ranges (`@ [ \ ] ^ _` and the back-quote, `{ | } ~`, DEL) and every other non-letter
are left alone, and two different bytes are identified only if they are the two cases of one letter. -/

theorem lower_of_not_upper (b : UInt8) (h : ¬ (65 ≤ b ∧ b ≤ 90)) : lower b = b := by
  simp [lower, h]

theorem lower_of_upper (b : UInt8) (h : 65 ≤ b ∧ b ≤ 90) : lower b = b + 32 := by
  simp [lower, h]

theorem lower_not_upper (b : UInt8) : ¬ (65 ≤ lower b ∧ lower b ≤ 90) := by
  unfold lower
  split
  · rename_i h
    intro h'
    have h1 := UInt8.le_iff_toNat_le.mp h.1
    have h2 := UInt8.le_iff_toNat_le.mp h.2
    have h3 := UInt8.le_iff_toNat_le.mp h'.2
    rw [UInt8.toNat_add] at h3
    simp at h1 h2 h3; omega
  · rename_i h; exact h

/-- **Lower-casing never conflates two different bytes unless they are the two cases of one
letter** (so `_` and DEL, `@` and the back-quote, `[` and `{` stay different). -/
theorem lower_eq_lower (a b : UInt8) (h : lower a = lower b) :
    a = b ∨ ((65 ≤ a ∧ a ≤ 90) ∧ b = a + 32) ∨ ((65 ≤ b ∧ b ≤ 90) ∧ a = b + 32) := by
  by_cases ha : 65 ≤ a ∧ a ≤ 90 <;> by_cases hb : 65 ≤ b ∧ b ≤ 90
  · left
    rw [lower_of_upper a ha, lower_of_upper b hb] at h
    exact (UInt8.add_left_inj 32).mp h
  · right; left
    rw [lower_of_upper a ha, lower_of_not_upper b hb] at h
    exact ⟨ha, h.symm⟩
  · right; right
    rw [lower_of_not_upper a ha, lower_of_upper b hb] at h
    exact ⟨hb, h⟩
  · left
    rw [lower_of_not_upper a ha, lower_of_not_upper b hb] at h
    exact h

theorem mem_trimDot (s : Bytes) (b : UInt8) (h : b ∈ trimDot s) : b ∈ s := by
  unfold trimDot at h
  split at h
  · exact List.dropLast_subset _ h
  · exact h

/-- A name without upper-case letters is only stripped of its dot (the "already lower case" path:
nothing else may change, whatever other bytes the name holds). -/
theorem norm_no_upper (s : Bytes) (h : ∀ b ∈ s, ¬ (65 ≤ b ∧ b ≤ 90)) : norm s = trimDot s := by
  unfold norm
  have : ∀ b ∈ trimDot s, lower b = b := fun b hb => lower_of_not_upper b (h b (mem_trimDot s b hb))
  rw [List.map_congr_left this]
  simp

/-- The normalised name has no upper-case letter left. -/
theorem norm_has_no_upper (s : Bytes) : ∀ b ∈ norm s, ¬ (65 ≤ b ∧ b ≤ 90) := by
  intro b hb
  unfold norm at hb
  obtain ⟨a, _, rfl⟩ := List.mem_map.mp hb
  exact lower_not_upper a

/-- Byte by byte: position `i` of the normalised name is the lower-cased byte at position `i`
of the name without its trailing dot - also behind the first upper-case letter. -/
theorem norm_getElem? (s : Bytes) (i : Nat) : (norm s)[i]? = ((trimDot s)[i]?).map lower := by
  simp [norm]

/-- **Two spellings are the same name only if they differ in letter case alone**: equal
normal forms have the same length and, position by position, the same byte or the two cases of
one letter. -/
theorem norm_eq_bytes (s t : Bytes) (h : norm s = norm t) :
    (trimDot s).length = (trimDot t).length ∧
    ∀ (i : Nat) (a b : UInt8), (trimDot s)[i]? = some a → (trimDot t)[i]? = some b →
      a = b ∨ ((65 ≤ a ∧ a ≤ 90) ∧ b = a + 32) ∨ ((65 ≤ b ∧ b ≤ 90) ∧ a = b + 32) := by
  refine ⟨?_, ?_⟩
  · have := congrArg List.length h
    simpa [norm] using this
  · intro i a b ha hb
    have := congrArg (fun l => l[i]?) h
    simp only [norm_getElem?, ha, hb, Option.map_some, Option.some.injEq] at this
    exact lower_eq_lower a b this

/-- **Case does not matter**: a name (or full/domain/keyword rule) and its
lower-cased spelling normalise to the same string. -/
theorem norm_case (s : Bytes) : norm (s.map lower) = norm s := by
  unfold norm
  rw [trimDot_map_lower, List.map_map]
  congr 1
  funext b
  exact lower_idem b

/-- **One trailing dot does not matter.** -/
theorem norm_trailing_dot (s : Bytes) (h : s.getLast? ≠ some dot) : norm (s ++ [dot]) = norm s := by
  unfold norm trimDot
  simp [h]

/-- Adding a rule only goes through `norm` (full, keyword) or `scan ∘ norm`
(domain): two spellings with the same `norm` are the same rule. -/
theorem add_normalised (m : Mix V) (k : Kind) (hk : k ≠ .regexp) (p p' : Bytes) (v : V)
    (h : norm p = norm p') : m.add k p v = m.add k p' v := by
  cases k <;> simp_all [Mix.add]

/-- `Match` only depends on the normalised name. -/
theorem match_normalised (m : Mix V) (re : Bytes → Bytes → Bool) (n n' : Bytes)
    (h : norm n = norm n') : m.candidates re n = m.candidates re n' := by
  unfold Mix.candidates; rw [h]

/-! ### Precedence in `MixMatcher.Match` -/

/-- full > domain > regexp > keyword. -/
theorem mix_precedence (m : Mix V) (re : Bytes → Bytes → Bool) (name : Bytes) :
    (∀ p, m.full.find? (fun p => p.1 == norm name) = some p → m.candidates re name = [p.2]) ∧
    (m.full.find? (fun p => p.1 == norm name) = none →
      (∀ v, m.domain.matchPath (scan (norm name)) = some v → m.candidates re name = [v]) ∧
      (m.domain.matchPath (scan (norm name)) = none →
        ((m.regexp.filter (fun p => re p.1 (norm name))) ≠ [] →
          m.candidates re name = (m.regexp.filter (fun p => re p.1 (norm name))).map (·.2)) ∧
        ((m.regexp.filter (fun p => re p.1 (norm name))) = [] →
          m.candidates re name = (m.keyword.filter (fun p => isInfix p.1 (norm name))).map (·.2)))) := by
  refine ⟨?_, ?_⟩
  · intro p hp
    unfold Mix.candidates
    simp only [hp]
  · intro hf
    refine ⟨?_, ?_⟩
    · intro v hv
      unfold Mix.candidates
      simp only [hf, hv]
    · intro hd
      refine ⟨?_, ?_⟩
      · intro hne
        unfold Mix.candidates
        simp only [hf, hd]
        cases hm : (m.regexp.filter (fun p => re p.1 (norm name))) with
        | nil => exact absurd hm hne
        | cons a as => rfl
      · intro he
        unfold Mix.candidates
        simp only [hf, hd, he]
        rfl

theorem no_match_iff (m : Mix V) (re : Bytes → Bytes → Bool) (name : Bytes) :
    m.candidates re name = [] ↔
      m.full.find? (fun p => p.1 == norm name) = none ∧
      m.domain.matchPath (scan (norm name)) = none ∧
      (∀ p ∈ m.regexp, re p.1 (norm name) = false) ∧
      (∀ p ∈ m.keyword, isInfix p.1 (norm name) = false) := by
  obtain ⟨h1, h2⟩ := mix_precedence m re name
  cases hf : m.full.find? (fun p => p.1 == norm name) with
  | some p => rw [h1 p hf]; simp
  | none =>
    obtain ⟨h3, h4⟩ := h2 hf
    cases hd : m.domain.matchPath (scan (norm name)) with
    | some v => rw [h3 v hd]; simp
    | none =>
      obtain ⟨h5, h6⟩ := h4 hd
      have filt : ∀ (l : List (Bytes × V)) (f : Bytes × V → Bool), l.filter f = [] ↔ ∀ p ∈ l, f p = false := by
        intro l f
        rw [List.filter_eq_nil_iff]
        constructor
        · intro h p hp; simpa using h p hp
        · intro h p hp; simp [h p hp]
      by_cases hr : m.regexp.filter (fun p => re p.1 (norm name)) = []
      · rw [h6 hr]
        simp only [true_and, List.map_eq_nil_iff]
        rw [filt]
        constructor
        · intro hk; exact ⟨(filt _ _).mp hr, hk⟩
        · intro h; exact h.2
      · rw [h5 hr]
        simp only [true_and, List.map_eq_nil_iff]
        constructor
        · intro h; exact absurd h hr
        · intro h; exact absurd ((filt _ _).mpr h.1) hr

/-! ### Guards over the regenerated facts -/
theorem facts_guard :
    Gen.Facts.c12WalkUpdatesOnlyIfHasValue = some true ∧
    Gen.Facts.c12MixOrder = some true ∧
    Gen.Facts.c12KeywordUsesContains = some true ∧
    Gen.Facts.c12NormalizeLowerTrim = some true ∧
    Gen.Facts.c12SubMatchersNormalize = some true := by decide

/-! ### Non-vacuity: "example.com" with rules domain:example.com=1, domain:a.b.example.com=2,
full:example.com=3, keyword:xam=4; names on and off label boundaries. -/
def b (s : List Nat) : Bytes := s.map UInt8.ofNat
def exampleCom : Bytes := b [101, 120, 97, 109, 112, 108, 101, 46, 99, 111, 109]       -- "example.com"
def abExampleCom : Bytes := b [97, 46, 98, 46] ++ exampleCom                             -- "a.b.example.com"
def bExampleCom : Bytes := b [98, 46] ++ exampleCom                                      -- "b.example.com"
def notexampleCom : Bytes := b [110, 111, 116] ++ exampleCom                             -- "notexample.com"
def m0 : Mix Nat := (((({} : Mix Nat).add .domain exampleCom 1).add .domain abExampleCom 2).add .keyword (b [120, 97, 109]) 4)
def reNone : Bytes → Bytes → Bool := fun _ _ => false
example : m0.candidates reNone bExampleCom = [1] := by decide          -- value-less node `b` keeps the shallower match
example : m0.candidates reNone abExampleCom = [2] := by decide         -- longest wins
example : m0.candidates reNone (b [88, 46] ++ abExampleCom ++ [46]) = [2] := by decide  -- "X.a.b.example.com."
example : m0.candidates reNone notexampleCom = [4] := by decide        -- not a label boundary: only the keyword matches
example : (m0.add .full (b [69, 88, 65, 77, 80, 76, 69, 46, 67, 79, 77, 46]) 3).candidates reNone exampleCom = [3] := by decide -- "EXAMPLE.COM." full rule wins
example : m0.candidates reNone (b [99, 111, 109]) = [] := by decide

/-! Service labels (`_tcp`) with mixed case on either side, and the bytes lower-casing must not touch:
rules domain:example.com=1, domain:_TCP.Example.com.=5. -/
def tcpExampleCom : Bytes := b [95, 84, 67, 80, 46, 69, 120, 97, 109, 112, 108, 101, 46, 99, 111, 109, 46]
def m1 : Mix Nat := ((({} : Mix Nat).add .domain exampleCom 1).add .domain tcpExampleCom 5)
-- "Host._tcp.EXAMPLE.com.": the underscore behind an upper-case letter is still an underscore
example : m1.candidates reNone (b [72, 111, 115, 116, 46, 95, 116, 99, 112, 46, 69, 88, 65, 77, 80, 76, 69, 46, 99, 111, 109, 46]) = [5] := by decide
-- "Host.\x7ftcp.example.com": DEL is not an underscore, only the shorter rule describes the name
example : m1.candidates reNone (b [72, 111, 115, 116, 46, 127, 116, 99, 112, 46] ++ exampleCom) = [1] := by decide
-- "A@[\]^_`{-09Z." -> "a@[\]^_`{-09z"
example : norm (b [65, 64, 91, 92, 93, 94, 95, 96, 123, 45, 48, 57, 90, 46]) = b [97, 64, 91, 92, 93, 94, 95, 96, 123, 45, 48, 57, 122] := by decide

end Props.C12
