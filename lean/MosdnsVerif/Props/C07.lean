import MosdnsVerif.Model.C07
import MosdnsVerif.Model.C07R
import MosdnsVerif.Model.C07U
import MosdnsVerif.Lemmas.C07Locks
import MosdnsVerif.Model.C09
import MosdnsVerif.Props.C09
import MosdnsVerif.Base.Facts
import MosdnsVerif.Gen.Facts

/-!
# C07 — exchanges always terminate; Close releases everything
-/
namespace Props.C07
open Model.C07 Model.C07R Lemmas.C07Locks

/-! ## Part A: a parked caller is always covered by the short read deadline -/

theorem conn_init_inv : ({} : Conn).Inv := by
  constructor <;> simp

theorem arm_inv (s : Conn) (hf : s.waitingResp = true → s.dl = .short) :
    ((arm s).waitingResp = true ∧ (arm s).dl = .short) ∧ (arm s).queue = s.queue ∧ (arm s).rd = s.rd ∧ (arm s).closed = s.closed ∧
    (arm s).unarmed = s.unarmed ∧ (arm s).parked = s.parked ∧ (arm s).late = s.late := by
  unfold arm
  split
  · rename_i h; exact ⟨⟨h, hf h⟩, rfl, rfl, rfl, rfl, rfl, rfl⟩
  · exact ⟨⟨rfl, rfl⟩, rfl, rfl, rfl, rfl, rfl, rfl⟩

theorem conn_inv_step (s s' : Conn) (l : CLabel) (hi : s.Inv) (hs : s.step l = some s') : s'.Inv := by
  obtain ⟨h1, h2, h3, h4⟩ := hi
  cases l <;> simp only [Conn.step] at hs
  case readerArm =>
    split at hs
    · split at hs
      · cases hs; exact ⟨h1, fun _ => rfl, fun _ => ⟨by simp, fun _ => rfl⟩, fun h => by simp at h⟩
      · rename_i hq
        cases hs
        refine ⟨h1, fun h => by simp at h, fun _ => ⟨by simp, fun hp => ?_⟩, fun h => by simp at h⟩
        simp only at hp; omega
    · cases hs
  case readerGotParked =>
    split at hs
    · rename_i hc; cases hs
      exact ⟨by simp only; omega, h2, fun h => by simp at h, fun h => by simp at h⟩
    · cases hs
  case readerGotUnarmed =>
    split at hs
    · rename_i hc; cases hs
      exact ⟨by simp only; omega, h2, fun h => by simp at h, fun h => by simp at h⟩
    · cases hs
  case readerGotStray =>
    split at hs
    · cases hs; exact ⟨h1, h2, fun h => by simp at h, fun h => by simp at h⟩
    · cases hs
  case readerFail =>
    split at hs
    · cases hs; exact ⟨h1, h2, fun h => by simp at h, fun _ => rfl⟩
    · cases hs
  case callerAdd =>
    split at hs
    · cases hs
    · rename_i hc; cases hs
      exact ⟨by simp only; omega, h2, h3, fun h => by have := h4 h; simp_all⟩
  case callerWriteFail =>
    split at hs
    · cases hs
      exact ⟨by simp only; omega, h2, h3, fun _ => rfl⟩
    · cases hs
  case callerArm =>
    split at hs
    · cases hs
      obtain ⟨⟨a1, a2⟩, a3, a4, a5, a6, a7, a8⟩ := arm_inv s h2
      refine ⟨?_, fun _ => a2, fun _ => ⟨?_, fun _ => a2⟩, fun h => ?_⟩
      · simp only [a3]; omega
      · rw [a2]; simp
      · simp only [a4] at h; simp only [a5]; exact h4 h
    · cases hs
  case callerArmLate =>
    split at hs
    · cases hs
      obtain ⟨⟨a1, a2⟩, a3, a4, a5, a6, a7, a8⟩ := arm_inv s h2
      refine ⟨?_, fun _ => a2, fun _ => ⟨?_, fun _ => a2⟩, fun h => ?_⟩
      · simp only [a3, a6, a7]; exact h1
      · rw [a2]; simp
      · simp only [a4] at h; simp only [a5]; exact h4 h
    · cases hs
  case callerLeave =>
    split at hs
    · cases hs
      refine ⟨by simp only; omega, h2, fun h => ?_, h4⟩
      have := h3 h
      exact ⟨this.1, fun hp => this.2 (by simp only at hp; omega)⟩
    · cases hs
  case callerLeaveUnarmed => cases hs

theorem conn_inv_run (ls : List CLabel) : ∀ (s s' : Conn), s.Inv → s.run ls = some s' → s'.Inv := by
  induction ls with
  | nil => intro s s' hi hr; simp only [Conn.run, Option.some.injEq] at hr; subst hr; exact hi
  | cons l ls ih =>
    intro s s' hi hr
    simp only [Conn.run] at hr
    cases hs : s.step l with
    | none => rw [hs] at hr; cases hr
    | some s1 => rw [hs] at hr; exact ih s1 s' (conn_inv_step s s1 l hi hs) hr

/-- **A caller parked in its final wait is never left under the idle deadline
(or none)**: in every reachable state with a parked caller on a connection
that is not closed, the reader is either about to arm the waiting-reply
deadline, or sleeps under it. -/
theorem parked_is_covered (ls : List CLabel) (s : Conn) (hr : ({} : Conn).run ls = some s)
    (hp : s.parked > 0) (hc : s.closed = false) :
    (s.rd = .top ∧ ∃ s', s.step .readerArm = some s' ∧ s'.dl = .short ∧ s'.rd = .blocked) ∨
    (s.rd = .blocked ∧ s.dl = .short) := by
  have hi := conn_inv_run ls _ s conn_init_inv hr
  cases hrd : s.rd with
  | top =>
    left
    refine ⟨rfl, ?_⟩
    have hq : s.queue > 0 := by have := hi.q; omega
    simp only [Conn.step, hrd, ↓reduceIte, hq]
    exact ⟨_, rfl, rfl, rfl⟩
  | blocked => right; exact ⟨rfl, (hi.blk hrd).2 hp⟩
  | exited => have := hi.ex hrd; rw [hc] at this; cases this

/-- **Silence ends in a close within the waiting-reply timeout**: from such a
state, with no further input, at most two reader steps (arm, expiry of the
short deadline) close the connection, which wakes every parked caller. -/
theorem silence_closes (ls : List CLabel) (s : Conn) (hr : ({} : Conn).run ls = some s)
    (hp : s.parked > 0) (hc : s.closed = false) :
    ∃ path s', path.length ≤ 2 ∧ (∀ l ∈ path, l = .readerArm ∨ l = .readerFail) ∧ s.run path = some s' ∧ s'.closed = true := by
  rcases parked_is_covered ls s hr hp hc with ⟨ht, s1, h1, h2, h3⟩ | ⟨hb, _⟩
  · refine ⟨[.readerArm, .readerFail], { s1 with rd := .exited, closed := true }, by simp, by simp, ?_, rfl⟩
    simp only [Conn.run]
    rw [h1]
    simp only [Conn.step, h3, ↓reduceIte]
  · refine ⟨[.readerFail], { s with rd := .exited, closed := true }, by simp, by simp, ?_, rfl⟩
    simp only [Conn.run, Conn.step, hb, ↓reduceIte]

/-- a blocked reader always has some deadline: an idle connection is closed by the idle timeout -/
theorem reader_always_has_deadline (ls : List CLabel) (s : Conn) (hr : ({} : Conn).run ls = some s)
    (hb : s.rd = .blocked) : s.dl ≠ .none :=
  ((conn_inv_run ls _ s conn_init_inv hr).blk hb).1

/-- witness: with the sticky flag (the reader never clears `waitingResp`) a
query sent after an idle period is parked under the idle deadline -/
example :
    let s1 := stickyArm { ({} : Conn) with queue := 1, parked := 1 }             -- first query: flag set, short deadline
    let s2 := stickyArm { s1 with queue := 0, parked := 0, rd := .top }          -- answered: idle deadline, flag still set
    let s3 := arm { s2 with queue := 1, unarmed := 1 }                           -- next query after the idle period
    (s3.rd, s3.dl, s3.waitingResp) = (.blocked, .idle, true) := by decide

/-! ## Part B: the lock protocols around Close cannot deadlock -/

theorem move_mem_next (progs : List (List Act)) (s s' : Sys) (t : Nat) (h : s.move progs t = some s') : s' ∈ s.next progs := by
  simp only [Sys.next, List.mem_filterMap, threads, List.mem_range]
  refine ⟨t, ?_, h⟩
  rcases Nat.lt_or_ge t progs.length with hlt | hge
  · exact hlt
  · exfalso
    have : progs[t]?.getD [] = [] := by simp [List.getElem?_eq_none hge]
    simp [Sys.move, this] at h

theorem run_stays (progs : List (List Act)) (R : List Sys) (hc : closedUnder progs R = true) (ts : List Nat) :
    ∀ s s', s ∈ R → s.run progs ts = some s' → s' ∈ R := by
  induction ts with
  | nil => intro s s' hs hr; simp only [Sys.run, Option.some.injEq] at hr; subst hr; exact hs
  | cons t ts ih =>
    intro s s' hs hr
    simp only [Sys.run] at hr
    cases hm : s.move progs t with
    | none => rw [hm] at hr; cases hr
    | some s1 =>
      rw [hm] at hr
      have h1 := move_mem_next progs s s1 t hm
      have h2 := List.all_eq_true.mp (List.all_eq_true.mp hc s hs) s1 h1
      exact ih s1 s' (by simpa using h2) hr

/-- **ReuseConnTransport: Close, two failing connections' `closeWithErr` and a
pool operation never deadlock**, in any interleaving. -/
theorem reuse_close_never_deadlocks (ts : List Nat) (s : Sys) (hr : reuseInit.run reuseProgs ts = some s) :
    s.deadlocked reuseProgs = false := by
  have h := reuse_check
  simp only [Bool.and_eq_true] at h
  have hm := run_stays reuseProgs reuseR h.1.2 ts reuseInit s (by simpa using h.1.1) hr
  have := List.all_eq_true.mp h.2 s hm
  simpa using this

/-- **PipelineTransport: a late reservation waiting for the early callers (it
holds the transport mutex and the wrapper's mutex), an early caller that
proceeds, one that was cancelled, and Close never deadlock.** -/
theorem pipe_close_never_deadlocks (ts : List Nat) (s : Sys) (hr : pipeInit.run pipeProgs ts = some s) :
    s.deadlocked pipeProgs = false := by
  have h := pipe_check
  simp only [Bool.and_eq_true] at h
  have hm := run_stays pipeProgs pipeR h.1.2 ts pipeInit s (by simpa using h.1.1) hr
  have := List.all_eq_true.mp h.2 s hm
  simpa using this

/-- witness for the repaired defect (pool delete inside the Once): Close holds
the transport mutex and waits for the Once; the failing connection runs the
Once and waits for the transport mutex -/
example : ((Sys.init reuseProgsOld 1 1 0).run reuseProgsOld [1, 0]).map (·.deadlocked reuseProgsOld) = some true := by decide

/-- witness for the seeded defect (no `wg.Done` when an early caller's context
ends): everybody else finishes and the late reservation waits forever, holding
the transport mutex, so Close blocks as well -/
example : ((Sys.init pipeProgsLeaky 3 0 2).run pipeProgsLeaky [2, 2, 1, 1, 1, 1, 1, 1, 1, 0, 0]).map (·.deadlocked pipeProgsLeaky) = some true := by decide

/-! ## the dialing wrapper never blocks a late reservation once the early callers are through -/

open Model.C09 in
theorem late_reservation_not_blocked (max : Nat) (ls : List LLabel) (s : Lazy) (hr : (Lazy.init max).run ls = some s)
    (hd : s.dial = .ok) (he : s.eh = 0 ∧ s.ew = 0) : ∃ s', s.step .reserve = some (s', .none) := by
  have hi := (Props.C09.lazy_inv_run ls _ s (Props.C09.lazy_init_inv max) hr).1
  have hw := hi.wgOk (by rw [hd]; simp)
  have : s.wg = 0 := by rw [hw, he.1, he.2]; simp
  simp only [Lazy.step, hd, this, ↓reduceIte]
  exact ⟨_, rfl⟩

/-! ## Part C: the read deadline of the non-pipelined (reused) connection -/

theorem safeRest_of_no_setIdle : ∀ (l : List RAct), RAct.setIdle ∉ l → safeRest l = true
  | [], _ => rfl
  | a :: t, h => by
    have ha : a ≠ .setIdle := fun e => h (by simp [e])
    have ht : RAct.setIdle ∉ t := fun e => h (by simp [e])
    cases a <;> first | exact absurd rfl ha | exact safeRest_of_no_setIdle t ht

theorem safeRest_head_setIdle (t : List RAct) (h : safeRest (.setIdle :: t) = true) : RAct.setIdleDl ∉ t ∧ RAct.setIdle ∉ t := by
  simp only [safeRest, Bool.and_eq_true, Bool.not_eq_true', List.contains_eq_mem, decide_eq_false_iff_not] at h
  exact h

theorem safeRest_tail (a : RAct) (t : List RAct) (h : safeRest (a :: t) = true) : safeRest t = true := by
  cases a
  case setIdle => exact safeRest_of_no_setIdle t (safeRest_head_setIdle t h).2
  all_goals exact h

theorem rconn_init_inv : ({} : RConn).Inv := by
  constructor <;> simp [safeRest]

theorem rconn_inv_step (ord : List RAct) (ho : safeRest ord = true) (s s' : RConn) (l : RLabel) (hi : s.Inv)
    (hs : s.step ord l = some s') : s'.Inv := by
  obtain ⟨h1, h2, h3, h4, h5⟩ := hi
  cases l <;> simp only [RConn.step] at hs
  case callerTake =>
    split at hs
    · rename_i hc; cases hs
      obtain ⟨hp, hc0, _⟩ := hc
      refine ⟨h1, fun h => by simp at h, fun h => ?_, fun _ => (h2 hp).1, fun h => by simp at h⟩
      have := (h3 h).1; rw [hp] at this; cases this
    · cases hs
  case callerInstall =>
    split at hs
    · rename_i hc; cases hs
      refine ⟨h1, fun h => ?_, fun h => ?_, fun _ => h4 (by omega), fun h => by simp at h⟩
      · have := (h2 h).2.2; omega
      · have := (h3 h).2.1; omega
    · cases hs
  case callerArm =>
    split at hs
    · rename_i hc; cases hs
      refine ⟨h1, fun h => ?_, fun h => ?_, fun _ => h4 (by omega), fun _ => rfl⟩
      · have := (h2 h).2.2; omega
      · have := (h3 h).2.1; omega
    · cases hs
  case callerWrite =>
    split at hs
    · rename_i hc; cases hs
      refine ⟨h1, fun h => ?_, fun h => ?_, fun _ => h4 (by omega), fun _ => h5 (by omega)⟩
      · have := (h2 h).2.2; omega
      · have := (h3 h).2.1; omega
    · cases hs
  case callerLeave =>
    split at hs
    · rename_i hc; cases hs
      refine ⟨h1, fun h => ?_, fun h => ?_, fun h => by simp at h, fun h => by simp at h⟩
      · have := (h2 h).2.2; omega
      · have := (h3 h).2.1; omega
    · cases hs
  case readerGot =>
    split at hs
    · rename_i hc; cases hs
      obtain ⟨_, hw, _, _⟩ := hc
      have hnp : s.pooled = false := by
        cases hp : s.pooled with
        | false => rfl
        | true => have := (h2 hp).2.1; rw [hw] at this; cases this
      exact ⟨ho, fun h => by simp [hnp] at h, fun _ => ⟨hnp, rfl, rfl⟩, fun h => by simp at h, fun h => by simp at h⟩
    · cases hs
  case readerAct =>
    cases hr : s.rest with
    | nil => rw [hr] at hs; cases hs
    | cons a t =>
      rw [hr] at hs h1 h2 h3 h4
      simp only [Option.some.injEq] at hs
      subst hs
      have hst := safeRest_tail a t h1
      cases a <;> simp only [RConn.act]
      case setIdleDl =>
        refine ⟨hst, fun h => ?_, fun h => h3 (List.mem_cons_of_mem _ h), fun h => ?_, fun h => ?_⟩
        · exact absurd (List.mem_cons_self) (h2 h).1
        · exact absurd (List.mem_cons_self) (h4 h)
        · exact absurd (List.mem_cons_self) (h4 (by have h' : s.cpc ≥ 3 := h; omega))
      case setIdle =>
        obtain ⟨_, hc0, hw⟩ := h3 (List.mem_cons_self)
        obtain ⟨hn1, hn2⟩ := safeRest_head_setIdle t h1
        refine ⟨hst, fun _ => ⟨hn1, hw, hc0⟩, fun h => absurd h hn2, fun h => by have h' : s.cpc ≥ 1 := h; omega, fun h => by have h' : s.cpc ≥ 3 := h; omega⟩
      case handOver =>
        exact ⟨hst, fun h => ⟨fun m => (h2 h).1 (List.mem_cons_of_mem _ m), (h2 h).2⟩, fun h => h3 (List.mem_cons_of_mem _ h),
          fun h m => h4 h (List.mem_cons_of_mem _ m), h5⟩
      case other =>
        exact ⟨hst, fun h => ⟨fun m => (h2 h).1 (List.mem_cons_of_mem _ m), (h2 h).2⟩, fun h => h3 (List.mem_cons_of_mem _ h),
          fun h m => h4 h (List.mem_cons_of_mem _ m), h5⟩
  case readerStray =>
    split at hs
    · cases hs; exact ⟨h1, fun h => by simp at h, fun h => by have := h3 h; exact ⟨rfl, this.2⟩, h4, h5⟩
    · cases hs
  case readerFail =>
    split at hs
    · rename_i hc; cases hs
      refine ⟨h1, fun h => by simp at h, fun h => ?_, h4, h5⟩
      simp only [hc] at h; cases h
    · cases hs

theorem rconn_inv_run (ord : List RAct) (ho : safeRest ord = true) (ls : List RLabel) :
    ∀ (s s' : RConn), s.Inv → s.run ord ls = some s' → s'.Inv := by
  induction ls with
  | nil => intro s s' hi hr; simp only [RConn.run, Option.some.injEq] at hr; subst hr; exact hi
  | cons l ls ih =>
    intro s s' hi hr
    simp only [RConn.run] at hr
    cases hs : s.step ord l with
    | none => rw [hs] at hr; cases hr
    | some s1 => rw [hs] at hr; exact ih s1 s' (rconn_inv_step ord ho s s1 l hi hs) hr

/-- **Non-pipelined connection: a query that was written and not answered is
covered by the waiting-reply deadline, and the reader has no deadline call left
to make**, for every order of the reader's actions in which the connection is
made available once and no deadline call follows that, in every interleaving of
the reader's pending actions with callers, replies, late replies and callers
that give up. -/
theorem reuse_parked_is_covered (ord : List RAct) (ho : safeRest ord = true) (ls : List RLabel) (s : RConn)
    (hr : ({} : RConn).run ord ls = some s) (hp : s.cpc = 4) : s.dl = .short ∧ RAct.setIdleDl ∉ s.rest := by
  have hi := rconn_inv_run ord ho ls _ s rconn_init_inv hr
  exact ⟨hi.armed (by omega), hi.act (by omega)⟩

/-- the reader's remaining actions do not touch the deadline, and then it is in Read -/
theorem drain_keeps (ord : List RAct) : ∀ (n : Nat) (s : RConn), s.rest.length = n → RAct.setIdleDl ∉ s.rest →
    ∃ s', s.run ord (List.replicate n .readerAct) = some s' ∧ s'.rest = [] ∧ s'.dl = s.dl := by
  intro n
  induction n with
  | zero =>
    intro s hl _
    exact ⟨s, rfl, List.eq_nil_of_length_eq_zero hl, rfl⟩
  | succ n ih =>
    intro s hl hn
    cases hr : s.rest with
    | nil => rw [hr] at hl; cases hl
    | cons a t =>
      rw [hr] at hl hn
      have hne : a ≠ .setIdleDl := fun e => hn (by simp [e])
      have hnt : RAct.setIdleDl ∉ t := fun m => hn (List.mem_cons_of_mem _ m)
      have hstep : s.step ord .readerAct = some (s.act a t) := by simp only [RConn.step, hr]
      have hrest : (s.act a t).rest = t := by cases a <;> rfl
      have hdl : (s.act a t).dl = s.dl := by cases a <;> first | rfl | exact absurd rfl hne
      obtain ⟨s', h1, h2, h3⟩ := ih (s.act a t) (by rw [hrest]; simpa using hl) (by rw [hrest]; exact hnt)
      refine ⟨s', ?_, h2, by rw [h3, hdl]⟩
      simp only [List.replicate_succ, RConn.run, hstep]
      exact h1

/-- **Silence closes a reused connection within the waiting-reply timeout**: the
reader finishes what it has left without touching the deadline, is in Read under
the waiting-reply deadline, and its expiry closes the connection (which wakes
the caller: `closeNotify` is a case of its select, a regenerated fact). -/
theorem reuse_silence_closes (ord : List RAct) (ho : safeRest ord = true) (ls : List RLabel) (s : RConn)
    (hr : ({} : RConn).run ord ls = some s) (hp : s.cpc = 4) :
    ∃ s1 s2, s.run ord (List.replicate s.rest.length .readerAct) = some s1 ∧ s1.rest = [] ∧ s1.dl = .short ∧
      s1.step ord .readerFail = some s2 ∧ s2.closed = true := by
  obtain ⟨hd, hn⟩ := reuse_parked_is_covered ord ho ls s hr hp
  obtain ⟨s1, h1, h2, h3⟩ := drain_keeps ord s.rest.length s rfl hn
  refine ⟨s1, { s1 with closed := true, pooled := false }, h1, h2, by rw [h3, hd], ?_, rfl⟩
  simp only [RConn.step, h2, ↓reduceIte]

-- witness: with the idle deadline set after the hand-over the next query can be left under it
example : ((({} : RConn).run [.setIdle, .handOver, .setIdleDl]
    [.callerTake, .callerInstall, .callerArm, .callerWrite, .readerGot, .readerAct, .readerAct,
     .callerTake, .callerInstall, .callerArm, .callerWrite, .readerAct]).map (fun s => (s.cpc, s.dl, s.rest))) = some (4, .idle, []) := by decide

/-! ## Part D: the closed flag of PipelineTransport against Close -/

theorem setPc_same (f : Nat → Pc) (i : Nat) (p : Pc) : setPc f i p i = p := by simp [setPc]
theorem setPc_other (f : Nat → Pc) (i j : Nat) (p : Pc) (h : j ≠ i) : setPc f i p j = f j := by simp [setPc, h]

theorem pt_init_inv : ({} : PT).Inv := by
  constructor <;> simp

/-- nobody but `i` holds the mutex when `i` does -/
theorem holder_unique (s : PT) (hh : ∀ i, (s.pcs i = .locked ∨ s.pcs i = .checked ∨ s.pcs i = .inserted) → s.owner = i + 2)
    (i j : Nat) (hi : s.owner = i + 2) (hj : s.pcs j = .locked ∨ s.pcs j = .checked ∨ s.pcs j = .inserted) : j = i := by
  have := hh j hj; omega

theorem pt_inv_step (s s' : PT) (l : PLabel) (hi : s.Inv) (hs : s.step true l = some s') : s'.Inv := by
  obtain ⟨h1, h2, h3, h4, h5, h6⟩ := hi
  cases l <;> simp only [PT.step, ↓reduceIte] at hs
  case closeLock =>
    split at hs
    · rename_i hc; cases hs
      obtain ⟨hc0, ho⟩ := hc
      refine ⟨?_, fun _ => rfl, fun j hj => ?_, h4, h5, h6⟩
      · constructor
        · intro h; have := h1.mp h; omega
        · intro h; simp only at h; omega
      · have := h3 j hj; omega
    · cases hs
  case closeMark =>
    split at hs
    · rename_i hc; cases hs
      have ho := h2 (Or.inl hc)
      refine ⟨⟨fun _ => by simp, fun _ => rfl⟩, fun _ => ho, h3, fun j hj => ?_, fun _ => rfl, h6⟩
      have := h3 j (Or.inr hj); omega
    · cases hs
  case closeUnlock =>
    split at hs
    · rename_i hc; cases hs
      have ho := h2 (Or.inr hc)
      refine ⟨⟨fun _ => by simp, fun _ => h1.mpr (by omega)⟩, fun h => by simp at h, fun j hj => ?_, h4, h5, h6⟩
      have := h3 j hj; omega
    · cases hs
  case callerLock i =>
    split at hs
    · rename_i ho
      split at hs
      · rename_i hp; cases hs
        refine ⟨h1, fun h => by have := h2 h; omega, fun j hj => ?_, fun j hj => ?_, h5, h6⟩
        · by_cases e : j = i
          · subst e; rfl
          · simp only [setPc_other _ _ _ _ e] at hj; have := h3 j hj; omega
        · by_cases e : j = i
          · subst e; simp [setPc_same] at hj
          · simp only [setPc_other _ _ _ _ e] at hj; exact h4 j hj
      · cases hs
    · cases hs
  case callerCheck i =>
    split at hs
    · rename_i hp
      have hoi := h3 i (Or.inl hp)
      split at hs
      · rename_i hcf; cases hs
        refine ⟨h1, fun h => by have := h2 h; omega, fun j hj => ?_, fun j hj => ?_, h5, h6⟩
        · by_cases e : j = i
          · subst e; simp [setPc_same] at hj
          · simp only [setPc_other _ _ _ _ e] at hj; exact absurd (holder_unique s h3 i j hoi hj) e
        · by_cases e : j = i
          · subst e; simp [setPc_same] at hj
          · simp only [setPc_other _ _ _ _ e] at hj; exact h4 j hj
      · rename_i hcf; cases hs
        refine ⟨h1, h2, fun j hj => ?_, fun j hj => ?_, h5, h6⟩
        · by_cases e : j = i
          · subst e; exact hoi
          · simp only [setPc_other _ _ _ _ e] at hj; exact h3 j hj
        · by_cases e : j = i
          · subst e; simpa using hcf
          · simp only [setPc_other _ _ _ _ e] at hj; exact h4 j hj
    · cases hs
  case callerInsert i =>
    split at hs
    · rename_i hp; cases hs
      have hoi := h3 i (Or.inr (Or.inl hp))
      have hcf := h4 i (Or.inl hp)
      have hc3 : ¬ s.cpc = 3 := fun h => by have := h1.mpr (by omega); rw [hcf] at this; cases this
      refine ⟨h1, h2, fun j hj => ?_, fun j hj => ?_, fun h => (by rw [hcf] at h; cases h), (by simp [hc3, h6])⟩
      · by_cases e : j = i
        · subst e; exact hoi
        · simp only [setPc_other _ _ _ _ e] at hj; exact h3 j hj
      · by_cases e : j = i
        · subst e; exact hcf
        · simp only [setPc_other _ _ _ _ e] at hj; exact h4 j hj
    · cases hs
  case callerUnlock i =>
    split at hs
    · rename_i hp; cases hs
      have hoi := h3 i (Or.inr (Or.inr hp))
      refine ⟨h1, fun h => by have := h2 h; omega, fun j hj => ?_, fun j hj => ?_, h5, h6⟩
      · by_cases e : j = i
        · subst e; simp [setPc_same] at hj
        · simp only [setPc_other _ _ _ _ e] at hj; exact absurd (holder_unique s h3 i j hoi hj) e
      · by_cases e : j = i
        · subst e; simp [setPc_same] at hj
        · simp only [setPc_other _ _ _ _ e] at hj; exact h4 j hj
    · cases hs

theorem pt_inv_run (ls : List PLabel) : ∀ (s s' : PT), s.Inv → s.run true ls = some s' → s'.Inv := by
  induction ls with
  | nil => intro s s' hi hr; simp only [PT.run, Option.some.injEq] at hr; subst hr; exact hi
  | cons l ls ih =>
    intro s s' hi hr
    simp only [PT.run] at hr
    cases hs : s.step true l with
    | none => rw [hs] at hr; cases hr
    | some s1 => rw [hs] at hr; exact ih s1 s' (pt_inv_step s s1 l hi hs) hr

/-- **PipelineTransport: Close is final.** With the closed flag tested inside
the critical section that registers a connection, in every interleaving of Close
with any number of callers: no connection is registered after Close returned,
and when Close has returned every registered connection has been closed. -/
theorem close_is_final (ls : List PLabel) (s : PT) (hr : ({} : PT).run true ls = some s) :
    s.lateInserts = 0 ∧ (s.cpc = 3 → s.openConns = 0) := by
  have hi := pt_inv_run ls _ s pt_init_inv hr
  exact ⟨hi.noLate, fun h => hi.noOpen (hi.flag.mpr (by omega))⟩

example : ((({} : PT).run false [.callerCheck 0, .closeLock, .closeMark, .closeUnlock, .callerLock 0, .callerInsert 0, .callerUnlock 0]).map
    (fun s => (s.cpc, s.openConns, s.lateInserts))) = some (3, 1, 1) := by decide

/-- the same protocol guards the pool of ReuseConnTransport (`newReusableConn` against `Close`): the model run with
the regenerated position of the `t.closed` test in `newReusableConn` -/
theorem reuse_close_is_final_src (ls : List PLabel) (s : PT)
    (hr : ({} : PT).run (Gen.Facts.c07ReuseClosedCheckedUnderLock.getD false) ls = some s) :
    s.lateInserts = 0 ∧ (s.cpc = 3 → s.openConns = 0) := by
  have h : Gen.Facts.c07ReuseClosedCheckedUnderLock.getD false = true := by decide
  rw [h] at hr
  exact close_is_final ls s hr

-- witness: the flag tested before the mutex is taken, a dial that completes while Close holds the mutex
example : ((({} : PT).run false [.closeLock, .callerCheck 0, .closeMark, .closeUnlock, .callerLock 0, .callerInsert 0, .callerUnlock 0]).map
    (fun s => (s.cpc, s.openConns, s.lateInserts))) = some (3, 1, 1) := by decide

/-! ## Part E: a reader blocked inside a frame is still under the deadline it armed -/

theorem fread_inv_step (mid : List FAct) (hm : FAct.clearDl ∉ mid) (s s' : FRead) (l : FLabel)
    (hi : s.dl ≠ .none ∧ FAct.clearDl ∉ s.rest) (hs : s.step mid l = some s') : s'.dl ≠ .none ∧ FAct.clearDl ∉ s'.rest := by
  obtain ⟨h1, h2⟩ := hi
  cases l <;> simp only [FRead.step] at hs
  case header =>
    split at hs
    · cases hs; exact ⟨h1, hm⟩
    · cases hs
  case act =>
    split at hs
    · split at hs
      · cases hs; exact ⟨h1, h2⟩
      · rename_i t he; rw [he] at h2; simp at h2
      · rename_i t he; cases hs; rw [he] at h2
        exact ⟨by simp, fun h => h2 (List.mem_cons_of_mem _ h)⟩
      · rename_i t he; cases hs; rw [he] at h2
        exact ⟨h1, fun h => h2 (List.mem_cons_of_mem _ h)⟩
    · cases hs
  case body =>
    split at hs
    · cases hs; exact ⟨h1, h2⟩
    · cases hs
  case expire =>
    split at hs
    · cases hs; exact ⟨h1, h2⟩
    · cases hs

theorem fread_inv_run (mid : List FAct) (hm : FAct.clearDl ∉ mid) (ls : List FLabel) :
    ∀ (s s' : FRead), (s.dl ≠ .none ∧ FAct.clearDl ∉ s.rest) → s.run mid ls = some s' → (s'.dl ≠ .none ∧ FAct.clearDl ∉ s'.rest) := by
  induction ls with
  | nil => intro s s' hi hr; simp only [FRead.run, Option.some.injEq] at hr; subst hr; exact hi
  | cons l ls ih =>
    intro s s' hi hr
    simp only [FRead.run] at hr
    cases hs : s.step mid l with
    | none => rw [hs] at hr; cases hr
    | some s1 => rw [hs] at hr; exact ih s1 s' (fread_inv_step mid hm s s1 l hi hs) hr

/-- **a frame cut short is still timed out.** If the frame reader never clears the deadline, then whatever deadline
(`d`, not none: `reader_always_has_deadline`, `reuse_parked_is_covered`) the reader armed before it called the frame
reader, in every reachable state a deadline is in force, and whenever the reader is blocked - for the header or, after a
peer that sent the header or a part of the body went silent, for the rest of the frame - the expiry step is enabled. -/
theorem frame_read_stays_under_deadline (mid : List FAct) (hm : FAct.clearDl ∉ mid) (d : Dl) (hd : d ≠ .none)
    (ls : List FLabel) (s : FRead) (hr : ({ dl := d } : FRead).run mid ls = some s) :
    s.dl ≠ .none ∧ ((s.phase = 0 ∨ s.phase = 2) → ∃ s', s.step mid .expire = some s' ∧ s'.phase = 4) := by
  have hi := fread_inv_run mid hm ls _ s ⟨hd, by simp⟩ hr
  refine ⟨hi.1, fun hp => ⟨{ s with phase := 4 }, ?_, rfl⟩⟩
  simp [FRead.step, hp, hi.1]

/-- the deadline calls of the frame readers as the source has them now (none) -/
def frameReadCalls : List FAct := Gen.Facts.c07FrameReadDeadlineCalls.map FAct.ofCode

theorem frame_read_never_clears_src : FAct.clearDl ∉ frameReadCalls := by decide

theorem frame_read_stays_under_deadline_src (d : Dl) (hd : d ≠ .none) (ls : List FLabel) (s : FRead)
    (hr : ({ dl := d } : FRead).run frameReadCalls ls = some s) :
    s.dl ≠ .none ∧ ((s.phase = 0 ∨ s.phase = 2) → ∃ s', s.step frameReadCalls .expire = some s' ∧ s'.phase = 4) :=
  frame_read_stays_under_deadline frameReadCalls frame_read_never_clears_src d hd ls s hr

-- witness: the deadline cleared once the header is in: a peer that goes silent inside the frame holds the reader for ever
example : ((({ dl := .short } : FRead).run [.clearDl] [.header, .act, .act]).map (fun s => (s.phase, s.dl, (s.step [.clearDl] .expire).isNone))) =
    some (2, .none, true) := by decide

/-! ## tie to the source: regenerated facts -/

theorem facts_guard :
    Gen.Facts.c07TdcWaitCoversAll = some true ∧ Gen.Facts.c07TdcCallerArms = some true ∧ Gen.Facts.c07TdcReaderArms = some true ∧
    Gen.Facts.c07TdcCloseOnce = some true ∧ Gen.Facts.c07ReuseWaitCoversAll = some true ∧ Gen.Facts.c07ReuseReadErrCloses = some true ∧
    Gen.Facts.c07ReuseCloseWithErrOrder = some true ∧ Gen.Facts.c07ReuseCloseByTransportLockFree = some true ∧
    Gen.Facts.c07ReuseCloseShape = some true ∧ Gen.Facts.c07ReuseClosedRejects = some true ∧ Gen.Facts.c07ReuseDialWaitCoversAll = some true ∧
    Gen.Facts.c07ReuseNewConnAfterCloseRejected = some true ∧ Gen.Facts.c07LazyWaitCoversAll = some true ∧
    Gen.Facts.c07LazyDialBounded = some true ∧ Gen.Facts.c07LazyCloseShape = some true ∧
    Gen.Facts.c07PipelineCloseShape = some true ∧ Gen.Facts.c07PipelineClosedRejects = some true ∧
    Gen.Facts.c07PipelineClosedCheckedUnderLock = some true ∧ Gen.Facts.c07ReuseClosedCheckedUnderLock = some true ∧
    (∀ a ∈ [RAct.setIdleDl, .setIdle, .handOver], a ∈ Gen.Facts.c07ReuseReaderOrder.map RAct.ofCode) ∧
    Gen.Facts.c07UpstreamCtxArgs.isSome = true ∧ Gen.Facts.c07FallbackClosesBoth = some true ∧
    2 ≤ (Model.C07U.phasesOf Gen.Facts.c07UpstreamCtxArgs "udpWithFallback").length := by decide

/-! ## the theorems of parts C and D at the regenerated facts -/

/-- the reader's action list as the source has it now -/
def readerOrder : List RAct := Gen.Facts.c07ReuseReaderOrder.map RAct.ofCode

/-- in reuse.go the idle deadline is set before the connection is put back into the pool, once -/
theorem reader_order_safe : safeRest readerOrder = true := by decide

theorem reuse_parked_is_covered_src (ls : List RLabel) (s : RConn) (hr : ({} : RConn).run readerOrder ls = some s) (hp : s.cpc = 4) :
    s.dl = .short ∧ RAct.setIdleDl ∉ s.rest :=
  reuse_parked_is_covered readerOrder reader_order_safe ls s hr hp

theorem reuse_silence_closes_src (ls : List RLabel) (s : RConn) (hr : ({} : RConn).run readerOrder ls = some s) (hp : s.cpc = 4) :
    ∃ s1 s2, s.run readerOrder (List.replicate s.rest.length .readerAct) = some s1 ∧ s1.rest = [] ∧ s1.dl = .short ∧
      s1.step readerOrder .readerFail = some s2 ∧ s2.closed = true :=
  reuse_silence_closes readerOrder reader_order_safe ls s hr hp

theorem pipe_close_is_final_src (ls : List PLabel) (s : PT)
    (hr : ({} : PT).run (Gen.Facts.c07PipelineClosedCheckedUnderLock.getD false) ls = some s) :
    s.lateInserts = 0 ∧ (s.cpc = 3 → s.openConns = 0) := by
  have h : Gen.Facts.c07PipelineClosedCheckedUnderLock.getD false = true := by decide
  rw [h] at hr
  exact close_is_final ls s hr

/-- the transports' own liveness timeouts are "tens of seconds at most" -/
theorem timeouts_bounded :
    (Gen.Facts.c07WaitingReplyTimeoutMs.getD 1000000) ≤ 30000 ∧ (Gen.Facts.c07ReuseQueryTimeoutMs.getD 1000000) ≤ 30000 ∧
    (Gen.Facts.c07DialTimeoutMs.getD 1000000) ≤ 30000 ∧ 0 < Gen.Facts.c07WaitingReplyTimeoutMs.getD 0 ∧
    0 < Gen.Facts.c07ReuseQueryTimeoutMs.getD 0 ∧ 0 < Gen.Facts.c07DialTimeoutMs.getD 0 := by decide

/-! ## part F: the upstreams composed out of transports (udp with its tcp retry, ...) -/

section Upstream
open Model.C07U

theorem codeAt_tied : ∀ (ph : List Nat) (i : Nat), ph.all tied = true → i < ph.length → tied (codeAt ph i) = true := by
  intro ph
  induction ph with
  | nil => intro i _ h; simp at h
  | cons c t ih =>
    intro i ha hl
    simp only [List.all_cons, Bool.and_eq_true] at ha
    cases i with
    | zero => simpa [codeAt] using ha.1
    | succ j =>
      have : j < t.length := by simpa using hl
      simpa [codeAt] using ih j ha.2 this

theorem w_inv_step (ph : List Nat) (s s' : W) (l : WLabel) (hi : s.Inv ph) (hs : s.step ph l = some s') : s'.Inv ph := by
  cases l <;> simp only [W.step] at hs
  · split at hs
    · next h => cases hs; exact fun _ => h.2
    · cases hs
  · split at hs
    · cases hs; intro h; simp at h
    · cases hs
  · split at hs
    · cases hs; exact hi
    · cases hs
  · split at hs
    · cases hs; intro h; simp at h
    · cases hs

theorem w_inv_run (ph : List Nat) (ls : List WLabel) : ∀ (s s' : W), s.Inv ph → s.run ph ls = some s' → s'.Inv ph := by
  induction ls with
  | nil => intro s s' hi hr; simp [W.run] at hr; exact hr ▸ hi
  | cons l ls ih =>
    intro s s' hi hr
    simp only [W.run] at hr
    cases hs : s.step ph l with
    | none => simp [hs] at hr
    | some s1 => rw [hs] at hr; exact ih s1 s' (w_inv_step ph s s1 l hi hs) hr

/-- F1. If every inner exchange of a wrapper is given a context tied to the caller's, then in every reachable state
in which the caller's context has ended and the call has not returned, the returning step is enabled: there is no
phase in which the call can only wait for the server, the connection or a timeout of its own. (With the guarantee
of the transports for one exchange this is "every exchange returns promptly after its context is cancelled or times
out" for the composed upstream.) -/
theorem wrapper_returns_when_ctx_ends (ph : List Nat) (hne : ph.isEmpty = false) (ht : ph.all tied = true)
    (ls : List WLabel) (s : W) (hr : ({} : W).run ph ls = some s) (hd : s.ctxDone = true) (hn : s.returned = false) :
    ∃ s', s.step ph .wake = some s' ∧ s'.returned = true := by
  have h0 : ({} : W).Inv ph := by
    intro _
    cases ph with
    | nil => simp at hne
    | cons c t => simp
  have hi := w_inv_run ph ls _ s h0 hr
  have hc := codeAt_tied ph s.phase ht (hi hn)
  exact ⟨{ s with returned := true }, by simp [W.step, hn, hd, hc], rfl⟩

/-- witness: a second phase on a context that is not tied to the caller's (detached, or a fresh budget of its own):
after the truncated reply the end of the caller's context enables nothing -/
example : ((({} : W).run [0, 2] [.next, .ctxEnd]).bind (fun s => s.step [0, 2] .wake)) = none := by decide
example : ((({} : W).run [0, 0] [.next, .ctxEnd]).bind (fun s => s.step [0, 0] .wake)).map (·.returned) = some true := by decide

/-- the wrappers of pkg/upstream/upstream.go as the source has them now -/
def upstreamWrappers : List (String × List Nat) := Gen.Facts.c07UpstreamCtxArgs.getD [("unknown", [2])]

/-- F2. in upstream.go every inner exchange of every wrapper runs on the caller's context or one derived from it -/
theorem upstream_ctx_reaches_every_inner_exchange :
    upstreamWrappers.all (fun w => !w.2.isEmpty && w.2.all tied) = true := by decide

/-- F1 at the regenerated wrappers -/
theorem upstream_wrappers_return_when_ctx_ends_src (w : String × List Nat) (hw : w ∈ upstreamWrappers)
    (ls : List WLabel) (s : W) (hr : ({} : W).run w.2 ls = some s) (hd : s.ctxDone = true) (hn : s.returned = false) :
    ∃ s', s.step w.2 .wake = some s' ∧ s'.returned = true := by
  have h := List.all_eq_true.mp upstream_ctx_reaches_every_inner_exchange w hw
  simp only [Bool.and_eq_true, Bool.not_eq_true'] at h
  exact wrapper_returns_when_ctx_ends w.2 h.1 h.2 ls s hr hd hn

end Upstream

/-! ## non-vacuity -/

example : ((({} : Conn).run [.readerArm, .callerAdd, .callerArm, .readerGotParked, .readerArm, .callerAdd, .callerArm]).map
    (fun s => (s.parked, s.dl, s.rd))) = some (1, .short, .blocked) := by decide
example : (pipeInit.run pipeProgs [0, 0, 1, 1, 1, 2, 0]).map (·.deadlocked pipeProgs) = some false := by decide
example : ((({} : RConn).run readerOrder [.callerTake, .callerInstall, .callerArm, .callerWrite, .readerGot, .readerAct, .readerAct,
    .callerTake, .callerInstall, .callerArm, .callerWrite, .readerAct]).map (fun s => (s.cpc, s.dl, s.rest))) = some (4, .short, []) := by decide
example : ((({} : PT).run true [.callerLock 0, .closeLock]).isNone, (({} : PT).run true [.callerLock 0, .callerCheck 0, .callerInsert 0, .callerUnlock 0,
    .closeLock, .closeMark, .closeUnlock, .callerLock 1, .callerCheck 1]).map (fun s => (s.cpc, s.openConns, s.pcs 1))) = (true, some (3, 0, .rejected)) := by decide

end Props.C07
