import MosdnsVerif.Model.C07
import MosdnsVerif.Lemmas.C07Locks
import MosdnsVerif.Model.C09
import MosdnsVerif.Props.C09
import MosdnsVerif.Base.Facts
import MosdnsVerif.Gen.Facts

/-!
# C07 — exchanges always terminate; Close releases everything
-/
namespace Props.C07
open Model.C07 Lemmas.C07Locks

/-! ## Part A: a parked caller is always covered by the short read deadline -/

theorem conn_init_inv : ({} : Conn).Inv := by
  constructor <;> simp

theorem arm_inv (s : Conn) (hf : s.waitingResp = true → s.dl = .short) :
    ((arm s).waitingResp = true ∧ (arm s).dl = .short) ∧ (arm s).queue = s.queue ∧ (arm s).rd = s.rd ∧ (arm s).closed = s.closed ∧
    (arm s).unarmed = s.unarmed ∧ (arm s).parked = s.parked ∧ (arm s).late = s.late := by
  unfold arm
  split
  · rename_i h; exact ⟨⟨h, hf h⟩, rfl, rfl, rfl, rfl, rfl, rfl⟩
  · exact ⟨⟨rfl, rfl⟩, rfl, rfl, rfl, rfl, rfl, rfl⟩

theorem conn_inv_step (s s' : Conn) (l : CLabel) (hi : s.Inv) (hs : s.step l = some s') : s'.Inv := by
  obtain ⟨h1, h2, h3, h4⟩ := hi
  cases l <;> simp only [Conn.step] at hs
  case readerArm =>
    split at hs
    · split at hs
      · cases hs; exact ⟨h1, fun _ => rfl, fun _ => ⟨by simp, fun _ => rfl⟩, fun h => by simp at h⟩
      · rename_i hq
        cases hs
        refine ⟨h1, fun h => by simp at h, fun _ => ⟨by simp, fun hp => ?_⟩, fun h => by simp at h⟩
        simp only at hp; omega
    · cases hs
  case readerGotParked =>
    split at hs
    · rename_i hc; cases hs
      exact ⟨by simp only; omega, h2, fun h => by simp at h, fun h => by simp at h⟩
    · cases hs
  case readerGotUnarmed =>
    split at hs
    · rename_i hc; cases hs
      exact ⟨by simp only; omega, h2, fun h => by simp at h, fun h => by simp at h⟩
    · cases hs
  case readerGotStray =>
    split at hs
    · cases hs; exact ⟨h1, h2, fun h => by simp at h, fun h => by simp at h⟩
    · cases hs
  case readerFail =>
    split at hs
    · cases hs; exact ⟨h1, h2, fun h => by simp at h, fun _ => rfl⟩
    · cases hs
  case callerAdd =>
    split at hs
    · cases hs
    · rename_i hc; cases hs
      exact ⟨by simp only; omega, h2, h3, fun h => by have := h4 h; simp_all⟩
  case callerWriteFail =>
    split at hs
    · cases hs
      exact ⟨by simp only; omega, h2, h3, fun _ => rfl⟩
    · cases hs
  case callerArm =>
    split at hs
    · cases hs
      obtain ⟨⟨a1, a2⟩, a3, a4, a5, a6, a7, a8⟩ := arm_inv s h2
      refine ⟨?_, fun _ => a2, fun _ => ⟨?_, fun _ => a2⟩, fun h => ?_⟩
      · simp only [a3]; omega
      · rw [a2]; simp
      · simp only [a4] at h; simp only [a5]; exact h4 h
    · cases hs
  case callerArmLate =>
    split at hs
    · cases hs
      obtain ⟨⟨a1, a2⟩, a3, a4, a5, a6, a7, a8⟩ := arm_inv s h2
      refine ⟨?_, fun _ => a2, fun _ => ⟨?_, fun _ => a2⟩, fun h => ?_⟩
      · simp only [a3, a6, a7]; exact h1
      · rw [a2]; simp
      · simp only [a4] at h; simp only [a5]; exact h4 h
    · cases hs
  case callerLeave =>
    split at hs
    · cases hs
      refine ⟨by simp only; omega, h2, fun h => ?_, h4⟩
      have := h3 h
      exact ⟨this.1, fun hp => this.2 (by simp only at hp; omega)⟩
    · cases hs
  case callerLeaveUnarmed => cases hs

theorem conn_inv_run (ls : List CLabel) : ∀ (s s' : Conn), s.Inv → s.run ls = some s' → s'.Inv := by
  induction ls with
  | nil => intro s s' hi hr; simp only [Conn.run, Option.some.injEq] at hr; subst hr; exact hi
  | cons l ls ih =>
    intro s s' hi hr
    simp only [Conn.run] at hr
    cases hs : s.step l with
    | none => rw [hs] at hr; cases hr
    | some s1 => rw [hs] at hr; exact ih s1 s' (conn_inv_step s s1 l hi hs) hr

/-- **A caller parked in its final wait is never left under the idle deadline
(or none)**: in every reachable state with a parked caller on a connection
that is not closed, the reader is either about to arm the waiting-reply
deadline, or sleeps under it. -/
theorem parked_is_covered (ls : List CLabel) (s : Conn) (hr : ({} : Conn).run ls = some s)
    (hp : s.parked > 0) (hc : s.closed = false) :
    (s.rd = .top ∧ ∃ s', s.step .readerArm = some s' ∧ s'.dl = .short ∧ s'.rd = .blocked) ∨
    (s.rd = .blocked ∧ s.dl = .short) := by
  have hi := conn_inv_run ls _ s conn_init_inv hr
  cases hrd : s.rd with
  | top =>
    left
    refine ⟨rfl, ?_⟩
    have hq : s.queue > 0 := by have := hi.q; omega
    simp only [Conn.step, hrd, ↓reduceIte, hq]
    exact ⟨_, rfl, rfl, rfl⟩
  | blocked => right; exact ⟨rfl, (hi.blk hrd).2 hp⟩
  | exited => have := hi.ex hrd; rw [hc] at this; cases this

/-- **Silence ends in a close within the waiting-reply timeout**: from such a
state, with no further input, at most two reader steps (arm, expiry of the
short deadline) close the connection, which wakes every parked caller. -/
theorem silence_closes (ls : List CLabel) (s : Conn) (hr : ({} : Conn).run ls = some s)
    (hp : s.parked > 0) (hc : s.closed = false) :
    ∃ path s', path.length ≤ 2 ∧ (∀ l ∈ path, l = .readerArm ∨ l = .readerFail) ∧ s.run path = some s' ∧ s'.closed = true := by
  rcases parked_is_covered ls s hr hp hc with ⟨ht, s1, h1, h2, h3⟩ | ⟨hb, _⟩
  · refine ⟨[.readerArm, .readerFail], { s1 with rd := .exited, closed := true }, by simp, by simp, ?_, rfl⟩
    simp only [Conn.run]
    rw [h1]
    simp only [Conn.step, h3, ↓reduceIte]
  · refine ⟨[.readerFail], { s with rd := .exited, closed := true }, by simp, by simp, ?_, rfl⟩
    simp only [Conn.run, Conn.step, hb, ↓reduceIte]

/-- a blocked reader always has some deadline: an idle connection is closed by the idle timeout -/
theorem reader_always_has_deadline (ls : List CLabel) (s : Conn) (hr : ({} : Conn).run ls = some s)
    (hb : s.rd = .blocked) : s.dl ≠ .none :=
  ((conn_inv_run ls _ s conn_init_inv hr).blk hb).1

/-- witness: with the sticky flag (the reader never clears `waitingResp`) a
query sent after an idle period is parked under the idle deadline -/
example :
    let s1 := stickyArm { ({} : Conn) with queue := 1, parked := 1 }             -- first query: flag set, short deadline
    let s2 := stickyArm { s1 with queue := 0, parked := 0, rd := .top }          -- answered: idle deadline, flag still set
    let s3 := arm { s2 with queue := 1, unarmed := 1 }                           -- next query after the idle period
    (s3.rd, s3.dl, s3.waitingResp) = (.blocked, .idle, true) := by decide

/-! ## Part B: the lock protocols around Close cannot deadlock -/

theorem move_mem_next (progs : List (List Act)) (s s' : Sys) (t : Nat) (h : s.move progs t = some s') : s' ∈ s.next progs := by
  simp only [Sys.next, List.mem_filterMap, threads, List.mem_range]
  refine ⟨t, ?_, h⟩
  rcases Nat.lt_or_ge t progs.length with hlt | hge
  · exact hlt
  · exfalso
    have : progs[t]?.getD [] = [] := by simp [List.getElem?_eq_none hge]
    simp [Sys.move, this] at h

theorem run_stays (progs : List (List Act)) (R : List Sys) (hc : closedUnder progs R = true) (ts : List Nat) :
    ∀ s s', s ∈ R → s.run progs ts = some s' → s' ∈ R := by
  induction ts with
  | nil => intro s s' hs hr; simp only [Sys.run, Option.some.injEq] at hr; subst hr; exact hs
  | cons t ts ih =>
    intro s s' hs hr
    simp only [Sys.run] at hr
    cases hm : s.move progs t with
    | none => rw [hm] at hr; cases hr
    | some s1 =>
      rw [hm] at hr
      have h1 := move_mem_next progs s s1 t hm
      have h2 := List.all_eq_true.mp (List.all_eq_true.mp hc s hs) s1 h1
      exact ih s1 s' (by simpa using h2) hr

/-- **ReuseConnTransport: Close, two failing connections' `closeWithErr` and a
pool operation never deadlock**, in any interleaving. -/
theorem reuse_close_never_deadlocks (ts : List Nat) (s : Sys) (hr : reuseInit.run reuseProgs ts = some s) :
    s.deadlocked reuseProgs = false := by
  have h := reuse_check
  simp only [Bool.and_eq_true] at h
  have hm := run_stays reuseProgs reuseR h.1.2 ts reuseInit s (by simpa using h.1.1) hr
  have := List.all_eq_true.mp h.2 s hm
  simpa using this

/-- **PipelineTransport: a late reservation waiting for the early callers (it
holds the transport mutex and the wrapper's mutex), an early caller that
proceeds, one that was cancelled, and Close never deadlock.** -/
theorem pipe_close_never_deadlocks (ts : List Nat) (s : Sys) (hr : pipeInit.run pipeProgs ts = some s) :
    s.deadlocked pipeProgs = false := by
  have h := pipe_check
  simp only [Bool.and_eq_true] at h
  have hm := run_stays pipeProgs pipeR h.1.2 ts pipeInit s (by simpa using h.1.1) hr
  have := List.all_eq_true.mp h.2 s hm
  simpa using this

/-- witness for the repaired defect (pool delete inside the Once): Close holds
the transport mutex and waits for the Once; the failing connection runs the
Once and waits for the transport mutex -/
example : ((Sys.init reuseProgsOld 1 1 0).run reuseProgsOld [1, 0]).map (·.deadlocked reuseProgsOld) = some true := by decide

/-- witness for the seeded defect (no `wg.Done` when an early caller's context
ends): everybody else finishes and the late reservation waits forever, holding
the transport mutex, so Close blocks as well -/
example : ((Sys.init pipeProgsLeaky 3 0 2).run pipeProgsLeaky [2, 2, 1, 1, 1, 1, 1, 1, 1, 0, 0]).map (·.deadlocked pipeProgsLeaky) = some true := by decide

/-! ## the dialing wrapper never blocks a late reservation once the early callers are through -/

open Model.C09 in
theorem late_reservation_not_blocked (max : Nat) (ls : List LLabel) (s : Lazy) (hr : (Lazy.init max).run ls = some s)
    (hd : s.dial = .ok) (he : s.eh = 0 ∧ s.ew = 0) : ∃ s', s.step .reserve = some (s', .none) := by
  have hi := (Props.C09.lazy_inv_run ls _ s (Props.C09.lazy_init_inv max) hr).1
  have hw := hi.wgOk (by rw [hd]; simp)
  have : s.wg = 0 := by rw [hw, he.1, he.2]; simp
  simp only [Lazy.step, hd, this, ↓reduceIte]
  exact ⟨_, rfl⟩

/-! ## tie to the source: regenerated facts -/

theorem facts_guard :
    Gen.Facts.c07TdcWaitCoversAll = some true ∧ Gen.Facts.c07TdcCallerArms = some true ∧ Gen.Facts.c07TdcReaderArms = some true ∧
    Gen.Facts.c07TdcCloseOnce = some true ∧ Gen.Facts.c07ReuseWaitCoversAll = some true ∧ Gen.Facts.c07ReuseReadErrCloses = some true ∧
    Gen.Facts.c07ReuseCloseWithErrOrder = some true ∧ Gen.Facts.c07ReuseCloseByTransportLockFree = some true ∧
    Gen.Facts.c07ReuseCloseShape = some true ∧ Gen.Facts.c07ReuseClosedRejects = some true ∧ Gen.Facts.c07ReuseDialWaitCoversAll = some true ∧
    Gen.Facts.c07ReuseNewConnAfterCloseRejected = some true ∧ Gen.Facts.c07LazyWaitCoversAll = some true ∧
    Gen.Facts.c07LazyDialBounded = some true ∧ Gen.Facts.c07LazyCloseShape = some true ∧
    Gen.Facts.c07PipelineCloseShape = some true ∧ Gen.Facts.c07PipelineClosedRejects = some true := by decide

/-- the transports' own liveness timeouts are "tens of seconds at most" -/
theorem timeouts_bounded :
    (Gen.Facts.c07WaitingReplyTimeoutMs.getD 1000000) ≤ 30000 ∧ (Gen.Facts.c07ReuseQueryTimeoutMs.getD 1000000) ≤ 30000 ∧
    (Gen.Facts.c07DialTimeoutMs.getD 1000000) ≤ 30000 ∧ 0 < Gen.Facts.c07WaitingReplyTimeoutMs.getD 0 ∧
    0 < Gen.Facts.c07ReuseQueryTimeoutMs.getD 0 ∧ 0 < Gen.Facts.c07DialTimeoutMs.getD 0 := by decide

/-! ## non-vacuity -/

example : ((({} : Conn).run [.readerArm, .callerAdd, .callerArm, .readerGotParked, .readerArm, .callerAdd, .callerArm]).map
    (fun s => (s.parked, s.dl, s.rd))) = some (1, .short, .blocked) := by decide
example : (pipeInit.run pipeProgs [0, 0, 1, 1, 1, 2, 0]).map (·.deadlocked pipeProgs) = some false := by decide

end Props.C07
