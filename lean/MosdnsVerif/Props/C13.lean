import MosdnsVerif.Model.C13
import MosdnsVerif.Gen.Facts

/-!
# C13 — IP sets contain exactly the addresses their prefixes cover
-/
namespace Props.C13
open Model.C13

/-- Laminarity: two members either are disjoint or one lies inside the other.
(Stated for strictly ordered bases; equal bases need no condition.) -/
def Laminar (l : List Iv) : Prop :=
  ∀ p ∈ l, ∀ q ∈ l, p.lo < q.lo → q.lo < p.hi → q.hi ≤ p.hi

def SortedLo (l : List Iv) : Prop := l.Pairwise (fun p q => p.lo ≤ q.lo)

/-- Invariant of the reversed output: newest first, each starts at or after
the end of the next older one. -/
def Chain : List Iv → Prop
  | [] => True
  | [_] => True
  | n :: lv :: rest => lv.hi ≤ n.lo ∧ lv.lo < lv.hi ∧ Chain (lv :: rest)

theorem chain_tail {a : Iv} {t : List Iv} (h : Chain (a :: t)) : Chain t := by
  cases t with
  | nil => trivial
  | cons b r => exact h.2.2

/-- In a chain every older element ends at or before the head starts. -/
theorem chain_older {a : Iv} {t : List Iv} (h : Chain (a :: t)) (hpos : ∀ q ∈ t, q.lo < q.hi) :
    ∀ q ∈ t, q.hi ≤ a.lo := by
  induction t generalizing a with
  | nil => intro q hq; cases hq
  | cons b r ih =>
    intro q hq
    obtain ⟨h1, h2, h3⟩ := h
    rcases List.mem_cons.mp hq with rfl | hq
    · exact h1
    · have := ih h3 (fun x hx => hpos x (List.mem_cons_of_mem _ hx)) q hq
      omega

/-- **`Contains` on a chain is exact**: it answers true iff some element covers `a`. -/
theorem containsRev_iff (out : List Iv) (hc : Chain out) (hpos : ∀ q ∈ out, q.lo < q.hi) (a : Nat) :
    containsRev out a = true ↔ ∃ q ∈ out, q.covers a = true := by
  induction out with
  | nil => simp [containsRev]
  | cons h t ih =>
    unfold containsRev
    by_cases hle : h.lo ≤ a
    · simp only [List.find?_cons, hle, decide_true]
      constructor
      · intro hcov; exact ⟨h, List.mem_cons_self, hcov⟩
      · rintro ⟨q, hq, hcov⟩
        rcases List.mem_cons.mp hq with rfl | hq
        · exact hcov
        · have := chain_older hc (fun x hx => hpos x (List.mem_cons_of_mem _ hx)) q hq
          simp [Iv.covers] at hcov
          omega
    · simp only [List.find?_cons, hle, decide_false]
      have ih' := ih (chain_tail hc) (fun x hx => hpos x (List.mem_cons_of_mem _ hx))
      unfold containsRev at ih'
      rw [ih']
      constructor
      · rintro ⟨q, hq, hcov⟩; exact ⟨q, List.mem_cons_of_mem _ hq, hcov⟩
      · rintro ⟨q, hq, hcov⟩
        rcases List.mem_cons.mp hq with rfl | hq
        · simp [Iv.covers] at hcov; omega
        · exact ⟨q, hq, hcov⟩

/-- What the fold maintains: `out` is a chain of processed members whose
coverage equals the coverage of everything processed; its head starts no
later than anything still to come. -/
structure Inv (processed out : List Iv) : Prop where
  chain : Chain out
  sub : ∀ q ∈ out, q ∈ processed
  cov : ∀ a, (∃ q ∈ out, q.covers a = true) ↔ (∃ q ∈ processed, q.covers a = true)

theorem mergeStep_inv (all processed out : List Iv) (n : Iv)
    (hlam : Laminar all) (hall : ∀ q ∈ n :: processed, q ∈ all)
    (hpos : ∀ q ∈ all, q.lo < q.hi)
    (hsorted : ∀ q ∈ processed, q.lo ≤ n.lo)
    (hinv : Inv processed out) : Inv (processed ++ [n]) (mergeStep out n) := by
  have hn_all : n ∈ all := hall n List.mem_cons_self
  cases out with
  | nil =>
    refine ⟨trivial, ?_, ?_⟩
    · intro q hq; simp [mergeStep] at hq; subst hq; simp
    · intro a
      have h0 := hinv.cov a
      simp only [List.not_mem_nil, false_and, exists_false, false_iff, not_exists, not_and] at h0
      simp only [mergeStep, List.mem_singleton, exists_eq_left, List.mem_append]
      constructor
      · intro h; exact ⟨n, Or.inr rfl, h⟩
      · rintro ⟨q, hq | hq, hc⟩
        · exact absurd hc (by simpa using h0 q hq)
        · subst hq; exact hc
  | cons lv rest =>
    have hlv_proc : lv ∈ processed := hinv.sub lv List.mem_cons_self
    have hlv_all : lv ∈ all := hall lv (List.mem_cons_of_mem _ hlv_proc)
    have hlv_le : lv.lo ≤ n.lo := hsorted lv hlv_proc
    have hlv_pos := hpos lv hlv_all
    have hn_pos := hpos n hn_all
    unfold mergeStep
    by_cases heq : n.lo = lv.lo
    · simp only [heq, if_true]
      by_cases hbig : lv.hi < n.hi
      · -- replace lv by n (same base, shorter prefix)
        simp only [hbig, if_true]
        refine ⟨?_, ?_, ?_⟩
        · cases rest with
          | nil => trivial
          | cons b r =>
            obtain ⟨h1, h2, h3⟩ := hinv.chain
            exact ⟨by omega, h2, h3⟩
        · intro q hq
          rcases List.mem_cons.mp hq with rfl | hq
          · simp
          · exact List.mem_append_left _ (hinv.sub q (List.mem_cons_of_mem _ hq))
        · intro a
          have h0 := hinv.cov a
          constructor
          · rintro ⟨q, hq, hc⟩
            rcases List.mem_cons.mp hq with rfl | hq
            · exact ⟨q, by simp, hc⟩
            · obtain ⟨q', hq', hc'⟩ := h0.mp ⟨q, List.mem_cons_of_mem _ hq, hc⟩
              exact ⟨q', List.mem_append_left _ hq', hc'⟩
          · rintro ⟨q, hq, hc⟩
            rcases List.mem_append.mp hq with hq | hq
            · obtain ⟨q', hq', hc'⟩ := h0.mpr ⟨q, hq, hc⟩
              rcases List.mem_cons.mp hq' with rfl | hq'
              · refine ⟨n, List.mem_cons_self, ?_⟩
                simp [Iv.covers] at hc' ⊢; omega
              · exact ⟨q', List.mem_cons_of_mem _ hq', hc'⟩
            · simp at hq; subst hq; exact ⟨q, List.mem_cons_self, hc⟩
      · -- keep lv: n is inside it
        simp only [hbig, if_false]
        refine ⟨hinv.chain, fun q hq => List.mem_append_left _ (hinv.sub q hq), ?_⟩
        intro a
        have h0 := hinv.cov a
        constructor
        · intro h; obtain ⟨q', hq', hc'⟩ := h0.mp h; exact ⟨q', List.mem_append_left _ hq', hc'⟩
        · rintro ⟨q, hq, hc⟩
          rcases List.mem_append.mp hq with hq | hq
          · exact h0.mpr ⟨q, hq, hc⟩
          · simp at hq; subst hq
            refine ⟨lv, List.mem_cons_self, ?_⟩
            simp [Iv.covers] at hc ⊢; omega
    · simp only [heq, if_false]
      have hlt : lv.lo < n.lo := by omega
      by_cases hin : lv.covers n.lo = true
      · -- n's base is inside lv: by laminarity all of n is inside lv, drop it
        simp only [hin, if_true]
        have hnest : n.hi ≤ lv.hi := hlam lv hlv_all n hn_all hlt (by simp [Iv.covers] at hin; omega)
        refine ⟨hinv.chain, fun q hq => List.mem_append_left _ (hinv.sub q hq), ?_⟩
        intro a
        have h0 := hinv.cov a
        constructor
        · intro h; obtain ⟨q', hq', hc'⟩ := h0.mp h; exact ⟨q', List.mem_append_left _ hq', hc'⟩
        · rintro ⟨q, hq, hc⟩
          rcases List.mem_append.mp hq with hq | hq
          · exact h0.mpr ⟨q, hq, hc⟩
          · simp at hq; subst hq
            refine ⟨lv, List.mem_cons_self, ?_⟩
            simp [Iv.covers] at hc ⊢; omega
      · -- append n
        have hin' : lv.covers n.lo = false := by simpa using hin
        simp only [hin', Bool.false_eq_true, if_false]
        have hdis : lv.hi ≤ n.lo := by simp [Iv.covers] at hin'; omega
        refine ⟨⟨hdis, hlv_pos, hinv.chain⟩, ?_, ?_⟩
        · intro q hq
          rcases List.mem_cons.mp hq with rfl | hq
          · simp
          · exact List.mem_append_left _ (hinv.sub q hq)
        · intro a
          have h0 := hinv.cov a
          constructor
          · rintro ⟨q, hq, hc⟩
            rcases List.mem_cons.mp hq with rfl | hq
            · exact ⟨q, by simp, hc⟩
            · obtain ⟨q', hq', hc'⟩ := h0.mp ⟨q, hq, hc⟩
              exact ⟨q', List.mem_append_left _ hq', hc'⟩
          · rintro ⟨q, hq, hc⟩
            rcases List.mem_append.mp hq with hq | hq
            · obtain ⟨q', hq', hc'⟩ := h0.mpr ⟨q, hq, hc⟩
              exact ⟨q', List.mem_cons_of_mem _ hq', hc'⟩
            · simp at hq; subst hq; exact ⟨q, List.mem_cons_self, hc⟩

theorem fold_inv (all : List Iv) (hlam : Laminar all) (hpos : ∀ q ∈ all, q.lo < q.hi) :
    ∀ (todo processed out : List Iv), (∀ q ∈ processed ++ todo, q ∈ all) → SortedLo (processed ++ todo) →
      Inv processed out → Inv (processed ++ todo) (todo.foldl mergeStep out) := by
  intro todo
  induction todo with
  | nil => intro processed out _ _ h; simpa using h
  | cons n t ih =>
    intro processed out hall hs hinv
    have hstep := mergeStep_inv all processed out n hlam
      (by intro q hq; rcases List.mem_cons.mp hq with rfl | hq
          · exact hall _ (by simp)
          · exact hall _ (List.mem_append_left _ hq))
      hpos
      (by intro q hq
          have := List.pairwise_append.mp hs
          exact this.2.2 q hq n List.mem_cons_self)
      hinv
    have := ih (processed ++ [n]) (mergeStep out n) (by simpa using hall) (by simpa using hs) hstep
    simpa using this

/-- **C13 (interval form).** For every list sorted by base (any order among
equal bases - the sort is unstable) of a laminar family, membership after the
merge is exactly "some loaded prefix covers the address". -/
theorem contains_iff_sorted (l : List Iv) (hlam : Laminar l) (hpos : ∀ q ∈ l, q.lo < q.hi)
    (hs : SortedLo l) (a : Nat) :
    contains l a = true ↔ ∃ q ∈ l, q.covers a = true := by
  have hinv := fold_inv l hlam hpos l [] [] (by simp) (by simpa using hs)
    ⟨trivial, by simp, by simp⟩
  simp only [List.nil_append] at hinv
  unfold contains mergeRev
  rw [containsRev_iff _ hinv.chain (fun q hq => hpos q (hinv.sub q hq)) a]
  exact hinv.cov a

/-! ### Bit arithmetic: masked prefixes form a laminar family of intervals -/

theorem size_pos (p : Prefix) : 0 < p.size := Nat.two_pow_pos _

theorem masked_dvd (p : Prefix) : p.masked.size ∣ p.masked.base := by
  unfold Prefix.masked Prefix.size
  exact Nat.dvd_mul_left _ _

/-- For a masked prefix, "the leading bits agree" is "the address lies in the interval". -/
theorem covers_iff_interval (p : Prefix) (hd : p.size ∣ p.base) (a : Nat) :
    p.covers a = (Iv.ofPrefix p).covers a := by
  obtain ⟨k, hk⟩ := hd
  have hs := size_pos p
  unfold Prefix.covers Iv.ofPrefix Iv.covers
  simp only [hk]
  rw [Nat.mul_div_cancel_left k hs]
  by_cases h : a / p.size = k
  · have h1 : p.size * k ≤ a := by rw [← h]; exact Nat.mul_div_le a p.size
    have h2 : a < p.size * k + p.size := by
      have := Nat.lt_mul_div_succ a hs
      rw [h, Nat.mul_succ] at this
      exact this
    simp [h, h1, h2]
  · have : ¬ (p.size * k ≤ a ∧ a < p.size * k + p.size) := by
      rintro ⟨h1, h2⟩
      apply h
      have : a < p.size * (k + 1) := by rw [Nat.mul_succ]; exact h2
      exact Nat.div_eq_of_lt_le (by rw [Nat.mul_comm]; exact h1) (by rw [Nat.mul_comm]; exact this)
    simp only [beq_eq_false_iff_ne.mpr h]
    rcases Nat.lt_or_ge a (p.size * k) with h1 | h1
    · simp [Nat.not_le.mpr h1]
    · have h2 : ¬ a < p.size * k + p.size := fun h2 => this ⟨h1, h2⟩
      simp [h2]

/-- Aligned power-of-two blocks are laminar. -/
theorem blocks_laminar (p q : Prefix) (hp : p.size ∣ p.base) (hq : q.size ∣ q.base)
    (hpb : p.bits ≤ 128) (hqb : q.bits ≤ 128)
    (hlt : p.base < q.base) (hin : q.base < p.base + p.size) : q.base + q.size ≤ p.base + p.size := by
  unfold Prefix.size at *
  rcases Nat.lt_or_ge (128 - q.bits) (128 - p.bits) with hk | hk
  · -- q's block is smaller: its size divides p's size, base and end
    have hdv : 2 ^ (128 - q.bits) ∣ 2 ^ (128 - p.bits) := Nat.pow_dvd_pow 2 (Nat.le_of_lt hk)
    have hend : 2 ^ (128 - q.bits) ∣ p.base + 2 ^ (128 - p.bits) := Nat.dvd_add (Nat.dvd_trans hdv hp) hdv
    obtain ⟨x, hx⟩ := hq
    obtain ⟨y, hy⟩ := hend
    rw [hx, hy] at hin ⊢
    have hs : 0 < 2 ^ (128 - q.bits) := Nat.two_pow_pos _
    have : x < y := Nat.lt_of_mul_lt_mul_left hin
    calc 2 ^ (128 - q.bits) * x + 2 ^ (128 - q.bits) = 2 ^ (128 - q.bits) * (x + 1) := by rw [Nat.mul_succ]
      _ ≤ 2 ^ (128 - q.bits) * y := Nat.mul_le_mul_left _ this
  · -- q's block is at least as large: then q.base, a multiple of p's size inside p's block, is p.base
    exfalso
    have hdv : 2 ^ (128 - p.bits) ∣ 2 ^ (128 - q.bits) := Nat.pow_dvd_pow 2 hk
    obtain ⟨x, hx⟩ := hp
    obtain ⟨y, hy⟩ := Nat.dvd_trans hdv hq
    rw [hx, hy] at hlt hin
    have h1 : x < y := Nat.lt_of_mul_lt_mul_left hlt
    have h2 : y < x + 1 := by
      have : 2 ^ (128 - p.bits) * y < 2 ^ (128 - p.bits) * (x + 1) := by rw [Nat.mul_succ]; exact hin
      exact Nat.lt_of_mul_lt_mul_left this
    omega

/-- A stored prefix: what `Append` produces (masked, at most 128 bits). -/
def Stored (p : Prefix) : Prop := p.size ∣ p.base ∧ p.bits ≤ 128

theorem stored_laminar (ps : List Prefix) (h : ∀ p ∈ ps, Stored p) : Laminar (ps.map Iv.ofPrefix) := by
  intro a ha b hb hlt hin
  obtain ⟨p, hp, rfl⟩ := List.mem_map.mp ha
  obtain ⟨q, hq, rfl⟩ := List.mem_map.mp hb
  exact blocks_laminar p q (h p hp).1 (h q hq).1 (h p hp).2 (h q hq).2 hlt hin

/-- **C13.** Take any stored prefixes `ps` (masked, duplicates / nesting /
overlaps allowed) and any ordering `l` of their intervals that is sorted by
base address (what `sort.Sort` with `Less = base <` can produce, whatever it
does with equal bases and whatever the load order was). Then the set
contains `a` iff at least one prefix covers `a`. -/
theorem contains_correct (ps : List Prefix) (hst : ∀ p ∈ ps, Stored p)
    (l : List Iv) (hperm : ∀ x, x ∈ l ↔ x ∈ ps.map Iv.ofPrefix) (hs : SortedLo l) (a : Nat) :
    contains l a = true ↔ ∃ p ∈ ps, p.covers a = true := by
  have hlam : Laminar l := by
    intro x hx y hy; exact stored_laminar ps hst x ((hperm x).mp hx) y ((hperm y).mp hy)
  have hpos : ∀ q ∈ l, q.lo < q.hi := by
    intro q hq
    obtain ⟨p, _, rfl⟩ := List.mem_map.mp ((hperm q).mp hq)
    simp [Iv.ofPrefix]; exact size_pos p
  rw [contains_iff_sorted l hlam hpos hs a]
  constructor
  · rintro ⟨q, hq, hc⟩
    obtain ⟨p, hp, rfl⟩ := List.mem_map.mp ((hperm q).mp hq)
    exact ⟨p, hp, by rw [covers_iff_interval p (hst p hp).1]; exact hc⟩
  · rintro ⟨p, hp, hc⟩
    exact ⟨Iv.ofPrefix p, (hperm _).mpr (List.mem_map.mpr ⟨p, hp, rfl⟩),
      by rw [← covers_iff_interval p (hst p hp).1]; exact hc⟩

/-- `Append` stores masked prefixes, and masking does not change what is covered. -/
theorem masked_stored (p : Prefix) (hb : p.bits ≤ 128) : Stored p.masked :=
  ⟨masked_dvd p, hb⟩

theorem masked_covers (p : Prefix) (a : Nat) : p.masked.covers a = p.covers a := by
  unfold Prefix.covers Prefix.masked Prefix.size
  simp only
  rw [Nat.mul_div_cancel _ (Nat.two_pow_pos _)]

/-- **IPv4 = IPv4-mapped IPv6, rule side and query side.** An IPv4 prefix
`x/n` (`n ≤ 32`, `x < 2^32`) covers the IPv4 address `y < 2^32` iff the stored
prefix (`Append`: mapped base, `n + 96` bits, masked) covers the mapped
address - which is also what a query for `::ffff:y` asks. -/
theorem v4_mapped_same (x n y : Nat) (hn : n ≤ 32) :
    (appendV4 x n).covers (v4mapped y) = (y / 2 ^ (32 - n) == x / 2 ^ (32 - n)) := by
  unfold appendV4
  rw [masked_covers]
  unfold Prefix.covers Prefix.size v4mapped
  have e : 128 - (n + 96) = 32 - n := by omega
  simp only [e]
  have hd : 2 ^ (32 - n) ∣ 0xffff * 2 ^ 32 := by
    apply Nat.dvd_trans (Nat.pow_dvd_pow 2 (by omega : 32 - n ≤ 32)) (Nat.dvd_mul_left _ _)
  obtain ⟨k, hk⟩ := hd
  have hs : 0 < 2 ^ (32 - n) := Nat.two_pow_pos _
  rw [hk, Nat.mul_add_div hs, Nat.mul_add_div hs]
  by_cases h : y / 2 ^ (32 - n) = x / 2 ^ (32 - n)
  · simp [h]
  · have : k + y / 2 ^ (32 - n) ≠ k + x / 2 ^ (32 - n) := by omega
    rw [beq_eq_false_iff_ne.mpr h, beq_eq_false_iff_ne.mpr this]

/-! ### Text loading: single addresses and the IPv4-mapped forms on the rule side

A line without `/` is stored with the full length of its address *form*
(`hostBits`: 32 for `a.b.c.d`, 128 for every 16-byte form, `::ffff:a.b.c.d`
included) and `Append` adds 96 only to the 4-byte form. -/

/-- **A single-address line covers exactly that address**, whatever form it was
written in (`a.b.c.d`, `::ffff:a.b.c.d`, plain IPv6). -/
theorem host_line_single (a : PAddr) (y : Nat) :
    (append a (hostBits a).toNat).covers y = true ↔ y = a.to6 := by
  obtain ⟨is6, x⟩ := a
  cases is6
  · show (appendV4 x 32).covers y = true ↔ y = v4mapped x
    unfold appendV4
    rw [masked_covers]
    simp [Prefix.covers, Prefix.size]
  · show (appendV6 x 128).covers y = true ↔ y = x
    unfold appendV6
    rw [masked_covers]
    simp [Prefix.covers, Prefix.size]

/-- The single address `a.b.c.d` and the single address `::ffff:a.b.c.d` are stored as the same prefix. -/
theorem host_forms_agree (x : Nat) :
    append (false, x) (hostBits (false, x)).toNat = append (true, v4mapped x) (hostBits (true, v4mapped x)).toNat := rfl

/-- `a.b.c.d/n` and `::ffff:a.b.c.d/(n+96)` are stored as the same prefix. -/
theorem cidr_forms_agree (x n : Nat) : append (false, x) n = append (true, v4mapped x) (n + 96) := rfl

/-- What a loaded line stores is a masked prefix of at most 128 bits (lengths as `netip` accepts them:
`≤ 32` for the 4-byte form, `≤ 128` for the 16-byte forms). -/
theorem storeLine_stored (r : PAddr × Int) (h6 : r.2.toNat ≤ 128) (h4 : r.1.1 = false → r.2.toNat ≤ 32) :
    Stored (storeLine r) := by
  obtain ⟨⟨is6, x⟩, n⟩ := r
  cases is6
  · exact masked_stored _ (by have := h4 rfl; simp only at this ⊢; omega)
  · exact masked_stored _ h6

/-- **C13 for a loaded rule list**: the lines `rs` (as `loadLine` yields them, in any
order, duplicates / nesting / mixed forms allowed), stored by `Append`, sorted
by base in any way and merged: the set contains `a` iff some line's prefix covers `a`. -/
theorem loaded_set_correct (rs : List (PAddr × Int))
    (hb : ∀ r ∈ rs, r.2.toNat ≤ 128 ∧ (r.1.1 = false → r.2.toNat ≤ 32))
    (l : List Iv) (hperm : ∀ x, x ∈ l ↔ x ∈ (rs.map storeLine).map Iv.ofPrefix) (hs : SortedLo l) (a : Nat) :
    contains l a = true ↔ ∃ r ∈ rs, (storeLine r).covers a = true := by
  rw [contains_correct (rs.map storeLine) (by
    intro p hp
    obtain ⟨r, hr, rfl⟩ := List.mem_map.mp hp
    exact storeLine_stored r (hb r hr).1 (hb r hr).2) l hperm hs a]
  constructor
  · rintro ⟨p, hp, hc⟩
    obtain ⟨r, hr, rfl⟩ := List.mem_map.mp hp
    exact ⟨r, hr, hc⟩
  · rintro ⟨r, hr, hc⟩
    exact ⟨storeLine r, List.mem_map.mpr ⟨r, hr, rfl⟩, hc⟩

/-! ### Guards: the facts regenerated from `pkg/matcher/netlist/list.go` are the
ones the model was written from (operators, statement shapes, constants). -/
theorem facts_guard :
    Gen.Facts.c13SortSameBaseCmp = .lt ∧ Gen.Facts.c13SortAppendsWhenNotContained = some true ∧
    Gen.Facts.c13SortCallsSort = some true ∧ Gen.Facts.c13SortReturns = some 1 ∧
    Gen.Facts.c13LessByAddr = some true ∧ Gen.Facts.c13ContainsCmp = .le ∧
    Gen.Facts.c13ContainsShape = some true ∧ Gen.Facts.c13AppendMasksTo6 = some true ∧
    Gen.Facts.c13AppendV4BitsOffset = some 96 ∧
    -- ip_set plugins that reference other sets (Props/C13Sets.lean): `p := &IPSet{}`, the member slice is only
    -- ever written by `p.mg = append(p.mg, <one value>)` (own list, then one per referenced set), and handed out uncopied
    Gen.Facts.c13IPSetFresh = some true ∧ Gen.Facts.c13IPSetMgSelfAppends = some 2 ∧
    Gen.Facts.c13IPSetMgOtherWrites = some 0 ∧ Gen.Facts.c13IPSetOwnListFirst = some true ∧
    Gen.Facts.c13IPSetRangesSets = some true ∧ Gen.Facts.c13GetIPMatcherShape = some true ∧
    Gen.Facts.c13GroupMatchShape = some true := by decide

/-! Non-vacuity. 10.0.0.0/8 ⊇ 10.1.0.0/16, 10.0.0.0/8 twice, adjacent 11.0.0.0/8:
intervals written directly. -/
def ex : List Iv := [⟨10, 20⟩, ⟨10, 12⟩, ⟨12, 14⟩, ⟨20, 30⟩]
example : contains ex 19 = true ∧ contains ex 13 = true ∧ contains ex 30 = false ∧ contains ex 9 = false := by decide
example : (appendV4 (10 * 2 ^ 24 + 5) 8).base = v4mapped (10 * 2 ^ 24) := by decide
example : (appendV4 (10 * 2 ^ 24 + 5) 8).covers (v4mapped (10 * 2 ^ 24 + 77)) = true := by decide
/-- Were a single `::ffff:a.b.c.d` line given the IPv4 length 32 (on its 16-byte form `Append` adds nothing),
it would cover `::1` and every IPv4 address: `host_line_single` excludes that. -/
example : (append (true, v4mapped 7) 32).covers 1 = true ∧ (append (true, v4mapped 7) 32).covers (v4mapped 9) = true := by decide
example : (append (true, v4mapped 7) (hostBits (true, v4mapped 7)).toNat).covers (v4mapped 9) = false := by decide

end Props.C13
