import MosdnsVerif.Lemmas.C20Inv
import MosdnsVerif.Model.C20Pool
import MosdnsVerif.Model.C20Hold
import MosdnsVerif.Model.C20Share
import MosdnsVerif.Model.C20Time
import MosdnsVerif.Model.C20Copy
import MosdnsVerif.Refine.C20
import MosdnsVerif.Gen.Facts

/-!
# C20 — fallback prefers the primary and fails over only when it should

The invariant `inv` is checked for inductiveness by the kernel over *every*
raw state (4·5·2·3·5·2⁴ states × 17 labels × 8 configurations with
`sendFirst`; `Lemmas/C20Inv`), then lifted by induction to executions of any length - so every
interleaving of the two workers' completion signals, the timer, the two
contexts and the caller is covered.
-/
namespace Props.C20
open Model.C20

open Lemmas.C20Inv in
theorem inv_step (c : Cfg) (hsf : c.sendFirst = true) (s s' : St) (l : Label)
    (hi : inv c s = true) (hs : step c s l = some s') : inv c s' = true ∧ goodStart c s s' = true := by
  have h := stateOk_of c hsf s
  unfold stateOk at h
  rw [hi] at h
  simp only [Bool.not_true, Bool.false_or, Bool.and_eq_true, List.all_eq_true] at h
  have := h.2 l (mem_labels l)
  rw [hs] at this
  simpa using this

open Lemmas.C20Inv in
theorem inv_good (c : Cfg) (hsf : c.sendFirst = true) (s : St) (hi : inv c s = true) : good c s = true := by
  have h := stateOk_of c hsf s
  unfold stateOk at h
  rw [hi] at h
  simp only [Bool.not_true, Bool.false_or, Bool.and_eq_true] at h
  exact h.1

theorem inv_init (c : Cfg) : inv c init = true := by
  obtain ⟨a, b, d, e⟩ := c
  cases a <;> cases b <;> cases d <;> cases e <;> decide

theorem inv_run (c : Cfg) (hsf : c.sendFirst = true) (ls : List Label) :
    ∀ s s', inv c s = true → run c s ls = some s' → inv c s' = true := by
  induction ls with
  | nil => intro s s' hi hr; simp [run] at hr; subst hr; exact hi
  | cons l ls ih =>
    intro s s' hi hr
    simp only [run] at hr
    cases hs : step c s l with
    | none => rw [hs] at hr; cases hr
    | some s1 => rw [hs] at hr; exact ih s1 s' (inv_step c hsf s s1 l hi hs).1 hr

/-- **C20.** In every state reachable by any schedule (any interleaving of the
primary's and the secondary's steps, the timer, the contexts and the caller,
of any length), for every combination of primary/secondary outcome and
always_standby:
* the caller's result is the secondary's answer only if, when that answer was
  queued, the primary had failed, the threshold timer had already fired, or
  the secondary's own deadline had passed - so a primary that answers within
  the threshold always wins, however the goroutines are scheduled;
* the call fails with "both failed" only if neither produced an answer;
* a result attributed to a worker is that worker's answer. -/
theorem fallback_safe (c : Cfg) (hsf : c.sendFirst = true) (ls : List Label) (s : St)
    (hr : run c init ls = some s) :
    (s.result = .sec → s.sqExcuse = true ∧ c.sAns = true) ∧
    (s.result = .failed → c.pAns = false ∧ c.sAns = false) ∧
    (s.result = .prim → c.pAns = true) := by
  have hg := inv_good c hsf s (inv_run c hsf ls init s (inv_init c) hr)
  unfold good at hg
  simp only [Bool.and_eq_true, Bool.or_eq_true, bne_iff_ne, ne_eq, Bool.not_eq_true'] at hg
  obtain ⟨⟨⟨h1, h2⟩, h3⟩, h4⟩ := hg
  refine ⟨fun h => ⟨?_, ?_⟩, fun h => ?_, fun h => ?_⟩
  · rcases h1 with h1 | h1
    · exact absurd h h1
    · exact h1
  · rcases h4 with h4 | h4
    · exact absurd h h4
    · exact h4
  · rcases h2 with h2 | h2
    · exact absurd h h2
    · simpa using h2
  · rcases h3 with h3 | h3
    · exact absurd h h3
    · exact h3

/-- **The secondary is not started while the primary is within the threshold**
(without always_standby): along any execution, the step that starts
`secondary.Exec` is taken only when always_standby is on, the primary has
failed, or the threshold timer has fired. -/
theorem secondary_start_excused (c : Cfg) (hsf : c.sendFirst = true) (ls : List Label) (s s' : St) (l : Label)
    (hr : run c init ls = some s) (hs : step c s l = some s')
    (h0 : secStarted s = false) (h1 : secStarted s' = true) :
    c.standby = true ∨ primFailed c s = true ∨ s.timer = true := by
  have hi := inv_run c hsf ls init s (inv_init c) hr
  have := (inv_step c hsf s s' l hi hs).2
  unfold goodStart at this
  simp [h0, h1] at this
  rcases this with (h | h) | h
  · exact Or.inl h
  · exact Or.inr (Or.inl h)
  · exact Or.inr (Or.inr h)

/-- **The call ends when the caller's context ends**: whenever the context is
done and the caller has not returned, its return step is enabled. -/
theorem ctx_ends_call (c : Cfg) (s : St) (h1 : s.ctxDone = true) (h2 : s.result = .none) :
    step c s .mCtx = some { s with result := .ctx } := by
  simp [step, h1, h2]

/-- The order of the primary's two statements matters: with `close(primDone)`
before the send (the code before 0fdd322) a standby secondary overtakes an
in-time primary. Witness schedule, checked by evaluation. -/
theorem close_before_send_is_wrong :
    ∃ ls s, run ⟨true, true, true, false⟩ init ls = some s ∧ s.result = .sec ∧ s.sqExcuse = false :=
  ⟨[.sStart, .sFinish, .pFinish, .pOp, .sWaitDone, .mRecv], _, rfl, rfl, rfl⟩

/-! ### The threshold timer comes from a process-wide pool

`Model.C20.init` starts every call with an unfired threshold timer. The timer
is borrowed from `pkg/pool`, so that is a statement about what earlier calls
left behind. -/
section Pool
open Model.C20Pool

theorem use_keeps_inv (us : List Use) : ∀ t : PTimer, (t.armed = true → t.tick = false) →
    (us.foldl use t).armed = true → (us.foldl use t).tick = false := by
  induction us with
  | nil => intro t h; exact h
  | cons u us ih =>
    intro t h
    apply ih
    cases u with
    | fire =>
      cases ha : t.armed
      · simp [use, ha]
      · simp [use, ha]
    | recv => intro _; rfl

/-- **A call starts with an unfired threshold timer.** Whatever happened to the
timer during any number of earlier borrows (it fired or not, its tick was
received or not, in any order), `GetTimer` hands it out pending and with an
empty channel - provided `ReleaseTimer` drains a timer that had already fired. -/
theorem handed_out_unfired (hist : List (List Use)) :
    (handedOut true hist).armed = true ∧ (handedOut true hist).tick = false := by
  induction hist with
  | nil => exact ⟨rfl, rfl⟩
  | cons us older ih =>
    refine ⟨rfl, ?_⟩
    have h := use_keeps_inv us (handedOut true older) (fun _ => ih.2)
    simp only [handedOut, reset, release]
    cases ha : (us.foldl use (handedOut true older)).armed
    · simp
    · simpa using h ha

/-- ... so the theorems above, stated from `init`, apply to every call of a
process, not only to the first one. -/
theorem call_starts_at_init (drains : Bool) (hd : drains = true) (hist : List (List Use)) :
    initOf (handedOut drains hist) = init := by
  subst hd
  simp [initOf, (handed_out_unfired hist).2, init]

theorem fallback_safe_any_call (c : Cfg) (hsf : c.sendFirst = true) (drains : Bool) (hd : drains = true)
    (hist : List (List Use)) (ls : List Label) (s : St)
    (hr : run c (initOf (handedOut drains hist)) ls = some s) :
    (s.result = .sec → s.sqExcuse = true ∧ c.sAns = true) ∧
    (s.result = .failed → c.pAns = false ∧ c.sAns = false) ∧
    (s.result = .prim → c.pAns = true) := by
  rw [call_starts_at_init drains hd hist] at hr
  exact fallback_safe c hsf ls s hr

/-- Without the drain it is wrong: an earlier call in which the timer fired
while nobody was receiving (the primary failed early and the secondary then
worked past the threshold) leaves its tick in the pooled timer, and in the
next call the secondary is started by it at once - no `timerFire` in the
schedule - although the primary is within the threshold. -/
theorem release_without_drain_is_wrong :
    (handedOut false [[.fire]]).tick = true ∧
    ∃ s, run ⟨true, true, false, true⟩ (initOf (handedOut false [[.fire]])) [.sPickTimer] = some s ∧
      secStarted s = true ∧ primFailed ⟨true, true, false, true⟩ s = false :=
  ⟨rfl, _, rfl, rfl, rfl⟩

end Pool

/-! ### Whose tick it is

The workers of a call outlive it when the caller's context ends. The tick of
the timer a call borrowed must release THAT call's secondary, not a goroutine
left over from an earlier call that still waits on the same pooled timer. -/
section Hold
open Model.C20Hold

theorem hold_step_inv (s s' : Model.C20Hold.St) (e : Ev) (o : Option Nat) (hi : Model.C20Hold.inv s)
    (hs : Model.C20Hold.step true s e = some (s', o)) :
    Model.C20Hold.inv s' ∧ ∀ w, o = some w → s.holder = some w := by
  cases e with
  | borrow c =>
    simp only [Model.C20Hold.step] at hs
    split at hs
    · rename_i hn
      simp only [Option.some.injEq, Prod.mk.injEq] at hs
      obtain ⟨rfl, rfl⟩ := hs
      refine ⟨?_, by intro w h; cases h⟩
      intro w hw
      have := hi w hw
      rw [hn] at this; cases this
    · cases hs
  | wait c =>
    simp only [Model.C20Hold.step, Bool.not_true, Bool.or_false] at hs
    split at hs
    · rename_i hc
      simp only [Option.some.injEq, Prod.mk.injEq] at hs
      obtain ⟨rfl, rfl⟩ := hs
      refine ⟨?_, by intro w h; cases h⟩
      intro w hw
      simp only [List.mem_append, List.mem_singleton] at hw
      cases hw with
      | inl h => exact hi w h
      | inr h => subst h; simpa using hc
    · cases hs
  | leave c =>
    simp only [Model.C20Hold.step, Option.some.injEq, Prod.mk.injEq] at hs
    obtain ⟨rfl, rfl⟩ := hs
    refine ⟨?_, by intro w h; cases h⟩
    intro w hw
    exact hi w (List.mem_filter.mp hw).1
  | release c =>
    simp only [Model.C20Hold.step, Bool.not_true, Bool.false_or] at hs
    split at hs
    · rename_i hc
      simp only [Option.some.injEq, Prod.mk.injEq] at hs
      obtain ⟨rfl, rfl⟩ := hs
      refine ⟨?_, by intro w h; cases h⟩
      intro w hw
      simp only [Bool.and_eq_true, decide_eq_true_eq, Bool.not_eq_true', List.contains_eq_mem, decide_eq_false_iff_not] at hc
      have h1 := hi w hw
      rw [hc.1] at h1
      cases h1
      exact absurd hw hc.2
    · cases hs
  | fire =>
    simp only [Model.C20Hold.step] at hs
    split at hs
    · cases hw : s.waiters with
      | nil =>
        rw [hw] at hs
        simp only [Option.some.injEq, Prod.mk.injEq] at hs
        obtain ⟨rfl, rfl⟩ := hs
        refine ⟨?_, by intro w h; cases h⟩
        intro w hmem
        simp at hmem
      | cons w ws =>
        rw [hw] at hs
        simp only [Option.some.injEq, Prod.mk.injEq] at hs
        obtain ⟨rfl, rfl⟩ := hs
        refine ⟨?_, ?_⟩
        · intro x hx
          exact hi x (by rw [hw]; exact List.mem_cons_of_mem _ hx)
        · intro x hx
          cases hx
          exact hi w (by rw [hw]; exact List.mem_cons_self ..)
    · cases hs

/-- **The tick of a call's threshold timer goes to that call.** After any history of
borrows, waits, releases and ticks - including calls that ended while their
workers were still around - whoever receives a tick belongs to the call that
holds the timer at that moment, provided the goroutine that waits on the timer
is the one that borrows and releases it (`c20TimerHeldByItsReader`). -/
theorem tick_goes_to_the_holder (es : List Ev) : ∀ (s s' : Model.C20Hold.St), Model.C20Hold.inv s →
    ∀ (got : List Nat) (e : Ev) (s'' : Model.C20Hold.St) (w : Nat),
    Model.C20Hold.run true s es = some (s', got) →
    Model.C20Hold.step true s' e = some (s'', some w) → s'.holder = some w := by
  induction es with
  | nil =>
    intro s s' hi got e s'' w hr hs
    simp only [Model.C20Hold.run, Option.some.injEq, Prod.mk.injEq] at hr
    obtain ⟨rfl, _⟩ := hr
    exact (hold_step_inv s s'' e (some w) hi hs).2 w rfl
  | cons e0 es ih =>
    intro s s' hi got e s'' w hr hs
    simp only [Model.C20Hold.run] at hr
    split at hr
    · cases hr
    · rename_i s1 o hs1
      split at hr
      · cases hr
      · rename_i s2 got2 hr2
        simp only [Option.some.injEq, Prod.mk.injEq] at hr
        obtain ⟨rfl, _⟩ := hr
        exact ih s1 s2 (hold_step_inv s s1 e0 o hi hs1).1 got2 e s'' w hr2 hs

theorem tick_goes_to_the_holder_from_init (readerHolds : Bool) (hh : readerHolds = true) (es : List Ev)
    (s' s'' : Model.C20Hold.St) (got : List Nat) (e : Ev) (w : Nat)
    (hr : Model.C20Hold.run readerHolds Model.C20Hold.init es = some (s', got))
    (hs : Model.C20Hold.step readerHolds s' e = some (s'', some w)) : s'.holder = some w := by
  subst hh
  exact tick_goes_to_the_holder es _ s' (by intro w hw; cases hw) got e s'' w hr hs

/-- If the caller borrows and releases the timer while the goroutine it started
waits on it, it is wrong: call 1 is abandoned by its caller while its secondary
waits for the threshold (release 1 with 1 still waiting); call 2 gets the same
timer, its secondary waits too; the tick goes to call 1's leftover goroutine and
call 2's threshold never passes. -/
theorem caller_held_timer_is_wrong :
    (Model.C20Hold.run false Model.C20Hold.init [.borrow 1, .wait 1, .release 1, .borrow 2, .wait 2, .fire]).map
      (fun r => (r.1.holder, r.2, r.1.waiters, r.1.armed)) = some (some 2, [1], [2], false) := by decide

/-- ... and with the timer held by its reader that history is not possible. -/
theorem reader_held_timer_refuses_it :
    Model.C20Hold.run true Model.C20Hold.init [.borrow 1, .wait 1, .release 1] = none := by decide

end Hold

/-! ### "Within the threshold" means within the CONFIGURED threshold

The theorems above leave the moment of `timerFire` to the environment. Here the
steps carry times. The timer is created with `Gen.fallbackThreshold ms` - the
T1 translation of `newFallbackPlugin` applied to the configured `threshold: ms` -
and cannot fire earlier than that after the start of the call (`admissible`).
By `Refine.C20.configured_threshold_honoured` that duration is `ms` itself for
every positive `ms`, so nothing that needs the timer happens before `ms`. -/
section Time

theorem timer_step (c : Cfg) (s s' : St) (l : Label) (hs : step c s l = some s') (hl : l ≠ .timerFire) :
    s'.timer = s.timer := by
  cases l <;> simp only [step, primOp, sendSec] at hs
  all_goals first
    | contradiction
    | (repeat' split at hs) <;> first
        | contradiction
        | (injection hs with hs; subst hs; rfl)

theorem secCtx_step (c : Cfg) (s s' : St) (l : Label) (hs : step c s l = some s') (hl : l ≠ .secCtxFire) :
    s'.secCtx = s.secCtx := by
  cases l <;> simp only [step, primOp, sendSec] at hs
  all_goals first
    | contradiction
    | (repeat' split at hs) <;> first
        | contradiction
        | (injection hs with hs; subst hs; rfl)

/-- the timer has fired only if the schedule contains its firing -/
theorem timer_run (c : Cfg) (ls : List Label) : ∀ s s', run c s ls = some s' → s'.timer = true →
    s.timer = true ∨ Label.timerFire ∈ ls := by
  induction ls with
  | nil => intro s s' hr ht; simp [run] at hr; subst hr; exact Or.inl ht
  | cons l ls ih =>
    intro s s' hr ht
    simp only [run] at hr
    cases hs : step c s l with
    | none => rw [hs] at hr; cases hr
    | some s1 =>
      rw [hs] at hr
      rcases ih s1 s' hr ht with h | h
      · by_cases hl : l = .timerFire
        · exact Or.inr (by simp [hl])
        · exact Or.inl (by rw [← timer_step c s s1 l hs hl]; exact h)
      · exact Or.inr (List.mem_cons_of_mem _ h)

theorem secCtx_run (c : Cfg) (ls : List Label) : ∀ s s', run c s ls = some s' → s'.secCtx = true →
    s.secCtx = true ∨ Label.secCtxFire ∈ ls := by
  induction ls with
  | nil => intro s s' hr ht; simp [run] at hr; subst hr; exact Or.inl ht
  | cons l ls ih =>
    intro s s' hr ht
    simp only [run] at hr
    cases hs : step c s l with
    | none => rw [hs] at hr; cases hr
    | some s1 =>
      rw [hs] at hr
      rcases ih s1 s' hr ht with h | h
      · by_cases hl : l = .secCtxFire
        · exact Or.inr (by simp [hl])
        · exact Or.inl (by rw [← secCtx_step c s s1 l hs hl]; exact h)
      · exact Or.inr (List.mem_cons_of_mem _ h)

/-- nothing the timer does happens before the duration it was created with -/
theorem no_fire_before (th : Int) (tls : List TLabel) (hadm : admissible th tls = true)
    (hin : ∀ e ∈ tls, e.1 < th) : Label.timerFire ∉ labelsOf tls := by
  intro hm
  simp only [labelsOf, List.mem_map] at hm
  obtain ⟨e, he, hl⟩ := hm
  have h1 := hin e he
  simp only [admissible, List.all_eq_true] at hadm
  have h2 := hadm e he
  simp [hl] at h2
  omega

/-- with a primary that answers, the ghost `sqExcuse` means: the timer had fired or the
secondary's own deadline had passed -/
def exc (s : St) : Prop := s.sqExcuse = true → s.timer = true ∨ s.secCtx = true

theorem exc_step (c : Cfg) (hp : c.pAns = true) (s s' : St) (l : Label) (hs : step c s l = some s')
    (he : exc s) : exc s' := by
  unfold exc at *
  cases l <;> simp only [step, primOp, sendSec, primFailed, hp] at hs
  all_goals first
    | contradiction
    | (repeat' split at hs) <;> first
        | contradiction
        | (injection hs with hs; subst hs; simp_all)

theorem exc_run (c : Cfg) (hp : c.pAns = true) (ls : List Label) : ∀ s s', exc s → run c s ls = some s' → exc s' := by
  induction ls with
  | nil => intro s s' he hr; simp [run] at hr; subst hr; exact he
  | cons l ls ih =>
    intro s s' he hr
    simp only [run] at hr
    cases hs : step c s l with
    | none => rw [hs] at hr; cases hr
    | some s1 => rw [hs] at hr; exact ih s1 s' (exc_step c hp s s1 l hs he) hr

/-- the primary's answer is queued, and it was queued first -/
def pq (c : Cfg) (s : St) : Prop := pSent c s = true ∧ s.pFirst = true

theorem pq_step (c : Cfg) (s s' : St) (l : Label) (hs : step c s l = some s') (h : pq c s) : pq c s' := by
  unfold pq at *
  obtain ⟨h1, h2⟩ := h
  cases l <;> simp only [step, primOp, sendSec] at hs
  all_goals first
    | contradiction
    | (repeat' split at hs) <;> first
        | contradiction
        | (injection hs with hs; subst hs; simp_all [pSent] <;> decide)

theorem pq_run (c : Cfg) (ls : List Label) : ∀ s s', pq c s → run c s ls = some s' → pq c s' := by
  induction ls with
  | nil => intro s s' he hr; simp [run] at hr; subst hr; exact he
  | cons l ls ih =>
    intro s s' he hr
    simp only [run] at hr
    cases hs : step c s l with
    | none => rw [hs] at hr; cases hr
    | some s1 => rw [hs] at hr; exact ih s1 s' (pq_step c s s1 l hs he) hr

/-- **The primary's answer wins whenever it is produced within the configured
threshold.** Configured `threshold: ms` (any positive number of milliseconds);
`pre` is what happens before `ms` have passed since the start of the call, in
any interleaving, the timer obeying the duration the plugin was built with
(`Gen.fallbackThreshold ms`) and the secondary's own deadline not yet over. If
by then the primary's answer is queued, then whatever happens afterwards
(`post`: the timer fires, the standby secondary is released, contexts end, the
caller polls) the caller's result is never the secondary's answer. -/
theorem primary_in_time_wins (c : Cfg) (hsf : c.sendFirst = true) (hp : c.pAns = true)
    (ms : Int) (hms : 0 < ms) (pre post : List TLabel) (s1 s2 : St)
    (hadm : admissible (Gen.fallbackThreshold ms) pre = true)
    (hin : ∀ e ∈ pre, e.1 < ms * 1000000)
    (hsc : Label.secCtxFire ∉ labelsOf pre)
    (h1 : run c init (labelsOf pre) = some s1) (hq : pSent c s1 = true)
    (h2 : run c s1 (labelsOf post) = some s2) : s2.result ≠ .sec := by
  rw [Refine.C20.configured_threshold_honoured ms hms] at hadm
  have hnf := no_fire_before _ pre hadm hin
  have ht : s1.timer = false := by
    cases h : s1.timer with
    | false => rfl
    | true =>
      rcases timer_run c _ init s1 h1 h with h' | h'
      · cases h'
      · exact absurd h' hnf
  have hc : s1.secCtx = false := by
    cases h : s1.secCtx with
    | false => rfl
    | true =>
      rcases secCtx_run c _ init s1 h1 h with h' | h'
      · cases h'
      · exact absurd h' hsc
  have he : s1.sqExcuse = false := by
    cases h : s1.sqExcuse with
    | false => rfl
    | true =>
      have := exc_run c hp _ init s1 (by intro h0; cases h0) h1 h
      simp [ht, hc] at this
  have hi1 := inv_run c hsf _ init s1 (inv_init c) h1
  have hi2 := inv_run c hsf _ s1 s2 hi1 h2
  intro hres
  simp only [inv, Bool.and_eq_true] at hi1 hi2
  obtain ⟨⟨⟨⟨⟨⟨⟨⟨⟨⟨_, a2⟩, a3⟩, _⟩, _⟩, _⟩, _⟩, _⟩, _⟩, _⟩, _⟩ := hi1
  obtain ⟨⟨⟨⟨⟨⟨⟨⟨⟨⟨_, _⟩, _⟩, _⟩, _⟩, _⟩, _⟩, b8⟩, _⟩, _⟩, _⟩ := hi2
  cases hf : s1.pFirst with
  | true =>
    have := pq_run c _ s1 s2 ⟨hq, hf⟩ h2
    simp [hres, hp, this.1, this.2] at b8
  | false =>
    simp [hq, hf] at a3
    simp [a3, he, hf] at a2
    simp [hres, a2] at b8

/-- **Without always_standby the secondary is not even started while the primary
is within the configured threshold**: before `ms` have passed, with a primary
that has not failed, `secondary.Exec` has not been invoked. -/
theorem secondary_not_started_within_threshold (c : Cfg) (hsf : c.sendFirst = true) (hp : c.pAns = true)
    (hsb : c.standby = false) (ms : Int) (hms : 0 < ms) (pre : List TLabel) (s : St)
    (hadm : admissible (Gen.fallbackThreshold ms) pre = true)
    (hin : ∀ e ∈ pre, e.1 < ms * 1000000)
    (h1 : run c init (labelsOf pre) = some s) : secStarted s = false := by
  rw [Refine.C20.configured_threshold_honoured ms hms] at hadm
  have hnf := no_fire_before _ pre hadm hin
  have ht : s.timer = false := by
    cases h : s.timer with
    | false => rfl
    | true =>
      rcases timer_run c _ init s h1 h with h' | h'
      · cases h'
      · exact absurd h' hnf
  have hi := inv_run c hsf _ init s (inv_init c) h1
  simp only [inv, Bool.and_eq_true] at hi
  obtain ⟨⟨⟨⟨⟨⟨⟨⟨⟨⟨a1, _⟩, _⟩, _⟩, _⟩, _⟩, _⟩, _⟩, _⟩, _⟩, _⟩ := hi
  simpa [hsb, ht, primFailed, hp] using a1

/-- The admissibility hypothesis is what carries the configured value: a plugin
that is configured with 8000 ms but built with 500 ms (a "sanitised" threshold)
starts the secondary and returns its answer 500 ms into the call, long before
the 8000 ms are over. -/
theorem replaced_threshold_is_wrong :
    let pre : List TLabel := [(500000000, .timerFire), (500000000, .sPickTimer), (500000000, .sFinish),
      (500000000, .sSend), (500000000, .mRecv)]
    admissible (500 * 1000000) pre = true ∧ (∀ e ∈ pre, e.1 < 8000 * 1000000) ∧
    ∃ s, run ⟨true, true, false, true⟩ init (labelsOf pre) = some s ∧ s.result = .sec ∧ secStarted s = true := by
  refine ⟨by decide, by decide, _, rfl, rfl, rfl⟩

/-- non-vacuity of `primary_in_time_wins`: configured 8000 ms, a finished standby secondary, the primary's
answer queued 900 ms into the call; afterwards the timer fires and the secondary is released, the caller polls -/
example :
    let c : Cfg := ⟨true, true, true, true⟩
    let pre : List TLabel := [(0, .sStart), (0, .sFinish), (900000000, .pFinish), (900000000, .pOp)]
    let post : List TLabel := [(900000000, .pOp), (8000000000, .timerFire), (8000000000, .sWaitTimer), (8000000000, .mRecv)]
    admissible (Gen.fallbackThreshold 8000) pre = true ∧ (∀ e ∈ pre, e.1 < 8000 * 1000000) ∧
    Label.secCtxFire ∉ labelsOf pre ∧ (run c init (labelsOf pre)).map (pSent c) = some true ∧
    (run c init (labelsOf (pre ++ post))).map (·.result) = some .prim := by decide

end Time

/-! ### The queries the workers run on ("workers run on copies of the query context")

`Model.C20Copy`: the caller's, the primary's and the secondary's query after `qCtx.Copy()` twice,
under any sequence of edits of / looks at their own query by the two workers. With deep copies a
worker reads what it would read if it were alone with the caller's query: nothing the other branch
does to ITS query (`ecs_handler`, `forward_edns0opt` in one branch only) reaches the query this
branch sends upstream, in either order, and the caller's query is what it was. So "the secondary's
answer" that `fallback_safe` speaks of is an answer to the caller's query, not to a query the
primary wrote. -/
section copies
open Model.C20Copy

theorem sees_deep (w : Who) (c : Cells) (evs : List Ev) : sees true w c evs = solo w (c.get w) evs := by
  induction evs generalizing c with
  | nil => rfl
  | cons ev evs ih =>
    cases ev with
    | edit w' e =>
      simp only [sees, solo]
      rw [ih]
      cases w <;> cases w' <;> simp [Cells.edit, Cells.get]
    | look w' =>
      simp only [sees, solo]
      rw [ih]

theorem final_deep_caller (c : Cells) (evs : List Ev) : (final true c evs).caller = c.caller := by
  induction evs generalizing c with
  | nil => rfl
  | cons ev evs ih =>
    cases ev with
    | edit w e =>
      simp only [final]
      rw [ih]
      cases w <;> simp [Cells.edit]
    | look w => simp only [final]; exact ih c

/-- **Workers share nothing with each other or with the caller.** For every caller's query and every
interleaving of the two workers' edits and reads: each worker reads exactly what it would read alone,
and the caller's query is unchanged afterwards. -/
theorem workers_run_on_private_queries (q : Opts) (evs : List Ev) :
    sees true .prim (fork q) evs = solo .prim q evs ∧ sees true .sec (fork q) evs = solo .sec q evs ∧
    (final true (fork q) evs).caller = q :=
  ⟨sees_deep .prim (fork q) evs, sees_deep .sec (fork q) evs, final_deep_caller (fork q) evs⟩

/-- a branch that does not edit its query sends the caller's query, whatever the other branch does to its own -/
theorem unedited_branch_sends_callers_query (w : Who) (q : Opts) (evs : List Ev)
    (h : ∀ e, Ev.edit w e ∉ evs) : ∀ o ∈ sees true w (fork q) evs, o = q := by
  rw [sees_deep]
  have hq : (fork q).get w = q := by cases w <;> rfl
  rw [hq]
  clear hq
  induction evs generalizing q with
  | nil => intro o ho; cases ho
  | cons ev evs ih =>
    have h' : ∀ e, Ev.edit w e ∉ evs := fun e hm => h e (List.mem_cons_of_mem _ hm)
    cases ev with
    | edit w' e =>
      have hne : ¬ w' = w := fun heq => h e (by rw [heq]; exact List.mem_cons_self ..)
      simp only [solo, hne, if_false]
      exact ih q h'
    | look w' =>
      simp only [solo]
      split
      · intro o ho
        cases ho with
        | head => rfl
        | tail _ hm => exact ih q h' o hm
      · exact ih q h'

/-- the copies of this tree: `Context.CopyTo` deep-copies the query message and `doFallback` runs each
worker on such a copy (regenerated facts) -/
def treeCopiesDeep : Bool :=
  Gen.Facts.c20CopyToQueryDeep == some true && Gen.Facts.c20WorkersRunOnCopies == some true

theorem workers_private_in_this_tree (q : Opts) (evs : List Ev) :
    sees treeCopiesDeep .sec (fork q) evs = solo .sec q evs ∧ sees treeCopiesDeep .prim (fork q) evs = solo .prim q evs ∧
    (final treeCopiesDeep (fork q) evs).caller = q := by
  have h : treeCopiesDeep = true := by decide
  rw [h]
  exact ⟨sees_deep .sec (fork q) evs, sees_deep .prim (fork q) evs, final_deep_caller (fork q) evs⟩

/-- Witness: with a copy that keeps the OPT record of its origin, the client-subnet option (code 8) the primary
adds to its query is in the query the secondary sends and in the caller's query afterwards. -/
theorem shared_opt_is_wrong :
    sees false .sec (fork []) [.edit .prim (.add 8), .look .sec] = [[8]] ∧
    solo .sec [] [.edit .prim (.add 8), .look .sec] = [[]] ∧
    (final false (fork []) [.edit .prim (.add 8), .look .sec]).caller = [8] := by decide

end copies

/-! ### Two overlapping calls never share a threshold timer
The pool has other clients (the sleep step, dual_selector). `Model.C20Share` keeps, for every timer, how often it
lies in the pool and how many borrowers hold it; `exactlyOnce` is the regenerated fact `c20PoolClientsReleaseOnce`
(and `c20ThresholdTimerFromPool` for fallback itself). -/
section share
open Model.C20Share (upd at?)

theorem share_at_mem : ∀ (s : Model.C20Share.St) (i : Nat) (y : Nat × Nat), at? s i = some y → y ∈ s
  | [], _, _, h => by simp [at?] at h
  | x :: xs, 0, y, h => by simp [at?] at h; simp [h]
  | x :: xs, n + 1, y, h => by
    simp [at?] at h
    exact List.mem_cons_of_mem _ (share_at_mem xs n y h)

theorem share_inv_upd (f : Nat × Nat → Nat × Nat) : ∀ (s : Model.C20Share.St) (i : Nat), Model.C20Share.inv s →
    (∀ y, at? s i = some y → (f y).1 + (f y).2 = 1) → Model.C20Share.inv (upd f s i)
  | [], _, h, _ => by simpa [upd] using h
  | x :: xs, 0, h, hf => by
    intro z hz
    simp [upd] at hz
    rcases hz with hz | hz
    · subst hz; exact hf x (by simp [at?])
    · exact h z (List.mem_cons_of_mem _ hz)
  | x :: xs, n + 1, h, hf => by
    intro z hz
    simp [upd] at hz
    rcases hz with hz | hz
    · subst hz; exact h _ (List.mem_cons_self ..)
    · exact share_inv_upd f xs n (fun w hw => h w (List.mem_cons_of_mem _ hw)) (fun y hy => hf y (by simpa [at?] using hy)) z hz

theorem share_inv_step (s s' : Model.C20Share.St) (e : Model.C20Share.Ev) (h : Model.C20Share.inv s) (hs : Model.C20Share.step true s e = some s') : Model.C20Share.inv s' := by
  cases e with
  | fresh =>
    simp [Model.C20Share.step] at hs; subst hs
    intro z hz
    rcases List.mem_append.mp hz with hz | hz
    · exact h z hz
    · simp at hz; subst hz; rfl
  | get i =>
    simp only [Model.C20Share.step] at hs
    cases hat : at? s i with
    | none => simp [hat] at hs
    | some y =>
      obtain ⟨p, k⟩ := y
      simp [hat] at hs
      obtain ⟨hp, hs⟩ := hs
      subst hs
      refine share_inv_upd _ s i h ?_
      intro y hy
      have := h y (share_at_mem s i y hy)
      rw [hat] at hy; cases hy
      simp at this ⊢; omega
  | release i =>
    simp only [Model.C20Share.step] at hs
    cases hat : at? s i with
    | none => simp [hat] at hs
    | some y =>
      obtain ⟨p, k⟩ := y
      simp [hat] at hs
      obtain ⟨hp, hs⟩ := hs
      subst hs
      refine share_inv_upd _ s i h ?_
      intro y hy
      have := h y (share_at_mem s i y hy)
      rw [hat] at hy; cases hy
      simp at this ⊢; omega
  | again i => simp [Model.C20Share.step] at hs

theorem share_inv_run : ∀ (evs : List Model.C20Share.Ev) (s s' : Model.C20Share.St), Model.C20Share.inv s → Model.C20Share.run true s evs = some s' → Model.C20Share.inv s'
  | [], s, s', h, hr => by simp [Model.C20Share.run] at hr; subst hr; exact h
  | e :: es, s, s', h, hr => by
    simp only [Model.C20Share.run] at hr
    cases hst : Model.C20Share.step true s e with
    | none => simp [hst] at hr
    | some s1 =>
      simp [hst] at hr
      exact share_inv_run es s1 s' (share_inv_step s s1 e h hst) hr

/-- If every client of the pool hands each timer it got back exactly once, then after ANY history of borrows and
releases by any clients no timer is held by two borrowers: two overlapping fallback calls never share a threshold timer. -/
theorem no_timer_has_two_holders (evs : List Model.C20Share.Ev) (s : Model.C20Share.St) (hr : Model.C20Share.run true Model.C20Share.init evs = some s) :
    ∀ x, x ∈ s → x.2 ≤ 1 := by
  intro x hx
  have := share_inv_run evs Model.C20Share.init s (by intro x hx; simp [Model.C20Share.init] at hx) hr x hx
  omega

/-- ... and a timer is never handed out while a borrower still holds it. -/
theorem handed_out_timer_is_unheld (evs : List Model.C20Share.Ev) (s : Model.C20Share.St) (i : Nat) (hr : Model.C20Share.run true Model.C20Share.init evs = some s) (s' : Model.C20Share.St)
    (hg : Model.C20Share.step true s (.get i) = some s') : ∃ p, at? s i = some (p, 0) := by
  simp only [Model.C20Share.step] at hg
  cases hat : at? s i with
  | none => simp [hat] at hg
  | some y =>
    obtain ⟨p, k⟩ := y
    simp [hat] at hg
    have := share_inv_run evs Model.C20Share.init s (by intro x hx; simp [Model.C20Share.init] at hx) hr _ (share_at_mem s i _ hat)
    simp at this
    exact ⟨p, by congr; omega⟩

/-- A client that hands one timer back twice (a cancelled step whose helper releases it and whose deferred release
runs as well) breaks it: the next two borrowers hold the same timer. -/
theorem double_release_is_wrong :
    Model.C20Share.run false Model.C20Share.init [.fresh, .release 0, .again 0, .get 0, .get 0] = some [(0, 2)] := by decide

end share

/-! ### Guards over the regenerated facts -/
theorem facts_guard :
    Gen.Facts.c20PrimarySendsBeforeClose = some true ∧ Gen.Facts.c20PrimaryFailClosesThenSendsNil = some true ∧
    Gen.Facts.c20RespChanCap = some 2 ∧ Gen.Facts.c20FirstSelectCases = some true ∧
    Gen.Facts.c20SecondSelectCases = some true ∧ Gen.Facts.c20CollectLoop = some true ∧
    Gen.Facts.c20ThresholdTimerFromPool = some true ∧ Gen.Facts.c20ReleaseTimerDrains = some true ∧
    Gen.Facts.c20GetTimerOnlyResets = some true ∧ Gen.Facts.c20TimerHeldByItsReader = some true ∧
    Gen.Facts.c20CopyToQueryDeep = some true ∧ Gen.Facts.c20WorkersRunOnCopies = some true ∧
    Gen.Facts.c20PoolClientsReleaseOnce = some true := by decide

/-! ### Non-vacuity: an in-time primary with a finished standby secondary; a slow primary -/
example : (run ⟨true, true, true, true⟩ init [.sStart, .sFinish, .pFinish, .pOp, .pOp, .sWaitDone, .mRecv]).map (·.result) = some .prim := by decide
example : (run ⟨true, true, false, true⟩ init [.timerFire, .sPickTimer, .sFinish, .sSend, .mRecv]).map (fun s => (s.result, s.sqExcuse)) = some (.sec, true) := by decide
example : (run ⟨false, false, false, true⟩ init [.pFinish, .pOp, .pOp, .sPickFailed, .sFinish, .sSend, .mRecv, .mRecv]).map (·.result) = some .failed := by decide

end Props.C20
