import MosdnsVerif.Props.C13

/-! C13 for `ip_set` plugins that reference other sets (`sets:`).

Two parts. (1) *Values*: a set built from its own list and the matchers of the referenced sets
(`MatcherGroup.Match` = some member says yes) contains an address iff some prefix loaded into it - its own
or, transitively, one of a referenced set - covers it (`hierarchy_correct`). (2) *Slices*: the members of a
plugin live in a Go slice that `GetIPMatcher` hands out uncopied; `NewIPSet` starts from an empty slice of its
own and only ever appends to it, therefore no later construction writes a cell an earlier plugin shows
(`buildAll_reads`) - which is what lets part (1) speak about values at all. The statement shapes part (2)
depends on are the regenerated facts `c13IPSetMg*`, `c13IPSetFresh`, `c13GetIPMatcherShape` (guard in
`Props.C13.facts_guard`). -/
namespace Props.C13
open Model.C13

/-! ### The driver's sort yields a sorted permutation -/

theorem mem_insertSorted (p x : Iv) (l : List Iv) : x ∈ insertSorted p l ↔ x = p ∨ x ∈ l := by
  induction l with
  | nil => simp [insertSorted]
  | cons q t ih =>
    unfold insertSorted
    split
    · simp
    · simp only [List.mem_cons, ih]
      constructor
      · rintro (h | h | h)
        · exact Or.inr (Or.inl h)
        · exact Or.inl h
        · exact Or.inr (Or.inr h)
      · rintro (h | h | h)
        · exact Or.inr (Or.inl h)
        · exact Or.inl h
        · exact Or.inr (Or.inr h)

theorem sorted_insertSorted (p : Iv) (l : List Iv) (hs : SortedLo l) : SortedLo (insertSorted p l) := by
  induction l with
  | nil => simp [insertSorted, SortedLo]
  | cons q t ih =>
    unfold insertSorted
    have hq : ∀ y ∈ t, q.lo ≤ y.lo := (List.pairwise_cons.mp hs).1
    have ht : SortedLo t := (List.pairwise_cons.mp hs).2
    split
    · rename_i hle
      refine List.pairwise_cons.mpr ⟨?_, hs⟩
      intro y hy
      rcases List.mem_cons.mp hy with rfl | hy
      · exact hle
      · exact Nat.le_trans hle (hq y hy)
    · rename_i hnle
      refine List.pairwise_cons.mpr ⟨?_, ih ht⟩
      intro y hy
      rcases (mem_insertSorted p y t).mp hy with rfl | hy
      · omega
      · exact hq y hy

theorem mem_sortByLo (x : Iv) (l : List Iv) : x ∈ sortByLo l ↔ x ∈ l := by
  induction l with
  | nil => simp [sortByLo]
  | cons q t ih =>
    show x ∈ insertSorted q (sortByLo t) ↔ _
    rw [mem_insertSorted, ih, List.mem_cons]

theorem sorted_sortByLo (l : List Iv) : SortedLo (sortByLo l) := by
  induction l with
  | nil => simp [sortByLo, SortedLo]
  | cons q t ih => exact sorted_insertSorted q _ ih

/-- A plugin's own list: C13 for the stored prefixes of its own rules. -/
theorem ownMatch_correct (own : List Prefix) (hst : ∀ p ∈ own, Stored p) (a : Nat) :
    ownMatch own a = true ↔ ∃ p ∈ own, p.covers a = true :=
  contains_correct own hst _ (fun x => mem_sortByLo x _) (sorted_sortByLo _) a

/-! ### Values: a set of sets contains what some loaded prefix covers -/

/-- What was built so far agrees with what was loaded so far: same number of plugins, and every built
plugin answers `true` exactly for the addresses some prefix loaded into it covers. -/
def Agree (built : List (Nat → Bool)) (loaded : List (List Prefix)) : Prop :=
  built.length = loaded.length ∧
  ∀ (j : Nat) (m : Nat → Bool) (ps : List Prefix), built[j]? = some m → loaded[j]? = some ps → ∀ a, (m a = true ↔ ∃ p ∈ ps, p.covers a = true)

theorem addSets_correct (built : List (Nat → Bool)) (loaded : List (List Prefix)) (hag : Agree built loaded)
    (refs : List Nat) : ∀ (mg : List (Nat → Bool)) (acc : List Prefix) (out : List (Nat → Bool)),
    (∀ a, groupMatch mg a = true ↔ ∃ p ∈ acc, p.covers a = true) →
    addSets built mg refs = some out →
    ∀ a, groupMatch out a = true ↔ ∃ p ∈ acc ++ refs.flatMap (fun j => loaded[j]?.getD []), p.covers a = true := by
  induction refs with
  | nil =>
    intro mg acc out hmg hout a
    simp only [addSets, Option.some.injEq] at hout
    subst hout
    simpa using hmg a
  | cons j js ih =>
    intro mg acc out hmg hout a
    unfold addSets at hout
    cases hb : built[j]? with
    | none => simp [hb] at hout
    | some m =>
      simp only [hb] at hout
      have hj : j < loaded.length := by
        have := (List.getElem?_eq_some_iff.mp hb).1
        rw [hag.1] at this; exact this
      have hl : loaded[j]? = some loaded[j] := List.getElem?_eq_getElem hj
      have hm := hag.2 j m loaded[j] hb hl
      have := ih (mg ++ [m]) (acc ++ loaded[j]) out (by
        intro a
        simp only [groupMatch, List.any_append, List.any_cons, List.any_nil, Bool.or_false, Bool.or_eq_true,
          List.mem_append]
        rw [← groupMatch, hmg a, hm a]
        constructor
        · rintro (⟨p, hp, hc⟩ | ⟨p, hp, hc⟩)
          · exact ⟨p, Or.inl hp, hc⟩
          · exact ⟨p, Or.inr hp, hc⟩
        · rintro ⟨p, hp | hp, hc⟩
          · exact Or.inl ⟨p, hp, hc⟩
          · exact Or.inr ⟨p, hp, hc⟩) hout a
      rw [this]
      simp only [List.flatMap_cons, hl, Option.getD_some, List.append_assoc]

/-- `NewIPSet` for one plugin: built on plugins that agree with what was loaded into them, it agrees with
its own rules plus everything loaded into the sets it references. -/
theorem newIPSet_correct (built : List (Nat → Bool)) (loaded : List (List Prefix)) (hag : Agree built loaded)
    (d : SetDef) (hst : ∀ p ∈ d.own, Stored p) (m : Nat → Bool) (hm : newIPSet built d = some m) (a : Nat) :
    m a = true ↔ ∃ p ∈ loadedInto loaded d, p.covers a = true := by
  unfold newIPSet at hm
  obtain ⟨out, hout, rfl⟩ := Option.map_eq_some_iff.mp hm
  refine addSets_correct built loaded hag d.refs _ d.own out ?_ hout a
  intro a
  cases ho : d.own with
  | nil => simp [groupMatch]
  | cons q t =>
    have := ownMatch_correct d.own hst a
    rw [ho] at this
    simpa [groupMatch] using this

theorem agree_snoc (built : List (Nat → Bool)) (loaded : List (List Prefix)) (hag : Agree built loaded)
    (m : Nat → Bool) (ps : List Prefix) (hm : ∀ a, m a = true ↔ ∃ p ∈ ps, p.covers a = true) :
    Agree (built ++ [m]) (loaded ++ [ps]) := by
  refine ⟨by simp [hag.1], ?_⟩
  intro j m' ps' hb hl a
  by_cases hj : j < built.length
  · rw [List.getElem?_append_left hj] at hb
    rw [List.getElem?_append_left (hag.1 ▸ hj)] at hl
    exact hag.2 j m' ps' hb hl a
  · have hj' : built.length ≤ j := Nat.le_of_not_lt hj
    rw [List.getElem?_append_right hj'] at hb
    rw [List.getElem?_append_right (hag.1 ▸ hj')] at hl
    have h0 : j - built.length = 0 := by
      cases hk : j - built.length with
      | zero => rfl
      | succ k => rw [hk] at hb; simp at hb
    rw [h0] at hb
    rw [← hag.1, h0] at hl
    simp only [List.getElem?_cons_zero, Option.some.injEq] at hb hl
    subst hb; subst hl
    exact hm a

/-- **C13 for a configuration of `ip_set` plugins** built in order, every plugin from its own rules
(stored prefixes; any number, duplicates / nesting allowed) and references to plugins built before it,
shared or nested in any way: each plugin contains an address iff some prefix loaded into it - its own
or one loaded into a set it references - covers the address. -/
theorem hierarchy_correct (ds : List SetDef) :
    ∀ (built : List (Nat → Bool)) (loaded : List (List Prefix)), Agree built loaded →
    (∀ d ∈ ds, ∀ p ∈ d.own, Stored p) →
    ∀ out, buildSets built ds = some out → Agree out (loadedAll loaded ds) := by
  induction ds with
  | nil =>
    intro built loaded hag _ out hout
    simp only [buildSets, Option.some.injEq] at hout
    subst hout
    exact hag
  | cons d ds ih =>
    intro built loaded hag hst out hout
    unfold buildSets at hout
    cases hm : newIPSet built d with
    | none => simp [hm] at hout
    | some m =>
      simp only [hm] at hout
      exact ih (built ++ [m]) (loaded ++ [loadedInto loaded d])
        (agree_snoc built loaded hag m _ (newIPSet_correct built loaded hag d (hst d (List.mem_cons_self ..)) m hm))
        (fun d' hd' => hst d' (List.mem_cons_of_mem _ hd')) out hout

theorem agree_nil : Agree [] [] := ⟨rfl, by intro j m ps hb; simp at hb⟩

/-! ### Slices: a later `NewIPSet` does not write what an earlier plugin shows -/

/-- `s` lives in an array allocated before mark `n` (or shows nothing). -/
def Before (n : Nat) (s : Slice) : Prop := s.len = 0 ∨ s.arr < n

/-- `s` is the private slice of a construction that started at mark `n`: still nil, or a view of an array
allocated since then. -/
def Own {α : Type} (n : Nat) (h : Heap α) (s : Slice) : Prop :=
  s.len ≤ s.cap ∧ (s.cap = 0 ∨ (n ≤ s.arr ∧ s.arr < h.next))

theorem read_len_zero {α : Type} (h : Heap α) (s : Slice) (hz : s.len = 0) : h.read s = [] := by
  simp [Heap.read, hz]

/-- One `p.mg = append(p.mg, x)` on a private slice: the slice stays private, shows one more member, and
no slice of an older array sees a difference. -/
theorem append_spec {α : Type} (grow : Nat → Nat) (h : Heap α) (p : Slice) (x : α) (n : Nat)
    (hn : n ≤ h.next) (ho : Own n h p) :
    Own n (h.append grow p x).1 (h.append grow p x).2 ∧ h.next ≤ (h.append grow p x).1.next ∧
    (h.append grow p x).1.read (h.append grow p x).2 = h.read p ++ [some x] ∧
    ∀ s, Before n s → (h.append grow p x).1.read s = h.read s := by
  unfold Heap.append
  by_cases hc : p.len < p.cap
  · simp only [hc, if_true]
    have hcap : p.cap ≠ 0 := by omega
    have harr : n ≤ p.arr ∧ p.arr < h.next := by
      rcases ho.2 with h0 | h1
      · exact absurd h0 hcap
      · exact h1
    refine ⟨⟨by show p.len + 1 ≤ p.cap; omega, Or.inr harr⟩, Nat.le_refl _, ?_, ?_⟩
    · simp only [Heap.read, List.range_succ, List.map_append, List.map_cons, List.map_nil]
      congr 1
      · apply List.map_congr_left
        intro i hi
        have : i ≠ p.len := by have := List.mem_range.mp hi; omega
        simp [this]
    · intro s hs
      rcases hs with hz | hlt
      · simp [Heap.read, hz]
      · simp only [Heap.read]
        apply List.map_congr_left
        intro i _
        have : s.arr ≠ p.arr := by omega
        simp [this]
  · simp only [hc, if_false]
    refine ⟨⟨by show p.len + 1 ≤ p.len + 1 + grow p.len; omega, Or.inr ⟨hn, by show h.next < h.next + 1; omega⟩⟩,
      by show h.next ≤ h.next + 1; omega, ?_, ?_⟩
    · simp only [Heap.read, List.range_succ, List.map_append, List.map_cons, List.map_nil]
      congr 1
      · apply List.map_congr_left
        intro i hi
        have : i < p.len := List.mem_range.mp hi
        simp [this]
      · simp
    · intro s hs
      rcases hs with hz | hlt
      · simp [Heap.read, hz]
      · simp only [Heap.read]
        apply List.map_congr_left
        intro i _
        have : s.arr ≠ h.next := by omega
        simp [this]

theorem appendAll_spec {α : Type} (grow : Nat → Nat) (n : Nat) (xs : List α) :
    ∀ (h : Heap α) (p : Slice), n ≤ h.next → Own n h p →
    Own n (h.appendAll grow p xs).1 (h.appendAll grow p xs).2 ∧ h.next ≤ (h.appendAll grow p xs).1.next ∧
    (h.appendAll grow p xs).1.read (h.appendAll grow p xs).2 = h.read p ++ xs.map some ∧
    ∀ s, Before n s → (h.appendAll grow p xs).1.read s = h.read s := by
  induction xs with
  | nil => intro h p _ ho; exact ⟨ho, Nat.le_refl _, by simp [Heap.appendAll], fun _ _ => rfl⟩
  | cons x xs ih =>
    intro h p hn ho
    obtain ⟨ho1, hn1, hr1, hf1⟩ := append_spec grow h p x n hn ho
    obtain ⟨ho2, hn2, hr2, hf2⟩ := ih (h.append grow p x).1 (h.append grow p x).2 (Nat.le_trans hn hn1) ho1
    have e : h.appendAll grow p (x :: xs) = (h.append grow p x).1.appendAll grow (h.append grow p x).2 xs := rfl
    rw [e]
    refine ⟨ho2, Nat.le_trans hn1 hn2, ?_, ?_⟩
    · rw [hr2, hr1]; simp
    · intro s hs
      rw [hf2 s hs, hf1 s hs]

/-- **One `NewIPSet`** (a fresh nil slice, then self-appends of `xs`): the new plugin shows exactly `xs`,
every slice of an array that existed before shows what it showed, and the new slice is itself such an
"old" slice for whatever is built next. -/
theorem newSet_spec {α : Type} (grow : Nat → Nat) (h : Heap α) (xs : List α) :
    (h.appendAll grow nilSlice xs).1.read (h.appendAll grow nilSlice xs).2 = xs.map some ∧
    (∀ s, Before h.next s → (h.appendAll grow nilSlice xs).1.read s = h.read s) ∧
    h.next ≤ (h.appendAll grow nilSlice xs).1.next ∧
    Before (h.appendAll grow nilSlice xs).1.next (h.appendAll grow nilSlice xs).2 := by
  have hown : Own h.next h nilSlice := ⟨Nat.le_refl _, Or.inl rfl⟩
  obtain ⟨ho, hn, hr, hf⟩ := appendAll_spec grow h.next xs h nilSlice (Nat.le_refl _) hown
  refine ⟨by rw [hr]; simp [Heap.read, nilSlice], hf, hn, ?_⟩
  rcases ho.2 with h0 | h1
  · exact Or.inl (by have := ho.1; omega)
  · exact Or.inr h1.2

theorem before_mono {n n' : Nat} (hle : n ≤ n') {s : Slice} (hs : Before n s) : Before n' s := by
  rcases hs with h | h
  · exact Or.inl h
  · exact Or.inr (Nat.lt_of_lt_of_le h hle)

/-- **A whole configuration.** Plugins are built one after the other; the members of each may mention the
slices of the plugins built before it (that is what a reference stores). When all are built, every plugin
still shows exactly the members it was built with: `news[i]` shows `ds[i]` applied to the slices that
existed when it was built - whatever was built afterwards, in whatever order, sharing whichever sets. -/
theorem buildAll_reads {α : Type} (grow : Nat → Nat) (ds : List (List Slice → List α)) :
    ∀ (h : Heap α) (built : List Slice), (∀ s ∈ built, Before h.next s) →
    ∃ news, (h.buildAll grow built ds).2 = built ++ news ∧ news.length = ds.length ∧
      (∀ s ∈ built, (h.buildAll grow built ds).1.read s = h.read s) ∧
      (∀ s ∈ (h.buildAll grow built ds).2, Before (h.buildAll grow built ds).1.next s) ∧
      ∀ (i : Nat) (d : List Slice → List α) (s : Slice), ds[i]? = some d → news[i]? = some s →
        (h.buildAll grow built ds).1.read s = (d (built ++ news.take i)).map some := by
  induction ds with
  | nil =>
    intro h built hinv
    exact ⟨[], by simp [Heap.buildAll], rfl, fun _ _ => rfl, hinv, by intro i d s hd; simp at hd⟩
  | cons d ds ih =>
    intro h built hinv
    obtain ⟨hr0, hf0, hn0, hb0⟩ := newSet_spec grow h (d built)
    have hinv' : ∀ s ∈ built ++ [(h.appendAll grow nilSlice (d built)).2],
        Before (h.appendAll grow nilSlice (d built)).1.next s := by
      intro s hs
      rcases List.mem_append.mp hs with hs | hs
      · exact before_mono hn0 (hinv s hs)
      · rw [List.mem_singleton.mp hs]; exact hb0
    obtain ⟨news, he, hl, hfr, hbe, hrd⟩ := ih (h.appendAll grow nilSlice (d built)).1 _ hinv'
    have e : h.buildAll grow built (d :: ds) = (h.appendAll grow nilSlice (d built)).1.buildAll grow
        (built ++ [(h.appendAll grow nilSlice (d built)).2]) ds := rfl
    rw [e]
    refine ⟨(h.appendAll grow nilSlice (d built)).2 :: news, ?_, by simp [hl], ?_, hbe, ?_⟩
    · rw [he]; simp
    · intro s hs
      rw [hfr s (List.mem_append_left _ hs), hf0 s (hinv s hs)]
    · intro i d' s hd hs
      cases i with
      | zero =>
        simp only [List.getElem?_cons_zero, Option.some.injEq] at hd hs
        subst hd; subst hs
        rw [hfr _ (List.mem_append_right _ (List.mem_singleton.mpr rfl)), hr0]
        simp
      | succ i =>
        simp only [List.getElem?_cons_succ] at hd hs
        rw [hrd i d' s hd hs]
        simp

/-! Non-vacuity: the shape of the usual configuration. `local = lan + cn + custom`, then
`direct = local + x` and `nolog = local + y`, on a runtime that gives a 3-member slice capacity 4. A
construction that *adopts* the referenced plugin's slice instead of starting from its own nil slice
(outside the discipline `buildAll_reads` is about) makes the second derived set overwrite the first one's
fourth member; the disciplined one does not. -/
def exGrow (len : Nat) : Nat := if len = 2 then 1 else 0
def exHeap : Heap Nat := ⟨fun _ _ => none, 0⟩
def exLocal := exHeap.appendAll exGrow nilSlice [1, 2, 3]
example : exLocal.2 = ⟨2, 3, 4⟩ := by decide
def exDirectBad := exLocal.1.append exGrow exLocal.2 10
def exNologBad := exDirectBad.1.append exGrow exLocal.2 20
example : exDirectBad.1.read exDirectBad.2 = [some 1, some 2, some 3, some 10] := by decide
example : exNologBad.1.read exDirectBad.2 = [some 1, some 2, some 3, some 20] := by decide
def exGood := exHeap.buildAll exGrow [] [fun _ => [1, 2, 3], fun _ => [7, 10], fun _ => [7, 20]]
example : exGood.2.map exGood.1.read = [[some 1, some 2, some 3], [some 7, some 10], [some 7, some 20]] := by decide

end Props.C13
