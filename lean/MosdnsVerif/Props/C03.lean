import MosdnsVerif.Model.Handler
import MosdnsVerif.Model.C03Udp
import MosdnsVerif.Model.C06
import MosdnsVerif.Gen.Facts

/-!
# C03 — every valid query gets one reply with its own ID and question
-/
namespace Props.C03
open Model.Handler

/-- The invariant every plugin keeps. `e` is the query the plugin was handed,
`names` the owner names in force: the current one first, then those of the
enclosing `redirect` scopes (so at top level just the client's name).
A plugin leaves ID and question of the query as it found them; a response, if
set, has the query's ID, QR set, and the query's question up to a name that is
one of `names`. -/
structure Inv (names : List Bytes) (e : Msg) (c : Ctx) : Prop where
  qid : c.q.id = e.id
  qq : c.q.question = e.question
  one : ∃ x, e.question = [x] ∧ names.head? = some x.name
  echo : ∀ r, c.resp = some r → r.id = e.id ∧ r.qr = true ∧
    ∃ x n, e.question = [x] ∧ n ∈ names ∧ r.question = [{ x with name := n }]

/-- a plugin (or a whole rest-of-chain) as a context transformer with an error flag -/
def Respects (f : Ctx → Ctx × Bool) : Prop := ∀ names e c, Inv names e c → Inv names e (f c).1

theorem setResponse_fields (c : Ctx) (m : Msg) :
    ∃ r, (c.setResponse (some m)).resp = some r ∧ r.id = m.id ∧ r.question = m.question ∧ r.qr = m.qr ∧
      r.rcode = m.rcode ∧ (c.setResponse (some m)).q = c.q := by
  unfold Ctx.setResponse
  exact ⟨_, rfl, rfl, rfl, rfl, rfl, rfl⟩

/-- a response that echoes the current query satisfies the invariant's clause -/
theorem echo_current {names : List Bytes} {e : Msg} {c : Ctx} (h : Inv names e c) (r : Msg)
    (h1 : r.id = c.q.id) (h2 : r.question = c.q.question ∨ r.question = c.q.question.take 1) (h3 : r.qr = true) :
    r.id = e.id ∧ r.qr = true ∧ ∃ x n, e.question = [x] ∧ n ∈ names ∧ r.question = [{ x with name := n }] := by
  obtain ⟨x, hx, hn⟩ := h.one
  refine ⟨by rw [h1, h.qid], h3, x, x.name, hx, ?_, ?_⟩
  · cases names with
    | nil => simp at hn
    | cons a t => simp at hn; simp [hn]
  · have : r.question = [x] := by
      rcases h2 with h2 | h2 <;> rw [h2, h.qq, hx] <;> rfl
    rw [this]

/-- **Locally generated answers** (`reject`, hosts, black_hole, arbitrary,
`GenEmptyReply`): built with `SetReply(query)`, whatever rcode and records. -/
theorem respects_local (rcode : Nat) (answer ns : List RR) :
    Respects (fun c => (localAnswer rcode answer ns c, false)) := by
  intro names e c h
  obtain ⟨r, hr, h1, h2, h3, _, hq⟩ := setResponse_fields c { setReply c.q with rcode := rcode, answer := answer, ns := ns }
  refine ⟨by simp only [localAnswer]; rw [hq]; exact h.qid, by simp only [localAnswer]; rw [hq]; exact h.qq, h.one, ?_⟩
  intro r' hr'
  simp only [localAnswer] at hr'
  rw [hr] at hr'
  injection hr' with hr'
  subst hr'
  exact echo_current h _ (by rw [h1]; rfl) (Or.inr (by rw [h2]; rfl)) (by rw [h3]; rfl)

/-- **An upstream that echoes ID and question** (forward; the transports restore the ID, C01). -/
theorem respects_upstream (up : Msg → Msg)
    (hup : ∀ q, (up q).id = q.id ∧ (up q).question = q.question ∧ (up q).qr = true) :
    Respects (fun c => (upstreamAnswer (up c.q) c, false)) := by
  intro names e c h
  obtain ⟨r, hr, h1, h2, h3, _, hq⟩ := setResponse_fields c (up c.q)
  refine ⟨by simp only [upstreamAnswer]; rw [hq]; exact h.qid, by simp only [upstreamAnswer]; rw [hq]; exact h.qq, h.one, ?_⟩
  intro r' hr'
  simp only [upstreamAnswer] at hr'
  rw [hr] at hr'
  injection hr' with hr'
  subst hr'
  exact echo_current h _ (by rw [h1, (hup c.q).1]) (Or.inl (by rw [h2, (hup c.q).2.1])) (by rw [h3, (hup c.q).2.2])

/-- **Cache hit**: the stored message was stored for the same question (C04,
C11) with QR set; the hit gets the ID of the query (`cachedResp.Id = q.Id`). -/
theorem respects_cacheHit (look : Msg → Option Msg)
    (hsound : ∀ q s, look q = some s → s.question = q.question ∧ s.qr = true) :
    Respects (fun c => (match look c.q with | some s => cacheHit s c | none => c, false)) := by
  intro names e c h
  show Inv names e (match look c.q with | some s => cacheHit s c | none => c)
  cases hl : look c.q with
  | none => exact h
  | some s =>
    simp only
    obtain ⟨r, hr, h1, h2, h3, _, hq⟩ := setResponse_fields c { s with id := c.q.id }
    refine ⟨by simp only [cacheHit]; rw [hq]; exact h.qid, by simp only [cacheHit]; rw [hq]; exact h.qq, h.one, ?_⟩
    intro r' hr'
    simp only [cacheHit] at hr'
    rw [hr] at hr'
    injection hr' with hr'
    subst hr'
    exact echo_current h _ (by rw [h1]) (Or.inl (by rw [h2]; exact (hsound _ _ hl).1)) (by rw [h3]; exact (hsound _ _ hl).2)

/-- **Plugins that only rewrite records** of an existing response (ttl, ecs_handler, ...). -/
theorem respects_mapResp (f : Msg → Msg)
    (hf : ∀ m, (f m).id = m.id ∧ (f m).question = m.question ∧ (f m).qr = m.qr) :
    Respects (fun c => ({ c with resp := c.resp.map f }, false)) := by
  intro names e c h
  refine ⟨h.qid, h.qq, h.one, ?_⟩
  intro r hr
  simp only [Option.map_eq_some_iff] at hr
  obtain ⟨m, hm, rfl⟩ := hr
  obtain ⟨a, b, x, n, hx, hn, hq⟩ := h.echo m hm
  exact ⟨by rw [(hf m).1, a], by rw [(hf m).2.2, b], x, n, hx, hn, by rw [(hf m).2.1, hq]⟩

/-- sequential composition (an error stops the chain) -/
theorem respects_comp (f g : Ctx → Ctx × Bool) (hf : Respects f) (hg : Respects g) :
    Respects (fun c => if (f c).2 then f c else g (f c).1) := by
  intro names e c h
  simp only
  split
  · exact hf names e c h
  · exact hg names e _ (hf names e c h)

/-- **redirect.** Inside its scope the rest of the chain sees the *target*
name (and may answer for it); afterwards the query's name is restored on every
path (also when the rest of the chain failed - the `defer`), names in the reply
equal to the target are restored and a CNAME is prepended. Nested redirects
and responses set before the redirect ran are covered by `names`. -/
theorem respects_redirect (target : Bytes) (next : Ctx → Ctx × Bool) (hn : Respects next) :
    Respects (redirect target next) := by
  intro names e c h
  obtain ⟨x, hx, hhead⟩ := h.one
  have hq : c.q.question = [x] := by rw [h.qq, hx]
  unfold redirect
  rw [hq]
  simp only
  -- the scope inside: the query carries the target name
  have hin : Inv (target :: names) { e with question := [{ x with name := target }] }
      { c with q := { c.q with question := [{ x with name := target }] } } := by
    refine ⟨h.qid, rfl, ⟨_, rfl, rfl⟩, ?_⟩
    intro r hr
    obtain ⟨a, b, y, n, hy, hmem, hrq⟩ := h.echo r hr
    have : y = x := by rw [hx] at hy; injection hy with hy; exact hy.symm
    subst this
    exact ⟨a, b, _, n, rfl, List.mem_cons_of_mem _ hmem, by rw [hrq]⟩
  have hout := hn _ _ _ hin
  generalize next { c with q := { c.q with question := [{ x with name := target }] } } = res at hout
  obtain ⟨c2, err⟩ := res
  simp only at hout ⊢
  have hname : x.name ∈ names := by
    cases names with
    | nil => simp at hhead
    | cons a t => simp at hhead; simp [hhead]
  refine ⟨?_, ?_, ⟨x, hx, hhead⟩, ?_⟩
  · cases hr : c2.resp <;> simp [hr] <;> exact hout.qid
  · have : c2.q.question = [{ x with name := target }] := hout.qq
    cases hr : c2.resp <;> simp [hr, this, hx]
  · intro r hr
    cases hc2 : c2.resp with
    | none => simp [hc2] at hr
    | some r2 =>
      simp [hc2] at hr
      subst hr
      obtain ⟨a, b, y, n, hy, hmem, hrq⟩ := hout.echo r2 hc2
      have hy' : y = { x with name := target } := by
        simp only at hy; injection hy with hy; exact hy.symm
      subst hy'
      refine ⟨a, b, x, ?_⟩
      by_cases hnt : n = target
      · refine ⟨x.name, hx, hname, ?_⟩
        simp [renameQ, hrq, hnt]
      · have hmem' : n ∈ names := by
          rcases List.mem_cons.mp hmem with h | h
          · exact absurd h hnt
          · exact h
        refine ⟨n, hx, hmem', ?_⟩
        simp [renameQ, hrq, hnt]

/-! ### Whole chains: any sequence program over respecting plugins respects -/

open Model.C06 in
/-- Instantiating the sequence semantics of C06 with contexts: the error value
carries the context at the moment of the error. Matchers only read. -/
structure GoodSem (sem : Sem Ctx Ctx) : Prop where
  matchRO : ∀ m c, (∃ b, sem.matchFn m c = .ok (b, c)) ∨ sem.matchFn m c = .error c
  execOk : ∀ a names e c, Inv names e c →
    match sem.execFn a c with | .ok c' => Inv names e c' | .error c' => Inv names e c'
  wrapOk : ∀ w (k : Ctx → Except Ctx Ctx),
    (∀ names e c, Inv names e c → match k c with | .ok c' => Inv names e c' | .error c' => Inv names e c') →
    ∀ names e c, Inv names e c →
      match sem.wrapFn w k c with | .ok c' => Inv names e c' | .error c' => Inv names e c'
  rejectOk : ∀ rc names e c, Inv names e c → Inv names e (sem.setResp rc c)

def InvR (names : List Bytes) (e : Msg) : Except Ctx Ctx → Prop
  | .ok c => Inv names e c
  | .error c => Inv names e c

open Model.C06 in
theorem evalMatchers_ro (sem : Sem Ctx Ctx) (hs : GoodSem sem) (ms : List (Bool × Nat)) (c : Ctx) :
    (∃ b, evalMatchers sem ms c = .ok (b, c)) ∨ evalMatchers sem ms c = .error c := by
  induction ms with
  | nil => left; exact ⟨true, rfl⟩
  | cons p ms ih =>
    obtain ⟨rev, m⟩ := p
    simp only [evalMatchers]
    rcases hs.matchRO m c with ⟨b, hb⟩ | hb
    · rw [hb]
      simp only
      split
      · exact ih
      · left; exact ⟨false, rfl⟩
    · rw [hb]; right; rfl


open Model.C06 in
theorem evalMatchers_ok_eq (sem : Sem Ctx Ctx) (hs : GoodSem sem) (ms : List (Bool × Nat)) (c c' : Ctx) (b : Bool)
    (h : evalMatchers sem ms c = .ok (b, c')) : c' = c := by
  rcases evalMatchers_ro sem hs ms c with ⟨b', hb⟩ | hb
  · rw [hb] at h; injection h with h; injection h with _ h; exact h.symm
  · rw [hb] at h; cases h

open Model.C06 in
theorem evalMatchers_err_eq (sem : Sem Ctx Ctx) (hs : GoodSem sem) (ms : List (Bool × Nat)) (c c' : Ctx)
    (h : evalMatchers sem ms c = .error c') : c' = c := by
  rcases evalMatchers_ro sem hs ms c with ⟨b', hb⟩ | hb
  · rw [hb] at h; cases h
  · rw [hb] at h; injection h with h; exact h.symm

open Model.C06 in
/-- **Every composition of respecting plugins respects the invariant** - for
sequence programs of any shape (jump/goto/return/accept/reject/wrappers), by
functional induction over the continuation semantics of C06. -/
theorem run_respects (sem : Sem Ctx Ctx) (hs : GoodSem sem) (rules : List Rule) (k : Ctx → Except Ctx Ctx) (c : Ctx) :
    (∀ names e c', Inv names e c' → InvR names e (k c')) →
    ∀ names e, Inv names e c → InvR names e (run sem rules k c) := by
  fun_induction run sem rules k c
  all_goals intro hk names e h
  case case1 => exact hk names e _ h
  case case2 => have := evalMatchers_err_eq sem hs _ _ _ (by assumption); subst this; exact h
  case case3 ih => have := evalMatchers_ok_eq sem hs _ _ _ _ (by assumption); subst this; exact ih hk names e h
  case case4 =>
    have := evalMatchers_ok_eq sem hs _ _ _ _ (by assumption); subst this
    rename_i a e' hx hm
    have h2 := hs.execOk a names e _ h
    rw [hx] at h2; exact h2
  case case5 ih =>
    have := evalMatchers_ok_eq sem hs _ _ _ _ (by assumption); subst this
    rename_i a s'' hx hm
    have h2 := hs.execOk a names e _ h
    rw [hx] at h2; exact ih hk names e h2
  case case6 ih =>
    have := evalMatchers_ok_eq sem hs _ _ _ _ (by assumption); subst this
    exact hs.wrapOk _ _ (fun names e c hc => ih c hk names e hc) names e _ h
  case case7 => have := evalMatchers_ok_eq sem hs _ _ _ _ (by assumption); subst this; exact h
  case case8 => have := evalMatchers_ok_eq sem hs _ _ _ _ (by assumption); subst this; exact hs.rejectOk _ names e _ h
  case case9 => have := evalMatchers_ok_eq sem hs _ _ _ _ (by assumption); subst this; exact hk names e _ h
  case case10 ih2 ih1 =>
    have := evalMatchers_ok_eq sem hs _ _ _ _ (by assumption); subst this
    exact ih1 (fun names e c hc => ih2 c hk names e hc) names e h
  case case11 ih1 =>
    have := evalMatchers_ok_eq sem hs _ _ _ _ (by assumption); subst this
    exact ih1 (fun names e c hc => hc) names e h


open Model.C06 in
/-- the entry sequence as the handler sees it -/
def entryOf (sem : Sem Ctx Ctx) (chain : List Rule) (c : Ctx) : Ctx × Bool :=
  match run sem chain .ok c with
  | .ok c' => (c', false)
  | .error c' => (c', true)

open Model.C06 in
theorem entry_respects (sem : Sem Ctx Ctx) (hs : GoodSem sem) (chain : List Rule) : Respects (entryOf sem chain) := by
  intro names e c h
  have := run_respects sem hs chain .ok c (fun _ _ _ hc => hc) names e h
  unfold entryOf
  cases hr : run sem chain .ok c with
  | ok c' => rw [hr] at this; exact this
  | error c' => rw [hr] at this; exact this

/-! ### The handler -/

/-- **Malformed queries get no DNS reply** (QR set, question count other than
one, answer or authority records, more than one additional record). -/
theorem handle_drops_malformed (entry : Ctx → Ctx × Bool) (truncate : Msg → Nat → Msg) (pack : Msg → Option Bytes)
    (udp : Bool) (q : Msg) (h : validQuery q = false) :
    handle entry truncate pack udp q = none ∧ reply entry truncate udp q = none := by
  simp [handle, reply, h]

theorem newContext_inv (q : Msg) (x : Question) (hq : q.question = [x]) :
    Inv [x.name] (newContext q).q (newContext q) := by
  refine ⟨rfl, rfl, ⟨x, ?_, rfl⟩, ?_⟩
  · simp [newContext, hq]
  · intro r hr; simp [newContext] at hr

/-- what the library's `Truncate` must leave alone -/
def TruncKeeps (truncate : Msg → Nat → Msg) : Prop :=
  ∀ m n, (truncate m n).id = m.id ∧ (truncate m n).question = m.question ∧ (truncate m n).qr = m.qr ∧
    (truncate m n).ra = m.ra ∧ (truncate m n).rcode = m.rcode

theorem finish_fields (truncate : Msg → Nat → Msg) (ht : TruncKeeps truncate) (udp : Bool) (c : Ctx) (m : Msg) :
    (finish truncate udp c m).id = m.id ∧ (finish truncate udp c m).question = m.question ∧
    (finish truncate udp c m).qr = m.qr ∧ (finish truncate udp c m).ra = true ∧
    (finish truncate udp c m).rcode = m.rcode := by
  unfold finish
  cases c.respOpt <;> cases udp <;> simp [ht _ _]

/-- **C03 (main).** Every well-formed query gets exactly one reply message
carrying the query's ID and question unchanged with QR and RA set - whatever
the (respecting) plugin chain did, on the error path, the no-answer path and
the answer path, over UDP and TCP - with rcode SERVFAIL if the chain failed,
REFUSED if it produced nothing, else the plugins' rcode. -/
theorem reply_echo (entry : Ctx → Ctx × Bool) (hent : Respects entry)
    (truncate : Msg → Nat → Msg) (ht : TruncKeeps truncate) (udp : Bool) (q : Msg)
    (hv : validQuery q = true) :
    ∃ r, reply entry truncate udp q = some r ∧ r.id = q.id ∧ r.question = q.question ∧ r.qr = true ∧ r.ra = true ∧
      ((entry (newContext q)).2 = true → r.rcode = 2) ∧
      ((entry (newContext q)).2 = false → (entry (newContext q)).1.resp = none → r.rcode = 5) ∧
      (∀ a, (entry (newContext q)).2 = false → (entry (newContext q)).1.resp = some a → r.rcode = a.rcode) := by
  have hone : ∃ x, q.question = [x] := by
    simp [validQuery] at hv
    match hq : q.question, hv.1.1.2 with
    | [x], _ => exact ⟨x, rfl⟩
  obtain ⟨x, hx⟩ := hone
  have hinv := hent _ _ _ (newContext_inv q x hx)
  have hqid : (newContext q).q.id = q.id := by simp [newContext]
  have hqq : (newContext q).q.question = q.question := by simp [newContext]
  unfold reply
  simp only [hv, Bool.not_true, Bool.false_eq_true, if_false]
  generalize entry (newContext q) = res at hinv ⊢
  obtain ⟨c, failed⟩ := res
  simp only at hinv ⊢
  obtain ⟨f1, f2, f3, f4, f5⟩ := finish_fields truncate ht udp c (base c failed)
  refine ⟨_, rfl, ?_⟩
  rw [f1, f2, f3, f4, f5]
  have hset : (setReply c.q).id = q.id ∧ (setReply c.q).question = q.question ∧ (setReply c.q).qr = true := by
    refine ⟨by simp [setReply, hinv.qid, hqid], ?_, rfl⟩
    simp only [setReply]
    rw [hinv.qq, hqq, hx]; rfl
  cases failed with
  | true =>
    simp only [base, if_true]
    refine ⟨hset.1, hset.2.1, hset.2.2, ?_, ?_, ?_, ?_⟩ <;> simp
  | false =>
    cases hresp : c.resp with
    | none =>
      simp only [base, hresp, Bool.false_eq_true, if_false]
      refine ⟨hset.1, hset.2.1, hset.2.2, ?_, ?_, ?_, ?_⟩ <;> simp
    | some a =>
      simp only [base, hresp, Bool.false_eq_true, if_false]
      obtain ⟨e1, e2, y, n, hy, hn, hrq⟩ := hinv.echo a hresp
      have hq' : a.question = q.question := by
        rw [hqq, hx] at hy
        injection hy with hy
        subst hy
        simp at hn
        rw [hrq, hn, hx]
      refine ⟨by rw [e1, hqid], hq', e2, ?_, ?_, ?_, ?_⟩ <;> simp

/-- **UDP size.** Over UDP the reply is what `Truncate` returns for the limit
max(512, advertised size) - computed from the client's OPT - applied *after*
the response OPT was attached; with the library's contract (`Truncate` fits
the message into the limit, setting TC when it dropped records) the reply
never exceeds that limit. -/
theorem udp_size (entry : Ctx → Ctx × Bool) (truncate : Msg → Nat → Msg) (size : Msg → Nat)
    (hfit : ∀ m n, 512 ≤ n → size (truncate m n) ≤ n) (q : Msg) (r : Msg)
    (hr : reply entry truncate true q = some r) :
    size r ≤ validUDPSize (entry (newContext q)).1.clientOpt ∧
    512 ≤ validUDPSize (entry (newContext q)).1.clientOpt := by
  have h512 : ∀ o, 512 ≤ validUDPSize o := by
    intro o; unfold validUDPSize; split <;> omega
  refine ⟨?_, h512 _⟩
  unfold reply at hr
  split at hr
  · cases hr
  · injection hr with hr
    rw [← hr]
    unfold finish
    simp only [if_true]
    exact hfit _ _ (h512 _)

/-! ### Arrival over UDP: the read loop of `ServeUDP` hands every goroutine its own query

`Model.C03Udp`: one receive buffer, a goroutine per datagram, any interleaving of loop and goroutines.
With the query unpacked inside the loop (fact `c03UdpUnpackInReadLoop`), at every point of every
schedule the replies written so far together with the queries held by pending goroutines are exactly
the well-formed datagrams received so far, each with its sender's address: a reply goes to the address
whose datagram it was computed from (by `reply_echo` it carries that datagram's ID and question),
no datagram is handled twice, and once no goroutine is pending every one was handled once. With the
unpacking left to the goroutine this is false (witness schedule below). -/
section udp
open Model.C03Udp

theorem perm_cons_eraseIdx {α : Type} : ∀ (l : List α) (i : Nat) (t : α), l[i]? = some t → l.Perm (t :: l.eraseIdx i)
  | [], _, _, h => by simp at h
  | x :: xs, 0, t, h => by
    simp at h; subst h; exact List.Perm.refl _
  | x :: xs, i + 1, t, h => by
    have ih := perm_cons_eraseIdx xs i t (by simpa using h)
    exact ((List.Perm.cons x ih).trans (List.Perm.swap t x _))

/-- every pending goroutine holds an unpacked message -/
def AllMsg {M : Type} (ts : List (Job M)) : Prop := ∀ t ∈ ts, ∃ m, t.src = .msg m

theorem received_one {D M : Type} (unpack : D → Option M) (e : Ev D) :
    received unpack [e] = (arrival unpack e).toList := by
  unfold received
  cases h : arrival unpack e <;> simp [h]

theorem pending_snoc {M : Type} (ts : List (Job M)) (a : Nat) (m : M) :
    pending (ts ++ [⟨a, Src.msg m⟩]) = pending ts ++ [(a, m)] := by
  simp [pending, List.filterMap_append, held]

theorem step_inv {D M : Type} (unpack : D → Option M) (s : St D M) (rcv : List (Nat × M)) (e : Ev D)
    (hp : (s.handled ++ pending s.tasks).Perm rcv) (ha : AllMsg s.tasks) :
    ((step unpack true s e).handled ++ pending (step unpack true s e).tasks).Perm (rcv ++ received unpack [e]) ∧
    AllMsg (step unpack true s e).tasks := by
  rw [received_one]
  cases e with
  | recv a d =>
    cases hu : unpack d with
    | none =>
      have e1 : step unpack true s (Ev.recv a d) = { s with buf := some d } := by simp [step, hu]
      have e2 : arrival unpack (Ev.recv a d) = none := by simp [arrival, hu]
      rw [e1, e2]
      simpa using And.intro hp ha
    | some m =>
      have e1 : step unpack true s (Ev.recv a d) = { s with buf := some d, tasks := s.tasks ++ [⟨a, Src.msg m⟩] } := by
        simp [step, hu]
      have e2 : arrival unpack (Ev.recv a d) = some (a, m) := by simp [arrival, hu]
      rw [e1, e2]
      refine ⟨?_, ?_⟩
      · show (s.handled ++ pending (s.tasks ++ [(⟨a, Src.msg m⟩ : Job M)])).Perm (rcv ++ [(a, m)])
        rw [pending_snoc, ← List.append_assoc]
        exact List.Perm.append_right _ hp
      · intro t ht
        rcases List.mem_append.mp ht with h | h
        · exact ha t h
        · simp at h; subst h; exact ⟨m, rfl⟩
  | run i =>
    have e2 : arrival unpack (Ev.run i : Ev D) = none := rfl
    rw [e2]
    show _ ∧ _
    simp only [Option.toList, List.append_nil]
    cases ht : s.tasks[i]? with
    | none =>
      have e1 : step unpack true s (Ev.run i) = s := by simp [step, ht]
      rw [e1]; exact ⟨hp, ha⟩
    | some t =>
      have hmem : t ∈ s.tasks := List.mem_of_getElem? ht
      obtain ⟨m, hm⟩ := ha t hmem
      have hall : AllMsg (s.tasks.eraseIdx i) := fun t' h' => ha t' (List.mem_of_mem_eraseIdx h')
      have e1 : step unpack true s (Ev.run i) =
          { s with tasks := s.tasks.eraseIdx i, handled := s.handled ++ [(t.addr, m)] } := by simp [step, ht, hm]
      rw [e1]
      refine ⟨?_, hall⟩
      have h1 : (pending s.tasks).Perm ((t.addr, m) :: pending (s.tasks.eraseIdx i)) := by
        have := (perm_cons_eraseIdx s.tasks i t ht).filterMap (held (M := M))
        simpa [pending, held, hm] using this
      have h2 : ((s.handled ++ [(t.addr, m)]) ++ pending (s.tasks.eraseIdx i)).Perm (s.handled ++ pending s.tasks) := by
        rw [List.append_assoc]
        exact List.Perm.append_left _ h1.symm
      exact h2.trans hp

theorem foldl_inv {D M : Type} (unpack : D → Option M) (evs : List (Ev D)) :
    ∀ (s : St D M) (rcv : List (Nat × M)), (s.handled ++ pending s.tasks).Perm rcv → AllMsg s.tasks →
      (((evs.foldl (step unpack true) s).handled ++ pending (evs.foldl (step unpack true) s).tasks).Perm
          (rcv ++ received unpack evs) ∧ AllMsg (evs.foldl (step unpack true) s).tasks) := by
  induction evs with
  | nil => intro s rcv hp ha; simpa [received] using And.intro hp ha
  | cons e es ih =>
    intro s rcv hp ha
    obtain ⟨hp', ha'⟩ := step_inv unpack s rcv e hp ha
    have := ih (step unpack true s e) (rcv ++ received unpack [e]) hp' ha'
    have hr : rcv ++ received unpack [e] ++ received unpack es = rcv ++ received unpack (e :: es) := by
      rw [List.append_assoc]
      show rcv ++ (List.filterMap (arrival unpack) [e] ++ List.filterMap (arrival unpack) es) = rcv ++ List.filterMap (arrival unpack) ([e] ++ es)
      rw [List.filterMap_append]
    rw [hr] at this
    simpa [List.foldl_cons] using this

/-- The accounting invariant of the UDP read loop, for every schedule. -/
theorem udp_loop_accounting {D M : Type} (unpack : D → Option M) (evs : List (Ev D)) :
    ((run unpack true evs).handled ++ pending (run unpack true evs).tasks).Perm (received unpack evs) := by
  have := (foldl_inv unpack evs ({} : St D M) [] (by simp [pending]) (by intro t h; cases h)).1
  simpa [run] using this

/-- A reply is written to an address only for a query that arrived from that address. -/
theorem udp_loop_own_query {D M : Type} (unpack : D → Option M) (evs : List (Ev D)) (a : Nat) (m : M)
    (h : (a, m) ∈ (run unpack true evs).handled) : (a, m) ∈ received unpack evs :=
  (udp_loop_accounting unpack evs).subset (List.mem_append_left _ h)

/-- Once no goroutine is pending, every well-formed datagram was handled exactly once, for its sender. -/
theorem udp_loop_all_once {D M : Type} (unpack : D → Option M) (evs : List (Ev D))
    (h : (run unpack true evs).tasks = []) : (run unpack true evs).handled.Perm (received unpack evs) := by
  have := udp_loop_accounting unpack evs
  rw [h] at this
  simpa [pending] using this

/-- Unpacking in the goroutine is wrong: two datagrams queue up, both goroutines run after the second read;
the reply written to address 1 was computed from the datagram of address 2. -/
def lateSchedule : List (Ev Nat) := [.recv 1 10, .recv 2 20, .run 0, .run 0]
theorem udp_unpack_in_goroutine_is_wrong :
    (1, 20) ∈ (run (M := Nat) some false lateSchedule).handled ∧ (1, 20) ∉ received (M := Nat) some lateSchedule ∧
    (1, 10) ∉ (run (M := Nat) some false lateSchedule).handled := by decide

example : (run (M := Nat) some true lateSchedule).handled = [(1, 10), (2, 20)] := by decide
example : (run (M := Nat) (fun d => if d < 15 then none else some d) true lateSchedule).handled = [(2, 20)] := by decide

end udp

/-! ### Locally generated empty answers: the names of the fake SOA

`hosts.LookupMsg` answers a query whose entry has no address of the asked family with an empty NOERROR reply whose
authority section is `dnsutils.FakeSOA <query name>`. The reply is owed for every legal query name (up to 255 wire
octets), so every name inside it must itself fit 255 octets: `dns.Msg.Pack` does not check that, every parser does. -/
section fakeSoa

/-- Wire lengths of the three names of the SOA built for a name of `n` wire octets: owner, MNAME, RNAME.
`constant = true` is the code as built (string literals of `nsC` / `mboxC` octets); `constant = false` derives them from
the name by prepending labels of `nsPre` / `mboxPre` octets ("in-zone" names). -/
structure SoaNames where
  owner : Nat
  ns : Nat
  mbox : Nat

def fakeSoaNames (constant : Bool) (nsC mboxC nsPre mboxPre n : Nat) : SoaNames :=
  if constant then ⟨n, nsC, mboxC⟩ else ⟨n, nsPre + n, mboxPre + n⟩

/-- every name of the record fits the 255-octet limit -/
def SoaNames.fits (s : SoaNames) : Bool := decide (s.owner ≤ 255) && decide (s.ns ≤ 255) && decide (s.mbox ≤ 255)

/-- With constant MNAME / RNAME the record is well formed for EVERY legal query name. -/
theorem fakeSoa_constant_fits (nsC mboxC nsPre mboxPre n : Nat) (hn : n ≤ 255) (h1 : nsC ≤ 255) (h2 : mboxC ≤ 255) :
    (fakeSoaNames true nsC mboxC nsPre mboxPre n).fits = true := by
  simp [fakeSoaNames, SoaNames.fits, hn, h1, h2]

/-- With names derived from the query name, every query name longer than 255 - prefix octets gets a record no parser
accepts, whatever the constants are. -/
theorem fakeSoa_in_zone_overflows (nsC mboxC nsPre mboxPre n : Nat) (h : 255 < nsPre + n ∨ 255 < mboxPre + n) :
    (fakeSoaNames false nsC mboxC nsPre mboxPre n).fits = false := by
  simp only [fakeSoaNames, SoaNames.fits, Bool.false_eq_true, if_false]
  cases h with
  | inl h => have : ¬ (nsPre + n ≤ 255) := by omega
             simp [this]
  | inr h => have : ¬ (mboxPre + n ≤ 255) := by omega
             simp [this]

/-- witness: "fake-mbox." (10 octets) in front of a legal name of 246 octets -/
theorem fakeSoa_in_zone_is_wrong : ∃ n, n ≤ 255 ∧ (fakeSoaNames false 26 28 8 10 n).fits = false :=
  ⟨246, by decide, by decide⟩

/-- As built (regenerated facts: Ns and Mbox are string literals, with their wire lengths): the fake SOA of an empty
local answer is well formed for every legal query name. Fails to compile when FakeSOA derives them from its argument. -/
theorem fakeSoa_as_built (nsPre mboxPre n : Nat) (hn : n ≤ 255) :
    (fakeSoaNames (Gen.Facts.c03FakeSoaNamesConstant == some true) (Gen.Facts.c03FakeSoaNsWire.getD 256)
      (Gen.Facts.c03FakeSoaMboxWire.getD 256) nsPre mboxPre n).fits = true := by
  have h : (Gen.Facts.c03FakeSoaNamesConstant == some true) = true := by decide
  rw [h]
  exact fakeSoa_constant_fits _ _ _ _ n hn (by decide) (by decide)

end fakeSoa

/-! ### Guards over the regenerated facts -/
theorem facts_guard :
    Gen.Facts.c03ValidityCheck = some true ∧ Gen.Facts.c03ServfailRefusedFromQuery = some true ∧
    Gen.Facts.c03RaForced = some true ∧ Gen.Facts.c03OptThenTruncateThenPack = some true ∧
    Gen.Facts.c03UdpSizeMin512 = some true ∧ Gen.Facts.c03CacheHitIdRewritten = some true ∧
    Gen.Facts.c03RedirectRestores = some true ∧ Gen.Facts.c03LocalAnswersUseSetReply = some true ∧
    Gen.Facts.c03UdpUnpackInReadLoop = some true ∧ Gen.Facts.c03RedirectRestoresCurrentQuery = some true ∧
    Gen.Facts.c03FakeSoaNamesConstant = some true ∧ Gen.Facts.c03FakeSoaNsWire = some 26 ∧
    Gen.Facts.c03FakeSoaMboxWire = some 28 := by decide

/-! ### Non-vacuity: a valid query through redirect + local answer -/
def qx : Question := ⟨[119, 119, 119], 1, 1⟩
def q0 : Msg := { id := 77, rd := true, question := [qx] }
def chain : Ctx → Ctx × Bool := redirect [99, 100, 110] (fun c => (localAnswer 0 [.rr [99, 100, 110] 1 60 9] [] c, false))
example : validQuery q0 = true := by decide
example : (reply chain (fun m _ => m) false q0).map (fun r => (r.id, r.question, r.qr, r.ra, r.answer.length)) =
    some (77, [qx], true, true, 2) := by decide
example : (reply (fun c => (c, true)) (fun m _ => m) false q0).map (fun r => (r.id, r.question, r.rcode)) = some (77, [qx], 2) := by decide
example : reply chain (fun m _ => m) false { q0 with qr := true } = none := by decide

end Props.C03
